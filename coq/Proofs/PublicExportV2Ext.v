(** Proofs about keystore v2 export without the private bit (Model/PublicExportV2Ext.v over
    Model/KeyRingV2Ext.v): what the per-format export comes to, what import makes of a ring without
    private fields, the public-only export -> import identity for every source store, selection and
    target, and the history invariants (purpose = path; a key-pair ring has public data in every stored
    format, however its keys were rotated, changed state or were destroyed).
    The public-only path performs NO cryptographic operation: nothing here needs [Correct C]. *)
From Coq Require Import List NArith ZArith Bool Lia Permutation.
From Acra Require Import Lib.Bytes Lib.Outcome Crypto.Interface Gen.KsConsts Gen.X18Consts
  Model.KeyAtRest Model.DerV2Ext Model.KeyRingV2Ext Model.PublicExportV2Ext
  Proofs.DerV2Ext Proofs.KeyRingV2Ext Proofs.ExportImportV2Ext Proofs.HistoryV2Ext.
Import ListNotations.

(** ---------------- map_res of a decidable step ---------------- *)
Lemma map_res_decide {A B} (f : A -> res B) (g : A -> bool) (h : A -> B) (e : N) (l : list A) :
  (forall x, f x = if g x then Ok (h x) else Err e) ->
  map_res f l = if forallb g l then Ok (map h l) else Err e.
Proof.
  intros H. induction l as [|x r IH]; cbn [map_res forallb map]; [reflexivity|].
  rewrite H. destruct (g x); cbn [bind andb]; [|reflexivity].
  rewrite IH. destruct (forallb g r); reflexivity.
Qed.

(** ---------------- export, per format / key / ring / selection ---------------- *)
Section Export.
  Variable C : crypto.

  Lemma decrypt_key_data_public master path seq mode d :
    public_mode mode ->
    decrypt_key_data C master path seq mode d = if data_has_public d then Ok (strip_data d) else Err E_NO_PUBLIC_DATA.
  Proof.
    intros Hm. unfold decrypt_key_data, data_has_public. rewrite Hm.
    destruct (is_nil (kd_pub d)); reflexivity.
  Qed.

  Lemma export_key_public master path mode k :
    public_mode mode ->
    export_key C master path mode k = if key_all_public k then Ok (strip_key k) else Err E_NO_PUBLIC_DATA.
  Proof.
    intros Hm. unfold export_key, key_all_public.
    rewrite (map_res_decide _ data_has_public strip_data E_NO_PUBLIC_DATA)
      by (intros x; now apply decrypt_key_data_public).
    destruct (forallb data_has_public (k_data k)); reflexivity.
  Qed.

  Lemma export_ring_public master b mode path r :
    public_mode mode -> b_get path b = Some r ->
    export_ring C master b mode path = if ring_all_public r then Ok (strip_ring r) else Err E_NO_PUBLIC_DATA.
  Proof.
    intros Hm Hg. unfold export_ring, ring_all_public. rewrite Hg.
    rewrite (map_res_decide _ key_all_public strip_key E_NO_PUBLIC_DATA)
      by (intros x; now apply export_key_public).
    destruct (forallb key_all_public (r_keys r)); reflexivity.
  Qed.

  Lemma export_ring_missing master b mode path :
    b_get path b = None -> export_ring C master b mode path = Err E_NOT_EXIST.
  Proof. intros Hg. unfold export_ring. now rewrite Hg. Qed.

  (** exportKeyRings in a public mode: a missing ring is an ERROR; otherwise the bundle holds, in selection
      order, exactly the selected rings all of whose stored formats have public data, stripped *)
  Lemma export_rings_public master b mode paths : public_mode mode -> forall rs,
    export_rings C master b mode paths = Ok rs ->
    Forall (fun p => exists r, b_get p b = Some r) paths /\ rs = flat_map (pub_pick b) paths.
  Proof.
    intros Hm. induction paths as [|p rest IH]; intros rs H; cbn [export_rings] in H.
    - inversion H. split; [constructor | reflexivity].
    - cbn [flat_map]. unfold pub_pick at 1. destruct (b_get p b) as [r|] eqn:Eg.
      + rewrite (export_ring_public master b mode p r Hm Eg) in H.
        destruct (ring_all_public r).
        * destruct (export_rings C master b mode rest) as [rs'|e|]; cbn [bind] in H; try discriminate.
          inversion H; subst. destruct (IH rs' eq_refl) as [Hall Hrs].
          split; [constructor; [now exists r | exact Hall] | cbn [app]; now rewrite <- Hrs].
        * rewrite N.eqb_refl in H. destruct (IH rs H) as [Hall Hrs].
          split; [constructor; [now exists r | exact Hall] | exact Hrs].
      + rewrite (export_ring_missing master b mode p Eg) in H.
        assert (Hne : (E_NOT_EXIST =? E_NO_PUBLIC_DATA)%N = false) by reflexivity.
        rewrite Hne in H. discriminate.
  Qed.

  (** the converse: when every selected ring exists the export succeeds *)
  Lemma export_rings_public_ok master b mode paths :
    public_mode mode -> Forall (fun p => exists r, b_get p b = Some r) paths ->
    export_rings C master b mode paths = Ok (flat_map (pub_pick b) paths).
  Proof.
    intros Hm Hall. induction Hall as [|p rest [r Hg] _ IH]; cbn [export_rings flat_map]; [reflexivity|].
    unfold pub_pick at 1. rewrite Hg, (export_ring_public master b mode p r Hm Hg).
    destruct (ring_all_public r).
    - rewrite IH. reflexivity.
    - rewrite N.eqb_refl. exact IH.
  Qed.
End Export.

(** the decision and the result depend on public data only *)
Lemma data_has_public_strip d : data_has_public (strip_data d) = data_has_public d.
Proof. reflexivity. Qed.
Lemma key_all_public_strip k : key_all_public (strip_key k) = key_all_public k.
Proof.
  unfold key_all_public, strip_key. cbn [k_data].
  induction (k_data k) as [|d l IH]; cbn [map forallb]; [reflexivity | now rewrite IH].
Qed.
Lemma ring_all_public_strip r : ring_all_public (strip_ring r) = ring_all_public r.
Proof.
  unfold ring_all_public, strip_ring. cbn [r_keys].
  induction (r_keys r) as [|k l IH]; cbn [map forallb]; [reflexivity | now rewrite key_all_public_strip, IH].
Qed.
Lemma strip_data_idem d : strip_data (strip_data d) = strip_data d.
Proof. reflexivity. Qed.
Lemma strip_key_idem k : strip_key (strip_key k) = strip_key k.
Proof. unfold strip_key. cbn. f_equal. rewrite map_map. apply map_ext. intros d. reflexivity. Qed.
Lemma strip_ring_idem r : strip_ring (strip_ring r) = strip_ring r.
Proof. unfold strip_ring. cbn. f_equal. rewrite map_map. apply map_ext. intros k. apply strip_key_idem. Qed.

(** NON-INTERFERENCE: two source stores (any master keys, any crypto) whose selected rings agree after
    stripping — i.e. that differ arbitrarily in their private and symmetric fields — give the SAME
    exported ring list, hence the same bundle plaintext *)
Theorem public_export_ignores_secrets C1 C2 m1 m2 b1 b2 mode paths :
  public_mode mode ->
  (forall p, In p paths -> option_map strip_ring (b_get p b1) = option_map strip_ring (b_get p b2)) ->
  export_rings C1 m1 b1 mode paths = export_rings C2 m2 b2 mode paths.
Proof.
  intros Hm. induction paths as [|p rest IH]; intros H; cbn [export_rings]; [reflexivity|].
  assert (Hp := H p (or_introl eq_refl)).
  assert (Hrest : export_rings C1 m1 b1 mode rest = export_rings C2 m2 b2 mode rest)
    by (apply IH; intros q Hq; apply H; now right).
  destruct (b_get p b1) as [r1|] eqn:E1, (b_get p b2) as [r2|] eqn:E2; cbn [option_map] in Hp; try discriminate.
  - assert (Hs : strip_ring r1 = strip_ring r2) by congruence.
    rewrite (export_ring_public C1 m1 b1 mode p r1 Hm E1), (export_ring_public C2 m2 b2 mode p r2 Hm E2).
    rewrite <- (ring_all_public_strip r1), <- (ring_all_public_strip r2), Hs.
    destruct (ring_all_public (strip_ring r2)); [now rewrite Hrest | now rewrite N.eqb_refl].
  - rewrite (export_ring_missing C1 m1 b1 mode p E1), (export_ring_missing C2 m2 b2 mode p E2). reflexivity.
Qed.

(** ---------------- stripped rings ---------------- *)
Lemma strip_ring_stripped r : stripped_ring (strip_ring r).
Proof.
  unfold stripped_ring, strip_ring. cbn [r_keys]. apply Forall_forall. intros k Hk.
  apply in_map_iff in Hk. destruct Hk as [k0 [<- _]].
  unfold stripped_key, strip_key. cbn [k_data]. apply Forall_forall. intros d Hd.
  apply in_map_iff in Hd. destruct Hd as [d0 [<- _]]. split; reflexivity.
Qed.

Lemma sorted_ring_stripped r : stripped_ring r -> stripped_ring (sorted_ring r).
Proof.
  unfold stripped_ring, sorted_ring. cbn [r_keys]. intros H.
  induction H as [|k l Hk _ IH]; cbn [map]; constructor; [|exact IH].
  unfold stripped_key, sorted_data in *. cbn [k_data]. now apply set_of_forall.
Qed.

Lemma pub_ring_strip r : pub_ring (strip_ring r) = pub_ring r.
Proof.
  unfold pub_ring, strip_ring. cbn [r_keys r_current]. f_equal.
  rewrite map_map. apply map_ext. intros k. unfold pub_key, strip_key. cbn. f_equal.
  rewrite map_map. apply map_ext. intros d. reflexivity.
Qed.

Lemma sorted_data_length k : length (k_data (sorted_data k)) = length (k_data k).
Proof. unfold sorted_data. cbn [k_data]. apply set_of_length. Qed.

Lemma sorted_ring_single_inv r : Forall single (r_keys (sorted_ring r)) -> Forall single (r_keys r).
Proof.
  unfold sorted_ring. cbn [r_keys]. intros H. apply Forall_forall. intros k Hk.
  rewrite Forall_forall in H. specialize (H (sorted_data k) (in_map _ _ _ Hk)).
  unfold single in *. now rewrite sorted_data_length in H.
Qed.

(** ---------------- import of a ring without private fields ---------------- *)
Section Import.
  Variable C : crypto.

  (** addKeyData on a format without private / symmetric field: accepted only as a key pair with public
      key, stored AS IT IS, no encryption (no nonce drawn) *)
  Lemma add_key_data_stripped master path seq tape d acc acc' t :
    stripped_data d -> add_key_data C master path seq tape d acc = (Ok acc', t) ->
    t = tape /\ acc' = acc ++ [d] /\ kd_format d = FORMAT_KEYPAIR.
  Proof.
    intros [Hp Hs] H. unfold add_key_data in H.
    destruct (has_format (kd_format d) acc); [discriminate|].
    destruct (kd_format d =? FORMAT_KEYPAIR)%Z eqn:Ef.
    - apply Z.eqb_eq in Ef. destruct (is_nil (kd_pub d)); [discriminate|].
      rewrite Hp in H. cbn [is_nil] in H. inversion H as [[Ha Ht]].
      split; [reflexivity|]. split; [|exact Ef].
      f_equal. f_equal. destruct d as [f pb pr sy]. cbn in Hp, Hs |- *. now subst.
    - destruct (kd_format d =? FORMAT_SYMMETRIC)%Z; [|discriminate].
      rewrite Hs in H. cbn [is_nil] in H. discriminate.
  Qed.

  Lemma has_format_last f acc d : kd_format d = f -> has_format f (acc ++ [d]) = true.
  Proof.
    intros <-. unfold has_format. rewrite existsb_app. cbn [existsb].
    rewrite Z.eqb_refl. cbn [orb]. apply orb_true_r.
  Qed.

  (** a key imports only with at most ONE such format (a second key-pair format is a duplicate) *)
  Lemma add_all_stripped master path seq tape ds acc acc' t :
    Forall stripped_data ds -> add_all C master path seq tape ds acc = (Ok acc', t) ->
    t = tape /\ acc' = acc ++ ds /\ (length ds <= 1)%nat.
  Proof.
    intros HF H. destruct ds as [|d r]; cbn [add_all] in H.
    - inversion H; subst. rewrite app_nil_r. repeat split. cbn. lia.
    - inversion HF as [|? ? Hd Hr]; subst.
      destruct (add_key_data C master path seq tape d acc) as [x t0] eqn:Ea.
      destruct x as [a|e|]; try (inversion H; fail).
      destruct (add_key_data_stripped _ _ _ _ _ _ _ _ Hd Ea) as [Ht0 [Ha Hf]]. subst t0 a.
      destruct r as [|d' r']; cbn [add_all] in H.
      + inversion H; subst. repeat split. cbn. lia.
      + exfalso. inversion Hr as [|? ? Hd' _]; subst.
        unfold add_key_data in H.
        assert (Hf' : has_format (kd_format d') (acc ++ [d]) = true \/ kd_format d' <> FORMAT_KEYPAIR).
        { destruct (Z.eq_dec (kd_format d') FORMAT_KEYPAIR) as [E|E]; [left | now right].
          apply has_format_last. congruence. }
        destruct Hf' as [Hh|Hn].
        * rewrite Hh in H. inversion H.
        * destruct (has_format (kd_format d') (acc ++ [d])); [inversion H|].
          destruct (kd_format d' =? FORMAT_KEYPAIR)%Z eqn:Ef; [apply Z.eqb_eq in Ef; contradiction|].
          destruct Hd' as [_ Hs']. rewrite Hs' in H. cbn [is_nil] in H.
          destruct (kd_format d' =? FORMAT_SYMMETRIC)%Z; inversion H.
  Qed.

  Lemma copy_key_stripped master path tape k k' t :
    stripped_key k -> copy_key C master path tape k = (Ok k', t) ->
    t = tape /\ k' = k /\ single k.
  Proof.
    intros Hs H. unfold copy_key in H.
    destruct (time_after (k_since k) (k_until k)); [discriminate|].
    destruct (is_nil (k_data k) && negb (k_state k =? STATE_DESTROYED)%Z); [discriminate|].
    destruct (add_all C master path (k_seq k) tape (k_data k) []) as [x t0] eqn:Ea.
    destruct x as [ds|e|]; cbn [bind] in H; inversion H; subst.
    destruct (add_all_stripped _ _ _ _ _ _ _ _ Hs Ea) as [Ht [Hds Hl]]. cbn [app] in Hds. subst.
    repeat split; [now destruct k | exact Hl].
  Qed.

  Lemma copy_keys_stripped master path ks : forall tape ks' t,
    Forall stripped_key ks -> copy_keys C master path tape ks = (Ok ks', t) ->
    t = tape /\ ks' = ks /\ Forall single ks.
  Proof.
    induction ks as [|k r IH]; intros tape ks' t HF H; cbn [copy_keys] in H.
    - inversion H; subst. repeat split. constructor.
    - inversion HF as [|? ? Hk Hr]; subst.
      destruct (copy_key C master path tape k) as [x t0] eqn:Ek.
      destruct x as [k'|e|]; try (inversion H; fail).
      destruct (copy_key_stripped _ _ _ _ _ _ Hk Ek) as [Ht0 [Hk' Hs]]. subst t0 k'.
      destruct (copy_keys C master path tape r) as [y t1] eqn:Er.
      destruct y as [r'|e|]; cbn [bind] in H; inversion H; subst.
      destruct (IH _ _ _ Hr Er) as [Ht [Hr' HS]]. subst.
      repeat split. now constructor.
  Qed.

  Lemma import_asn1_stripped master b tape path base nr :
    stripped_ring nr -> im_res (import_asn1 C master b tape path base nr) = Ok tt ->
    im_tape (import_asn1 C master b tape path base nr) = tape /\ Forall single (r_keys nr) /\
    b_get path (im_b (import_asn1 C master b tape path base nr)) =
      Some {| r_purpose := r_purpose base; r_keys := r_keys nr; r_current := r_current nr |}.
  Proof.
    intros Hs H. unfold import_asn1 in *.
    destruct (copy_keys C master path tape (r_keys nr)) as [x t] eqn:Ec.
    destruct x as [ks|e|]; cbn [im_res] in H; try discriminate.
    destruct (copy_keys_stripped _ _ _ _ _ _ Hs Ec) as [Ht [Hks HS]]. subst.
    cbn [im_tape im_b]. repeat split; [exact HS|].
    rewrite b_get_put_same. f_equal. apply sorted_ring_single. exact HS.
  Qed.

  Lemma import_ring_stripped master deleg b tape nr :
    stripped_ring nr -> imports_it deleg b nr ->
    im_res (import_ring C master deleg b tape nr) = Ok tt ->
    im_tape (import_ring C master deleg b tape nr) = tape /\ Forall single (r_keys nr) /\
    exists r', b_get (r_purpose nr) (im_b (import_ring C master deleg b tape nr)) = Some r' /\
               r_keys r' = r_keys nr /\ r_current r' = r_current nr.
  Proof.
    intros Hs Hi H. unfold import_ring, imports_it in *.
    destruct (b_get (r_purpose nr) b) as [cur|] eqn:Eg.
    - rewrite Hi in *. destruct (import_asn1_stripped _ _ _ _ _ _ Hs H) as [Ht [HS Hg]].
      split; [exact Ht|]. split; [exact HS|]. eexists. split; [exact Hg|]. split; reflexivity.
    - cbn [im_res im_tape im_b] in *.
      destruct (import_asn1_stripped _ _ _ _ _ _ Hs H) as [Ht [HS Hg]].
      split; [exact Ht|]. split; [exact HS|]. eexists. split; [exact Hg|]. split; reflexivity.
  Qed.

  Theorem import_rings_stripped master deleg rs : forall b tape,
    Forall stripped_ring rs -> NoDup (map r_purpose rs) ->
    (always_imports deleg \/ Forall (fun nr => b_get (r_purpose nr) b = None) rs) ->
    im_res (import_rings C master deleg b tape rs) = Ok tt ->
    im_tape (import_rings C master deleg b tape rs) = tape /\
    Forall (fun nr => Forall single (r_keys nr) /\
              exists r', b_get (r_purpose nr) (im_b (import_rings C master deleg b tape rs)) = Some r' /\
                         r_keys r' = r_keys nr /\ r_current r' = r_current nr) rs.
  Proof.
    induction rs as [|nr rest IH]; intros b tape Hs Hnd Hdel H; [split; [reflexivity | constructor]|].
    cbn [import_rings] in *. inversion Hs as [|? ? Hnr Hs']; subst.
    cbn [map] in Hnd. inversion Hnd as [|? ? Hnotin Hnd']; subst.
    assert (Hi : imports_it deleg b nr).
    { unfold imports_it. destruct Hdel as [Ha|Hnone].
      - destruct (b_get (r_purpose nr) b); [apply Ha | exact I].
      - inversion Hnone as [|? ? Hn0 _]; subst. now rewrite Hn0. }
    destruct (im_res (import_ring C master deleg b tape nr)) as [[]|e|] eqn:Er; cbn [im_res im_tape im_b] in H |- *;
      try (rewrite Er in H; discriminate).
    destruct (import_ring_stripped _ _ _ _ _ Hnr Hi Er) as [Ht [HS [r' [Hg [Hk Hc]]]]].
    assert (Hdel' : always_imports deleg \/
                    Forall (fun x => b_get (r_purpose x) (im_b (import_ring C master deleg b tape nr)) = None) rest).
    { destruct Hdel as [Ha|Hnone]; [now left | right].
      inversion Hnone as [|? ? _ Hn']; subst.
      apply Forall_forall. intros x Hx. rewrite Forall_forall in Hn'.
      rewrite import_ring_frame; [now apply Hn'|]. intros Heq. apply Hnotin. rewrite <- Heq. now apply in_map. }
    rewrite Ht in H |- *.
    destruct (IH _ _ Hs' Hnd' Hdel' H) as [Ht' HF].
    split; [exact Ht'|]. constructor; [|exact HF].
    split; [exact HS|]. exists r'. rewrite import_rings_frame by exact Hnotin. auto.
  Qed.
End Import.

(** ---------------- the identity, for any source back end ---------------- *)
Definition purpose_ok (b : backend) : Prop := forall p r, b_get p b = Some r -> r_purpose r = p.

Lemma in_pub_pick b paths x :
  In x (flat_map (pub_pick b) paths) ->
  exists p r, In p paths /\ b_get p b = Some r /\ ring_all_public r = true /\ x = strip_ring r.
Proof.
  intros H. apply in_flat_map in H. destruct H as [p [Hp Hx]]. unfold pub_pick in Hx.
  destruct (b_get p b) as [r|] eqn:Eg; [|contradiction].
  destruct (ring_all_public r) eqn:Ea; [|contradiction].
  destruct Hx as [<-|[]]. exists p, r. auto.
Qed.

Lemma pub_pick_nodup b paths :
  purpose_ok b -> NoDup paths -> NoDup (map r_purpose (flat_map (pub_pick b) paths)).
Proof.
  intros Hp Hnd. induction Hnd as [|p rest Hnotin _ IH]; cbn [flat_map map]; [constructor|].
  rewrite map_app. unfold pub_pick at 1. destruct (b_get p b) as [r|] eqn:Eg; [|exact IH].
  destruct (ring_all_public r); [|exact IH]. cbn [map app]. constructor; [|exact IH].
  intros Hin. apply in_map_iff in Hin. destruct Hin as [x [Hx Hin]].
  destruct (in_pub_pick _ _ _ Hin) as [q [r' [Hq [Hg [_ ->]]]]].
  cbn in Hx. rewrite (Hp _ _ Hg), (Hp _ _ Eg) in Hx. subst q. contradiction.
Qed.

Section Identity.
  Variable C : crypto.

  Theorem public_export_import_identity smaster sb mode paths rs tmaster deleg tb tape :
    public_mode mode -> NoDup paths -> purpose_ok sb ->
    export_rings C smaster sb mode paths = Ok rs ->
    (always_imports deleg \/ Forall (fun p => b_get p tb = None) paths) ->
    let i := import_rings C tmaster deleg tb tape (sorted_rings rs) in
    im_res i = Ok tt ->
    (forall p, In p paths -> exists r, b_get p sb = Some r) /\
    (forall p r, In p paths -> b_get p sb = Some r -> ring_all_public r = true ->
       store_pub_view (im_b i) p = store_pub_view sb p /\ stored_stripped (im_b i) p) /\
    (forall p r, In p paths -> b_get p sb = Some r -> ring_all_public r = false -> b_get p (im_b i) = b_get p tb) /\
    (forall q, ~ In q paths -> b_get q (im_b i) = b_get q tb) /\
    Forall stripped_ring rs /\ im_tape i = tape.
  Proof.
    intros Hmode Hnd Hpurp Hexp Hdel i Hres.
    destruct (export_rings_public C smaster sb mode paths Hmode rs Hexp) as [Hall Hrs].
    assert (Hstr : Forall stripped_ring rs).
    { subst rs. apply Forall_forall. intros x Hx.
      destruct (in_pub_pick _ _ _ Hx) as [p [r [_ [_ [_ ->]]]]]. apply strip_ring_stripped. }
    set (P := map snd (set_of der_ring rs)).
    assert (HL : sorted_rings rs = map sorted_ring P) by reflexivity.
    assert (Hperm : Permutation P rs) by apply set_of_perm.
    assert (HstrL : Forall stripped_ring (sorted_rings rs)).
    { rewrite HL. apply Forall_forall. intros x Hx. apply in_map_iff in Hx. destruct Hx as [y [<- Hy]].
      apply sorted_ring_stripped. rewrite Forall_forall in Hstr. apply Hstr.
      eapply Permutation_in; [exact Hperm | exact Hy]. }
    assert (HpurL : map r_purpose (sorted_rings rs) = map r_purpose P).
    { rewrite HL, map_map. apply map_ext. intros x. reflexivity. }
    assert (HpermP : Permutation (map r_purpose (sorted_rings rs)) (map r_purpose rs)).
    { rewrite HpurL. now apply Permutation_map. }
    assert (HndL : NoDup (map r_purpose (sorted_rings rs))).
    { eapply Permutation_NoDup; [apply Permutation_sym; exact HpermP|].
      subst rs. now apply pub_pick_nodup. }
    (* the purposes in the bundle are selected paths whose ring has public data in every format *)
    assert (Hin_purp : forall q, In q (map r_purpose (sorted_rings rs)) ->
                                 In q paths /\ exists r, b_get q sb = Some r /\ ring_all_public r = true).
    { intros q Hq. eapply Permutation_in in Hq; [|exact HpermP].
      apply in_map_iff in Hq. destruct Hq as [x [<- Hx]]. rewrite Hrs in Hx.
      destruct (in_pub_pick _ _ _ Hx) as [p [r [Hp [Hg [Ha ->]]]]].
      cbn [strip_ring r_purpose]. rewrite (Hpurp _ _ Hg). split; [exact Hp | now exists r]. }
    assert (Hdel' : always_imports deleg \/ Forall (fun nr => b_get (r_purpose nr) tb = None) (sorted_rings rs)).
    { destruct Hdel as [Ha|Hnone]; [now left | right].
      apply Forall_forall. intros nr Hnr. rewrite Forall_forall in Hnone. apply Hnone.
      apply (Hin_purp (r_purpose nr)). now apply in_map. }
    destruct (import_rings_stripped C tmaster deleg (sorted_rings rs) tb tape HstrL HndL Hdel' Hres) as [Htape HF].
    fold i in Htape, HF.
    split; [intros p Hp; rewrite Forall_forall in Hall; now apply Hall|].
    split; [|split; [|split; [|split; [exact Hstr | exact Htape]]]].
    - intros p r Hp Hg Ha.
      assert (Hx : In (strip_ring r) rs).
      { rewrite Hrs. apply in_flat_map. exists p. split; [exact Hp|]. unfold pub_pick. rewrite Hg, Ha. now left. }
      assert (HxL : In (sorted_ring (strip_ring r)) (sorted_rings rs)).
      { rewrite HL. apply in_map. eapply Permutation_in; [apply Permutation_sym; exact Hperm | exact Hx]. }
      rewrite Forall_forall in HF. destruct (HF _ HxL) as [HS [r' [Hg' [Hk Hc]]]].
      apply sorted_ring_single_inv in HS.
      rewrite (sorted_ring_single _ HS) in Hg', Hk, Hc.
      cbn [strip_ring r_purpose] in Hg'. rewrite (Hpurp _ _ Hg) in Hg'.
      split.
      + unfold store_pub_view. rewrite Hg', Hg. cbn [option_map]. f_equal.
        rewrite <- (pub_ring_strip r). unfold pub_ring. now rewrite Hk, Hc.
      + exists r'. split; [exact Hg'|]. unfold stripped_ring. rewrite Hk. apply strip_ring_stripped.
    - intros p r Hp Hg Ha. apply import_rings_frame. intros Hin.
      destruct (Hin_purp _ Hin) as [_ [r0 [Hg0 Ha0]]]. congruence.
    - intros q Hq. apply import_rings_frame. intros Hin. apply Hq. now apply (Hin_purp q).
  Qed.
End Identity.

(** ---------------- history invariants (no restriction on the operations) ---------------- *)
Definition ring_inv (P : kdata -> Prop) (p : bytes) (b : backend) : Prop :=
  forall r, b_get p b = Some r -> r_purpose r = p /\ Forall (fun k => Forall P (k_data k)) (r_keys r).

Lemma sorted_ring_inv (P : kdata -> Prop) r :
  Forall (fun k => Forall P (k_data k)) (r_keys r) -> Forall (fun k => Forall P (k_data k)) (r_keys (sorted_ring r)).
Proof.
  unfold sorted_ring. cbn [r_keys]. intros H. induction H as [|k l Hk _ IH]; cbn [map]; constructor; [|exact IH].
  unfold sorted_data. cbn [k_data]. now apply set_of_forall.
Qed.

Lemma ring_inv_put (P : kdata -> Prop) p r b :
  r_purpose r = p -> Forall (fun k => Forall P (k_data k)) (r_keys r) -> ring_inv P p (b_put p r b).
Proof.
  intros Hp Hk r' Hg. rewrite b_get_put_same in Hg. inversion Hg; subst r'.
  split; [exact Hp | now apply sorted_ring_inv].
Qed.

Lemma open_rw_inv (P : kdata -> Prop) b p :
  ring_inv P p b ->
  ring_inv P p (fst (open_rw b p)) /\ r_purpose (snd (open_rw b p)) = p /\
  Forall (fun k => Forall P (k_data k)) (r_keys (snd (open_rw b p))).
Proof.
  intros Hi. unfold open_rw. destruct (b_get p b) as [r|] eqn:Eg; cbn [fst snd].
  - destruct (Hi r Eg) as [H1 H2]. auto.
  - split; [apply ring_inv_put; [reflexivity | constructor] | split; [reflexivity | constructor]].
Qed.

Lemma open_rw_frame b p q : q <> p -> b_get q (fst (open_rw b p)) = b_get q b.
Proof.
  intros Hq. unfold open_rw. destruct (b_get p b); cbn [fst]; [reflexivity | now apply b_get_put_other].
Qed.

Section HistoryInv.
  Variable C : crypto.

  (** every key that the operation can add has data satisfying [P] *)
  Definition add_ok (master : bytes) (P : kdata -> Prop) (o : rop) : Prop :=
    match o with
    | RAddKey path since until ds =>
        forall tape r k t, new_key C master path tape r since until ds = (Ok k, t) -> Forall P (k_data k)
    | _ => True
    end.

  Lemma rstep_frame master s o q :
    q <> rop_path o -> b_get q (h_b (fst (rstep C master s o))) = b_get q (h_b s).
  Proof.
    intros Hq. destruct o as [path since until ds|path seq|path seq st|path seq]; cbn [rstep rop_path] in *;
      pose proof (open_rw_frame (h_b s) path q Hq) as Hf;
      destruct (open_rw (h_b s) path) as [b1 r]; cbn [fst] in Hf.
    - destruct (new_key C master path (h_tape s) r since until ds) as [[k|e|] t']; cbn [fst h_b]; try exact Hf.
      destruct (ring_has r (k_seq k)); cbn [fst h_b]; [exact Hf|]. now rewrite b_get_put_other.
    - destruct (((r_current r =? NOKEY)%Z || ring_has r (r_current r)) && ring_has r seq); cbn [fst h_b]; [|exact Hf].
      now rewrite b_get_put_other.
    - destruct (last_state r seq) as [old|]; cbn [fst h_b]; [|exact Hf].
      destruct (transition_valid old st); cbn [fst h_b]; [|exact Hf]. now rewrite b_get_put_other.
    - destruct (last_state r seq) as [old|]; cbn [fst h_b]; [|exact Hf].
      destruct (transition_valid old STATE_DESTROYED); cbn [fst h_b]; [|exact Hf]. now rewrite b_get_put_other.
  Qed.

  Lemma rstep_inv master (P : kdata -> Prop) s o :
    add_ok master P o -> ring_inv P (rop_path o) (h_b s) ->
    ring_inv P (rop_path o) (h_b (fst (rstep C master s o))).
  Proof.
    intros Ha Hi. destruct o as [path since until ds|path seq|path seq st|path seq]; cbn [rstep rop_path add_ok] in *;
      destruct (open_rw_inv P (h_b s) path Hi) as [Hb1 [Hp Hk]];
      destruct (open_rw (h_b s) path) as [b1 r]; cbn [fst snd] in Hb1, Hp, Hk.
    - destruct (new_key C master path (h_tape s) r since until ds) as [[k|e|] t'] eqn:Ek; cbn [fst h_b]; try exact Hb1.
      destruct (ring_has r (k_seq k)); cbn [fst h_b]; [exact Hb1|].
      apply ring_inv_put; cbn [r_purpose r_keys]; [exact Hp|].
      apply Forall_app. split; [exact Hk|]. constructor; [|constructor]. eapply Ha. exact Ek.
    - destruct (((r_current r =? NOKEY)%Z || ring_has r (r_current r)) && ring_has r seq); cbn [fst h_b]; [|exact Hb1].
      apply ring_inv_put; cbn [r_purpose r_keys]; assumption.
    - destruct (last_state r seq) as [old|]; cbn [fst h_b]; [|exact Hb1].
      destruct (transition_valid old st); cbn [fst h_b]; [|exact Hb1].
      apply ring_inv_put; cbn [r_purpose r_keys]; [exact Hp|].
      apply upd_last_forall; [|exact Hk]. intros k Hkk. exact Hkk.
    - destruct (last_state r seq) as [old|]; cbn [fst h_b]; [|exact Hb1].
      destruct (transition_valid old STATE_DESTROYED); cbn [fst h_b]; [|exact Hb1].
      apply ring_inv_put; cbn [r_purpose r_keys]; [exact Hp|].
      apply upd_last_forall; [|exact Hk]. intros k _. cbn [k_data]. constructor.
  Qed.

  Lemma history_ring_inv master (P : kdata -> Prop) p ops : forall s,
    Forall (fun o => rop_path o = p -> add_ok master P o) ops ->
    ring_inv P p (h_b s) -> ring_inv P p (h_b (run_rops C master s ops)).
  Proof.
    unfold run_rops. induction ops as [|o r IH]; intros s HF Hi; cbn [fold_left]; [exact Hi|].
    inversion HF as [|? ? Ho Hr]; subst. apply IH; [exact Hr|].
    destruct (bytes_eqb p (rop_path o)) eqn:E.
    - apply bytes_eqb_eq in E. subst p. apply rstep_inv; [now apply Ho | exact Hi].
    - apply bytes_eqb_neq in E. intros r0 Hg. rewrite rstep_frame in Hg by exact E. now apply Hi.
  Qed.

  (** EVERY history: the ring stored at a path has that path as its purpose *)
  Theorem history_purpose_ok master tape ops : purpose_ok (built C master tape ops).
  Proof.
    intros p r Hg. unfold built in Hg.
    assert (Hi : ring_inv (fun _ => True) p (h_b (run_rops C master {| h_b := []; h_tape := tape |} ops))).
    { apply history_ring_inv.
      - apply Forall_forall. intros o _ _. destruct o; cbn [add_ok]; try exact I.
        intros tp r0 k t _. apply Forall_forall. intros d _. exact I.
      - intros r0 H0. discriminate. }
    exact (proj1 (Hi r Hg)).
  Qed.

  (** addKeyData of key-pair data keeps the public key *)
  Definition has_pub (d : kdata) : Prop := kd_pub d <> [].

  Lemma add_key_data_keypair master path seq tape d acc acc' t :
    kd_format d = FORMAT_KEYPAIR -> Forall has_pub acc ->
    add_key_data C master path seq tape d acc = (Ok acc', t) -> Forall has_pub acc'.
  Proof.
    intros Hf Hacc H. unfold add_key_data in H.
    destruct (has_format (kd_format d) acc); [discriminate|].
    rewrite Hf, Z.eqb_refl in H.
    destruct (is_nil (kd_pub d)) eqn:Ep; [discriminate|].
    assert (Hpub : kd_pub d <> []) by (destruct (kd_pub d); [discriminate | congruence]).
    destruct (is_nil (kd_priv d)).
    - inversion H; subst. apply Forall_app. split; [exact Hacc|]. constructor; [exact Hpub | constructor].
    - destruct (enc_field C master (key_ctx path true seq) tape (kd_priv d)) as [x t0].
      destruct x as [e|e|]; cbn [bind] in H; inversion H; subst.
      apply Forall_app. split; [exact Hacc|]. constructor; [exact Hpub | constructor].
  Qed.

  Lemma add_all_keypair master path seq ds : forall tape acc acc' t,
    Forall (fun d => kd_format d = FORMAT_KEYPAIR) ds -> Forall has_pub acc ->
    add_all C master path seq tape ds acc = (Ok acc', t) -> Forall has_pub acc'.
  Proof.
    induction ds as [|d r IH]; intros tape acc acc' t HF Hacc H; cbn [add_all] in H.
    - inversion H; now subst.
    - inversion HF as [|? ? Hd Hr]; subst.
      destruct (add_key_data C master path seq tape d acc) as [x t0] eqn:Ea.
      destruct x as [a|e|]; try (inversion H; fail).
      eapply IH; [exact Hr | | exact H]. eapply add_key_data_keypair; eassumption.
  Qed.

  Lemma keypair_add_ok master o : keypair_op o -> add_ok master has_pub o.
  Proof.
    destruct o as [path since until ds| | |]; cbn [keypair_op add_ok]; try (intros; exact I).
    intros HF tape r k t H. unfold new_key in H.
    destruct (time_after since until); [discriminate|]. destruct (is_nil ds); [discriminate|].
    destruct (add_all C master path (next_seqnum r) tape ds []) as [x t0] eqn:Ea.
    destruct x as [ds'|e|]; cbn [bind] in H; inversion H; subst. cbn [k_data].
    eapply add_all_keypair; [exact HF | constructor | exact Ea].
  Qed.

  Lemma ring_all_public_iff r :
    ring_all_public r = true <-> Forall (fun k => Forall has_pub (k_data k)) (r_keys r).
  Proof.
    unfold ring_all_public, key_all_public, data_has_public, has_pub. rewrite forallb_forall, Forall_forall.
    split; intros H k Hk; specialize (H k Hk).
    - rewrite forallb_forall in H. apply Forall_forall. intros d Hd. specialize (H d Hd).
      destruct (kd_pub d); [discriminate | congruence].
    - apply forallb_forall. intros d Hd. rewrite Forall_forall in H. specialize (H d Hd).
      destruct (kd_pub d); [contradiction | reflexivity].
  Qed.

  (** EVERY history: a key-pair ring — whatever was rotated, re-stated or DESTROYED in it, whatever the
      other rings of the store hold — has public data in every stored format of every key: a public-only
      export never leaves it out *)
  Theorem history_keypair_ring_all_public master tape ops p r :
    keypair_ring p ops -> b_get p (built C master tape ops) = Some r -> ring_all_public r = true.
  Proof.
    intros Hk Hg. apply ring_all_public_iff. unfold built in Hg.
    assert (Hi : ring_inv has_pub p (h_b (run_rops C master {| h_b := []; h_tape := tape |} ops))).
    { apply history_ring_inv.
      - unfold keypair_ring in Hk. apply Forall_forall. intros o Ho Hp. rewrite Forall_forall in Hk.
        apply keypair_add_ok. now apply Hk.
      - intros r0 H0. discriminate. }
    exact (proj2 (Hi r Hg)).
  Qed.

  (** the identity for every source history, every selection, every target back end *)
  Theorem public_export_import_identity_histories smaster stape sops mode paths rs tmaster deleg tb tape :
    public_mode mode -> NoDup paths ->
    export_rings C smaster (built C smaster stape sops) mode paths = Ok rs ->
    (always_imports deleg \/ Forall (fun p => b_get p tb = None) paths) ->
    let sb := built C smaster stape sops in
    let i := import_rings C tmaster deleg tb tape (sorted_rings rs) in
    im_res i = Ok tt ->
    (forall p, In p paths -> store_pub_view sb p <> None) /\
    (forall p, In p paths -> keypair_ring p sops ->
       store_pub_view (im_b i) p = store_pub_view sb p /\ stored_stripped (im_b i) p) /\
    (forall p r, In p paths -> b_get p sb = Some r -> ring_all_public r = true ->
       store_pub_view (im_b i) p = store_pub_view sb p /\ stored_stripped (im_b i) p) /\
    (forall p r, In p paths -> b_get p sb = Some r -> ring_all_public r = false -> b_get p (im_b i) = b_get p tb) /\
    (forall q, ~ In q paths -> b_get q (im_b i) = b_get q tb) /\
    Forall stripped_ring rs /\ im_tape i = tape.
  Proof.
    intros Hmode Hnd Hexp Hdel sb i Hres.
    destruct (public_export_import_identity C smaster sb mode paths rs tmaster deleg tb tape Hmode Hnd
                (history_purpose_ok smaster stape sops) Hexp Hdel Hres) as [Hex [Hpub [Hnot [Hframe [Hstr Htape]]]]].
    split; [intros p Hp; destruct (Hex p Hp) as [r Hg]; unfold store_pub_view; rewrite Hg; discriminate|].
    split; [|split; [exact Hpub | split; [exact Hnot | split; [exact Hframe | split; [exact Hstr | exact Htape]]]]].
    intros p Hp Hk. destruct (Hex p Hp) as [r Hg].
    apply (Hpub p r Hp Hg). eapply history_keypair_ring_all_public; eassumption.
  Qed.
End HistoryInv.

(** ---------------- the public getters are functions of the public view ---------------- *)
Lemma find_map {A B} (f : A -> B) (p : B -> bool) l :
  find p (map f l) = option_map f (find (fun x => p (f x)) l).
Proof.
  induction l as [|x r IH]; cbn [map find]; [reflexivity|]. destruct (p (f x)); [reflexivity | exact IH].
Qed.

Section Getters.
  Variable C : crypto.

  Lemma v_key_view master path r seq :
    v_key (view_ring C master path r) seq =
    option_map (view_key C master path) (find (fun k => (k_seq k =? seq)%Z) (rev (r_keys r))).
  Proof. unfold v_key, view_ring. cbn [vr_keys]. rewrite <- map_rev, find_map. reflexivity. Qed.

  Lemma pv_key_pub r seq :
    pv_key (pub_ring r) seq = option_map pub_key (find (fun k => (k_seq k =? seq)%Z) (rev (r_keys r))).
  Proof. unfold pv_key, pub_ring. cbn [pr_keys]. rewrite <- map_rev, find_map. reflexivity. Qed.

  (** CurrentKey, AllKeys, State, ValidSince, ValidUntil, Formats, PublicKey read from the stored ring
      (under ANY master key) exactly what the public view says *)
  Theorem public_getters_of_pub_view master path r :
    let v := view_ring C master path r in
    let pv := pub_ring r in
    g_current v = pg_current pv /\ g_all_keys v = pg_all_keys pv /\
    (forall seq, g_state v seq = pg_state pv seq /\ g_since v seq = pg_since pv seq /\
                 g_until v seq = pg_until pv seq /\ g_formats v seq = pg_formats pv seq) /\
    (forall seq format, g_public v seq format = pg_public pv seq format).
  Proof.
    intros v pv. split; [reflexivity|]. split.
    { unfold g_all_keys, pg_all_keys, v, pv, view_ring, pub_ring. cbn [vr_keys pr_keys].
      rewrite !map_map. reflexivity. }
    split.
    - intros seq. unfold g_state, g_since, g_until, g_formats, pg_state, pg_since, pg_until, pg_formats, v, pv.
      rewrite v_key_view, pv_key_pub.
      destruct (find (fun k => (k_seq k =? seq)%Z) (rev (r_keys r))) as [k|]; cbn [option_map]; [|auto].
      repeat split; try reflexivity. cbn. rewrite !map_map. reflexivity.
    - intros seq format. unfold g_public, v_data, pg_public, v, pv.
      rewrite v_key_view, pv_key_pub.
      destruct (find (fun k => (k_seq k =? seq)%Z) (rev (r_keys r))) as [k|]; cbn [option_map bind]; [|reflexivity].
      cbn [view_key pub_key vk_state pk_state vk_data pk_data].
      destruct (k_state k =? STATE_DESTROYED)%Z; cbn [bind]; [reflexivity|].
      rewrite !find_map. cbn [view_data vd_format pub_data pd_format].
      destruct (find (fun x => (kd_format x =? format)%Z) (k_data k)) as [d|]; cbn [option_map bind]; reflexivity.
  Qed.
End Getters.
