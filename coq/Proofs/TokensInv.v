(** Store invariant "h.(v) |-> t  =>  t.(t) |-> v" over a growing store, for every interleaving;
    reversibility for the owner and injectivity of tokens as reductions to SHA-256 collisions. *)
From Acra Require Import Lib.Bytes Lib.Outcome Lib.Sha256 Gen.TokenConsts Model.Tokens
  Proofs.Tokens Proofs.TokensCodec Proofs.TokensShape Proofs.TokensConc.
From Coq Require Import ZifyN ZifyNat ZifyBool.

(** an explicit collision of SHA-256 on distinct inputs (never assumed impossible) *)
Definition collision : Prop := exists x y : bytes, x <> y /\ sha256 x = sha256 y.

Lemma sha_eq_cases (a b : bytes) : sha256 a = sha256 b -> a = b \/ collision.
Proof.
  intros H. destruct (bytes_eqb a b) eqn:E.
  - left. apply bytes_eqb_eq. exact E.
  - right. exists a, b. split; [apply bytes_eqb_neq; exact E| exact H].
Qed.

Lemma app_eq_len_tail {A} (a b x y : list A) : length x = length y -> a ++ x = b ++ y -> a = b /\ x = y.
Proof.
  intros L H. assert (length a = length b) as La.
  { apply (f_equal (@length A)) in H. rewrite !app_length in H. lia. }
  revert b H La. induction a as [|h a IH]; intros [|k b] H La; cbn in *; try lia.
  - split; [reflexivity| exact H].
  - injection H as -> H. destruct (IH b H) as [-> ->]; [lia|]. split; reflexivity.
Qed.

Lemma type_digit_len ty : length (dec_of_N (type_num ty)) = 1%nat.
Proof. apply dec_of_N_length_small. destruct ty; vm_compute; reflexivity. Qed.

Lemma type_digit_inj ty ty' : dec_of_N (type_num ty) = dec_of_N (type_num ty') -> ty = ty'.
Proof. destruct ty, ty'; intros H; try reflexivity; vm_compute in H; discriminate H. Qed.

Lemma prefixes_differ :
  match TOK_HASH_PREFIX, TOK_TOKEN_PREFIX with
  | x :: _, y :: _ => negb (byte_eqb x y)
  | _, _ => false
  end = true.
Proof. vm_compute. reflexivity. Qed.

Lemma prefix_disjoint a b : key_for_hash a <> key_for_token b.
Proof.
  unfold key_for_hash, key_for_token. pose proof prefixes_differ as P.
  destruct TOK_HASH_PREFIX as [|x p]; [discriminate P|]. destruct TOK_TOKEN_PREFIX as [|y q]; [discriminate P|].
  intros H. injection H as -> _. rewrite byte_eqb_refl in P. discriminate P.
Qed.

(** generateDataID depends on the context only through its tail *)
Lemma tkey_tail tok c c' ty : ctx_tail c = ctx_tail c' -> tkey tok c ty = tkey tok c' ty.
Proof. intros H. unfold tkey, generate_data_id. rewrite H. reflexivity. Qed.

(** two (value, context, type) triples with the same store context and the same h-key are the
    same triple up to the context tail - or exhibit a collision *)
Lemma keys_eq_inj v c ty v0 c0 ty0 :
  agg_ctx c = agg_ctx c0 -> hkey v c ty = hkey v0 c0 ty0 ->
  collision \/ (ctx_tail c = ctx_tail c0 /\ v = v0 /\ ty = ty0).
Proof.
  intros HA HK. unfold agg_ctx in HA. destruct (sha_eq_cases _ _ HA) as [T|C]; [|left; exact C].
  unfold hkey, key_for_hash in HK. apply app_inv_head in HK. unfold generate_data_id in HK.
  destruct (sha_eq_cases _ _ HK) as [X|C]; [|left; exact C]. right.
  apply app_inv_head in X. rewrite T in X.
  apply app_eq_len_tail in X.
  - destruct X as [-> X]. apply app_inv_head in X. apply app_inv_head in X.
    split; [exact T| split; [reflexivity| apply type_digit_inj; exact X]].
  - rewrite !app_length, !type_digit_len. reflexivity.
Qed.

(** ** the invariant *)
Definition wfv (ty : ttype) (v : bytes) : Prop := bytes_to_value v ty = Ok v.
(** [tok] is a value the generator produces for [v] (on some tape), in the representation of [ty] *)
Definition generated (ty : ttype) (v tok : bytes) : Prop := exists t t', gen_value ty v t = Ok (tok, t').
Definition okt (ty : ttype) (v tok : bytes) : Prop := wfv ty tok /\ generated ty v tok.

Definition trec (s : store) (c : ctxinfo) (ty : ttype) (tok v : bytes) : Prop :=
  exists e, lookup (agg_ctx c) (tkey tok c ty) s = Some e /\ e_data e = encode_token_value v (type_num ty).

Definition inv_h (s : store) : Prop :=
  forall c ty v e, lookup (agg_ctx c) (hkey v c ty) s = Some e ->
    collision \/ (okt ty v (e_data e) /\ trec s c ty (e_data e) v).

Definition pst_ok (s : store) (c : call) (p : pst) : Prop :=
  match p with
  | PSaveH _ tok => okt (c_ty c) (c_val c) tok /\ trec s (c_ctx c) (c_ty c) tok (c_val c)
  | PDone (Ok tok) => collision \/ (okt (c_ty c) (c_val c) tok /\ trec s (c_ctx c) (c_ty c) tok (c_val c))
  | PDone Panic => collision
  | _ => True
  end.

Lemma inv_h_empty : inv_h [].
Proof. intros c ty v e H. discriminate H. Qed.

Lemma trec_ext s s' c ty tok v : ext s s' -> trec s c ty tok v -> trec s' c ty tok v.
Proof. intros E [e [L D]]. exists e. split; [eapply ext_lookup; eassumption| exact D]. Qed.

Lemma pst_ok_ext s s' c p : ext s s' -> pst_ok s c p -> pst_ok s' c p.
Proof.
  intros E. destruct p as [| |tried tok|[tok|e|]]; cbn [pst_ok]; try exact (fun H => H).
  - intros [W T]. split; [exact W| eapply trec_ext; eassumption].
  - intros [C|[W T]]; [left; exact C| right; split; [exact W| eapply trec_ext; eassumption]].
Qed.

Lemma trec_inj s c ty tok v1 v2 : trec s c ty tok v1 -> trec s c ty tok v2 -> v1 = v2.
Proof.
  intros [e1 [L1 D1]] [e2 [L2 D2]]. rewrite L1 in L2. injection L2 as <-. rewrite D1 in D2.
  apply (f_equal decode_token_value) in D2. rewrite !decode_encode_token_value in D2. congruence.
Qed.

Lemma st_save_not_ok enc c id d s s' r : st_save enc c id d s = (s', r) -> r <> SaveOk -> s' = s.
Proof.
  unfold st_save. destruct (enc && is_nil d); [intros [= <- _] _; reflexivity|].
  destruct (lookup c id s); intros [= <- <-] H; [reflexivity| exfalso; apply H; reflexivity].
Qed.

(** appending a t-record keeps the invariant *)
Lemma inv_h_add_t s cx tok c ty d :
  inv_h s -> inv_h (s ++ [mke cx (tkey tok c ty) d false]).
Proof.
  intros I c' ty' v' e L. rewrite lookup_app in L.
  destruct (lookup (agg_ctx c') (hkey v' c' ty') s) as [e0|] eqn:L0.
  - injection L as <-. destruct (I _ _ _ _ L0) as [C|[W T]]; [left; exact C|].
    right. split; [exact W|]. eapply trec_ext; [|exact T]. eexists. reflexivity.
  - cbn [lookup] in L. destruct (key_match _ _ _) eqn:K; [|discriminate L].
    apply key_match_true in K as [_ K]. cbn [e_id] in K. exfalso. exact (prefix_disjoint _ _ K).
Qed.

(** appending the h-record of a call whose t-record exists keeps the invariant *)
Lemma inv_h_add_h s c tok :
  inv_h s -> okt (c_ty c) (c_val c) tok -> trec s (c_ctx c) (c_ty c) tok (c_val c) ->
  inv_h (s ++ [mke (cx_of c) (hk_of c) tok false]).
Proof.
  intros I W T c' ty' v' e L.
  assert (ext s (s ++ [mke (cx_of c) (hk_of c) tok false])) as E by (eexists; reflexivity).
  rewrite lookup_app in L.
  destruct (lookup (agg_ctx c') (hkey v' c' ty') s) as [e0|] eqn:L0.
  - injection L as <-. destruct (I _ _ _ _ L0) as [C|[W0 T0]]; [left; exact C|].
    right. split; [exact W0| eapply trec_ext; eassumption].
  - cbn [lookup] in L. destruct (key_match _ _ _) eqn:K; [|discriminate L]. injection L as <-.
    apply key_match_true in K as [K1 K2]. cbn [e_ctx e_id e_data] in *.
    destruct (keys_eq_inj _ _ _ _ _ _ K1 K2) as [C|[HT [-> ->]]]; [left; exact C|].
    right. split; [exact W|]. apply (trec_ext s); [exact E|].
    destruct T as [e1 [L1 D1]]. exists e1. split; [|exact D1].
    unfold cx_of in K1. rewrite K1, (tkey_tail _ _ _ _ HT). exact L1.
Qed.

Lemma pstep_inv enc c s t p s1 t1 p1 :
  inv_h s -> pst_ok s c p -> pstep enc c (s, t) p = ((s1, t1), p1) -> inv_h s1 /\ pst_ok s1 c p1.
Proof.
  intros I OK. destruct p as [tried|tried more|tried tok|r]; cbn [pstep].
  - (* Get *)
    destruct (st_get (agg_ctx (c_ctx c)) (hkey (c_val c) (c_ctx c) (c_ty c)) s) as [d|e|] eqn:G.
    + intros [= <- _ <-]. split; [exact I|]. apply st_get_ok in G as [e [L [_ D]]].
      destruct (I _ _ _ _ L) as [C|[W T]].
      { destruct (bytes_to_value d (c_ty c)) as [tok|er|]; cbn [pst_ok]; [left; exact C| exact Logic.I| exact C]. }
      rewrite D in W, T. pose proof W as [W1 _]. unfold wfv in W1. rewrite W1. cbn [pst_ok].
      right. split; [exact W| exact T].
    + intros [= <- _ <-]. split; [exact I|]. unfold gen_start. destruct TOK_LOOP_LIMIT; exact Logic.I.
    + intros [= <- _ <-]. split; [exact I|]. unfold gen_start. destruct TOK_LOOP_LIMIT; exact Logic.I.
  - (* generate + Save t *)
    destruct (gen_value (c_ty c) (c_val c) t) as [[tok t2]|e|] eqn:G;
      [|intros [= <- _ <-]; split; [exact I| exact Logic.I]
       |exfalso; exact (gen_value_no_panic _ _ _ G)].
    destruct (st_save enc (agg_ctx (c_ctx c)) (tkey tok (c_ctx c) (c_ty c))
                (encode_token_value (c_val c) (type_num (c_ty c))) s) as [s2 r] eqn:S.
    destruct r.
    + intros [= <- _ <-]. apply st_save_ok in S as [-> [_ L]].
      split; [apply inv_h_add_t; exact I|].
      assert (okt (c_ty c) (c_val c) tok /\ trec (s ++ [mke (agg_ctx (c_ctx c)) (tkey tok (c_ctx c) (c_ty c))
                (encode_token_value (c_val c) (type_num (c_ty c))) false]) (c_ctx c) (c_ty c) tok (c_val c)) as R.
      { split; [split; [eapply gen_value_wf; exact G| exists t, t2; exact G]|]. eexists. split; [exact L| reflexivity]. }
      destruct (c_mode c); cbn [pst_ok]; [right; exact R| exact R].
    + intros [= <- _ <-]. rewrite (st_save_not_ok _ _ _ _ _ _ _ S) by discriminate.
      split; [exact I| destruct more; exact Logic.I].
    + intros [= <- _ <-]. rewrite (st_save_not_ok _ _ _ _ _ _ _ S) by discriminate.
      split; [exact I| exact Logic.I].
  - (* Save h *)
    cbn [pst_ok] in OK. destruct OK as [W T].
    destruct (st_save enc (agg_ctx (c_ctx c)) (hkey (c_val c) (c_ctx c) (c_ty c)) tok s) as [s2 r] eqn:S.
    destruct r.
    + intros [= <- _ <-]. apply st_save_ok in S as [-> _].
      split; [apply (inv_h_add_h s c tok I W T)|].
      cbn [pst_ok]. right. split; [exact W| eapply trec_ext; [eexists; reflexivity| exact T]].
    + rewrite (st_save_not_ok _ _ _ _ _ _ _ S) by discriminate.
      destruct tried; intros [= <- _ <-]; (split; [exact I| exact Logic.I]).
    + rewrite (st_save_not_ok _ _ _ _ _ _ _ S) by discriminate.
      intros [= <- _ <-]. split; [exact I| exact Logic.I].
  - intros [= <- _ <-]. split; [exact I| exact OK].
Qed.

(** ** all interleavings keep the invariant *)
Definition sys_inv2 (x : sys) : Prop :=
  inv_h (fst (fst x)) /\ Forall (fun cp => pst_ok (fst (fst x)) (fst cp) (snd cp)) (snd x).

Lemma step_nth_inv2 enc i : forall cs s t s' t' cs',
  step_nth enc i cs (s, t) = ((s', t'), cs') ->
  inv_h s -> Forall (fun cp => pst_ok s (fst cp) (snd cp)) cs ->
  inv_h s' /\ Forall (fun cp => pst_ok s' (fst cp) (snd cp)) cs' /\ ext s s'.
Proof.
  induction i as [|i IH]; intros cs s t s' t' cs'; destruct cs as [|[c p] r]; cbn [step_nth].
  - intros [= <- _ <-] I _. split; [exact I| split; [constructor| apply ext_refl]].
  - destruct (pstep enc c (s, t) p) as [[s1 t1] p1] eqn:P. intros [= <- _ <-] I HF.
    inversion HF as [|x l Hx Hl]; subst. cbn [fst snd] in Hx.
    destruct (pstep_inv _ _ _ _ _ _ _ _ I Hx P) as [I1 O1]. pose proof (pstep_ext _ _ _ _ _ _ _ _ P) as E.
    split; [exact I1| split; [|exact E]]. constructor; [exact O1|].
    eapply Forall_impl; [|exact Hl]. intros cp. apply pst_ok_ext, E.
  - intros [= <- _ <-] I _. split; [exact I| split; [constructor| apply ext_refl]].
  - destruct (step_nth enc i r (s, t)) as [[s1 t1] r'] eqn:R. intros [= <- _ <-] I HF.
    inversion HF as [|x l Hx Hl]; subst.
    destruct (IH _ _ _ _ _ _ R I Hl) as [I1 [Hr E]]. split; [exact I1| split; [|exact E]].
    constructor; [|exact Hr]. eapply pst_ok_ext; [exact E| exact Hx].
Qed.

Lemma pst_ok_init s c : pst_ok s c (pinit c).
Proof. unfold pinit, gen_start. destruct (c_mode c); [destruct TOK_LOOP_LIMIT|]; exact I. Qed.

Lemma run_sched_inv2 enc sched : forall cs s t,
  inv_h s -> Forall (fun cp => pst_ok s (fst cp) (snd cp)) cs ->
  let x := run_sched enc sched cs (s, t) in
  sys_inv2 x /\ ext s (fst (fst x)).
Proof.
  induction sched as [|i r IH]; intros cs s t I HF; cbn [run_sched].
  - split; [split; assumption| apply ext_refl].
  - destruct (step_nth enc i cs (s, t)) as [[s1 t1] cs1] eqn:S.
    destruct (step_nth_inv2 _ _ _ _ _ _ _ _ S I HF) as [I1 [H1 E1]].
    destruct (IH cs1 s1 t1 I1 H1) as [H2 E2]. split; [exact H2| eapply ext_trans; eassumption].
Qed.

Lemma run_solo_inv2 enc fuel c : forall s t p s1 t1 p1,
  run_solo enc fuel c (s, t) p = ((s1, t1), p1) -> inv_h s -> pst_ok s c p ->
  inv_h s1 /\ pst_ok s1 c p1 /\ ext s s1.
Proof.
  induction fuel as [|f IH]; intros s t p s1 t1 p1; cbn [run_solo].
  - intros [= <- _ <-] I O. split; [exact I| split; [exact O| apply ext_refl]].
  - destruct (pdone p); [intros [= <- _ <-] I O; split; [exact I| split; [exact O| apply ext_refl]]|].
    destruct (pstep enc c (s, t) p) as [[s2 t2] p2] eqn:P. intros R I O.
    destruct (pstep_inv _ _ _ _ _ _ _ _ I O P) as [I2 O2]. pose proof (pstep_ext _ _ _ _ _ _ _ _ P) as E2.
    destruct (IH _ _ _ _ _ _ R I2 O2) as [I3 [O3 E3]].
    split; [exact I3| split; [exact O3| eapply ext_trans; eassumption]].
Qed.

(** sequential tokenize (either mode) on an invariant store *)
Lemma tokenize_inv enc c s t s1 r :
  inv_h s -> tokenize enc c s t = (s1, r) ->
  inv_h s1 /\ ext s s1 /\
  (forall tok, r = Ok tok -> collision \/ (okt (c_ty c) (c_val c) tok /\ trec s1 (c_ctx c) (c_ty c) tok (c_val c))) /\
  (r = Panic -> collision).
Proof.
  intros I. unfold tokenize.
  destruct (run_solo enc SOLO_FUEL c (s, t) (pinit c)) as [[s2 t2] p] eqn:R. intros [= <- <-].
  destruct (run_solo_inv2 _ _ _ _ _ _ _ _ _ R I (pst_ok_init s c)) as [I2 [O2 E2]].
  split; [exact I2| split; [exact E2|]]. split.
  - intros tok H. destruct p as [| | |r0]; cbn [presult] in H; try discriminate H. subst r0. exact O2.
  - intros H. destruct p as [| | |r0]; cbn [presult] in H; try discriminate H. subst r0. exact O2.
Qed.

(** ** reversibility *)
Definition all_enabled (s : store) : Prop := forall e, In e s -> e_dis e = false.

Lemma detok_of_trec s c ty tok v :
  all_enabled s -> wfv ty v -> trec s c ty tok v -> deanonymize s c ty tok = Ok v.
Proof.
  intros A W [e [L D]]. unfold deanonymize, st_get. rewrite L.
  rewrite (A e (proj1 (lookup_some _ _ _ _ L))). rewrite D, decode_encode_token_value.
  cbn [bind]. rewrite N.eqb_refl. exact W.
Qed.

Lemma pstep_enabled enc c s t p s' t' p' :
  pstep enc c (s, t) p = ((s', t'), p') -> all_enabled s -> all_enabled s'.
Proof.
  intros P A e Hin.
  assert (forall cx id d s2 r, st_save enc cx id d s = (s2, r) -> In e s2 -> e_dis e = false) as K.
  { intros cx id d s2 r S H2. destruct (st_save_new_entries _ _ _ _ _ _ _ _ S H2) as [H| ->]; [apply A, H| reflexivity]. }
  destruct p as [tried|tried more|tried tok|r]; cbn [pstep] in P.
  - destruct (st_get _ _ s); injection P as <- _ _; apply A, Hin.
  - destruct (gen_value (c_ty c) (c_val c) t) as [[tok t1]|er|]; [|injection P as <- _ _; apply A, Hin ..].
    destruct (st_save enc _ _ _ s) as [s1 r] eqn:S. destruct r; injection P as <- _ _; eapply K; eassumption.
  - destruct (st_save enc _ _ _ s) as [s1 r] eqn:S.
    destruct r; [|destruct tried|]; injection P as <- _ _; eapply K; eassumption.
  - injection P as <- _ _. apply A, Hin.
Qed.

Lemma step_nth_enabled enc i : forall cs s t s' t' cs',
  step_nth enc i cs (s, t) = ((s', t'), cs') -> all_enabled s -> all_enabled s'.
Proof.
  induction i as [|i IH]; intros cs s t s' t' cs'; destruct cs as [|[c p] r]; cbn [step_nth].
  - intros [= <- _ _] A. exact A.
  - destruct (pstep enc c (s, t) p) as [[s1 t1] p1] eqn:P. intros [= <- _ _]. eapply pstep_enabled; exact P.
  - intros [= <- _ _] A. exact A.
  - destruct (step_nth enc i r (s, t)) as [[s1 t1] r'] eqn:R. intros [= <- _ _]. eapply IH; exact R.
Qed.

Lemma run_sched_enabled enc sched : forall cs s t,
  all_enabled s -> all_enabled (fst (fst (run_sched enc sched cs (s, t)))).
Proof.
  induction sched as [|i r IH]; intros cs s t A; cbn [run_sched]; [exact A|].
  destruct (step_nth enc i cs (s, t)) as [[s1 t1] cs1] eqn:S. apply IH. eapply step_nth_enabled; eassumption.
Qed.

Lemma run_solo_enabled enc fuel c : forall s t p,
  all_enabled s -> all_enabled (fst (fst (run_solo enc fuel c (s, t) p))).
Proof.
  induction fuel as [|f IH]; intros s t p A; cbn [run_solo]; [exact A|].
  destruct (pdone p); [exact A|]. destruct (pstep enc c (s, t) p) as [[s1 t1] p1] eqn:P.
  apply IH. eapply pstep_enabled; eassumption.
Qed.

Lemma tokenize_enabled enc c s t : all_enabled s -> all_enabled (fst (tokenize enc c s t)).
Proof.
  intros A. unfold tokenize. pose proof (run_solo_enabled enc SOLO_FUEL c s t (pinit c) A) as H.
  destruct (run_solo enc SOLO_FUEL c (s, t) (pinit c)) as [[s2 t2] p]. exact H.
Qed.
