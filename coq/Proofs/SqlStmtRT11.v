(** C13_statements, round trip, part 11: joins, table expression lists, and the mutual induction assembled. *)
From Acra Require Import Lib.Bytes Gen.Prec Gen.SqlWords Model.SqlStmt Model.SqlStmtParse
  Proofs.SqlStmtUnfold Proofs.SqlStmtFacts Proofs.SqlStmtEqns Proofs.SqlStmtHeads Proofs.SqlStmtRT1 Proofs.SqlStmtRT2 Proofs.SqlStmtRT3
  Proofs.SqlStmtRT4 Proofs.SqlStmtRT5 Proofs.SqlStmtRT6 Proofs.SqlStmtRT7 Proofs.SqlStmtRT8 Proofs.SqlStmtRT9 Proofs.SqlStmtRT10.
From Coq Require Import Arith Lia.

Section RT.
Variable pg : bool.
Notation Cst := (Cst pg). Notation Pe := (Pe pg). Notation Ssel := (Ssel pg). Notation Psel := (Psel pg).
Notation Pts := (Pts pg). Notation Tst := (Tst pg). Notation Fst := (Fst pg). Notation Pt := (Pt pg). Notation Pjc := (Pjc pg).

Ltac KL := unfold K in *; lia.
Ltac fuel f := destruct f as [|f]; [KL|].
Ltac napp := repeat (progress (rewrite <- ?app_assoc; cbn [app])).

Lemma tstop_jk t k ts : tstop t (jk_toks k ++ ts) = true.
Proof. unfold tstop. destruct k; cbn; rewrite ?Bool.orb_true_r; reflexivity. Qed.
Lemma join_head_cond c rest : c <> JNone -> join_head (print_jcond pg c ++ rest) = None.
Proof. destruct c; [congruence|rewrite print_jcond_JOn|rewrite print_jcond_JUsing]; reflexivity. Qed.
Lemma factor_not_open r : is_factor r = true -> open_on r = false /\ open_using r = false.
Proof. destruct r; try discriminate; split; reflexivity. Qed.
Lemma need_texpr_pos t : K <= need_texpr t.
Proof. destruct t; rewrite ?need_texpr_TTable, ?need_texpr_TSubq, ?need_texpr_TParen, ?need_texpr_TJoin; KL. Qed.

Lemma case_TJoin l k r c : Pt l -> Pt r -> Pjc c -> Pt (TJoin l k r c).
Proof.
  intros [Tl _] [Tr Fr] Pc. split; [|intros _ H; discriminate H].
  intros Hwf rest R a Hst Hk f Hf. rewrite wf_texpr_TJoin in Hwf. split_andb. rewrite need_texpr_TJoin in Hf.
  destruct (tstop_parts _ _ Hst) as [Hh [Has [Hon Hus]]].
  rewrite print_texpr_TJoin. napp.
  apply (Tl ltac:(assumption) (jk_toks k ++ print_texpr pg r ++ print_jcond pg c ++ rest) R (a + need_texpr r + need_jcond c + 8));
    [apply tstop_jk| |KL].
  intros f0 Hf0. pose proof (need_texpr_pos r) as Hnr. destruct f0 as [|[|f0]]; try KL. rewrite pjoins_S, join_head_toks.
  match goal with H : jcond_ok k r c = true |- _ => rename H into Hjc end.
  assert (Hfac : is_factor r = true -> ptfactor pg (S f0) (print_texpr pg r ++ print_jcond pg c ++ rest) = Some (r, print_jcond pg c ++ rest)).
  { intros Hfa. destruct (factor_not_open r Hfa) as [Ho1 Ho2].
    apply Fr; [assumption|exact Hfa| |KL].
    apply jcond_rest_tstop; [exact Hh|assumption| |].
    - intros _. unfold tstop. rewrite Hh, Has, Ho1, Ho2. reflexivity.
    - destruct c; [exact I|exact Ho1|exact Ho2]. }
  destruct k; cbn [jcond_ok] in Hjc.
  - (* join *)
    rewrite (Hfac Hjc).
    rewrite (pjcond_ok pg c true rest (S f0) Pc) by first [assumption | KL | destruct c; [exact I|exact I|reflexivity]
      | intros ->; split; [apply Hon; reflexivity|intros _; apply Hus; reflexivity]].
    apply Hk. KL.
  - (* straight_join *)
    split_andb. rewrite (Hfac ltac:(assumption)).
    rewrite (pjcond_ok pg c false rest (S f0) Pc) by first [assumption | KL | destruct c; [exact I|exact I|discriminate]
      | intros ->; split; [apply Hon; reflexivity|intros H'; discriminate H']].
    apply Hk. KL.
  - (* left join *)
    assert (Hc : c <> JNone) by (destruct c; [discriminate|discriminate|discriminate]).
    rewrite (Tr ltac:(assumption) (print_jcond pg c ++ rest) (Some (r, print_jcond pg c ++ rest)) 1).
    + rewrite (pjcond_ok pg c true rest (S f0) Pc) by first [assumption | KL | destruct c; [exact I|exact I|reflexivity] | intros E; congruence].
      destruct c; [congruence| |]; apply Hk; KL.
    + apply jcond_rest_tstop; [exact Hh|assumption|intros E; congruence|].
      destruct c; [exact I| |]; apply Bool.negb_true_iff; exact Hjc.
    + intros f1 Hf1. destruct f1; [lia|]. rewrite pjoins_S, (join_head_cond c rest Hc). reflexivity.
    + KL.
  - (* right join *)
    assert (Hc : c <> JNone) by (destruct c; [discriminate|discriminate|discriminate]).
    rewrite (Tr ltac:(assumption) (print_jcond pg c ++ rest) (Some (r, print_jcond pg c ++ rest)) 1).
    + rewrite (pjcond_ok pg c true rest (S f0) Pc) by first [assumption | KL | destruct c; [exact I|exact I|reflexivity] | intros E; congruence].
      destruct c; [congruence| |]; apply Hk; KL.
    + apply jcond_rest_tstop; [exact Hh|assumption|intros E; congruence|].
      destruct c; [exact I| |]; apply Bool.negb_true_iff; exact Hjc.
    + intros f1 Hf1. destruct f1; [lia|]. rewrite pjoins_S, (join_head_cond c rest Hc). reflexivity.
    + KL.
  - split_andb. destruct c; try discriminate. rewrite (Hfac ltac:(assumption)). rewrite print_jcond_JNone. cbn [app]. apply Hk. KL.
  - split_andb. destruct c; try discriminate. rewrite (Hfac ltac:(assumption)). rewrite print_jcond_JNone. cbn [app]. apply Hk. KL.
  - split_andb. destruct c; try discriminate. rewrite (Hfac ltac:(assumption)). rewrite print_jcond_JNone. cbn [app]. apply Hk. KL.
Qed.

Lemma case_TNil : Pts TNil.
Proof. intros _ H. congruence. Qed.

Lemma tsstop_parts ts rest : tsstop ts rest = true ->
  hard rest = true /\ expect_w W_as rest = None /\ expect_p PComma rest = None /\ join_head rest = None
  /\ (last_open_on ts = true -> expect_w W_on rest = None) /\ (last_open_using ts = true -> expect_w W_using rest = None).
Proof.
  unfold tsstop. intros H. split_andb. split; [assumption|split; [|split; [|split; [|split]]]].
  - destruct (expect_w W_as rest); [discriminate|reflexivity].
  - destruct (expect_p PComma rest); [discriminate|reflexivity].
  - destruct (join_head rest); [discriminate|reflexivity].
  - intros Ho. match goal with H : negb (last_open_on ts) || _ = true |- _ => rewrite Ho in H; cbn [negb orb] in H end.
    destruct (expect_w W_on rest); [discriminate|reflexivity].
  - intros Ho. match goal with H : negb (last_open_using ts) || _ = true |- _ => rewrite Ho in H; cbn [negb orb] in H end.
    destruct (expect_w W_using rest); [discriminate|reflexivity].
Qed.

Lemma case_TCons t ts : Pt t -> Pts ts -> Pts (TCons t ts).
Proof.
  intros [Tt _] IH Hwf _ rest Hst f Hf. rewrite wf_texprs_TCons in Hwf. split_andb. rewrite need_texprs_TCons in Hf.
  destruct (tsstop_parts _ _ Hst) as [Hh [Has [Hc [Hj [Hon Hus]]]]].
  fuel f. rewrite ptrefs_S. destruct ts as [|u us].
  - rewrite print_texprs_TCons.
    rewrite (Tt ltac:(assumption) rest (Some (t, rest)) 1).
    + rewrite Hc. reflexivity.
    + unfold tstop. rewrite Hh, Has. cbn [andb].
      destruct (open_on t) eqn:E1; [rewrite (Hon E1)|]; (destruct (open_using t) eqn:E2; [rewrite (Hus E2)|]); reflexivity.
    + intros f1 Hf1. destruct f1; [lia|]. rewrite pjoins_S, Hj. reflexivity.
    + KL.
  - rewrite print_texprs_TCons2. napp.
    rewrite (Tt ltac:(assumption) (TP PComma :: print_texprs pg (TCons u us) ++ rest) (Some (t, TP PComma :: print_texprs pg (TCons u us) ++ rest)) 1).
    + rewrite (expect_p_hit PComma). rewrite (IH ltac:(assumption) ltac:(discriminate) rest Hst f) by KL. reflexivity.
    + unfold tstop. cbn. rewrite ?Bool.orb_true_r. reflexivity.
    + intros f1 Hf1. destruct f1; [lia|]. rewrite pjoins_S. reflexivity.
    + KL.
Qed.

(** the mutual induction *)
Theorem roundtrip_all :
  (forall e, Pe e) /\ (forall xs, Pxs pg xs) /\ (forall o, Poe pg o) /\ (forall ws, Pws pg ws) /\ (forall s, Pse pg s)
  /\ (forall xs, Pses pg xs) /\ (forall s, Psel s) /\ (forall t, Pt t) /\ (forall ts, Pts ts) /\ (forall c, Pjc c)
  /\ (forall os, Pos pg os) /\ (forall l, Plm pg l).
Proof.
  apply ast_mutind; intros.
  - apply case_EAnd; assumption.
  - apply case_EOr; assumption.
  - apply case_ENot; assumption.
  - apply case_ECmp; assumption.
  - apply case_ECmpEsc; assumption.
  - apply case_ERange; assumption.
  - apply case_EIs; assumption.
  - apply case_EExists. match goal with H : Psel _ |- _ => exact (proj1 H) end.
  - apply case_EBin; assumption.
  - apply case_EUn; assumption.
  - apply case_ECollate; assumption.
  - apply case_ELit.
  - apply case_ENull.
  - apply case_EBool.
  - apply case_EDefault.
  - apply case_ECol.
  - apply case_EParen; assumption.
  - apply case_ETuple; assumption.
  - apply case_ESubq. match goal with H : Psel _ |- _ => exact (proj1 H) end.
  - apply case_EFunc; assumption.
  - apply case_ECase; assumption.
  - apply case_EConvert; assumption.
  - apply case_EConvertUsing; assumption.
  - apply case_EInterval; assumption.
  - apply case_EValuesFunc.
  - apply case_XNil.
  - apply case_XCons; assumption.
  - apply case_NoE.
  - apply case_SomeE; assumption.
  - apply case_WNil.
  - apply case_WCons; assumption.
  - apply case_SStar.
  - apply case_SAliased; assumption.
  - apply case_SNil.
  - apply case_SCons; assumption.
  - apply case_Select; assumption.
  - apply case_Union; assumption.
  - apply case_ParenSel; assumption.
  - apply case_TTable.
  - apply case_TSubq; assumption.
  - apply case_TParen; assumption.
  - apply case_TJoin; assumption.
  - apply case_TNil.
  - apply case_TCons; assumption.
  - apply case_JNone.
  - apply case_JOn; assumption.
  - apply case_JUsing.
  - apply case_ONil.
  - apply case_OCons; assumption.
  - apply case_LNone.
  - apply case_LOnly; assumption.
  - apply case_LOffset; assumption.
  - apply case_LComma; assumption.
  - apply case_LAll.
  - apply case_LAllOffset; assumption.
Qed.
End RT.
