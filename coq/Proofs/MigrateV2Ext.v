(** Proofs about Model/MigrateV2Ext.v: what `acra-keys migrate` leaves in the v2 store for every key
    file set it reports as imported. *)
From Coq Require Import List NArith ZArith Bool Lia.
From Acra Require Import Lib.Bytes Lib.Outcome Crypto.Interface Gen.KsConsts Gen.X18Consts
  Model.KeyAtRest Model.Backup Model.DerV2Ext Model.KeyRingV2Ext Model.MigrateV2Ext
  Proofs.DerV2Ext Proofs.KeyRingV2Ext.
Import ListNotations.

Section MigrateProofs.
  Variable C : crypto.
  Hypothesis HC : Correct C.

  Definition files_small (files : list xfile) : Prop := Forall (fun f => small (xf_data f)) files.

  Lemma xfind_in p files f : xfind p files = Some f -> In f files.
  Proof.
    induction files as [|g r IH]; cbn [xfind]; [discriminate|].
    destruct (bytes_eqb p (xf_path g)); [intros [= ->]; now left | intros H; right; now apply IH].
  Qed.

  Lemma decrypted_small m ctx data key : small data -> cell_decrypt C m ctx data = Some key -> small key /\ key <> [].
  Proof.
    intros Hs H. unfold cell_decrypt in H. destruct (is_nil m || is_nil data); [discriminate|].
    destruct (seal_dec_len C HC _ _ _ _ H) as [Hl Hne]. split; [|exact Hne]. unfold small in *. rewrite Hl in Hs. lia.
  Qed.

  Lemma small_nil : small [].
  Proof. unfold small, MAXMSG. cbn. lia. Qed.

  (** what ExportKeyPair / ExportSymmetricKey hand to the v2 keystore is plaintext key data in acra's own shape *)
  Lemma exported_data_wf m1 files k d :
    files_small files -> exported_data C m1 files k = Ok d -> wf_pdata d /\ (length [d] <= 1)%nat.
  Proof.
    intros Hfs H. split; [|cbn; lia]. unfold exported_data in H.
    assert (Hne : FORMAT_KEYPAIR <> FORMAT_SYMMETRIC) by discriminate.
    destruct (is_pair (x_purpose k)).
    - destruct (export_public files (x_pub k)) as [pub|e|]; cbn [bind] in H; try discriminate.
      destruct (export_private C m1 files (x_ctx k) (x_priv k)) as [priv|e|] eqn:Ep; cbn [bind] in H; try discriminate.
      inversion H; subst. unfold wf_pdata. cbn [kd_format kd_pub kd_priv kd_sym].
      split; [intros _; reflexivity|]. split; [intros E; now destruct Hne|]. split; [|apply small_nil].
      unfold export_private in Ep. destruct (x_priv k) as [p|]; [|inversion Ep; apply small_nil].
      destruct (xfind p files) as [f|] eqn:Ef; [|discriminate].
      destruct (negb (xf_private_perm f)); [discriminate|].
      destruct (cell_decrypt C m1 (x_ctx k) (xf_data f)) as [key|] eqn:Edc; cbn in Ep; inversion Ep; subst.
      eapply decrypted_small; [|exact Edc]. unfold files_small in Hfs. rewrite Forall_forall in Hfs.
      apply Hfs. eapply xfind_in; exact Ef.
    - destruct (export_symmetric C m1 files (x_ctx k) (x_sym k)) as [sym|e|] eqn:Es; cbn [bind] in H; try discriminate.
      inversion H; subst. unfold wf_pdata. cbn [kd_format kd_pub kd_priv kd_sym].
      split; [intros E; symmetry in E; now destruct Hne|]. split; [intros _; split; reflexivity|]. split; [apply small_nil|].
      unfold export_symmetric in Es. destruct (x_sym k) as [p|]; [|inversion Es; apply small_nil].
      destruct (xfind p files) as [f|] eqn:Ef; [|discriminate].
      destruct (cell_decrypt C m1 (x_ctx k) (xf_data f)) as [key|] eqn:Edc; cbn in Es; inversion Es; subst.
      eapply decrypted_small; [|exact Edc]. unfold files_small in Hfs. rewrite Forall_forall in Hfs.
      apply Hfs. eapply xfind_in; exact Ef.
  Qed.

  (** the ring a successfully imported key ends up in: exactly that key, first sequence number, current *)
  Definition arrived (m2 : bytes) (b : backend) (path : bytes) (d : kdata) : Prop :=
    exists since until,
      store_view C m2 b path =
      Some {| vr_keys := [{| vk_seq := FIRST_SEQNUM; vk_state := STATE_PREACTIVE; vk_since := since; vk_until := until;
                             vk_data := [plain_data d] |}];
              vr_current := FIRST_SEQNUM |}.

  Definition aux_ok (aux : bytes -> bytes * bytes * bytes) : Prop := forall p, length (snd (aux p)) = NONCE_LEN.

  Lemma import_key_file_arrives m1 m2 aux files b k b' :
    m2 <> [] -> aux_ok aux -> files_small files ->
    b_get (ring_path (x_purpose k) (x_ctx k)) b = None ->
    import_key_file C m1 m2 aux files b k = (b', true) ->
    (exists d, exported_data C m1 files k = Ok d /\ arrived m2 b' (ring_path (x_purpose k) (x_ctx k)) d) /\
    (forall q, q <> ring_path (x_purpose k) (x_ctx k) -> b_get q b' = b_get q b).
  Proof.
    intros Hm Haux Hfs Hnone H. unfold import_key_file in H.
    destruct (exported_data C m1 files k) as [d|e|] eqn:Ed; try (inversion H; fail).
    destruct (exported_data_wf _ _ _ _ Hfs Ed) as [Hwd _].
    set (path := ring_path (x_purpose k) (x_ctx k)) in *.
    pose proof (Haux path) as Hnl. destruct (aux path) as [[since until] nonce]. cbn [snd] in Hnl.
    cbn [rstep h_b h_tape] in H. unfold open_rw in H. rewrite Hnone in H.
    assert (Hno : nonces_ok [nonce]) by (constructor; [exact Hnl | constructor]).
    destruct (new_key C m2 path [nonce] (empty_ring path) since until [d]) as [x t'] eqn:Ek.
    destruct x as [nk|e|]; try (inversion H; fail).
    unfold new_key in Ek.
    destruct (time_after since until); [discriminate|]. cbn [is_nil] in Ek.
    destruct (add_all C m2 path (next_seqnum (empty_ring path)) [nonce] [d] []) as [y t0] eqn:Ea.
    destruct y as [ds|e|]; cbn [bind] in Ek; inversion Ek; subst nk t0. clear Ek.
    destruct (add_all_ok C _ _ _ _ _ _ _ _ Hno Ea) as [_ [ds' [Hacc HF]]]. cbn [app] in Hacc. subst ds'.
    inversion HF as [|? d' ? l' Hd HF']; subst. inversion HF'; subst. clear HF HF'.
    assert (Hseq : next_seqnum (empty_ring path) = FIRST_SEQNUM) by reflexivity.
    rewrite Hseq in *.
    cbn [ring_has r_keys empty_ring existsb k_seq] in H.
    cbn [fst snd h_b h_tape r_purpose r_keys r_current empty_ring app] in H.
    unfold open_rw in H. rewrite b_get_put_same in H.
    set (r1 := {| r_purpose := path; r_keys := [{| k_seq := FIRST_SEQNUM; k_state := STATE_PREACTIVE; k_since := since;
                                                   k_until := until; k_data := [d'] |}]; r_current := NOKEY |}) in *.
    assert (Hs1 : sorted_ring r1 = r1).
    { apply sorted_ring_single. constructor; [unfold single; cbn; lia | constructor]. }
    rewrite Hs1 in H. cbn [r_current r1 ring_has r_keys existsb k_seq] in H.
    replace ((NOKEY =? NOKEY)%Z) with true in H by reflexivity.
    replace ((FIRST_SEQNUM =? FIRST_SEQNUM)%Z) with true in H by reflexivity.
    cbn [orb andb fst snd h_b] in H. inversion H; subst b'. clear H.
    split.
    - exists d. split; [reflexivity|]. exists since, until. unfold store_view. rewrite b_get_put_same.
      cbn [option_map]. f_equal.
      match goal with
      | |- context [sorted_ring ?r] =>
          rewrite (sorted_ring_single r) by (constructor; [unfold single; cbn; lia | constructor])
      end.
      unfold view_ring, r1. cbn [r_keys r_current map]. f_equal. f_equal.
      unfold view_key. cbn [k_seq k_state k_since k_until k_data map]. f_equal. f_equal.
      apply (data_imported_view C HC _ _ _ _ _ Hm Hwd Hd).
    - intros q Hq. rewrite b_get_put_other by exact Hq. rewrite b_get_put_other by exact Hq.
      now rewrite b_get_put_other by exact Hq.
  Qed.

  (** whatever happens to one key, only its own ring can change *)
  Lemma import_key_file_frame m1 m2 aux files b k q :
    q <> ring_path (x_purpose k) (x_ctx k) ->
    b_get q (fst (import_key_file C m1 m2 aux files b k)) = b_get q b.
  Proof.
    intros Hq. unfold import_key_file.
    destruct (exported_data C m1 files k) as [d|e|]; try reflexivity.
    set (path := ring_path (x_purpose k) (x_ctx k)) in *.
    destruct (aux path) as [[since until] nonce].
    assert (Hstep : forall s o, (match o with RAddKey p _ _ _ | RSetCurrent p _ | RSetState p _ _ | RDestroy p _ => p end) = path ->
                                b_get q (h_b (fst (rstep C m2 s o))) = b_get q (h_b s)).
    { intros s o Ho. destruct o as [p si un ds|p sq|p sq st|p sq]; subst p; cbn [rstep]; unfold open_rw;
        destruct (b_get path (h_b s)) as [r|];
        repeat match goal with
               | |- context [match ?e with _ => _ end] => destruct e
               | |- context [if ?c then _ else _] => destruct c
               end; cbn [fst h_b]; repeat rewrite b_get_put_other by exact Hq; reflexivity. }
    destruct (rstep C m2 {| h_b := b; h_tape := [nonce] |} (RAddKey path since until [d])) as [s1 r1] eqn:E1.
    assert (H1 : b_get q (h_b s1) = b_get q b).
    { change s1 with (fst (s1, r1)). rewrite <- E1. now rewrite Hstep. }
    destruct r1 as [seq|e|]; cbn [fst]; try exact H1.
    destruct (rstep C m2 s1 (RSetCurrent path seq)) as [s2 r2] eqn:E2. cbn [fst].
    change s2 with (fst (s2, r2)). rewrite <- E2. now rewrite Hstep.
  Qed.

  Definition kpath (k : xkey) : bytes := ring_path (x_purpose k) (x_ctx k).

  Lemma import_all_frame m1 m2 aux files ks : forall b q,
    ~ In q (map kpath ks) -> b_get q (fst (import_all C m1 m2 aux files b ks)) = b_get q b.
  Proof.
    induction ks as [|k r IH]; intros b q Hq; cbn [import_all]; [reflexivity|].
    destruct (import_key_file C m1 m2 aux files b k) as [b1 ok] eqn:E1.
    destruct (import_all C m1 m2 aux files b1 r) as [b2 n] eqn:E2. cbn [fst].
    change b2 with (fst (b2, n)). rewrite <- E2. rewrite IH by (cbn [map In] in Hq; tauto).
    change b1 with (fst (b1, ok)). rewrite <- E1. apply import_key_file_frame.
    intros ->. apply Hq. now left.
  Qed.

  Lemma import_all_count m1 m2 aux files ks : forall b,
    (snd (import_all C m1 m2 aux files b ks) <= length ks)%nat.
  Proof.
    induction ks as [|k r IH]; intros b; cbn [import_all]; [cbn; lia|].
    destruct (import_key_file C m1 m2 aux files b k) as [b1 ok].
    specialize (IH b1). destruct (import_all C m1 m2 aux files b1 r) as [b2 n]. cbn [snd length] in *.
    destruct ok; lia.
  Qed.

  (** if the migration reports success (all keys imported), every classified key is in its ring *)
  Theorem import_all_arrive m1 m2 aux files ks : forall b,
    m2 <> [] -> aux_ok aux -> files_small files ->
    NoDup (map kpath ks) -> Forall (fun k => b_get (kpath k) b = None) ks ->
    snd (import_all C m1 m2 aux files b ks) = length ks ->
    Forall (fun k => exists d, exported_data C m1 files k = Ok d /\
                               arrived m2 (fst (import_all C m1 m2 aux files b ks)) (kpath k) d) ks.
  Proof.
    induction ks as [|k r IH]; intros b Hm Haux Hfs Hnd Hnone Hcount; [constructor|].
    cbn [import_all] in *. cbn [map] in Hnd. inversion Hnd as [|? ? Hnotin Hnd']; subst.
    inversion Hnone as [|? ? Hk Hnone']; subst.
    destruct (import_key_file C m1 m2 aux files b k) as [b1 ok] eqn:E1.
    pose proof (import_all_count m1 m2 aux files r b1) as Hle.
    pose proof (import_all_frame m1 m2 aux files r b1 (kpath k) Hnotin) as Hfr.
    destruct (import_all C m1 m2 aux files b1 r) as [b2 n] eqn:E2. cbn [fst snd length] in *.
    destruct ok; [|lia].
    destruct (import_key_file_arrives _ _ _ _ _ _ _ Hm Haux Hfs Hk E1) as [[d [Hd Harr]] Hframe].
    constructor.
    - exists d. split; [exact Hd|]. destruct Harr as [si [un Hv]]. exists si, un.
      unfold store_view in *. now rewrite Hfr.
    - assert (Hr : Forall (fun k0 => b_get (kpath k0) b1 = None) r).
      { apply Forall_forall. intros x Hx. rewrite Forall_forall in Hnone'.
        rewrite Hframe; [now apply Hnone'|]. intros Heq. apply Hnotin. change (ring_path (x_purpose k) (x_ctx k)) with (kpath k) in Heq. rewrite <- Heq. now apply in_map. }
      specialize (IH b1 Hm Haux Hfs Hnd' Hr). rewrite E2 in IH. cbn [fst snd] in IH. apply IH. lia.
  Qed.
End MigrateProofs.
