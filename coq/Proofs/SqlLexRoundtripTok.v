(** C13_lex, part 1: one lemma per token class — scanning the rendering of a piece followed by any continuation whose
    first byte the stop kind admits returns the token of the piece and the continuation — and the induction over
    the piece list: adj_ok ps -> lex (render ps) = Some (toks ps). *)
From Acra Require Import Lib.Bytes Gen.Prec Gen.SqlWords Model.SqlStmt Model.SqlStmtText Proofs.SqlEscape
  Proofs.SqlLexRoundtripDefs.
From Acra Require Model.SqlExpr.
From Coq Require Import Arith Lia Bool.

Lemma byte_eqb_sym a b : byte_eqb a b = byte_eqb b a.
Proof.
  destruct (byte_eqb a b) eqn:E.
  - apply byte_eqb_eq in E. subst. symmetry. apply byte_eqb_refl.
  - destruct (byte_eqb b a) eqn:F; [|reflexivity]. apply byte_eqb_eq in F. subst. rewrite byte_eqb_refl in E. discriminate.
Qed.

(* ---------- span ---------- *)
Lemma span_app_stop (p : byte -> bool) (a r : bytes) :
  forallb p a = true -> head_is p r = false -> span p (a ++ r) = (a, r).
Proof.
  induction a as [|c a IH]; intros Ha Hr.
  - cbn [app]. destruct r as [|d r]; [reflexivity|]. cbn [head_is] in Hr. cbn [span]. rewrite Hr. reflexivity.
  - cbn [forallb] in Ha. apply andb_true_iff in Ha as [Hc Ha]. cbn [app span]. rewrite Hc, IH by assumption. reflexivity.
Qed.
(** a span over a text with an inert suffix: the result of the span over the text alone, suffix appended *)
Lemma span_app_inert (p : byte -> bool) (a r : bytes) :
  head_is p r = false -> span p (a ++ r) = (fst (span p a), snd (span p a) ++ r).
Proof.
  intros Hr. induction a as [|c a IH].
  - cbn [app]. destruct r as [|d r]; [reflexivity|]. cbn [head_is] in Hr. cbn [span]. rewrite Hr. reflexivity.
  - cbn [app span]. destruct (p c); [|reflexivity]. rewrite IH. destruct (span p a). reflexivity.
Qed.

Lemma all_opts_in o : In o all_opts.
Proof.
  destruct o as [c|]; [|left; reflexivity]. right.
  apply in_map_iff. exists (N.to_nat (b2n c)). split.
  - destruct c; reflexivity.
  - apply in_seq. destruct c; vm_compute; split; try lia; repeat constructor.
Qed.

Lemma stop_ok_sound pg s k o :
  stop_ok pg false s k = true -> in_cls k o = true -> stopb pg s o = true.
Proof.
  unfold stop_ok. cbn [andb orb]. intros H Hk.
  rewrite forallb_forall in H. specialize (H o (all_opts_in o)). rewrite Hk in H. exact H.
Qed.
Section LP.
Variable pg : bool.

(* ---------- punctuation and operators ---------- *)
Lemma lex_one_punct p nv rest :
  stopb pg (SP p) (hd_opt rest) = true ->
  lex_one pg nv (punct_text p ++ rest) = Some (TP p, nv, rest).
Proof.
  intros H. destruct rest as [|d r].
  - destruct p; reflexivity.
  - cbn [hd_opt] in H. destruct p; cbn [punct_text app]; unfold lex_one; cbn -[byte_eqb]; cbn [stopb] in H;
      repeat match goal with
      | H : (_ && _) = true |- _ => apply andb_true_iff in H; destruct H
      | H : negb _ = true |- _ => apply negb_true_iff in H
      end;
      rewrite ?(byte_eqb_sym d) in *;
      repeat match goal with H : byte_eqb _ d = false |- _ => rewrite H; clear H end; try reflexivity.
  change (byte_eqb "." ":") with false. cbv iota. rewrite H. reflexivity.
Qed.
End LP.
Section LW.
Variable pg : bool.

Definition wordch (db : bool) (d : byte) : bool := is_letter d || is_digit d || (db && is_carat pg d).
Definition word_result (v : bytes) : tok :=
  let low := lower v in
  if mem_bytes low KEYWORDS then kw_tok low else if bytes_eqb low x_dual then TId low else TId v.

Lemma letter_not_sq d : is_letter d || is_digit d = true -> byte_eqb x_sq d = false.
Proof. destruct d; try discriminate; reflexivity. Qed.
Lemma at_not_sq d : byte_eqb d x40 = true -> byte_eqb x_sq d = false.
Proof. intros H. apply byte_eqb_eq in H. subst. reflexivity. Qed.

(** scanIdentifier on a word: letters/digits (and '.', quotes inside an "@@" system variable) *)
Lemma lex_one_word c v' nv rest :
  is_letter c = true ->
  forallb (wordch (is_dbsys (c :: v'))) v' = true ->
  stopb pg (SWord (is_dbsys (c :: v'))) (hd_opt rest) = true ->
  lex_one pg nv ((c :: v') ++ rest) = Some (word_result (c :: v'), nv, rest).
Proof.
  intros Hc Hv Hs.
  assert (Hq : head_is (byte_eqb x_sq) (v' ++ rest) = false).
  { destruct v' as [|d v'].
    - cbn [app]. destruct rest as [|e r]; [reflexivity|]. cbn [hd_opt stopb] in Hs. cbn [head_is].
      repeat (apply andb_true_iff in Hs; destruct Hs as [Hs ?]).
      rewrite byte_eqb_sym. apply negb_true_iff. assumption.
    - cbn [app head_is]. cbn [forallb] in Hv. apply andb_true_iff in Hv as [Hd _].
      unfold wordch in Hd. apply orb_true_iff in Hd as [Hd|Hd]; [apply letter_not_sq; exact Hd|].
      apply andb_true_iff in Hd as [Hd _]. cbn [is_dbsys] in Hd. apply andb_true_iff in Hd as [_ Hd]. apply at_not_sq; exact Hd. }
  assert (Hdb : byte_eqb c x40 && head_is (byte_eqb x40) (v' ++ rest) = is_dbsys (c :: v')).
  { destruct v' as [|d v'].
    - cbn [app is_dbsys]. destruct rest as [|e r]; [apply andb_false_r|]. cbn [hd_opt stopb] in Hs. cbn [head_is].
      repeat (apply andb_true_iff in Hs; destruct Hs as [Hs ?]).
      apply negb_true_iff in Hs.
      destruct (byte_eqb x40 e) eqn:E; [|apply andb_false_r]. apply byte_eqb_eq in E. subst e. discriminate Hs.
    - cbn [app head_is is_dbsys]. rewrite (byte_eqb_sym x40 d). reflexivity. }
  cbn [app]. unfold lex_one. rewrite Hc, Hq, !andb_false_r. rewrite Hdb.
  assert (Hsp : span (fun d => is_letter d || is_digit d || (is_dbsys (c :: v') && is_carat pg d)) (v' ++ rest) = (v', rest)).
  { apply span_app_stop; [exact Hv|].
    destruct rest as [|e r]; [reflexivity|]. cbn [hd_opt stopb] in Hs. cbn [head_is].
    repeat (apply andb_true_iff in Hs; destruct Hs as [Hs ?]).
    repeat match goal with H : negb _ = true |- _ => apply negb_true_iff in H end.
    rewrite Hs. cbn [orb]. match goal with H : is_digit e = false |- _ => rewrite H end. cbn [orb]. assumption. }
  rewrite Hsp. unfold word_result. cbv zeta.
  destruct (mem_bytes (lower (c :: v')) KEYWORDS); [reflexivity|].
  destruct (bytes_eqb (lower (c :: v')) x_dual); reflexivity.
Qed.
End LW.
Section LI.
Variable pg : bool.

Lemma forallb_impl {A} (p q : A -> bool) l : (forall x, p x = true -> q x = true) -> forallb p l = true -> forallb q l = true.
Proof. intros H. induction l as [|x l IH]; [reflexivity|]. cbn [forallb]. intros K. apply andb_true_iff in K as [K1 K2]. rewrite (H _ K1), (IH K2). reflexivity. Qed.

(** keywords of the printer *)
Definition word_chk (w : word) : bool :=
  match word_text w with
  | c :: v' => is_letter c && forallb (fun d => is_letter d || is_digit d) v' && negb (is_dbsys (c :: v'))
               && match word_result (c :: v') with TW w' => word_tag w' =? word_tag w | _ => false end%N
  | [] => false
  end.
Lemma word_chk_all w : word_chk w = true.
Proof. destruct w; vm_compute; reflexivity. Qed.
Lemma word_tag_inj a b : (word_tag a =? word_tag b)%N = true -> a = b.
Proof. destruct a, b; vm_compute; intros H; try discriminate H; reflexivity. Qed.

Lemma lex_one_kw w nv rest :
  stopb pg (SWord false) (hd_opt rest) = true ->
  lex_one pg nv (word_text w ++ rest) = Some (TW w, nv, rest).
Proof.
  intros Hs. pose proof (word_chk_all w) as K. unfold word_chk in K.
  destruct (word_text w) as [|c v'] eqn:E; [discriminate K|].
  repeat (apply andb_true_iff in K; destruct K as [K ?]).
  match goal with H : negb (is_dbsys _) = true |- _ => apply negb_true_iff in H; rename H into Hdb end.
  rewrite (lex_one_word pg c v' nv rest K).
  - destruct (word_result (c :: v')); try discriminate. match goal with H : (word_tag _ =? word_tag _)%N = true |- _ => rewrite (word_tag_inj _ _ H) end. reflexivity.
  - rewrite Hdb. eapply forallb_impl; [|eassumption]. intros x Hx. unfold wordch. rewrite Hx. reflexivity.
  - rewrite Hdb. exact Hs.
Qed.

Lemma id_chars_word c v' : id_chars (c :: v') = true -> forall db, forallb (wordch pg db) v' = true.
Proof.
  cbn [id_chars]. intros H db. apply andb_true_iff in H as [_ H]. eapply forallb_impl; [|exact H].
  intros x Hx. unfold wordch. rewrite Hx. reflexivity.
Qed.

(** names printed raw *)
Lemma lex_one_raw v nv rest :
  raw_ok v = true -> stopb pg (SWord (is_dbsys v)) (hd_opt rest) = true ->
  lex_one pg nv (v ++ rest) = Some (raw_tok v, nv, rest).
Proof.
  unfold raw_ok. intros H Hs. apply andb_true_iff in H as [Hi Hd].
  destruct v as [|c v']; [discriminate Hi|].
  rewrite lex_one_word; [| cbn [id_chars] in Hi; apply andb_true_iff in Hi as [Hi _]; exact Hi | apply (id_chars_word c v' Hi) | exact Hs].
  f_equal. f_equal. f_equal. unfold word_result, raw_tok, is_keyword. unfold is_keyword in Hd. cbv zeta.
  destruct (mem_bytes (lower (c :: v')) KEYWORDS); [reflexivity|]. cbn [orb] in Hd.
  destruct (bytes_eqb (lower (c :: v')) x_dual) eqn:E; [|reflexivity]. cbn [negb orb] in Hd.
  apply bytes_eqb_eq in Hd. apply bytes_eqb_eq in E. rewrite E. rewrite Hd. reflexivity.
Qed.

(** formatID, the name needs no quoting *)
Lemma bad_chars_word db first v :
  bad_chars pg db first v = false ->
  forallb (fun d => is_letter d || (db && is_carat pg d) || (negb first && is_digit d)) (firstn 1 v) && forallb (wordch pg db) (skipn 1 v) = true.
Proof.
  destruct v as [|c v]; [reflexivity|]. cbn [bad_chars firstn skipn forallb]. intros H.
  apply orb_false_iff in H as [H1 H2]. rewrite andb_true_r.
  assert (G : forall v first, bad_chars pg db first v = false -> first = false -> forallb (wordch pg db) v = true).
  { clear. induction v as [|d v IH]; [reflexivity|]. intros first H F. subst first. cbn [bad_chars] in H. cbn [forallb].
    apply orb_false_iff in H as [H1 H2]. rewrite (IH false H2 eq_refl), andb_true_r.
    unfold wordch. destruct (is_letter d); [reflexivity|]. destruct (db && is_carat pg d); [apply orb_true_r|].
    cbn [negb andb orb] in *. destruct (is_digit d); [reflexivity|discriminate H1]. }
  rewrite (G v false H2 eq_refl), andb_true_r.
  destruct (is_letter c); [reflexivity|]. destruct (db && is_carat pg c); [reflexivity|].
  cbn [negb andb orb] in *. destruct first; [discriminate H1|]. cbn [negb andb]. destruct (is_digit c); [reflexivity|discriminate H1].
Qed.

Lemma lex_one_plain_id v nv rest :
  nonempty v = true -> must_escape pg v = false ->
  stopb pg (SWord (is_dbsys v)) (hd_opt rest) = true ->
  lex_one pg nv (v ++ rest) = Some (id_tok pg (Id QNone v), nv, rest).
Proof.
  intros Hn Hm Hs. unfold must_escape in Hm. apply orb_false_iff in Hm as [Hb Hk].
  destruct v as [|c v']; [discriminate Hn|].
  pose proof (bad_chars_word _ _ _ Hb) as W. cbn [firstn skipn forallb] in W. rewrite andb_true_r in W.
  apply andb_true_iff in W as [Wc Wv].
  assert (Hc : is_letter c = true).
  { destruct (is_letter c) eqn:L; [reflexivity|]. cbn [orb negb andb] in Wc. rewrite orb_false_r in Wc.
    apply andb_true_iff in Wc as [Wd _]. cbn [is_dbsys] in Wd. destruct v'; [discriminate Wd|].
    apply andb_true_iff in Wd as [Wd _]. apply byte_eqb_eq in Wd. subst c. discriminate L. }
  rewrite lex_one_word by assumption. f_equal. f_equal. f_equal.
  unfold word_result, id_tok. cbv zeta. unfold must_escape. rewrite Hb. rewrite Hk. unfold is_keyword in Hk. rewrite Hk. cbn [orb].
  destruct (bytes_eqb (lower (c :: v')) x_dual) eqn:E; [|reflexivity]. apply bytes_eqb_eq in E. rewrite E. reflexivity.
Qed.
End LI.
Section LN.
Variable pg : bool.
Definition inert (r : bytes) : Prop := stopb pg SNum (hd_opt r) = true.

Lemma inert_facts d r : inert (d :: r) ->
  is_digit d = false /\ is_letter d = false /\ byte_eqb d x2e = false /\ is_sign d = false /\ is_ex d = false
  /\ is_xx d = false /\ is_hexdigit d = false /\ byte_eqb d x30 = false.
Proof. unfold inert. cbn [hd_opt]. destruct d; intros H; try discriminate H; repeat split; reflexivity. Qed.
Lemma inert_digit r : inert r -> head_is is_digit r = false.
Proof. destruct r as [|d r]; [reflexivity|]. intros H. apply inert_facts in H. cbn [head_is]. tauto. Qed.
Lemma inert_letter r : inert r -> head_is is_letter r = false.
Proof. destruct r as [|d r]; [reflexivity|]. intros H. apply inert_facts in H. cbn [head_is]. tauto. Qed.
Lemma inert_hex r : inert r -> head_is is_hexdigit r = false.
Proof. destruct r as [|d r]; [reflexivity|]. intros H. apply inert_facts in H. cbn [head_is]. tauto. Qed.
Lemma head_is_app_inert p y r : head_is p r = false -> head_is p (y ++ r) = head_is p y.
Proof. destruct y; [cbn [app head_is]; intros ->; reflexivity|reflexivity]. Qed.

Lemma num_exponent_app t buf s r t' w y :
  inert r -> num_exponent t buf s = Some (t', w, y) -> num_exponent t buf (s ++ r) = Some (t', w, y ++ r).
Proof.
  intros Hr. unfold num_exponent.
  destruct s as [|c s1].
  - cbn [app head_is]. intros E; inversion E; subst. destruct r as [|d r']; [reflexivity|].
    destruct (inert_facts _ _ Hr) as (Hd & Hl & Hp & Hsg & Hex & _). rewrite Hex. cbn [head_is]. rewrite Hl. reflexivity.
  - cbn [app]. destruct (is_ex c).
    + destruct s1 as [|d s2].
      * cbn [app span head_is]. intros E; inversion E; subst. destruct r as [|e r']; [reflexivity|].
        destruct (inert_facts _ _ Hr) as (Hd & Hl & Hp & Hsg & Hex & _). rewrite Hsg. cbn [span]. rewrite Hd. cbn [head_is]. rewrite Hl. reflexivity.
      * cbn [app]. destruct (is_sign d).
        -- rewrite (span_app_inert is_digit s2 r) by (apply inert_digit; exact Hr). destruct (span is_digit s2) as [ds s3]. cbn [fst snd].
           rewrite head_is_app_inert by (apply inert_letter; exact Hr). destruct (head_is is_letter s3); intros E; inversion E; reflexivity.
        -- change (d :: s2 ++ r) with ((d :: s2) ++ r).
           rewrite (span_app_inert is_digit (d :: s2) r) by (apply inert_digit; exact Hr). destruct (span is_digit (d :: s2)) as [ds s3]. cbn [fst snd].
           rewrite head_is_app_inert by (apply inert_letter; exact Hr). destruct (head_is is_letter s3); intros E; inversion E; reflexivity.
    + change (c :: s1 ++ r) with ((c :: s1) ++ r). rewrite head_is_app_inert by (apply inert_letter; exact Hr).
      destruct (head_is is_letter (c :: s1)); intros E; inversion E; reflexivity.
Qed.

Definition num_tail (s : bytes) : option (N * bytes * bytes) :=
  let (ds, s1) := span is_digit s in
  match s1 with
  | c :: s2 =>
      if byte_eqb c x2e then
        let (fs, s3) := span is_digit s2 in num_exponent VT_FloatVal (ds ++ c :: fs) s3
      else num_exponent VT_IntVal ds s1
  | [] => num_exponent VT_IntVal ds s1
  end.
Lemma num_tail_app s r t' w y :
  inert r -> num_tail s = Some (t', w, y) -> num_tail (s ++ r) = Some (t', w, y ++ r).
Proof.
  intros Hr. unfold num_tail. rewrite (span_app_inert is_digit s r) by (apply inert_digit; exact Hr).
  destruct (span is_digit s) as [ds s1]. cbn [fst snd].
  destruct s1 as [|c s2].
  - cbn [app]. intros E. destruct r as [|d r']; [rewrite app_nil_r; exact E|].
    destruct (inert_facts _ _ Hr) as (Hd & Hl & Hp & _). rewrite Hp. apply (num_exponent_app _ _ [] (d :: r') _ _ _ Hr E).
  - cbn [app]. destruct (byte_eqb c x2e).
    + rewrite (span_app_inert is_digit s2 r) by (apply inert_digit; exact Hr). destruct (span is_digit s2) as [fs s3]. cbn [fst snd].
      apply num_exponent_app; exact Hr.
    + apply (num_exponent_app _ _ (c :: s2) r _ _ _ Hr).
Qed.

Lemma lex_number_app b s r t' w y :
  inert r -> lex_number b s = Some (t', w, y) -> lex_number b (s ++ r) = Some (t', w, y ++ r).
Proof.
  intros Hr. destruct b.
  - unfold lex_number. rewrite (span_app_inert is_digit s r) by (apply inert_digit; exact Hr).
    destruct (span is_digit s) as [ds s1]. cbn [fst snd]. apply num_exponent_app; exact Hr.
  - change (lex_number false) with (fun s =>
      match (match s with
             | z :: x :: s2 =>
                 if byte_eqb z x30 && is_xx x then
                   let (hs, s3) := span is_hexdigit s2 in
                   Some (if head_is is_letter s3 then None else Some (VT_HexNum, z :: x :: hs, s3))
                 else None
             | _ => None
             end) with Some r => r | None => num_tail s end). cbv beta.
    destruct s as [|z [|x s2]].
    + cbn [app]. intros E. destruct r as [|d [|e r']]; [rewrite app_nil_r; exact E| |].
      * apply (num_tail_app [] [d] _ _ _ Hr E).
      * destruct (inert_facts _ _ Hr) as (_ & _ & _ & _ & _ & _ & _ & H0). rewrite H0. cbn [andb].
        apply (num_tail_app [] (d :: e :: r') _ _ _ Hr E).
    + cbn [app]. intros E. destruct r as [|d r'].
      * rewrite app_nil_r; exact E.
      * destruct (inert_facts _ _ Hr) as (_ & _ & _ & _ & _ & Hx & _). rewrite Hx, andb_false_r.
        apply (num_tail_app [z] (d :: r') _ _ _ Hr E).
    + cbn [app]. destruct (byte_eqb z x30 && is_xx x).
      * rewrite (span_app_inert is_hexdigit s2 r) by (apply inert_hex; exact Hr). destruct (span is_hexdigit s2) as [hs s3]. cbn [fst snd].
        rewrite head_is_app_inert by (apply inert_letter; exact Hr). destruct (head_is is_letter s3); intros E; inversion E; reflexivity.
      * apply (num_tail_app (z :: x :: s2) r _ _ _ Hr).
Qed.

(** a number literal followed by an inert byte *)
Lemma lex_one_num t v nv rest :
  num_ok t v = true -> inert rest -> lex_one pg nv (v ++ rest) = Some (TLit t v, nv, rest).
Proof.
  unfold num_ok. intros H Hr. destruct v as [|c v']; [discriminate H|].
  destruct (is_digit c) eqn:Dc.
  - destruct (lex_number false (c :: v')) as [[[t' w] y]|] eqn:E; [|discriminate H]. destruct y; [|discriminate H].
    apply andb_true_iff in H as [Ht Hw]. apply N.eqb_eq in Ht. apply bytes_eqb_eq in Hw. subst t' w.
    pose proof (lex_number_app _ _ _ _ _ _ Hr E) as K. cbn [app] in K |- *. unfold lex_one.
    assert (L : is_letter c = false) by (destruct c; try discriminate Dc; reflexivity).
    rewrite L, Dc, K. reflexivity.
  - apply andb_prop in H as H'. destruct (byte_eqb c x2e) eqn:Ec; [|discriminate H]. apply byte_eqb_eq in Ec. subst c.
    cbn [andb] in H. destruct (head_is is_digit v') eqn:Hd; [|discriminate H].
    destruct (lex_number true v') as [[[t' w] y]|] eqn:E; [|discriminate H]. destruct y; [|discriminate H].
    apply andb_true_iff in H as [Ht Hw]. apply N.eqb_eq in Ht. apply bytes_eqb_eq in Hw. subst t' w.
    pose proof (lex_number_app _ _ _ _ _ _ Hr E) as K. cbn [app] in K |- *. unfold lex_one.
    change (is_letter x2e) with false. change (is_digit x2e) with false. change (byte_eqb x2e x3a) with false. cbv iota.
    cbn -[lex_number head_is app]. rewrite head_is_app_inert by (apply inert_digit; exact Hr). rewrite Hd, K. reflexivity.
Qed.
End LN.
Section LQ.
Variable pg : bool.

Definition not_head (q : byte) (s : bytes) : Prop := match s with [] => True | d :: _ => byte_eqb d q = false end.

(* ---------- quoted identifiers ---------- *)
Lemma scan_qid_doubled q v : forall acc rest,
  not_head q rest -> scan_qid q acc (double_quote q v ++ q :: rest) = Some (acc ++ v, rest).
Proof.
  induction v as [|c v IH]; intros acc rest Hr.
  - cbn [double_quote app scan_qid]. rewrite byte_eqb_refl, app_nil_r. destruct rest as [|d r]; [reflexivity|].
    cbn [not_head] in Hr. rewrite Hr. reflexivity.
  - cbn [double_quote]. destruct (byte_eqb c q) eqn:E.
    + cbn [app scan_qid]. rewrite !E. apply byte_eqb_eq in E. subst c. rewrite IH by exact Hr. rewrite <- app_assoc. reflexivity.
    + cbn [app scan_qid]. rewrite E. rewrite IH by exact Hr. rewrite <- app_assoc. reflexivity.
Qed.
Lemma double_quote_none q v : no_byte q v = true -> double_quote q v = v.
Proof.
  induction v as [|c v IH]; [reflexivity|]. cbn [no_byte forallb double_quote]. intros H. apply andb_true_iff in H as [H1 H2].
  apply negb_true_iff in H1. rewrite H1. unfold no_byte in IH. rewrite IH by exact H2. reflexivity.
Qed.

(* ---------- strings: scan_str with the single quote is SqlExpr.scan_string ---------- *)
Lemma scan_str_is_scan_string n : forall s first acc, length s <= n ->
  scan_str x_sq first acc s = SqlExpr.scan_string first acc s.
Proof.
  induction n as [|n IH]; intros s first acc Hl.
  - destruct s; [reflexivity|cbn [length] in Hl; lia].
  - destruct s as [|c s1]; [reflexivity|]. cbn [length] in Hl. cbn [scan_str SqlExpr.scan_string].
    change SqlExpr.x_bslash with x_bsl. change SqlExpr.x_quote with x_sq. change SqlExpr.is_x with is_xx.
    destruct (byte_eqb c x_bsl).
    + destruct s1 as [|d s2]; [reflexivity|]. cbn [length] in Hl. rewrite !IH by lia. reflexivity.
    + destruct (byte_eqb c x_sq).
      * destruct s1 as [|d s2]; [reflexivity|]. cbn [length] in Hl. rewrite IH by lia. reflexivity.
      * apply IH. lia.
Qed.
Lemma scan_str_sq s first acc : scan_str x_sq first acc s = SqlExpr.scan_string first acc s.
Proof. apply (scan_str_is_scan_string (length s)). lia. Qed.

(** a raw text between delimiters: no delimiter, no backslash inside *)
Lemma scan_str_raw delim v : forall first acc rest,
  byte_eqb delim x_bsl = false -> no_byte delim v = true -> no_byte x_bsl v = true -> not_head delim rest ->
  scan_str delim first acc (v ++ delim :: rest) = Some (acc ++ v, rest).
Proof.
  intros first acc rest Hd. revert first acc. induction v as [|c v IH]; intros first acc Hv Hb Hr.
  - cbn [app scan_str]. rewrite Hd, byte_eqb_refl, app_nil_r. destruct rest as [|d r]; [reflexivity|].
    cbn [not_head] in Hr. rewrite Hr. reflexivity.
  - cbn [no_byte forallb] in Hv, Hb. apply andb_true_iff in Hv as [Hv1 Hv2]. apply andb_true_iff in Hb as [Hb1 Hb2].
    apply negb_true_iff in Hv1. apply negb_true_iff in Hb1.
    cbn [app scan_str]. rewrite Hb1, Hv1. rewrite IH by assumption. rewrite <- app_assoc. reflexivity.
Qed.
End LQ.
Section LL.
Variable pg : bool.

Ltac chain := unfold lex_one, id_quote; cbn -[scan_str scan_qid span lex_number app dec_of_N N.add double_quote SqlExpr.enc_body SqlExpr.escape_body].

Lemma scan_enc v rest : not_head x_sq rest ->
  scan_str x_sq true [] (SqlExpr.enc_body v ++ x_sq :: rest) = Some (v, rest).
Proof.
  intros H. rewrite scan_str_sq.
  assert (H' : not_quote_head rest) by (destruct rest; [exact I|exact H]).
  pose proof (escape_roundtrip v rest H') as R. unfold SqlExpr.decode_sql, SqlExpr.encode_sql in R. cbn [app] in R.
  rewrite quote_eqb in R. rewrite <- app_assoc in R. exact R.
Qed.
Lemma scan_esc v rest : not_head x_sq rest ->
  scan_str x_sq true [] (SqlExpr.escape_body v ++ x_sq :: rest) = Some (v, rest).
Proof.
  intros H. rewrite scan_str_sq.
  assert (H' : not_quote_head rest) by (destruct rest; [exact I|exact H]).
  apply (scan_escape_body v true [] rest H').
Qed.

Lemma lex_one_str v nv rest : not_head x_sq rest ->
  lex_one pg nv (SqlExpr.encode_sql v ++ rest) = Some (TLit VT_StrVal v, nv, rest).
Proof.
  intros H. unfold SqlExpr.encode_sql. cbn [app]. rewrite <- app_assoc. cbn [app].
  destruct pg; chain; change SqlExpr.x_quote with x_sq; rewrite scan_enc by exact H; reflexivity.
Qed.

Lemma lex_one_pgesc v nv rest : not_head x_sq rest ->
  lex_one pg nv (x45 :: x_sq :: SqlExpr.escape_body v ++ [x_sq] ++ rest) = Some (TLit VT_PgEscapeString v, nv, rest).
Proof. intros H. cbn [app]. chain. rewrite scan_esc by exact H. reflexivity. Qed.

Lemma hex_not_sq : head_is is_hexdigit (x_sq :: []) = false. Proof. reflexivity. Qed.
Lemma lex_one_hexval v nv rest : forallb is_hexdigit v = true -> Nat.even (length v) = true ->
  lex_one pg nv (x58 :: x_sq :: v ++ [x_sq] ++ rest) = Some (TLit VT_HexVal v, nv, rest).
Proof.
  intros H E. cbn [app]. chain. rewrite (span_app_stop is_hexdigit v (x_sq :: rest) H eq_refl).
  chain. rewrite E. reflexivity.
Qed.
Lemma lex_one_bitval v nv rest : forallb is_bit v = true ->
  lex_one pg nv (x42 :: x_sq :: v ++ [x_sq] ++ rest) = Some (TLit VT_BitVal v, nv, rest).
Proof.
  intros H. cbn [app]. chain. rewrite (span_app_stop is_bit v (x_sq :: rest) H eq_refl). reflexivity.
Qed.

Lemma bind_head rest : stopb pg SBind (hd_opt rest) = true -> head_is bindch rest = false.
Proof. destruct rest as [|d r]; [reflexivity|]. cbn [hd_opt stopb head_is]. intros H. apply negb_true_iff in H. exact H. Qed.
Lemma letter_not_colon l : is_letter l = true -> byte_eqb l x3a = false.
Proof. destruct l; try discriminate; reflexivity. Qed.

Lemma lex_one_cast c nv rest : cast_ok c = true -> stopb pg SBind (hd_opt rest) = true ->
  lex_one pg nv (c ++ rest) = Some (TCast c, nv, rest).
Proof.
  unfold cast_ok. intros H Hs. destruct c as [|a [|b [|l w]]]; try discriminate H.
  repeat (apply andb_true_iff in H; destruct H as [H ?]).
  apply byte_eqb_eq in H. subst a. match goal with K : byte_eqb b x3a = true |- _ => apply byte_eqb_eq in K; subst b end.
  cbn [app]. chain. match goal with K : is_letter l = true |- _ => rewrite K; cbn [orb] end.
  change (fun d : byte => is_letter d || is_digit d || byte_eqb d x2e) with bindch.
  change (l :: w ++ rest) with ((l :: w) ++ rest).
  rewrite (span_app_stop bindch (l :: w) rest);
    [reflexivity | cbn [forallb]; unfold bindch at 1; match goal with K : is_letter l = true |- _ => rewrite K end; assumption | apply bind_head; exact Hs].
Qed.

Lemma lex_one_bind l w nv rest : is_letter l = true -> forallb bindch w = true -> stopb pg SBind (hd_opt rest) = true ->
  lex_one pg nv (x3a :: l :: w ++ rest) = Some (TLit VT_ValArg (x3a :: l :: w), nv, rest).
Proof.
  intros Hl Hw Hs. chain. rewrite (letter_not_colon l Hl). chain. rewrite Hl. cbn [orb].
  change (fun d : byte => is_letter d || is_digit d || byte_eqb d x2e) with bindch.
  change (l :: w ++ rest) with ((l :: w) ++ rest).
  rewrite (span_app_stop bindch (l :: w) rest);
    [reflexivity | cbn [forallb]; unfold bindch at 1; rewrite Hl; exact Hw | apply bind_head; exact Hs].
Qed.

Lemma lex_one_qm nv rest :
  lex_one pg nv (x3f :: rest) = Some (TLit VT_ValArg (x3a :: x76 :: dec_of_N (nv + 1)), (nv + 1)%N, rest).
Proof. chain. reflexivity. Qed.

Lemma lex_one_dollar ds nv rest : num_ok VT_IntVal ds = true -> inert pg rest ->
  lex_one pg nv (x24 :: ds ++ rest) = Some (TLit VT_PgPlaceholder (x24 :: ds), nv, rest).
Proof.
  intros H Hr. unfold num_ok in H. destruct ds as [|c v']; [discriminate H|].
  destruct (is_digit c) eqn:Dc.
  - destruct (lex_number false (c :: v')) as [[[t' w] y]|] eqn:E; [|discriminate H]. destruct y; [|discriminate H].
    apply andb_true_iff in H as [Ht Hw]. apply N.eqb_eq in Ht. apply bytes_eqb_eq in Hw. subst t' w.
    pose proof (lex_number_app pg _ _ _ _ _ _ Hr E) as K. chain. rewrite K. reflexivity.
  - destruct (byte_eqb c x2e && head_is is_digit v'); [|discriminate H].
    destruct (lex_number true v') as [[[t' w] y]|] eqn:E; [|discriminate H]. destruct y; [|discriminate H].
    apply andb_true_iff in H as [Ht Hw]. apply N.eqb_eq in Ht. apply bytes_eqb_eq in Hw. subst t' w.
    exfalso. clear -E. unfold lex_number in E. destruct (span is_digit v') as [ds s1]. unfold num_exponent in E.
    destruct s1 as [|e s2]; [|destruct (is_ex e); [destruct s2 as [|d s3]; [|destruct (is_sign d)]|]];
      repeat match type of E with context [span ?p ?x] => destruct (span p x) end;
      match type of E with context [if ?b then _ else _] => destruct b end; inversion E.
Qed.

(* ---------- quoted identifiers ---------- *)
Lemma lex_one_quoted_id v nv rest : nonempty v = true -> not_head (id_quote pg) rest ->
  lex_one pg nv (id_quote pg :: double_quote (id_quote pg) v ++ [id_quote pg] ++ rest) = Some (if pg then TDq v else TId v, nv, rest).
Proof.
  intros Hn Hr. cbn [app]. destruct pg; chain;
    (match goal with |- context [scan_qid ?q [] _] => rewrite (scan_qid_doubled q v [] rest Hr) end);
    cbn [app]; destruct v; [discriminate Hn|reflexivity|discriminate Hn|reflexivity].
Qed.
Lemma lex_one_dq_id v nv rest : nonempty v = true -> no_byte x_dq v = true -> (pg || no_byte x_bsl v) = true -> not_head x_dq rest ->
  lex_one pg nv (x_dq :: v ++ [x_dq] ++ rest) = Some (TDq v, nv, rest).
Proof.
  intros Hn Hq Hb Hr. cbn [app]. destruct pg; chain.
  - rewrite <- (double_quote_none x_dq v Hq) at 1. change x22 with x_dq. rewrite (scan_qid_doubled x_dq v [] rest Hr).
    cbn [app]. destruct v; [discriminate Hn|reflexivity].
  - cbn [orb] in Hb. change x22 with x_dq. rewrite (scan_str_raw x_dq v true [] rest eq_refl Hq Hb Hr). reflexivity.
Qed.
Lemma lex_one_sq_id v nv rest : no_byte x_sq v = true -> no_byte x_bsl v = true -> not_head x_sq rest ->
  lex_one pg nv (x_sq :: v ++ [x_sq] ++ rest) = Some (TLit VT_StrVal v, nv, rest).
Proof.
  intros Hq Hb Hr. cbn [app]. destruct pg; chain; change x27 with x_sq;
    rewrite (scan_str_raw x_sq v true [] rest eq_refl Hq Hb Hr); reflexivity.
Qed.
End LL.
Section LPc.
Variable pg : bool.

Ltac nred := cbn [N.eqb Pos.eqb VT_StrVal VT_IntVal VT_FloatVal VT_HexNum VT_HexVal VT_ValArg VT_BitVal VT_PgEscapeString VT_PgPlaceholder orb andb].

Lemma sq_head rest : stopb pg SQs (hd_opt rest) = true -> not_head x_sq rest.
Proof. destruct rest as [|d r]; [exact (fun _ => I)|]. cbn [hd_opt stopb not_head]. intros H. apply negb_true_iff in H. exact H. Qed.
Lemma dq_head rest : stopb pg SQd (hd_opt rest) = true -> not_head x_dq rest.
Proof. destruct rest as [|d r]; [exact (fun _ => I)|]. cbn [hd_opt stopb not_head]. intros H. apply negb_true_iff in H. exact H. Qed.
Lemma q_head rest : stopb pg (qsk pg) (hd_opt rest) = true -> not_head (id_quote pg) rest.
Proof. unfold qsk, id_quote. destruct rest as [|d r]; [exact (fun _ => I)|]. destruct pg; cbn [hd_opt stopb not_head]; intros H; apply negb_true_iff in H; exact H. Qed.

Lemma lex_one_lit t v nv rest :
  lit_ok nv t v = true -> stopb pg (lit_sk t v) (hd_opt rest) = true ->
  lex_one pg nv (lit_text t v ++ rest) = Some (TLit t v, (if is_qm t v then nv + 1 else nv)%N, rest).
Proof.
  destruct (N.eq_dec t VT_StrVal) as [->|N0].
  { unfold lit_ok, lit_sk, lit_text, is_qm. nred. intros _ Hs. apply lex_one_str. apply sq_head. exact Hs. }
  destruct (N.eq_dec t VT_IntVal) as [->|N1].
  { unfold lit_ok, lit_sk, lit_text, is_qm. nred. intros H Hs. apply lex_one_num; assumption. }
  destruct (N.eq_dec t VT_FloatVal) as [->|N2].
  { unfold lit_ok, lit_sk, lit_text, is_qm. nred. intros H Hs. apply lex_one_num; assumption. }
  destruct (N.eq_dec t VT_HexNum) as [->|N3].
  { unfold lit_ok, lit_sk, lit_text, is_qm. nred. intros H Hs. apply lex_one_num; assumption. }
  destruct (N.eq_dec t VT_HexVal) as [->|N4].
  { unfold lit_ok, lit_sk, lit_text, is_qm. nred. intros H _. apply andb_true_iff in H as [H1 H2].
    cbn [app]. rewrite <- app_assoc. apply lex_one_hexval; assumption. }
  destruct (N.eq_dec t VT_ValArg) as [->|N5].
  { unfold lit_ok, lit_sk, is_qm. nred. destruct (bytes_eqb (lit_text VT_ValArg v) [x3f]) eqn:Q.
    - intros H _. apply bytes_eqb_eq in Q. apply bytes_eqb_eq in H. rewrite Q. cbn [app].
      rewrite lex_one_qm. rewrite <- H. reflexivity.
    - intros H Hs. destruct v as [|a [|l w]]; try discriminate H.
      repeat (apply andb_true_iff in H; destruct H as [H ?]). apply byte_eqb_eq in H. subst a.
      match goal with K : bytes_eqb _ _ = true |- _ => apply bytes_eqb_eq in K; rewrite K end.
      cbn [app]. apply lex_one_bind; assumption. }
  destruct (N.eq_dec t VT_BitVal) as [->|N6].
  { unfold lit_ok, lit_sk, lit_text, is_qm. nred. intros H _. cbn [app]. rewrite <- app_assoc. apply lex_one_bitval; assumption. }
  destruct (N.eq_dec t VT_PgEscapeString) as [->|N7].
  { unfold lit_ok, lit_sk, lit_text, is_qm. nred. intros _ Hs. cbn [app]. rewrite <- app_assoc. apply lex_one_pgesc. apply sq_head. exact Hs. }
  destruct (N.eq_dec t VT_PgPlaceholder) as [->|N8].
  { unfold lit_ok, lit_sk, lit_text, is_qm. nred. intros H Hs. destruct v as [|a ds]; [discriminate H|].
    apply andb_true_iff in H as [H1 H2]. apply byte_eqb_eq in H1. subst a. cbn [app]. apply lex_one_dollar; assumption. }
  unfold lit_ok. apply N.eqb_neq in N0, N1, N2, N3, N4, N5, N6, N7, N8. rewrite N0, N1, N2, N3, N4, N5, N6, N7, N8. cbn [orb]. discriminate.
Qed.

Definition ptok (p : piece) : tok := match piece_toks pg p with t :: _ => t | [] => TP PDot end.

Lemma lex_one_piece p nv rest :
  p <> PS -> pok pg nv p = true -> stopb pg (skind pg p) (hd_opt rest) = true ->
  lex_one pg nv (piece_text pg p ++ rest) = Some (ptok p, nvn nv p, rest) /\ piece_toks pg p = [ptok p].
Proof.
  intros Hp Hk Hs. split; [|destruct p; [congruence|reflexivity..]].
  destruct p as [|t|i|v]; [congruence| | |].
  - destruct t as [t v|n|n|c|p|w|s]; cbn [pok] in Hk; try discriminate Hk; cbn [piece_text tok_text skind ptok piece_toks nvn] in *.
    + apply lex_one_lit; assumption.
    + apply lex_one_cast; assumption.
    + apply lex_one_punct; assumption.
    + apply lex_one_kw; assumption.
  - destruct i as [[| |] v]; cbn [pok piece_text ident_text skind ptok piece_toks nvn] in *.
    + unfold format_id. destruct (must_escape pg v) eqn:M.
      * cbn [app]. rewrite <- app_assoc. unfold id_tok. rewrite M.
        apply (lex_one_quoted_id pg v nv rest Hk). apply q_head. exact Hs.
      * apply lex_one_plain_id; assumption.
    + repeat (apply andb_true_iff in Hk; destruct Hk as [Hk ?]). cbn [app]. rewrite <- app_assoc.
      apply lex_one_dq_id; try assumption. apply dq_head. exact Hs.
    + apply andb_true_iff in Hk as [H1 H2]. cbn [app]. rewrite <- app_assoc.
      apply lex_one_sq_id; try assumption. apply sq_head. exact Hs.
  - cbn [pok piece_text skind ptok piece_toks nvn] in *. apply lex_one_raw; assumption.
Qed.
End LPc.
Section LA.
Variable pg : bool.
Ltac nred := cbn [N.eqb Pos.eqb VT_StrVal VT_IntVal VT_FloatVal VT_HexNum VT_HexVal VT_ValArg VT_BitVal VT_PgEscapeString VT_PgPlaceholder orb andb].

Lemma num_ok_head t v : num_ok t v = true -> exists c tl, v = c :: tl /\ (is_digit c || byte_eqb c x2e) = true.
Proof.
  unfold num_ok. destruct v as [|c tl]; [discriminate|]. intros H. exists c, tl. split; [reflexivity|].
  destruct (is_digit c); [reflexivity|]. destruct (byte_eqb c x2e); [reflexivity|discriminate H].
Qed.

Lemma lit_first nv t v : lit_ok nv t v = true ->
  exists c tl, lit_text t v = c :: tl /\ in_cls (lit_cls t v) (Some c) = true.
Proof.
  destruct (N.eq_dec t VT_StrVal) as [->|N0].
  { intros _. exists x27. eexists. split; [reflexivity|reflexivity]. }
  destruct (N.eq_dec t VT_IntVal) as [->|N1].
  { unfold lit_ok, lit_cls, lit_text, is_qm. nred. intros H. destruct (num_ok_head _ _ H) as (c & tl & -> & Hc). exists c, tl. split; [reflexivity|exact Hc]. }
  destruct (N.eq_dec t VT_FloatVal) as [->|N2].
  { unfold lit_ok, lit_cls, lit_text, is_qm. nred. intros H. destruct (num_ok_head _ _ H) as (c & tl & -> & Hc). exists c, tl. split; [reflexivity|exact Hc]. }
  destruct (N.eq_dec t VT_HexNum) as [->|N3].
  { unfold lit_ok, lit_cls, lit_text, is_qm. nred. intros H. destruct (num_ok_head _ _ H) as (c & tl & -> & Hc). exists c, tl. split; [reflexivity|exact Hc]. }
  destruct (N.eq_dec t VT_HexVal) as [->|N4].
  { intros _. exists x58. eexists. split; reflexivity. }
  destruct (N.eq_dec t VT_ValArg) as [->|N5].
  { unfold lit_ok, lit_cls, is_qm. nred. destruct (bytes_eqb (lit_text VT_ValArg v) [x3f]) eqn:Q.
    - intros _. apply bytes_eqb_eq in Q. rewrite Q. exists x3f, []. split; reflexivity.
    - intros H. destruct v as [|a [|l w]]; try discriminate H.
      repeat (apply andb_true_iff in H; destruct H as [H ?]). apply byte_eqb_eq in H. subst a.
      match goal with K : bytes_eqb _ _ = true |- _ => apply bytes_eqb_eq in K; rewrite K end.
      exists x3a. eexists. split; reflexivity. }
  destruct (N.eq_dec t VT_BitVal) as [->|N6].
  { intros _. exists x42. eexists. split; reflexivity. }
  destruct (N.eq_dec t VT_PgEscapeString) as [->|N7].
  { intros _. exists x45. eexists. split; reflexivity. }
  destruct (N.eq_dec t VT_PgPlaceholder) as [->|N8].
  { unfold lit_ok, lit_cls, lit_text, is_qm. nred. intros H. destruct v as [|a ds]; [discriminate H|].
    apply andb_true_iff in H as [H1 H2]. apply byte_eqb_eq in H1. subst a. exists x24, ds. split; reflexivity. }
  unfold lit_ok. apply N.eqb_neq in N0, N1, N2, N3, N4, N5, N6, N7, N8. rewrite N0, N1, N2, N3, N4, N5, N6, N7, N8. cbn [orb]. discriminate.
Qed.

Lemma plain_first_letter v : nonempty v = true -> must_escape pg v = false -> exists c tl, v = c :: tl /\ is_letter c = true.
Proof.
  intros Hn Hm. unfold must_escape in Hm. apply orb_false_iff in Hm as [Hb _].
  destruct v as [|c v']; [discriminate Hn|]. exists c, v'. split; [reflexivity|].
  pose proof (bad_chars_word _ _ _ _ Hb) as W. cbn [firstn skipn forallb] in W. rewrite andb_true_r in W.
  apply andb_true_iff in W as [Wc _].
  destruct (is_letter c) eqn:L; [reflexivity|]. cbn [orb negb andb] in Wc. rewrite orb_false_r in Wc.
  apply andb_true_iff in Wc as [Wd _]. cbn [is_dbsys] in Wd. destruct v'; [discriminate Wd|].
  apply andb_true_iff in Wd as [Wd _]. apply byte_eqb_eq in Wd. subst c. discriminate L.
Qed.

Lemma fcl_sound nv p : pok pg nv p = true ->
  exists c tl, piece_text pg p = c :: tl /\ in_cls (fcl pg p) (Some c) = true.
Proof.
  destruct p as [|t|i|v]; cbn [pok piece_text fcl].
  - intros _. exists x20, []. split; reflexivity.
  - destruct t as [t v|n|n|c|p|w|s]; try discriminate; cbn [tok_text].
    + apply lit_first.
    + unfold cast_ok. destruct c as [|a [|b [|l w]]]; try discriminate. intros H.
      repeat (apply andb_true_iff in H; destruct H as [H ?]). apply byte_eqb_eq in H. subst a. exists x3a. eexists. split; reflexivity.
    + intros _. destruct p; eexists; eexists; split; reflexivity.
    + intros _. pose proof (word_chk_all w) as K. unfold word_chk in K. destruct (word_text w) as [|c v']; [discriminate K|].
      repeat (apply andb_true_iff in K; destruct K as [K ?]). exists c, v'. split; [reflexivity|exact K].
  - destruct i as [[| |] v]; cbn [ident_text].
    + intros Hn. unfold format_id. destruct (must_escape pg v) eqn:M.
      * unfold id_quote, qcls. destruct pg; eexists; eexists; split; reflexivity.
      * destruct (plain_first_letter v Hn M) as (c & tl & -> & Hc). exists c, tl. split; [reflexivity|exact Hc].
    + intros _. exists x_dq. eexists. split; reflexivity.
    + intros _. exists x_sq. eexists. split; reflexivity.
  - unfold raw_ok. intros H. apply andb_true_iff in H as [H _]. destruct v as [|c v']; [discriminate H|].
    cbn [id_chars] in H. apply andb_true_iff in H as [H _]. exists c, v'. split; [reflexivity|exact H].
Qed.

Lemma in_cls_nonblank k c : k <> KSp -> in_cls k (Some c) = true -> is_blank c = false.
Proof.
  intros Hk. destruct k as [| | | | | |p| | | |]; try congruence; try destruct p; destruct c; intros H; try discriminate H; reflexivity.
Qed.
Lemma fcl_not_sp p : p <> PS -> fcl pg p <> KSp.
Proof.
  destruct p as [|t|i|v]; [congruence| | |]; intros _; cbn [fcl]; try discriminate.
  - destruct t; try discriminate.
    + unfold lit_cls. repeat match goal with |- context [if ?b then _ else _] => destruct b end; discriminate.
    + unfold qcls. destruct (must_escape pg n), pg; discriminate.
  - destruct i as [[| |] v]; try discriminate. unfold qcls. destruct (must_escape pg v), pg; discriminate.
Qed.

Lemma piece_eq_ps (p : piece) : {p = PS} + {p <> PS}.
Proof. destruct p; [left; reflexivity|right; discriminate..]. Qed.

Lemma lex_go_blank f nv s : lex_go pg (S f) nv (x20 :: s) = lex_go pg (S f) nv s.
Proof. cbn [lex_go span]. change (is_blank x20) with true. cbv iota. destruct (span is_blank s). reflexivity. Qed.
Lemma lex_go_tok f nv c s : is_blank c = false ->
  lex_go pg (S f) nv (c :: s) =
  match lex_one pg nv (c :: s) with
  | Some (t, nv', r) => match lex_go pg f nv' r with Some ts => Some (t :: ts) | None => None end
  | None => None
  end.
Proof. intros H. cbn [lex_go span]. rewrite H. reflexivity. Qed.

Lemma render_cons p r : render pg (p :: r) = piece_text pg p ++ render pg r.
Proof. reflexivity. Qed.
Lemma toks_cons p r : toks pg (p :: r) = piece_toks pg p ++ toks pg r.
Proof. reflexivity. Qed.

(** the induction over the piece list *)
Theorem lex_go_pieces ps : forall nv f,
  loc pg nv ps = true -> sepd pg false ps KEnd = true -> length (render pg ps) < f ->
  lex_go pg f nv (render pg ps) = Some (toks pg ps).
Proof.
  induction ps as [|p r IH]; intros nv f Hl Hs Hf.
  - destruct f; [cbn [render flat_map length] in Hf; lia|]. reflexivity.
  - cbn [loc] in Hl. apply andb_true_iff in Hl as [Hp Hl]. cbn [sepd] in Hs. apply andb_true_iff in Hs as [Hs1 Hs2].
    rewrite render_cons in *. rewrite toks_cons.
    destruct (piece_eq_ps p) as [->|Hn].
    + cbn [piece_text piece_toks app] in *. unfold x_sp in *. destruct f; [cbn [length] in Hf; lia|].
      rewrite lex_go_blank. apply IH; try assumption. cbn [length] in Hf. lia.
    + assert (Hst : stopb pg (skind pg p) (hd_opt (render pg r)) = true).
      { apply (stop_ok_sound pg _ _ _ Hs1). destruct r as [|q r']; [reflexivity|].
        cbn [loc] in Hl. apply andb_true_iff in Hl as [Hq _]. destruct (fcl_sound _ _ Hq) as (c & tl & E & Hc).
        rewrite render_cons, E. cbn [app hd_opt fcls]. exact Hc. }
      destruct (lex_one_piece pg p nv (render pg r) Hn Hp Hst) as [L T]. rewrite T.
      destruct (fcl_sound _ _ Hp) as (c & tl & E & Hc). rewrite E in *. cbn [app] in *.
      destruct f; [cbn [length] in Hf; lia|].
      rewrite lex_go_tok by (apply (in_cls_nonblank (fcl pg p)); [apply fcl_not_sp; exact Hn|exact Hc]).
      rewrite L. rewrite IH; [reflexivity|assumption|assumption|]. cbn [length] in Hf. rewrite app_length in Hf. lia.
Qed.

Theorem lex_render_pieces ps : adj_ok pg ps = true -> lex pg (render pg ps) = Some (toks pg ps).
Proof.
  unfold adj_ok, lex. intros H. apply andb_true_iff in H as [H1 H2]. apply lex_go_pieces; try assumption. lia.
Qed.
End LA.
