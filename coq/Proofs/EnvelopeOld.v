(** The legacy (raw envelope) column path: [scan_m] projects to [scan]; the two raw scanners
    (ProcessAcraStructs / ProcessAcraBlocks) make progress, are fuel independent, total, the
    identity when nothing can be opened, and never grow the data under the wrapper's processor
    (which is why calling ProcessAcraBlocks with aliased buffers is sound); a raw envelope of the
    client is replaced in place by the plaintext; the re-encryptor keeps the value revealable. *)
From Acra Require Import Lib.Bytes Lib.Outcome Lib.GoSlice Lib.Sha256 Crypto.Interface Gen.Consts
  Model.Envelope Model.EnvelopeChecked Model.EnvelopeOld Proofs.Envelope Proofs.EnvelopeHandlers Proofs.Scanner
  Proofs.EnvelopeChecked.
From Coq Require Import ZifyN ZifyNat ZifyBool.

(** * 1. [scan_m] is [scan] plus a flag *)
Definition drop_m (r : res (bytes * bool * bool)) : res (bytes * bool) :=
  match r with Ok (o, c, _) => Ok (o, c) | Err e => Err e | Panic => Panic end.

Lemma scan_m_proj cbs f : forall rest out ch m,
  drop_m (scan_m f cbs rest out ch m) = scan f cbs rest out ch.
Proof.
  induction f as [|f IH]; intros rest out ch m; cbn [scan_m scan]; [reflexivity|].
  destruct (index_of sc_tag rest) as [i|]; [|reflexivity].
  destruct (sc_extract (skipn i rest)) as [[n c]| |]; [|apply IH|reflexivity].
  destruct (run_callbacks cbs c) as [[p|]| |]; try reflexivity; apply IH.
Qed.

Theorem on_column_m_proj cbs inb : drop_m (on_column_m cbs inb) = on_column cbs inb.
Proof.
  unfold on_column_m, on_column. destruct (_ || _); [reflexivity|]. apply scan_m_proj.
Qed.

Lemma skipn_skipn' {A} x y (l : list A) : skipn x (skipn y l) = skipn (x + y) l.
Proof.
  revert l; induction y as [|y IH]; intros l; [rewrite Nat.add_0_r; reflexivity|].
  rewrite Nat.add_succ_r. destruct l; [rewrite !skipn_nil; reflexivity|]. cbn [skipn]. apply IH.
Qed.

(** a column in which no tag occurrence yields a container: the container scan returns it
    unchanged and the wrapper's flag stays down, so the raw scans run *)
Definition no_container (col : bytes) : Prop :=
  forall j, starts_with sc_tag (skipn j col) = true -> exists e, sc_extract (skipn j col) = Err e.

Lemma no_container_skipn k col : no_container col -> no_container (skipn k col).
Proof. intros H j. rewrite skipn_skipn'. apply H. Qed.

Lemma scan_m_no_container cbs f : forall rest out ch m,
  no_container rest -> length rest < f -> scan_m f cbs rest out ch m = Ok (out ++ rest, ch, m).
Proof.
  induction f as [|f IH]; intros rest out ch m Hn Hf; [lia|]. cbn [scan_m].
  destruct (index_of sc_tag rest) as [i|] eqn:Ei; [|reflexivity].
  pose proof (index_of_lt _ _ _ Ei) as Hi.
  destruct (index_of_some _ _ _ Ei) as [Hat _].
  pose proof (starts_with_nonempty _ _ sc_tag_nonempty Hat) as Hne.
  destruct (Hn i Hat) as [e ->].
  rewrite IH.
  - rewrite <- !app_assoc, firstn_skipn_1. reflexivity.
  - rewrite skipn_skipn'. apply no_container_skipn, Hn.
  - rewrite !skipn_length. destruct (skipn i rest) eqn:E; [contradiction|].
    assert (length (skipn i rest) = length rest - i) as Hl by apply skipn_length. rewrite E in Hl. cbn in Hl. lia.
Qed.

Lemma on_column_m_no_container cbs inb :
  no_container inb -> on_column_m cbs inb = Ok (inb, false, false).
Proof.
  intros H. unfold on_column_m. destruct (_ || _); [reflexivity|].
  rewrite scan_m_no_container by (assumption || lia). reflexivity.
Qed.

Lemma skipn_in {A} j (l : list A) b r : skipn j l = b :: r -> In b l.
Proof.
  revert j; induction l as [|a l IH]; intros j H; [rewrite skipn_nil in H; discriminate|].
  destruct j; cbn [skipn] in H; [inversion H; left; reflexivity| right; eapply IH, H].
Qed.

Lemma no_container_if_no_tag_symbol col :
  Forall (fun b => b <> SC_TAG_SYMBOL) col -> no_container col.
Proof.
  intros Hall j Hst. exfalso.
  destruct (skipn j col) as [|b r] eqn:E; [discriminate|].
  unfold sc_tag, SC_TAG_SIZE in Hst. cbn [repeat_bytes starts_with] in Hst.
  apply andb_true_iff in Hst as [Hb _]. apply byte_eqb_eq in Hb.
  apply skipn_in in E. rewrite Forall_forall in Hall. apply (Hall b E). congruence.
Qed.

(** * 2. the raw scanner, generically *)
(** [quiet_tag tag p t]: no occurrence of [tag] starts inside the prefix [p] of [p ++ t] *)
Definition quiet_tag (tag p t : bytes) : Prop :=
  forall j, j < length p -> starts_with tag (skipn j (p ++ t)) = false.

Lemma quiet_tag_cons tag b p t :
  quiet_tag tag (b :: p) t -> starts_with tag (b :: p ++ t) = false /\ quiet_tag tag p t.
Proof.
  intros H. split; [apply (H 0); cbn; lia|]. intros j Hj. apply (H (S j)). cbn. lia.
Qed.

Lemma quiet_tag_if_no_symbol b0 tag' p t :
  Forall (fun b => b <> b0) p -> quiet_tag (b0 :: tag') p t.
Proof.
  intros Hall j Hj. rewrite skipn_app. replace (j - length p) with 0 by lia. cbn [skipn].
  destruct (skipn j p) as [|b r] eqn:E.
  - exfalso. assert (length (skipn j p) = length p - j) as Hl by apply skipn_length. rewrite E in Hl. cbn in Hl. lia.
  - cbn [app starts_with]. destruct (byte_eqb b0 b) eqn:Eb; [|reflexivity].
    apply byte_eqb_eq in Eb. apply skipn_in in E. rewrite Forall_forall in Hall. exfalso. apply (Hall b E). congruence.
Qed.

Lemma starts_with_app_l (t a b : bytes) : length t <= length a -> starts_with t (a ++ b) = starts_with t a.
Proof.
  revert a; induction t as [|x t IH]; intros a H; [reflexivity|].
  destruct a as [|y a]; [cbn in H; lia|]. cbn [app starts_with]. rewrite IH by (cbn in H; lia). reflexivity.
Qed.

(** what follows the first [length tag] bytes after the prefix is irrelevant *)
Lemma quiet_tag_ext tag p v s s' :
  length tag <= length v -> quiet_tag tag p (v ++ s) -> quiet_tag tag p (v ++ s').
Proof.
  intros Hl H j Hj. specialize (H j Hj).
  rewrite skipn_app in *. replace (j - length p) with 0 in * by lia. cbn [skipn] in *.
  rewrite app_assoc in *. rewrite starts_with_app_l in * by (rewrite app_length; lia). exact H.
Qed.

Lemma quiet_tag_weaken t1 t2 p t : (forall s, starts_with t2 s = true -> starts_with t1 s = true) ->
  quiet_tag t1 p t -> quiet_tag t2 p t.
Proof.
  intros Hw H j Hj. specialize (H j Hj). destruct (starts_with t2 _) eqn:E; [|reflexivity].
  apply Hw in E. congruence.
Qed.

Lemma quiet_tag_app_l tag p q t : quiet_tag tag (p ++ q) t -> quiet_tag tag p (q ++ t).
Proof. intros H j Hj. rewrite app_assoc. apply H. rewrite app_length. lia. Qed.

Definition lift_b (pre : bytes) (r : res bytes) : res bytes :=
  match r with Ok o => Ok (pre ++ o) | Err e => Err e | Panic => Panic end.

Section RawScan.
Variable tag : bytes.
Variable cand : bytes -> option nat.
Variable proc : bytes -> res bytes.
Variable min : nat.
Hypothesis tag_nonempty : tag <> [].
(** the candidate test: STRICTLY more than [min] bytes left, and the length lies in 1 .. len(rest) *)
Hypothesis cand_bounds : forall r l, cand r = Some l -> 1 <= l <= length r /\ min < length r.

Notation rs := (raw_scan tag cand proc).

(** progress => fuel independence: [S (length input)] always suffices *)
Lemma raw_scan_fuel f1 : forall f2 rest out,
  length rest < f1 -> length rest < f2 -> rs f1 rest out = rs f2 rest out.
Proof.
  induction f1 as [|f1 IH]; intros f2 rest out H1 H2; [lia|].
  destruct f2 as [|f2]; [lia|]. cbn [raw_scan].
  destruct (index_of tag rest) as [i|] eqn:Ei; [|reflexivity].
  pose proof (index_of_lt _ _ _ Ei) as Hi.
  destruct (index_of_some _ _ _ Ei) as [Hat _].
  pose proof (starts_with_nonempty _ _ tag_nonempty Hat) as Hne.
  assert (length (skipn i rest) = length rest - i) as Hl by apply skipn_length.
  assert (0 < length (skipn i rest)) as Hpos by (destruct (skipn i rest); [contradiction| cbn; lia]).
  assert (forall k, 1 <= k -> length (skipn k (skipn i rest)) < length rest) as Hdec
    by (intros k Hk; rewrite skipn_length; lia).
  destruct (cand (skipn i rest)) as [l|] eqn:Ec.
  - destruct (cand_bounds _ _ Ec) as [Hb _].
    destruct (proc (firstn l (skipn i rest))); try reflexivity.
    apply IH; specialize (Hdec l ltac:(lia)); lia.
  - apply IH; specialize (Hdec 1 ltac:(lia)); lia.
Qed.

(** accumulator law *)
Lemma raw_scan_acc f : forall rest out, rs f rest out = lift_b out (rs f rest []).
Proof.
  induction f as [|f IH]; intros rest out; cbn [raw_scan]; [reflexivity|].
  destruct (index_of tag rest) as [i|]; [|reflexivity].
  destruct (cand (skipn i rest)) as [l|].
  - destruct (proc (firstn l (skipn i rest))) as [p| |]; try reflexivity.
    rewrite (IH _ ((out ++ firstn i rest) ++ p)), (IH _ (([] ++ firstn i rest) ++ p)).
    destruct (rs f (skipn l (skipn i rest)) []); cbn [lift_b app]; try reflexivity.
    rewrite <- !app_assoc. reflexivity.
  - rewrite (IH _ ((out ++ firstn i rest) ++ firstn 1 (skipn i rest))),
            (IH _ (([] ++ firstn i rest) ++ firstn 1 (skipn i rest))).
    destruct (rs f (skipn 1 (skipn i rest)) []); cbn [lift_b app]; try reflexivity.
    rewrite <- !app_assoc. reflexivity.
Qed.

(** totality *)
Lemma raw_scan_total f : forall rest out, (forall x, proc x <> Panic) -> rs f rest out <> Panic.
Proof.
  induction f as [|f IH]; intros rest out H; cbn [raw_scan]; [discriminate|].
  destruct (index_of tag rest) as [i|]; [|discriminate].
  destruct (cand (skipn i rest)) as [l|]; [|apply IH, H].
  pose proof (H (firstn l (skipn i rest))) as Hp.
  destruct (proc (firstn l (skipn i rest))); [apply IH, H| discriminate| contradiction].
Qed.

(** the only errors are the processor's: the fuel bound is never the reason *)
Lemma raw_scan_no_err f : forall rest out, length rest < f ->
  (forall x e, x <> [] -> proc x <> Err e) -> forall e, rs f rest out <> Err e.
Proof.
  induction f as [|f IH]; intros rest out Hf H e; [lia|]. cbn [raw_scan].
  destruct (index_of tag rest) as [i|] eqn:Ei; [|discriminate].
  pose proof (index_of_lt _ _ _ Ei) as Hi.
  destruct (index_of_some _ _ _ Ei) as [Hat _].
  pose proof (starts_with_nonempty _ _ tag_nonempty Hat) as Hne.
  assert (length (skipn i rest) = length rest - i) as Hl by apply skipn_length.
  assert (0 < length (skipn i rest)) as Hpos by (destruct (skipn i rest); [contradiction| cbn; lia]).
  destruct (cand (skipn i rest)) as [l|] eqn:Ec.
  - destruct (cand_bounds _ _ Ec) as [Hb _].
    assert (firstn l (skipn i rest) <> []) as Hpne.
    { intros E0. apply (f_equal (@length byte)) in E0. rewrite firstn_length in E0. cbn in E0. lia. }
    pose proof (H (firstn l (skipn i rest))) as Hp.
    destruct (proc (firstn l (skipn i rest))) as [p|e'|]; [| exfalso; eapply Hp; eauto | discriminate].
    apply IH; [rewrite skipn_length; lia| exact H].
  - apply IH; [rewrite skipn_length; lia| exact H].
Qed.

(** nothing can be opened => the identity *)
Lemma raw_scan_identity f : forall rest out,
  (forall x, x <> [] -> proc x = Ok x) -> length rest < f -> rs f rest out = Ok (out ++ rest).
Proof.
  induction f as [|f IH]; intros rest out Hp Hf; [lia|]. cbn [raw_scan].
  destruct (index_of tag rest) as [i|] eqn:Ei; [|reflexivity].
  pose proof (index_of_lt _ _ _ Ei) as Hi.
  destruct (index_of_some _ _ _ Ei) as [Hat _].
  pose proof (starts_with_nonempty _ _ tag_nonempty Hat) as Hne.
  assert (length (skipn i rest) = length rest - i) as Hl by apply skipn_length.
  assert (0 < length (skipn i rest)) as Hpos by (destruct (skipn i rest); [contradiction| cbn; lia]).
  destruct (cand (skipn i rest)) as [l|] eqn:Ec.
  - destruct (cand_bounds _ _ Ec) as [Hb _].
    rewrite Hp.
    2:{ intros E0. apply (f_equal (@length byte)) in E0. rewrite firstn_length in E0. cbn in E0. lia. }
    rewrite IH by (assumption || rewrite skipn_length; lia).
    rewrite <- !app_assoc, (firstn_skipn l), firstn_skipn. reflexivity.
  - rewrite IH by (assumption || rewrite skipn_length; lia).
    rewrite <- !app_assoc, firstn_skipn_1. reflexivity.
Qed.

(** input not longer than [min]: no candidate at all (the early return of the Go functions is
    an optimisation, not a separate behaviour) *)
Lemma raw_scan_short f : forall rest out, length rest <= min -> length rest < f -> rs f rest out = Ok (out ++ rest).
Proof.
  induction f as [|f IH]; intros rest out Hm Hf; [lia|]. cbn [raw_scan].
  destruct (index_of tag rest) as [i|] eqn:Ei; [|reflexivity].
  pose proof (index_of_lt _ _ _ Ei) as Hi.
  destruct (index_of_some _ _ _ Ei) as [Hat _].
  pose proof (starts_with_nonempty _ _ tag_nonempty Hat) as Hne.
  assert (length (skipn i rest) = length rest - i) as Hl by apply skipn_length.
  assert (0 < length (skipn i rest)) as Hpos by (destruct (skipn i rest); [contradiction| cbn; lia]).
  destruct (cand (skipn i rest)) as [l|] eqn:Ec.
  - destruct (cand_bounds _ _ Ec) as [_ Hb]. lia.
  - rewrite IH by (rewrite skipn_length; lia).
    rewrite <- !app_assoc, firstn_skipn_1. reflexivity.
Qed.

(** the processor never returns more than it was given => the output never outgrows the input
    ("the out index never passes the in index") *)
Lemma raw_scan_shrinks f : forall rest out o,
  (forall x y, proc x = Ok y -> length y <= length x) ->
  rs f rest out = Ok o -> length o <= length out + length rest.
Proof.
  induction f as [|f IH]; intros rest out o Hp; cbn [raw_scan]; [discriminate|].
  destruct (index_of tag rest) as [i|] eqn:Ei.
  2:{ intros [= <-]. rewrite app_length. lia. }
  pose proof (index_of_lt _ _ _ Ei) as Hi.
  assert (length (firstn i rest) = i) as Hfi by (rewrite firstn_length; lia).
  assert (length (skipn i rest) = length rest - i) as Hl by apply skipn_length.
  destruct (cand (skipn i rest)) as [l|] eqn:Ec.
  - destruct (cand_bounds _ _ Ec) as [Hb _].
    destruct (proc (firstn l (skipn i rest))) as [p| |] eqn:Epr; try discriminate.
    apply Hp in Epr. rewrite firstn_length in Epr.
    intros H. apply IH in H; [|exact Hp]. rewrite !app_length, skipn_length in H. lia.
  - intros H. apply IH in H; [|exact Hp]. rewrite !app_length, !firstn_length, !skipn_length in H. lia.
Qed.

(** a byte at which no tag starts is copied *)
Lemma raw_scan_skip1 f b rest out :
  starts_with tag (b :: rest) = false -> rs (S f) (b :: rest) out = rs (S f) rest (out ++ [b]).
Proof.
  intros H. cbn [raw_scan index_of]. rewrite H.
  destruct (index_of tag rest) as [i|]; cbn [option_map firstn skipn].
  - rewrite <- !app_assoc. reflexivity.
  - rewrite <- app_assoc. reflexivity.
Qed.

Lemma raw_scan_quiet_prefix f p : forall t out,
  quiet_tag tag p t -> rs (S f) (p ++ t) out = rs (S f) t (out ++ p).
Proof.
  induction p as [|b p IH]; intros t out Hq; [rewrite app_nil_r; reflexivity|].
  apply quiet_tag_cons in Hq as [H0 Hq]. cbn [app].
  rewrite raw_scan_skip1 by exact H0. rewrite IH by exact Hq. rewrite <- app_assoc. reflexivity.
Qed.

(** a candidate at the very start which the processor opens *)
Lemma raw_scan_hit f r out l x :
  starts_with tag r = true -> cand r = Some l -> proc (firstn l r) = Ok x ->
  rs (S f) r out = rs f (skipn l r) (out ++ x).
Proof.
  intros Hs Hc Hp. cbn [raw_scan].
  assert (index_of tag r = Some 0) as -> by (destruct r; cbn [index_of]; rewrite Hs; reflexivity).
  cbn [skipn firstn]. rewrite Hc, Hp, app_nil_r. reflexivity.
Qed.

(** reveal in place, generically: quiet prefix, a candidate the processor opens, any suffix *)
Lemma raw_scan_reveal p v s x :
  quiet_tag tag p (v ++ s) -> starts_with tag (v ++ s) = true -> cand (v ++ s) = Some (length v) ->
  proc v = Ok x ->
  rs (S (length (p ++ v ++ s))) (p ++ v ++ s) [] = lift_b (p ++ x) (rs (S (length s)) s []).
Proof.
  intros Hq Hs Hc Hp.
  rewrite raw_scan_quiet_prefix by exact Hq. cbn [app].
  rewrite (raw_scan_hit _ _ _ (length v) x); [|exact Hs|exact Hc|rewrite firstn_app_len; exact Hp].
  rewrite skipn_app_len, raw_scan_acc. f_equal.
  destruct (cand_bounds _ _ Hc) as [Hb _].
  apply raw_scan_fuel; rewrite ?app_length; lia.
Qed.

(** ** the in-place reading (aliased buffers) agrees with the pure one while the write index
    stays behind the read index *)
Hypothesis proc_shrinks : forall x y, proc x = Ok y -> length y <= length x.

Lemma write_at_spec (buf : bytes) oi (x : bytes) :
  oi + length x <= length buf ->
  write_at buf oi x = Some (firstn oi buf ++ x ++ skipn (oi + length x) buf).
Proof. intros H. unfold write_at. destruct (Nat.leb_spec (oi + length x) (length buf)); [reflexivity| lia]. Qed.

Lemma written_length (buf : bytes) oi (x : bytes) n : length x = n -> oi + n <= length buf ->
  length (firstn oi buf ++ x ++ skipn (oi + n) buf) = length buf.
Proof. intros <- H. rewrite !app_length, firstn_length, skipn_length. lia. Qed.

Lemma written_firstn (buf : bytes) oi (x : bytes) n : length x = n -> oi + n <= length buf ->
  firstn (oi + n) (firstn oi buf ++ x ++ skipn (oi + n) buf) = firstn oi buf ++ x.
Proof.
  intros <- H. rewrite app_assoc. apply firstn_app_len'. rewrite app_length, firstn_length. lia.
Qed.

Lemma written_skipn (buf : bytes) oi (x : bytes) n k : length x = n -> oi + n <= k -> k <= length buf ->
  skipn k (firstn oi buf ++ x ++ skipn (oi + n) buf) = skipn k buf.
Proof.
  intros <- H1 H2. rewrite app_assoc, skipn_app.
  assert (length (firstn oi buf ++ x) = oi + length x) as Hl by (rewrite app_length, firstn_length; lia).
  rewrite Hl, skipn_all2 by lia. cbn [app]. rewrite skipn_skipn'. f_equal. lia.
Qed.

(** invariant: [oi <= ii <= len buf]; the unread part of the array is still the input;
    the written part is the pure scanner's accumulator *)
Lemma raw_scan_inplace_eq f : forall (buf : bytes) ii oi,
  oi <= ii -> ii <= length buf ->
  raw_scan_inplace tag cand proc f buf ii oi
  = match rs f (skipn ii buf) (firstn oi buf) with
    | Ok o => Ok (Some o) | Err e => Err e | Panic => Panic end.
Proof.
  induction f as [|f IH]; intros buf ii oi Ho Hi; [reflexivity|]. cbn [raw_scan_inplace raw_scan].
  set (rest := skipn ii buf).
  assert (length rest = length buf - ii) as Hrl by apply skipn_length.
  destruct (index_of tag rest) as [i|] eqn:Ei.
  2:{ reflexivity. }
  pose proof (index_of_lt _ _ _ Ei) as Hile.
  assert (length (firstn i rest) = i) as Hfi by (rewrite firstn_length; lia).
  rewrite write_at_spec by lia. rewrite Hfi.
  set (buf1 := firstn oi buf ++ firstn i rest ++ skipn (oi + i) buf).
  assert (length buf1 = length buf) as Hb1 by (apply written_length; [exact Hfi| lia]).
  assert (skipn (ii + i) buf1 = skipn i rest) as Hr1.
  { unfold buf1. rewrite (written_skipn buf oi (firstn i rest) i) by (exact Hfi || lia).
    unfold rest. rewrite skipn_skipn'. f_equal. lia. }
  assert (firstn (oi + i) buf1 = firstn oi buf ++ firstn i rest) as Ho1.
  { apply written_firstn; [exact Hfi| lia]. }
  rewrite Hr1.
  assert (length (skipn i rest) = length buf - ii - i) as Hsl by (rewrite skipn_length; lia).
  destruct (cand (skipn i rest)) as [l|] eqn:Ec.
  - destruct (cand_bounds _ _ Ec) as [Hb _].
    destruct (proc (firstn l (skipn i rest))) as [p| |] eqn:Epr; try reflexivity.
    pose proof (proc_shrinks _ _ Epr) as Hpl. rewrite firstn_length in Hpl.
    rewrite write_at_spec by lia.
    rewrite IH; [|lia|rewrite (written_length buf1 (oi + i) p (length p)); lia].
    rewrite (written_skipn buf1 (oi + i) p (length p)) by lia.
    rewrite (written_firstn buf1 (oi + i) p (length p)) by lia.
    rewrite Ho1. replace (ii + i + l) with (l + (ii + i)) by lia. rewrite <- skipn_skipn', Hr1. reflexivity.
  - assert (0 < length (skipn i rest)) as Hpos.
    { destruct (index_of_some _ _ _ Ei) as [Hat _].
      pose proof (starts_with_nonempty _ _ tag_nonempty Hat) as Hne.
      destruct (skipn i rest); [contradiction| cbn; lia]. }
    assert (length (firstn 1 (skipn i rest)) = 1) as H1 by (rewrite firstn_length; lia).
    rewrite write_at_spec by lia. rewrite H1.
    rewrite IH; [|lia|rewrite (written_length buf1 (oi + i) _ 1); lia].
    rewrite (written_skipn buf1 (oi + i) _ 1) by lia.
    rewrite (written_firstn buf1 (oi + i) _ 1) by lia.
    rewrite Ho1. replace (ii + i + 1) with (1 + (ii + i)) by lia. rewrite <- skipn_skipn', Hr1. reflexivity.
Qed.

End RawScan.

(** * 3. the two instances *)
Lemma as_tag_ne : as_tag <> []. Proof. discriminate. Qed.
Lemma ab_tag_ne : ab_tag <> []. Proof. discriminate. Qed.

Lemma as_candidate_bounds r l : as_candidate r = Some l -> 1 <= l <= length r /\ as_min < length r.
Proof.
  unfold as_candidate. destruct (Nat.ltb_spec as_min (length r)) as [Hm|]; [|discriminate].
  generalize (int_add (as_data_length r) (Z.of_nat as_min)). intros asl.
  destruct (_ && _) eqn:E; [|discriminate]. intros [= <-].
  apply andb_true_iff in E as [E1 E2]. apply Z.ltb_lt in E1. apply Z.leb_le in E2. lia.
Qed.

Lemma ab_candidate_bounds r l : ab_candidate r = Some l -> 1 <= l <= length r /\ AB_MIN_SIZE < length r.
Proof.
  unfold ab_candidate. destruct (Nat.ltb_spec AB_MIN_SIZE (length r)) as [Hm|]; [|discriminate].
  destruct (ab_extract r) as [[n b]| |] eqn:E; try discriminate. intros [= <-].
  apply ab_extract_bounds in E. unfold AB_MIN_SIZE in *. lia.
Qed.

Notation ras := (raw_scan as_tag as_candidate).
Notation rab := (raw_scan ab_tag ab_candidate).

Lemma process_acrastructs_eq proc inb :
  process_acrastructs proc inb = ras proc (S (length inb)) inb [].
Proof.
  unfold process_acrastructs. destruct (Nat.ltb_spec (length inb) as_min); [|reflexivity].
  symmetry. apply (raw_scan_short as_tag as_candidate proc as_min as_tag_ne as_candidate_bounds); lia.
Qed.

Lemma process_acrablocks_eq proc inb :
  process_acrablocks proc inb = rab proc (S (length inb)) inb [].
Proof.
  unfold process_acrablocks. destruct (Nat.ltb_spec (length inb) AB_MIN_SIZE); [|reflexivity].
  symmetry. apply (raw_scan_short ab_tag ab_candidate proc AB_MIN_SIZE ab_tag_ne ab_candidate_bounds); lia.
Qed.

(** progress / fuel independence of the two raw scanners *)
Theorem process_acrastructs_fuel proc inb f : length inb < f ->
  process_acrastructs proc inb = ras proc f inb [].
Proof.
  intros H. rewrite process_acrastructs_eq.
  apply (raw_scan_fuel as_tag as_candidate proc as_min as_tag_ne as_candidate_bounds); lia.
Qed.

Theorem process_acrablocks_fuel proc inb f : length inb < f ->
  process_acrablocks proc inb = rab proc f inb [].
Proof.
  intros H. rewrite process_acrablocks_eq.
  apply (raw_scan_fuel ab_tag ab_candidate proc AB_MIN_SIZE ab_tag_ne ab_candidate_bounds); lia.
Qed.

(** totality for arbitrary bytes *)
Theorem process_acrastructs_total proc inb : (forall x, proc x <> Panic) -> process_acrastructs proc inb <> Panic.
Proof. intros H. rewrite process_acrastructs_eq. apply raw_scan_total, H. Qed.

Theorem process_acrablocks_total proc inb : (forall x, proc x <> Panic) -> process_acrablocks proc inb <> Panic.
Proof. intros H. rewrite process_acrablocks_eq. apply raw_scan_total, H. Qed.

Theorem process_acrastructs_identity proc inb :
  (forall x, x <> [] -> proc x = Ok x) -> process_acrastructs proc inb = Ok inb.
Proof.
  intros H. rewrite process_acrastructs_eq.
  rewrite (raw_scan_identity as_tag as_candidate proc as_min as_tag_ne as_candidate_bounds) by (assumption || lia).
  reflexivity.
Qed.

Theorem process_acrablocks_identity proc inb :
  (forall x, x <> [] -> proc x = Ok x) -> process_acrablocks proc inb = Ok inb.
Proof.
  intros H. rewrite process_acrablocks_eq.
  rewrite (raw_scan_identity ab_tag ab_candidate proc AB_MIN_SIZE ab_tag_ne ab_candidate_bounds) by (assumption || lia).
  reflexivity.
Qed.

Theorem process_acrastructs_shrinks proc inb o :
  (forall x y, proc x = Ok y -> length y <= length x) -> process_acrastructs proc inb = Ok o -> length o <= length inb.
Proof.
  intros H. rewrite process_acrastructs_eq. intros E.
  apply (raw_scan_shrinks as_tag as_candidate proc as_min as_candidate_bounds) in E; [|exact H]. cbn in E. lia.
Qed.

Theorem process_acrablocks_shrinks proc inb o :
  (forall x y, proc x = Ok y -> length y <= length x) -> process_acrablocks proc inb = Ok o -> length o <= length inb.
Proof.
  intros H. rewrite process_acrablocks_eq. intros E.
  apply (raw_scan_shrinks ab_tag ab_candidate proc AB_MIN_SIZE ab_candidate_bounds) in E; [|exact H]. cbn in E. lia.
Qed.

(** ProcessAcraBlocks(ctx, buf, buf, processor): reading and writing ONE array gives the pure
    model's result whenever the processor never returns more than it was given *)
Theorem process_acrablocks_aliased_sound proc (buf : bytes) :
  (forall x y, proc x = Ok y -> length y <= length x) ->
  raw_scan_inplace ab_tag ab_candidate proc (S (length buf)) buf 0 0
  = match process_acrablocks proc buf with Ok o => Ok (Some o) | Err e => Err e | Panic => Panic end.
Proof.
  intros H. rewrite process_acrablocks_eq.
  rewrite (raw_scan_inplace_eq ab_tag ab_candidate proc AB_MIN_SIZE ab_tag_ne ab_candidate_bounds H) by lia.
  reflexivity.
Qed.

(** a quiet prefix is copied *)
Lemma raw_quiet_prefix tag cand proc min (Ht : tag <> [])
  (Hc : forall r l, cand r = Some l -> 1 <= l <= length r /\ min < length r) q t :
  quiet_tag tag q t ->
  raw_scan tag cand proc (S (length (q ++ t))) (q ++ t) [] = lift_b q (raw_scan tag cand proc (S (length t)) t []).
Proof.
  intros Hq. rewrite raw_scan_quiet_prefix by exact Hq. cbn [app]. rewrite raw_scan_acc. f_equal.
  apply (raw_scan_fuel tag cand proc min Ht Hc); rewrite ?app_length; lia.
Qed.

Lemma process_acrastructs_quiet proc q t : quiet_tag as_tag q t ->
  process_acrastructs proc (q ++ t) = lift_b q (process_acrastructs proc t).
Proof. intros H. rewrite !process_acrastructs_eq. apply (raw_quiet_prefix _ _ _ as_min as_tag_ne as_candidate_bounds), H. Qed.

Lemma process_acrablocks_quiet proc q t : quiet_tag ab_tag q t ->
  process_acrablocks proc (q ++ t) = lift_b q (process_acrablocks proc t).
Proof. intros H. rewrite !process_acrablocks_eq. apply (raw_quiet_prefix _ _ _ AB_MIN_SIZE ab_tag_ne ab_candidate_bounds), H. Qed.

(** the AcraBlock tag is a prefix of the AcraStruct tag: quiet for the short tag => quiet for the long one *)
Lemma quiet_ab_as p t : quiet_tag ab_tag p t -> quiet_tag as_tag p t.
Proof.
  apply quiet_tag_weaken. intros s. unfold as_tag, ab_tag, AS_TAG_LEN, AB_TAG_SIZE. cbn [repeat_bytes].
  destruct s as [|a [|b [|c [|d s]]]]; cbn [starts_with]; rewrite ?andb_false_r; try discriminate.
  intros H. repeat (apply andb_true_iff in H as [? H]). repeat (apply andb_true_iff; split); assumption || reflexivity.
Qed.

(** candidates for well-formed envelopes *)
Lemma sub_app_l {A} a n (v s : list A) : a + n <= length v -> sub a n (v ++ s) = sub a n v.
Proof.
  intros H. unfold sub. rewrite skipn_app. rewrite firstn_app.
  replace (n - length (skipn a v)) with 0 by (rewrite skipn_length; lia).
  cbn [firstn]. apply app_nil_r.
Qed.

Lemma as_validate_starts v s : as_validate v = true -> starts_with as_tag (v ++ s) = true.
Proof.
  unfold as_validate. destruct (Nat.ltb (length v) as_min); [discriminate|].
  destruct (bytes_eqb (firstn AS_TAG_LEN v) as_tag) eqn:E; [|discriminate]. intros _.
  apply bytes_eqb_eq in E. rewrite <- (firstn_skipn AS_TAG_LEN v), E, <- app_assoc. apply starts_with_app.
Qed.

Lemma as_candidate_valid v s :
  as_validate v = true -> as_min < length v -> (Z.of_nat (length v) < TWO63)%Z ->
  as_candidate (v ++ s) = Some (length v).
Proof.
  intros Hv Hm Hs. apply as_validate_length in Hv as [_ Hd].
  unfold as_candidate. rewrite app_length.
  destruct (Nat.ltb_spec as_min (length v + length s)); [|lia].
  assert (as_data_length (v ++ s) = as_data_length v) as ->.
  { unfold as_data_length. rewrite sub_app_l by (unfold_consts; lia). reflexivity. }
  rewrite Hd. unfold int_add. replace (Z.of_nat (length v - as_min) + Z.of_nat as_min)%Z with (Z.of_nat (length v)) by lia.
  rewrite wrap_int_small by (unfold TWO63 in *; lia).
  destruct (Z.ltb_spec 0 (Z.of_nat (length v))); [|lia].
  destruct (Z.leb_spec (Z.of_nat (length v)) (Z.of_nat (length v + length s))); [|lia].
  cbn [andb]. rewrite Nat2Z.id. reflexivity.
Qed.

Lemma ab_candidate_layout key ctx ek ed s :
  (N.of_nat (length ek + length ed) < 4294967296)%N -> 1 <= length ek + length ed ->
  ab_candidate (ab_layout key ctx ek ed ++ s) = Some (length (ab_layout key ctx ek ed)).
Proof.
  intros Hs H1. unfold ab_candidate. rewrite app_length, ab_layout_length.
  destruct (Nat.ltb_spec AB_MIN_SIZE (AB_MIN_SIZE + length ek + length ed + length s)); [|lia].
  rewrite ab_extract_layout by exact Hs. rewrite ab_layout_length. reflexivity.
Qed.

Lemma ab_layout_starts key ctx ek ed s : starts_with ab_tag (ab_layout key ctx ek ed ++ s) = true.
Proof. unfold ab_layout. rewrite <- !app_assoc. apply starts_with_app. Qed.

(** * 4. the wrapper as processor *)
Lemma on_old_envelope_passthrough id cbs x :
  (forall c, run_callbacks cbs c = Ok None) -> x <> [] -> on_old_envelope id cbs x = Ok x.
Proof.
  intros H Hx. unfold on_old_envelope. rewrite sc_serialize_ok by exact Hx. cbn [bind].
  unfold detector_on_envelope. rewrite H. cbn [bind]. rewrite bytes_eqb_refl. reflexivity.
Qed.

Lemma on_old_envelope_total id cbs x :
  (forall cb y, In cb cbs -> cb y <> Panic) -> on_old_envelope id cbs x <> Panic.
Proof.
  intros H. unfold on_old_envelope. pose proof (sc_serialize_total x id) as Hs.
  destruct (sc_serialize x id) as [c| |]; [|discriminate|contradiction]. cbn [bind].
  unfold detector_on_envelope. pose proof (run_callbacks_total cbs c H) as Hr.
  destruct (run_callbacks cbs c) as [[p|]| |]; cbn [bind]; [| |discriminate|contradiction].
  - destruct (bytes_eqb p c); discriminate.
  - destruct (bytes_eqb c c); discriminate.
Qed.

Section OldProc.
Variable C : crypto.

Lemma run_old_cbs ks c :
  run_callbacks (old_cbs C ks) c = run_callbacks [decrypt_handler (registry_process C ks)] c.
Proof. unfold old_cbs. cbn [run_callbacks]. unfold wrapper_cb. rewrite bytes_eqb_refl. reflexivity. Qed.

Lemma old_cbs_total ks : forall cb y, In cb (old_cbs C ks) -> cb y <> Panic.
Proof.
  intros cb y [<-|[<-|[]]]; [discriminate|]. unfold decrypt_handler.
  pose proof (registry_process_simple_total C ks y) as H.
  destruct (registry_process C ks y); [discriminate|discriminate|contradiction].
Qed.

Lemma old_proc_total id ks x : on_old_envelope id (old_cbs C ks) x <> Panic.
Proof. apply on_old_envelope_total, old_cbs_total. Qed.

Lemma old_proc_no_err id ks x e : x <> [] -> on_old_envelope id (old_cbs C ks) x <> Err e.
Proof.
  intros Hx. unfold on_old_envelope. rewrite sc_serialize_ok by exact Hx. cbn [bind].
  unfold detector_on_envelope. rewrite run_old_cbs. cbn [run_callbacks]. unfold decrypt_handler.
  destruct (registry_process C ks (sc_layout x id)) as [x0|e0|].
  - destruct (bytes_eqb x0 (sc_layout x id)) eqn:Eb; cbn [bind].
    + rewrite bytes_eqb_refl. discriminate.
    + rewrite Eb. discriminate.
  - rewrite bytes_eqb_refl. cbn [bind]. rewrite bytes_eqb_refl. discriminate.
  - discriminate.
Qed.

Lemma old_proc_reveals id ks v x :
  v <> [] -> known_envelope id = true -> (N.of_nat (length v) < 4294967296)%N ->
  handler_match id v = true -> handler_decrypt C id ks v = Ok x -> length x < length v ->
  on_old_envelope id (old_cbs C ks) v = Ok x.
Proof.
  intros Hne Hk Hl Hm Hd Hlen. unfold on_old_envelope. rewrite sc_serialize_ok by exact Hne. cbn [bind].
  unfold detector_on_envelope. rewrite run_old_cbs.
  assert (x <> sc_layout v id) as Hx.
  { intros E. apply (f_equal (@length byte)) in E. rewrite sc_layout_length in E. lia. }
  pose proof (registry_cb_reveals C ks v id [] x Hne Hk Hl Hm Hd) as H. rewrite app_nil_r in H.
  rewrite (H Hx). cbn [bind].
  destruct (bytes_eqb x (sc_layout v id)) eqn:E; [apply bytes_eqb_eq in E; contradiction| reflexivity].
Qed.

Hypothesis HC : Correct C.

Lemma cell_decrypt_shrinks k c ct x : cell_decrypt C k c ct = Some x -> length x + SEAL_OVERHEAD = length ct.
Proof.
  unfold cell_decrypt. destruct (_ || _); [discriminate|]. intros H.
  apply (seal_dec_len C HC) in H as [H _]. lia.
Qed.

Lemma as_decrypt_shrinks data priv ctx x : as_decrypt C data priv ctx = Ok x -> length x + SEAL_OVERHEAD <= length data.
Proof.
  unfold as_decrypt. destruct (negb _); [discriminate|]. destruct (msg_unwrap _ _ _ _); [|discriminate].
  destruct (cell_decrypt _ _ _ _) eqn:E; [|discriminate]. cbn [of_option]. intros [= <-].
  apply cell_decrypt_shrinks in E. rewrite !skipn_length in E. lia.
Qed.

Lemma as_decrypt_rotated_shrinks data privs ctx x :
  as_decrypt_rotated C data privs ctx = Ok x -> length x + SEAL_OVERHEAD <= length data.
Proof.
  induction privs as [|p rest IH]; cbn [as_decrypt_rotated]; [discriminate|].
  destruct (as_decrypt C data p ctx) eqn:E; [intros [= <-]; eapply as_decrypt_shrinks, E| |discriminate].
  destruct rest; [discriminate| exact IH].
Qed.

Lemma ab_decrypt_shrinks b keys ctx x : ab_decrypt C b keys ctx = Ok x -> length x + SEAL_OVERHEAD <= length b.
Proof.
  unfold ab_decrypt. destruct (Nat.ltb _ _); [discriminate|]. destruct (Nat.ltb _ _); [discriminate|].
  destruct (negb _); [discriminate|]. destruct (ab_find_key _ _ _ _ _); [|discriminate].
  destruct (cell_decrypt _ _ _ _) eqn:E; [|discriminate]. cbn [of_option]. intros [= <-].
  apply cell_decrypt_shrinks in E. rewrite skipn_length in E. lia.
Qed.

Lemma handler_decrypt_shrinks id ks data x :
  handler_decrypt C id ks data = Ok x -> length x + SEAL_OVERHEAD <= length data.
Proof.
  unfold handler_decrypt. destruct (byte_eqb id ENVELOPE_ID_ACRASTRUCT).
  - destruct (negb _); [discriminate|]. destruct (is_nil _); [discriminate|]. apply as_decrypt_rotated_shrinks.
  - destruct (ab_extract data) as [[n b]| |] eqn:Ee; try discriminate.
    destruct (is_nil _); [discriminate|].
    destruct (ab_decrypt C b (ks_syms ks) []) eqn:Ed; try discriminate. intros [= <-].
    apply ab_decrypt_shrinks in Ed. apply ab_extract_bounds in Ee as [Hn ->]. rewrite firstn_length in Ed. lia.
Qed.

Lemma registry_process_shrinks ks data x :
  registry_process C ks data = Ok x -> length x + SEAL_OVERHEAD <= length data.
Proof.
  unfold registry_process.
  assert (forall id, decrypt_with_handler C id ks data = Ok x -> length x + SEAL_OVERHEAD <= length data) as H.
  { intros id. unfold decrypt_with_handler. destruct (sc_deserialize data) as [[i id0]| |] eqn:Ed; try discriminate.
    cbn [bind]. destruct (negb _); [discriminate|]. intros Hd. apply handler_decrypt_shrinks in Hd.
    apply sc_deserialize_length in Ed. lia. }
  destruct (envelope_kind data); [apply H|apply H|discriminate].
Qed.

(** whatever the wrapper puts in place of a candidate envelope is at most as long as the envelope *)
Lemma old_proc_shrinks id ks v y : on_old_envelope id (old_cbs C ks) v = Ok y -> length y <= length v.
Proof.
  destruct v as [|v0 v']; [discriminate|]. set (v := v0 :: v').
  unfold on_old_envelope. rewrite sc_serialize_ok by discriminate. cbn [bind].
  unfold detector_on_envelope. rewrite run_old_cbs. cbn [run_callbacks]. unfold decrypt_handler.
  destruct (registry_process C ks (sc_layout v id)) as [x0|e0|] eqn:Er.
  - destruct (bytes_eqb x0 (sc_layout v id)) eqn:Eb; cbn [bind].
    + rewrite bytes_eqb_refl. intros [= <-]. lia.
    + rewrite Eb. intros [= <-]. apply registry_process_shrinks in Er. rewrite sc_layout_length in Er.
      unfold SEAL_OVERHEAD, SC_MIN_SIZE in Er. lia.
  - rewrite bytes_eqb_refl. cbn [bind]. rewrite bytes_eqb_refl. intros [= <-]. lia.
  - discriminate.
Qed.

End OldProc.

(** * 5. OldContainerDetectorWrapper.OnColumn *)
Lemma on_column_old_raw cbs col :
  no_container col ->
  on_column_old cbs col =
    (do out1 <- process_acrastructs (on_old_envelope ENVELOPE_ID_ACRASTRUCT cbs) col;
     do out2 <- process_acrablocks (on_old_envelope ENVELOPE_ID_ACRABLOCK cbs) out1;
     Ok (out2, negb (bytes_eqb col out2))).
Proof.
  intros H. unfold on_column_old. rewrite on_column_m_no_container by exact H.
  rewrite bytes_eqb_refl. reflexivity.
Qed.

Lemma on_column_m_total cbs inb :
  (forall cb x, In cb cbs -> cb x <> Panic) -> on_column_m cbs inb <> Panic.
Proof.
  intros H E. pose proof (on_column_m_proj cbs inb) as P. rewrite E in P. cbn in P.
  symmetry in P. eapply on_column_total; eassumption.
Qed.

(** totality: no input makes the legacy column path panic *)
Theorem on_column_old_total cbs inb :
  (forall cb x, In cb cbs -> cb x <> Panic) -> on_column_old cbs inb <> Panic.
Proof.
  intros H. unfold on_column_old. pose proof (on_column_m_total cbs inb H) as Hm.
  destruct (on_column_m cbs inb) as [[[o c] m]| |]; [|discriminate|contradiction].
  destruct (_ || _); [discriminate|].
  pose proof (process_acrastructs_total (on_old_envelope ENVELOPE_ID_ACRASTRUCT cbs) inb
                (fun x => on_old_envelope_total _ cbs x H)) as H1.
  destruct (process_acrastructs _ inb) as [o1| |]; cbn [bind]; [|discriminate|contradiction].
  pose proof (process_acrablocks_total (on_old_envelope ENVELOPE_ID_ACRABLOCK cbs) o1
                (fun x => on_old_envelope_total _ cbs x H)) as H2.
  destruct (process_acrablocks _ o1) as [o2| |]; cbn [bind]; [discriminate|discriminate|contradiction].
Qed.

(** nothing can be opened => output = input, not marked as decrypted *)
Theorem on_column_old_passthrough cbs inb :
  (forall c, run_callbacks cbs c = Ok None) -> on_column_old cbs inb = Ok (inb, false).
Proof.
  intros H. unfold on_column_old.
  pose proof (on_column_m_proj cbs inb) as P. rewrite (on_column_passthrough cbs inb H) in P.
  destruct (on_column_m cbs inb) as [[[o c] m]| |]; cbn in P; try discriminate. injection P as -> ->.
  rewrite bytes_eqb_refl. destruct m; cbn [orb negb]; [reflexivity|].
  rewrite process_acrastructs_identity by (intros; apply on_old_envelope_passthrough; assumption). cbn [bind].
  rewrite process_acrablocks_identity by (intros; apply on_old_envelope_passthrough; assumption). cbn [bind].
  rewrite bytes_eqb_refl. reflexivity.
Qed.

Lemma bytes_eqb_len_neq (a b : bytes) : length a <> length b -> bytes_eqb a b = false.
Proof. intros H. apply bytes_eqb_neq. intros ->. contradiction. Qed.

Section ColumnOld.
Variable C : crypto.
Hypothesis HC : Correct C.

Lemma proc_as_shrinks ks x y : proc_as C ks x = Ok y -> length y <= length x.
Proof. apply old_proc_shrinks, HC. Qed.
Lemma proc_ab_shrinks ks x y : proc_ab C ks x = Ok y -> length y <= length x.
Proof. apply old_proc_shrinks, HC. Qed.

(** ** a raw AcraStruct of the client, anywhere in a column *)
Theorem old_column_reveal_as ks' tape x sb before after p s :
  x <> [] -> (N.of_nat (length x) < MAXMSG)%N -> good_as_tape tape -> length sb = SEED_LEN ->
  ks_privs ks' = before ++ priv_of C sb :: after ->
  exists v, as_create C tape x (pub_of C sb) [] = Ok v /\
   (Forall (fun k => exists e, as_decrypt C v k [] = Err e) before ->
    no_container (p ++ v ++ s) -> quiet_tag as_tag p (v ++ s) ->
    on_column_old (old_cbs C ks') (p ++ v ++ s) =
      (do s1 <- process_acrastructs (proc_as C ks') s;
       do o <- process_acrablocks (proc_ab C ks') (p ++ x ++ s1);
       Ok (o, true))
    /\ forall s1, process_acrastructs (proc_as C ks') s = Ok s1 -> quiet_tag ab_tag (p ++ x) s1 ->
       on_column_old (old_cbs C ks') (p ++ v ++ s) =
         (do s2 <- process_acrablocks (proc_ab C ks') s1; Ok (p ++ x ++ s2, true))).
Proof.
  intros Hx Hlen Htape Hsb Hprivs.
  destruct (as_roundtrip C HC tape x sb [] Htape Hsb Hx Hlen) as (v & Hc & Hval & Hvl & Hdec).
  exists v. split; [exact Hc|]. intros Hbefore Hnc Hq.
  assert (v <> []) as Hvne by (intros ->; cbn [length] in Hvl; unfold_consts; lia).
  assert (N.of_nat (length v) < 4294967296)%N as Hvs by (rewrite Hvl; unfold_consts; lia).
  assert (handler_decrypt C ENVELOPE_ID_ACRASTRUCT ks' v = Ok x) as Hd.
  { unfold handler_decrypt. rewrite byte_eqb_refl, Hval. cbn [negb]. rewrite Hprivs.
    rewrite is_nil_false by (destruct before; discriminate).
    apply as_rotated_roundtrip; assumption. }
  assert (proc_as C ks' v = Ok x) as Hp.
  { apply old_proc_reveals; try assumption; [reflexivity|rewrite Hvl; unfold_consts; lia]. }
  assert (as_candidate (v ++ s) = Some (length v)) as Hcand.
  { apply as_candidate_valid; [exact Hval| rewrite Hvl; unfold_consts; lia|].
    unfold TWO63. rewrite Hvl. unfold_consts. lia. }
  assert (process_acrastructs (proc_as C ks') (p ++ v ++ s)
          = lift_b (p ++ x) (process_acrastructs (proc_as C ks') s)) as Has.
  { rewrite !process_acrastructs_eq.
    apply (raw_scan_reveal as_tag as_candidate _ as_min as_tag_ne as_candidate_bounds); try assumption.
    apply as_validate_starts, Hval. }
  assert (Hcommon : forall s1, process_acrastructs (proc_as C ks') s = Ok s1 ->
     forall o, process_acrablocks (proc_ab C ks') (p ++ x ++ s1) = Ok o ->
     bytes_eqb (p ++ v ++ s) o = false).
  { intros s1 H1 o H2. apply bytes_eqb_len_neq.
    apply process_acrastructs_shrinks in H1; [|apply proc_as_shrinks].
    apply process_acrablocks_shrinks in H2; [|apply proc_ab_shrinks].
    rewrite !app_length in *. rewrite Hvl. unfold_consts. lia. }
  rewrite on_column_old_raw by exact Hnc. fold (proc_as C ks') (proc_ab C ks'). rewrite Has.
  split.
  - destruct (process_acrastructs (proc_as C ks') s) as [s1| |] eqn:E1; cbn [lift_b bind]; try reflexivity.
    rewrite <- app_assoc.
    destruct (process_acrablocks (proc_ab C ks') (p ++ x ++ s1)) as [o| |] eqn:E2; cbn [bind]; try reflexivity.
    rewrite (Hcommon s1 eq_refl o E2). reflexivity.
  - intros s1 E1 Hq2. rewrite E1. cbn [lift_b bind]. rewrite <- app_assoc.
    specialize (Hcommon s1 E1). revert Hcommon.
    replace (p ++ x ++ s1) with ((p ++ x) ++ s1) by (rewrite <- app_assoc; reflexivity).
    rewrite process_acrablocks_quiet by exact Hq2.
    destruct (process_acrablocks (proc_ab C ks') s1) as [s2| |]; cbn [lift_b bind]; try reflexivity.
    intros Hcommon. rewrite (Hcommon _ eq_refl), <- app_assoc. reflexivity.
Qed.

(** ** a raw AcraBlock of the client, anywhere in a column.  ProcessAcraStructs runs first, over
    the whole value; the premise says it hands the block on untouched (second form: because no
    AcraStruct tag occurrence starts before the end of the block) *)
Theorem old_column_reveal_ab_after ks' tape x key before after p s s1 :
  x <> [] -> (N.of_nat (length x) < MAXMSG)%N -> good_ab_tape tape -> key <> [] ->
  ks_syms ks' = before ++ key :: after ->
  exists v, ab_create C tape x key [] = Ok v /\
   (Forall (fun k => bytes_eqb (ab_key_id k []) (ab_key_id key []) = false
                     \/ forall ek, cell_decrypt C k [] ek = None) before ->
    no_container (p ++ v ++ s) ->
    process_acrastructs (proc_as C ks') (p ++ v ++ s) = Ok (p ++ v ++ s1) ->
    quiet_tag ab_tag p (v ++ s1) ->
    on_column_old (old_cbs C ks') (p ++ v ++ s) =
      (do s2 <- process_acrablocks (proc_ab C ks') s1; Ok (p ++ x ++ s2, true))).
Proof.
  intros Hx Hlen Htape Hkey Hsyms.
  destruct (ab_roundtrip C HC tape x key [] Htape Hkey Hx Hlen) as (ek & ed & Hc & Hekl & Hedl & Hdec).
  set (v := ab_layout key [] ek ed) in *. exists v. split; [exact Hc|]. intros Hbefore Hnc Has Hq.
  assert (length v = AB_MIN_SIZE + length ek + length ed) as Hvl by apply ab_layout_length.
  assert (v <> []) as Hvne by (intros E0; rewrite E0 in Hvl; cbn [length] in Hvl; unfold_consts; lia).
  assert (N.of_nat (length v) < 4294967296)%N as Hvs by (rewrite Hvl, Hekl, Hedl; unfold_consts; lia).
  assert (N.of_nat (length ek + length ed) < 4294967296)%N as Hsm by (rewrite Hekl, Hedl; unfold_consts; lia).
  assert (Hext : ab_extract v = Ok (length v, v)).
  { rewrite (app_nil_r' v) at 1. apply ab_extract_layout, Hsm. }
  assert (Hab_ne : byte_eqb ENVELOPE_ID_ACRABLOCK ENVELOPE_ID_ACRASTRUCT = false) by reflexivity.
  assert (handler_decrypt C ENVELOPE_ID_ACRABLOCK ks' v = Ok x) as Hd.
  { unfold handler_decrypt. rewrite Hab_ne, Hext, Hsyms.
    rewrite is_nil_false by (destruct before; discriminate).
    replace (ab_decrypt C v (before ++ key :: after) []) with (@Ok bytes x); [reflexivity|].
    symmetry. apply Hdec. eapply Forall_impl; [|exact Hbefore]. intros k [Hk|Hk]; [left; exact Hk| right; apply Hk]. }
  assert (proc_ab C ks' v = Ok x) as Hp.
  { apply old_proc_reveals; try assumption; [reflexivity| |rewrite Hvl, Hedl; unfold_consts; lia].
    unfold handler_match. rewrite Hab_ne, Hext. reflexivity. }
  rewrite on_column_old_raw by exact Hnc. fold (proc_as C ks') (proc_ab C ks'). rewrite Has. cbn [bind].
  assert (process_acrablocks (proc_ab C ks') (p ++ v ++ s1)
          = lift_b (p ++ x) (process_acrablocks (proc_ab C ks') s1)) as Hab.
  { rewrite !process_acrablocks_eq.
    apply (raw_scan_reveal ab_tag ab_candidate _ AB_MIN_SIZE ab_tag_ne ab_candidate_bounds); try assumption.
    - apply ab_layout_starts.
    - apply ab_candidate_layout; [exact Hsm| rewrite Hekl; unfold_consts; lia]. }
  rewrite Hab.
  destruct (process_acrablocks (proc_ab C ks') s1) as [s2| |] eqn:E2; cbn [lift_b bind]; try reflexivity.
  rewrite <- app_assoc. f_equal. f_equal. apply negb_true_iff, bytes_eqb_len_neq.
  apply process_acrablocks_shrinks in E2; [|apply proc_ab_shrinks].
  assert (length s1 <= length s) as Hs1.
  { apply process_acrastructs_shrinks in Has; [|apply proc_as_shrinks]. rewrite !app_length in Has. lia. }
  rewrite !app_length, Hvl, Hedl. unfold_consts. lia.
Qed.

Theorem old_column_reveal_ab ks' tape x key before after p s :
  x <> [] -> (N.of_nat (length x) < MAXMSG)%N -> good_ab_tape tape -> key <> [] ->
  ks_syms ks' = before ++ key :: after ->
  exists v, ab_create C tape x key [] = Ok v /\
   (Forall (fun k => bytes_eqb (ab_key_id k []) (ab_key_id key []) = false
                     \/ forall ek, cell_decrypt C k [] ek = None) before ->
    no_container (p ++ v ++ s) ->
    quiet_tag as_tag (p ++ v) s -> quiet_tag ab_tag p (v ++ s) ->
    on_column_old (old_cbs C ks') (p ++ v ++ s) =
      (do s1 <- process_acrastructs (proc_as C ks') s;
       do s2 <- process_acrablocks (proc_ab C ks') s1;
       Ok (p ++ x ++ s2, true))).
Proof.
  intros Hx Hlen Htape Hkey Hsyms.
  destruct (process_acrastructs (proc_as C ks') s) as [s1|e|] eqn:E1.
  - destruct (old_column_reveal_ab_after ks' tape x key before after p s s1 Hx Hlen Htape Hkey Hsyms)
      as (v & Hc & H).
    exists v. split; [exact Hc|]. intros Hbefore Hnc Hq8 Hq4. cbn [bind]. apply H; try assumption.
    + rewrite app_assoc, process_acrastructs_quiet by exact Hq8. rewrite E1. cbn [lift_b].
      rewrite <- app_assoc. reflexivity.
    + destruct (ab_roundtrip C HC tape x key [] Htape Hkey Hx Hlen) as (ek & ed & Hc' & Hekl & _ & _).
      rewrite Hc in Hc'. injection Hc' as ->.
      eapply quiet_tag_ext; [|exact Hq4]. rewrite ab_layout_length, Hekl. unfold_consts. cbn. lia.
  - exfalso. rewrite process_acrastructs_eq in E1.
    eapply (raw_scan_no_err as_tag as_candidate _ as_min as_tag_ne as_candidate_bounds); [| |exact E1]; [lia|].
    intros y e' Hy. apply old_proc_no_err, Hy.
  - exfalso. eapply process_acrastructs_total; [|exact E1]. intros y. apply old_proc_total.
Qed.

End ColumnOld.

(** * 6. ReEncryptHandler.EncryptWithClientID *)
Section ReEncrypt.
Variable C : crypto.
Hypothesis HC : Correct C.

Lemma ab_extract_container_err inner id s : ab_extract (sc_layout inner id ++ s) = Err E_GENERIC.
Proof.
  unfold ab_extract. destruct (Nat.ltb _ _); [reflexivity|].
  unfold sc_layout, sc_tag, SC_TAG_SIZE, ab_tag, AB_TAG_SIZE. cbn [repeat_bytes app firstn bytes_eqb].
  reflexivity.
Qed.

(** the settings gate, and data that already carries an AcraBlock: returned unchanged *)
Theorem reencrypt_unchanged env_ab only_enc reenc ks tape data :
  env_ab = false \/ only_enc = false \/ reenc_match data = true \/
  (reenc = false /\ looks_protected ENVELOPE_ID_ACRABLOCK data = true) ->
  reencrypt C env_ab only_enc reenc ks tape data = Ok data.
Proof.
  unfold reencrypt. intros [->|[->|[H|[-> H]]]].
  - reflexivity.
  - rewrite orb_true_r. reflexivity.
  - destruct (_ || _); [reflexivity|]. rewrite H. reflexivity.
  - destruct (_ || _); [reflexivity|]. destruct (reenc_match data); [reflexivity|]. cbn [bind].
    apply passthrough, H.
Qed.

(** an AcraStruct (container or raw) which the client cannot open: an error, nothing is re-wrapped *)
Theorem reencrypt_undecryptable ks tape data n ser e :
  reenc_match data = false -> sc_extract data = Ok (n, ser) -> registry_process C ks ser = Err e ->
  reencrypt C true true true ks tape data = Err e.
Proof. intros Hm He Hp. unfold reencrypt. cbn [negb orb]. rewrite Hm, He, Hp. reflexivity. Qed.

(** anything in which no envelope can be found is protected like by the plain encryptor *)
Theorem reencrypt_plain reenc ks tape data :
  reenc_match data = false -> (reenc = true -> exists e, sc_extract data = Err e) ->
  reencrypt C true true reenc ks tape data = encrypt_with_handler C ENVELOPE_ID_ACRABLOCK ks tape data.
Proof.
  intros Hm He. unfold reencrypt. cbn [negb orb]. rewrite Hm. destruct reenc; [|reflexivity].
  destruct (He eq_refl) as [e ->]. reflexivity.
Qed.

(** re-encrypting the client's AcraStruct container to an AcraBlock: still reveals to the same
    plaintext, through every reveal entry point, and a second pass leaves it alone *)
Theorem reencrypt_roundtrip ks_w ks ks' tape tape2 x sb before after key rest before2 after2 :
  looks_protected ENVELOPE_ID_ACRASTRUCT x = false -> looks_protected ENVELOPE_ID_ACRABLOCK x = false ->
  x <> [] -> (N.of_nat (length x) < MAXMSG)%N -> good_as_tape tape -> length sb = SEED_LEN ->
  ks_pub ks_w = Some (pub_of C sb) ->
  ks_privs ks = before ++ priv_of C sb :: after ->
  (forall v, Forall (fun p => exists e, as_decrypt C v p [] = Err e) before) ->
  good_ab_tape tape2 -> key <> [] -> ks_syms ks = key :: rest ->
  ks_syms ks' = before2 ++ key :: after2 ->
  (forall ek, Forall (fun k => bytes_eqb (ab_key_id k []) (ab_key_id key []) = false
                               \/ cell_decrypt C k [] ek = None) before2) ->
  exists v, encrypt_with_handler C ENVELOPE_ID_ACRASTRUCT ks_w tape x = Ok v /\
   (reenc_match v = false ->
    exists w, reencrypt C true true true ks tape2 v = Ok w /\
              registry_process C ks' w = Ok x /\
              decrypt_with_handler C ENVELOPE_ID_ACRABLOCK ks' w = Ok x /\
              (forall f1 f2 f3 ks2 t2, reencrypt C f1 f2 f3 ks2 t2 w = Ok w)).
Proof.
  intros Hnp1 Hnp2 Hx Hlen Htape Hsb Hpub Hprivs Hbefore Htape2 Hkey Hsyms Hsyms' Hbefore2.
  destruct (handler_roundtrip_as C HC ks_w ks tape x sb before after Hnp1 Hx Hlen Htape Hsb Hpub Hprivs Hbefore)
    as (v & Henc & _ & Hproc & _ & inner & -> & Hne & Hsm & Hm & Hd & Hl).
  exists (sc_layout inner ENVELOPE_ID_ACRASTRUCT). split; [exact Henc|]. intros Hrm.
  destruct (handler_roundtrip_ab C HC ks ks' tape2 x key rest before2 after2 Hnp2 Hx Hlen Htape2 Hkey Hsyms Hsyms' Hbefore2)
    as (w & Henc2 & Hdw & Hproc2 & _ & innerb & -> & Hbne & Hbsm & Hbm & _ & _).
  exists (sc_layout innerb ENVELOPE_ID_ACRABLOCK).
  split; [|split; [exact Hproc2| split; [exact Hdw|]]].
  - unfold reencrypt. cbn [negb orb]. rewrite Hrm.
    destruct (container_roundtrip inner ENVELOPE_ID_ACRASTRUCT [] Hne known_as Hsm) as [_ Hex].
    rewrite app_nil_r in Hex. rewrite Hex, Hproc. cbn [bind]. exact Henc2.
  - intros f1 f2 f3 ks2 t2. apply reencrypt_unchanged. right. right. left.
    unfold reenc_match.
    destruct (container_roundtrip innerb ENVELOPE_ID_ACRABLOCK [] Hbne known_ab Hbsm) as [Hds _].
    rewrite app_nil_r in Hds. rewrite Hds.
    unfold handler_match in Hbm. cbn in Hbm. rewrite Hbm. apply orb_true_r.
Qed.

End ReEncrypt.

(** * 7. a decision procedure for [no_container] (used for concrete examples) *)
Fixpoint no_container_b (l : bytes) : bool :=
  (if starts_with sc_tag l then match sc_extract l with Err _ => true | _ => false end else true)
  && match l with [] => true | _ :: r => no_container_b r end.

Lemma no_container_b_sound l : no_container_b l = true -> no_container l.
Proof.
  induction l as [|a r IH]; intros H j Hs.
  - rewrite skipn_nil in Hs. discriminate.
  - cbn [no_container_b] in H. apply andb_true_iff in H as [H0 Hr]. destruct j as [|j]; cbn [skipn] in *.
    + rewrite Hs in H0. destruct (sc_extract (a :: r)) as [?|e|]; try discriminate. eauto.
    + apply (IH Hr j Hs).
Qed.
