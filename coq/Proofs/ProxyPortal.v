(** Proofs about Model/ProxyPortal.v: in every run of proxy + in-order back end (any client behaviour that
    conforms to the protocol, any answers of the back end incl. PortalSuspended / errors / skipped messages,
    any interleaving of the three asynchronous parties) every data row is handled with the queue entry of
    the Execute / Query that produced it; when nothing is in flight the queue is empty. *)
From Coq Require Import List Bool Arith Lia NArith.
Import ListNotations.
From Acra Require Import Model.ProxyPortal.

Section Proof.
  Variable X : Type.
  Notation entry := (X * nat)%type.

  (** ** what the forwarded, not yet read messages will add to / have added to the queue *)
  Fixpoint wire_entries (b : nat) (cw : list (cmsg X)) : list entry :=
    match cw with
    | [] => []
    | KExec x :: r => (x, b) :: wire_entries b r
    | KQuery x :: r => (x, b) :: wire_entries (S b) r
    | KSync :: r => wire_entries (S b) r
    | KOther :: r => wire_entries b r
    end.

  Fixpoint enders (cw : list (cmsg X)) : nat :=
    match cw with
    | [] => 0
    | KQuery _ :: r => S (enders r)
    | KSync :: r => S (enders r)
    | _ :: r => enders r
    end.

  (* client conformance seen on the wire: a simple Query only at a position where no extended message is unsynced *)
  Fixpoint wire_ok (d : bool) (cw : list (cmsg X)) : Prop :=
    match cw with
    | [] => True
    | KQuery _ :: r => d = false /\ wire_ok false r
    | KSync :: r => wire_ok false r
    | _ :: r => wire_ok true r
    end.

  Fixpoint end_dirty (d : bool) (cw : list (cmsg X)) : bool :=
    match cw with
    | [] => d
    | KQuery _ :: r => end_dirty false r
    | KSync :: r => end_dirty false r
    | _ :: r => end_dirty true r
    end.

  Lemma wire_entries_snoc_exec b cw x :
    wire_entries b (cw ++ [KExec x]) = wire_entries b cw ++ [(x, b + enders cw)].
  Proof.
    revert b; induction cw as [|m r IH]; intro b; cbn [app wire_entries enders].
    - now rewrite Nat.add_0_r.
    - destruct m; cbn [wire_entries enders]; rewrite IH; cbn [app]; try reflexivity;
        replace (b + S (enders r)) with (S b + enders r) by lia; reflexivity.
  Qed.
  Lemma wire_entries_snoc_query b cw x :
    wire_entries b (cw ++ [KQuery x]) = wire_entries b cw ++ [(x, b + enders cw)].
  Proof.
    revert b; induction cw as [|m r IH]; intro b; cbn [app wire_entries enders].
    - now rewrite Nat.add_0_r.
    - destruct m; cbn [wire_entries enders]; rewrite IH; cbn [app]; try reflexivity;
        replace (b + S (enders r)) with (S b + enders r) by lia; reflexivity.
  Qed.
  Lemma wire_entries_snoc_sync b cw : wire_entries b (cw ++ [KSync]) = wire_entries b cw.
  Proof.
    revert b; induction cw as [|m r IH]; intro b; cbn [app wire_entries]; [reflexivity|].
    destruct m; cbn [wire_entries]; now rewrite IH.
  Qed.
  Lemma wire_entries_snoc_other b cw : wire_entries b (cw ++ [KOther]) = wire_entries b cw.
  Proof.
    revert b; induction cw as [|m r IH]; intro b; cbn [app wire_entries]; [reflexivity|].
    destruct m; cbn [wire_entries]; now rewrite IH.
  Qed.
  Lemma enders_snoc cw m :
    enders (cw ++ [m]) = enders cw + match m with KQuery _ | KSync => 1 | _ => 0 end.
  Proof.
    induction cw as [|m' r IH]; cbn [app enders].
    - destruct m; reflexivity.
    - destruct m'; cbn [enders]; rewrite IH; lia.
  Qed.
  Lemma wire_entries_ge b cw : Forall (fun e : entry => b <= snd e) (wire_entries b cw).
  Proof.
    revert b; induction cw as [|m r IH]; intro b; cbn [wire_entries]; [constructor|].
    destruct m; try constructor; cbn [snd]; try lia; try apply IH.
    all: eapply Forall_impl; [|apply IH]; cbn; intros; lia.
  Qed.
  Lemma wire_ok_snoc d cw m :
    wire_ok d cw -> (match m with KQuery _ => end_dirty d cw = false | _ => True end) -> wire_ok d (cw ++ [m]).
  Proof.
    revert d; induction cw as [|m' r IH]; intros d Hok Hm; cbn [app].
    - destruct m; cbn [wire_ok end_dirty] in *; auto.
    - destruct m'; cbn [wire_ok end_dirty] in *; try (apply IH; assumption).
      destruct Hok as [Hd Hok]; split; [assumption|]. apply IH; assumption.
  Qed.
  Lemma end_dirty_snoc d cw m :
    end_dirty d (cw ++ [m]) = match m with KQuery _ | KSync => false | _ => true end.
  Proof.
    revert d; induction cw as [|m' r IH]; intro d; cbn [app end_dirty].
    - destruct m; reflexivity.
    - destruct m'; apply IH.
  Qed.

  (** ** drop_finished *)
  Lemma drop_finished_ge dn (q : list entry) : Forall (fun e => dn <= snd e) q -> drop_finished dn q = q.
  Proof.
    destruct q as [|[x b] r]; intro H; cbn [drop_finished]; [reflexivity|].
    inversion H as [|? ? Hb _]; subst; cbn [snd] in Hb.
    destruct (Nat.ltb_spec b dn); [lia|reflexivity].
  Qed.
  Lemma drop_finished_app_lt dn (st r : list entry) :
    Forall (fun e => snd e < dn) st -> drop_finished dn (st ++ r) = drop_finished dn r.
  Proof.
    induction st as [|[x b] st IH]; intro H; cbn [app]; [reflexivity|].
    inversion H as [|? ? Hb Hr]; subst; cbn [snd] in Hb. cbn [drop_finished].
    destruct (Nat.ltb_spec b dn); [apply IH; assumption|lia].
  Qed.
  Lemma drop_finished_snoc dn (q : list entry) x b :
    dn <= b -> drop_finished dn (q ++ [(x, b)]) = drop_finished dn q ++ [(x, b)].
  Proof.
    intro Hb; induction q as [|[x0 b0] r IH]; cbn [app drop_finished].
    - destruct (Nat.ltb_spec b dn); [lia|reflexivity].
    - destruct (Nat.ltb_spec b0 dn); [apply IH|reflexivity].
  Qed.

  (** ** ghost: what the database-side FIFO will do to the queue *)
  Inductive flush : list entry -> nat -> list (bmsg X) -> list entry -> nat -> Prop :=
  | F_nil q dn : flush q dn [] q dn
  | F_row x b q dn ds q' dn' :
      flush ((x, b) :: q) dn ds q' dn' -> flush ((x, b) :: q) dn (MRow x :: ds) q' dn'
  | F_term s e q dn ds q' dn' : flush q dn ds q' dn' -> flush (e :: q) dn (MTerm s :: ds) q' dn'
  | F_err q dn ds q' dn' : flush q dn ds q' dn' -> flush q dn (MErr :: ds) q' dn'
  | F_other q dn ds q' dn' : flush q dn ds q' dn' -> flush q dn (MOther :: ds) q' dn'
  | F_ready q dn ds q' dn' :
      flush (drop_finished (S dn) q) (S dn) ds q' dn' -> flush q dn (MReady :: ds) q' dn'.

  Lemma flush_mono q dn ds q' dn' : flush q dn ds q' dn' -> dn <= dn'.
  Proof. induction 1; lia. Qed.

  Lemma flush_app q dn ds q1 dn1 ds2 q2 dn2 :
    flush q dn ds q1 dn1 -> flush q1 dn1 ds2 q2 dn2 -> flush q dn (ds ++ ds2) q2 dn2.
  Proof.
    induction 1; intro H2; cbn [app]; try (constructor; auto); assumption.
  Qed.

  Lemma flush_push q dn ds q' dn' x b :
    flush q dn ds q' dn' -> dn' <= b -> flush (q ++ [(x, b)]) dn ds (q' ++ [(x, b)]) dn'.
  Proof.
    induction 1 as [q dn|x0 b0 q dn ds q' dn' H IH|s e q dn ds q' dn' H IH|q dn ds q' dn' H IH
                   |q dn ds q' dn' H IH|q dn ds q' dn' H IH]; intro Hb.
    - constructor.
    - cbn [app]. constructor. apply IH; assumption.
    - cbn [app]. constructor. apply IH; assumption.
    - constructor. apply IH; assumption.
    - constructor. apply IH; assumption.
    - constructor. pose proof (flush_mono _ _ _ _ _ H).
      rewrite drop_finished_snoc by lia. apply IH; assumption.
  Qed.

  (** ** the invariant *)
  Definition all_batch (b : nat) (st : list entry) : Prop := Forall (fun e => snd e = b) st.

  Definition post (q' : list entry) (dn' : nat) (md : bmode X) (cw : list (cmsg X)) (sn : nat) : Prop :=
    match md with
    | BIdle => q' = wire_entries dn' cw /\ sn = dn' + enders cw
    | BAns x false => q' = (x, dn') :: wire_entries dn' cw /\ sn = dn' + enders cw
    | BAns x true => q' = (x, dn') :: wire_entries (S dn') cw /\ sn = S dn' + enders cw
    | BSkip => exists st, all_batch dn' st /\ q' = st ++ wire_entries dn' cw /\ sn = dn' + enders cw
    | BOwed => exists st, all_batch dn' st /\ q' = st ++ wire_entries (S dn') cw /\ sn = S dn' + enders cw
    end.

  Definition extended_open (md : bmode X) : bool :=
    match md with BSkip => true | BAns _ false => true | _ => false end.

  Definition inv (y : sys X) : Prop :=
    exists q' dn',
      flush (pending (px y)) (done (px y)) (dwire y) q' dn' /\
      post q' dn' (mode y) (cwire y) (sent (px y)) /\
      exists d, (extended_open (mode y) = true -> d = true) /\ wire_ok d (cwire y) /\ dirty y = end_dirty d (cwire y).

  Lemma post_le q' dn' md cw sn : post q' dn' md cw sn -> dn' <= sn.
  Proof.
    destruct md as [|x [|]| |]; cbn [post]; intros H.
    - destruct H; lia.
    - destruct H; lia.
    - destruct H; lia.
    - destruct H as (st & _ & _ & H); lia.
    - destruct H as (st & _ & _ & H); lia.
  Qed.

  Lemma inv_init : inv sys_init.
  Proof.
    exists [], 0. split; [constructor|]. split; [cbn; auto|].
    exists false. cbn. auto.
  Qed.

  (* pushing an entry with the current batch number keeps [post] *)
  Lemma post_push q' dn' md cw sn x (m : cmsg X) :
    post q' dn' md cw sn ->
    wire_entries dn' (cw ++ [m]) = wire_entries dn' cw ++ [(x, dn' + enders cw)] ->
    wire_entries (S dn') (cw ++ [m]) = wire_entries (S dn') cw ++ [(x, S dn' + enders cw)] ->
    post (q' ++ [(x, sn)]) dn' md (cw ++ [m]) (sn + (enders (cw ++ [m]) - enders cw)).
  Proof.
    intros Hp H0 H1. rewrite enders_snoc.
    replace (enders cw + _ - enders cw) with (match m with KQuery _ | KSync => 1 | _ => 0 end) by lia.
    destruct md as [|x0 [|]| |]; cbn [post] in *; rewrite ?enders_snoc.
    - destruct Hp as [-> ->]. rewrite H0. split; [reflexivity|lia].
    - destruct Hp as [-> ->]. rewrite H1. split; [reflexivity|lia].
    - destruct Hp as [-> ->]. rewrite H0. split; [reflexivity|lia].
    - destruct Hp as (st & Hst & -> & ->). exists st. rewrite H0, app_assoc. repeat split; auto; lia.
    - destruct Hp as (st & Hst & -> & ->). exists st. rewrite H1, app_assoc. repeat split; auto; lia.
  Qed.

  (* a message that pushes nothing *)
  Lemma post_nopush q' dn' md cw sn (m : cmsg X) :
    post q' dn' md cw sn ->
    (forall b, wire_entries b (cw ++ [m]) = wire_entries b cw) ->
    post q' dn' md (cw ++ [m]) (sn + (enders (cw ++ [m]) - enders cw)).
  Proof.
    intros Hp H0. rewrite enders_snoc.
    replace (enders cw + _ - enders cw) with (match m with KQuery _ | KSync => 1 | _ => 0 end) by lia.
    destruct md as [|x0 [|]| |]; cbn [post] in *; rewrite ?H0, ?enders_snoc.
    - destruct Hp as [-> ->]. split; [reflexivity|lia].
    - destruct Hp as [-> ->]. split; [reflexivity|lia].
    - destruct Hp as [-> ->]. split; [reflexivity|lia].
    - destruct Hp as (st & Hst & -> & ->). exists st. repeat split; auto; lia.
    - destruct Hp as (st & Hst & -> & ->). exists st. repeat split; auto; lia.
  Qed.

  Lemma inv_client y m : inv y -> inv (client_step y m).
  Proof.
    intros (q' & dn' & Hf & Hp & d & Hd & Hok & Hdirty).
    pose proof (post_le _ _ _ _ _ Hp) as Hle.
    destruct m as [x|x| |]; cbn [client_step].
    - (* Execute *)
      exists (q' ++ [(x, sent (px y))]), dn'. cbn [px pending done sent dwire mode cwire dirty on_execute push].
      split; [apply flush_push; assumption|]. split.
      + pose proof (post_push q' dn' (mode y) (cwire y) (sent (px y)) x (KExec x) Hp
                      (wire_entries_snoc_exec _ _ _) (wire_entries_snoc_exec _ _ _)) as H.
        rewrite enders_snoc in H. replace (sent (px y) + _) with (sent (px y)) in H by lia.
        exact H.
      + exists d. split; [assumption|]. split; [apply wire_ok_snoc; auto|]. now rewrite end_dirty_snoc.
    - (* simple Query *)
      destruct (dirty y) eqn:Hdy; [exists q', dn'; eauto 10|].
      exists (q' ++ [(x, sent (px y))]), dn'.
      cbn [px pending done sent dwire mode cwire dirty on_query end_batch push].
      split; [apply flush_push; assumption|]. split.
      + pose proof (post_push q' dn' (mode y) (cwire y) (sent (px y)) x (KQuery x) Hp
                      (wire_entries_snoc_query _ _ _) (wire_entries_snoc_query _ _ _)) as H.
        rewrite enders_snoc in H. replace (sent (px y) + _) with (S (sent (px y))) in H by lia.
        exact H.
      + exists d. split; [assumption|]. split; [apply wire_ok_snoc; auto; congruence|]. now rewrite end_dirty_snoc.
    - (* Sync *)
      exists q', dn'. cbn [px pending done sent dwire mode cwire dirty on_sync end_batch].
      split; [assumption|]. split.
      + pose proof (post_nopush q' dn' (mode y) (cwire y) (sent (px y)) KSync Hp
                      (fun b => wire_entries_snoc_sync b _)) as H.
        rewrite enders_snoc in H. replace (sent (px y) + _) with (S (sent (px y))) in H by lia.
        exact H.
      + exists d. split; [assumption|]. split; [apply wire_ok_snoc; auto|]. now rewrite end_dirty_snoc.
    - (* Parse / Bind / Describe / Close / Flush *)
      exists q', dn'. cbn [px pending done sent dwire mode cwire dirty].
      split; [assumption|]. split.
      + pose proof (post_nopush q' dn' (mode y) (cwire y) (sent (px y)) KOther Hp
                      (fun b => wire_entries_snoc_other b _)) as H.
        rewrite enders_snoc in H. replace (sent (px y) + _) with (sent (px y)) in H by lia.
        exact H.
      + exists d. split; [assumption|]. split; [apply wire_ok_snoc; auto|]. now rewrite end_dirty_snoc.
  Qed.

  (* one more message at the end of the database-side FIFO *)
  Lemma flush_snoc q dn ds q1 dn1 m q2 dn2 :
    flush q dn ds q1 dn1 -> flush q1 dn1 [m] q2 dn2 -> flush q dn (ds ++ [m]) q2 dn2.
  Proof. apply flush_app. Qed.

  Lemma flush_ready_one (q : list entry) dn : flush q dn [MReady] (drop_finished (S dn) q) (S dn).
  Proof. constructor. constructor. Qed.

  Lemma all_batch_lt b st : all_batch b st -> Forall (fun e : entry => snd e < S b) st.
  Proof. intro H; eapply Forall_impl; [|exact H]; cbn; intros; lia. Qed.

  Lemma drop_wire dn cw : drop_finished dn (wire_entries dn cw) = wire_entries dn cw.
  Proof. apply drop_finished_ge, wire_entries_ge. Qed.

  Lemma inv_back_take y ok : inv y -> inv (back_take y ok).
  Proof.
    intros (q' & dn' & Hf & Hp & d & Hd & Hok & Hdirty).
    unfold back_take. destruct (cwire y) as [|m rest] eqn:Hcw; [exists q', dn'; rewrite Hcw; eauto 10|].
    destruct (mode y) as [|x0 s0| |] eqn:Hmd; cbn [post extended_open] in *.
    - (* idle *)
      destruct Hp as [Hq Hs].
      destruct m as [x|x| |]; cbn [wire_entries enders wire_ok end_dirty] in *.
      + exists q', dn'. cbn [emit px dwire mode cwire dirty]. rewrite app_nil_r.
        split; [assumption|]. split; [cbn [post]; auto|]. exists true. cbn [extended_open]. auto.
      + exists q', dn'. cbn [emit px dwire mode cwire dirty]. rewrite app_nil_r.
        split; [assumption|]. split; [cbn [post]; split; [assumption|lia]|].
        destruct Hok as [-> Hok]. exists false. cbn [extended_open]. repeat split; auto; discriminate.
      + exists (drop_finished (S dn') q'), (S dn'). cbn [emit px dwire mode cwire dirty].
        split; [eapply flush_snoc; [eassumption|apply flush_ready_one]|].
        split; [cbn [post]; rewrite Hq, drop_wire; split; [reflexivity|lia]|].
        exists false. cbn [extended_open]. repeat split; auto; discriminate.
      + destruct ok.
        * exists q', dn'. cbn [emit px dwire mode cwire dirty].
          split; [eapply flush_snoc; [eassumption|repeat constructor]|].
          split; [cbn [post]; auto|]. exists true. cbn [extended_open]. repeat split; auto; discriminate.
        * exists q', dn'. cbn [emit px dwire mode cwire dirty].
          split; [eapply flush_snoc; [eassumption|repeat constructor]|].
          split; [cbn [post]; exists []; repeat split; auto; constructor|].
          exists true. cbn [extended_open]. auto.
    - (* answering: the back end does not read *)
      exists q', dn'. rewrite Hcw, Hmd. eauto 10.
    - (* skipping to Sync *)
      destruct Hp as (st & Hst & Hq & Hs). specialize (Hd eq_refl). subst d.
      destruct m as [x|x| |]; cbn [wire_entries enders wire_ok end_dirty] in *.
      + exists q', dn'. cbn [emit px dwire mode cwire dirty]. rewrite app_nil_r.
        split; [assumption|]. split.
        * cbn [post]. exists (st ++ [(x, dn')]). split; [apply Forall_app; split; [assumption|repeat constructor]|].
          split; [rewrite Hq, <- app_assoc; reflexivity|assumption].
        * exists true. cbn [extended_open]. auto.
      + destruct Hok as [Habs _]; discriminate.
      + exists (drop_finished (S dn') q'), (S dn'). cbn [emit px dwire mode cwire dirty].
        split; [eapply flush_snoc; [eassumption|apply flush_ready_one]|].
        split.
        * cbn [post]. rewrite Hq, drop_finished_app_lt by (apply all_batch_lt; assumption).
          rewrite drop_wire. split; [reflexivity|lia].
        * exists false. cbn [extended_open]. repeat split; auto; discriminate.
      + exists q', dn'. cbn [emit px dwire mode cwire dirty]. rewrite app_nil_r.
        split; [assumption|]. split; [cbn [post]; exists st; auto|].
        exists true. cbn [extended_open]. auto.
    - exists q', dn'. rewrite Hcw, Hmd. eauto 10.
  Qed.

  Definition aligned (o : obs X) : Prop := snd o = Some (fst o).

  Lemma inv_step y e :
    inv y -> inv (fst (sys_step db_step y e)) /\ Forall aligned (snd (sys_step db_step y e)).
  Proof.
    intro Hinv. destruct e as [m|ok| |err susp| | |]; cbn [sys_step].
    - split; [apply inv_client; assumption|constructor].
    - split; [apply inv_back_take; assumption|constructor].
    - (* row *)
      destruct (mode y) as [|x s| |] eqn:Hmd; cbn [fst snd]; try (split; [assumption|constructor]).
      split; [|constructor].
      destruct Hinv as (q' & dn' & Hf & Hp & d & Hd & Hok & Hdirty). rewrite Hmd in *.
      exists q', dn'. cbn [emit px dwire mode cwire dirty].
      split; [|eauto 10].
      eapply flush_snoc; [eassumption|].
      destruct s; cbn [post] in Hp; destruct Hp as [-> _]; repeat constructor.
    - (* end of an answer *)
      destruct (mode y) as [|x s| |] eqn:Hmd; cbn [fst snd]; try (split; [assumption|constructor]).
      split; [|constructor].
      destruct Hinv as (q' & dn' & Hf & Hp & d & Hd & Hok & Hdirty). rewrite Hmd in *.
      cbn [emit px dwire mode cwire dirty].
      destruct s; cbn [post extended_open] in *; destruct Hp as [Hq Hs].
      + (* simple Query *)
        destruct err.
        * exists q', dn'. cbn [emit px dwire mode cwire dirty].
          split; [eapply flush_snoc; [eassumption|repeat constructor]|].
          split; [cbn [post]; exists [(x, dn')]; repeat split; auto; repeat constructor|].
          exists d. cbn [extended_open]. repeat split; auto; discriminate.
        * exists (tl q'), dn'. cbn [emit px dwire mode cwire dirty].
          split; [eapply flush_snoc; [eassumption|rewrite Hq; repeat constructor]|].
          split; [cbn [post]; exists []; rewrite Hq; repeat split; auto; constructor|].
          exists d. cbn [extended_open]. repeat split; auto; discriminate.
      + (* Execute *)
        specialize (Hd eq_refl). subst d.
        destruct err.
        * exists q', dn'. cbn [emit px dwire mode cwire dirty].
          split; [eapply flush_snoc; [eassumption|repeat constructor]|].
          split; [cbn [post]; exists [(x, dn')]; repeat split; auto; repeat constructor|].
          exists true. cbn [extended_open]. auto.
        * exists (tl q'), dn'. cbn [emit px dwire mode cwire dirty].
          split; [eapply flush_snoc; [eassumption|rewrite Hq; repeat constructor]|].
          split; [cbn [post]; rewrite Hq; auto|].
          exists true. cbn [extended_open]. repeat split; auto; discriminate.
    - (* ReadyForQuery owed for a simple Query *)
      destruct (mode y) as [|x s| |] eqn:Hmd; cbn [fst snd]; try (split; [assumption|constructor]).
      split; [|constructor].
      destruct Hinv as (q' & dn' & Hf & Hp & d & Hd & Hok & Hdirty). rewrite Hmd in *.
      cbn [post] in Hp. destruct Hp as (st & Hst & Hq & Hs).
      exists (drop_finished (S dn') q'), (S dn'). cbn [emit px dwire mode cwire dirty].
      split; [eapply flush_snoc; [eassumption|apply flush_ready_one]|].
      split.
      + cbn [post]. rewrite Hq, drop_finished_app_lt by (apply all_batch_lt; assumption).
        rewrite drop_wire. split; [reflexivity|assumption].
      + exists d. cbn [extended_open]. repeat split; auto; discriminate.
    - (* notice *)
      split; [|constructor].
      destruct Hinv as (q' & dn' & Hf & Hp & d & Hd & Hok & Hdirty).
      exists q', dn'. cbn [emit px dwire mode cwire dirty].
      split; [eapply flush_snoc; [eassumption|repeat constructor]|eauto 10].
    - (* the proxy handles the next database message *)
      destruct (dwire y) as [|m rest] eqn:Hdw; cbn [fst snd]; [split; [assumption|constructor]|].
      destruct Hinv as (q' & dn' & Hf & Hp & d & Hd & Hok & Hdirty). rewrite Hdw in Hf.
      pose proof (post_le _ _ _ _ _ Hp) as Hle.
      inversion Hf as [|x b q dn ds q2 dn2 Hf' Hq0|s e q dn ds q2 dn2 Hf' Hq0|q dn ds q2 dn2 Hf'
                      |q dn ds q2 dn2 Hf'|q dn ds q2 dn2 Hf']; subst.
      + (* row *)
        split.
        * exists q', dn'. cbn [to_db db_step px dwire mode cwire dirty]. rewrite <- Hq0. eauto 10.
        * constructor; [|constructor]. unfold aligned, row_settings. cbn [fst snd]. now rewrite <- Hq0.
      + split; [|constructor].
        exists q', dn'. cbn [to_db db_step px pending sent done dwire mode cwire dirty]. rewrite <- Hq0. cbn [tl].
        eauto 10.
      + split; [|constructor]. exists q', dn'. cbn [to_db db_step px dwire mode cwire dirty]. eauto 10.
      + split; [|constructor]. exists q', dn'. cbn [to_db db_step px dwire mode cwire dirty]. eauto 10.
      + split; [|constructor].
        pose proof (flush_mono _ _ _ _ _ Hf') as Hm.
        exists q', dn'. cbn [to_db db_step on_ready px pending sent done dwire mode cwire dirty].
        destruct (Nat.ltb_spec (done (px y)) (sent (px y))); [|lia]. eauto 10.
  Qed.

  Theorem rows_aligned_from y evs : inv y -> Forall aligned (snd (sys_run db_step y evs)) /\ inv (fst (sys_run db_step y evs)).
  Proof.
    revert y; induction evs as [|e tl IH]; intros y Hinv; cbn [sys_run].
    - split; [constructor|assumption].
    - destruct (inv_step y e Hinv) as [Hi Ha].
      destruct (sys_step db_step y e) as [y1 o1]. cbn [fst snd] in *.
      destruct (IH y1 Hi) as [Ha2 Hi2].
      destruct (sys_run db_step y1 tl) as [y2 o2]. cbn [fst snd] in *.
      split; [apply Forall_app; split; assumption|assumption].
  Qed.

  (** every data row is handled with the entry of the Execute / Query that produced it *)
  Theorem rows_aligned (evs : list (sys_event X)) : Forall aligned (snd (sys_run db_step sys_init evs)).
  Proof. apply rows_aligned_from, inv_init. Qed.

  (** nothing in flight: nothing pending (no stale entry survives a suspended portal, an error, skipped messages) *)
  Theorem quiet_queue_empty (evs : list (sys_event X)) :
    let y := fst (sys_run db_step sys_init evs) in
    cwire y = [] -> dwire y = [] -> mode y = BIdle -> pending (px y) = [].
  Proof.
    cbn zeta. intros Hcw Hdw Hmd.
    destruct (rows_aligned_from sys_init evs inv_init) as [_ (q' & dn' & Hf & Hp & _)].
    rewrite Hdw in Hf. rewrite Hmd, Hcw in Hp. cbn [post wire_entries] in Hp. destruct Hp as [Hq _].
    inversion Hf; subst. assumption.
  Qed.
End Proof.

(** ** queued entries are immutable: later Parse / Bind packets (re-use of the unnamed statement or portal in a
       pipeline) do not change the settings of an Execute that is already queued *)
Lemma rstep_queue_prefix st e :
  (forall d, e <> PDb d) ->
  exists suffix, pending (rs_q (fst (rstep st e))) = pending (rs_q st) ++ suffix.
Proof.
  intro Hnd. unfold rstep. destruct (rs_dead st); [exists []; now rewrite app_nil_r|].
  destruct e as [name sid|portal stmt fid|portal|sid| | |d| |]; cbn [fst rs_q].
  - exists []; now rewrite app_nil_r.
  - destruct (reg_bind (rs_reg st) portal stmt fid); cbn [fst rs_q]; exists []; now rewrite app_nil_r.
  - destruct (nassoc portal (r_cursors (rs_reg st))) as [[[o sid] fid]|]; cbn [fst rs_q on_execute push pending].
    + eexists; reflexivity.
    + exists []; now rewrite app_nil_r.
  - cbn [on_query end_batch push pending]. eexists; reflexivity.
  - cbn [on_sync end_batch pending]. exists []; now rewrite app_nil_r.
  - exists []; now rewrite app_nil_r.
  - exfalso; eapply Hnd; reflexivity.
  - exists []; now rewrite app_nil_r.
  - exists []; now rewrite app_nil_r.
Qed.
