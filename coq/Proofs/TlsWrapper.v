(** C02, TLS identity override.  Finite domain: the RPC set of the gRPC service interfaces of the pinned tree,
    regenerated (go/ast) on every run; the per-row facts are decided by [vm_compute], the lifting to
    "for every RPC, every connection identity, every forged request id" is a proof. *)
From Acra Require Import Lib.Bytes Lib.Outcome Gen.TlsWrapper Model.TlsWrapper.

Lemma all_rows_override : forallb row_overrides tls_rpcs = true.
Proof. vm_compute. reflexivity. Qed.

Theorem tls_identity_overrides_all_rpcs :
  forall r, In r tls_rpcs -> row_overrides r = true.
Proof. apply forallb_forall. exact all_rows_override. Qed.

Lemma find_rpc_in name rows r : find_rpc name rows = Some r -> In r rows /\ rpc_name r = name.
Proof.
  induction rows as [|q rest IH]; cbn [find_rpc]; [discriminate|].
  destruct (bytes_eqb (rpc_name q) name) eqn:E.
  - intros [= ->]. split; [left; reflexivity| apply bytes_eqb_eq, E].
  - intros H. destruct (IH H) as [Hin Hn]. split; [right; exact Hin| exact Hn].
Qed.

(** over ANY table all of whose rows have the override shape: whatever the request says, the service sees the
    connection identity or is not reached *)
Theorem tls_forged_id_ignored_in rows :
  (forall r, In r rows -> row_overrides r = true) ->
  forall name conn forged forged',
    tls_seen_in rows name conn forged = tls_seen_in rows name conn forged' /\
    forall id, tls_seen_in rows name conn forged = Ok id -> conn = Some id.
Proof.
  intros Hall name conn forged forged'. unfold tls_seen_in.
  destruct (find_rpc name rows) as [r|] eqn:Ef; [|split; [reflexivity| discriminate]].
  destruct (find_rpc_in _ _ _ Ef) as [Hin _]. rewrite (Hall r Hin).
  destruct (negb (rpc_defined r)); [split; [reflexivity| discriminate]|].
  destruct conn as [c|]; split; try reflexivity; try discriminate. intros id [= ->]. reflexivity.
Qed.

Theorem tls_forged_id_ignored :
  forall name conn forged forged',
    tls_seen name conn forged = tls_seen name conn forged' /\
    forall id, tls_seen name conn forged = Ok id -> conn = Some id.
Proof. apply tls_forged_id_ignored_in, tls_identity_overrides_all_rpcs. Qed.

(** sensitivity of the statement: a table with one method that forgets the assignment is rejected *)
Definition bad_row : tls_row :=
  Build_tls_row (hb 0x144656372797074) (hb 0x152) true true true false true (hb 0x144656372797074).
Example tls_override_refuted_on_bad_table :
  forallb row_overrides [bad_row] = false /\
  tls_seen_in [bad_row] (hb 0x144656372797074) (Some (hb 0x161)) (hb 0x162) = Ok (hb 0x162).
Proof. split; vm_compute; reflexivity. Qed.

Example tls_rpc_set_nonempty : tls_rpcs <> [] /\ exists r, find_rpc (hb 0x144656372797074) tls_rpcs = Some r.
Proof. split; [discriminate|]. vm_compute. eexists. reflexivity. Qed.
