(** C02 (read-path part): which identity the write path and the read path act under (Model/ReadPath.v).
      - the write path protects for the client_id of the column if there is one, else for the connection;
      - EVERY read-path processor acts under the identity of the connection and is blind to the client_id of the
        column it reads through (all settings, all token stores);
      - composed with the token scope frame (Proofs/IsoTokens.v) and the cross-client envelope theorems
        (Proofs/Isolation.v): a reader B gets the stored form back when nothing in the history was protected for B.
    A read path that selected the identity like the write path does is REFUTED by a concrete scenario (stand-in
    crypto), so the statements discriminate. *)
From Coq Require Import List Lia.
From Acra Require Import Lib.Bytes Lib.Outcome Lib.Sha256 Crypto.Interface Crypto.Stub Gen.Consts Gen.MaskConsts
  Gen.IsoTokenConsts Model.Envelope Model.EnvelopeOld Model.Masking Model.FullChain Model.IsoTokens Model.ReadPath
  Proofs.Envelope Proofs.EnvelopeHandlers Proofs.EnvelopeOld Proofs.Isolation Proofs.IsoTokens Proofs.FullChain.
Import ListNotations.

Definition rp_with_cid (s : rp_setting) (cid : bytes) : rp_setting := Build_rp_setting cid (rp_kind_of s).

(** the tokenize operations a history of writes performs on the token store *)
Definition rp_tok_op (w : rp_w) : list tok_op :=
  match rp_kind_of (w_setting w) with
  | RpTok c => [TTokenize c (rp_tc (rp_write_id (w_setting w) (w_conn w))) (w_tape w) (w_data w)]
  | RpEnc _ => []
  end.
Definition rp_tok_ops (ws : list rp_w) : list tok_op := flat_map rp_tok_op ws.

(** the identity a write protects for *)
Definition rp_owner (w : rp_w) : bytes := rp_write_id (w_setting w) (w_conn w).

Section ReadPathProofs.
Variable C : crypto.

(** * 1. identity selection *)
(* write path: the client_id of the column wins; without one, the connection *)
Lemma write_id_explicit s conn : rp_cid s <> [] -> rp_write_id s conn = rp_cid s.
Proof. intros H. unfold rp_write_id. destruct (rp_cid s); [contradiction| reflexivity]. Qed.

Lemma write_id_default s conn : rp_cid s = [] -> rp_write_id s conn = conn.
Proof. intros H. unfold rp_write_id. rewrite H. reflexivity. Qed.

(* a column that names a client is written identically by every connection *)
Theorem write_explicit_any_connection sch K st s conn1 conn2 tape data :
  rp_cid s <> [] ->
  rp_write C sch K st s conn1 tape data = rp_write C sch K st s conn2 tape data.
Proof. intros H. unfold rp_write. rewrite !write_id_explicit by exact H. reflexivity. Qed.

(* the write acts under [rp_write_id]: token scope and token-encryption key / envelope keys of that identity *)
Theorem write_acts_under_write_id sch K st s conn tape data :
  rp_write C sch K st s conn tape data =
  match rp_kind_of s with
  | RpTok c => step C true (rp_tokkeys K) st (TTokenize c (rp_tc (rp_write_id s conn)) tape data)
  | RpEnc fs => (st, fc_write C sch fs (rp_keyset K (rp_write_id s conn)) tape data)
  end.
Proof. reflexivity. Qed.

(** read path: blind to the client_id of the setting ... *)
Theorem read_core_ignores_setting_client_id sch K st s cid conn col :
  rp_read_core C sch K st (Some (rp_with_cid s cid)) conn col = rp_read_core C sch K st (Some s) conn col.
Proof. reflexivity. Qed.

Theorem read_pg_ignores_setting_client_id sch K st s cid conn binary data :
  rp_read_pg C sch K st (Some (rp_with_cid s cid)) conn binary data = rp_read_pg C sch K st (Some s) conn binary data.
Proof. reflexivity. Qed.

Theorem token_processor_ignores_setting_client_id K st s cid conn t :
  rp_token_processor C K st (Some (rp_with_cid s cid)) conn t = rp_token_processor C K st (Some s) conn t.
Proof. reflexivity. Qed.

(** ... and acting under the connection: token context = (connection id, no additional context), keys = the
    connection's keyset *)
Theorem token_processor_acts_under_connection K st s c conn t :
  rp_kind_of s = RpTok c ->
  rp_token_processor C K st (Some s) conn t = deanonymize C true (rp_tokkeys K) st (Build_token_context conn []) t.
Proof. intros H. unfold rp_token_processor, rp_token_processor_as. rewrite H. reflexivity. Qed.

Theorem read_core_acts_under_connection_enc sch K st s fs conn col :
  rp_kind_of s = RpEnc fs ->
  rp_read_core C sch K st (Some s) conn col = fc_read_core C sch (Some fs) (rp_keyset K conn) col.
Proof.
  intros H. unfold rp_read_core, rp_read_core_as, rp_token_processor_as, rp_read_id, rp_fs. cbn [option_map].
  rewrite H. destruct (fc_tok sch); reflexivity.
Qed.

Theorem read_core_acts_under_connection_tok sch K st s c conn col :
  rp_kind_of s = RpTok c -> fc_tok sch = true ->
  rp_read_core C sch K st (Some s) conn col =
  (do d <- deanonymize C true (rp_tokkeys K) st (Build_token_context conn []) col;
   fc_read_core C sch (Some fs_tokenized) (rp_keyset K conn) d).
Proof.
  intros H Ht. unfold rp_read_core, rp_read_core_as, rp_token_processor_as, rp_read_id, rp_fs. cbn [option_map].
  rewrite H, Ht. reflexivity.
Qed.

(** * 2. the token store after a history of writes = the token history of the write identities *)
Lemma rp_store_from_tok_ops sch K : forall ws st,
  rp_store_from C sch K st ws = fst (run_from C true (rp_tokkeys K) st (rp_tok_ops ws)).
Proof.
  induction ws as [|w r IH]; intros st; cbn [rp_store_from rp_tok_ops flat_map].
  - reflexivity.
  - rewrite IH. fold (rp_tok_ops r). rewrite write_acts_under_write_id. unfold rp_tok_op.
    destruct (rp_kind_of (w_setting w)) as [c|fs]; cbn [app fst].
    + cbn [run_from].
      destruct (step C true (rp_tokkeys K) st (TTokenize c (rp_tc (rp_write_id (w_setting w) (w_conn w))) (w_tape w) (w_data w)))
        as [st1 out]. cbn [fst].
      destruct (run_from C true (rp_tokkeys K) st1 (rp_tok_ops r)) as [st2 outs]. reflexivity.
    + reflexivity.
Qed.

Lemma rp_store_final sch K ws :
  rp_store C sch K ws = final_store C true (rp_tokkeys K) (rp_tok_ops ws).
Proof. unfold rp_store, final_store, run_hist. apply rp_store_from_tok_ops. Qed.

Lemma rp_tok_ops_in ws o :
  In o (rp_tok_ops ws) -> exists w, In w ws /\ op_ctx o = rp_tc (rp_owner w).
Proof.
  unfold rp_tok_ops. rewrite in_flat_map. intros (w & Hw & Ho). exists w. split; [exact Hw|].
  unfold rp_tok_op in Ho. destruct (rp_kind_of (w_setting w)); cbn [In] in Ho; [|contradiction].
  destruct Ho as [<-|[]]. reflexivity.
Qed.

(** * 3. de-tokenization on the read path under another identity.
    EVERY history of writes (any connections, any settings with or without client_id, any tapes, any keys) in which
    nothing was protected for B; a connection of identity B reads ANY bytes t (in particular every token made for
    A) through ANY setting (in particular one whose client_id names A): the token processor hands t back unchanged;
    otherwise the history holds an explicit SHA-256 collision on the scope strings. *)
Theorem readpath_token_other_client sch K ws idB s t :
  Forall (fun w => rp_owner w <> idB) ws ->
  rp_token_processor C K (rp_store C sch K ws) s idB t = Ok t
  \/ exists w, In w ws /\ rp_owner w <> idB /\ sha256 (STR_CLIENT ++ rp_owner w) = sha256 (STR_CLIENT ++ idB).
Proof.
  intros HF.
  assert (Hops : Forall (fun o => tc_additional (op_ctx o) = [] /\ tc_client (op_ctx o) <> idB) (rp_tok_ops ws)).
  { rewrite Forall_forall. intros o Ho. destruct (rp_tok_ops_in ws o Ho) as (w & Hw & ->).
    rewrite Forall_forall in HF. split; [reflexivity| exact (HF w Hw)]. }
  destruct (detokenize_other_client_ids C true (rp_tokkeys K) (rp_tok_ops ws) idB t Hops) as [H|(o & Ho & Hn & E)].
  - left. unfold rp_token_processor, rp_token_processor_as, rp_read_id.
    destruct s as [s'|]; [|reflexivity]. destruct (rp_kind_of s'); [|reflexivity].
    rewrite rp_store_final. exact H.
  - right. destruct (rp_tok_ops_in ws o Ho) as (w & Hw & Hc). rewrite Hc in Hn, E. cbn [rp_tc tc_client] in Hn, E.
    exists w. split; [exact Hw|]. split; [exact Hn| exact E].
Qed.

(* the whole subscriber chain: B gets what the decrypting subscribers make of the STORED bytes under B's own
   keys -- as if the column had no token processor at all *)
Theorem readpath_token_other_client_core sch K ws idB s t :
  Forall (fun w => rp_owner w <> idB) ws ->
  rp_read_core C sch K (rp_store C sch K ws) s idB t = fc_read_core C sch (option_map rp_fs s) (rp_keyset K idB) t
  \/ exists w, In w ws /\ rp_owner w <> idB /\ sha256 (STR_CLIENT ++ rp_owner w) = sha256 (STR_CLIENT ++ idB).
Proof.
  intros HF. destruct (readpath_token_other_client sch K ws idB s t HF) as [H|H]; [left| right; exact H].
  unfold rp_read_core, rp_read_core_as. destruct (fc_tok sch); [|reflexivity].
  unfold rp_token_processor in H. rewrite H. reflexivity.
Qed.

(** * 4. decryption on the read path under another identity (symmetric envelope, plain encrypted column).
    The value is written through a column of ANY connection [connW]; it is protected for A = rp_write_id.  A
    connection of identity B then meets it on the read path: the processor behind DecryptHandler is
    RegistryHandler.Process with B's keyset whatever setting the column carries, so a reveal exhibits a key of B's
    keyset that opens A's key block (Proofs/Isolation.v: shared key or forgery witness), and without one the
    DecryptHandler hands the container back unchanged. *)
Section WithLaws.
Hypothesis HC : Correct C.

Theorem readpath_decrypt_other_client sch K st s fs connW tape x keyA rest connB :
  rp_kind_of s = RpEnc fs -> fs_env_ab fs = true -> fs_only_enc fs = true ->
  looks_protected ENVELOPE_ID_ACRABLOCK x = false ->
  x <> [] -> (N.of_nat (length x) < MAXMSG)%N -> good_ab_tape tape -> keyA <> [] ->
  ks_syms (rp_keyset K (rp_write_id s connW)) = keyA :: rest ->
  exists v dek nonce,
    rp_write C sch K st s connW tape x = (st, Ok v) /\
    (forall y, registry_process C (rp_keyset K connB) v = Ok y ->
               opens_ab_key_block C (ks_syms (rp_keyset K connB)) keyA [] nonce dek) /\
    (~ opens_ab_key_block C (ks_syms (rp_keyset K connB)) keyA [] nonce dek ->
     decrypt_handler (registry_process C (rp_keyset K connB)) v = Ok v).
Proof.
  intros Hk Hab Ho Hlp Hne Hl Ht Hkey Hsyms.
  set (ksA := rp_keyset K (rp_write_id s connW)) in *.
  destruct (handler_roundtrip_ab C HC ksA ksA tape x keyA rest [] rest Hlp Hne Hl Ht Hkey Hsyms Hsyms
              (fun _ => Forall_nil _)) as (v & Hw & _ & _ & _ & inner & Hv & Hine & Hil & Him & _ & _).
  assert (reenc_match v = true) as Hrm by (subst v; apply reenc_match_ab_container; assumption).
  assert (fs_id fs = ENVELOPE_ID_ACRABLOCK) as Hidv by (unfold fs_id; rewrite Hab; reflexivity).
  destruct (no_cross_client_reveal_ab C HC ksA (rp_keyset K connB) tape x keyA rest Hlp Hne Hl Ht Hkey Hsyms)
    as (v1 & dek & nonce & Hw1 & Hrev & Hno).
  rewrite Hw in Hw1. injection Hw1 as <-.
  exists v, dek, nonce. split; [|split].
  - rewrite write_acts_under_write_id, Hk. fold ksA. f_equal.
    rewrite fc_write_plain by exact Ho. rewrite Hidv, Hw. cbn [bind].
    apply reencrypt_unchanged. right. right. left. exact Hrm.
  - intros y Hy. apply (Hrev y). right. left. exact Hy.
  - intros Hn. destruct (Hno Hn) as (_ & (e & He) & _). unfold decrypt_handler. rewrite He. reflexivity.
Qed.

End WithLaws.
End ReadPathProofs.

(** * 5. the statements discriminate: a read path that selected its identity the way the WRITE path does
      (client_id of the column first) is refuted -- a connection of B, for which nothing was ever protected, gets
      A's plaintext for A's token.  (This is the model of the class of change "the read path takes the identity
      from the column setting"; found on the implementation by domain c02rp.) *)
Definition rp_read_core_by_setting (C : crypto) (sch : fc_schema) (K : rp_keys) (st : store) (s : option rp_setting)
           (conn : bytes) (col : bytes) : res (bytes * bool) :=
  rp_read_core_as C sch K st s (match s with Some s' => rp_write_id s' conn | None => conn end) col.

Definition rpx_A : bytes := Eval vm_compute in hb 0x1616c696365.      (* "alice" *)
Definition rpx_B : bytes := Eval vm_compute in hb 0x1626f62.          (* "bob" *)
Definition rpx_keyA : bytes := repeat_bytes x11 32.
Definition rpx_keyB : bytes := repeat_bytes x22 32.
Definition rpx_K : rp_keys :=
  [(rpx_A, Build_keyset None [] [rpx_keyA] None); (rpx_B, Build_keyset None [] [rpx_keyB] None)].
Definition rpx_sch : fc_schema := Build_fc_schema true false false.
(* a tokenized column WITH client_id: alice *)
Definition rpx_s_tok : rp_setting := Build_rp_setting rpx_A (RpTok false).
Definition rpx_secret : bytes := Eval vm_compute in hb 0x1736563726574.   (* "secret" *)
Definition rpx_tape : list bytes := [repeat_bytes x41 6; repeat_bytes x07 32; repeat_bytes x08 12; repeat_bytes x09 12].
Definition rpx_token : bytes := repeat_bytes x41 6.
(* BOB's connection writes the value into alice's column: it is protected for alice *)
Definition rpx_ws : list rp_w := [Build_rp_w rpx_s_tok rpx_B rpx_tape rpx_secret].

Example rpx_write_protects_for_column_client :
  rp_write Stub rpx_sch rpx_K init_store rpx_s_tok rpx_B rpx_tape rpx_secret
  = rp_write Stub rpx_sch rpx_K init_store rpx_s_tok rpx_A rpx_tape rpx_secret /\
  snd (rp_write Stub rpx_sch rpx_K init_store rpx_s_tok rpx_B rpx_tape rpx_secret) = Ok rpx_token.
Proof. split; vm_compute; reflexivity. Qed.

Example rpx_owner_reads :
  rp_read_core Stub rpx_sch rpx_K (rp_store Stub rpx_sch rpx_K rpx_ws) (Some rpx_s_tok) rpx_A rpx_token = Ok (rpx_secret, false).
Proof. vm_compute. reflexivity. Qed.

Example rpx_other_gets_token :
  rp_read_core Stub rpx_sch rpx_K (rp_store Stub rpx_sch rpx_K rpx_ws) (Some rpx_s_tok) rpx_B rpx_token = Ok (rpx_token, false).
Proof. vm_compute. reflexivity. Qed.

Example rpx_premise_satisfiable : Forall (fun w => rp_owner w <> rpx_B) rpx_ws.
Proof. constructor; [|constructor]. vm_compute. discriminate. Qed.

Theorem read_identity_from_setting_refuted :
  exists sch K ws s idB t x,
    Forall (fun w => rp_owner w <> idB) ws /\ x <> t /\
    rp_read_core_by_setting Stub sch K (rp_store Stub sch K ws) (Some s) idB t = Ok (x, false) /\
    rp_read_core Stub sch K (rp_store Stub sch K ws) (Some s) idB t = Ok (t, false).
Proof.
  exists rpx_sch, rpx_K, rpx_ws, rpx_s_tok, rpx_B, rpx_token, rpx_secret.
  split; [exact rpx_premise_satisfiable|]. split; [vm_compute; discriminate|].
  split; vm_compute; reflexivity.
Qed.

(* an encrypted (acrablock) column with client_id: alice, written by bob's connection, read by both *)
Definition rpx_s_ab : rp_setting :=
  Build_rp_setting rpx_A (RpEnc (Build_fc_setting true false false (Build_mask_setting [] 0%Z [] 0))).
Definition rpx_ab_tape : list bytes := [repeat_bytes x01 32; repeat_bytes x02 12; repeat_bytes x03 12].
Definition rpx_x : bytes := [x73; x65; x63; x72; x65; x74; x25; x25; x25; x22].
Definition rpx_v : bytes := Eval vm_compute in
  match snd (rp_write Stub rpx_sch rpx_K init_store rpx_s_ab rpx_B rpx_ab_tape rpx_x) with Ok v => v | _ => [] end.

Example rpx_decrypt_premises_hold :
  fs_only_enc (rp_fs rpx_s_ab) = true /\ looks_protected ENVELOPE_ID_ACRABLOCK rpx_x = false /\ good_ab_tape rpx_ab_tape /\
  ks_syms (rp_keyset rpx_K (rp_write_id rpx_s_ab rpx_B)) = [rpx_keyA] /\
  rp_write Stub rpx_sch rpx_K init_store rpx_s_ab rpx_B rpx_ab_tape rpx_x = (init_store, Ok rpx_v) /\
  ~ opens_ab_key_block Stub (ks_syms (rp_keyset rpx_K rpx_B)) rpx_keyA [] (repeat_bytes x03 12) (repeat_bytes x01 32) /\
  rp_read_core Stub rpx_sch rpx_K init_store (Some rpx_s_ab) rpx_A rpx_v = Ok (rpx_x, true) /\
  rp_read_core Stub rpx_sch rpx_K init_store (Some rpx_s_ab) rpx_B rpx_v = Ok (rpx_v, false).
Proof.
  split; [reflexivity|]. split; [vm_compute; reflexivity|].
  split; [exists (repeat_bytes x01 32), (repeat_bytes x02 12), (repeat_bytes x03 12), []; repeat split|].
  split; [reflexivity|]. split; [vm_compute; reflexivity|].
  split.
  { intros (k & m & Hin & H). cbn in Hin. destruct Hin as [<-|[]]. vm_compute in H. discriminate. }
  split; vm_compute; reflexivity.
Qed.
