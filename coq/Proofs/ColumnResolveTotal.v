(** TOTALITY of the statement analysis: on a well-shaped tree (Model.RunColumnResolve.wf: what the Go types and
    the parser guarantee) none of the three entry points panics, whatever the configuration and the dialect. *)
From Coq Require Import String.
From Coq Require Import List Bool NArith ZArith Arith Lia.
From Acra Require Import Lib.Bytes Lib.Outcome Model.RunColumnResolve Proofs.CensorTree Proofs.ColumnResolveBase.
Import ListNotations.
Local Open Scope nat_scope.

Lemma wf_T k l cs : wf (T k l cs) = true -> forallb wf cs = true.
Proof. cbn [wf]. intro H. apply andb_true_iff in H. exact (proj1 H). Qed.

Lemma wf_nth cs i : forallb wf cs = true -> wf (nth i cs tnil) = true.
Proof.
  intro H. destruct (nth_in_or_default i cs tnil) as [Hin|Heq]; [|rewrite Heq; reflexivity].
  rewrite forallb_forall in H. apply H, Hin.
Qed.

Lemma wf_kidn t i : wf t = true -> wf (kidn i t) = true.
Proof. destruct t as [k l cs]. intro H. apply wf_nth. exact (wf_T _ _ _ H). Qed.

Lemma wf_fld t n : wf t = true -> wf (fld n t) = true.
Proof. apply wf_kidn. Qed.

Lemma wf_kids t : wf t = true -> Forall (fun c => wf c = true) (tkids t).
Proof. destruct t as [k l cs]. intro H. apply Forall_forall. apply forallb_forall. exact (wf_T _ _ _ H). Qed.

Lemma Forall_wf_app a b : Forall (fun c => wf c = true) a -> Forall (fun c => wf c = true) b -> Forall (fun c => wf c = true) (a ++ b).
Proof. intros. apply Forall_app. split; assumption. Qed.

(** * GetTablesWithAliases *)

Lemma tables_of_at' cs i :
  nth i (map tables_of cs) (fun _ => Ok []) tt = tables_of (nth i cs tnil) tt.
Proof. change (fun _ : unit => @Ok (list (tree * tree)) []) with (tables_of tnil). rewrite nth_map_default. reflexivity. Qed.

Lemma tables_of_total : forall t, wf t = true -> tables_of t tt <> Panic.
Proof.
  induction t as [k l cs IH] using tree_ind'. intro Hw.
  pose proof (wf_T _ _ _ Hw) as Hcs.
  assert (Hk : forall i, tables_of (nth i cs tnil) tt <> Panic).
  { intro i. apply (Forall_nth_tnil (fun t => wf t = true -> tables_of t tt <> Panic) cs i); [discriminate|exact IH|].
    apply wf_nth. exact Hcs. }
  destruct k; try (cbn [tables_of]; discriminate).
  - cbn [tables_of]. cbn [wf] in Hw. apply andb_true_iff in Hw. destruct Hw as [_ Hn].
    destruct (is_nil _); [discriminate|]. destruct (isk K_TableName _); discriminate.
  - cbn [tables_of]. rewrite !tables_of_at'.
    pose proof (Hk (fnum K_JoinTableExpr "LeftExpr")) as HL. pose proof (Hk (fnum K_JoinTableExpr "RightExpr")) as HR.
    destruct (tables_of (nth (fnum K_JoinTableExpr "LeftExpr") cs tnil) tt); cbn [bind]; try discriminate; try contradiction.
    destruct (tables_of (nth (fnum K_JoinTableExpr "RightExpr") cs tnil) tt); cbn [bind]; try discriminate; try contradiction.
  - cbn [tables_of]. rewrite tables_of_at'. apply Hk.
  - cbn [tables_of]. clear Hk Hw. induction IH as [|c cs Hc _ IHcs]; cbn [map fold_right]; [discriminate|].
    cbn [forallb] in Hcs. apply andb_true_iff in Hcs. destruct Hcs as [Hc1 Hc2].
    specialize (Hc Hc1). specialize (IHcs Hc2).
    destruct (tables_of c tt); cbn [bind]; try discriminate; try contradiction.
    destruct (fold_right _ _ (map tables_of cs)); cbn [bind]; try discriminate; try contradiction.
Qed.

Lemma tables_of_list_total ts : Forall (fun c => wf c = true) ts -> tables_of_list ts <> Panic.
Proof.
  induction 1 as [|t ts Ht _ IH]; cbn [tables_of_list]; [discriminate|].
  pose proof (tables_of_total t Ht) as H1.
  destruct (tables_of t tt); cbn [bind]; try discriminate; try contradiction.
  destruct (tables_of_list ts); cbn [bind]; try discriminate; try contradiction.
Qed.

Section T.
Variable d : dialect.
Variable cfg : rcfg.

(** * findTableName / FindColumnInfo never panic *)

Lemma first_ok_total {A} (rs : list (res A)) : Forall (fun r => r <> Panic) rs -> first_ok rs <> Panic.
Proof.
  induction 1 as [|r rs Hr _ IH]; cbn [first_ok]; [discriminate|].
  destruct r; [discriminate|exact IH|contradiction].
Qed.

Lemma first_plain_loop_total from : forall name, first_plain_loop d from name <> Panic.
Proof.
  induction from as [|e tl IH]; intro name; cbn [first_plain_loop].
  - destruct (empty name); discriminate.
  - destruct (isk K_AliasedTableExpr e); [|apply IH].
    destruct (non_aliased_name d e); [|apply IH]. destruct (empty name); [apply IH|discriminate].
Qed.

Lemma first_table_total from : first_table_without_alias d from <> Panic.
Proof.
  unfold first_table_without_alias. destruct from as [|f0 tl]; [discriminate|].
  destruct (isk K_JoinTableExpr f0); [destruct (join_first d f0 tt); discriminate|apply first_plain_loop_total].
Qed.

Lemma ftn_at cs i alias col :
  nth i (map (ftn d) cs) (fun _ _ => Err E_NOTFOUND) alias col = ftn d (nth i cs tnil) alias col.
Proof. change (fun _ _ : bytes => @Err (bytes * bytes) E_NOTFOUND) with (ftn d tnil). rewrite nth_map_default. reflexivity. Qed.

Lemma ftn_total : forall t alias col, ftn d t alias col <> Panic.
Proof.
  induction t as [k l cs IH] using tree_ind'. intros alias col.
  assert (Hk : forall i a c, ftn d (nth i cs tnil) a c <> Panic).
  { intros i. apply (Forall_nth_tnil (fun t => forall a c, ftn d t a c <> Panic) cs i); [discriminate|exact IH]. }
  destruct k; try (cbn [ftn]; discriminate).
  - (* AliasedTableExpr *)
    cbn [ftn]. rewrite !ftn_at.
    destruct (ti_empty _); [apply Hk|]. destruct (bytes_eqb _ alias); [|discriminate].
    destruct (isk K_TableName _); apply Hk.
  - (* JoinTableExpr *)
    cbn [ftn]. rewrite !ftn_at. pose proof (Hk (fnum K_JoinTableExpr "LeftExpr") alias col) as HL.
    destruct (ftn d (nth (fnum K_JoinTableExpr "LeftExpr") cs tnil) alias col); [discriminate| |contradiction].
    destruct (N.eqb _ _); [apply Hk|discriminate].
  - cbn [ftn]. rewrite ftn_at. apply Hk.
  - cbn [ftn]. rewrite ftn_at. apply Hk.
  - (* Select *)
    cbn [ftn].
    pose proof (first_table_total (tkids (nth (fnum K_Select "From") cs tnil))) as Hf.
    set (ft := first_table_without_alias d (tkids (nth (fnum K_Select "From") cs tnil))) in *. clearbody ft.
    induction (tkids (nth (fnum K_Select "SelectExprs") cs tnil)) as [|e tl IHl]; [discriminate|].
    destruct (negb (isk K_AliasedExpr e)); [exact IHl|].
    destruct (ci_empty (at_as e)).
    + destruct (negb (isk K_ColName (at_expr e))); [exact IHl|].
      destruct (negb (ci_equal_string _ col)); [exact IHl|].
      destruct (tn_empty _).
      * destruct ft; [discriminate|exact IHl|exact IHl].
      * rewrite ftn_at. apply Hk.
    + destruct (ci_equal_string _ alias || _); [|exact IHl].
      destruct (negb (isk K_ColName (at_expr e))); [exact IHl|].
      destruct (empty (ti_v (tn_name (fld "Qualifier" (at_expr e))))).
      * destruct ft; [rewrite ftn_at; apply Hk|discriminate|contradiction].
      * rewrite ftn_at. apply Hk.
  - cbn [ftn]. rewrite ftn_at. apply Hk.
  - (* TableExprs *)
    cbn [ftn]. apply first_ok_total. rewrite Forall_map. apply Forall_forall. intros f Hf.
    apply in_map_iff in Hf. destruct Hf as [c [<- Hc]]. rewrite Forall_forall in IH. apply IH, Hc.
  - (* TableName *)
    cbn [ftn]. destruct (bytes_eqb _ _); discriminate.
Qed.

Lemma ftn_list_total from alias col : ftn_list d from alias col <> Panic.
Proof.
  unfold ftn_list. apply first_ok_total. rewrite Forall_map. apply Forall_forall. intros t _. apply ftn_total.
Qed.

Lemma matched_loop_total from col : forall found, matched_loop d cfg from col found <> Panic.
Proof.
  induction from as [|e tl IH]; intro found; cbn [matched_loop].
  - destruct (empty found); discriminate.
  - destruct (negb (isk K_AliasedTableExpr e)); [apply IH|].
    destruct (negb (isk K_TableName (at_expr e))); [discriminate|].
    destruct (tab_schema d cfg (at_expr e)); [|apply IH].
    destruct (knows_col _ col); [|apply IH].
    destruct (if ti_empty (at_as e) then _ else _); [|discriminate].
    destruct (empty found); [apply IH|discriminate].
Qed.

Lemma matched_table_total from col : matched_table d cfg from col <> Panic.
Proof.
  unfold matched_table. destruct from as [|f0 tl]; [discriminate|].
  destruct (isk K_JoinTableExpr f0); [destruct (join_first d f0 tt); discriminate|apply matched_loop_total].
Qed.

Lemma find_column_info_total from cn : find_column_info d cfg from cn <> Panic.
Proof.
  unfold find_column_info.
  destruct (empty _).
  - pose proof (matched_table_total from (vfc_col d (fld "Name" cn))) as Hm.
    destruct (matched_table d cfg from _) as [al| |]; cbn [bind]; [|discriminate|contradiction].
    pose proof (ftn_list_total from al (vfc_col d (fld "Name" cn))) as Hf.
    destruct (ftn_list d from al _); cbn [bind]; [discriminate|discriminate|contradiction].
  - cbn [bind].
    pose proof (ftn_list_total from (vfc_tab d (tn_name (fld "Qualifier" cn))) (vfc_col d (fld "Name" cn))) as Hf.
    destruct (ftn_list d from _ _); cbn [bind]; [discriminate|discriminate|contradiction].
Qed.

(** * MapColumnsToAliases / ParseQuerySettings / onReturning *)

Lemma star_all_total from :
  (fix all (from : list tree) : res (list (option colinfo)) :=
     match from with
     | [] => Ok []
     | f :: tl => do n <- table_name_without_aliases d f; do rest <- all tl; Ok (Some (STAR, n, STAR) :: rest)
     end) from <> Panic.
Proof.
  induction from as [|f tl IH]; [discriminate|].
  unfold table_name_without_aliases at 1.
  destruct (negb (isk K_AliasedTableExpr f)); cbn [bind]; [discriminate|].
  destruct (negb (isk K_TableName (at_expr f))); cbn [bind]; [discriminate|].
  match goal with |- context [bind ?x _] => destruct x end; cbn [bind]; [discriminate|discriminate|contradiction].
Qed.

Lemma star_info_total cx star : star_info d cx star <> Panic.
Proof.
  unfold star_info. destruct (nonempty (cx_tabs cx)).
  - destruct (negb (ti_empty _)); [destruct (lookup_last _ _); discriminate|discriminate].
  - destruct (negb (ti_empty _)).
    + pose proof (ftn_list_total (cx_from cx) (vfc_tab d (tn_name (fld "TableName" star))) (vfc_tab d (tn_name (fld "TableName" star)))) as Hf.
      destruct (ftn_list d (cx_from cx) _ _); cbn [bind]; [discriminate|discriminate|contradiction].
    + apply star_all_total.
Qed.

Lemma mca_at cs i cx dflt :
  dflt = mca d cfg tnil -> nth i (map (mca d cfg) cs) dflt cx = mca d cfg (nth i cs tnil) cx.
Proof. intros ->. rewrite nth_map_default. reflexivity. Qed.

Lemma mca_total : forall t, wf t = true -> forall cx, mca d cfg t cx <> Panic.
Proof.
  induction t as [k l cs IH] using tree_ind'. intros Hw cx.
  pose proof (wf_T _ _ _ Hw) as Hcs.
  assert (Hk : forall i cx, mca d cfg (nth i cs tnil) cx <> Panic).
  { intro i. apply (Forall_nth_tnil (fun t => wf t = true -> forall cx, mca d cfg t cx <> Panic) cs i); [discriminate|exact IH|].
    apply wf_nth. exact Hcs. }
  destruct k; try (cbn [mca]; discriminate).
  - (* AliasedExpr *)
    cbn [mca].
    destruct (isk K_Subquery _ && _).
    + destruct (tkids _) as [|one [|two rest]]; try discriminate.
      destruct (isk K_StarExpr one); [discriminate|].
      rewrite (mca_at cs _ cx _ eq_refl). apply Hk.
    + destruct (isk K_ColName _); [|discriminate].
      pose proof (find_column_info_total (cx_from cx) (nth (fnum K_AliasedExpr "Expr") cs tnil)) as Hf.
      destruct (find_column_info d cfg _ _); [discriminate|discriminate|contradiction].
  - (* Select *)
    cbn [mca]. cbn [wf] in Hw. apply andb_true_iff in Hw. destruct Hw as [_ Hfrom].
    destruct (tkids (nth (fnum K_Select "From") cs tnil)) as [|f0 ftl]; [discriminate|].
    destruct (isk K_JoinTableExpr f0).
    + destruct (pjoin d f0 ([], [])); cbn [bind]; try discriminate.
      destruct (is_nil (nth (fnum K_Select "SelectExprs") cs tnil)) eqn:En; [discriminate|].
      rewrite (nth_map_present _ _ _ _ En). apply Hk.
    + cbn [bind]. destruct (is_nil (nth (fnum K_Select "SelectExprs") cs tnil)) eqn:En; [discriminate|].
      rewrite (nth_map_present _ _ _ _ En). apply Hk.
  - (* SelectExprs *)
    cbn [mca]. clear Hk Hw. induction IH as [|c cs Hc _ IHcs]; cbn [map fold_right]; [discriminate|].
    cbn [forallb] in Hcs. apply andb_true_iff in Hcs. destruct Hcs as [Hc1 Hc2].
    specialize (Hc Hc1 cx). specialize (IHcs Hc2).
    destruct (mca d cfg c cx); cbn [bind]; try discriminate; try contradiction.
    destruct (fold_right _ _ (map (mca d cfg) cs)); cbn [bind]; try discriminate; try contradiction.
  - (* StarExpr *)
    cbn [mca]. apply star_info_total.
  - (* Subquery *)
    cbn [mca]. rewrite (mca_at cs _ cx _ eq_refl). apply Hk.
Qed.

Lemma ret_star_total from : ret_star d cfg from <> Panic.
Proof.
  induction from as [|e tl IH]; cbn [ret_star]; [discriminate|].
  destruct (negb (isk K_AliasedTableExpr e)); [exact IH|].
  destruct (negb (isk K_TableName (at_expr e))); [exact IH|].
  destruct (get_schema cfg _); [|discriminate].
  destruct (ret_star d cfg tl); cbn [bind]; [discriminate|discriminate|contradiction].
Qed.

Lemma ret_items_total from its : ret_items d cfg from its <> Panic.
Proof.
  induction its as [|it tl IH]; cbn [ret_items]; [discriminate|].
  assert (H1 : ret_item d cfg from it <> Panic).
  { unfold ret_item. destruct (isk K_AliasedExpr it && _); [|discriminate].
    pose proof (find_column_info_total from (at_expr it)) as Hf.
    destruct (find_column_info d cfg from (at_expr it)) as [[[nm tb] al]| |]; [|discriminate|contradiction].
    destruct (get_schema cfg tb); discriminate. }
  destruct (ret_item d cfg from it); cbn [bind]; [|discriminate|contradiction].
  destruct (ret_items d cfg from tl); cbn [bind]; [discriminate|discriminate|contradiction].
Qed.

Lemma on_returning_total ret from : on_returning d cfg ret from <> Panic.
Proof.
  unfold on_returning. destruct ret as [|r0 rest]; [discriminate|].
  destruct (isk K_StarExpr r0).
  - pose proof (ret_star_total from). destruct (ret_star d cfg from); cbn [bind]; [discriminate|discriminate|contradiction].
  - pose proof (ret_items_total from (r0 :: rest)). destruct (ret_items d cfg from (r0 :: rest)); cbn [bind]; [discriminate|discriminate|contradiction].
Qed.

Theorem impl_read_total t : wf t = true -> impl_read d cfg t <> Panic.
Proof.
  intro Hw. unfold impl_read. destruct (tkind t) eqn:Ek; try discriminate.
  - (* Delete *)
    unfold read_delete. destruct (negb _); [discriminate|].
    assert (Ht : tables_of_list (tkids (fld "TableExprs" t) ++ tkids (fld "Targets" t)) <> Panic).
    { apply tables_of_list_total. apply Forall_wf_app; apply wf_kids, wf_fld; exact Hw. }
    destruct (tables_of_list _); cbn [bind]; [|discriminate|contradiction].
    destruct (negb _); [discriminate|apply on_returning_total].
  - (* Insert *)
    unfold read_insert. destruct (tab_schema d cfg _); [apply on_returning_total|discriminate].
  - (* Select *)
    unfold read_select. pose proof (mca_total t Hw no_ctx) as Hm.
    destruct (mca d cfg t no_ctx); cbn [bind]; [discriminate|discriminate|contradiction].
  - (* Update *)
    unfold read_update. destruct (negb _); [discriminate|].
    assert (H1 : tables_of_list (tkids (fld "TableExprs" t)) <> Panic) by (apply tables_of_list_total, wf_kids, wf_fld; exact Hw).
    assert (H2 : tables_of_list (tkids (fld "From" t)) <> Panic) by (apply tables_of_list_total, wf_kids, wf_fld; exact Hw).
    destruct (tables_of_list (tkids (fld "TableExprs" t))); cbn [bind]; [|discriminate|contradiction].
    destruct (tables_of_list (tkids (fld "From" t))); cbn [bind]; [|discriminate|contradiction].
    destruct (negb _); [discriminate|apply on_returning_total].
Qed.

(** * write path *)

(** an assignment list as the Go types have it: UpdateExpr nodes with a Name *)
Definition assigns_ok (es : list tree) : Prop :=
  Forall (fun e => isk K_UpdateExpr e = true /\ wf e = true) es.

Lemma assign_name e : isk K_UpdateExpr e = true -> wf e = true -> is_nil e = false /\ is_nil (fld "Name" e) = false.
Proof.
  destruct e as [k l cs]. intros Hk Hw. apply isk_eq in Hk. cbn [tkind] in Hk. subst k.
  split; [reflexivity|]. cbn [wf] in Hw. apply andb_true_iff in Hw. destruct Hw as [_ Hn].
  apply negb_true_iff in Hn. exact Hn.
Qed.

Lemma upd_target_total name upd tabs : is_nil name = false -> tabs <> [] -> upd_target d cfg name upd tabs <> Panic.
Proof.
  intros Hn Ht. unfold upd_target. rewrite Hn. destruct (negb _); [discriminate|].
  destruct (first_knowing d cfg upd _); [discriminate|]. destruct tabs; [contradiction|discriminate].
Qed.

Lemma upd_exprs_total pp upd tabs : tabs <> [] -> forall es k, assigns_ok es -> upd_exprs d cfg pp k es upd tabs <> Panic.
Proof.
  intros Ht. induction es as [|e es IH]; intros k Ha; cbn [upd_exprs]; [discriminate|].
  inversion Ha as [|? ? [Hk Hw] Ha']; subst. destruct (assign_name e Hk Hw) as [Hn1 Hn2]. rewrite Hn1.
  pose proof (upd_target_total (fld "Name" e) upd tabs Hn2 Ht) as H1.
  destruct (upd_target d cfg (fld "Name" e) upd tabs); cbn [bind]; [|discriminate|contradiction].
  pose proof (IH (S k) Ha') as H2.
  destruct (upd_exprs d cfg pp (S k) es upd tabs); cbn [bind]; [discriminate|discriminate|contradiction].
Qed.

(** the assignment list below a field that is nil or a node of the list kind *)
Lemma assigns_of_list_node x lk :
  (lk = K_OnDup \/ lk = K_UpdateExprs) -> wf x = true -> nil_or lk x = true -> assigns_ok (tkids x).
Proof.
  intros Hlk Hw Hn. unfold nil_or in Hn. apply orb_true_iff in Hn. destruct x as [k l cs]. destruct Hn as [Hn|Hn].
  - rewrite is_nil_isk in Hn. apply isk_eq in Hn. cbn [tkind] in Hn. subst k. cbn [wf] in Hw. cbn [tkids].
    apply andb_true_iff in Hw. destruct Hw as [_ Hcs]. destruct cs; [constructor|discriminate].
  - apply isk_eq in Hn. cbn [tkind] in Hn. subst k. cbn [tkids].
    assert (H : forallb wf cs = true /\ forallb (isk K_UpdateExpr) cs = true).
    { destruct Hlk; subst lk; cbn [wf] in Hw; apply andb_true_iff in Hw; exact Hw. }
    destruct H as [H1 H2]. apply Forall_forall. intros e He. rewrite forallb_forall in H1, H2. split; [apply H2|apply H1]; exact He.
Qed.

Lemma insert_ondup_ok t : tkind t = K_Insert -> wf t = true -> assigns_ok (tkids (fld "OnDup" t)).
Proof.
  intros Hk Hw. destruct t as [k l cs]. cbn [tkind] in Hk. subst k.
  apply (assigns_of_list_node _ K_OnDup); [left; reflexivity|apply (wf_fld (T K_Insert l cs)); exact Hw|].
  cbn [wf] in Hw. apply andb_true_iff in Hw. exact (proj2 Hw).
Qed.

Lemma update_exprs_ok t : tkind t = K_Update -> wf t = true -> assigns_ok (tkids (fld "Exprs" t)).
Proof.
  intros Hk Hw. destruct t as [k l cs]. cbn [tkind] in Hk. subst k.
  apply (assigns_of_list_node _ K_UpdateExprs); [right; reflexivity|apply (wf_fld (T K_Update l cs)); exact Hw|].
  cbn [wf] in Hw. apply andb_true_iff in Hw. exact (proj2 Hw).
Qed.

Lemma has_tables_nonempty tabs : has_tables d cfg tabs = true -> tabs <> [].
Proof. destruct tabs; [discriminate|discriminate]. Qed.

Theorem impl_write_total t : wf t = true -> impl_write d cfg t <> Panic.
Proof.
  intro Hw. unfold impl_write. destruct (tkind t) eqn:Ek; try discriminate.
  - unfold impl_delete_w. destruct (negb _); [discriminate|].
    assert (Ht : tables_of_list (tkids (fld "TableExprs" t) ++ tkids (fld "Targets" t)) <> Panic).
    { apply tables_of_list_total. apply Forall_wf_app; apply wf_kids, wf_fld; exact Hw. }
    destruct (tables_of_list _); cbn [bind]; [discriminate|discriminate|contradiction].
  - unfold impl_insert. destruct (tab_schema d cfg _); [|discriminate].
    destruct (nonempty (tkids (fld "OnDup" t))); cbn [bind]; [|discriminate].
    pose proof (upd_exprs_total [fnum K_Insert "OnDup"] [(fld "Table" t, tnil)] [(fld "Table" t, tnil)]
                  ltac:(discriminate) (tkids (fld "OnDup" t)) 0 (insert_ondup_ok t Ek Hw)) as H1.
    destruct (upd_exprs d cfg _ 0 _ _ _); cbn [bind]; [discriminate|discriminate|contradiction].
  - unfold impl_update. destruct (negb _); [discriminate|].
    assert (H1 : tables_of_list (tkids (fld "TableExprs" t)) <> Panic) by (apply tables_of_list_total, wf_kids, wf_fld; exact Hw).
    assert (H2 : tables_of_list (tkids (fld "From" t)) <> Panic) by (apply tables_of_list_total, wf_kids, wf_fld; exact Hw).
    destruct (tables_of_list (tkids (fld "TableExprs" t))) as [upd| |]; cbn [bind]; [|discriminate|contradiction].
    destruct (tables_of_list (tkids (fld "From" t))) as [fr| |]; cbn [bind]; [|discriminate|contradiction].
    destruct (has_tables d cfg (upd ++ fr)) eqn:Eh; cbn [negb]; [|discriminate].
    destruct (negb (nonempty upd)); [discriminate|].
    apply upd_exprs_total; [exact (has_tables_nonempty _ Eh)|exact (update_exprs_ok t Ek Hw)].
Qed.

(** * bound values *)

Lemma upd_phmap_total n pm v col : upd_phmap n pm v col <> Panic.
Proof.
  unfold upd_phmap. destruct (ph_prefix _); [|discriminate]. destruct (atoi _); [|discriminate].
  destruct (_ || _); [discriminate|]. destruct (zassoc _ pm); [destruct (bytes_eqb _ col); discriminate|discriminate].
Qed.

Lemma bind_tuple_total n : forall cols vs pm, bind_tuple n cols vs pm <> Panic.
Proof.
  induction cols as [|c cols IH]; intros vs pm; destruct vs as [|v vs]; cbn [bind_tuple]; try discriminate.
  destruct (isk K_SQLVal _).
  - pose proof (upd_phmap_total n pm (snd (unwrap v tt)) c) as H1.
    destruct (upd_phmap n pm _ c); cbn [bind]; [apply IH|discriminate|contradiction].
  - cbn [bind]. apply IH.
Qed.

Lemma bind_rows_total n cols : forall rows pm, bind_rows n cols rows pm <> Panic.
Proof.
  induction rows as [|r rows IH]; intro pm; cbn [bind_rows]; [discriminate|].
  pose proof (bind_tuple_total n cols (tkids r) pm) as H1.
  destruct (bind_tuple n cols (tkids r) pm); cbn [bind]; [apply IH|discriminate|contradiction].
Qed.

Lemma bind_ondup_total n tname : forall es pm, assigns_ok es -> bind_ondup d n tname es pm <> Panic.
Proof.
  induction es as [|e es IH]; intros pm Ha; cbn [bind_ondup]; [discriminate|].
  inversion Ha as [|? ? [Hk Hw] Ha']; subst. destruct (assign_name e Hk Hw) as [Hn1 Hn2]. rewrite Hn1, Hn2.
  destruct (_ && _); [apply IH; exact Ha'|].
  destruct (isk K_SQLVal _).
  - match goal with |- context [upd_phmap n pm ?x ?c] => pose proof (upd_phmap_total n pm x c) as H1; destruct (upd_phmap n pm x c) end;
      cbn [bind]; [apply IH; exact Ha'|discriminate|contradiction].
  - cbn [bind]. apply IH; exact Ha'.
Qed.

Lemma bind_update_exprs_total n upd tabs : tabs <> [] -> forall es pm st, assigns_ok es ->
  bind_update_exprs d cfg n es upd tabs pm st <> Panic.
Proof.
  intro Ht. induction es as [|e es IH]; intros pm st Ha; cbn [bind_update_exprs]; [discriminate|].
  inversion Ha as [|? ? [Hk Hw] Ha']; subst. destruct (assign_name e Hk Hw) as [Hn1 Hn2]. rewrite Hn1.
  destruct (negb (isk K_SQLVal _)); [apply IH; exact Ha'|].
  pose proof (upd_target_total (fld "Name" e) upd tabs Hn2 Ht) as H1.
  destruct (upd_target d cfg (fld "Name" e) upd tabs) as [tg| |]; cbn [bind]; [|discriminate|contradiction].
  match goal with |- context [upd_phmap n pm ?x ?c] => pose proof (upd_phmap_total n pm x c) as H2; destruct (upd_phmap n pm x c) end;
    cbn [bind]; [apply IH; exact Ha'|discriminate|contradiction].
Qed.

Theorem impl_bind_total t n : wf t = true -> impl_bind d cfg t n <> Panic.
Proof.
  intro Hw. unfold impl_bind. destruct (tkind t) eqn:Ek; try discriminate.
  - unfold bind_insert. destruct (tab_schema d cfg _); [|discriminate].
    assert (H1 : (if isk K_Values (fld "Rows" t) then bind_rows n (insert_cols d t r) (tkids (fld "Rows" t)) [] else Ok []) <> Panic).
    { destruct (isk K_Values _); [apply bind_rows_total|discriminate]. }
    destruct (if isk K_Values (fld "Rows" t) then _ else _) as [pm1| |]; cbn [bind]; [|discriminate|contradiction].
    pose proof (bind_ondup_total n (vfc_tab d (tn_name (fld "Table" t))) (tkids (fld "OnDup" t)) pm1 (insert_ondup_ok t Ek Hw)) as H2.
    destruct (bind_ondup d n _ _ pm1); cbn [bind]; [discriminate|discriminate|contradiction].
  - unfold bind_update.
    assert (H1 : tables_of_list (tkids (fld "TableExprs" t)) <> Panic) by (apply tables_of_list_total, wf_kids, wf_fld; exact Hw).
    assert (H2 : tables_of_list (tkids (fld "From" t)) <> Panic) by (apply tables_of_list_total, wf_kids, wf_fld; exact Hw).
    destruct (tables_of_list (tkids (fld "TableExprs" t))) as [upd| |]; cbn [bind]; [|discriminate|contradiction].
    destruct (tables_of_list (tkids (fld "From" t))) as [fr| |]; cbn [bind]; [|discriminate|contradiction].
    destruct (negb (nonempty upd)) eqn:En; cbn [orb]; [discriminate|].
    destruct (has_tables d cfg (upd ++ fr)) eqn:Eh; cbn [negb]; [|discriminate].
    pose proof (bind_update_exprs_total n upd (upd ++ fr) (has_tables_nonempty _ Eh) (tkids (fld "Exprs" t)) [] [] (update_exprs_ok t Ek Hw)) as H3.
    destruct (bind_update_exprs d cfg n _ upd (upd ++ fr) [] []); cbn [bind]; [discriminate|discriminate|contradiction].
Qed.

End T.
