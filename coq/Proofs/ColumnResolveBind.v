(** Bound values (OnBind): the parameters that are encrypted are exactly the placeholders the specification assigns
    to configured columns, each with that column's setting. *)
From Coq Require Import String.
From Coq Require Import List Bool NArith ZArith Arith Lia.
From Acra Require Import Lib.Bytes Lib.Outcome Model.RunColumnResolve.
From Acra Require Import Proofs.CensorTree Proofs.ColumnResolveBase Proofs.ColumnResolveWrite.
Import ListNotations.
Local Open Scope nat_scope.

(** * association lists keyed by integers *)

Definition functional {A} (l : list (Z * A)) : Prop := forall i a b, In (i, a) l -> In (i, b) l -> a = b.

Lemma zassoc_in {A} i (l : list (Z * A)) v : zassoc i l = Some v -> In (i, v) l.
Proof.
  induction l as [|[j w] l IH]; cbn [zassoc]; [discriminate|].
  destruct (Z.eqb_spec i j) as [->|Hne]; [intro H; inversion H; left; reflexivity|intro H; right; exact (IH H)].
Qed.

Lemma zassoc_none {A} i (l : list (Z * A)) : zassoc i l = None -> forall v, ~ In (i, v) l.
Proof.
  induction l as [|[j w] l IH]; cbn [zassoc]; [intros _ v []|].
  destruct (Z.eqb_spec i j) as [->|Hne]; [discriminate|]. intros H v [Hv|Hv]; [inversion Hv; congruence|exact (IH H v Hv)].
Qed.

Lemma zinsert_in {A} i (v : A) l x : In x (zinsert i v l) -> x = (i, v) \/ In x l.
Proof.
  induction l as [|[j w] l IH]; cbn [zinsert]; [intros [<-|[]]; left; reflexivity|].
  destruct (i <? j)%Z; [intros [<-|H]; [left; reflexivity|right; exact H]|].
  destruct (i =? j)%Z; [intros [<-|H]; [left; reflexivity|right; right; exact H]|].
  intros [<-|H]; [right; left; reflexivity|]. destruct (IH H) as [->|H']; [left; reflexivity|right; right; exact H'].
Qed.

Lemma zinsert_self {A} i (v : A) l : In (i, v) (zinsert i v l).
Proof.
  induction l as [|[j w] l IH]; cbn [zinsert]; [left; reflexivity|].
  destruct (i <? j)%Z; [left; reflexivity|]. destruct (i =? j)%Z; [left; reflexivity|right; exact IH].
Qed.

Lemma zinsert_other {A} i (v : A) l j w : j <> i -> In (j, w) l -> In (j, w) (zinsert i v l).
Proof.
  intro Hne. induction l as [|[k u] l IH]; cbn [zinsert]; [intros []|].
  intro Hin. destruct (i <? k)%Z; [right; exact Hin|].
  destruct (Z.eqb_spec i k) as [->|Hk].
  - destruct Hin as [Hin|Hin]; [inversion Hin; congruence|right; exact Hin].
  - destruct Hin as [Hin|Hin]; [left; exact Hin|right; exact (IH Hin)].
Qed.

Lemma zsort_in {A} (l : list (Z * A)) : functional l -> forall i a, In (i, a) (zsort l) <-> In (i, a) l.
Proof.
  induction l as [|[j w] l IH]; intros Hf i a; [reflexivity|].
  assert (Hf' : functional l) by (intros k x y Hx Hy; apply (Hf k x y); right; assumption).
  unfold zsort. cbn [fold_right fst snd]. fold (zsort l). split.
  - intro H. apply zinsert_in in H. destruct H as [H|H]; [left; symmetry; exact H|right; apply (IH Hf'); exact H].
  - intros [H|H].
    + inversion H; subst. apply zinsert_self.
    + destruct (Z.eq_dec i j) as [->|Hne].
      * assert (a = w) by (apply (Hf j a w); [right; exact H|left; reflexivity]). subst. apply zinsert_self.
      * apply zinsert_other; [exact Hne|apply (IH Hf'); exact H].
Qed.

(** * updatePlaceholderMap *)

Lemma upd_phmap_spec n pm x c pm' :
  upd_phmap n pm x c = Ok pm' -> functional pm ->
  functional pm' /\
  (forall j c', In (j, c') pm' <-> In (j, c') pm \/ (ph_index x = Some j /\ c' = c)).
Proof.
  unfold upd_phmap, ph_index. destruct (ph_prefix (sv_type x)) as [p|].
  2:{ intro H; inversion H; subst pm'. intro Hf. split; [exact Hf|]. intros j c'. split; [left; assumption|intros [H1|[H1 _]]; [exact H1|discriminate]]. }
  destruct (atoi (trim_prefix p (sv_val x))) as [z|]; [|discriminate]. cbn [option_map].
  destruct (_ || _); [discriminate|].
  destruct (zassoc (dec64 z) pm) as [c0|] eqn:Ez.
  - destruct (bytes_eqb c0 c) eqn:Ec; [|discriminate]. apply bytes_eqb_eq in Ec. subst c0.
    intro H; inversion H; subst pm'. intro Hf. split; [exact Hf|]. intros j c'. split; [left; assumption|].
    intros [H1|[H1 H2]]; [exact H1|]. inversion H1; subst. apply zassoc_in. exact Ez.
  - intro H; inversion H; subst pm'. intro Hf. split.
    + intros k a b [Ha|Ha] [Hb|Hb].
      * congruence.
      * inversion Ha; subst. exfalso. exact (zassoc_none _ _ Ez b Hb).
      * inversion Hb; subst. exfalso. exact (zassoc_none _ _ Ez a Ha).
      * exact (Hf k a b Ha Hb).
    + intros j c'. split.
      * intros [H1|H1]; [inversion H1; subst; right; split; reflexivity|left; exact H1].
      * intros [H1|[H1 H2]]; [right; exact H1|]. inversion H1; subst. left. reflexivity.
Qed.

(** the placeholder an expression is *)
Definition ph_at (e : tree) : option Z :=
  let x := snd (unwrap e tt) in if isk K_SQLVal x then ph_index x else None.

Lemma direct_value_ph e i : (exists p, direct_value e = Some (p, VPh i)) <-> ph_at e = Some i.
Proof.
  unfold direct_value, direct_value_gen, ph_at. destruct (unwrap e tt) as [p x]. cbn [snd].
  destruct (isk K_SQLVal x); [|split; [intros [? H]; discriminate|discriminate]].
  destruct (ph_index x) as [j|].
  - split; [intros [? H]; inversion H; reflexivity|intro H; inversion H; eexists; reflexivity].
  - split; [intros [? H]; destruct (_ && _); discriminate|discriminate].
Qed.

(** one step: a value expression written to column c *)
Definition ph_step (n : nat) (pm : list (Z * bytes)) (e : tree) (c : bytes) : res (list (Z * bytes)) :=
  let x := snd (unwrap e tt) in if isk K_SQLVal x then upd_phmap n pm x c else Ok pm.

Lemma ph_step_spec n pm e c pm' :
  ph_step n pm e c = Ok pm' -> functional pm ->
  functional pm' /\ (forall j c', In (j, c') pm' <-> In (j, c') pm \/ (ph_at e = Some j /\ c' = c)).
Proof.
  unfold ph_step, ph_at. destruct (isk K_SQLVal (snd (unwrap e tt))).
  - apply upd_phmap_spec.
  - intro H; inversion H; subst. intro Hf. split; [exact Hf|]. intros j c'. split; [left; assumption|intros [H1|[H1 _]]; [exact H1|discriminate]].
Qed.

(** a sequence of steps *)
Fixpoint ph_steps (n : nat) (pm : list (Z * bytes)) (ps : list (tree * bytes)) : res (list (Z * bytes)) :=
  match ps with
  | [] => Ok pm
  | (e, c) :: tl => do pm' <- ph_step n pm e c; ph_steps n pm' tl
  end.

Lemma ph_steps_spec n : forall ps pm pm',
  ph_steps n pm ps = Ok pm' -> functional pm ->
  functional pm' /\
  (forall j c', In (j, c') pm' <-> In (j, c') pm \/ exists e, In (e, c') ps /\ ph_at e = Some j).
Proof.
  induction ps as [|[e c] ps IH]; intros pm pm' H Hf; cbn [ph_steps] in H.
  - inversion H; subst. split; [exact Hf|]. intros j c'. split; [left; assumption|intros [H1|[e [[] _]]]; exact H1].
  - destruct (ph_step n pm e c) as [pm1| |] eqn:E1; cbn [bind] in H; try discriminate.
    destruct (ph_step_spec _ _ _ _ _ E1 Hf) as [Hf1 H1]. destruct (IH pm1 pm' H Hf1) as [Hf2 H2].
    split; [exact Hf2|]. intros j c'. rewrite H2, H1. split.
    + intros [[Hin|[Hp Hc]]|[e' [Hin Hp]]].
      * left; exact Hin.
      * right. exists e. subst c'. split; [left; reflexivity|exact Hp].
      * right. exists e'. split; [right; exact Hin|exact Hp].
    + intros [Hin|[e' [[Hin|Hin] Hp]]].
      * left; left; exact Hin.
      * inversion Hin; subst. left; right. split; [exact Hp|reflexivity].
      * right. exists e'. split; [exact Hin|exact Hp].
Qed.

Lemma ph_steps_app n a b pm : ph_steps n pm (a ++ b) = do pm' <- ph_steps n pm a; ph_steps n pm' b.
Proof.
  revert pm. induction a as [|[e c] a IH]; intro pm; cbn [app ph_steps bind]; [reflexivity|].
  destruct (ph_step n pm e c); cbn [bind]; [apply IH|reflexivity|reflexivity].
Qed.

Lemma zsort_sound {A} (l : list (Z * A)) x : In x (zsort l) -> In x l.
Proof.
  induction l as [|[j w] l IH]; [intros []|]. unfold zsort. cbn [fold_right fst snd]. fold (zsort l).
  intro H. apply zinsert_in in H. destruct H as [->|H]; [left; reflexivity|right; exact (IH H)].
Qed.

Lemma zsort_covers {A} (l : list (Z * A)) i a : In (i, a) l -> exists b, In (i, b) (zsort l).
Proof.
  induction l as [|[j w] l IH]; [intros []|]. unfold zsort. cbn [fold_right fst snd]. fold (zsort l).
  intros [H|H].
  - inversion H; subst. exists a. apply zinsert_self.
  - destruct (IH H) as [b Hb]. destruct (Z.eq_dec i j) as [->|Hne].
    + exists w. apply zinsert_self.
    + exists b. apply zinsert_other; [exact Hne|exact Hb].
Qed.

Section B.
Variable d : dialect.
Variable cfg : rcfg.

(** * INSERT *)

Lemma bind_tuple_steps n : forall cols vs pm, bind_tuple n cols vs pm = ph_steps n pm (combine vs cols).
Proof.
  induction cols as [|c cols IH]; intros vs pm; destruct vs as [|v vs]; try reflexivity.
  cbn [bind_tuple combine ph_steps]. unfold ph_step.
  destruct (isk K_SQLVal _); [destruct (upd_phmap n pm _ c); cbn [bind]; [apply IH|reflexivity|reflexivity]|cbn [bind]; apply IH].
Qed.

Definition row_pairs (cols : list bytes) (rows : list tree) : list (tree * bytes) :=
  flat_map (fun r => combine (tkids r) cols) rows.

Lemma bind_rows_steps n cols : forall rows pm, bind_rows n cols rows pm = ph_steps n pm (row_pairs cols rows).
Proof.
  induction rows as [|r rows IH]; intro pm; [reflexivity|].
  cbn [bind_rows row_pairs flat_map]. rewrite ph_steps_app, bind_tuple_steps.
  destruct (ph_steps n pm (combine (tkids r) cols)); cbn [bind]; [apply IH|reflexivity|reflexivity].
Qed.

Definition ondup_skip (tname : bytes) (e : tree) : bool :=
  let q := fld "Qualifier" (fld "Name" e) in negb (tn_empty q) && negb (bytes_eqb (vfc_tab d (tn_name q)) tname).

Definition ondup_pairs (tname : bytes) (es : list tree) : list (tree * bytes) :=
  flat_map (fun e => if ondup_skip tname e then [] else [(fld "Expr" e, vfc_col d (fld "Name" (fld "Name" e)))]) es.

Lemma bind_ondup_steps n tname : forall es pm pm',
  bind_ondup d n tname es pm = Ok pm' -> ph_steps n pm (ondup_pairs tname es) = Ok pm'.
Proof.
  induction es as [|e es IH]; intros pm pm' H; cbn [bind_ondup] in H; [exact H|].
  destruct (is_nil e); [discriminate|]. destruct (is_nil (fld "Name" e)); [discriminate|].
  cbn [ondup_pairs flat_map]. fold (ondup_pairs tname es). unfold ondup_skip at 1.
  destruct (negb (tn_empty (fld "Qualifier" (fld "Name" e))) && negb (bytes_eqb (vfc_tab d (tn_name (fld "Qualifier" (fld "Name" e)))) tname)).
  - cbn [app]. exact (IH pm pm' H).
  - cbn [app ph_steps]. unfold ph_step.
    destruct (isk K_SQLVal _).
    + destruct (upd_phmap n pm _ _) as [pm1| |]; cbn [bind] in H |- *; [exact (IH pm1 pm' H)|discriminate|discriminate].
    + cbn [bind] in H |- *. exact (IH pm pm' H).
Qed.

Lemma in_combine_nth {A B} (l1 : list A) (l2 : list B) x y :
  In (x, y) (combine l1 l2) <-> exists j, nth_error l1 j = Some x /\ nth_error l2 j = Some y.
Proof.
  revert l2. induction l1 as [|a l1 IH]; intros [|b l2]; cbn [combine].
  - split; [intros []|intros [j [H _]]; destruct j; discriminate].
  - split; [intros []|intros [j [H _]]; destruct j; discriminate].
  - split; [intros []|intros [j [_ H]]; destruct j; discriminate].
  - cbn [In]. split.
    + intros [H|H]; [inversion H; subst; exists 0; split; reflexivity|].
      apply IH in H. destruct H as [j [H1 H2]]. exists (S j); split; assumption.
    + intros [[|j] [H1 H2]]; [cbn in H1, H2; inversion H1; inversion H2; left; reflexivity|].
      right. apply IH. exists j; split; assumption.
Qed.

Lemma in_mapi_nth {A B} (f : nat -> A -> B) l y : In y (mapi f l) <-> exists j x, nth_error l j = Some x /\ y = f j x.
Proof.
  unfold mapi. assert (G : forall i0, In y (mapi_from i0 f l) <-> exists j x, nth_error l j = Some x /\ y = f (i0 + j) x).
  { induction l as [|a l IH]; intro i0; cbn [mapi_from].
    - split; [intros []|intros [j [x [H _]]]; destruct j; discriminate].
    - cbn [In]. split.
      + intros [<-|H]; [exists 0, a; rewrite Nat.add_0_r; split; reflexivity|].
        apply (IH (S i0)) in H. destruct H as [j [x [H1 H2]]]. exists (S j), x. rewrite Nat.add_succ_r. split; assumption.
      + intros [[|j] [x [H1 H2]]]; [cbn in H1; inversion H1; subst; rewrite Nat.add_0_r; left; reflexivity|].
        right. apply (IH (S i0)). exists j, x. rewrite Nat.add_succ_r in H2. split; assumption. }
  apply (G 0).
Qed.

Lemma ph_of_in (vp : vpos) i sid :
  In (i, sid) (ph_of cfg vp) <-> setting_id cfg (snd vp) = Some sid /\ ph_at (snd (fst vp)) = Some i.
Proof.
  destruct vp as [[p e] tc]. cbn [fst snd]. unfold ph_of.
  destruct (setting_id cfg tc) as [s0|]; [|split; [intros []|intros [Hx _]; discriminate]].
  destruct (direct_value e) as [[rp vf]|] eqn:Ed.
  - destruct vf as [|j].
    + split; [intros []|]. intros [_ Hp]. apply direct_value_ph in Hp. destruct Hp as [p' Hp]. rewrite Ed in Hp. discriminate.
    + split.
      * intros [Hx|[]]. inversion Hx; subst. split; [reflexivity|]. apply direct_value_ph. exists rp. exact Ed.
      * intros [Hs Hp]. apply direct_value_ph in Hp. destruct Hp as [p' Hp]. rewrite Ed in Hp.
        inversion Hp; subst. inversion Hs; subst. left; reflexivity.
  - split; [intros []|]. intros [_ Hp]. apply direct_value_ph in Hp. destruct Hp as [p' Hp]. rewrite Ed in Hp. discriminate.
Qed.

(** VALUES rows: the (value, column) pairs are the positions of the specification *)
Lemma row_pairs_positions s tbl cols fr rows (P : tree -> Prop) sid :
  get_schema cfg tbl = Some s ->
  (exists e c, In (e, c) (row_pairs cols rows) /\ P e /\ col_setting s c = Some sid) <->
  (exists vp : vpos,
      In vp (concat (mapi (fun i tup => mapi (fun j v => ([fr; i; j], v, option_map (fun c => (tbl, c)) (nth_error cols j))) (tkids tup)) rows))
      /\ setting_id cfg (snd vp) = Some sid /\ P (snd (fst vp))).
Proof.
  intro Hs. split.
  - intros [e [c [Hin [Hp Hc]]]]. unfold row_pairs in Hin. apply in_flat_map in Hin. destruct Hin as [r [Hr Hin]].
    apply in_combine_nth in Hin. destruct Hin as [j [Hj Hcj]].
    apply In_nth_error in Hr. destruct Hr as [i Hi].
    exists ([fr; i; j], e, Some (tbl, c)). split.
    + apply in_concat. exists (mapi (fun j v => ([fr; i; j], v, option_map (fun c => (tbl, c)) (nth_error cols j))) (tkids r)). split.
      * apply in_mapi_nth. exists i, r. split; [exact Hi|reflexivity].
      * apply in_mapi_nth. exists j, e. split; [exact Hj|]. rewrite Hcj. reflexivity.
    + cbn [fst snd]. split; [rewrite (setting_id_schema cfg tbl c s Hs); exact Hc|exact Hp].
  - intros [vp [Hin [Hset Hp]]]. apply in_concat in Hin. destruct Hin as [row [Hrow Hvp]].
    apply in_mapi_nth in Hrow. destruct Hrow as [i [r [Hi ->]]].
    apply in_mapi_nth in Hvp. destruct Hvp as [j [v [Hj ->]]]. cbn [fst snd] in *.
    destruct (nth_error cols j) as [c|] eqn:Ec; cbn [option_map] in Hset; [|discriminate].
    rewrite (setting_id_schema cfg tbl c s Hs) in Hset.
    exists v, c. split; [|split; assumption].
    unfold row_pairs. apply in_flat_map. exists r. split; [exact (nth_error_In _ _ Hi)|].
    apply in_combine_nth. exists j. split; assumption.
Qed.

(** ON DUPLICATE KEY UPDATE *)
Lemma ondup_pairs_positions s tbl pp od (P : tree -> Prop) sid :
  get_schema cfg tbl = Some s ->
  (exists e c, In (e, c) (ondup_pairs tbl od) /\ P e /\ col_setting s c = Some sid) <->
  (exists vp : vpos, In vp (assign_positions d cfg pp od [(tbl, SBase tbl)] [(tbl, SBase tbl)])
      /\ setting_id cfg (snd vp) = Some sid /\ P (snd (fst vp))).
Proof.
  intro Hs.
  assert (Htarget : forall e, setting_id cfg (target d cfg [(tbl, SBase tbl)] [(tbl, SBase tbl)] (fld "Name" e)) = Some sid <->
                     (ondup_skip tbl e = false /\ col_setting s (vfc_col d (fld "Name" (fld "Name" e))) = Some sid)).
  { intro e. unfold target, ondup_skip, ref_qual, ref_col. rewrite (vfc_tab_empty d).
    fold (tn_empty (fld "Qualifier" (fld "Name" e))). cbn [base_entries flat_map snd fst app filter find].
    set (c := vfc_col d (fld "Name" (fld "Name" e))).
    destruct (tn_empty (fld "Qualifier" (fld "Name" e))); cbn [negb andb].
    - unfold knows. rewrite Hs. destruct (knows_col s c) eqn:Ek; cbn [snd fst].
      + rewrite (setting_id_schema cfg tbl c s Hs). split; [intro H; split; [reflexivity|exact H]|intros [_ H]; exact H].
      + split; [discriminate|]. intros [_ H]. rewrite (not_knows_no_setting s c Ek) in H. discriminate.
    - rewrite (bytes_eqb_sym_local tbl).
      destruct (bytes_eqb (vfc_tab d (tn_name (fld "Qualifier" (fld "Name" e)))) tbl); cbn [negb snd fst].
      + rewrite (setting_id_schema cfg tbl c s Hs). split; [intro H; split; [reflexivity|exact H]|intros [_ H]; exact H].
      + split; [discriminate|intros [H _]; discriminate]. }
  unfold assign_positions. split.
  - intros [e' [c [Hin [Hp Hc]]]]. unfold ondup_pairs in Hin. apply in_flat_map in Hin. destruct Hin as [e [He Hin]].
    destruct (ondup_skip tbl e) eqn:Esk; [destruct Hin|]. destruct Hin as [Hin|[]]. inversion Hin; subst e' c.
    apply In_nth_error in He. destruct He as [k Hk].
    exists (pp ++ [k; fnum K_UpdateExpr "Expr"], fld "Expr" e, target d cfg [(tbl, SBase tbl)] [(tbl, SBase tbl)] (fld "Name" e)).
    split; [apply in_mapi_nth; exists k, e; split; [exact Hk|reflexivity]|]. cbn [fst snd].
    split; [apply Htarget; split; assumption|exact Hp].
  - intros [vp [Hin [Hset Hp]]]. apply in_mapi_nth in Hin. destruct Hin as [k [e [Hk ->]]]. cbn [fst snd] in *.
    apply Htarget in Hset. destruct Hset as [Hsk Hc].
    exists (fld "Expr" e), (vfc_col d (fld "Name" (fld "Name" e))). split; [|split; assumption].
    unfold ondup_pairs. apply in_flat_map. exists e. split; [exact (nth_error_In _ _ Hk)|]. rewrite Hsk. left; reflexivity.
Qed.

Theorem bind_insert_spec t n l :
  tkind t = K_Insert ->
  bind_insert d cfg t n = Ok l ->
  (forall i sid, In (i, sid) l -> In (i, sid) (spec_phs_gen d cfg false t)) /\
  (forall i sid, In (i, sid) (spec_phs_gen d cfg false t) -> exists sid', In (i, sid') l).
Proof.
  unfold bind_insert, tab_schema. set (table := fld "Table" t). set (tbl := vfc_tab d (tn_name table)).
  intros Hkind H.
  assert (Hpos : positions d cfg false t = insert_positions d cfg false t) by (unfold positions; rewrite Hkind; reflexivity).
  assert (Hk : forall i sid, In (i, sid) (spec_phs_gen d cfg false t) <->
                 exists vp : vpos, In vp (insert_positions d cfg false t) /\ setting_id cfg (snd vp) = Some sid /\ ph_at (snd (fst vp)) = Some i).
  { intros i sid. unfold spec_phs_gen. rewrite Hpos, in_flat_map. split.
    - intros [vp [Hv1 Hv2]]. exists vp. split; [exact Hv1|]. apply (proj1 (ph_of_in vp i sid)). exact Hv2.
    - intros [vp [Hv1 Hv2]]. exists vp. split; [exact Hv1|]. apply (proj2 (ph_of_in vp i sid)). exact Hv2. }
  destruct (get_schema cfg tbl) as [s|] eqn:Es.
  2:{ inversion H; subst l. split; [intros i sid []|]. intros i sid Hin. exfalso.
      destruct (impl_insert_spec d cfg t [] ltac:(unfold impl_insert, tab_schema; fold table; fold tbl; rewrite Es; reflexivity)) as [_ Hp].
      unfold spec_phs_gen in Hin. rewrite Hpos in Hin. cbn [phs_of flat_map] in Hp. rewrite <- Hp in Hin. exact Hin. }
  set (cols := insert_cols d t s) in *. set (rows := fld "Rows" t) in *.
  assert (H1 : exists pm2, ph_steps n [] ((if isk K_Values rows then row_pairs cols (tkids rows) else []) ++ ondup_pairs tbl (tkids (fld "OnDup" t))) = Ok pm2 /\
                l = zsort (flat_map (fun ic => match col_setting s (snd ic) with Some sid => [(fst ic, sid)] | None => [] end) pm2)).
  { rewrite ph_steps_app.
    destruct (isk K_Values rows).
    - rewrite bind_rows_steps in H. destruct (ph_steps n [] (row_pairs cols (tkids rows))) as [pm1| |]; cbn [bind] in H |- *; try discriminate.
      destruct (bind_ondup d n tbl _ pm1) as [pm2| |] eqn:E2; cbn [bind] in H; try discriminate.
      exists pm2. split; [exact (bind_ondup_steps n tbl _ _ _ E2)|inversion H; reflexivity].
    - cbn [bind ph_steps] in H |- *.
      destruct (bind_ondup d n tbl _ []) as [pm2| |] eqn:E2; cbn [bind] in H; try discriminate.
      exists pm2. split; [exact (bind_ondup_steps n tbl _ _ _ E2)|inversion H; reflexivity]. }
  destruct H1 as [pm2 [Hsteps Hl]]. clear H.
  destruct (ph_steps_spec n _ [] pm2 Hsteps ltac:(intros ? ? ? [])) as [_ Hpm].
  (* the pairs against the positions of the specification *)
  assert (Hpairs : forall i sid,
            (exists e c, In (e, c) ((if isk K_Values rows then row_pairs cols (tkids rows) else []) ++ ondup_pairs tbl (tkids (fld "OnDup" t)))
                         /\ ph_at e = Some i /\ col_setting s c = Some sid)
            <-> In (i, sid) (spec_phs_gen d cfg false t)).
  { intros i sid. rewrite Hk. unfold insert_positions. fold table. fold tbl. fold rows. cbn [andb].
    pose proof (insert_cols_spec d cfg t s Es) as Hcols. fold table in Hcols. fold tbl in Hcols. rewrite <- Hcols. fold cols.
    pose proof (row_pairs_positions s tbl cols (fnum K_Insert "Rows") (tkids rows) (fun e => ph_at e = Some i) sid Es) as HR.
    pose proof (ondup_pairs_positions s tbl [fnum K_Insert "OnDup"] (tkids (fld "OnDup" t)) (fun e => ph_at e = Some i) sid Es) as HD.
    split.
    - intros [e [c [Hin Hrest]]]. apply in_app_or in Hin. destruct Hin as [Hin|Hin].
      + destruct (isk K_Values rows); [|destruct Hin].
        destruct (proj1 HR (ex_intro _ e (ex_intro _ c (conj Hin Hrest)))) as [vp [Hv Hr]].
        exists vp. split; [apply in_or_app; left; exact Hv|exact Hr].
      + destruct (proj1 HD (ex_intro _ e (ex_intro _ c (conj Hin Hrest)))) as [vp [Hv Hr]].
        exists vp. split; [apply in_or_app; right; exact Hv|exact Hr].
    - intros [vp [Hin Hrest]]. apply in_app_or in Hin. destruct Hin as [Hin|Hin].
      + destruct (isk K_Values rows); [|destruct Hin].
        destruct (proj2 HR (ex_intro _ vp (conj Hin Hrest))) as [e [c [He Hr]]].
        exists e, c. split; [apply in_or_app; left; exact He|exact Hr].
      + destruct (proj2 HD (ex_intro _ vp (conj Hin Hrest))) as [e [c [He Hr]]].
        exists e, c. split; [apply in_or_app; right; exact He|exact Hr]. }
  split.
  - intros i sid Hin. subst l. apply zsort_sound in Hin. apply in_flat_map in Hin. destruct Hin as [[j c] [Hjc Hin]]. cbn [fst snd] in Hin.
    destruct (col_setting s c) as [sid0|] eqn:Ec; [|destruct Hin]. destruct Hin as [Hin|[]]. inversion Hin; subst j sid0.
    apply Hpm in Hjc. destruct Hjc as [[]|[e [He Hp]]]. apply Hpairs. exists e, c. auto.
  - intros i sid Hin. apply Hpairs in Hin. destruct Hin as [e [c [He [Hp Hc]]]].
    assert (Hjc : In (i, c) pm2) by (apply Hpm; right; exists e; auto).
    subst l. apply (zsort_covers _ i sid). apply in_flat_map. exists (i, c). split; [exact Hjc|]. cbn [fst snd]. rewrite Hc. left; reflexivity.
Qed.

(** * UPDATE *)

Lemma bind_update_exprs_spec n upd fr usc sc :
  upd <> [] ->
  base_entries usc = alias_map d upd ->
  base_entries sc = alias_map d (upd ++ fr) ->
  NoDup (map fst (alias_map d (upd ++ fr))) ->
  forall es pm st st',
    bind_update_exprs d cfg n es upd (upd ++ fr) pm st = Ok st' ->
    (forall e, In e es -> length (filter (knowsb cfg (ref_col d (fld "Name" e))) (alias_map d upd)) <= 1) ->
    forall i sid, In (i, sid) st' <->
      In (i, sid) st \/ exists e, In e es /\ ph_at (fld "Expr" e) = Some i /\
                                  setting_id cfg (target d cfg usc sc (fld "Name" e)) = Some sid.
Proof.
  intros Hne Hu Hs Hnd. induction es as [|e es IH]; intros pm st st' H Hamb i sid.
  - cbn in H. inversion H; subst. split; [left; assumption|intros [H1|[e [[] _]]]; exact H1].
  - cbn [bind_update_exprs] in H. destruct (is_nil e); [discriminate|].
    destruct (isk K_SQLVal (snd (unwrap (fld "Expr" e) tt))) eqn:Ex; cbn [negb] in H.
    2:{ rewrite (IH pm st st' H (fun e' He' => Hamb e' (or_intror He')) i sid). split.
        - intros [H1|[e' [He' Hr]]]; [left; exact H1|right; exists e'; split; [right; exact He'|exact Hr]].
        - intros [H1|[e' [[<-|He'] [Hp Hr]]]]; [left; exact H1| |right; exists e'; split; [exact He'|split; assumption]].
          unfold ph_at in Hp. rewrite Ex in Hp. discriminate. }
    destruct (upd_target d cfg (fld "Name" e) upd (upd ++ fr)) as [tg| |] eqn:Et; cbn [bind] in H; try discriminate.
    destruct (upd_phmap n pm _ _) as [pm1| |]; cbn [bind] in H; try discriminate.
    destruct (upd_target_spec d cfg _ _ _ usc sc _ Et Hne Hu Hs Hnd (Hamb e (or_introl eq_refl))) as [Hc Hset].
    rewrite (IH pm1 _ st' H (fun e' He' => Hamb e' (or_intror He')) i sid).
    assert (Hhere : In (i, sid) (match fst tg with
                                 | Some s => match col_setting s (snd tg), ph_index (snd (unwrap (fld "Expr" e) tt)) with
                                             | Some sid0, Some i0 => (i0, sid0) :: st
                                             | _, _ => st
                                             end
                                 | None => st
                                 end)
                    <-> In (i, sid) st \/ (ph_at (fld "Expr" e) = Some i /\ setting_id cfg (target d cfg usc sc (fld "Name" e)) = Some sid)).
    { unfold ph_at. rewrite Ex. rewrite <- Hset.
      destruct (fst tg) as [s|]; [|split; [left; assumption|intros [H1|[_ H1]]; [exact H1|discriminate]]].
      destruct (col_setting s (snd tg)) as [sid0|]; [|split; [left; assumption|intros [H1|[_ H1]]; [exact H1|discriminate]]].
      destruct (ph_index _) as [i0|]; [|split; [left; assumption|intros [H1|[H1 _]]; [exact H1|discriminate]]].
      split.
      - intros [H1|H1]; [inversion H1; subst; right; split; reflexivity|left; exact H1].
      - intros [H1|[H1 H2]]; [right; exact H1|inversion H1; inversion H2; subst; left; reflexivity]. }
    rewrite Hhere. split.
    + intros [[H1|H1]|[e' [He' Hr]]].
      * left; exact H1.
      * right. exists e. split; [left; reflexivity|exact H1].
      * right. exists e'. split; [right; exact He'|exact Hr].
    + intros [H1|[e' [[<-|He'] Hr]]].
      * left; left; exact H1.
      * left; right; exact Hr.
      * right. exists e'. split; [exact He'|exact Hr].
Qed.

Theorem bind_update_spec t n l :
  tkind t = K_Update ->
  bind_update d cfg t n = Ok l -> update_regular d cfg t ->
  (forall i sid, In (i, sid) l -> In (i, sid) (spec_phs_gen d cfg false t)) /\
  (forall i sid, In (i, sid) (spec_phs_gen d cfg false t) -> exists sid', In (i, sid') l).
Proof.
  intros Hkind H Hreg. pose proof Hreg as [Hne [Hnd Hamb]].
  assert (Hpos : positions d cfg false t = update_positions d cfg t) by (unfold positions; rewrite Hkind; reflexivity).
  unfold bind_update in H.
  set (te := tkids (fld "TableExprs" t)) in *. set (from := tkids (fld "From" t)) in *. set (es := tkids (fld "Exprs" t)) in *.
  destruct (tables_of_list te) as [upd| |] eqn:Eu; cbn [bind] in H; try discriminate.
  destruct (tables_of_list from) as [fr| |] eqn:Ef; cbn [bind] in H; try discriminate.
  pose proof (tables_scope_list d te upd Eu) as Hu. pose proof (tables_scope_list d from fr Ef) as Hf.
  assert (Hs : base_entries (scope_of_list d (te ++ from)) = alias_map d (upd ++ fr)).
  { rewrite scope_of_list_app, base_entries_app, alias_map_app, Hu, Hf. reflexivity. }
  assert (Hupd : upd <> []). { intro E. subst upd. apply Hne. rewrite Hu. reflexivity. }
  assert (Hnupd : nonempty upd = true) by (destruct upd; [contradiction|reflexivity]).
  rewrite Hnupd in H. cbn [negb orb] in H.
  destruct (has_tables d cfg (upd ++ fr)) eqn:Eh; cbn [negb] in H.
  - destruct (bind_update_exprs d cfg n es upd (upd ++ fr) [] []) as [st| |] eqn:Est; cbn [bind] in H; try discriminate.
    inversion H; subst l. clear H.
    rewrite Hs in Hnd. rewrite Hu in Hamb.
    pose proof (bind_update_exprs_spec n upd fr (scope_of_list d te) (scope_of_list d (te ++ from)) Hupd Hu Hs Hnd es [] [] st Est Hamb) as Hst.
    assert (Hk : forall i sid, In (i, sid) (spec_phs_gen d cfg false t) <-> In (i, sid) st).
    { intros i sid. rewrite (Hst i sid). unfold spec_phs_gen. rewrite Hpos, in_flat_map. unfold update_positions, assign_positions.
      split.
      - intros [vp [Hv Hin]]. apply in_mapi_nth in Hv. destruct Hv as [k [e [Hk ->]]].
        apply (proj1 (ph_of_in _ i sid)) in Hin. cbn [fst snd] in Hin. right. exists e. split; [exact (nth_error_In _ _ Hk)|].
        split; [exact (proj2 Hin)|exact (proj1 Hin)].
      - intros [[]|[e [He [Hp Hset]]]]. apply In_nth_error in He. destruct He as [k Hk].
        eexists. split; [apply in_mapi_nth; exists k, e; split; [exact Hk|reflexivity]|].
        apply (proj2 (ph_of_in _ i sid)). cbn [fst snd]. split; assumption. }
    split.
    + intros i sid Hin. apply Hk. apply zsort_sound. exact Hin.
    + intros i sid Hin. apply Hk in Hin. exact (zsort_covers st i sid Hin).
  - inversion H; subst l. split; [intros i sid []|]. intros i sid Hin. exfalso.
    assert (Hw : impl_update d cfg t = Ok []).
    { unfold impl_update. fold te. fold from.
      assert (Hte : nonempty te = true) by (destruct te; [exfalso; apply Hne; reflexivity|reflexivity]).
      rewrite Hte, Eu. cbn [negb bind]. rewrite Ef. cbn [bind]. rewrite Eh. reflexivity. }
    destruct (impl_update_spec d cfg t [] Hw Hreg) as [_ Hp]. cbn [phs_of flat_map] in Hp.
    unfold spec_phs_gen in Hin. rewrite Hpos, <- Hp in Hin. exact Hin.
Qed.

(** * OnBind *)

Theorem impl_bind_spec t n l :
  impl_bind d cfg t n = Ok l -> write_regular d cfg t ->
  (forall i sid, In (i, sid) l -> In (i, sid) (spec_phs_gen d cfg false t)) /\
  (forall i sid, In (i, sid) (spec_phs_gen d cfg false t) -> exists sid', In (i, sid') l).
Proof.
  unfold impl_bind, write_regular. intros H Hreg.
  destruct (tkind t) eqn:Ek; try (inversion H; subst l; split; [intros i sid []|intros i sid Hin; exfalso;
    unfold spec_phs_gen, positions in Hin; rewrite Ek in Hin; exact Hin]).
  - exact (bind_insert_spec t n l Ek H).
  - exact (bind_update_spec t n l Ek H (Hreg eq_refl)).
Qed.

End B.
