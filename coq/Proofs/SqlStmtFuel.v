(** C13_statements: the fuel [parse] gives itself (80 per token) covers the recursion depth of every printed tree. *)
From Acra Require Import Lib.Bytes Gen.Prec Gen.SqlWords Model.SqlStmt Model.SqlStmtParse
  Proofs.SqlStmtFacts Proofs.SqlStmtEqns.
From Coq Require Import Arith Lia.

Section Fuel.
Variable pg : bool.
Notation len := (@length tok).

Lemma len_lit t v : 1 <= len (lit_toks t v).
Proof. unfold lit_toks. destruct (is_int t); [destruct v as [|c v]; [|destruct (byte_eqb c x_minus)]|]; cbn; lia. Qed.
Lemma len_cmp o : 1 <= len (cmp_toks o). Proof. destruct o; cbn; lia. Qed.
Lemma len_between n : 1 <= len (between_toks n). Proof. destruct n; cbn; lia. Qed.
Lemma len_is s : 1 <= len (is_toks s). Proof. destruct s; cbn; lia. Qed.
Lemma len_jk k : 1 <= len (jk_toks k). Proof. destruct k; cbn; lia. Qed.
Lemma len_ut u : 1 <= len (ut_toks u). Proof. destruct u; cbn; lia. Qed.
Lemma len_col q n : 1 <= len (col_toks pg q n). Proof. unfold col_toks. rewrite app_length. cbn. lia. Qed.
Lemma len_tname q n : 1 <= len (tname_toks pg q n). Proof. unfold tname_toks. rewrite app_length. cbn. lia. Qed.
Lemma len_ctype c : 1 <= len (ctype_toks c). Proof. destruct c as [ty [l|] [s|]]; cbn; lia. Qed.

Definition Le (e : expr) : Prop := need e + 60 <= 80 * len (print pg e).
Definition Lxs (xs : exprs) : Prop := need_exprs xs <= 80 * len (print_exprs pg xs).
Definition Loe (o : oexpr) : Prop := forall pre, need_oexpr o <= 80 * len (print_oexpr pg pre o).
Definition Lws (ws : whens) : Prop := need_whens ws <= 80 * len (print_whens pg ws).
Definition Lse (s : selexpr) : Prop := need_selexpr s + 40 <= 80 * len (print_selexpr pg s).
Definition Lses (xs : selexprs) : Prop := need_selexprs xs <= 80 * len (print_selexprs pg xs).
Definition Lsel (s : sel) : Prop := need_sel s <= 80 * len (print_sel pg s).
Definition Lt (t : texpr) : Prop := need_texpr t + 20 <= 80 * len (print_texpr pg t).
Definition Lts (ts : texprs) : Prop := need_texprs ts <= 80 * len (print_texprs pg ts).
Definition Ljc (c : jcond) : Prop := need_jcond c <= 80 * len (print_jcond pg c).
Definition Los (os : orders) : Prop := forall first, need_orders os <= 80 * len (print_orders pg first os).
Definition Llm (l : lim) : Prop := need_lim l <= 80 * len (print_lim pg l).

Ltac lens := repeat (rewrite app_length || cbn [length]); unfold K in *; try lia.

Theorem need_le_len :
  (forall e, Le e) /\ (forall xs, Lxs xs) /\ (forall o, Loe o) /\ (forall ws, Lws ws) /\ (forall s, Lse s)
  /\ (forall xs, Lses xs) /\ (forall s, Lsel s) /\ (forall t, Lt t) /\ (forall ts, Lts ts) /\ (forall c, Ljc c)
  /\ (forall os, Los os) /\ (forall l, Llm l).
Proof.
  apply ast_mutind; unfold Le, Lxs, Loe, Lws, Lse, Lses, Lsel, Lt, Lts, Ljc, Los, Llm; intros.
  - rewrite print_EAnd, need_EAnd. lens.
  - rewrite print_EOr, need_EOr. lens.
  - rewrite print_ENot, need_ENot. lens.
  - rewrite print_ECmp, need_ECmp. pose proof (len_cmp op). lens.
  - rewrite print_ECmpEsc, need_ECmpEsc. pose proof (len_cmp op). lens.
  - rewrite print_ERange, need_ERange. pose proof (len_between neg). lens.
  - rewrite print_EIs, need_EIs. pose proof (len_is s). lens.
  - rewrite print_EExists, need_EExists. lens.
  - rewrite print_EBin, need_EBin. lens.
  - rewrite print_EUn, need_EUn. lens.
  - rewrite print_ECollate, need_ECollate. lens.
  - rewrite print_ELit. pose proof (len_lit t v). cbn [need]. lens.
  - cbn [need]. rewrite print_ENull. lens.
  - cbn [need]. rewrite print_EBool. lens.
  - cbn [need]. rewrite print_EDefault. lens.
  - cbn [need]. rewrite print_ECol. pose proof (len_col q n). lens.
  - rewrite print_EParen, need_EParen. lens.
  - rewrite print_ETuple, need_ETuple. lens.
  - rewrite print_ESubq, need_ESubq. lens.
  - rewrite print_EFunc, need_EFunc. lens.
  - rewrite print_ECase, need_ECase. specialize (H []). specialize (H1 [TW W_else]). lens.
  - rewrite print_EConvert, need_EConvert. pose proof (len_ctype ty). lens.
  - rewrite print_EConvertUsing, need_EConvertUsing. lens.
  - rewrite print_EInterval, need_EInterval. lens.
  - cbn [need]. rewrite print_EValuesFunc. pose proof (len_col q n). lens.
  - rewrite print_exprs_XNil, need_exprs_XNil. lens.
  - rewrite need_exprs_XCons. destruct xs; [rewrite print_exprs_XCons; rewrite need_exprs_XNil in *|rewrite print_exprs_XCons2]; lens.
  - rewrite need_oexpr_NoE. lia.
  - rewrite print_oexpr_SomeE, need_oexpr_SomeE. lens.
  - rewrite print_whens_WNil, need_whens_WNil. lens.
  - rewrite print_whens_WCons, need_whens_WCons. lens.
  - rewrite print_selexpr_SStar, need_selexpr_SStar. lens.
  - rewrite print_selexpr_SAliased, need_selexpr_SAliased. lens.
  - rewrite print_selexprs_SNil, need_selexprs_SNil. lens.
  - rewrite need_selexprs_SCons. destruct xs; [rewrite print_selexprs_SCons; rewrite need_selexprs_SNil in *|rewrite print_selexprs_SCons2]; lens.
  - rewrite print_sel_Select, need_sel_Select. specialize (H1 [TW W_where]). specialize (H3 [TW W_having]). specialize (H4 true).
    destruct gb; [rewrite need_exprs_XNil in *|]; lens.
  - rewrite print_sel_Union, need_sel_Union. pose proof (len_ut ty). specialize (H1 true). lens.
  - rewrite print_sel_ParenSel, need_sel_ParenSel. lens.
  - rewrite print_texpr_TTable, need_texpr_TTable. pose proof (len_tname q n). lens.
  - rewrite print_texpr_TSubq, need_texpr_TSubq. lens.
  - rewrite print_texpr_TParen, need_texpr_TParen. lens.
  - rewrite print_texpr_TJoin, need_texpr_TJoin. pose proof (len_jk k). lens.
  - rewrite print_texprs_TNil, need_texprs_TNil. lens.
  - rewrite need_texprs_TCons. destruct ts; [rewrite print_texprs_TCons; rewrite need_texprs_TNil in *|rewrite print_texprs_TCons2]; lens.
  - cbn [need_jcond]. lia.
  - rewrite print_jcond_JOn, need_jcond_JOn. lens.
  - cbn [need_jcond]. lia.
  - rewrite need_orders_ONil. lia.
  - rewrite print_orders_OCons, need_orders_OCons. specialize (H0 false). destruct first; lens.
  - rewrite need_lim_LNone. lia.
  - rewrite print_lim_LOnly, need_lim_LOnly. lens.
  - rewrite print_lim_LOffset, need_lim_LOffset. lens.
  - rewrite print_lim_LComma, need_lim_LComma. lens.
  - rewrite need_lim_LAll. lia.
  - rewrite print_lim_LAllOffset, need_lim_LAllOffset. lens.
Qed.
End Fuel.
