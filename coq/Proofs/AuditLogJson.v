(** JSON audit log at the level of the authenticated bytes:
    - what a decoder delivers is well formed ([decode_wf]) and well-formed values survive
      print-and-read-again by the SAME decoder ([decode_to_wire]);
    - hence the verifier recovers exactly the map the writer authenticated ([json_honest_line]) and an
      honest history verifies ([honest_json_run], ratchet invariant [synced] of Proofs/AuditLog.v);
    - tampering: corollary of [tamper_detected_by_next_gen]. *)
From Acra Require Import Lib.Bytes Lib.Outcome Lib.Sha256 Gen.AuditLogConsts Model.AuditLog
  Model.AuditLogJsonNum Model.AuditLogJson
  Proofs.AuditLogCrypto Proofs.AuditLogParse Proofs.AuditLog Proofs.AuditLogJsonMap.
#[local] Arguments sha256 : simpl never.
#[local] Arguments hmac_sha256 : simpl never.
#[local] Arguments render_float : simpl never.
#[local] Arguments parse_float : simpl never.

(** * induction over nested values *)
Section WvInd.
  Variable P : wv -> Prop.
  Hypothesis HNull : P WNull.
  Hypothesis HBool : forall b, P (WBool b).
  Hypothesis HNum : forall l, P (WNum l).
  Hypothesis HStr : forall s, P (WStr s).
  Hypothesis HArr : forall l, Forall P l -> P (WArr l).
  Hypothesis HObj : forall m, Forall (fun kv : bytes * wv => P (snd kv)) m -> P (WObj m).
  Fixpoint wv_ind' (w : wv) : P w :=
    match w with
    | WNull => HNull
    | WBool b => HBool b
    | WNum l => HNum l
    | WStr s => HStr s
    | WArr l =>
        HArr l ((fix go (l : list wv) : Forall P l :=
                   match l with [] => Forall_nil P | x :: r => Forall_cons x (wv_ind' x) (go r) end) l)
    | WObj m =>
        HObj m ((fix go (m : list (bytes * wv)) : Forall (fun kv : bytes * wv => P (snd kv)) m :=
                   match m with
                   | [] => Forall_nil _
                   | (k, x) :: r => Forall_cons (k, x) (wv_ind' x) (go r)
                   end) m)
    end.
End WvInd.

Section JvInd.
  Variable P : jv -> Prop.
  Hypothesis HNull : P JNull.
  Hypothesis HBool : forall b, P (JBool b).
  Hypothesis HNum : forall n, P (JNum n).
  Hypothesis HStr : forall s, P (JStr s).
  Hypothesis HArr : forall l, Forall P l -> P (JArr l).
  Hypothesis HObj : forall m, Forall (fun kv : bytes * jv => P (snd kv)) m -> P (JObj m).
  Fixpoint jv_ind' (v : jv) : P v :=
    match v with
    | JNull => HNull
    | JBool b => HBool b
    | JNum n => HNum n
    | JStr s => HStr s
    | JArr l =>
        HArr l ((fix go (l : list jv) : Forall P l :=
                   match l with [] => Forall_nil P | x :: r => Forall_cons x (jv_ind' x) (go r) end) l)
    | JObj m =>
        HObj m ((fix go (m : list (bytes * jv)) : Forall (fun kv : bytes * jv => P (snd kv)) m :=
                   match m with
                   | [] => Forall_nil _
                   | (k, x) :: r => Forall_cons (k, x) (jv_ind' x) (go r)
                   end) m)
    end.
End JvInd.

(** * well-formed decoded values: the decoder [usenum] reads every number back from its printed form,
    strings are valid UTF-8, maps are sorted *)
Inductive WFV (un : bool) : jv -> Prop :=
| WF_null : WFV un JNull
| WF_bool b : WFV un (JBool b)
| WF_num n : decode_num un (render_num n) = Some n -> WFV un (JNum n)
| WF_str s : sanitize s = s -> WFV un (JStr s)
| WF_arr l : Forall (WFV un) l -> WFV un (JArr l)
| WF_obj m : ssorted m = true -> Forall (fun kv : bytes * jv => sanitize (fst kv) = fst kv /\ WFV un (snd kv)) m ->
             WFV un (JObj m).

Definition WFM (un : bool) (m : list (bytes * jv)) : Prop :=
  ssorted m = true /\ Forall (fun kv : bytes * jv => sanitize (fst kv) = fst kv /\ WFV un (snd kv)) m.

Lemma clean_eq s : clean s = true <-> sanitize s = s.
Proof. unfold clean. apply bytes_eqb_eq. Qed.

(** ** arrays and objects, given facts about the element decoder *)
Lemma dec_list_rt (f : wv -> option jv) (g : jv -> wv) : forall l,
  Forall (fun x => f (g x) = Some x) l -> dec_list f (map g l) = Some l.
Proof.
  induction 1 as [|x l Hx _ IH]; cbn [map dec_list]; [reflexivity|].
  fold (dec_list f). rewrite Hx, IH. reflexivity.
Qed.

Lemma dec_list_prop (f : wv -> option jv) (P : jv -> Prop) : forall l l',
  Forall (fun x => forall v, f x = Some v -> P v) l -> dec_list f l = Some l' -> Forall P l'.
Proof.
  induction l as [|x l IH]; intros l' HF HD; cbn [dec_list] in HD.
  - inversion HD; constructor.
  - fold (dec_list f) in HD. inversion HF as [|? ? Hx HF']; subst.
    destruct (f x) as [a|] eqn:Ea; [|discriminate]. destruct (dec_list f l) as [b|] eqn:Eb; [|discriminate].
    inversion HD; subst. constructor; [apply Hx; reflexivity| apply IH; [exact HF'| reflexivity]].
Qed.

Lemma dec_members_rt (f : wv -> option jv) (g : jv -> wv) (h : bytes -> bytes) : forall m acc,
  Forall (fun kv : bytes * jv => h (fst kv) = fst kv /\ f (g (snd kv)) = Some (snd kv)) m ->
  ssorted (acc ++ m) = true ->
  dec_members f (map (fun kv : bytes * jv => let (k, x) := kv in (h k, g x)) m) acc = Some (acc ++ m).
Proof.
  induction m as [|[k x] m IH]; intros acc HF HS; cbn [map dec_members].
  - rewrite app_nil_r. reflexivity.
  - fold (dec_members f). inversion HF as [|? ? [Hk Hx] HF']; subst. cbn [fst snd] in Hk, Hx.
    rewrite Hk, Hx. rewrite (aset_above k x acc) by (eapply ssorted_app_lt; exact HS).
    rewrite (IH (acc ++ [(k, x)]) HF'); rewrite <- app_assoc; cbn [app]; [reflexivity| exact HS].
Qed.

Lemma dec_members_prop (f : wv -> option jv) (Q : bytes * jv -> Prop) : forall m acc m',
  Forall (fun kv : bytes * wv => forall v, f (snd kv) = Some v -> Q (fst kv, v)) m ->
  Forall Q acc -> ssorted acc = true -> dec_members f m acc = Some m' ->
  Forall Q m' /\ ssorted m' = true.
Proof.
  induction m as [|[k x] m IH]; intros acc m' HF HQ HS HD; cbn [dec_members] in HD.
  - inversion HD; subst. split; assumption.
  - fold (dec_members f) in HD. inversion HF as [|? ? Hx HF']; subst. cbn [fst snd] in Hx.
    destruct (f x) as [a|] eqn:Ea; [|discriminate].
    eapply IH; [exact HF'| | |exact HD].
    + apply Forall_aset; [apply Hx; reflexivity| exact HQ].
    + apply ssorted_aset. exact HS.
Qed.

(** ** what a decoder delivers is well formed *)
Lemma decode_num_wf un lit n : lit_ok un lit = true -> decode_num un lit = Some n ->
  decode_num un (render_num n) = Some n.
Proof.
  unfold lit_ok, decode_num. destruct un; cbn [orb].
  - intros _ [= <-]. reflexivity.
  - unfold float_rt. destruct (parse_float lit) as [b|] eqn:E; [|discriminate].
    intros H [= <-]. cbn [render_num].
    destruct (render_float b) as [s|]; [|discriminate]. destruct (parse_float s) as [b'|]; [|discriminate].
    apply N.eqb_eq in H. subst b'. reflexivity.
Qed.

Lemma decode_wf un : forall w v, w_ok un w = true -> decode un w = Some v -> WFV un v.
Proof.
  induction w as [| b | lit | s | l IH | m IH] using wv_ind'; intros v HO HD; cbn [decode w_ok] in *.
  - inversion HD; constructor.
  - inversion HD; constructor.
  - destruct (decode_num un lit) as [n|] eqn:E; [|discriminate]. inversion HD; subst. constructor.
    eapply decode_num_wf; eassumption.
  - inversion HD; subst. constructor. apply clean_eq. exact HO.
  - destruct (dec_list (decode un) l) as [l'|] eqn:E; [|discriminate]. inversion HD; subst. constructor.
    eapply dec_list_prop; [|exact E].
    rewrite forallb_forall in HO. rewrite Forall_forall in IH |- *. intros x Hx v Hv. exact (IH x Hx v (HO x Hx) Hv).
  - destruct (dec_members (decode un) m []) as [m'|] eqn:E; [|discriminate]. inversion HD; subst.
    destruct (dec_members_prop (decode un) (fun kv => sanitize (fst kv) = fst kv /\ WFV un (snd kv)) m [] m') as [HQ HS];
      [| constructor | reflexivity | exact E | constructor; assumption].
    rewrite forallb_forall in HO. rewrite Forall_forall in IH |- *. intros [k x] Hx v Hv. cbn [fst snd] in *.
    specialize (HO (k, x) Hx). cbn beta iota in HO. apply andb_true_iff in HO as [Hk Hw].
    split; [apply clean_eq; exact Hk| exact (IH (k, x) Hx v Hw Hv)].
Qed.

(** ** … and is read back unchanged from its printed form by the same decoder *)
Lemma decode_to_wire un : forall v, WFV un v -> decode un (to_wire v) = Some v.
Proof.
  induction v as [| b | n | s | l IH | m IH] using jv_ind'; intros HW; cbn [to_wire decode].
  - reflexivity.
  - reflexivity.
  - inversion HW as [| |? Hn| | |]; subst. rewrite Hn. reflexivity.
  - inversion HW as [| | |? Hs| |]; subst. rewrite Hs. reflexivity.
  - inversion HW as [| | | |? Hl|]; subst.
    rewrite (dec_list_rt (decode un) to_wire l); [reflexivity|].
    rewrite Forall_forall in IH, Hl |- *. intros x Hx. exact (IH x Hx (Hl x Hx)).
  - inversion HW as [| | | | |? Hs Hm]; subst.
    rewrite (dec_members_rt (decode un) to_wire sanitize m []); [reflexivity| | exact Hs].
    rewrite Forall_forall in IH, Hm |- *. intros kv Hx. destruct (Hm kv Hx) as [Hk Hv].
    split; [exact Hk| exact (IH kv Hx Hv)].
Qed.

Lemma decode_top_wf un w m : w_ok un w = true -> decode_top un w = Some m -> WFM un m.
Proof.
  intros HO HD. destruct w; cbn [decode_top] in HD; try discriminate.
  - inversion HD; subst. split; [reflexivity| constructor].
  - destruct (decode un (WObj m0)) as [[| | | | |m']|] eqn:E; try discriminate. inversion HD; subst m'.
    pose proof (decode_wf un _ _ HO E) as HW. inversion HW; subst. split; assumption.
Qed.

Lemma decode_top_to_wire un m : WFM un m -> decode_top un (to_wire (JObj m)) = Some m.
Proof.
  intros [HS HF]. pose proof (decode_to_wire un (JObj m) (WF_obj un m HS HF)) as H.
  cbn [to_wire] in H |- *. cbn [decode_top]. rewrite H. reflexivity.
Qed.

(** * the strings the hook adds are plain ASCII *)
Lemma sanitize_ascii s : forallb is_ascii s = true -> sanitize s = s.
Proof.
  unfold sanitize. induction s as [|b s IH]; cbn [forallb sanitize_go]; [reflexivity|].
  intros H. apply andb_true_iff in H as [Hb Hs]. rewrite Hb, (IH Hs). reflexivity.
Qed.

Lemma hexchar_ascii c : hexchar c -> is_ascii c = true.
Proof. revert c. apply (hexchar_all (fun c => is_ascii c = true)). repeat constructor. Qed.

Lemma sanitize_hex bs : sanitize (hex_encode bs) = hex_encode bs.
Proof.
  apply sanitize_ascii. apply forallb_forall. intros c Hc.
  pose proof (hex_encode_chars bs) as H. rewrite Forall_forall in H. apply hexchar_ascii. exact (H c Hc).
Qed.

Lemma WFM_aset un k v m : sanitize k = k -> WFV un v -> WFM un m -> WFM un (aset k v m).
Proof.
  intros Hk Hv [HS HF]. split; [apply ssorted_aset; exact HS|].
  apply Forall_aset; [split; assumption| exact HF].
Qed.

(** * one honest entry: the verifier recovers the authenticated map *)
Lemma is_str_neq (v : option jv) a b : is_str v a = true -> bytes_eqb a b = false -> is_str v b = false.
Proof.
  unfold is_str. destruct v as [[| | |x| |]|]; try discriminate. intros H N.
  apply bytes_eqb_eq in H. subst x. exact N.
Qed.

Lemma json_parse_honest (m : list (bytes * jv)) (agg : bytes) (nc : bool) :
  ssorted m = true -> entry_ok nc m = true ->
  let m1 := aset AL_INTEGRITY_KEY (JStr (hex_encode agg)) m in
  let m2 := if nc then aset AL_CHAIN_KEY (JStr AL_NEW_VALUE) m1 else m1 in
  json_parse_m m2 = POk (mk_parsed (conv_b m) agg nc (json_end_marked m)).
Proof.
  intros HS HE m1 m2. unfold entry_ok in HE. apply andb_true_iff in HE as [HI HC].
  apply negb_true_iff, has_key_false in HI.
  assert (aget AL_INTEGRITY_KEY m2 = Some (JStr (hex_encode agg))) as G.
  { subst m2 m1. destruct nc; rewrite !aget_aset; reflexivity. }
  assert (adel AL_INTEGRITY_KEY m2 = if nc then aset AL_CHAIN_KEY (JStr AL_NEW_VALUE) m else m) as D.
  { apply ssorted_ext.
    - apply ssorted_adel. subst m2 m1. destruct nc; repeat apply ssorted_aset; exact HS.
    - destruct nc; [apply ssorted_aset|]; exact HS.
    - intros k. rewrite aget_adel. subst m2 m1. destruct nc; rewrite !aget_aset.
      + destruct (bytes_eqb k AL_INTEGRITY_KEY) eqn:E1.
        * apply bytes_eqb_eq in E1. subst k. cbn [bytes_eqb]. rewrite HI.
          replace (bytes_eqb AL_INTEGRITY_KEY AL_CHAIN_KEY) with false by reflexivity. reflexivity.
        * reflexivity.
      + destruct (bytes_eqb k AL_INTEGRITY_KEY) eqn:E1; [|reflexivity].
        apply bytes_eqb_eq in E1. subst k. symmetry. exact HI. }
  unfold json_parse_m. rewrite G, hex_decode_encode, D. destruct nc.
  - apply negb_true_iff, has_key_false in HC.
    rewrite aget_aset, bytes_eqb_refl. cbn [is_str]. rewrite bytes_eqb_refl.
    assert (adel AL_CHAIN_KEY (aset AL_CHAIN_KEY (JStr AL_NEW_VALUE) m) = m) as D2.
    { apply ssorted_ext; [apply ssorted_adel, ssorted_aset; exact HS| exact HS|].
      intros k. rewrite aget_adel, aget_aset. destruct (bytes_eqb k AL_CHAIN_KEY) eqn:E; [|reflexivity].
      apply bytes_eqb_eq in E. subst k. symmetry. exact HC. }
    rewrite D2. f_equal. f_equal.
    unfold json_end_marked. rewrite aget_aset, bytes_eqb_refl, HC. reflexivity.
  - apply negb_true_iff in HC. rewrite HC. reflexivity.
Qed.

Lemma json_honest_line un (c : calc) (w : wv) (m : list (bytes * jv)) :
  decode_top un w = Some m -> w_ok un w = true -> entry_ok (first_check c) m = true ->
  let body := conv_b m in
  exists m2, json_post_b un c w = Ok (m2, snd (calc_step c body)) /\
    wline_pres un (WLine (to_wire (JObj m2)))
    = POk (mk_parsed body (fst (fst (calc_step c body))) (first_check c) (json_end_marked m)).
Proof.
  intros HD HO HE body. pose proof (decode_top_wf un w m HO HD) as HW.
  unfold json_post_b. rewrite HD. unfold calc_step. cbv beta iota zeta. fold body.
  eexists. split; [reflexivity|]. cbn [fst snd wline_pres]. unfold json_parse_b.
  rewrite decode_top_to_wire.
  - apply json_parse_honest; [exact (proj1 HW)| exact HE].
  - assert (WFM un (aset AL_INTEGRITY_KEY (JStr (hex_encode (sha256 (calc_mac c body)))) m)) as W1.
    { apply WFM_aset; [reflexivity| constructor; apply sanitize_hex| exact HW]. }
    destruct (first_check c); [|exact W1].
    apply WFM_aset; [reflexivity| constructor; reflexivity| exact W1].
Qed.

(** * the ratchet invariant, independent of the format *)
Lemma honest_vstep K c cv last body e : synced K c cv last ->
  verify_step K (mk_vstate cv last) (mk_parsed body (fst (fst (calc_step c body))) (first_check c) e)
  = inl (mk_vstate (snd (calc_step c body)) (Some e)) /\
  synced K (snd (calc_step c body)) (snd (calc_step c body)) (Some e).
Proof.
  intros (HL & Hs & Hn). split.
  - unfold verify_step. cbn [p_new p_raw p_integ p_end v_last v_calc].
    destruct (first_check c) eqn:F.
    + destruct (Hn eq_refl) as [Hc Hl]. rewrite (not_some_false _ Hl). cbn [andb].
      rewrite <- Hc. unfold calc_step. cbv beta iota zeta. cbn [fst snd]. rewrite bytes_eqb_refl. reflexivity.
    + cbn [andb]. rewrite (Hs eq_refl). unfold calc_step. cbv beta iota zeta. cbn [fst snd]. rewrite bytes_eqb_refl. reflexivity.
  - unfold synced, calc_step. cbn [snd ck cprev first_check]. split; [apply sha256_length|]. split; [reflexivity| discriminate].
Qed.

(** writer state and end mark after a history *)
Fixpoint jstate (un : bool) (c : calc) (evs : list jbev) : calc :=
  match evs with
  | [] => c
  | JBEntry w :: r => match json_post_b un c w with Ok x => jstate un (snd x) r | _ => jstate un c r end
  | JBReset k :: r => jstate un (calc_new k) r
  end.
Fixpoint jlast (un : bool) (last : option bool) (evs : list jbev) : option bool :=
  match evs with
  | [] => last
  | JBEntry w :: r =>
      match decode_top un w with Some m => jlast un (Some (json_end_marked m)) r | None => jlast un last r end
  | JBReset _ :: r => jlast un last r
  end.

Definition wire_lines (outs : list (list (bytes * jv))) : list wline :=
  map (fun m => WLine (to_wire (JObj m))) outs.

Lemma json_post_none un c w : decode_top un w = None -> json_post_b un c w = Err E_JSON.
Proof. intros H. unfold json_post_b. rewrite H. reflexivity. Qed.

Lemma honest_json_run un K : forall evs c cv last,
  wf_jb_evs un K (first_check c) last evs = true -> synced K c cv last ->
  exists st', vrun K (mk_vstate cv last) (map (wline_pres un) (wire_lines (write_json_b un c evs))) = Some st' /\
              v_last st' = jlast un last evs /\
              synced K (jstate un c evs) (v_calc st') (v_last st').
Proof.
  induction evs as [|e evs IH]; intros c cv last HF HS.
  - cbn. eexists. split; [reflexivity|]. split; [reflexivity| exact HS].
  - destruct e as [w|k]; cbn [wf_jb_evs write_json_b jstate jlast] in *.
    + destruct (decode_top un w) as [m|] eqn:ED.
      * apply andb_true_iff in HF as [HF1 HF3]. apply andb_true_iff in HF1 as [HO HE].
        destruct (json_honest_line un c w m ED HO HE) as (m2 & HP & HL). rewrite HP. cbn [fst snd].
        unfold wire_lines. cbn [map vrun]. rewrite HL.
        destruct (honest_vstep K c cv last (conv_b m) (json_end_marked m) HS) as [HV HS']. rewrite HV.
        assert (first_check (snd (calc_step c (conv_b m))) = false) as FC by reflexivity.
        rewrite <- FC in HF3.
        destruct (IH _ _ _ HF3 HS') as (st' & R1 & R2 & R3). exists st'. split; [exact R1|]. split; assumption.
      * rewrite (json_post_none un c w ED). apply (IH c cv last HF HS).
    + apply andb_true_iff in HF as [HF1 HF3]. apply andb_true_iff in HF1 as [HF1 HF2].
      apply bytes_eqb_eq in HF1. subst k. apply negb_true_iff in HF2.
      apply (IH (calc_new K) cv last HF3).
      unfold synced. cbn [calc_new ck cprev first_check]. split; [apply sha256_length|].
      split; [discriminate|]. intros _. split; [reflexivity|]. intros E. rewrite E in HF2. discriminate.
Qed.

(** ** honest_json_verifies, for one decoder on both sides *)
Theorem honest_json_verifies_same (un : bool) (K : bytes) (evs : list jbev) :
  wf_jb_evs un K true None evs = true ->
  verify_json_b un K (wire_lines (write_json_b un (calc_new K) evs)) = VAccept.
Proof.
  intros HF. destruct (honest_json_run un K evs (calc_new K) (calc_new K) None HF (synced_init K)) as (st' & R & _).
  unfold verify_json_b, vinit. eapply vrun_accept. exact R.
Qed.

(** the two sides of the running code decode alike (Gen/AuditLogConsts.v, regenerated from /repo) *)
Lemma json_same_decoder : AL_JSON_WRITER_USENUMBER = AL_JSON_VERIFIER_USENUMBER.
Proof. reflexivity. Qed.

Theorem honest_json_verifies (K : bytes) (evs : list jbev) :
  wf_jb_evs AL_JSON_WRITER_USENUMBER K true None evs = true ->
  json_verifier K (wire_lines (json_writer (calc_new K) evs)) = VAccept.
Proof.
  unfold json_verifier, json_writer. rewrite <- json_same_decoder. apply honest_json_verifies_same.
Qed.

(** * tampering with a JSON log: corollary of the theorem on parsed lines *)
Theorem json_tamper_detected_by_next_same (un : bool) (K : bytes) (evsP : list jbev) (xw yw : wv)
        (my : list (bytes * jv)) (M R : list wline) :
  wf_jb_evs un K true None evsP = true ->
  let c := jstate un (calc_new K) evsP in
  first_check c = false ->
  forall mx c1 my2 c2,
  json_post_b un c xw = Ok (mx, c1) ->
  decode_top un yw = Some my -> w_ok un yw = true -> entry_ok false my = true ->
  json_post_b un c1 yw = Ok (my2, c2) ->
  let outsP := write_json_b un (calc_new K) evsP in
  detected_by (verify_json_b un K (wire_lines outsP ++ M ++ WLine (to_wire (JObj my2)) :: R)) (length outsP + length M)
  \/ (exists st', vrun K (mk_vstate c (jlast un None evsP)) (map (wline_pres un) M) = Some st' /\ v_calc st' = c1)
  \/ sha_collision.
Proof.
  intros HF c HFC mx c1 my2 c2 HX HDY HOY HEY HY outsP.
  destruct (honest_json_run un K evsP (calc_new K) (calc_new K) None HF (synced_init K)) as (st0 & R1 & R2 & (HL & Hs & _)).
  fold c in HL, Hs. specialize (Hs HFC).
  (* x: c1 is the ratchet step of c on the authenticated bytes of x *)
  unfold json_post_b in HX. destruct (decode_top un xw) as [mxd|] eqn:EX; [|discriminate].
  unfold calc_step in HX. cbv beta iota zeta in HX. inversion HX as [[HX1 HX2]]. clear HX HX1.
  assert (c1 = snd (calc_step c (conv_b mxd))) as EC1 by (subst c1; reflexivity).
  (* y: honest line written in state c1 *)
  assert (first_check c1 = false) as FC1 by (subst c1; reflexivity).
  pose proof HEY as HEY'. rewrite <- FC1 in HEY'.
  destruct (json_honest_line un c1 yw my HDY HOY HEY') as (my2' & HP & HLy).
  rewrite HY in HP. inversion HP as [[E1 E2]]. subst my2'. clear HP.
  unfold verify_json_b, vinit. unfold wire_lines at 1. rewrite !map_app, verify_pres_app.
  fold (wire_lines outsP). fold outsP in R1. rewrite R1. cbn [Nat.add map]. rewrite !map_length. rewrite HLy.
  assert (st0 = mk_vstate c (jlast un None evsP)) as E0.
  { destruct st0 as [c0 l0]. cbn in *. subst. reflexivity. }
  rewrite E0. unfold wire_lines. rewrite map_length. fold (wire_lines outsP).
  destruct (tamper_detected_by_next_gen K (mk_vstate c (jlast un None evsP)) (length outsP)
              (map (wline_pres un) M)
              (mk_parsed (conv_b my) (fst (fst (calc_step c1 (conv_b my)))) (first_check c1) (json_end_marked my))
              (map (wline_pres un) R) c (conv_b mxd) (conv_b my)) as [D|[S|C]];
    try reflexivity; try assumption.
  - cbn [p_integ]. clear EC1. subst c1. reflexivity.
  - rewrite map_length in D. left. exact D.
  - right. left. destruct S as (st' & S1 & S2). exists st'. split; [exact S1| exact S2].
  - right. right. exact C.
Qed.

Theorem json_tamper_detected_by_next (K : bytes) (evsP : list jbev) (xw yw : wv)
        (my : list (bytes * jv)) (M R : list wline) :
  wf_jb_evs AL_JSON_WRITER_USENUMBER K true None evsP = true ->
  let un := AL_JSON_WRITER_USENUMBER in
  let c := jstate un (calc_new K) evsP in
  first_check c = false ->
  forall mx c1 my2 c2,
  json_post_b un c xw = Ok (mx, c1) ->
  decode_top un yw = Some my -> w_ok un yw = true -> entry_ok false my = true ->
  json_post_b un c1 yw = Ok (my2, c2) ->
  let outsP := json_writer (calc_new K) evsP in
  detected_by (json_verifier K (wire_lines outsP ++ M ++ WLine (to_wire (JObj my2)) :: R)) (length outsP + length M)
  \/ (exists st', vrun K (mk_vstate c (jlast un None evsP)) (map (wline_pres AL_JSON_VERIFIER_USENUMBER) M) = Some st'
                  /\ v_calc st' = c1)
  \/ sha_collision.
Proof.
  intros HF.
  pose proof (json_tamper_detected_by_next_same AL_JSON_WRITER_USENUMBER K evsP xw yw my M R HF) as H.
  unfold json_verifier, json_writer. rewrite <- json_same_decoder. exact H.
Qed.

(** an edited entry in the place of x, as a JSON line of ANY content: accepted at the successor only if the
    canonical form of ITS field map (integrity member taken out) is the authenticated bytes of x, or SHA-256
    collides *)
Lemma json_parse_raw un w' px : wline_pres un (WLine w') = POk px -> p_new px = false ->
  exists m', decode_top un w' = Some m' /\ p_raw px = conv_b (adel AL_INTEGRITY_KEY m').
Proof.
  cbn [wline_pres]. unfold json_parse_b. destruct (decode_top un w') as [m'|]; [|discriminate].
  unfold json_parse_m. destruct (aget AL_INTEGRITY_KEY m') as [[| | |x| |]|]; try discriminate.
  destruct (hex_decode x) as [integ|]; [|discriminate].
  intros [= <-]. cbn [p_new p_raw]. intros HN. rewrite HN. exists m'. split; reflexivity.
Qed.

Theorem json_edited_entry_detected (un : bool) K st i (w' : wv) (px py : parsed) (R : list pres) c xb yb :
  v_calc st = c -> length (ck c) = 32 ->
  wline_pres un (WLine w') = POk px -> p_new px = false ->
  p_new py = false -> p_raw py = yb -> p_integ py = fst (fst (calc_step (snd (calc_step c xb)) yb)) ->
  detected_by (verify_pres K st i (wline_pres un (WLine w') :: POk py :: R)) (S i)
  \/ (exists m', decode_top un w' = Some m' /\ conv_b (adel AL_INTEGRITY_KEY m') = xb)
  \/ sha_collision.
Proof.
  intros Hc HL HP HNx HN HR HI. rewrite HP.
  destruct (edited_entry_detected K st i px py R c xb yb Hc HL HNx HN HR HI) as [D|[E|C]].
  - left. exact D.
  - right. left. destruct (json_parse_raw un w' px HP HNx) as (m' & D1 & D2). exists m'. split; [exact D1|].
    rewrite <- D2. exact E.
  - right. right. exact C.
Qed.
