(** C19 proofs, part 2: the decision table of the PostgreSQL type-aware processors, for every setting,
    format, reveal function and value; Init validation; row description. *)
From Acra Require Import Lib.Bytes Lib.Outcome Gen.TypedConsts Model.Typed Proofs.TypedInt.
From Coq Require Import ZifyN ZifyNat ZifyBool.
Local Open Scope N_scope.

(** * Specification vocabulary *)

(** [p] encoded as the declared kind in the requested format.  For an integer kind and a [p] that is no
    integer literal of the width the encoders have no encoding and hand [p] through (known finding). *)
Definition typed_repr (k : tykind) (binary : bool) (p : bytes) : bytes :=
  match k with
  | TInt4 | TInt8 =>
      match parse_int (int_bits k) p with
      | Some z => if binary then be_of_int (int_width k) z else p
      | None => p
      end
  | TText => p
  | TBytea => if binary then p else pg_hex p
  end.

(** the stored (unrevealed) bytes as they come back under the ciphertext policy *)
Definition cipher_repr (k : tykind) (binary : bool) (c : bytes) : bytes :=
  match k with TBytea => if binary then c else pg_hex c | _ => c end.

(** the configured default encoded as the kind (bytes columns: the default is given in base64) *)
Definition default_repr (k : tykind) (binary : bool) (d : bytes) : bytes :=
  match k with
  | TBytea => match b64_decode d with Some v => if binary then v else pg_hex v | None => [] end
  | _ => typed_repr k binary d
  end.

(** what PostgreSQL sends for a bytea cell holding [raw] *)
Definition wire_of (binary : bool) (raw : bytes) : bytes := if binary then raw else pg_hex raw.

(** * EncodeOnFail *)
Lemma on_fail_default k s binary (d : bytes) :
  s_policy s = PDefault -> s_default s = Some d -> validate_default k d = true ->
  pg_encode_on_fail k s binary = Ok (Some (default_repr k binary d)).
Proof.
  intros Hp Hd Hv. unfold pg_encode_on_fail. rewrite Hp, Hd.
  unfold pg_encode_default, default_repr, typed_repr. unfold validate_default in Hv.
  destruct k.
  - destruct (parse_int (int_bits TInt4) d); [reflexivity| discriminate].
  - destruct (parse_int (int_bits TInt8) d); [reflexivity| discriminate].
  - reflexivity.
  - destruct (b64_decode d); [reflexivity| discriminate].
Qed.

(** * Encoder processor *)
Lemma encoder_revealed s k binary e (p : bytes) :
  pg_encoder_for (s_type_id s) = Some k -> p <> [] ->
  pg_encoder s binary (mk_cctx true e) p = Ok (typed_repr k binary p).
Proof.
  intros Hk Hp. destruct p as [|b r]; [congruence|].
  unfold pg_encoder. rewrite Hk. lazy beta iota.
  unfold pg_type_encode, typed_repr. cbn [c_decrypted].
  destruct k.
  - destruct (parse_int (int_bits TInt4) (b :: r)); reflexivity.
  - destruct (parse_int (int_bits TInt8) (b :: r)); reflexivity.
  - reflexivity.
  - reflexivity.
Qed.

Lemma encoder_int_literal s k binary c0 (c : bytes) z :
  pg_encoder_for (s_type_id s) = Some k -> is_int_kind k = true ->
  parse_int (int_bits k) c = Some z ->
  pg_encoder s binary c0 c = Ok (typed_repr k binary c).
Proof.
  intros Hk Hi Hz. destruct c as [|b r]; [destruct k; discriminate|].
  unfold pg_encoder. rewrite Hk. lazy beta iota.
  unfold pg_type_encode, typed_repr.
  destruct k; try discriminate; rewrite Hz; reflexivity.
Qed.

Lemma encoder_unrevealed s k binary e (c : bytes) :
  pg_encoder_for (s_type_id s) = Some k -> c <> [] ->
  (is_int_kind k = true -> parse_int (int_bits k) c = None) ->
  pg_encoder s binary (mk_cctx false e) c =
  match pg_encode_on_fail k s binary with
  | Ok (Some v) => Ok v
  | Ok None => Ok (cipher_repr k binary c)
  | Err x => Err x
  | Panic => Panic
  end.
Proof.
  intros Hk Hc Hni. destruct c as [|b r]; [congruence|].
  unfold pg_encoder. rewrite Hk. lazy beta iota.
  unfold pg_type_encode, cipher_repr. cbn [c_decrypted].
  destruct k; cbn [is_int_kind] in Hni.
  - rewrite (Hni eq_refl). destruct (pg_encode_on_fail TInt4 s binary) as [[v|]|x|]; reflexivity.
  - rewrite (Hni eq_refl). destruct (pg_encode_on_fail TInt8 s binary) as [[v|]|x|]; reflexivity.
  - destruct (pg_encode_on_fail TText s binary) as [[v|]|x|]; reflexivity.
  - destruct (pg_encode_on_fail TBytea s binary) as [[v|]|x|]; reflexivity.
Qed.

(** * Decoder processor *)
Lemma decoder_binary s k (stored : bytes) :
  pg_encoder_for (s_type_id s) = Some k ->
  (is_int_kind k = true -> length stored <> 4%nat /\ length stored <> 8%nat) ->
  pg_decoder s true ctx0 stored = Ok (ctx0, stored).
Proof.
  intros Hk Hl. unfold pg_decoder. rewrite Hk. unfold pg_type_decode.
  destruct k; cbn [is_int_kind] in Hl; try reflexivity.
  - destruct (Hl eq_refl) as [H4 H8].
    destruct (Nat.eqb_spec (length stored) 4); [contradiction|].
    destruct (Nat.eqb_spec (length stored) 8); [contradiction|]. reflexivity.
  - destruct (Hl eq_refl) as [H4 H8].
    destruct (Nat.eqb_spec (length stored) 8); [contradiction|]. reflexivity.
Qed.

Lemma decoder_text_hex s k (raw : bytes) :
  pg_encoder_for (s_type_id s) = Some k -> s_binop s = true ->
  pg_decoder s false ctx0 (pg_hex raw) = Ok (mk_cctx false (Some (pg_hex raw)), raw).
Proof.
  intros Hk Hb. unfold pg_decoder. rewrite Hk. unfold pg_type_decode. rewrite Hb.
  unfold decode_escaped_step. rewrite decode_escaped_pg_hex. reflexivity.
Qed.

(** the decoder hands the reveal step exactly the stored bytes, with the context not marked decrypted *)
Lemma decoder_wire s k binary (raw : bytes) :
  pg_encoder_for (s_type_id s) = Some k -> s_binop s = true ->
  (is_int_kind k = true -> binary = true -> length raw <> 4%nat /\ length raw <> 8%nat) ->
  exists e, pg_decoder s binary ctx0 (wire_of binary raw) = Ok (mk_cctx false e, raw).
Proof.
  intros Hk Hb Hl. destruct binary; unfold wire_of.
  - exists None. apply (decoder_binary s k raw Hk). intros Hi. apply Hl; [exact Hi| reflexivity].
  - eexists. apply (decoder_text_hex s k raw Hk Hb).
Qed.

(** * The cell: decoder, any reveal function, encoder *)
Lemma cell_unfold s binary reveal (stored : bytes) c0 (seen : bytes) :
  pg_decoder s binary ctx0 stored = Ok (c0, seen) ->
  pg_cell s binary reveal stored =
  match reveal seen with
  | Some p => pg_encoder s binary (mk_cctx true (c_encoded c0)) p
  | None => pg_encoder s binary c0 seen
  end.
Proof. intros H. unfold pg_cell. rewrite H. reflexivity. Qed.

Lemma described_oid_typed s k db_oid :
  pg_encoder_for (s_type_id s) = Some k -> s_type_aware s = true ->
  pg_described_oid s db_oid = s_type_id s.
Proof.
  unfold pg_encoder_for, encoder_for, pg_described_oid. intros Hk Ha. rewrite Ha.
  destruct (lookup (s_type_id s) PG_ENCODERS); [reflexivity| discriminate].
Qed.

Theorem typed_outcome_matrix_pg s k binary (reveal : bytes -> option bytes) (raw : bytes) db_oid :
  pg_encoder_for (s_type_id s) = Some k ->
  s_binop s = true -> s_type_aware s = true ->
  raw <> [] ->
  (is_int_kind k = true -> binary = true -> length raw <> 4%nat /\ length raw <> 8%nat) ->
  match reveal raw with
  | Some p =>
      (* (a) revealed: the original encoded as the declared type *)
      p <> [] -> pg_cell s binary reveal (wire_of binary raw) = Ok (typed_repr k binary p)
  | None =>
      (is_int_kind k = true -> parse_int (int_bits k) raw = None) ->
      match s_policy s with
      | PEmpty | PCiphertext =>
          (* (b) the stored ciphertext *)
          pg_cell s binary reveal (wire_of binary raw) = Ok (cipher_repr k binary raw)
      | PDefault =>
          match s_default s with
          | Some d =>
              (* (c) the validated default encoded as the type *)
              validate_default k d = true ->
              pg_cell s binary reveal (wire_of binary raw) = Ok (default_repr k binary d)
          | None => pg_cell s binary reveal (wire_of binary raw) = Ok (cipher_repr k binary raw)
          end
      | PError =>
          (* (d) an encoding error: error response for the statement *)
          pg_cell s binary reveal (wire_of binary raw) = Err E_ENCODING
      | PBad => pg_cell s binary reveal (wire_of binary raw) = Err E_GENERIC
      end
  end
  /\ pg_described_oid s db_oid = s_type_id s.
Proof.
  intros Hk Hb Ha Hraw Hl. split; [|apply (described_oid_typed s k db_oid Hk Ha)].
  destruct (decoder_wire s k binary raw Hk Hb Hl) as [e Hd].
  rewrite (cell_unfold s binary reveal _ _ _ Hd).
  destruct (reveal raw) as [p|].
  - intros Hp. cbn [c_encoded]. apply encoder_revealed; assumption.
  - intros Hni. rewrite (encoder_unrevealed s k binary e raw Hk Hraw Hni).
    destruct (s_policy s) eqn:Ep.
    + unfold pg_encode_on_fail. rewrite Ep. reflexivity.
    + unfold pg_encode_on_fail. rewrite Ep. reflexivity.
    + destruct (s_default s) as [d|] eqn:Ed.
      * intros Hv. rewrite (on_fail_default k s binary d Ep Ed Hv). reflexivity.
      * unfold pg_encode_on_fail. rewrite Ep, Ed. reflexivity.
    + unfold pg_encode_on_fail. rewrite Ep. reflexivity.
    + unfold pg_encode_on_fail. rewrite Ep. reflexivity.
Qed.

(** the delivered typed value parses back as the declared integer type *)
Lemma typed_repr_int k (p : bytes) z :
  is_int_kind k = true -> parse_int (int_bits k) p = Some z ->
  typed_repr k false p = p /\
  typed_repr k true p = be_of_int (int_width k) z /\
  length (typed_repr k true p) = int_width k /\
  int_of_be (typed_repr k true p) = z.
Proof.
  intros Hi Hz. pose proof (parse_int_range _ _ _ Hz) as Hr.
  destruct k; try discriminate; unfold typed_repr; rewrite Hz; repeat split;
    try apply be_of_int_length.
  - apply int_of_be_of_int4. change (2 ^ (int_bits TInt4 - 1)) with 2147483648 in Hr. lia.
  - apply int_of_be_of_int8. change (2 ^ (int_bits TInt8 - 1)) with 9223372036854775808 in Hr. lia.
Qed.

(** * Integers: text <-> binary round trips through the real Decode / Encode tables *)
Lemma print_int_nonempty bits z : parse_int bits (print_int z) = Some z -> print_int z <> [].
Proof. intros H E. rewrite E in H. discriminate. Qed.

Theorem int_binary_cell_roundtrip s k c (bs : bytes) :
  pg_encoder_for (s_type_id s) = Some k -> is_int_kind k = true -> length bs = int_width k ->
  exists c' (t : bytes),
    pg_decoder s true c bs = Ok (c', t) /\ t = print_int (int_of_be bs) /\
    parse_int (int_bits k) t = Some (int_of_be bs) /\
    forall c2, pg_encoder s true c2 t = Ok bs.
Proof.
  intros Hk Hi L. exists c, (print_int (int_of_be bs)).
  assert (Hp : parse_int (int_bits k) (print_int (int_of_be bs)) = Some (int_of_be bs)).
  { destruct k; try discriminate; cbn [int_width] in L.
    - apply parse_print_int32, int_of_be_range4, L.
    - apply parse_print_int64, int_of_be_range8, L. }
  split; [|split; [reflexivity|split; [exact Hp|]]].
  - unfold pg_decoder. rewrite Hk. unfold pg_type_decode.
    destruct k; try discriminate; cbn [int_width] in L; rewrite L; reflexivity.
  - intros c2. rewrite (encoder_int_literal s k true c2 _ _ Hk Hi Hp).
    unfold typed_repr. destruct k; try discriminate; rewrite Hp; cbn [int_width] in *.
    + f_equal. apply be_of_int_of_be4, L.
    + f_equal. apply be_of_int_of_be8, L.
Qed.

Theorem int_text_binary_roundtrip k z :
  is_int_kind k = true ->
  (- Z.of_N (2 ^ (int_bits k - 1)) <= z < Z.of_N (2 ^ (int_bits k - 1)))%Z ->
  parse_int (int_bits k) (print_int z) = Some z /\
  int_of_be (be_of_int (int_width k) z) = z /\
  length (be_of_int (int_width k) z) = int_width k /\
  typed_repr k true (print_int z) = be_of_int (int_width k) z /\
  print_int (int_of_be (be_of_int (int_width k) z)) = print_int z.
Proof.
  intros Hi Hr. destruct k; try discriminate.
  - change (2 ^ (int_bits TInt4 - 1)) with 2147483648 in Hr.
    assert (Hp := parse_print_int32 z ltac:(lia)). cbn [int_bits int_width].
    split; [exact Hp|]. split; [apply int_of_be_of_int4; lia|]. split; [apply be_of_int_length|].
    split; [unfold typed_repr; cbn [int_bits]; rewrite Hp; reflexivity|].
    rewrite int_of_be_of_int4 by lia. reflexivity.
  - change (2 ^ (int_bits TInt8 - 1)) with 9223372036854775808 in Hr.
    assert (Hp := parse_print_int64 z ltac:(lia)). cbn [int_bits int_width].
    split; [exact Hp|]. split; [apply int_of_be_of_int8; lia|]. split; [apply be_of_int_length|].
    split; [unfold typed_repr; cbn [int_bits]; rewrite Hp; reflexivity|].
    rewrite int_of_be_of_int8 by lia. reflexivity.
Qed.

(** * Init: type / default / policy validation *)
Lemma bind_ok {A B} (r : res A) (f : A -> res B) v :
  bind r f = Ok v -> exists a, r = Ok a /\ f a = Ok v.
Proof. destruct r; cbn; intros H; try discriminate. eauto. Qed.

Lemma policy_words_ok c :
  lookup c POLICY_WORDS = Some 1 -> c = 0 \/ c = 1 \/ c = 2 \/ c = 3.
Proof.
  unfold POLICY_WORDS. cbn [lookup].
  repeat match goal with |- context [?a =? c] => destruct (N.eqb_spec a c); [subst; intros; try discriminate; auto|] end.
  discriminate.
Qed.

Theorem init_validates encoders type_ids i s :
  init_setting encoders type_ids i = Ok s ->
  s_binop s = true /\ s_type_aware s = true /\
  (s_policy s = PCiphertext \/ s_policy s = PDefault \/ s_policy s = PError) /\
  s_default s = i_default i /\
  forall d, s_default s = Some d ->
    s_policy s = PDefault /\
    exists k, encoder_for encoders (s_type_id s) = Some k /\ validate_default k d = true.
Proof.
  unfold init_setting.
  set (pc := if negb (i_policy i =? 0) then i_policy i else match i_default i with Some _ => 2 | None => 1 end).
  destruct (lookup pc POLICY_WORDS) as [w|] eqn:Ew; [|discriminate].
  destruct (N.eq_dec w 1) as [->|Hw].
  2:{ destruct w as [|[?|?|]]; try discriminate; congruence. }
  intros H.
  apply bind_ok in H as (dt & Hdt & H).
  apply bind_ok in H as (tid & Htid & H).
  apply bind_ok in H as (u & Hdef & H).
  destruct (_ || _) eqn:Emask in H; [|discriminate].
  injection H as <-. cbn [s_binop s_type_aware s_policy s_default s_type_id].
  assert (Hpc : pc = 1 \/ pc = 2 \/ pc = 3).
  { destruct (policy_words_ok pc Ew) as [E|[E|[E|E]]]; auto.
    exfalso. unfold pc in E. destruct (N.eqb_spec (i_policy i) 0) as [E0|E0]; cbn [negb] in E.
    - destruct (i_default i); discriminate.
    - congruence. }
  split; [reflexivity|]. split; [reflexivity|].
  split; [destruct Hpc as [-> | [-> | ->]]; cbn; auto|].
  split; [reflexivity|].
  intros d Hd. rewrite Hd in Hdef.
  destruct (tid =? 0); [discriminate|].
  destruct (N.eqb_spec pc 2) as [E2|E2]; cbn [negb] in Hdef; [|discriminate].
  split; [rewrite E2; reflexivity|].
  unfold encoder_for. destruct (lookup tid encoders) as [c|]; [|discriminate].
  destruct (kind_of_code c) as [k|]; [|discriminate].
  exists k. split; [reflexivity|]. destruct (validate_default k d); [reflexivity| discriminate].
Qed.

(** a default accepted by Init always encodes, in both formats *)
Theorem invalid_default_rejected_at_config_time_pg i s (d : bytes) binary :
  pg_init i = Ok s -> s_default s = Some d ->
  exists k, pg_encoder_for (s_type_id s) = Some k /\
            pg_encode_on_fail k s binary = Ok (Some (default_repr k binary d)) /\
            (is_int_kind k = true -> exists z, parse_int (int_bits k) d = Some z) /\
            (k = TText -> utf8_valid d = true) /\
            (k = TBytea -> exists v, b64_decode d = Some v).
Proof.
  intros Hi Hd. destruct (init_validates _ _ _ _ Hi) as (_ & _ & _ & _ & Hdef).
  destruct (Hdef d Hd) as (Hp & k & Hk & Hv). exists k. split; [exact Hk|].
  split; [apply on_fail_default; assumption|].
  unfold validate_default in Hv. repeat split.
  - intros Hik. destruct k; try discriminate.
    + destruct (parse_int (int_bits TInt4) d) as [z|]; [eauto| discriminate].
    + destruct (parse_int (int_bits TInt8) d) as [z|]; [eauto| discriminate].
  - intros ->. exact Hv.
  - intros ->. destruct (b64_decode d) as [v|]; [eauto| discriminate].
Qed.

(** a rejected default: Init fails (contrapositive, as a computation rule) *)
Theorem init_rejects_invalid_default i k (d : bytes) :
  i_default i = Some d ->
  (forall s, pg_init i = Ok s -> pg_encoder_for (s_type_id s) = Some k) ->
  validate_default k d = false -> forall s, pg_init i <> Ok s.
Proof.
  intros Hd Hk Hv s Hi. destruct (init_validates _ _ _ _ Hi) as (_ & _ & _ & Hsd & Hdef).
  rewrite Hd in Hsd. destruct (Hdef d Hsd) as (_ & k' & Hk' & Hv').
  specialize (Hk s Hi). unfold pg_encoder_for in Hk. rewrite Hk in Hk'. injection Hk' as <-. congruence.
Qed.

(** * never partial: the delivered cell is a whole-value function of ONE source *)
Definition whole_of (x v : bytes) : Prop :=
  v = x \/ v = pg_hex x \/
  exists k z, is_int_kind k = true /\ parse_int (int_bits k) x = Some z /\ v = be_of_int (int_width k) z.

Definition default_of (s : setting) (binary : bool) (v : bytes) : Prop :=
  exists k d, s_default s = Some d /\ v = default_repr k binary d.

Lemma on_fail_some k s binary (v : bytes) :
  pg_encode_on_fail k s binary = Ok (Some v) -> default_of s binary v.
Proof.
  unfold pg_encode_on_fail, default_of. destruct (s_policy s); try discriminate.
  destruct (s_default s) as [d|]; [|discriminate].
  unfold pg_encode_default. intros H. exists k, d. split; [reflexivity|].
  unfold default_repr, typed_repr. destruct k.
  - destruct (parse_int (int_bits TInt4) d); [|discriminate]. injection H as <-. reflexivity.
  - destruct (parse_int (int_bits TInt8) d); [|discriminate]. injection H as <-. reflexivity.
  - injection H as <-. reflexivity.
  - destruct (b64_decode d); [|discriminate]. injection H as <-. reflexivity.
Qed.

Lemma type_encode_whole k s binary c (data v : bytes) :
  pg_type_encode k s binary c data = Ok v -> whole_of data v \/ default_of s binary v.
Proof.
  unfold pg_type_encode.
  assert (Hof : forall (f : bytes -> bytes),
            (forall x, whole_of x (f x)) ->
            (if c_decrypted c then Ok (f data)
             else match pg_encode_on_fail k s binary with
                  | Err e => Err e | Panic => Panic | Ok (Some v0) => Ok v0 | Ok None => Ok (f data) end) = Ok v ->
            whole_of data v \/ default_of s binary v).
  { intros f Hf. destruct (c_decrypted c).
    - intros [= <-]. left. apply Hf.
    - destruct (pg_encode_on_fail k s binary) as [[v0|]|e|] eqn:E; try discriminate.
      + intros [= <-]. right. apply (on_fail_some k s binary v0 E).
      + intros [= <-]. left. apply Hf. }
  destruct k.
  - destruct (parse_int (int_bits TInt4) data) as [z|] eqn:Ez.
    + intros [= <-]. left. destruct binary; [|left; reflexivity].
      right; right. exists TInt4, z. auto.
    + apply (Hof (fun x => x)). intros x. left. reflexivity.
  - destruct (parse_int (int_bits TInt8) data) as [z|] eqn:Ez.
    + intros [= <-]. left. destruct binary; [|left; reflexivity].
      right; right. exists TInt8, z. auto.
    + apply (Hof (fun x => x)). intros x. left. reflexivity.
  - apply (Hof (fun x => x)). intros x. left. reflexivity.
  - apply (Hof (fun x => if binary then x else pg_hex x)). intros x.
    destruct binary; [left; reflexivity| right; left; reflexivity].
Qed.

Lemma encoder_whole s binary c (data v : bytes) :
  pg_encoder s binary c data = Ok v ->
  whole_of data v \/ default_of s binary v \/ (c_decrypted c = false /\ c_encoded c = Some v).
Proof.
  unfold pg_encoder. destruct data as [|b r].
  - intros [= <-]. left. left. reflexivity.
  - destruct (pg_encoder_for (s_type_id s)) as [k|].
    + intros H. destruct (type_encode_whole _ _ _ _ _ _ H); auto.
    + destruct (c_decrypted c) eqn:Ed.
      * intros H. destruct (type_encode_whole _ _ _ _ _ _ H); auto.
      * destruct (c_encoded c) as [e|]; intros [= <-]; [right; right; auto| left; left; reflexivity].
Qed.

Lemma decode_step_ctx c (data : bytes) c' (d : bytes) :
  decode_escaped_step c data = Ok (c', d) ->
  c_decrypted c' = c_decrypted c /\ (c_encoded c' = c_encoded c \/ c_encoded c' = Some data).
Proof.
  unfold decode_escaped_step. destruct (decode_escaped data) as [o|e|]; try discriminate.
  - intros [= <- <-]. cbn. auto.
  - destruct (e =? E_OCTAL); [|discriminate]. intros [= <- <-]. auto.
Qed.

Lemma decoder_ctx s binary c (data : bytes) c' (d : bytes) :
  pg_decoder s binary c data = Ok (c', d) ->
  c_decrypted c' = c_decrypted c /\ (c_encoded c' = c_encoded c \/ c_encoded c' = Some data).
Proof.
  unfold pg_decoder, pg_type_decode.
  destruct (pg_encoder_for (s_type_id s)) as [k|].
  - destruct binary.
    + destruct k; repeat match goal with |- context [if ?b then _ else _] => destruct b end;
        intros [= <- <-]; auto.
    + destruct (s_binop s); [apply decode_step_ctx| intros [= <- <-]; auto].
  - destruct (s_binop s); [apply decode_step_ctx| intros [= <- <-]; auto].
Qed.

(** For ALL settings (typed or not, validated or not), formats, reveal functions and cells: a delivered
    value is derived as a whole from exactly one source — the revealed plaintext, or (only when nothing was
    revealed) the decoded / stored ciphertext, or the configured default. *)
Theorem never_partial_pg s binary (reveal : bytes -> option bytes) (stored v : bytes) :
  pg_cell s binary reveal stored = Ok v ->
  exists c0 (seen : bytes),
    pg_decoder s binary ctx0 stored = Ok (c0, seen) /\
    match reveal seen with
    | Some p => whole_of p v \/ default_of s binary v
    | None => whole_of seen v \/ default_of s binary v \/ v = stored
    end.
Proof.
  intros H. unfold pg_cell in H.
  destruct (pg_decoder s binary ctx0 stored) as [[c0 seen]| |] eqn:Ed; try discriminate.
  cbn [bind] in H. exists c0, seen. split; [reflexivity|].
  destruct (decoder_ctx _ _ _ _ _ _ Ed) as [Hdec Henc]. cbn in Hdec, Henc.
  destruct (reveal seen) as [p|].
  - destruct (encoder_whole _ _ _ _ _ H) as [Hw|[Hw|[Hf _]]]; auto. discriminate.
  - destruct (encoder_whole _ _ _ _ _ H) as [Hw|[Hw|[_ He]]]; auto.
    destruct Henc as [E|E]; rewrite E in He; [discriminate|]. injection He as <-. auto.
Qed.

(** * Witnesses of the two known findings (replayed on the implementation by the harness oracle) *)
Definition s_int4_error : setting := mk_setting 23 PError None true true.
Definition lit_2_31 : bytes := Eval vm_compute in print_int 2147483648%Z.

Lemma owner_nonint_plaintext_refuted :
  exists (s : setting) (raw p : bytes),
    pg_encoder_for (s_type_id s) = Some TInt4 /\ s_policy s = PError /\
    parse_int 32 p = None /\
    pg_cell s true (fun _ => Some p) raw = Ok p /\ length p <> 4%nat /\
    pg_described_oid s 17 = 23.
Proof. exists s_int4_error, [x25; x25; x25], lit_2_31. vm_compute. repeat split; congruence. Qed.

Definition cell8 : bytes := [xeb; x8b; xe8; xed; x41; x9d; xcf; x35].
Definition s_int4_cipher : setting := mk_setting 23 PCiphertext None true true.
Definition cell8_out : bytes := Eval vm_compute in print_int (int_of_be cell8).

Lemma int4_8byte_cell_refuted :
  exists (s : setting) (raw v : bytes),
    pg_encoder_for (s_type_id s) = Some TInt4 /\ s_policy s = PCiphertext /\
    pg_cell s true (fun _ => None) raw = Ok v /\ v <> raw /\ length v <> 4%nat.
Proof. exists s_int4_cipher, cell8, cell8_out. vm_compute. repeat split; congruence. Qed.
