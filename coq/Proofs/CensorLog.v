(** Proofs for Model/CensorLog.v (property C16): no log call of the firewall receives a statement's own text.

    Two readings of the regenerated call-site tables (Gen/CensorLogSites.v):
    - static: every argument of every log call reachable from HandleQuery, resolved through the helper's parameter
      to HandleQuery's values, is the redacted text, nothing, or the parsed statement printed with %T — whatever the
      guards ([static_sites_ok], lifted by forallb_forall);
    - dynamic: for every configuration (any handler list with any verdicts, ignore_parse_error, parse_errors_log) and
      both parse outcomes every log line of the run carries the redacted text or no text (induction over the handler
      list; the base is a finite check over the branches of HandleQuery, [branch_events_ok]).
    With a raw / normalized text at any log call site of /repo the finite checks compute to false and the file stops
    building. *)
From Coq Require Import List NArith Bool String.
From Acra Require Import Lib.Bytes Gen.CensorLogSites Model.SqlRedact Model.CensorLog.
Import ListNotations.
Local Open Scope N_scope.

(** ---------- the reader understood the source ---------- *)
Lemma tables_understood_ok : tables_understood = true.
Proof. vm_compute. reflexivity. Qed.

(** ---------- static reading ---------- *)
Definition resolved_safe (x : clogsite * csrc * bool) : bool := src_safe (snd (fst x)) (snd x).

Lemma static_sites_ok : forallb resolved_safe all_resolved_args = true.
Proof. vm_compute. reflexivity. Qed.

Theorem no_log_call_receives_statement :
  forall (c : ccall) (s : clogsite) (src : csrc) (type_only : bool),
  In c CENSOR_HANDLE_QUERY -> In (s, src, type_only) (resolved_args c) ->
  src = CS_none \/ src = CS_redacted \/ (src = CS_parsed /\ type_only = true).
Proof.
  intros c s src ty Hc Hin.
  assert (Hall : In (s, src, ty) all_resolved_args).
  { unfold all_resolved_args. apply in_flat_map. exists c. split; assumption. }
  pose proof (proj1 (forallb_forall _ _) static_sites_ok _ Hall) as Hs.
  unfold resolved_safe in Hs. cbn [fst snd] in Hs.
  destruct src; cbn [src_safe] in Hs; try discriminate Hs; auto.
Qed.

Lemma handler_sites_ok : forallb handler_site_quiet CENSOR_HANDLER_SITES = true.
Proof. vm_compute. reflexivity. Qed.

Theorem handlers_log_no_argument :
  forall x : string * clogsite, In x CENSOR_HANDLER_SITES -> ls_args (snd x) = [].
Proof.
  intros x Hin. pose proof (proj1 (forallb_forall _ _) handler_sites_ok _ Hin) as Hq.
  unfold handler_site_quiet in Hq. destruct (ls_args (snd x)); [reflexivity | discriminate Hq].
Qed.

(** ---------- dynamic reading ---------- *)
Definition safe_kind (k : tkind) : bool := match k with KEmpty | KRedacted => true | _ => false end.

Definition all_events (p : bool) : list kev := flat_map (br p) ALL_BRANCHES.

Lemma branch_events_ok :
  forallb (fun e => safe_kind (ke_kind e)) (all_events true ++ all_events false) = true.
Proof. vm_compute. reflexivity. Qed.

Lemma all_branches_complete : forall b : cbranch, In b ALL_BRANCHES.
Proof. intros b. unfold ALL_BRANCHES. destruct b; cbn [In]; tauto. Qed.

Lemma br_in_all (p : bool) (b : cbranch) (e : kev) : In e (br p b) -> In e (all_events p).
Proof. intros H. unfold all_events. apply in_flat_map. exists b. split; [apply all_branches_complete | exact H]. Qed.

Lemma in_app_br (p : bool) (b : cbranch) (logs : list kev) (e : kev) :
  In e (logs ++ br p b) -> In e logs \/ In e (all_events p).
Proof. intros H. apply in_app_or in H. destruct H as [H|H]; [left; exact H | right; eapply br_in_all; exact H]. Qed.

Lemma run_handlers_k_logs (p : bool) (hs : list handler) :
  forall (logs : list kev) (cap : list tkind) (e : kev),
  In e (ko_logs (run_handlers_k p hs logs cap)) -> In e logs \/ In e (all_events p).
Proof.
  induction hs as [|h r IH]; intros logs cap e; cbn [run_handlers_k].
  - cbn [ko_logs]. apply in_app_br.
  - destruct h as [|m|v].
    + intros H. apply IH in H. destruct H as [H|H]; [eapply in_app_br; exact H | right; exact H].
    + destruct m.
      * cbn [ko_logs]. intros H. apply in_app_br in H. destruct H as [H|H]; [eapply in_app_br; exact H | right; exact H].
      * intros H. apply IH in H. destruct H as [H|H]; [eapply in_app_br; exact H | right; exact H].
    + destruct v.
      * intros H. apply IH in H. destruct H as [H|H]; [eapply in_app_br; exact H | right; exact H].
      * cbn [ko_logs]. intros H. apply in_app_br in H. destruct H as [H|H]; [eapply in_app_br; exact H | right; exact H].
      * cbn [ko_logs]. intros H. apply in_app_br in H. destruct H as [H|H]; [eapply in_app_br; exact H | right; exact H].
Qed.

Lemma censor_handle_k_logs (cfg : censor_cfg) (p : bool) (e : kev) :
  In e (ko_logs (censor_handle_k cfg p)) -> In e (all_events p).
Proof.
  destruct cfg as [hs ign wr]. unfold censor_handle_k.
  cbn [cfg_handlers cfg_unparsed_writer cfg_ignore_parse_error].
  assert (Hmain : In e (ko_logs
            (if p then run_handlers_k p hs (br p CB_entry) []
             else if ign
                  then run_handlers_k p hs ((br p CB_entry ++ br p CB_unparsed) ++ br p CB_unparsed_ignored)
                         (if wr then unparsed_saved p else [])
                  else mkKO ((br p CB_entry ++ br p CB_unparsed) ++ br p CB_unparsed_denied) true
                         (if wr then unparsed_saved p else []))) -> In e (all_events p)).
  { destruct p.
    - intros H. apply run_handlers_k_logs in H. destruct H as [H|H]; [eapply br_in_all; exact H | exact H].
    - destruct ign.
      + intros H. apply run_handlers_k_logs in H. destruct H as [H|H]; [|exact H].
        apply in_app_br in H. destruct H as [H|H]; [|exact H].
        apply in_app_br in H. destruct H as [H|H]; [eapply br_in_all; exact H | exact H].
      + cbn [ko_logs]. intros H.
        apply in_app_br in H. destruct H as [H|H]; [|exact H].
        apply in_app_br in H. destruct H as [H|H]; [eapply br_in_all; exact H | exact H]. }
  destruct hs as [|h r]; destruct wr; try exact Hmain.
  cbn [ko_logs]. intros [].
Qed.

(** every configuration, both parse outcomes: a log line of the firewall carries the redacted text or no text *)
Theorem firewall_logs_safe_kind :
  forall (cfg : censor_cfg) (p : bool) (e : kev),
  In e (ko_logs (censor_handle_k cfg p)) -> ke_kind e = KEmpty \/ ke_kind e = KRedacted.
Proof.
  intros cfg p e H. apply censor_handle_k_logs in H.
  assert (Hin : In e (all_events true ++ all_events false)).
  { apply in_or_app. destruct p; [left | right]; exact H. }
  pose proof (proj1 (forallb_forall _ _) branch_events_ok _ Hin) as Hs. cbn beta in Hs.
  destruct (ke_kind e); cbn [safe_kind] in Hs; try discriminate Hs; auto.
Qed.

Theorem firewall_logs_redacted_only :
  forall (cfg : censor_cfg) (parsed : option tree) (e : slogev),
  In e (censor_logs cfg parsed) ->
  sl_text e = TEmpty \/ exists t : tree, parsed = Some t /\ sl_text e = TPrinted (redact VALUE_MASK t).
Proof.
  intros cfg parsed e H. unfold censor_logs in H. apply in_map_iff in H. destruct H as [k [He Hk]].
  apply firewall_logs_safe_kind in Hk. subst e. cbn [sl_text].
  destruct Hk as [Hk|Hk]; rewrite Hk.
  - left. destruct parsed; reflexivity.
  - destruct parsed as [t|]; [right; exists t; split; reflexivity | left; reflexivity].
Qed.

Theorem firewall_never_logs_unparsed :
  forall (cfg : censor_cfg) (e : slogev), In e (censor_logs cfg None) -> sl_text e = TEmpty.
Proof.
  intros cfg e H. apply firewall_logs_redacted_only in H. destruct H as [H|[t [Ht _]]]; [exact H | discriminate Ht].
Qed.

(** ---------- what reaches the capture files ---------- *)
Lemma captured_ok : forallb safe_kind (captured_at true ++ captured_at false) = true.
Proof. vm_compute. reflexivity. Qed.

Lemma captured_at_safe (p : bool) (k : tkind) : In k (captured_at p) -> safe_kind k = true.
Proof.
  intros H. apply (proj1 (forallb_forall _ _) captured_ok). apply in_or_app. destruct p; [left | right]; exact H.
Qed.

Lemma run_handlers_k_captured (p : bool) (hs : list handler) :
  forall (logs : list kev) (cap : list tkind) (k : tkind),
  In k (ko_captured (run_handlers_k p hs logs cap)) -> In k cap \/ In k (captured_at p).
Proof.
  induction hs as [|h r IH]; intros logs cap k; cbn [run_handlers_k].
  - cbn [ko_captured]. auto.
  - destruct h as [|m|v].
    + intros H. apply IH in H. destruct H as [H|H]; [|auto]. apply in_app_or in H. tauto.
    + destruct m; [cbn [ko_captured]; auto | apply IH].
    + destruct v; [apply IH | cbn [ko_captured]; auto | cbn [ko_captured]; auto].
Qed.

(** the capture handler's file gets the redacted text only; the raw text of a statement goes to a file only when it
    did not parse and the operator configured parse_errors_log *)
Theorem firewall_captures_redacted_only :
  forall (cfg : censor_cfg) (p : bool) (k : tkind),
  In k (ko_captured (censor_handle_k cfg p)) ->
  safe_kind k = true \/ (p = false /\ cfg_unparsed_writer cfg = true).
Proof.
  intros [hs ign wr] p k. unfold censor_handle_k.
  cbn [cfg_handlers cfg_unparsed_writer cfg_ignore_parse_error].
  assert (Hmain : In k (ko_captured
            (if p then run_handlers_k p hs (br p CB_entry) []
             else if ign
                  then run_handlers_k p hs ((br p CB_entry ++ br p CB_unparsed) ++ br p CB_unparsed_ignored)
                         (if wr then unparsed_saved p else [])
                  else mkKO ((br p CB_entry ++ br p CB_unparsed) ++ br p CB_unparsed_denied) true
                         (if wr then unparsed_saved p else []))) ->
          safe_kind k = true \/ (p = false /\ wr = true)).
  { destruct p.
    - intros H. apply run_handlers_k_captured in H. destruct H as [[]|H]. left. eapply captured_at_safe; exact H.
    - destruct ign.
      + intros H. apply run_handlers_k_captured in H. destruct H as [H|H].
        * destruct wr; [right; split; reflexivity | destruct H].
        * left. eapply captured_at_safe; exact H.
      + cbn [ko_captured]. intros H. destruct wr; [right; split; reflexivity | destruct H]. }
  destruct hs as [|h r]; destruct wr; try exact Hmain.
  cbn [ko_captured]. intros [].
Qed.
