(** C13_statements, round trip, part 12: whole statements. *)
From Acra Require Import Lib.Bytes Gen.Prec Gen.SqlWords Model.SqlStmt Model.SqlStmtParse
  Proofs.SqlStmtUnfold Proofs.SqlStmtFacts Proofs.SqlStmtEqns Proofs.SqlStmtHeads Proofs.SqlStmtRT1 Proofs.SqlStmtRT2 Proofs.SqlStmtRT3
  Proofs.SqlStmtRT4 Proofs.SqlStmtRT5 Proofs.SqlStmtRT6 Proofs.SqlStmtRT7 Proofs.SqlStmtRT8 Proofs.SqlStmtRT9 Proofs.SqlStmtRT10
  Proofs.SqlStmtRT11 Proofs.SqlStmtFuel.
From Coq Require Import Arith Lia.

Section RT.
Variable pg : bool.
Notation len := (@length tok).

Ltac KL := unfold K in *; lia.
Ltac napp := repeat (progress (rewrite <- ?app_assoc; cbn [app])).

(** the components of the mutual induction *)
Lemma all_Cst e : Cst pg e. Proof. exact (proj1 (proj1 (roundtrip_all pg) e)). Qed.
Lemma all_Pxs xs : Pxs pg xs. Proof. exact (proj1 (proj2 (roundtrip_all pg)) xs). Qed.
Lemma all_Poe o : Poe pg o. Proof. exact (proj1 (proj2 (proj2 (roundtrip_all pg))) o). Qed.
Lemma all_Pses xs : Pses pg xs. Proof. exact (proj1 (proj2 (proj2 (proj2 (proj2 (proj2 (roundtrip_all pg)))))) xs). Qed.
Lemma all_Psel s : Psel pg s. Proof. exact (proj1 (proj2 (proj2 (proj2 (proj2 (proj2 (proj2 (roundtrip_all pg))))))) s). Qed.
Lemma all_Pts ts : Pts pg ts.
Proof. exact (proj1 (proj2 (proj2 (proj2 (proj2 (proj2 (proj2 (proj2 (proj2 (roundtrip_all pg))))))))) ts). Qed.
Lemma all_Pos os : Pos pg os.
Proof. exact (proj1 (proj2 (proj2 (proj2 (proj2 (proj2 (proj2 (proj2 (proj2 (proj2 (proj2 (roundtrip_all pg))))))))))) os). Qed.
Lemma all_Plm l : Plm pg l.
Proof. exact (proj2 (proj2 (proj2 (proj2 (proj2 (proj2 (proj2 (proj2 (proj2 (proj2 (proj2 (roundtrip_all pg))))))))))) l). Qed.

Lemma len_e e : need e + 60 <= 80 * len (print pg e). Proof. exact (proj1 (need_le_len pg) e). Qed.
Lemma len_xs xs : need_exprs xs <= 80 * len (print_exprs pg xs). Proof. exact (proj1 (proj2 (need_le_len pg)) xs). Qed.
Lemma len_oe o pre : need_oexpr o <= 80 * len (print_oexpr pg pre o). Proof. exact (proj1 (proj2 (proj2 (need_le_len pg))) o pre). Qed.
Lemma len_ses xs : need_selexprs xs <= 80 * len (print_selexprs pg xs).
Proof. exact (proj1 (proj2 (proj2 (proj2 (proj2 (proj2 (need_le_len pg)))))) xs). Qed.
Lemma len_sel s : need_sel s <= 80 * len (print_sel pg s).
Proof. exact (proj1 (proj2 (proj2 (proj2 (proj2 (proj2 (proj2 (need_le_len pg))))))) s). Qed.
Lemma len_ts ts : need_texprs ts <= 80 * len (print_texprs pg ts).
Proof. exact (proj1 (proj2 (proj2 (proj2 (proj2 (proj2 (proj2 (proj2 (proj2 (need_le_len pg))))))))) ts). Qed.
Lemma len_os os first : need_orders os <= 80 * len (print_orders pg first os).
Proof. exact (proj1 (proj2 (proj2 (proj2 (proj2 (proj2 (proj2 (proj2 (proj2 (proj2 (proj2 (need_le_len pg))))))))))) os first). Qed.
Lemma len_lm l : need_lim l <= 80 * len (print_lim pg l).
Proof. exact (proj2 (proj2 (proj2 (proj2 (proj2 (proj2 (proj2 (proj2 (proj2 (proj2 (proj2 (need_le_len pg))))))))))) l). Qed.

(* ---------- clause helpers ---------- *)
Lemma pwhere_ok wh rest f :
  wf_oexpr pg wh = true -> hard rest = true -> expect_w W_where rest = None -> need_oexpr wh + 2 <= f ->
  pwhere pg f (print_oexpr pg [TW W_where] wh ++ rest) = Some (wh, rest).
Proof.
  intros Hwf Hh Hw Hf. unfold pwhere, popt. destruct wh as [|x].
  - rewrite print_oexpr_NoE. cbn [app]. rewrite Hw. reflexivity.
  - rewrite print_oexpr_SomeE. napp. rewrite expect_w_hit. rewrite wf_oexpr_SomeE in Hwf. rewrite need_oexpr_SomeE in Hf.
    rewrite (pexpr_of_C pg x rest f (all_Cst x)) by first [assumption | lia]. reflexivity.
Qed.

Lemma pret_ok ret f : wf_selexprs pg ret = true -> need_selexprs ret + 2 <= f ->
  pret pg f (print_ret pg ret) = Some (ret, []).
Proof.
  intros Hwf Hf. unfold pret, print_ret. destruct ret as [|x xs]; [reflexivity|].
  rewrite expect_w_hit. rewrite <- (app_nil_r (print_selexprs pg (SCons x xs))).
  apply (all_Pses (SCons x xs) Hwf ltac:(discriminate) [] eq_refl eq_refl eq_refl f).
  revert Hf. generalize (need_selexprs (SCons x xs)). intros; lia.
Qed.
Lemma ret_head ret : tlstop (print_ret pg ret) = true.
Proof. unfold print_ret. destruct ret; reflexivity. Qed.

(* ---------- SET lists ---------- *)
Fixpoint need_updates (us : updates) : nat :=
  match us with UNil => 0 | UCons _ _ x us' => K + need x + need_updates us' end.
Lemma len_updates us : need_updates us <= 80 * len (print_updates pg us).
Proof.
  induction us as [|q n x us IH]; [cbn; lia|]. cbn [need_updates]. pose proof (len_e x).
  destruct us as [|q' n' x' us']; [cbn [print_updates need_updates]; repeat (rewrite app_length || cbn [length]); KL|].
  revert IH. generalize (need_updates (UCons q' n' x' us')). intros m IH.
  change (print_updates pg (UCons q n x (UCons q' n' x' us'))) with
    (col_toks pg q n ++ TP PEq :: print pg x ++ TP PComma :: print_updates pg (UCons q' n' x' us')).
  repeat (rewrite app_length || cbn [length]). KL.
Qed.

Lemma pupdates_ok us : forall rest f,
  wf_updates pg us = true -> us <> UNil -> hard rest = true -> expect_p PComma rest = None ->
  need_updates us + 2 <= f -> pupdates pg f (print_updates pg us ++ rest) = Some (us, rest).
Proof.
  induction us as [|q n x us IH]; intros rest f Hwf Hne Hh Hc Hf; [congruence|].
  cbn [wf_updates] in Hwf. split_andb. cbn [need_updates] in Hf.
  destruct f as [|f]; [KL|].
  assert (Hhead : forall R, gstop R = true -> exists i0 r0, col_toks pg q n ++ R = id_tok pg i0 :: r0 /\ wf_id pg i0 = true /\ pcol pg i0 r0 = Some (q, n, R))
    by (intros R HR; apply pcol_spec; assumption).
  destruct us as [|q' n' x' us'].
  - change (print_updates pg (UCons q n x UNil)) with (col_toks pg q n ++ TP PEq :: print pg x).
    napp. destruct (Hhead (TP PEq :: print pg x ++ rest) eq_refl) as [i0 [r0 [E [Hi Hp]]]].
    rewrite E. cbn [pupdates]. rewrite (wf_id_tok pg i0 Hi), Hp, (expect_p_hit PEq).
    rewrite (pexpr_of_C pg x rest (S f) (all_Cst x)) by first [assumption | KL]. rewrite Hc. reflexivity.
  - change (print_updates pg (UCons q n x (UCons q' n' x' us'))) with
      (col_toks pg q n ++ TP PEq :: print pg x ++ TP PComma :: print_updates pg (UCons q' n' x' us')).
    napp.
    destruct (Hhead (TP PEq :: print pg x ++ TP PComma :: print_updates pg (UCons q' n' x' us') ++ rest) eq_refl) as [i0 [r0 [E [Hi Hp]]]].
    rewrite E. cbn [pupdates]. rewrite (wf_id_tok pg i0 Hi), Hp, (expect_p_hit PEq).
    rewrite (pexpr_of_C pg x _ (S f) (all_Cst x)) by first [assumption | reflexivity | KL].
    rewrite (expect_p_hit PComma).
    rewrite (IH rest f) by first [assumption | discriminate | KL]. reflexivity.
Qed.

(* ---------- VALUES rows ---------- *)
Fixpoint need_rows (rs : rows) : nat :=
  match rs with RNil => 0 | RCons r rs' => K + need_exprs r + need_rows rs' end.
Lemma len_rows rs : need_rows rs <= 80 * len (print_rows pg rs).
Proof.
  induction rs as [|r rs IH]; [cbn; lia|]. cbn [need_rows]. pose proof (len_xs r).
  destruct rs as [|r' rs']; [cbn [print_rows need_rows]; repeat (rewrite app_length || cbn [length]); KL|].
  revert IH. generalize (need_rows (RCons r' rs')). intros m IH.
  change (print_rows pg (RCons r (RCons r' rs'))) with
    (TP PLParen :: print_exprs pg r ++ TP PRParen :: TP PComma :: print_rows pg (RCons r' rs')).
  repeat (rewrite app_length || cbn [length]). KL.
Qed.

Lemma prow_ok r rest f : wf_exprs pg r = true -> hard rest = true -> need_exprs r + 2 <= f ->
  prow pg f (TP PLParen :: print_exprs pg r ++ TP PRParen :: rest) = Some (r, rest).
Proof.
  intros Hwf Hh Hf. unfold prow. rewrite (expect_p_hit PLParen). destruct r as [|x xs].
  - rewrite print_exprs_XNil. cbn [app]. rewrite (expect_p_hit PRParen). reflexivity.
  - destruct (print_exprs_head pg (XCons x xs) (TP PRParen :: rest) Hwf ltac:(discriminate)) as [t0 [r0 [E Hs]]].
    rewrite E, (estart_not_rparen t0 r0 Hs), <- E.
    rewrite (all_Pxs (XCons x xs) Hwf ltac:(discriminate) (TP PRParen :: rest)) by first [reflexivity | lia].
    rewrite (expect_p_hit PRParen). reflexivity.
Qed.

Lemma prows_ok rs : forall rest f,
  wf_rows pg rs = true -> rs <> RNil -> hard rest = true -> expect_p PComma rest = None ->
  need_rows rs + 2 <= f -> prows pg f (print_rows pg rs ++ rest) = Some (rs, rest).
Proof.
  induction rs as [|r rs IH]; intros rest f Hwf Hne Hh Hc Hf; [congruence|].
  cbn [wf_rows] in Hwf. split_andb. cbn [need_rows] in Hf. destruct f as [|f]; [KL|].
  destruct rs as [|r' rs'].
  - change (print_rows pg (RCons r RNil)) with (TP PLParen :: print_exprs pg r ++ [TP PRParen]).
    napp. cbn [prows]. rewrite prow_ok by first [assumption | KL]. rewrite Hc. reflexivity.
  - change (print_rows pg (RCons r (RCons r' rs'))) with
      (TP PLParen :: print_exprs pg r ++ TP PRParen :: TP PComma :: print_rows pg (RCons r' rs')).
    napp. cbn [prows]. rewrite prow_ok by first [assumption | reflexivity | KL].
    rewrite (expect_p_hit PComma). rewrite (IH rest f) by first [assumption | discriminate | KL]. reflexivity.
Qed.

(* ---------- INSERT columns ---------- *)
Lemma pidents_alias cols r : forallb (wf_alias pg) cols = true -> cols <> [] ->
  pidents tok_alias (idlist_toks pg cols ++ TP PRParen :: r) = Some (cols, r).
Proof.
  induction cols as [|c cols IH]; [congruence|]. intros Hwf _. cbn [forallb] in Hwf. split_andb.
  destruct cols as [|c' cols'].
  - cbn [idlist_toks app pidents]. rewrite (wf_alias_tok pg c) by assumption. reflexivity.
  - change (idlist_toks pg (c :: c' :: cols')) with (id_tok pg c :: TP PComma :: idlist_toks pg (c' :: cols')).
    cbn [app]. unfold pidents at 1. fold (pidents tok_alias).
    rewrite (wf_alias_tok pg c) by assumption. rewrite (IH ltac:(assumption) ltac:(discriminate)). reflexivity.
Qed.

(* ---------- statement heads ---------- *)
Lemma sel_first q : exists r, print_sel pg q = TW W_select :: r \/ print_sel pg q = TP PLParen :: r.
Proof.
  induction q.
  - rewrite print_sel_Select. eexists. left. reflexivity.
  - destruct IHq1 as [r [E|E]]; rewrite print_sel_Union, E; eexists; [left|right]; reflexivity.
  - rewrite print_sel_ParenSel. eexists. right. reflexivity.
Qed.

Lemma tsstop_nil ts : tsstop ts [] = true.
Proof. unfold tsstop. cbn. rewrite ?Bool.orb_true_r. reflexivity. Qed.
Lemma all_ttable_last ts : all_ttable ts = true -> last_open_on ts = false /\ last_open_using ts = false.
Proof.
  unfold last_open_on, last_open_using. induction ts as [|t ts IH]; [split; reflexivity|].
  cbn [all_ttable]. intros H. split_andb. destruct ts as [|u us].
  - cbn [last_texpr]. destruct t; try discriminate. split; reflexivity.
  - cbn [last_texpr]. apply IH. assumption.
Qed.
End RT.
