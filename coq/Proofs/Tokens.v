(** Store, process-step and termination lemmas for the token model (C10). *)
From Acra Require Import Lib.Bytes Lib.Outcome Lib.Sha256 Gen.TokenConsts Model.Tokens.
From Coq Require Import ZifyN ZifyNat ZifyBool.

(** ** store *)
Lemma key_match_true c id e : key_match c id e = true <-> c = e_ctx e /\ id = e_id e.
Proof. unfold key_match. rewrite andb_true_iff, !bytes_eqb_eq. tauto. Qed.

Lemma lookup_app c id s l :
  lookup c id (s ++ l) = match lookup c id s with Some e => Some e | None => lookup c id l end.
Proof.
  induction s as [|e s IH]; cbn [lookup app]; [reflexivity|].
  destruct (key_match c id e); [reflexivity| exact IH].
Qed.

Lemma lookup_some c id s e : lookup c id s = Some e -> In e s /\ e_ctx e = c /\ e_id e = id.
Proof.
  induction s as [|x s IH]; cbn [lookup]; [discriminate|].
  destruct (key_match c id x) eqn:K.
  - intros [= <-]. apply key_match_true in K as [-> ->]. split; [left; reflexivity| split; reflexivity].
  - intros H. destruct (IH H) as [Hin Hk]. split; [right; exact Hin| exact Hk].
Qed.

Lemma lookup_none_notin c id s : (forall e, In e s -> e_ctx e <> c) -> lookup c id s = None.
Proof.
  intros H. destruct (lookup c id s) as [e|] eqn:E; [|reflexivity].
  apply lookup_some in E as [Hin [Hc _]]. exfalso. exact (H e Hin Hc).
Qed.

(** the store only grows under tokenizer steps *)
Definition ext (s s' : store) : Prop := exists l, s' = s ++ l.
Lemma ext_refl s : ext s s.
Proof. exists []. symmetry. apply app_nil_r. Qed.
Lemma ext_trans a b c : ext a b -> ext b c -> ext a c.
Proof. intros [l ->] [m ->]. exists (l ++ m). rewrite app_assoc. reflexivity. Qed.
Lemma ext_lookup s s' c id e : ext s s' -> lookup c id s = Some e -> lookup c id s' = Some e.
Proof. intros [l ->] H. rewrite lookup_app, H. reflexivity. Qed.

(** maintenance without removal keeps every record and its data (flags may change) *)
Definition dmono (s s' : store) : Prop :=
  forall c id e, lookup c id s = Some e -> exists e', lookup c id s' = Some e' /\ e_data e' = e_data e.
Lemma dmono_refl s : dmono s s.
Proof. intros c id e H. exists e. split; [exact H| reflexivity]. Qed.
Lemma dmono_trans a b c : dmono a b -> dmono b c -> dmono a c.
Proof.
  intros H1 H2 k id e H. destruct (H1 _ _ _ H) as [e1 [L1 D1]]. destruct (H2 _ _ _ L1) as [e2 [L2 D2]].
  exists e2. split; [exact L2| congruence].
Qed.
Lemma ext_dmono s s' : ext s s' -> dmono s s'.
Proof. intros E c id e H. exists e. split; [eapply ext_lookup; eassumption| reflexivity]. Qed.

Lemma apply_action_keeps a e e' :
  apply_action a e = Some e' -> e_ctx e' = e_ctx e /\ e_id e' = e_id e /\ e_data e' = e_data e.
Proof. destruct a; cbn; intros [= <-]; cbn; repeat split; reflexivity. Qed.

Lemma visit_dmono f s : (forall n b, f n b <> ARemove) -> dmono s (visit f s).
Proof.
  intros Hf c id e. induction s as [|x s IH]; cbn [lookup visit]; [discriminate|].
  destruct (apply_action (f (length (e_data x)) (e_dis x)) x) as [x'|] eqn:A.
  - destruct (apply_action_keeps _ _ _ A) as [Hc [Hi Hd]].
    cbn [lookup]. unfold key_match. rewrite Hc, Hi. fold (key_match c id x).
    destruct (key_match c id x).
    + intros [= <-]. exists x'. split; [reflexivity| exact Hd].
    + exact IH.
  - exfalso. destruct (f (length (e_data x)) (e_dis x)) eqn:F; cbn in A; try discriminate.
    exact (Hf _ _ F).
Qed.

Lemma visit_ctx f s e : In e (visit f s) -> exists e0, In e0 s /\ e_ctx e = e_ctx e0.
Proof.
  induction s as [|x s IH]; cbn [visit]; [intros []|].
  destruct (apply_action (f (length (e_data x)) (e_dis x)) x) as [x'|] eqn:A.
  - intros [<-|Hin].
    + exists x. split; [left; reflexivity| apply (apply_action_keeps _ _ _ A)].
    + destruct (IH Hin) as [e0 [H0 Hc]]. exists e0. split; [right; exact H0| exact Hc].
  - intros Hin. destruct (IH Hin) as [e0 [H0 Hc]]. exists e0. split; [right; exact H0| exact Hc].
Qed.

Lemma st_save_ext enc c id d s s' r : st_save enc c id d s = (s', r) -> ext s s'.
Proof.
  unfold st_save. destruct (enc && is_nil d); [intros [= <- _]; apply ext_refl|].
  destruct (lookup c id s); intros [= <- _]; [apply ext_refl| eexists; reflexivity].
Qed.

Lemma st_save_ok enc c id d s s' :
  st_save enc c id d s = (s', SaveOk) ->
  s' = s ++ [mke c id d false] /\ lookup c id s = None /\ lookup c id s' = Some (mke c id d false).
Proof.
  unfold st_save. destruct (enc && is_nil d); [discriminate|].
  destruct (lookup c id s) eqn:E; [discriminate|]. intros [= <-].
  split; [reflexivity| split; [reflexivity|]].
  rewrite lookup_app, E. cbn [lookup]. unfold key_match. cbn [e_ctx e_id]. rewrite !bytes_eqb_refl. reflexivity.
Qed.

Lemma st_save_new_entries enc c id d s s' r e :
  st_save enc c id d s = (s', r) -> In e s' -> In e s \/ e = mke c id d false.
Proof.
  unfold st_save. destruct (enc && is_nil d); [intros [= <- _] H; left; exact H|].
  destruct (lookup c id s); intros [= <- _] H; [left; exact H|].
  apply in_app_or in H as [H|[H|[]]]; [left; exact H| right; symmetry; exact H].
Qed.

Lemma st_get_ok c id s d :
  st_get c id s = Ok d -> exists e, lookup c id s = Some e /\ e_dis e = false /\ e_data e = d.
Proof.
  unfold st_get. destruct (lookup c id s) as [e|]; [|discriminate].
  destruct (e_dis e) eqn:D; [discriminate|]. intros [= <-]. exists e. repeat split; assumption.
Qed.

(** ** generated values are in the representation of their type *)
Lemma draw_length n t c t' : draw n t = Ok (c, t') -> length c = n.
Proof.
  destruct n as [|n]; cbn [draw]; [intros [= <- _]; reflexivity|].
  destruct t as [|x r]; [discriminate|].
  destruct (Nat.eqb (length x) (S n)) eqn:E; [|discriminate].
  intros [= <- _]. apply Nat.eqb_eq. exact E.
Qed.

Lemma gen_value_wf ty v t tok t' : gen_value ty v t = Ok (tok, t') -> bytes_to_value tok ty = Ok tok.
Proof.
  destruct ty; cbn [gen_value bytes_to_value]; intros H; try reflexivity.
  - pose proof (draw_length _ _ _ _ H) as L.
    replace (Nat.ltb (length tok) 4) with false by (rewrite L; reflexivity).
    f_equal. rewrite <- L. apply firstn_all.
  - pose proof (draw_length _ _ _ _ H) as L.
    replace (Nat.ltb (length tok) 8) with false by (rewrite L; reflexivity).
    f_equal. rewrite <- L. apply firstn_all.
Qed.

(** ** one process step *)
Definition cx_of (c : call) : bytes := agg_ctx (c_ctx c).
Definition hk_of (c : call) : bytes := hkey (c_val c) (c_ctx c) (c_ty c).

Lemma gen_start_not_ok tried tok : gen_start tried <> PDone (Ok tok).
Proof. unfold gen_start. destruct TOK_LOOP_LIMIT; discriminate. Qed.

Lemma pstep_done enc c st r : pstep enc c st (PDone r) = (st, PDone r).
Proof. destruct st. reflexivity. Qed.

Lemma pstep_ext enc c s t p s' t' p' : pstep enc c (s, t) p = ((s', t'), p') -> ext s s'.
Proof.
  destruct p as [tried|tried more|tried tok|r]; cbn [pstep].
  - destruct (st_get _ _ s); intros [= <- _ _]; apply ext_refl.
  - destruct (gen_value (c_ty c) (c_val c) t) as [[tok t1]|e|]; [|intros [= <- _ _]; apply ext_refl ..].
    destruct (st_save enc _ _ _ s) as [s1 r] eqn:S. apply st_save_ext in S.
    destruct r; intros [= <- _ _]; exact S.
  - destruct (st_save enc _ _ _ s) as [s1 r] eqn:S. apply st_save_ext in S.
    destruct r; [intros [= <- _ _]; exact S| destruct tried; intros [= <- _ _]; exact S| intros [= <- _ _]; exact S].
  - intros [= <- _ _]. apply ext_refl.
Qed.

(** a pending h-Save always carries a well-formed token whose t-record is about to exist *)
Definition wf_pst (c : call) (p : pst) : Prop :=
  match p with PSaveH _ tok => bytes_to_value tok (c_ty c) = Ok tok | _ => True end.

Lemma pstep_wf enc c st p st' p' : wf_pst c p -> pstep enc c st p = (st', p') -> wf_pst c p'.
Proof.
  destruct st as [s t]. destruct p as [tried|tried more|tried tok|r]; cbn [pstep]; intros W.
  - destruct (st_get _ _ s); intros [= _ <-]; cbn; try exact I.
    all: unfold gen_start; destruct TOK_LOOP_LIMIT; exact I.
  - destruct (gen_value (c_ty c) (c_val c) t) as [[tok t1]|e|] eqn:G; [|intros [= _ <-]; exact I ..].
    destruct (st_save enc _ _ _ s) as [s1 r]. destruct r; intros [= _ <-].
    + destruct (c_mode c); cbn; [exact I| eapply gen_value_wf; exact G].
    + destruct more; exact I.
    + exact I.
  - destruct (st_save enc _ _ _ s) as [s1 r]. destruct r; [intros [= _ <-]; exact I| destruct tried; intros [= _ <-]; exact I| intros [= _ <-]; exact I].
  - intros [= _ <-]. exact I.
Qed.

(** the consistent record of a call holds (the encoding of) [tok] *)
Definition hfact (c : call) (s : store) (tok : bytes) : Prop :=
  exists e, lookup (cx_of c) (hk_of c) s = Some e /\ bytes_to_value (e_data e) (c_ty c) = Ok tok.

Lemma hfact_dmono c s s' tok : dmono s s' -> hfact c s tok -> hfact c s' tok.
Proof. intros M [e [L B]]. destruct (M _ _ _ L) as [e' [L' D]]. exists e'. split; [exact L'| rewrite D; exact B]. Qed.

Lemma pstep_done_fact enc c s t p s' t' tok :
  c_mode c = Consistent -> wf_pst c p -> pdone p = false ->
  pstep enc c (s, t) p = ((s', t'), PDone (Ok tok)) -> hfact c s' tok.
Proof.
  intros M W ND. destruct p as [tried|tried more|tried tk|r]; cbn [pstep]; [| | |discriminate ND].
  - destruct (st_get (agg_ctx (c_ctx c)) (hkey (c_val c) (c_ctx c) (c_ty c)) s) as [d|e|] eqn:G.
    + intros [= <- _ B]. apply st_get_ok in G as [e [L [_ D]]]. exists e. split; [exact L| rewrite D; exact B].
    + intros E. exfalso. apply (f_equal snd) in E. cbn [snd] in E. exact (gen_start_not_ok _ _ E).
    + intros E. exfalso. apply (f_equal snd) in E. cbn [snd] in E. exact (gen_start_not_ok _ _ E).
  - destruct (gen_value (c_ty c) (c_val c) t) as [[tk t1]|e|]; [|discriminate ..].
    destruct (st_save enc _ _ _ s) as [s1 r]. destruct r.
    + rewrite M. discriminate.
    + destruct more; discriminate.
    + discriminate.
  - destruct (st_save enc (agg_ctx (c_ctx c)) (hkey (c_val c) (c_ctx c) (c_ty c)) tk s) as [s1 r] eqn:S. destruct r.
    + intros [= <- _ <-]. apply st_save_ok in S as [_ [_ L]]. eexists. split; [exact L| exact W].
    + destruct tried; discriminate.
    + discriminate.
Qed.

(** every record a step adds lives in the call's own context *)
Lemma pstep_new_entries enc c s t p s' t' p' e :
  pstep enc c (s, t) p = ((s', t'), p') -> In e s' -> In e s \/ e_ctx e = cx_of c.
Proof.
  destruct p as [tried|tried more|tried tok|r]; cbn [pstep].
  - destruct (st_get _ _ s); intros [= <- _ _] H; left; exact H.
  - destruct (gen_value (c_ty c) (c_val c) t) as [[tok t1]|er|]; [|intros [= <- _ _] H; left; exact H ..].
    destruct (st_save enc _ _ _ s) as [s1 r] eqn:S.
    assert (forall x, In x s1 -> In x s \/ e_ctx x = cx_of c) as K.
    { intros x Hx. destruct (st_save_new_entries _ _ _ _ _ _ _ _ S Hx) as [H| ->]; [left; exact H| right; reflexivity]. }
    destruct r; intros [= <- _ _]; apply K.
  - destruct (st_save enc _ _ _ s) as [s1 r] eqn:S.
    assert (forall x, In x s1 -> In x s \/ e_ctx x = cx_of c) as K.
    { intros x Hx. destruct (st_save_new_entries _ _ _ _ _ _ _ _ S Hx) as [H| ->]; [left; exact H| right; reflexivity]. }
    destruct r; [intros [= <- _ _]; apply K| destruct tried; intros [= <- _ _]; apply K| intros [= <- _ _]; apply K].
  - intros [= <- _ _] H. left. exact H.
Qed.

(** ** bounded retry: every effective step decreases a rank bounded by 2*limit+4 *)
Definition rank (p : pst) : nat :=
  match p with
  | PDone _ => 0
  | PSaveH true _ => 1
  | PGen true k => k + 2
  | PGet true => TOK_LOOP_LIMIT + 2
  | PSaveH false _ => TOK_LOOP_LIMIT + 3
  | PGen false k => TOK_LOOP_LIMIT + 4 + k
  | PGet false => 2 * TOK_LOOP_LIMIT + 4
  end.

(** states in which the loop counter is below the limit (all reachable ones) *)
Definition in_limit (p : pst) : Prop :=
  match p with PGen _ k => k < TOK_LOOP_LIMIT | _ => True end.

Ltac rk := split; [lia| first [exact I| lia]].

Lemma gen_start_rank tried : rank (gen_start tried) < rank (PGet tried) /\ in_limit (gen_start tried).
Proof.
  unfold gen_start. destruct TOK_LOOP_LIMIT as [|k] eqn:E; destruct tried; cbn [rank in_limit]; rewrite ?E; rk.
Qed.

Lemma pstep_rank enc c st p :
  pdone p = false -> in_limit p ->
  rank (snd (pstep enc c st p)) < rank p /\ in_limit (snd (pstep enc c st p)).
Proof.
  destruct st as [s t]. intros ND IL. destruct p as [tried|tried more|tried tok|r]; cbn [pstep]; [| | |discriminate ND].
  - destruct (st_get _ _ s); cbn [snd]; try apply gen_start_rank.
    destruct tried; cbn [rank in_limit]; rk.
  - cbn [in_limit] in IL.
    destruct (gen_value (c_ty c) (c_val c) t) as [[tok t1]|e|]; cbn [snd]; [|destruct tried; cbn [rank in_limit]; rk ..].
    destruct (st_save enc _ _ _ s) as [s1 r]. destruct r; cbn [snd].
    + destruct (c_mode c); destruct tried; cbn [rank in_limit]; rk.
    + destruct more; destruct tried; cbn [rank in_limit]; rk.
    + destruct tried; cbn [rank in_limit]; rk.
  - destruct (st_save enc _ _ _ s) as [s1 r]. destruct r; cbn [snd]; destruct tried; cbn [snd rank in_limit]; rk.
Qed.

Lemma run_solo_done enc fuel c st p :
  in_limit p -> rank p <= fuel -> pdone (snd (run_solo enc fuel c st p)) = true.
Proof.
  revert st p. induction fuel as [|f IH]; intros st p IL R; cbn [run_solo].
  - destruct p; cbn [rank] in R; try (destruct tried; lia); reflexivity.
  - destruct (pdone p) eqn:D; [exact D|].
    destruct (pstep_rank enc c st p D IL) as [R1 IL1].
    destruct (pstep enc c st p) as [st' p']. cbn [snd] in *. apply IH; [exact IL1| lia].
Qed.

Lemma pinit_rank c : in_limit (pinit c) /\ rank (pinit c) <= SOLO_FUEL.
Proof.
  unfold pinit, SOLO_FUEL. destruct (c_mode c).
  - pose proof (gen_start_rank false) as [R IL]. split; [exact IL| cbn [rank] in R; lia].
  - split; [exact I| cbn [rank]; lia].
Qed.

Lemma tokenize_terminates enc c s t :
  pdone (snd (run_solo enc SOLO_FUEL c (s, t) (pinit c))) = true.
Proof. destruct (pinit_rank c) as [IL R]. apply run_solo_done; assumption. Qed.

Lemma tokenize_no_fuel_error enc c s t : snd (tokenize enc c s t) <> Err E_OUT_OF_FUEL \/
  exists r, snd (run_solo enc SOLO_FUEL c (s, t) (pinit c)) = PDone r.
Proof.
  right. pose proof (tokenize_terminates enc c s t) as D.
  destruct (snd (run_solo enc SOLO_FUEL c (s, t) (pinit c))) as [| | |r]; try discriminate. exists r. reflexivity.
Qed.

(** ** detokenization of something that is not there *)
Lemma deanonymize_unknown s c ty tok :
  lookup (agg_ctx c) (tkey tok c ty) s = None -> deanonymize s c ty tok = Ok tok.
Proof. intros H. unfold deanonymize, st_get. rewrite H. reflexivity. Qed.

Lemma deanonymize_disabled s c ty tok e :
  lookup (agg_ctx c) (tkey tok c ty) s = Some e -> e_dis e = true -> deanonymize s c ty tok = Ok tok.
Proof. intros H D. unfold deanonymize, st_get. rewrite H, D. reflexivity. Qed.

Lemma deanonymize_foreign s c ty tok :
  (forall e, In e s -> e_ctx e <> agg_ctx c) -> deanonymize s c ty tok = Ok tok.
Proof. intros H. apply deanonymize_unknown, lookup_none_notin, H. Qed.
