(** Proofs about the AcraCensor model: chain semantics and table rule (property C05). *)
From Coq Require Import List Bool NArith Lia.
From Acra Require Import Lib.Bytes Model.Censor.
Import ListNotations.

(** * Independent specification of the chain: "the first decisive handler wins" *)

(** what ONE handler says about a statement, or [None] when it has no opinion *)
Definition decision (parsed : bool) (h : handler) : option verdict :=
  match h with
  | HAllowAll => Some Allowed
  | HDenyAll => Some (Denied ByDenyAll)
  | HIgnore hit => if hit then Some Allowed else None
  | HCapture => None
  | HAllow r =>
      if parsed && ((has_q r && m_q r) || (has_t r && t_all r) || (has_p r && m_p r))
      then Some Allowed else None
  | HDeny r =>
      if negb parsed then None
      else if has_q r && m_q r then Some (Denied ByQuery)
      else if has_t r && t_one r then Some (Denied ByTable)
      else if has_p r && m_p r then Some (Denied ByPattern)
      else None
  end.

Definition opt_list {A} (o : option A) : list A := match o with Some a => [a] | None => [] end.

(** one line: the head of the list of opinions, allowed if nobody has one *)
Definition first_decisive (parsed : bool) (hs : list handler) : verdict :=
  hd Allowed (flat_map (fun h => opt_list (decision parsed h)) hs).

Definition spec_verdict (c : censor) (parsed : bool) (hs : list handler) : verdict :=
  if is_nil hs && negb (has_writer c) then Allowed                                   (* censor switched off *)
  else if negb parsed && negb (ignore_parse_error c) then Denied ByParseError
  else first_decisive parsed hs.

Lemma run_handlers_first_decisive parsed hs :
  run_handlers parsed hs = first_decisive parsed hs.
Proof.
  unfold first_decisive.
  induction hs as [|h tl IH]; [reflexivity|].
  destruct h as [r|r| | |hit| ]; cbn [run_handlers flat_map decision opt_list app hd].
  - unfold check_allow. destruct parsed; cbn [negb andb].
    + destruct (has_q r && m_q r); cbn [orb opt_list app hd negb]; [reflexivity|].
      destruct (has_t r && t_all r); cbn [orb opt_list app hd negb]; [reflexivity|].
      destruct (has_p r && m_p r); cbn [orb opt_list app hd negb]; [reflexivity|exact IH].
    + cbn [opt_list app negb]. exact IH.
  - unfold check_deny. destruct parsed; cbn [negb].
    + destruct (has_q r && m_q r); cbn [opt_list app hd]; [reflexivity|].
      destruct (has_t r && t_one r); cbn [opt_list app hd]; [reflexivity|].
      destruct (has_p r && m_p r); cbn [opt_list app hd negb]; [reflexivity|exact IH].
    + cbn [opt_list app negb]. exact IH.
  - reflexivity.
  - reflexivity.
  - destruct hit; cbn [negb opt_list app hd]; [reflexivity|exact IH].
  - exact IH.
Qed.

Theorem first_decisive_wins c parsed hs :
  handle_query c parsed hs = spec_verdict c parsed hs.
Proof.
  unfold handle_query, spec_verdict.
  destruct (is_nil hs && negb (has_writer c)); [reflexivity|].
  destruct (negb parsed && negb (ignore_parse_error c)); [reflexivity|].
  apply run_handlers_first_decisive.
Qed.

(** a handler that has no opinion is transparent *)
Definition silent (parsed : bool) (h : handler) : Prop := decision parsed h = None.

Lemma first_decisive_skip parsed pre h post :
  Forall (silent parsed) pre ->
  first_decisive parsed (pre ++ h :: post) = first_decisive parsed (h :: post).
Proof.
  intros Hpre. unfold first_decisive.
  induction Hpre as [|x l Hx _ IH]; [reflexivity|].
  cbn [app flat_map]. unfold silent in Hx. rewrite Hx. cbn [opt_list app]. exact IH.
Qed.

(** the censor is "on" as soon as the chain is not empty *)
Lemma chain_not_nil {A} (pre : list A) h post : is_nil (pre ++ h :: post) = false.
Proof. destruct pre; reflexivity. Qed.

(** Property wording, part 1: a parsed statement that matches a deny rule (normalized text, a table,
    or a pattern) of a deny handler that no earlier handler pre-empts is rejected. *)
Theorem deny_rule_match_rejected c pre r post :
  Forall (silent true) pre ->
  (has_q r && m_q r) || (has_t r && t_one r) || (has_p r && m_p r) = true ->
  is_denied (handle_query c true (pre ++ HDeny r :: post)) = true.
Proof.
  intros Hpre Hm. rewrite first_decisive_wins. unfold spec_verdict.
  rewrite chain_not_nil. cbn [andb negb].
  rewrite first_decisive_skip by exact Hpre.
  unfold first_decisive. cbn [flat_map decision negb].
  destruct (has_q r && m_q r); [reflexivity|].
  destruct (has_t r && t_one r); [reflexivity|].
  destruct (has_p r && m_p r); [reflexivity|discriminate Hm].
Qed.

(** part 2: a statement not admitted by the handlers in front of a deny-all terminator is rejected *)
Theorem not_admitted_before_denyall_rejected c parsed pre post :
  Forall (silent parsed) pre ->
  is_denied (handle_query c parsed (pre ++ HDenyAll :: post)) = true.
Proof.
  intros Hpre. rewrite first_decisive_wins. unfold spec_verdict.
  rewrite chain_not_nil. cbn [andb].
  destruct (negb parsed && negb (ignore_parse_error c)); [reflexivity|].
  rewrite first_decisive_skip by exact Hpre. reflexivity.
Qed.

(** part 3: statements that cannot be parsed are rejected unless the configuration tolerates them
    (or the censor is switched off: no handler and no parse-error log) *)
Theorem unparsed_rejected_unless_tolerated c hs :
  ignore_parse_error c = false ->
  (hs <> [] \/ has_writer c = true) ->
  handle_query c false hs = Denied ByParseError.
Proof.
  intros Hi Hon. unfold handle_query. rewrite Hi. cbn [negb andb].
  destruct Hon as [Hne|Hw].
  - destruct hs; [contradiction|reflexivity].
  - rewrite Hw. cbn [negb]. rewrite andb_false_r. reflexivity.
Qed.

(** with tolerance, query/table/pattern rules cannot see an unparsed statement: only allow-all,
    deny-all and ignore handlers decide *)
Definition structural (h : handler) : bool :=
  match h with HAllow _ | HDeny _ | HCapture => false | _ => true end.

Theorem unparsed_tolerated_only_structural c hs :
  ignore_parse_error c = true ->
  handle_query c false hs = first_decisive false (filter structural hs).
Proof.
  intros Hi. rewrite first_decisive_wins. unfold spec_verdict. rewrite Hi. cbn [negb andb].
  assert (E : first_decisive false hs = first_decisive false (filter structural hs)).
  { unfold first_decisive. induction hs as [|h tl IH]; [reflexivity|].
    destruct h as [r|r| | |hit| ]; cbn [filter structural flat_map decision opt_list app negb andb hd];
      try exact IH; try reflexivity.
    destruct hit; cbn [opt_list app hd]; [reflexivity|exact IH]. }
  destruct (is_nil hs && negb (has_writer c)) eqn:Hn; [|exact E].
  destruct hs; [reflexivity|discriminate Hn].
Qed.

(** * Table rule *)

Section Tables.
  Variable set : list bytes.

  Definition one_spec (ks : list bytes) : bool := existsb (in_set set) ks.
  Definition all_spec (ks : list bytes) : bool := forallb (in_set set) ks.

  (** loop invariant of checkTableExprsMatch, given the per-expression facts *)
  Lemma exprs_loop_spec (chk : texpr -> bool * bool) es :
    forall one counter,
      let r := exprs_loop chk es one counter in
      fst r = one || existsb (fun e => fst (chk e)) es
      /\ (snd r = counter + length es <-> forallb (fun e => fst (chk e) && snd (chk e)) es = true)
      /\ snd r <= counter + length es.
  Proof.
    induction es as [|e tl IH]; intros one counter; cbn [exprs_loop existsb forallb length].
    - cbn [fst snd]. rewrite orb_false_r. repeat split; intros; lia.
    - destruct (chk e) as [o a] eqn:He. cbn [fst snd].
      destruct o; cbn [orb andb].
      + destruct a; cbn [andb].
        * specialize (IH true (S counter)). cbn zeta in IH. destruct IH as (I1 & I2 & I3).
          rewrite I1. cbn [orb]. rewrite orb_true_r.
          repeat split; [intros H; apply I2; lia | intros H; apply I2 in H; lia | lia].
        * cbn [fst snd]. rewrite orb_true_r.
          repeat split; [intros H; lia | intros H; discriminate H | lia].
      + specialize (IH one counter). cbn zeta in IH. destruct IH as (I1 & I2 & I3).
        rewrite I1.
        repeat split; [intros H; lia | intros H; discriminate H | lia].
  Qed.

  Lemma check_exprs_with_spec (chk : texpr -> bool * bool) es :
    fst (check_exprs_with chk es) = existsb (fun e => fst (chk e)) es
    /\ snd (check_exprs_with chk es) = forallb (fun e => fst (chk e) && snd (chk e)) es.
  Proof.
    unfold check_exprs_with.
    pose proof (exprs_loop_spec chk es false 0) as H. cbn zeta in H.
    destruct (exprs_loop chk es false 0) as [one counter]. cbn [fst snd] in *.
    destruct H as (H1 & H2 & H3). split; [exact H1|].
    destruct (forallb _ es) eqn:Hf.
    - apply Nat.eqb_eq. apply H2. reflexivity.
    - apply Nat.eqb_neq. intros Hc. assert (X : false = true) by (apply H2; lia). discriminate X.
  Qed.

  (** induction principle for the nested type *)
  Lemma texpr_ind' (P : texpr -> Prop) :
    (forall k, P (TAliased k)) ->
    (forall k inner, P (TSub k inner)) ->
    (forall l r, P l -> P r -> P (TJoin l r)) ->
    (forall es, Forall P es -> P (TParen es)) ->
    forall e, P e.
  Proof.
    intros Ha Hs Hj Hp.
    fix IH 1. intros [k|k inner|l r|es].
    - apply Ha.
    - apply Hs.
    - apply Hj; apply IH.
    - apply Hp. induction es as [|x tl IHl]; constructor; [apply IH|exact IHl].
  Qed.

  (** deny direction, unconditional: "at least one" = some visible table is in the set *)
  Lemma check_expr_one e : fst (check_expr set e) = one_spec (leaves e).
  Proof.
    induction e as [k|k inner|l r IHl IHr|es IHes] using texpr_ind'.
    - cbn. rewrite orb_false_r. reflexivity.
    - cbn. rewrite orb_false_r. reflexivity.
    - cbn [check_expr leaves]. destruct (check_expr set l) as [ol al], (check_expr set r) as [or_ ar].
      cbn [fst] in *. unfold one_spec in *. rewrite existsb_app, IHl, IHr. reflexivity.
    - cbn [check_expr leaves]. rewrite (proj1 (check_exprs_with_spec _ es)).
      unfold one_spec in *. induction IHes as [|x tl Hx _ IHt]; [reflexivity|].
      cbn [existsb flat_map]. rewrite existsb_app, Hx, IHt. reflexivity.
  Qed.

  (** allow direction: "all" implies every visible table is in the set (no premise) *)
  Lemma check_expr_all_sound e : snd (check_expr set e) = true -> all_spec (leaves e) = true.
  Proof.
    induction e as [k|k inner|l r IHl IHr|es IHes] using texpr_ind'.
    - cbn. intros ->. reflexivity.
    - cbn. intros ->. reflexivity.
    - cbn [check_expr leaves]. destruct (check_expr set l) as [ol al], (check_expr set r) as [or_ ar].
      cbn [snd] in *. intros H. apply andb_true_iff in H. destruct H as [H1 H2].
      unfold all_spec in *. rewrite forallb_app, IHl, IHr by assumption. reflexivity.
    - cbn [check_expr leaves]. rewrite (proj2 (check_exprs_with_spec _ es)).
      unfold all_spec in *. induction IHes as [|x tl Hx _ IHt]; [reflexivity|].
      cbn [forallb flat_map]. intros H. apply andb_true_iff in H. destruct H as [H1 H2].
      apply andb_true_iff in H1. destruct H1 as [_ H1].
      rewrite forallb_app, Hx, IHt by assumption. reflexivity.
  Qed.

  Fixpoint wf_all (l : list texpr) : Prop := match l with [] => True | x :: t => wf x /\ wf_all t end.

  Lemma wf_paren es : wf (TParen es) <-> es <> [] /\ wf_all es.
  Proof.
    cbn [wf]. split; intros [H1 H2]; split; try exact H1;
      induction es as [|x t IH]; cbn in *; try exact I; destruct H2; split; auto;
      apply IH; auto; discriminate.
  Qed.

  (** for expressions the grammar can produce: "all" = every visible table is in the set, and then
      also at least one *)
  Lemma check_expr_all_wf e :
    wf e ->
    snd (check_expr set e) = all_spec (leaves e)
    /\ (snd (check_expr set e) = true -> fst (check_expr set e) = true).
  Proof.
    induction e as [k|k inner|l r IHl IHr|es IHes] using texpr_ind'; intros Hwf.
    - cbn. rewrite andb_true_r. auto.
    - cbn. rewrite andb_true_r. auto.
    - cbn [wf] in Hwf. destruct Hwf as [Hl Hr].
      destruct (IHl Hl) as [L1 L2], (IHr Hr) as [R1 R2].
      cbn [check_expr leaves]. destruct (check_expr set l) as [ol al], (check_expr set r) as [or_ ar].
      cbn [fst snd] in *. unfold all_spec in *. rewrite forallb_app, <- L1, <- R1. split; [reflexivity|].
      intros H. apply andb_true_iff in H. destruct H as [H1 H2]. rewrite L2 by exact H1. reflexivity.
    - apply wf_paren in Hwf. destruct Hwf as [Hne Hall].
      cbn [check_expr leaves].
      destruct (check_exprs_with_spec (check_expr set) es) as [E1 E2]. rewrite E1, E2. clear E1 E2.
      assert (G : forallb (fun e => fst (check_expr set e) && snd (check_expr set e)) es
                  = all_spec (flat_map leaves es)).
      { clear Hne. unfold all_spec. induction IHes as [|x tl Hx _ IHt]; [reflexivity|].
        cbn [wf_all] in Hall. destruct Hall as [Hwx Hwt].
        cbn [forallb flat_map]. rewrite forallb_app, <- IHt by exact Hwt.
        destruct (Hx Hwx) as [X1 X2]. unfold all_spec in X1. rewrite <- X1.
        destruct (snd (check_expr set x)) eqn:Hs.
        - rewrite X2 by reflexivity. reflexivity.
        - rewrite andb_false_r. reflexivity. }
      split; [exact G|].
      intros H. destruct es as [|x tl]; [contradiction|].
      cbn [forallb existsb] in *. apply andb_true_iff in H. destruct H as [H _].
      apply andb_true_iff in H. destruct H as [H _]. rewrite H. reflexivity.
  Qed.

  (** statement level (CheckTableNamesMatch) *)
  Definition visible_tables (s : stmt_tables) : list bytes :=
    match s with
    | STSelect from => flat_map leaves from
    | STInsert t => [t]
    | STOther => []
    end.

  Lemma check_exprs_one es : fst (check_exprs set es) = one_spec (flat_map leaves es).
  Proof. exact (check_expr_one (TParen es)). Qed.

  Lemma check_exprs_all_sound es : snd (check_exprs set es) = true -> all_spec (flat_map leaves es) = true.
  Proof. exact (check_expr_all_sound (TParen es)). Qed.

  (** deny tables: the statement is caught iff one of the tables it selects from (as far as the
      matcher looks: FROM list, joins, parentheses) or inserts into is listed *)
  Theorem table_rule_deny s :
    fst (check_table_names set s) = true <-> exists t, In t (visible_tables s) /\ in_set set t = true.
  Proof.
    destruct s as [from|t|]; cbn [check_table_names visible_tables].
    - rewrite check_exprs_one. unfold one_spec. rewrite existsb_exists. reflexivity.
    - cbn [fst]. split.
      + intros H. exists t. split; [left; reflexivity|exact H].
      + intros (t' & [<-|[]] & H). exact H.
    - cbn. split; [discriminate|]. intros (t & [] & _).
  Qed.

  (** allow tables: the statement is admitted only if ALL tables the matcher sees are listed *)
  Theorem table_rule_allow_sound s :
    snd (check_table_names set s) = true -> forall t, In t (visible_tables s) -> in_set set t = true.
  Proof.
    destruct s as [from|t|]; cbn [check_table_names visible_tables].
    - intros H. apply check_exprs_all_sound in H. unfold all_spec in H.
      rewrite forallb_forall in H. exact H.
    - cbn [snd]. intros H t' [<-|[]]. exact H.
    - discriminate.
  Qed.

  Theorem table_rule_allow_complete from :
    from <> [] -> wf_all from ->
    (forall t, In t (flat_map leaves from) -> in_set set t = true) ->
    snd (check_table_names set (STSelect from)) = true.
  Proof.
    intros Hne Hwf Hall. cbn [check_table_names].
    assert (W : wf (TParen from)) by (apply wf_paren; auto).
    destruct (check_expr_all_wf (TParen from) W) as [E _].
    change (check_exprs set from) with (check_expr set (TParen from)). rewrite E.
    unfold all_spec. apply forallb_forall. exact Hall.
  Qed.
End Tables.

(** The wording "by a table it reads from" is NOT met for tables read inside a sub-select in FROM:
    the matcher compares the printed sub-select with the table names and never looks inside
    (same for UNION, sub-selects in WHERE, INSERT ... SELECT, UPDATE, DELETE: [STOther]/invisible). *)
Definition nested_witness : texpr :=
  TSub (hb 0x12873656c656374206e2066726f6d207365637265747329%N) [TAliased (hb 0x173656372657473%N)].

Theorem table_rule_nested_read_refuted :
  exists set e t, In t (reads e) /\ in_set set t = true /\ fst (check_expr set e) = false.
Proof.
  exists [hb 0x173656372657473%N], nested_witness, (hb 0x173656372657473%N).
  split; [left; reflexivity|]. split; vm_compute; reflexivity.
Qed.

(** what IS proved for reads: without sub-selects the visible tables are all tables read *)
Fixpoint no_sub (e : texpr) : Prop :=
  match e with
  | TAliased _ => True
  | TSub _ _ => False
  | TJoin l r => no_sub l /\ no_sub r
  | TParen es => (fix all (l : list texpr) : Prop := match l with [] => True | x :: t => no_sub x /\ all t end) es
  end.

Lemma reads_leaves_no_sub e : no_sub e -> reads e = leaves e.
Proof.
  induction e as [k|k inner|l r IHl IHr|es IHes] using texpr_ind'; intros H.
  - reflexivity.
  - destruct H.
  - cbn in H. destruct H as [H1 H2]. cbn [reads leaves]. rewrite IHl, IHr by assumption. reflexivity.
  - cbn [reads leaves]. cbn [no_sub] in H.
    induction IHes as [|x tl Hx _ IHt]; [reflexivity|].
    destruct H as [H1 H2]. cbn [flat_map]. rewrite Hx, IHt by assumption. reflexivity.
Qed.

Theorem table_rule_deny_reads_partial set e t :
  no_sub e -> In t (reads e) -> in_set set t = true -> fst (check_expr set e) = true.
Proof.
  intros Hn Hin Hs. rewrite reads_leaves_no_sub in Hin by exact Hn.
  rewrite check_expr_one. unfold one_spec. apply existsb_exists. exists t. auto.
Qed.

(** * Chain and table rule together (the table rule evaluated by the model: [rules_of]) *)

Lemma in_set_not_nil ts t : in_set ts t = true -> is_nil ts = false.
Proof. destruct ts; [discriminate|reflexivity]. Qed.

(** a deny handler listing a table the statement shows in its FROM tree (at any depth of joins and
    parentheses, on either side of a join) or inserts into rejects the statement *)
Theorem deny_table_visible_rejected c pre post s hq mq ts hp mp t :
  Forall (silent true) pre ->
  In t (visible_tables s) -> in_set ts t = true ->
  is_denied (handle_query c true (pre ++ HDeny (rules_of s hq mq ts hp mp) :: post)) = true.
Proof.
  intros Hpre Hin Hs. apply deny_rule_match_rejected; [exact Hpre|].
  assert (H1 : fst (check_table_names ts s) = true) by (apply table_rule_deny; exists t; auto).
  unfold rules_of. destruct (check_table_names ts s) as [one all]. cbn [fst] in H1. subst one.
  cbn [has_t t_one]. rewrite (in_set_not_nil ts t Hs). cbn [negb andb].
  rewrite orb_true_r. reflexivity.
Qed.

(** an allow handler with only a `tables:` list in front of denyall: a statement showing a table that is
    not listed is rejected *)
Theorem allow_tables_then_denyall_rejected c pre post s ts t :
  Forall (silent true) pre ->
  In t (visible_tables s) -> in_set ts t = false ->
  is_denied (handle_query c true (pre ++ HAllow (rules_of s false false ts false false) :: HDenyAll :: post)) = true.
Proof.
  intros Hpre Hin Hs.
  replace (pre ++ HAllow (rules_of s false false ts false false) :: HDenyAll :: post)
    with ((pre ++ [HAllow (rules_of s false false ts false false)]) ++ HDenyAll :: post)
    by (rewrite <- app_assoc; reflexivity).
  apply not_admitted_before_denyall_rejected.
  apply Forall_app. split; [exact Hpre|]. constructor; [|constructor].
  unfold silent, rules_of.
  destruct (check_table_names ts s) as [one all] eqn:E. cbn [decision has_q m_q has_t t_all has_p m_p andb orb].
  destruct all.
  - exfalso. assert (H : in_set ts t = true).
    { apply (table_rule_allow_sound ts s); [rewrite E; reflexivity|exact Hin]. }
    rewrite H in Hs. discriminate.
  - rewrite andb_false_r. reflexivity.
Qed.
