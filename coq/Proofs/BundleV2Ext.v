(** Proofs about Model/BundleV2Ext.v. *)
From Coq Require Import List NArith ZArith Bool Lia.
From Acra Require Import Lib.Bytes Lib.Outcome Crypto.Interface Gen.KsConsts Gen.X18Consts
  Model.KeyAtRest Model.Notary Model.DerV2Ext Model.KeyRingV2Ext Model.BundleV2Ext
  Proofs.Notary Proofs.DerV2Ext Proofs.KeyRingV2Ext.
Import ListNotations.

Section BundleProofs.
  Variable mac : bytes -> bytes -> bytes.
  Variable C : crypto.

  (** a bundle that does not open (modified container, wrong access keys) changes nothing *)
  Theorem rejected_bundle_target_unchanged algs sigs enc_key payload enc master deleg b tape :
    (forall ser, open_bundle mac C algs sigs enc_key payload enc <> Ok ser) ->
    let i := import_bundle mac C algs sigs enc_key payload enc master deleg b tape in
    im_b i = b /\ im_events i = [] /\ im_tape i = tape /\ im_res i <> Ok tt.
  Proof.
    intros Hno. unfold import_bundle.
    destruct (open_bundle mac C algs sigs enc_key payload enc) as [ser|e|]; [now destruct (Hno ser)| |]; cbn;
      repeat split; discriminate.
  Qed.

  (** reduction: whatever is presented to ImportKeyRings, either the target is untouched, or the
      container carries a valid MAC over its payload — which the exporter produced, or which is a
      forgery — and the ciphertext opens under the access encryption key *)
  Theorem modified_bundle_rejected_or_forgery algs sigs enc_key payload enc master deleg b tape (signed : list bytes) :
    let i := import_bundle mac C algs sigs enc_key payload enc master deleg b tape in
    (im_b i = b /\ im_events i = []) \/
    ((In (mac_input V2_EXPORT_CTX payload) signed \/ mac_forgery mac algs sigs signed) /\
     exists ser, cell_decrypt C enc_key V2_EXPORT_CTX enc = Some ser).
  Proof.
    cbn zeta. unfold import_bundle.
    destruct (open_bundle mac C algs sigs enc_key payload enc) as [ser|e|] eqn:Ho; [|left; now cbn|left; now cbn].
    right. apply open_bundle_sound in Ho. destruct Ho as [[o [s [k [H1 [H2 H3]]]]] Hd].
    split; [|now exists ser].
    destruct (in_dec (list_eq_dec Byte.byte_eq_dec) (mac_input V2_EXPORT_CTX payload) signed) as [Hin|Hn]; [now left|].
    right. exists o, s, k, (mac_input V2_EXPORT_CTX payload). repeat split; assumption.
  Qed.

  (** the honest path: importing what ExportKeyRings produced = importing the exported rings in the
      order of the DER SET *)
  Theorem import_of_export_bundle (HC : Correct C) oid sign_key enc_key nonce payload smaster sb mode paths rs
          tmaster deleg tb tape :
    export_rings C smaster sb mode paths = Ok rs ->
    enc_key <> [] -> length nonce = NONCE_LEN -> wf_rings rs ->
    (N.of_nat (length (der_rings rs)) < MAXMSG)%N ->
    import_bundle mac C [(oid, sign_key)] (sign_data mac [(oid, sign_key)] payload V2_EXPORT_CTX) enc_key payload
                  (seal_enc C enc_key V2_EXPORT_CTX nonce (der_rings rs)) tmaster deleg tb tape
    = import_rings C tmaster deleg tb tape (sorted_rings rs).
  Proof.
    intros He Hk Hn Hwf Hlen. unfold import_bundle.
    rewrite (bundle_round_trip mac C oid sign_key enc_key nonce (der_rings rs) payload HC Hk); try assumption.
    - now rewrite parse_der_rings.
    - unfold der_rings, tlv. discriminate.
  Qed.
End BundleProofs.
