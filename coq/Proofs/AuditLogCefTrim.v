(** CefLogParser.ParseEntry trims ONLY the text after the " integrity=" token ("we need to trim additional
    space provided by cef"); RawData — the authenticated bytes — is the text before the token, byte for byte,
    blanks at either end included.  CEFTextFormatter writes an empty value as one blank, so an entry whose last
    (sorted) extension field is empty ends in "name= " and that blank is authenticated by the hook.

    - [cef_written_rawdata]: for EVERY formatted entry the hook accepts, the written line parses back to
      RawData = the bytes the hook authenticated (= formatted minus the formatter's " \n"), whatever they end in;
    - [ws_insert_changes_rawdata]: blanks inserted at the start of a written line / right before the token
      reach RawData (they are not trimmed away) …
    - [ws_insert_detected_at_once]: … so such a line is rejected AT that line, or SHA-256 collides;
    - [trim_space_removes_blanks]: the model's TrimSpace does remove those blanks (the statement above is
      about where the parser applies it, not about a weak trim);
    - examples with an entry ending in "zone= ". *)
From Coq Require Import String.
From Acra Require Import Lib.Bytes Lib.Outcome Lib.Sha256 Gen.AuditLogConsts Model.AuditLog
  Proofs.AuditLogCrypto Proofs.AuditLogParse Proofs.AuditLog Proofs.AuditLogWitness.

Lemma calc_step_agg_nonempty c body : fst (fst (calc_step c body)) <> [].
Proof.
  unfold calc_step. cbn [fst]. intro H. apply (f_equal (@length byte)) in H.
  rewrite sha256_length in H. cbn in H. discriminate.
Qed.

(** what the hook writes for one formatted entry, parsed by the verifier's parser *)
Theorem cef_written_rawdata (cef : bool) (c : calc) (formatted body chunk : bytes) (c' : calc) :
  body_of cef formatted = Ok body ->
  post_format cef c formatted = Ok (chunk, c') ->
  parse_text cef (unnl chunk)
  = POk (mk_parsed body (fst (fst (calc_step c body))) (first_check c) (end_marked body)).
Proof.
  intros Hb Hp. unfold post_format in Hp. unfold body_of in Hb. rewrite Hb in Hp. cbn [bind] in Hp.
  unfold append_integrity in Hp. destruct (calc_step c body) as [[agg nc] c1] eqn:E.
  injection Hp as <- <-. unfold unnl. rewrite removelast_last.
  cbn [fst]. pose proof (calc_step_agg_nonempty c body) as Hne. rewrite E in Hne. cbn [fst] in Hne.
  rewrite (parse_honest cef body agg nc Hne).
  assert (nc = first_check c) as ->.
  { unfold calc_step in E. injection E as _ <- _. reflexivity. }
  reflexivity.
Qed.

(** the CEF instance, with the formatter's output spelled out: [body ++ " \n"] *)
Corollary cef_written_rawdata_trailing (c : calc) (body : bytes) :
  exists chunk c', post_format true c (body ++ [x20; x0a]) = Ok (chunk, c') /\
  match parse_text true (unnl chunk) with POk p => p_raw p = body | _ => False end.
Proof.
  assert (body_of true (body ++ [x20; x0a]) = Ok body) as Hb.
  { unfold body_of, trunc, TRUNC_CEF. rewrite app_length. cbn [length].
    replace (Nat.leb 2 (length body + 2)) with true by (symmetry; apply Nat.leb_le; lia).
    replace (length body + 2 - 2) with (length body) by lia.
    rewrite firstn_app, firstn_all, Nat.sub_diag. cbn [firstn]. rewrite app_nil_r. reflexivity. }
  destruct (post_format true c (body ++ [x20; x0a])) as [[chunk c']| |] eqn:E.
  - exists chunk, c'. split; [reflexivity|]. rewrite (cef_written_rawdata true c _ body chunk c' Hb E). reflexivity.
  - exfalso. unfold post_format in E. unfold body_of in Hb. rewrite Hb in E. cbn [bind] in E.
    destruct (append_integrity c body). discriminate.
  - exfalso. unfold post_format in E. unfold body_of in Hb. rewrite Hb in E. cbn [bind] in E.
    destruct (append_integrity c body). discriminate.
Qed.

(** blanks (any bytes, in fact) put in front of the line or in front of the token are part of RawData *)
Theorem ws_insert_changes_rawdata (cef : bool) (body pre post agg : bytes) (nc : bool) :
  agg <> [] -> pre ++ post <> [] ->
  exists p, parse_text cef ((pre ++ body ++ post) ++ suffix_of agg nc) = POk p /\
            p_raw p = pre ++ body ++ post /\ p_raw p <> body /\ p_integ p = agg.
Proof.
  intros Hne Hw. eexists. split; [apply parse_honest, Hne|]. cbn [p_raw p_integ]. repeat split.
  intro H. apply (f_equal (@length byte)) in H. rewrite !app_length in H.
  destruct pre, post; cbn in *; try lia. congruence.
Qed.

(** … hence the edited line, carrying the original integrity value, is rejected at once (inside a chain) *)
Theorem ws_insert_detected_at_once (cef : bool) K st st' (c : calc) (body pre post : bytes) :
  v_calc st = c -> length (ck c) = 32 -> first_check c = false -> pre ++ post <> [] ->
  let agg := fst (fst (calc_step c body)) in
  (forall p, parse_text cef ((pre ++ body ++ post) ++ suffix_of agg false) = POk p ->
             verify_step K st p = inl st' -> sha_collision).
Proof.
  intros Hc HL HF Hw agg p Hp Hv.
  destruct (ws_insert_changes_rawdata cef body pre post agg false (calc_step_agg_nonempty c body) Hw)
    as (p' & Hp' & Hr & Hd & Hi).
  rewrite Hp in Hp'. injection Hp' as <-.
  assert (p_new p = false) as Hn.
  { rewrite parse_honest in Hp by apply calc_step_agg_nonempty. injection Hp as <-. reflexivity. }
  destruct (edit_keeping_check_detected_at_once K st st' p c body Hc HL Hn Hi Hv) as [E|C]; [contradiction|exact C].
Qed.

(** the model's strings.TrimSpace is not the weak link: it strips these blanks when applied *)
Example trim_space_removes_blanks :
  trim_space (s "  " ++ [x09] ++ s "zone=" ++ [x20; xc2; xa0; x09]) = s "zone=" /\
  trim_space (s "zone= ") = s "zone=" /\ trim_space (s " ") = [].
Proof. vm_compute. repeat split; reflexivity. Qed.

(** a CEF history whose second entry ends in an empty last field ("zone= "), a third one in an empty field
    BEFORE unixTime: the log verifies, RawData of the second line ends in the blank, and the two
    whitespace edits of that line (blank removed / blank added before the token, blank at the start) are
    rejected at that line *)
Definition ev_cef_blank : list wev :=
  [ WFmt (s "CEF:0|cossacklabs|acra|0.96.0|100|first|1|client_id=alice unixTime=1.000 " ++ nl);
    WFmt (s "CEF:0|cossacklabs|acra|0.96.0|100|second|1|unixTime=2.000 zone=  " ++ nl);
    WFmt (s "CEF:0|cossacklabs|acra|0.96.0|100|third|1|a=  unixTime=3.000 " ++ nl) ].
Definition ch_cef_blank : list bytes :=
  Eval vm_compute in match write_text true (calc_new wK) ev_cef_blank with Ok c => c | _ => [] end.
Definition ln_cef_blank (i : nat) : bytes := unnl (nth i ch_cef_blank []).
Definition raw_of (p : pres) : bytes := match p with POk q => p_raw q | _ => [] end.

(** textual edit of line 1: [n] bytes of the authenticated part kept, [ins] put there *)
Definition edit1_at (n : nat) (drop : nat) (ins : bytes) : list bytes :=
  let l := ln_cef_blank 1 in
  [ln_cef_blank 0; firstn n l ++ ins ++ skipn (n + drop) l; ln_cef_blank 2].
Definition body1_len : nat := length (s "CEF:0|cossacklabs|acra|0.96.0|100|second|1|unixTime=2.000 zone= ").

Example cef_trailing_blank_example :
  write_text true (calc_new wK) ev_cef_blank = Ok ch_cef_blank /\ wf_evs true wK None ev_cef_blank = true /\
  verify_lines true wK (map unnl ch_cef_blank) = VAccept /\
  verify_file true wK (concat ch_cef_blank) = VAccept /\
  raw_of (parse_text true (ln_cef_blank 1)) = s "CEF:0|cossacklabs|acra|0.96.0|100|second|1|unixTime=2.000 zone= " /\
  raw_of (parse_text true (ln_cef_blank 2)) = s "CEF:0|cossacklabs|acra|0.96.0|100|third|1|a=  unixTime=3.000" /\
  verify_lines true wK (edit1_at (body1_len - 1) 1 []) = VFail 1 C_MISMATCH /\       (* trailing blank removed *)
  verify_lines true wK (edit1_at body1_len 0 [x20]) = VFail 1 C_MISMATCH /\          (* blank added before the token *)
  verify_lines true wK (edit1_at body1_len 0 [x09]) = VFail 1 C_MISMATCH /\
  verify_lines true wK (edit1_at 0 0 [x20]) = VFail 1 C_MISMATCH /\                  (* blank at the start of the line *)
  verify_lines true wK (edit1_at (length (ln_cef_blank 1)) 0 [x20; x09]) = VAccept.  (* blanks after the value: trimmed *)
Proof. vm_compute. repeat split; reflexivity. Qed.
