(** Proofs about the checked Bind / Parse / Execute decoders of Model/PgWire.v. *)
From Acra Require Import Lib.Bytes Lib.Outcome Lib.GoSlice Gen.WireConsts Model.PgWire.
From Coq Require Import ZifyN ZifyNat ZifyBool.

(** [gmake_chk] is the run-time check of [gmake] *)
Lemma gmake_chk_gmake n : gmake_chk n = Panic <-> gmake n = Panic.
Proof. unfold gmake_chk, gmake. destruct ((0 <=? n)%Z && (n <=? MAXALLOC)%Z); split; intros H; try discriminate; reflexivity. Qed.

Lemma gmake_chk_ok n : (0 <= n)%Z -> (n <= MAXALLOC)%Z -> gmake_chk n = Ok tt.
Proof.
  intros H1 H2. unfold gmake_chk. destruct (Z.leb_spec 0 n); [|lia]. destruct (Z.leb_spec n MAXALLOC); [|lia]. reflexivity.
Qed.
Local Open Scope N_scope.

(** * slicing an explicit concatenation *)
Lemma gslice_to_app (h t : bytes) (n : Z) : n = len h -> gslice_to n (h ++ t) = Ok h.
Proof.
  intros ->.
  rewrite gslice_to_ok by (rewrite ?len_app; pose proof (len_nonneg h); pose proof (len_nonneg t); lia).
  unfold len. rewrite Nat2Z.id. f_equal. apply firstn_app_len.
Qed.

Lemma gslice_from_app (h t : bytes) (n : Z) : n = len h -> gslice_from n (h ++ t) = Ok t.
Proof.
  intros ->.
  rewrite gslice_from_ok by (rewrite ?len_app; pose proof (len_nonneg h); pose proof (len_nonneg t); lia).
  unfold len. rewrite Nat2Z.id. f_equal. apply skipn_app_len.
Qed.

Lemma skipn_skipn_add {A} (x y : nat) (l : list A) : skipn x (skipn y l) = skipn (x + y) l.
Proof.
  revert l; induction y as [|y IH]; intros l.
  - rewrite Nat.add_0_r. reflexivity.
  - rewrite Nat.add_succ_r. destruct l as [|a l]; cbn [skipn]; [apply skipn_nil| apply IH].
Qed.

Lemma split_at (n : nat) (r : bytes) : (n <= length r)%nat ->
  exists h t : bytes, r = h ++ t /\ length h = n.
Proof.
  intros H. exists (firstn n r), (skipn n r).
  split; [symmetry; apply firstn_skipn| rewrite firstn_length; lia].
Qed.

Lemma be_u16_2 (h : bytes) : length h = 2%nat -> be_u16 h = Ok (be_dec h).
Proof.
  intros H. unfold be_u16. rewrite (gindex_ok 1 h) by (unfold len; lia). cbn [Outcome.bind].
  rewrite firstn_all2 by lia. reflexivity.
Qed.

Lemma be_u32_4 (h : bytes) : length h = 4%nat -> be_u32 h = Ok (be_dec h).
Proof.
  intros H. unfold be_u32. rewrite (gindex_ok 3 h) by (unfold len; lia). cbn [Outcome.bind].
  rewrite firstn_all2 by lia. reflexivity.
Qed.

Lemma be_dec_2_lt (h : bytes) : length h = 2%nat -> be_dec h < 65536.
Proof. intros H. pose proof (be_dec_lt h) as L. rewrite H in L. exact L. Qed.

Lemma be_dec_4_lt (h : bytes) : length h = 4%nat -> be_dec h < 4294967296.
Proof. intros H. pose proof (be_dec_lt h) as L. rewrite H in L. exact L. Qed.

Lemma be_enc_dec_2 (h : bytes) : length h = 2%nat -> be_enc 2 (be_dec h) = h.
Proof. intros H. pose proof (be_enc_dec h) as E. rewrite H in E. exact E. Qed.

Lemma be_enc_dec_4 (h : bytes) : length h = 4%nat -> be_enc 4 (be_dec h) = h.
Proof. intros H. pose proof (be_enc_dec h) as E. rewrite H in E. exact E. Qed.

(** * the terminator search *)
Lemma index_of_nul_spec (data : bytes) : forall e, index_of [x00] data = Some e ->
  exists a r : bytes, data = a ++ x00 :: r /\ length a = e /\ ~ In x00 a.
Proof.
  induction data as [|y s IH]; intros e; cbn [index_of starts_with].
  - discriminate.
  - destruct (byte_eqb x00 y) eqn:E; cbn [andb].
    + intros [= <-]. apply byte_eqb_eq in E. subst y. exists [], s. cbn. repeat split; auto.
    + destruct (index_of [x00] s) as [k|] eqn:Ek; cbn [option_map]; [|discriminate].
      intros [= <-]. destruct (IH k eq_refl) as (a & r & Hs & Hl & Hn). subst s.
      exists (y :: a), r. cbn [app length In]. repeat split; [lia|].
      intros [H|H]; [subst y; rewrite byte_eqb_refl in E; discriminate| auto].
Qed.

Lemma index_of_nul_app (a r : bytes) : ~ In x00 a -> index_of [x00] (a ++ x00 :: r) = Some (length a).
Proof.
  induction a as [|y a IH]; intros H; cbn [app index_of starts_with length].
  - rewrite byte_eqb_refl. reflexivity.
  - destruct (byte_eqb x00 y) eqn:E.
    { apply byte_eqb_eq in E. exfalso. apply H. left. auto. }
    cbn [andb]. rewrite IH by (intros H'; apply H; right; exact H'). reflexivity.
Qed.

Lemma index_nul_range (data : bytes) : index_nul data = (-1)%Z \/ (0 <= index_nul data < len data)%Z.
Proof.
  unfold index_nul. destruct (index_of [x00] data) as [e|] eqn:E; [right|left; reflexivity].
  destruct (index_of_nul_spec data e E) as (a & r & Hd & Hl & Hn). subst data.
  unfold len. rewrite app_length. cbn [length]. lia.
Qed.

(** * readString *)
Lemma read_cstring_app (a r : bytes) : ~ In x00 a -> read_cstring (a ++ x00 :: r) = Ok (a, r).
Proof.
  intros Hn. unfold read_cstring, index_nul. rewrite index_of_nul_app by exact Hn. cbv zeta.
  destruct (Z.eqb_spec (Z.of_nat (length a)) (-1)); [lia|].
  rewrite gslice_to_app by reflexivity. cbn [Outcome.bind].
  replace (a ++ x00 :: r) with ((a ++ [x00]) ++ r) by (rewrite <- app_assoc; reflexivity).
  rewrite gslice_from_app by (unfold len; rewrite app_length; cbn [length]; lia). reflexivity.
Qed.

Lemma read_cstring_cases (data : bytes) :
  (exists e, read_cstring data = Err e) \/
  exists a r : bytes, data = a ++ x00 :: r /\ ~ In x00 a /\ read_cstring data = Ok (a, r).
Proof.
  destruct (index_of [x00] data) as [e|] eqn:E.
  - right. destruct (index_of_nul_spec data e E) as (a & r & Hd & Hl & Hn). exists a, r.
    split; [exact Hd|]. split; [exact Hn|]. subst data. apply read_cstring_app, Hn.
  - left. exists E_TERMINATOR. unfold read_cstring, index_nul. rewrite E. reflexivity.
Qed.

Theorem wire_pg_read_cstring_total (data : bytes) : read_cstring data <> Panic.
Proof.
  destruct (read_cstring_cases data) as [[e He]|(a & r & _ & _ & He)]; rewrite He; discriminate.
Qed.

(** * readUint16Array *)
Definition u16_items_bytes (vs : list N) : bytes := concat (map (be_enc 2) vs).

Lemma read_u16_items_spec (k : nat) : forall r : bytes, (2 * Z.of_nat k <= len r)%Z ->
  exists (vs : list N) (r' : bytes),
    r = u16_items_bytes vs ++ r' /\ length vs = k /\ Forall (fun v => v < 65536) vs /\
    read_u16_items k r = Ok (vs, r').
Proof.
  induction k as [|k IH]; intros r Hr.
  - exists [], r. cbn. repeat split; auto.
  - destruct (split_at 2 r) as (h & t & Hrt & Hh); [unfold len in Hr; lia|]. subst r.
    cbn [read_u16_items].
    rewrite gslice_to_app by (unfold len; lia). cbn [Outcome.bind].
    rewrite be_u16_2 by exact Hh. cbn [Outcome.bind].
    rewrite gslice_from_app by (unfold len; lia). cbn [Outcome.bind].
    destruct (IH t) as (vs & r' & Ht & Hl & Hf & Hok).
    { rewrite len_app in Hr. unfold len in *. lia. }
    rewrite Hok. cbn [Outcome.bind]. exists (be_dec h :: vs), r'.
    unfold u16_items_bytes in *. cbn [map concat length]. rewrite be_enc_dec_2 by exact Hh.
    rewrite <- app_assoc, <- Ht. repeat split; [lia|].
    constructor; [apply be_dec_2_lt, Hh| exact Hf].
Qed.

Lemma u16_items_bytes_length vs : length (u16_items_bytes vs) = (2 * length vs)%nat.
Proof.
  unfold u16_items_bytes. induction vs as [|v vs IH]; cbn [map concat length]; [reflexivity|].
  rewrite app_length, be_enc_length, IH. lia.
Qed.

Lemma read_u16_items_app (vs : list N) (r' : bytes) : Forall (fun v => v < 65536) vs ->
  read_u16_items (length vs) (u16_items_bytes vs ++ r') = Ok (vs, r').
Proof.
  unfold u16_items_bytes. induction vs as [|v vs IH]; intros Hf; cbn [map concat length read_u16_items app].
  - reflexivity.
  - inversion Hf as [|v0 vs0 Hv Hf']; subst. rewrite <- app_assoc.
    rewrite gslice_to_app by (unfold len; rewrite be_enc_length; lia). cbn [Outcome.bind].
    rewrite be_u16_2 by apply be_enc_length. cbn [Outcome.bind].
    rewrite gslice_from_app by (unfold len; rewrite be_enc_length; lia). cbn [Outcome.bind].
    rewrite IH by exact Hf'. cbn [Outcome.bind].
    rewrite be_dec_enc_small by (cbn; lia). reflexivity.
Qed.

Definition u16_array_bytes (vs : list N) : bytes := be_enc 2 (N.of_nat (length vs)) ++ u16_items_bytes vs.

Lemma read_u16_array_cases (data : bytes) :
  (exists e, read_u16_array data = Err e) \/
  exists (vs : list N) (r' : bytes),
    data = u16_array_bytes vs ++ r' /\ N.of_nat (length vs) < 65536 /\ Forall (fun v => v < 65536) vs /\
    read_u16_array data = Ok (vs, r').
Proof.
  unfold read_u16_array. destruct (Z.ltb_spec (len data) 2) as [Hl|Hl]; [left; eauto|].
  destruct (split_at 2 data) as (h & t & Hd & Hh); [unfold len in Hl; lia|]. subst data.
  rewrite gslice_to_app by (unfold len; lia). cbn [Outcome.bind].
  rewrite be_u16_2 by exact Hh. cbn [Outcome.bind].
  rewrite gslice_from_app by (unfold len; lia). cbn [Outcome.bind]. cbv zeta.
  pose proof (be_dec_2_lt h Hh) as Hc. unfold int_of_u16.
  destruct (Z.ltb_spec (len t) (2 * Z.of_N (be_dec h))) as [Ht|Ht]; [left; eauto|].
  rewrite gmake_chk_ok by (unfold MAXALLOC; lia). cbn [Outcome.bind].
  destruct (read_u16_items_spec (Z.to_nat (Z.of_N (be_dec h))) t) as (vs & r' & Htt & Hlv & Hf & Hok); [lia|].
  right. exists vs, r'. unfold u16_array_bytes. rewrite <- app_assoc, <- Htt.
  replace (N.of_nat (length vs)) with (be_dec h) by lia. rewrite be_enc_dec_2 by exact Hh.
  repeat split; [exact Hc| exact Hf| exact Hok].
Qed.

Theorem wire_pg_read_u16_array_total (data : bytes) : read_u16_array data <> Panic.
Proof.
  destruct (read_u16_array_cases data) as [[e He]|(a & r & _ & _ & _ & He)]; rewrite He; discriminate.
Qed.

Lemma read_u16_array_app (vs : list N) (r' : bytes) :
  N.of_nat (length vs) < 65536 -> Forall (fun v => v < 65536) vs ->
  read_u16_array (u16_array_bytes vs ++ r') = Ok (vs, r').
Proof.
  intros Hl Hf. unfold read_u16_array, u16_array_bytes. rewrite <- app_assoc.
  set (h := be_enc 2 (N.of_nat (length vs))). assert (Hh : length h = 2%nat) by apply be_enc_length.
  destruct (Z.ltb_spec (len (h ++ u16_items_bytes vs ++ r')) 2) as [H|H].
  { rewrite len_app in H. pose proof (len_nonneg (u16_items_bytes vs ++ r')). unfold len in *. lia. }
  rewrite gslice_to_app by (unfold len; lia). cbn [Outcome.bind].
  rewrite be_u16_2 by exact Hh. cbn [Outcome.bind].
  rewrite gslice_from_app by (unfold len; lia). cbn [Outcome.bind]. cbv zeta.
  unfold h. rewrite be_dec_enc_small by (cbn; lia). unfold int_of_u16.
  destruct (Z.ltb_spec (len (u16_items_bytes vs ++ r')) (2 * Z.of_N (N.of_nat (length vs)))) as [Ht|Ht].
  { rewrite len_app in Ht. pose proof (len_nonneg r'). unfold len in *. rewrite u16_items_bytes_length in Ht. lia. }
  rewrite gmake_chk_ok by (unfold MAXALLOC; lia). cbn [Outcome.bind].
  replace (Z.to_nat (Z.of_N (N.of_nat (length vs)))) with (length vs) by lia.
  apply read_u16_items_app, Hf.
Qed.

Lemma write_u16_array_ok (vs : list N) : N.of_nat (length vs) < 65536 ->
  write_u16_array vs = Ok (u16_array_bytes vs).
Proof.
  intros H. unfold write_u16_array. destruct (N.ltb_spec 65535 (N.of_nat (length vs))) as [Hgt|Hle]; [lia|]. reflexivity.
Qed.

(** * readParameterArray *)
Definition wf_param (v : option bytes) : Prop :=
  match v with Some d => N.of_nat (length d) < 4294967295 | None => True end.
Definition params_bytes (vs : list (option bytes)) : bytes := concat (map write_param vs).

Lemma read_params_cases (k : nat) : forall r : bytes,
  (exists e, read_params k r = Err e) \/
  exists (vs : list (option bytes)) (r' : bytes),
    r = params_bytes vs ++ r' /\ length vs = k /\ Forall wf_param vs /\ read_params k r = Ok (vs, r').
Proof.
  unfold read_params. induction k as [|k IH]; intros r.
  - right. exists [], r. cbn. repeat split; auto.
  - cbn [read_params_with]. destruct (Z.ltb_spec (len r) 4) as [Hl|Hl]; [left; eauto|].
    destruct (split_at 4 r) as (h & t & Hr & Hh); [unfold len in Hl; lia|]. subst r.
    rewrite gslice_to_app by (unfold len; lia). cbn [Outcome.bind].
    rewrite be_u32_4 by exact Hh. cbn [Outcome.bind].
    rewrite gslice_from_app by (unfold len; lia). cbn [Outcome.bind]. cbv zeta.
    pose proof (be_dec_4_lt h Hh) as Hc. change (int_of_u32 (be_dec h)) with (Z.of_N (be_dec h)).
    destruct (Z.eqb_spec (Z.of_N (be_dec h)) 4294967295) as [Hn|Hn].
    + destruct (IH t) as [[e He]|(vs & r' & Ht & Hlv & Hf & Hok)].
      * rewrite He. cbn [Outcome.bind]. left. eauto.
      * rewrite Hok. cbn [Outcome.bind]. right. exists (None :: vs), r'.
        unfold params_bytes in *. cbn [map concat write_param length].
        replace (be_enc 4 4294967295) with h.
        2:{ rewrite <- (be_enc_dec_4 h Hh). f_equal. lia. }
        rewrite <- app_assoc, <- Ht. repeat split; [lia|]. constructor; [exact I| exact Hf].
    + destruct (Z.ltb_spec (len t) (Z.of_N (be_dec h))) as [Hlt|Hlt]; [left; eauto|].
      destruct (split_at (N.to_nat (be_dec h)) t) as (v & t2 & Ht & Hv); [unfold len in Hlt; lia|]. subst t.
      rewrite gslice_to_app by (unfold len; lia). cbn [Outcome.bind].
      rewrite gslice_from_app by (unfold len; lia). cbn [Outcome.bind].
      destruct (IH t2) as [[e He]|(vs & r' & Ht & Hlv & Hf & Hok)].
      * rewrite He. cbn [Outcome.bind]. left. eauto.
      * rewrite Hok. cbn [Outcome.bind]. right. exists (Some v :: vs), r'.
        unfold params_bytes in *. cbn [map concat write_param length].
        replace (N.of_nat (length v)) with (be_dec h) by lia. rewrite be_enc_dec_4 by exact Hh.
        rewrite <- !app_assoc, <- Ht. repeat split; [lia|]. constructor; [cbn; lia| exact Hf].
Qed.

Lemma read_params_app (vs : list (option bytes)) (r' : bytes) : Forall wf_param vs ->
  read_params (length vs) (params_bytes vs ++ r') = Ok (vs, r').
Proof.
  unfold read_params, params_bytes.
  induction vs as [|v vs IH]; intros Hf; cbn [map concat length read_params_with app].
  - reflexivity.
  - inversion Hf as [|v0 vs0 Hv Hf']; subst. rewrite <- app_assoc.
    set (rest := concat (map write_param vs) ++ r') in *.
    destruct v as [d|]; cbn [write_param].
    + cbn in Hv. rewrite <- app_assoc.
      set (h := be_enc 4 (N.of_nat (length d))). assert (Hh : length h = 4%nat) by apply be_enc_length.
      destruct (Z.ltb_spec (len (h ++ d ++ rest)) 4) as [H|H].
      { rewrite len_app in H. pose proof (len_nonneg (d ++ rest)). unfold len in *. lia. }
      rewrite gslice_to_app by (unfold len; lia). cbn [Outcome.bind].
      rewrite be_u32_4 by exact Hh. cbn [Outcome.bind].
      rewrite gslice_from_app by (unfold len; lia). cbn [Outcome.bind]. cbv zeta.
      unfold h. rewrite be_dec_enc_small by (cbn; lia). change (int_of_u32 (N.of_nat (length d))) with (Z.of_N (N.of_nat (length d))).
      destruct (Z.eqb_spec (Z.of_N (N.of_nat (length d))) 4294967295) as [Hn|Hn]; [lia|].
      destruct (Z.ltb_spec (len (d ++ rest)) (Z.of_N (N.of_nat (length d)))) as [Hlt|Hlt].
      { rewrite len_app in Hlt. pose proof (len_nonneg rest). unfold len in *. lia. }
      rewrite gslice_to_app by (unfold len; lia). cbn [Outcome.bind].
      rewrite gslice_from_app by (unfold len; lia). cbn [Outcome.bind].
      subst rest. rewrite IH by exact Hf'. reflexivity.
    + set (h := be_enc 4 4294967295). assert (Hh : length h = 4%nat) by apply be_enc_length.
      destruct (Z.ltb_spec (len (h ++ rest)) 4) as [H|H].
      { rewrite len_app in H. pose proof (len_nonneg rest). unfold len in *. lia. }
      rewrite gslice_to_app by (unfold len; lia). cbn [Outcome.bind].
      rewrite be_u32_4 by exact Hh. cbn [Outcome.bind].
      rewrite gslice_from_app by (unfold len; lia). cbn [Outcome.bind]. cbv zeta.
      unfold h. rewrite be_dec_enc_small by (cbn; lia). change (int_of_u32 4294967295) with (Z.of_N 4294967295).
      destruct (Z.eqb_spec (Z.of_N 4294967295) 4294967295) as [Hn|Hn]; [|lia].
      subst rest. rewrite IH by exact Hf'. reflexivity.
Qed.

Definition param_array_bytes (vs : list (option bytes)) : bytes :=
  be_enc 2 (N.of_nat (length vs)) ++ params_bytes vs.

Lemma read_param_array_cases (data : bytes) :
  (exists e, read_param_array data = Err e) \/
  exists (vs : list (option bytes)) (r' : bytes),
    data = param_array_bytes vs ++ r' /\ N.of_nat (length vs) < 65536 /\ Forall wf_param vs /\
    read_param_array data = Ok (vs, r').
Proof.
  unfold read_param_array, read_param_array_with.
  destruct (Z.ltb_spec (len data) 2) as [Hl|Hl]; [left; eauto|].
  destruct (split_at 2 data) as (h & t & Hd & Hh); [unfold len in Hl; lia|]. subst data.
  rewrite gslice_to_app by (unfold len; lia). cbn [Outcome.bind].
  rewrite be_u16_2 by exact Hh. cbn [Outcome.bind].
  rewrite gslice_from_app by (unfold len; lia). cbn [Outcome.bind]. cbv zeta.
  pose proof (be_dec_2_lt h Hh) as Hc. unfold int_of_u16.
  rewrite gmake_chk_ok by (unfold MAXALLOC; lia). cbn [Outcome.bind].
  destruct (read_params_cases (Z.to_nat (Z.of_N (be_dec h))) t) as [[e He]|(vs & r' & Htt & Hlv & Hf & Hok)].
  { left. exists e. exact He. }
  right. exists vs, r'. unfold param_array_bytes. rewrite <- app_assoc, <- Htt.
  replace (N.of_nat (length vs)) with (be_dec h) by lia. rewrite be_enc_dec_2 by exact Hh.
  repeat split; [exact Hc| exact Hf| exact Hok].
Qed.

Theorem wire_pg_read_param_array_total (data : bytes) : read_param_array data <> Panic.
Proof.
  destruct (read_param_array_cases data) as [[e He]|(a & r & _ & _ & _ & He)]; rewrite He; discriminate.
Qed.

Lemma read_param_array_app (vs : list (option bytes)) (r' : bytes) :
  N.of_nat (length vs) < 65536 -> Forall wf_param vs ->
  read_param_array (param_array_bytes vs ++ r') = Ok (vs, r').
Proof.
  intros Hl Hf. unfold read_param_array, read_param_array_with, param_array_bytes. rewrite <- app_assoc.
  set (h := be_enc 2 (N.of_nat (length vs))). assert (Hh : length h = 2%nat) by apply be_enc_length.
  destruct (Z.ltb_spec (len (h ++ params_bytes vs ++ r')) 2) as [H|H].
  { rewrite len_app in H. pose proof (len_nonneg (params_bytes vs ++ r')). unfold len in *. lia. }
  rewrite gslice_to_app by (unfold len; lia). cbn [Outcome.bind].
  rewrite be_u16_2 by exact Hh. cbn [Outcome.bind].
  rewrite gslice_from_app by (unfold len; lia). cbn [Outcome.bind]. cbv zeta.
  unfold h. rewrite be_dec_enc_small by (cbn; lia). unfold int_of_u16.
  rewrite gmake_chk_ok by (unfold MAXALLOC; lia). cbn [Outcome.bind].
  replace (Z.to_nat (Z.of_N (N.of_nat (length vs)))) with (length vs) by lia.
  apply read_params_app, Hf.
Qed.

Lemma write_param_array_ok (vs : list (option bytes)) : N.of_nat (length vs) < 65536 ->
  write_param_array vs = Ok (param_array_bytes vs).
Proof.
  intros H. unfold write_param_array. destruct (N.ltb_spec 65535 (N.of_nat (length vs))) as [Hgt|Hle]; [lia|]. reflexivity.
Qed.

(** * NewBindPacket *)
Definition bind_bytes (b : bind) : bytes :=
  b_portal b ++ [x00] ++ b_stmt b ++ [x00] ++
  u16_array_bytes (b_pfmts b) ++ param_array_bytes (b_params b) ++ u16_array_bytes (b_rfmts b).

Definition wf_lens (b : bind) : Prop :=
  N.of_nat (length (b_pfmts b)) < 65536 /\ N.of_nat (length (b_params b)) < 65536 /\
  N.of_nat (length (b_rfmts b)) < 65536.

Definition wf_bind (b : bind) : Prop :=
  ~ In x00 (b_portal b) /\ ~ In x00 (b_stmt b) /\
  Forall (fun v => v < 65536) (b_pfmts b) /\ Forall (fun v => v < 65536) (b_rfmts b) /\
  Forall (fun v => match v with Some d => N.of_nat (length d) < 4294967295 | None => True end) (b_params b).

Lemma marshal_bind_ok (b : bind) : wf_lens b -> marshal_bind b = Ok (bind_bytes b).
Proof.
  intros (H1 & H2 & H3). unfold marshal_bind.
  rewrite write_u16_array_ok by exact H1. cbn [Outcome.bind].
  rewrite write_param_array_ok by exact H2. cbn [Outcome.bind].
  rewrite write_u16_array_ok by exact H3. cbn [Outcome.bind]. reflexivity.
Qed.

Lemma marshal_bind_inv (b : bind) (m : bytes) : marshal_bind b = Ok m -> wf_lens b /\ m = bind_bytes b.
Proof.
  unfold marshal_bind, write_u16_array, write_param_array, wf_lens.
  destruct (N.ltb_spec 65535 (N.of_nat (length (b_pfmts b)))) as [H1|H1]; cbn [Outcome.bind]; [discriminate|].
  destruct (N.ltb_spec 65535 (N.of_nat (length (b_params b)))) as [H2|H2]; cbn [Outcome.bind]; [discriminate|].
  destruct (N.ltb_spec 65535 (N.of_nat (length (b_rfmts b)))) as [H3|H3]; cbn [Outcome.bind]; [discriminate|].
  intros [= <-]. split; [lia| reflexivity].
Qed.

Lemma new_bind_packet_cases (data : bytes) :
  (exists e, new_bind_packet data = Err e) \/
  exists (b : bind) (rest : bytes),
    data = bind_bytes b ++ rest /\ wf_lens b /\ wf_bind b /\ new_bind_packet data = Ok b.
Proof.
  unfold new_bind_packet, new_bind_packet_with.
  change (read_param_array_with int_of_u32 4294967295%Z) with read_param_array.
  destruct (read_cstring_cases data) as [[e He]|(portal & d1 & Hd & Hn1 & He)];
    rewrite He; cbn [Outcome.bind]; [left; eauto|].
  destruct (read_cstring_cases d1) as [[e He1]|(stmt & d2 & Hd1 & Hn2 & He1)];
    rewrite He1; cbn [Outcome.bind]; [left; eauto|].
  destruct (read_u16_array_cases d2) as [[e He2]|(pf & d3 & Hd2 & Hl2 & Hf2 & He2)];
    rewrite He2; cbn [Outcome.bind]; [left; eauto|].
  destruct (read_param_array_cases d3) as [[e He3]|(pv & d4 & Hd3 & Hl3 & Hf3 & He3)];
    rewrite He3; cbn [Outcome.bind]; [left; eauto|].
  destruct (read_u16_array_cases d4) as [[e He4]|(rf & d5 & Hd4 & Hl4 & Hf4 & He4)];
    rewrite He4; cbn [Outcome.bind]; [left; eauto|].
  right. exists (mk_bind portal stmt pf pv rf), d5.
  split.
  { unfold bind_bytes. cbn [b_portal b_stmt b_pfmts b_params b_rfmts].
    rewrite Hd, Hd1, Hd2, Hd3, Hd4. rewrite <- ?app_assoc. reflexivity. }
  split; [unfold wf_lens; cbn [b_pfmts b_params b_rfmts]; auto|].
  split; [|reflexivity].
  unfold wf_bind. cbn [b_portal b_stmt b_pfmts b_params b_rfmts]. repeat split; assumption.
Qed.

Theorem wire_pg_new_bind_packet_total : forall data : bytes, new_bind_packet data <> Panic.
Proof.
  intros data.
  destruct (new_bind_packet_cases data) as [[e He]|(b & r & _ & _ & _ & He)]; rewrite He; discriminate.
Qed.

(** the signed reading of the declared length panics: portal "", statement "", no format
    codes, one parameter of declared length 0xFFFFFFFE *)
Theorem bind_signed_length_refuted : exists data : bytes, new_bind_packet_signed data = Panic.
Proof. exists [x00;x00;x00;x00;x00;x01;xff;xff;xff;xfe]. vm_compute. reflexivity. Qed.

(** * relay identity of a parsed Bind, and its converse on well-formed values *)
Theorem pg_bind_roundtrip : forall (data : bytes) b, new_bind_packet data = Ok b ->
  exists m rest, marshal_bind b = Ok m /\ data = m ++ rest.
Proof.
  intros data b H.
  destruct (new_bind_packet_cases data) as [[e He]|(b' & r & Hd & Hl & _ & He)]; rewrite He in H; [discriminate|].
  injection H as <-. exists (bind_bytes b'), r. split; [apply marshal_bind_ok, Hl| exact Hd].
Qed.

Theorem pg_bind_parse_wf : forall (data : bytes) b, new_bind_packet data = Ok b -> wf_bind b.
Proof.
  intros data b H.
  destruct (new_bind_packet_cases data) as [[e He]|(b' & r & _ & _ & Hw & He)]; rewrite He in H; [discriminate|].
  injection H as <-. exact Hw.
Qed.

Lemma new_bind_packet_app (b : bind) (rest : bytes) : wf_lens b -> wf_bind b ->
  new_bind_packet (bind_bytes b ++ rest) = Ok b.
Proof.
  intros (L1 & L2 & L3) (W1 & W2 & W3 & W4 & W5).
  replace (bind_bytes b ++ rest) with
    (b_portal b ++ x00 :: (b_stmt b ++ x00 :: (u16_array_bytes (b_pfmts b) ++
       (param_array_bytes (b_params b) ++ (u16_array_bytes (b_rfmts b) ++ rest)))))
    by (unfold bind_bytes; rewrite <- ?app_assoc; reflexivity).
  unfold new_bind_packet, new_bind_packet_with.
  change (read_param_array_with int_of_u32 4294967295%Z) with read_param_array.
  rewrite read_cstring_app by exact W1. cbn [Outcome.bind].
  rewrite read_cstring_app by exact W2. cbn [Outcome.bind].
  rewrite read_u16_array_app by assumption. cbn [Outcome.bind].
  rewrite read_param_array_app by assumption. cbn [Outcome.bind].
  rewrite read_u16_array_app by assumption. cbn [Outcome.bind].
  destruct b; reflexivity.
Qed.

Theorem pg_bind_marshal_parse : forall b m (rest : bytes),
  wf_bind b -> marshal_bind b = Ok m -> new_bind_packet (m ++ rest) = Ok b.
Proof.
  intros b m rest Hw Hm. destruct (marshal_bind_inv b m Hm) as [Hl ->].
  apply new_bind_packet_app; assumption.
Qed.

Definition example_bind : bind :=
  mk_bind [x70] [x73; x31] [0; 1] [None; Some []; Some [x00; xff; x41]] [1].
Definition example_bind_bytes : bytes := Eval vm_compute in bind_bytes example_bind.

Example pg_bind_wf_nonvacuous :
  wf_bind example_bind /\ marshal_bind example_bind = Ok example_bind_bytes /\
  new_bind_packet (example_bind_bytes ++ [x01; x02]) = Ok example_bind.
Proof.
  split; [|split; vm_compute; reflexivity].
  unfold wf_bind, example_bind. cbn [b_portal b_stmt b_pfmts b_params b_rfmts In length].
  split; [intros [H|[]]; discriminate|].
  split; [intros [H|[H|[]]]; discriminate|].
  split; [repeat constructor|]. split; repeat constructor.
Qed.

(** * everything decoded lies inside the input *)
Lemma write_param_length_ge v : (4 <= length (write_param v))%nat.
Proof. destruct v as [d|]; cbn [write_param]; rewrite ?app_length, be_enc_length; lia. Qed.

Lemma params_bytes_length_ge vs : (4 * length vs <= length (params_bytes vs))%nat.
Proof.
  unfold params_bytes. induction vs as [|v vs IH]; cbn [map concat length]; [lia|].
  rewrite app_length. pose proof (write_param_length_ge v). lia.
Qed.

Lemma params_bytes_in (v : bytes) vs : In (Some v) vs -> (4 + length v <= length (params_bytes vs))%nat.
Proof.
  unfold params_bytes. induction vs as [|w vs IH]; cbn [map concat length In]; [intros []|].
  rewrite app_length. intros [->|H].
  - cbn [write_param]. rewrite app_length, be_enc_length. lia.
  - specialize (IH H). lia.
Qed.

Lemma bind_bytes_length (b : bind) :
  length (bind_bytes b) =
  (length (b_portal b) + length (b_stmt b) + 2 * length (b_pfmts b) + 2 * length (b_rfmts b) +
   length (params_bytes (b_params b)) + 8)%nat.
Proof.
  unfold bind_bytes, u16_array_bytes, param_array_bytes.
  rewrite !app_length, !be_enc_length, !u16_items_bytes_length. cbn [length]. lia.
Qed.

Theorem wire_pg_new_bind_packet_bounded : forall (data : bytes) b, new_bind_packet data = Ok b ->
  (length (b_portal b) + length (b_stmt b) + 2 <= length data)%nat /\
  (2 * length (b_pfmts b) + 2 * length (b_rfmts b) + 4 * length (b_params b) <= length data)%nat /\
  (length (b_portal b) + length (b_stmt b) + 2 * length (b_pfmts b) + 2 * length (b_rfmts b) +
     4 * length (b_params b) + 8 <= length data)%nat /\
  forall v : bytes, In (Some v) (b_params b) ->
    (length (b_portal b) + length (b_stmt b) + 2 * length (b_pfmts b) + 2 * length (b_rfmts b) +
       length v + 12 <= length data)%nat.
Proof.
  intros data b H.
  destruct (new_bind_packet_cases data) as [[e He]|(b' & r & Hd & _ & _ & He)]; rewrite He in H; [discriminate|].
  injection H as <-.
  assert (HL : (length (bind_bytes b') <= length data)%nat) by (rewrite Hd, app_length; lia).
  rewrite bind_bytes_length in HL. pose proof (params_bytes_length_ge (b_params b')) as HP.
  repeat split; try lia.
  intros v Hv. pose proof (params_bytes_in v _ Hv). lia.
Qed.

(** * NewParsePacket *)
Lemma read_oids_cases (k : nat) : forall (e : Z) (data : bytes), (0 <= e)%Z ->
  (exists er, read_oids k e data = Err er) \/
  exists ps : list bytes, read_oids k e data = Ok ps /\ Forall (fun p : bytes => length p = 4%nat) ps /\
    concat ps = sub (Z.to_nat e) (4 * k) data.
Proof.
  induction k as [|k IH]; intros e data He; cbn [read_oids].
  - right. exists []. split; [reflexivity|]. split; [constructor| reflexivity].
  - destruct (Z.ltb_spec (len data) (e + 4)) as [Hl|Hl]; [left; eauto|].
    rewrite gslice_ok by lia. cbn [Outcome.bind].
    replace (e + 4 - e)%Z with 4%Z by lia. change (Z.to_nat 4) with 4%nat.
    destruct (IH (e + 4)%Z data) as [[er Her]|(ps & Hps & Hf & Hc)]; [lia| |].
    + rewrite Her. cbn [Outcome.bind]. left. eauto.
    + rewrite Hps. cbn [Outcome.bind]. right. eexists. split; [reflexivity|]. split.
      * constructor; [|exact Hf]. apply sub_length. unfold len in Hl. lia.
      * cbn [concat]. rewrite Hc. unfold sub.
        replace (Z.to_nat (e + 4)) with (4 + Z.to_nat e)%nat by lia.
        rewrite <- skipn_skipn_add.
        replace (4 * S k)%nat with (4 + 4 * k)%nat by lia.
        set (t := skipn (Z.to_nat e) data).
        rewrite <- (firstn_skipn 4 t) at 3.
        assert (Ht : (4 <= length t)%nat) by (unfold t; rewrite skipn_length; unfold len in Hl; lia).
        rewrite firstn_app, firstn_firstn, firstn_length.
        replace (Nat.min (4 + 4 * k) 4) with 4%nat by lia.
        replace (4 + 4 * k - Nat.min 4 (length t))%nat with (4 * k)%nat by lia.
        reflexivity.
Qed.

Lemma new_parse_packet_cases (data : bytes) :
  (exists e, new_parse_packet data = Err e) \/
  exists pp : parse, new_parse_packet data = Ok pp /\
    (1 <= len (pp_name pp))%Z /\ (1 <= len (pp_query pp))%Z /\ length (pp_num pp) = 2%nat /\
    exists rest : bytes, data = marshal_parse pp ++ rest.
Proof.
  unfold new_parse_packet. cbv zeta.
  destruct (index_nul_range data) as [H0|H0].
  { rewrite H0. left. exists E_TERMINATOR. reflexivity. }
  destruct (Z.eqb_spec (index_nul data) (-1)) as [Hx|_]; [lia|].
  set (s := (index_nul data + 1)%Z) in *.
  assert (Hs : (1 <= s <= len data)%Z) by (unfold s; lia).
  rewrite gslice_to_ok by lia. cbn [Outcome.bind].
  rewrite gslice_from_ok by lia. cbn [Outcome.bind].
  set (tail := skipn (Z.to_nat s) data).
  assert (Ht : len tail = (len data - s)%Z) by (unfold tail, len in *; rewrite skipn_length; lia).
  destruct (index_nul_range tail) as [H1|H1].
  { rewrite H1. left. exists E_TERMINATOR. reflexivity. }
  destruct (Z.eqb_spec (index_nul tail) (-1)) as [Hx|_]; [lia|].
  set (e := (index_nul tail + (s + 1))%Z) in *.
  assert (He : (s + 1 <= e <= len data)%Z) by (unfold e; lia).
  rewrite gslice_ok by lia. cbn [Outcome.bind].
  destruct (Z.ltb_spec (len data) (e + 2)) as [Hl|Hl]; [left; eauto|].
  rewrite gslice_ok by lia. cbn [Outcome.bind].
  replace (e + 2 - e)%Z with 2%Z by lia.
  set (name := firstn (Z.to_nat s) data).
  set (query := sub (Z.to_nat s) (Z.to_nat (e - s)) data).
  set (num := sub (Z.to_nat e) (Z.to_nat 2) data).
  assert (Hname : len name = s) by (unfold name, len in *; rewrite firstn_length; lia).
  assert (Hquery : length query = Z.to_nat (e - s)) by (apply sub_length; unfold len in *; lia).
  assert (Hnum : length num = 2%nat) by (unfold num; rewrite sub_length; unfold len in *; lia).
  assert (Hpre : forall k, name ++ query ++ num ++ sub (Z.to_nat (e + 2)) k data
                           = firstn (Z.to_nat (e + 2) + k) data).
  { intros k. unfold name, query, num, sub.
    rewrite <- (firstn_skipn (Z.to_nat s) (firstn (Z.to_nat (e + 2) + k) data)).
    rewrite firstn_firstn. replace (Nat.min (Z.to_nat s) (Z.to_nat (e + 2) + k)) with (Z.to_nat s) by lia.
    f_equal. rewrite skipn_firstn_comm.
    set (t := skipn (Z.to_nat s) data).
    replace (skipn (Z.to_nat e) data) with (skipn (Z.to_nat (e - s)) t)
      by (unfold t; rewrite skipn_skipn_add; f_equal; lia).
    replace (skipn (Z.to_nat (e + 2)) data) with (skipn (Z.to_nat 2) (skipn (Z.to_nat (e - s)) t))
      by (unfold t; rewrite !skipn_skipn_add; f_equal; lia).
    replace (Z.to_nat (e + 2) + k - Z.to_nat s)%nat with (Z.to_nat (e - s) + (Z.to_nat 2 + k))%nat by lia.
    rewrite <- (firstn_skipn (Z.to_nat (e - s)) (firstn (Z.to_nat (e - s) + (Z.to_nat 2 + k)) t)).
    rewrite firstn_firstn.
    replace (Nat.min (Z.to_nat (e - s)) (Z.to_nat (e - s) + (Z.to_nat 2 + k))) with (Z.to_nat (e - s)) by lia.
    f_equal. rewrite skipn_firstn_comm.
    replace (Z.to_nat (e - s) + (Z.to_nat 2 + k) - Z.to_nat (e - s))%nat with (Z.to_nat 2 + k)%nat by lia.
    set (u := skipn (Z.to_nat (e - s)) t).
    rewrite <- (firstn_skipn (Z.to_nat 2) (firstn (Z.to_nat 2 + k) u)).
    rewrite firstn_firstn. replace (Nat.min (Z.to_nat 2) (Z.to_nat 2 + k)) with (Z.to_nat 2) by lia.
    f_equal. rewrite skipn_firstn_comm. f_equal. lia. }
  destruct (Z.ltb_spec (e + 2) (len data)) as [Hm|Hm].
  - rewrite be_u16_2 by exact Hnum. cbn [Outcome.bind].
    destruct (read_oids_cases (Z.to_nat (int_of_u16 (be_dec num))) (e + 2)%Z data) as [[er Her]|(ps & Hps & Hf & Hc)]; [lia| |].
    + rewrite Her. cbn [Outcome.bind]. left. eauto.
    + rewrite Hps. cbn [Outcome.bind]. right. eexists. split; [reflexivity|].
      cbn [pp_name pp_query pp_num pp_params]. unfold marshal_parse. cbn [pp_name pp_query pp_num pp_params].
      repeat split; [lia| unfold len; lia| exact Hnum|].
      rewrite Hc. exists (skipn (Z.to_nat (e + 2) + 4 * Z.to_nat (int_of_u16 (be_dec num))) data).
      rewrite Hpre. symmetry. apply firstn_skipn.
  - right. eexists. split; [reflexivity|].
    cbn [pp_name pp_query pp_num pp_params]. unfold marshal_parse. cbn [pp_name pp_query pp_num pp_params concat].
    repeat split; [lia| unfold len; lia| exact Hnum|].
    exists (skipn (Z.to_nat (e + 2) + 0) data).
    specialize (Hpre 0%nat). unfold sub in Hpre at 1. cbn [firstn] in Hpre.
    rewrite Hpre. symmetry. apply firstn_skipn.
Qed.

Theorem wire_pg_new_parse_packet_total : forall data : bytes, new_parse_packet data <> Panic.
Proof.
  intros data.
  destruct (new_parse_packet_cases data) as [[e He]|(pp & He & _)]; rewrite He; discriminate.
Qed.

Theorem wire_pg_parse_accessors_total : forall (data : bytes) pp, new_parse_packet data = Ok pp ->
  parse_name pp <> Panic /\ parse_query_string pp <> Panic.
Proof.
  intros data pp H.
  destruct (new_parse_packet_cases data) as [[e He]|(pp' & He & Hn & Hq & _)]; rewrite He in H; [discriminate|].
  injection H as <-. unfold parse_name, parse_query_string.
  split; rewrite gslice_to_ok by lia; discriminate.
Qed.

(** relay identity of a parsed Parse packet *)
Theorem pg_parse_roundtrip : forall (data : bytes) pp, new_parse_packet data = Ok pp ->
  exists rest : bytes, data = marshal_parse pp ++ rest.
Proof.
  intros data pp H.
  destruct (new_parse_packet_cases data) as [[e He]|(pp' & He & _ & _ & _ & Hr)]; rewrite He in H; [discriminate|].
  injection H as <-. exact Hr.
Qed.

Theorem wire_pg_replace_parse_query_total : forall p q, replace_parse_query p q <> Panic.
Proof.
  intros p q. unfold replace_parse_query.
  destruct (new_parse_packet (p_desc p)) as [pp|e|] eqn:E; [discriminate|discriminate|].
  exfalso. exact (wire_pg_new_parse_packet_total _ E).
Qed.

(** * NewExecutePacket *)
Theorem wire_pg_new_execute_packet_total : forall data : bytes, new_execute_packet data <> Panic.
Proof.
  intros data. unfold new_execute_packet.
  destruct (read_cstring_cases data) as [[e He]|(a & r & _ & _ & He)]; rewrite He; cbn [Outcome.bind]; [discriminate|].
  destruct (Z.ltb_spec (len r) 4) as [Hl|Hl]; [discriminate|].
  unfold be_u32. rewrite (gindex_ok 3 r) by lia. cbn [Outcome.bind]. discriminate.
Qed.

(** relay identity of a parsed Execute packet: portal, terminator, the 4-byte row limit *)
Theorem pg_execute_roundtrip : forall (data : bytes) portal n, new_execute_packet data = Ok (portal, n) ->
  ~ In x00 portal /\ n < 4294967296 /\ exists rest : bytes, data = portal ++ [x00] ++ be_enc 4 n ++ rest.
Proof.
  intros data portal n. unfold new_execute_packet.
  destruct (read_cstring_cases data) as [[e He]|(a & r & Hd & Hn & He)]; rewrite He; cbn [Outcome.bind]; [discriminate|].
  destruct (Z.ltb_spec (len r) 4) as [Hl|Hl]; [discriminate|].
  destruct (split_at 4 r) as (h & t & Hr & Hh); [unfold len in Hl; lia|]. subst r.
  unfold be_u32. rewrite (gindex_ok 3 (h ++ t)) by lia. cbn [Outcome.bind].
  rewrite (firstn_app_len' 4 h t) by (symmetry; exact Hh).
  intros [= <- <-]. split; [exact Hn|]. split; [apply be_dec_4_lt, Hh|].
  exists t. rewrite be_enc_dec_4 by exact Hh. exact Hd.
Qed.

(** * GetSimpleQuery (after the fix) and the code as found *)
Theorem wire_pg_get_simple_query_total : forall p, get_simple_query p <> Panic.
Proof.
  intros p. unfold get_simple_query.
  destruct (Z.ltb_spec (len (p_desc p)) 1) as [Hl|Hl]; [discriminate|].
  rewrite gslice_to_ok by lia. discriminate.
Qed.

(** [Q 00 00 00 04]: a Query message without payload *)
Theorem get_simple_query_old_refuted : exists p, get_simple_query_old p = Panic.
Proof. exists (mk_packet PG_QUERY_TYPE (packet_length_buf 0) []). vm_compute. reflexivity. Qed.

(** * ReplaceQuery on a Parse message: the rewritten message parses back to the same name, parameter count
    and parameter type OIDs, with exactly the query replaced (round s32) *)
Definition oid4 (p : bytes) : Prop := length p = 4%nat.

Lemma gslice_app_mid (h m t : bytes) (a b : Z) : a = len h -> b = (len h + len m)%Z ->
  gslice a b (h ++ m ++ t) = Ok m.
Proof.
  intros -> ->.
  rewrite gslice_ok by (rewrite ?len_app; pose proof (len_nonneg h); pose proof (len_nonneg m); pose proof (len_nonneg t); lia).
  f_equal. unfold sub, len. rewrite Nat2Z.id, skipn_app_len.
  apply firstn_app_len'. lia.
Qed.

Lemma read_oids_shape (k : nat) : forall (e : Z) (data : bytes) (ps : list bytes),
  read_oids k e data = Ok ps -> length ps = k /\ Forall oid4 ps.
Proof.
  induction k as [|k IH]; intros e data ps; cbn [read_oids].
  - intros [= <-]. split; [reflexivity|constructor].
  - destruct (len data <? e + 4)%Z; [discriminate|].
    destruct (gslice e (e + 4) data) as [p| |] eqn:Eg; cbn [Outcome.bind]; try discriminate.
    destruct (read_oids k (e + 4) data) as [ps'| |] eqn:Er; cbn [Outcome.bind]; try discriminate.
    intros [= <-]. destruct (IH _ _ _ Er) as [Hl Hf]. split; [cbn [length]; lia|].
    constructor; [|exact Hf]. apply gslice_length in Eg. unfold oid4, len in *. lia.
Qed.

Lemma concat_oids_length (ps : list bytes) : Forall oid4 ps -> length (concat ps) = (4 * length ps)%nat.
Proof.
  induction 1 as [|p ps Hp _ IH]; [reflexivity|].
  cbn [concat length]. rewrite app_length, IH. unfold oid4 in Hp. lia.
Qed.

(** the OID loop over an explicit concatenation *)
Lemma read_oids_app (ps : list bytes) : forall (pre rest : bytes), Forall oid4 ps ->
  read_oids (length ps) (len pre) (pre ++ concat ps ++ rest) = Ok ps.
Proof.
  induction ps as [|p ps IH]; intros pre rest Hf; cbn [length read_oids]; [reflexivity|].
  inversion Hf as [|p' ps' Hp Hf']; subst p' ps'. unfold oid4 in Hp.
  cbn [concat]. rewrite <- !app_assoc.
  assert (Hlen : (len pre + 4 <= len (pre ++ p ++ concat ps ++ rest))%Z).
  { rewrite !len_app. pose proof (len_nonneg (concat ps)). pose proof (len_nonneg rest). unfold len in *. lia. }
  destruct (Z.ltb_spec (len (pre ++ p ++ concat ps ++ rest)) (len pre + 4)) as [Hl|_]; [lia|].
  rewrite (gslice_app_mid pre p (concat ps ++ rest)) by (unfold len; lia). cbn [Outcome.bind].
  replace (pre ++ p ++ concat ps ++ rest) with ((pre ++ p) ++ concat ps ++ rest) by (rewrite <- app_assoc; reflexivity).
  replace (len pre + 4)%Z with (len (pre ++ p)) by (rewrite len_app; unfold len; lia).
  rewrite IH by exact Hf'. reflexivity.
Qed.

(** what NewParsePacket returns when it accepts: a NUL-terminated name without inner NUL, a 2-byte count,
    4-byte OIDs, and either no OID at all (nothing follows the count) or as many as the count says *)
Lemma new_parse_packet_shape (data : bytes) (pp : parse) : new_parse_packet data = Ok pp ->
  (exists a : bytes, pp_name pp = a ++ [x00] /\ ~ In x00 a) /\
  length (pp_num pp) = 2%nat /\
  Forall oid4 (pp_params pp) /\
  (pp_params pp = [] \/ length (pp_params pp) = Z.to_nat (int_of_u16 (be_dec (pp_num pp)))).
Proof.
  unfold new_parse_packet. cbv zeta.
  destruct (index_of [x00] data) as [s0|] eqn:E0; [|unfold index_nul; rewrite E0; discriminate].
  destruct (index_of_nul_spec data s0 E0) as (a & r & Hd & Hl & Hn).
  assert (Hi : index_nul data = Z.of_nat (length a)) by (unfold index_nul; rewrite E0, Hl; reflexivity).
  rewrite !Hi.
  destruct (Z.eqb_spec (Z.of_nat (length a)) (-1)) as [Hx|_]; [lia|].
  assert (Hname : gslice_to (Z.of_nat (length a) + 1) data = Ok (a ++ [x00])).
  { subst data. replace (a ++ x00 :: r) with ((a ++ [x00]) ++ r) by (rewrite <- app_assoc; reflexivity).
    apply gslice_to_app. unfold len. rewrite app_length. cbn [length]. lia. }
  rewrite Hname. cbn [Outcome.bind].
  destruct (gslice_from (Z.of_nat (length a) + 1) data) as [tail| |]; cbn [Outcome.bind]; try discriminate.
  destruct (index_nul tail =? -1)%Z; [discriminate|].
  set (e := (index_nul tail + (Z.of_nat (length a) + 1 + 1))%Z).
  destruct (gslice (Z.of_nat (length a) + 1) e data) as [query| |]; cbn [Outcome.bind]; try discriminate.
  destruct (len data <? e + 2)%Z; [discriminate|].
  destruct (gslice e (e + 2) data) as [num| |] eqn:En; cbn [Outcome.bind]; try discriminate.
  assert (Hnum : length num = 2%nat) by (apply gslice_length in En; unfold len in En; lia).
  destruct (e + 2 <? len data)%Z.
  - rewrite be_u16_2 by exact Hnum. cbn [Outcome.bind].
    destruct (read_oids (Z.to_nat (int_of_u16 (be_dec num))) (e + 2) data) as [ps| |] eqn:Er; cbn [Outcome.bind]; try discriminate.
    intros [= <-]. cbn [pp_name pp_num pp_params].
    destruct (read_oids_shape _ _ _ _ Er) as [Hlen Hf].
    split; [exists a; split; [reflexivity|exact Hn]|]. split; [exact Hnum|]. split; [exact Hf|]. right. exact Hlen.
  - intros [= <-]. cbn [pp_name pp_num pp_params].
    split; [exists a; split; [reflexivity|exact Hn]|]. split; [exact Hnum|]. split; [constructor|]. left. reflexivity.
Qed.

(** NewParsePacket on a message built from its fields *)
Lemma new_parse_packet_build (a q num : bytes) (ps : list bytes) :
  ~ In x00 a -> ~ In x00 q -> length num = 2%nat -> Forall oid4 ps ->
  (ps = [] \/ length ps = Z.to_nat (int_of_u16 (be_dec num))) ->
  new_parse_packet ((a ++ [x00]) ++ (q ++ [x00]) ++ num ++ concat ps)
  = Ok (mk_parse (a ++ [x00]) (q ++ [x00]) num ps).
Proof.
  intros Ha Hq Hnum Hf Hcount.
  set (data := (a ++ [x00]) ++ (q ++ [x00]) ++ num ++ concat ps).
  assert (Hd1 : data = a ++ x00 :: ((q ++ [x00]) ++ num ++ concat ps)) by (unfold data; rewrite <- app_assoc; reflexivity).
  assert (Hi : index_nul data = len a) by (unfold index_nul; rewrite Hd1, index_of_nul_app by exact Ha; reflexivity).
  set (tail := (q ++ [x00]) ++ num ++ concat ps).
  assert (Ht1 : tail = q ++ x00 :: (num ++ concat ps)) by (unfold tail; rewrite <- app_assoc; reflexivity).
  assert (Hj : index_nul tail = len q) by (unfold index_nul; rewrite Ht1, index_of_nul_app by exact Hq; reflexivity).
  assert (Hla : len (a ++ [x00]) = (len a + 1)%Z) by (rewrite len_app; reflexivity).
  assert (Hlq : len (q ++ [x00]) = (len q + 1)%Z) by (rewrite len_app; reflexivity).
  assert (Hln : len num = 2%Z) by (unfold len; lia).
  pose proof (len_nonneg a) as Hna. pose proof (len_nonneg q) as Hnq.
  unfold new_parse_packet. cbv zeta. rewrite !Hi.
  destruct (Z.eqb_spec (len a) (-1)) as [Hx|_]; [lia|].
  unfold data at 1. rewrite gslice_to_app by (symmetry; exact Hla). cbn [Outcome.bind].
  unfold data at 1. rewrite gslice_from_app by (symmetry; exact Hla). cbn [Outcome.bind].
  fold tail. rewrite !Hj.
  destruct (Z.eqb_spec (len q) (-1)) as [Hx|_]; [lia|].
  unfold data at 1.
  rewrite (gslice_app_mid (a ++ [x00]) (q ++ [x00]) (num ++ concat ps)) by lia. cbn [Outcome.bind].
  assert (Hld : len data = (len a + 1 + (len q + 1) + 2 + len (concat ps))%Z).
  { unfold data. rewrite !len_app. fold (len num). unfold len at 2 4. cbn [length]. lia. }
  pose proof (len_nonneg (concat ps)) as Hnc.
  destruct (Z.ltb_spec (len data) (len q + (len a + 1 + 1) + 2)) as [Hl|_]; [lia|].
  assert (Hd2 : data = ((a ++ [x00]) ++ (q ++ [x00])) ++ num ++ concat ps) by (unfold data; rewrite <- !app_assoc; reflexivity).
  assert (Hlp : len ((a ++ [x00]) ++ (q ++ [x00])) = (len q + (len a + 1 + 1))%Z) by (rewrite len_app; lia).
  rewrite Hd2 at 1.
  rewrite (gslice_app_mid ((a ++ [x00]) ++ (q ++ [x00])) num (concat ps)) by lia. cbn [Outcome.bind].
  destruct ps as [|p ps].
  - cbn [concat] in Hld. change (len []) with 0%Z in Hld.
    destruct (Z.ltb_spec (len q + (len a + 1 + 1) + 2) (len data)) as [Hl|_]; [lia|]. reflexivity.
  - assert (Hc : length (concat (p :: ps)) = (4 * length (p :: ps))%nat) by (apply concat_oids_length, Hf).
    cbn [length] in Hc.
    destruct (Z.ltb_spec (len q + (len a + 1 + 1) + 2) (len data)) as [_|Hl]; [|unfold len in *; lia].
    rewrite be_u16_2 by exact Hnum. cbn [Outcome.bind].
    destruct Hcount as [Hc0|Hc0]; [discriminate|]. rewrite <- Hc0.
    assert (Hd3 : data = (((a ++ [x00]) ++ (q ++ [x00])) ++ num) ++ concat (p :: ps) ++ [])
      by (unfold data; rewrite app_nil_r, <- !app_assoc; reflexivity).
    replace (len q + (len a + 1 + 1) + 2)%Z with (len (((a ++ [x00]) ++ (q ++ [x00])) ++ num))
      by (rewrite len_app; lia).
    rewrite Hd3. rewrite read_oids_app by exact Hf. reflexivity.
Qed.

Theorem pg_parse_replace_query_wf : forall (p : packet) (pp : parse) (q : bytes),
  new_parse_packet (p_desc p) = Ok pp -> ~ In x00 q ->
  exists p' : packet, replace_parse_query p q = Ok p' /\
    p_type p' = p_type p /\
    p_lenbuf p' = packet_length_buf (N.of_nat (length (p_desc p'))) /\
    p_desc p' = pp_name pp ++ (q ++ [x00]) ++ pp_num pp ++ concat (pp_params pp) /\
    new_parse_packet (p_desc p') = Ok (mk_parse (pp_name pp) (q ++ [x00]) (pp_num pp) (pp_params pp)).
Proof.
  intros p pp q H Hq.
  destruct (new_parse_packet_shape _ _ H) as ((a & Hname & Ha) & Hnum & Hf & Hcount).
  unfold replace_parse_query. rewrite H. eexists. split; [reflexivity|].
  cbn [p_type p_lenbuf p_desc]. unfold marshal_parse. cbn [pp_name pp_query pp_num pp_params].
  split; [reflexivity|]. split; [reflexivity|]. split; [reflexivity|].
  rewrite Hname. apply new_parse_packet_build; assumption.
Qed.

Example pg_parse_replace_query_wf_nonvacuous :
  let p := mk_packet PG_PARSE_TYPE (hb 0x10000001b) (hb 0x173310053454c4543542024310000020000001700000011) in
  exists pp, new_parse_packet (p_desc p) = Ok pp /\ pp_params pp <> [] /\
    replace_parse_query p (hb 0x173656c656374202431202d2d206c6f6e676572)
    = Ok (mk_packet PG_PARSE_TYPE (hb 0x100000025) (hb 0x173310073656c656374202431202d2d206c6f6e6765720000020000001700000011)).
Proof. eexists. split; [vm_compute; reflexivity|]. split; [discriminate|vm_compute; reflexivity]. Qed.
