(** Basic facts about the generic tree form: induction principle, decidable equality of kinds and trees. *)
From Coq Require Import List Bool NArith Arith Lia.
From Acra Require Import Lib.Bytes Model.CensorTree.
Import ListNotations.

Section TreeInd.
  Variable P : tree -> Prop.
  Hypothesis step : forall k lab cs, Forall P cs -> P (T k lab cs).
  Fixpoint tree_ind' (t : tree) : P t :=
    let '(T k lab cs) := t in
    step k lab cs
      ((fix go (l : list tree) : Forall P l :=
          match l with
          | [] => Forall_nil P
          | x :: tl => Forall_cons x (tree_ind' x) (go tl)
          end) cs).
End TreeInd.

Lemma kind_of_code_code k : kind_of_code (kind_code k) = Some k.
Proof. destruct k; reflexivity. Qed.

Lemma kind_code_inj a b : kind_code a = kind_code b -> a = b.
Proof.
  intro H. pose proof (kind_of_code_code a) as Ha. rewrite H, kind_of_code_code in Ha. congruence.
Qed.

Lemma kind_eqb_eq a b : kind_eqb a b = true <-> a = b.
Proof.
  unfold kind_eqb. rewrite N.eqb_eq. split; [apply kind_code_inj | intros ->; reflexivity].
Qed.

Lemma kind_eqb_refl a : kind_eqb a a = true.
Proof. apply kind_eqb_eq; reflexivity. Qed.

Lemma kind_eqb_neq a b : kind_eqb a b = false <-> a <> b.
Proof.
  split.
  - intros H ->. rewrite kind_eqb_refl in H. discriminate.
  - intro H. destruct (kind_eqb a b) eqn:E; [apply kind_eqb_eq in E; contradiction | reflexivity].
Qed.

Lemma kind_eqb_sym a b : kind_eqb a b = kind_eqb b a.
Proof. unfold kind_eqb. apply N.eqb_sym. Qed.

Lemma tree_eqb_eq a : forall b, tree_eqb a b = true <-> a = b.
Proof.
  induction a as [ka la ca IH] using tree_ind'. intros [kb lb cb]. cbn [tree_eqb].
  rewrite !andb_true_iff, kind_eqb_eq, bytes_eqb_eq.
  assert (Hgo : forall cb,
    (fix go (xs ys : list tree) {struct xs} : bool :=
       match xs, ys with
       | [], [] => true
       | x :: xs', y :: ys' => tree_eqb x y && go xs' ys'
       | _, _ => false
       end) ca cb = true <-> ca = cb).
  { clear cb. induction IH as [|x xs Hx _ IHxs]; intros [|y ys]; try (split; [discriminate | congruence]).
    - split; reflexivity.
    - rewrite andb_true_iff, Hx, IHxs. split; [intros [-> ->]; reflexivity | intro E; injection E; auto]. }
  rewrite Hgo. split; [intros [[-> ->] ->]; reflexivity | intro E; injection E; auto].
Qed.

Lemma tree_eqb_refl a : tree_eqb a a = true.
Proof. apply tree_eqb_eq; reflexivity. Qed.

Lemma is_nil_kind t : is_nil t = true <-> tkind t = K_nil.
Proof. unfold is_nil. apply kind_eqb_eq. Qed.
