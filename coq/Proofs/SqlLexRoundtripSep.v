(** C13_lex, part 2: the SEPARATOR DISCIPLINE of the Format methods: in the piece list of every well-formed statement
    each piece is followed by a piece whose first byte its stop kind admits ([sepd]), in both dialects.
    One pair is let through here ([lax]): an unquoted system variable used as a qualifier ("@@a" '.'), which the
    tokenizer really reads differently (see C13_lex_sysvar_qualifier_refuted). *)
From Acra Require Import Lib.Bytes Gen.Prec Gen.SqlWords Model.SqlStmt Model.SqlStmtText
  Proofs.SqlStmtFacts Proofs.SqlStmtEqns Proofs.SqlStmtPpEqns Proofs.SqlLexRoundtripDefs.
From Coq Require Import Arith Lia Bool.

Definition univ (k : cls) : bool :=
  match k with KSp | KEnd | KColon | KP PRParen | KP PComma | KP PLParen => true | _ => false end.
Definition free (s : sk) : bool :=
  match s with
  | SNone => true
  | SP (PLParen | PRParen | PComma | PPlus | PTilde | PEq | PGe | PNe | PNse | PShl | PShr | PStar | PPercent | PCaret) => true
  | _ => false
  end.

Section S.
Variable pg : bool.
Notation sepd := (sepd pg true).
Notation stop_ok := (stop_ok pg true).
Notation fcls := (fcls pg).
Notation fcl := (fcl pg).
Notation skind := (skind pg).

Lemma stop_univ s k : univ k = true -> stop_ok s k = true.
Proof.
  clear. destruct k as [| | | | | |p| | | |]; try discriminate; try (destruct p; try discriminate); intros _;
    destruct s as [|db| | | | | |p]; try destruct db; try destruct p; destruct pg; vm_compute; reflexivity.
Qed.
Lemma stop_free s k : free s = true -> stop_ok s k = true.
Proof.
  clear. destruct s as [|db| | | | | |p]; try discriminate; try (destruct p; try discriminate); intros _;
    destruct k as [| | | | | |p| | | |]; try destruct p; destruct pg; vm_compute; reflexivity.
Qed.
Lemma stop_dot i : stop_ok (skind (PI i)) (KP PDot) = true.
Proof. clear. destruct i as [[| |] v]; cbn [skind]; unfold qsk; try destruct (must_escape pg v); try destruct (is_dbsys v); destruct pg; vm_compute; reflexivity. Qed.
Lemma stop_after_dot i : stop_ok (SP PDot) (fcl (PI i)) = true.
Proof. clear. destruct i as [[| |] v]; cbn [fcl]; unfold qcls; try destruct (must_escape pg v); destruct pg; vm_compute; reflexivity. Qed.
Lemma stop_dot_star : stop_ok (SP PDot) (KP PStar) = true.
Proof. clear. destruct pg; vm_compute; reflexivity. Qed.

Lemma sepd_nil k : sepd [] k = true. Proof. reflexivity. Qed.
Lemma sepd_cons p r k : sepd (p :: r) k = stop_ok (skind p) (fcls r k) && sepd r k. Proof. reflexivity. Qed.
Lemma fcls_app a b k : fcls (a ++ b) k = fcls a (fcls b k).
Proof. destruct a; reflexivity. Qed.
Lemma sepd_app a b k : sepd (a ++ b) k = sepd a (fcls b k) && sepd b k.
Proof.
  induction a as [|p a IH]; [reflexivity|]. cbn [app]. rewrite !sepd_cons, IH, fcls_app. rewrite andb_assoc. reflexivity.
Qed.
Lemma fcls_cons p r k : fcls (p :: r) k = fcl p. Proof. reflexivity. Qed.
Lemma fcls_nil k : fcls [] k = k. Proof. reflexivity. Qed.

(** "starts with a universal follower or is empty": the optional clauses *)
Definition ust (a : list piece) : bool := match a with [] => true | p :: _ => univ (fcl p) end.
Lemma univ_ust a k : ust a = true -> univ k = true -> univ (fcls a k) = true.
Proof. destruct a; [intros _ H; exact H|intros H _; exact H]. Qed.

Lemma sepd_words ws k : univ k = true -> sepd (words ws) k = true.
Proof.
  intros Hk. induction ws as [|w [|w' ws'] IH]; [reflexivity| |].
  - cbn [words]. rewrite sepd_cons, sepd_nil, andb_true_r. apply stop_univ. exact Hk.
  - change (words (w :: w' :: ws')) with (PT (TW w) :: PS :: words (w' :: ws')).
    rewrite !sepd_cons, IH. rewrite stop_univ by reflexivity. rewrite stop_free by reflexivity. reflexivity.
Qed.
End S.
Section S2.
Local Opaque SqlLexRoundtripDefs.stop_ok.
Variable pg : bool.
Notation sepd := (sepd pg true).
Notation stop_ok := (stop_ok pg true).
Notation fcls := (fcls pg).
Notation fcl := (fcl pg).
Notation skind := (skind pg).
Notation wf := (wf pg).

Ltac uni := first [ assumption | reflexivity ].
Ltac ssplit := repeat first [rewrite sepd_app | rewrite sepd_cons | rewrite sepd_nil];
  repeat first [rewrite fcls_app | rewrite fcls_cons | rewrite fcls_nil].
Ltac conj := repeat match goal with |- _ && _ = true => apply andb_true_intro; split end.
Ltac atom0 :=
  match goal with
  | |- true = true => reflexivity
  | |- sepd (words _) _ = true => apply sepd_words; uni
  | |- SqlLexRoundtripDefs.stop_ok _ _ _ _ = true => first [apply stop_free; reflexivity | apply stop_univ; uni]
  end.

Lemma sepd_cmp o k : univ k = true -> sepd (pp_cmp o) k = true.
Proof. intros Hk. destruct o; cbn [pp_cmp cmp_toks map]; ssplit; conj; atom0. Qed.
Lemma sepd_is s k : univ k = true -> sepd (pp_is s) k = true.
Proof. intros Hk. destruct s; cbn [pp_is]; atom0. Qed.
Lemma sepd_between n k : univ k = true -> sepd (pp_between n) k = true.
Proof. intros Hk. destruct n; cbn [pp_between]; atom0. Qed.
Lemma sepd_jk j k : univ k = true -> sepd (pp_jk j) k = true.
Proof. intros Hk. destruct j; cbn [pp_jk]; atom0. Qed.
Lemma sepd_ut u k : univ k = true -> sepd (pp_ut u) k = true.
Proof. intros Hk. destruct u; cbn [pp_ut]; atom0. Qed.
Lemma sepd_dir d k : univ k = true -> sepd (pp_dir d) k = true.
Proof. intros Hk. destruct d; cbn [pp_dir]; atom0. Qed.
Lemma sepd_lock l k : univ k = true -> sepd (pp_lock l) k = true.
Proof. intros Hk. destruct l; cbn [pp_lock]; [reflexivity| |]; ssplit; conj; atom0. Qed.
Lemma ust_lock l : ust pg (pp_lock l) = true. Proof. destruct l; reflexivity. Qed.

Lemma sepd_casts cs k : univ k = true -> sepd (map (fun c => PT (TCast c)) cs) k = true.
Proof.
  intros Hk. induction cs as [|c cs IH]; [reflexivity|]. cbn [map]. rewrite sepd_cons, IH, andb_true_r.
  apply stop_univ. destruct cs; [exact Hk|reflexivity].
Qed.
Lemma univ_casts cs k : univ k = true -> univ (fcls (map (fun c => PT (TCast c)) cs) k) = true.
Proof. destruct cs; [trivial|reflexivity]. Qed.
Lemma minus_num : stop_ok (SP PMinus) KNum = true.
Proof. clear. destruct pg; vm_compute; reflexivity. Qed.
Lemma sepd_lit t v cs k : univ k = true -> sepd (pp_lit t v cs) k = true.
Proof.
  intros Hk. unfold pp_lit, lit_toks. rewrite sepd_app, sepd_casts by exact Hk. rewrite andb_true_r.
  pose proof (univ_casts cs k Hk) as U.
  destruct (is_int t) eqn:I; [destruct v as [|c v']; [|destruct (byte_eqb c x_minus)]|]; cbn [map]; ssplit; conj; try atom0.
  cbn [fcl]. unfold lit_cls. unfold is_int in I. apply N.eqb_eq in I. subst t. apply minus_num.
Qed.

Lemma sepd_qual_id q n : sepd (pp_qual q) (fcl (PI n)) = true.
Proof.
  induction q as [|a q IH]; [reflexivity|]. cbn [pp_qual]. rewrite !sepd_cons, IH, andb_true_r. rewrite fcls_cons. change (fcl (PT (TP PDot))) with (KP PDot).
  rewrite stop_dot. cbn [andb skind]. destruct q; [apply stop_after_dot|cbn [pp_qual]; rewrite fcls_cons; apply stop_after_dot].
Qed.
Lemma sepd_qual_star q : sepd (pp_qual q) (KP PStar) = true.
Proof.
  induction q as [|a q IH]; [reflexivity|]. cbn [pp_qual]. rewrite !sepd_cons, IH, andb_true_r. rewrite fcls_cons. change (fcl (PT (TP PDot))) with (KP PDot).
  rewrite stop_dot. cbn [andb skind]. destruct q; [apply stop_dot_star|cbn [pp_qual]; rewrite fcls_cons; apply stop_after_dot].
Qed.
Lemma sepd_col q n k : univ k = true -> sepd (pp_col q n) k = true.
Proof. intros Hk. unfold pp_col. rewrite sepd_app. cbn [SqlLexRoundtripDefs.fcls]. rewrite sepd_qual_id. ssplit; conj; atom0. Qed.
Lemma sepd_tname q n k : univ k = true -> sepd (pp_tname q n) k = true.
Proof.
  intros Hk. unfold pp_tname. destruct (id_empty q); cbn [app]; ssplit; conj; try atom0.
  - change (fcl (PT (TP PDot))) with (KP PDot). apply stop_dot.
  - cbn [skind]. apply stop_after_dot.
Qed.
Lemma sepd_alias a k : univ k = true -> sepd (pp_alias a) k = true.
Proof. intros Hk. unfold pp_alias, sp. destruct (id_empty a); [reflexivity|]. cbn [app]. ssplit; conj; atom0. Qed.
Lemma ust_alias a : ust pg (pp_alias a) = true. Proof. unfold pp_alias. destruct (id_empty a); reflexivity. Qed.
Lemma sepd_idlist l k : univ k = true -> sepd (pp_idlist l) k = true.
Proof.
  intros Hk. induction l as [|a [|b l'] IH]; [reflexivity| |].
  - cbn [pp_idlist]. ssplit; conj; atom0.
  - change (pp_idlist (a :: b :: l')) with (PI a :: PT (TP PComma) :: PS :: pp_idlist (b :: l')).
    rewrite !sepd_cons, IH. ssplit. conj; atom0.
Qed.
Lemma sepd_columns l k : univ k = true -> sepd (pp_columns l) k = true.
Proof. intros Hk. unfold pp_columns. ssplit. rewrite sepd_idlist by reflexivity. conj; atom0. Qed.
Lemma sepd_ctype c k : univ k = true -> sepd (pp_ctype c) k = true.
Proof. intros Hk. destruct c as [ty [l|] [s|]]; cbn [pp_ctype]; ssplit; conj; atom0. Qed.
End S2.
Section S3.
Local Opaque SqlLexRoundtripDefs.stop_ok.
Variable pg : bool.
Notation sepd := (sepd pg true).
Notation stop_ok := (stop_ok pg true).
Notation fcls := (fcls pg).
Notation fcl := (fcl pg).
Notation skind := (skind pg).
Notation wf := (wf pg).

(** first piece of an operand of a prefix operator *)
Definition bsafe (c : cls) : bool := match c with KP PEq => false | _ => true end.
Definition msafe (c : cls) : bool := match c with KP (PMinus | PGt | PGe | PShr | PEq) => false | _ => true end.
Lemma stop_bang c : bsafe c = true -> stop_ok (SP PBang) c = true.
Proof. clear. destruct c as [| | | | | |p| | | |]; try destruct p; try discriminate; intros _; destruct pg; vm_compute; reflexivity. Qed.
Lemma stop_minus c : msafe c = true -> stop_ok (SP PMinus) c = true.
Proof. clear. destruct c as [| | | | | |p| | | |]; try destruct p; try discriminate; intros _; destruct pg; vm_compute; reflexivity. Qed.

Lemma msafe_lit_cls t v : msafe (lit_cls t v) = true.
Proof. unfold lit_cls. repeat match goal with |- context [if ?b then _ else _] => destruct b end; reflexivity. Qed.
Lemma msafe_id i : msafe (fcl (PI i)) = true.
Proof. destruct i as [[| |] v]; cbn [SqlLexRoundtripDefs.fcl]; unfold qcls; try destruct (must_escape pg v); destruct pg; reflexivity. Qed.
Lemma msafe_bsafe c : msafe c = true -> bsafe c = true.
Proof. destruct c as [| | | | | |p| | | |]; try destruct p; try discriminate; reflexivity. Qed.

Lemma first_operand x : L_COLLATE <=? level x = true -> wf x = true ->
  exists p r, pp x = p :: r /\ bsafe (fcl p) = true /\ (neg_lit x = false -> msafe (fcl p) = true).
Proof.
  induction x; intros Hl W; try (vm_compute in Hl; discriminate Hl).
  - eexists; eexists; split; [rewrite pp_EExists; reflexivity|split; [reflexivity|intros _; reflexivity]].
  - destruct op; vm_compute in Hl; discriminate Hl.
  - (* ECollate *) rewrite wf_ECollate in W. repeat (apply andb_true_iff in W; destruct W as [W ?]).
    match goal with H : negb (neg_lit x) = true |- _ => apply negb_true_iff in H; rename H into Hn end.
    destruct IHx as (p & r & E & B & M); try assumption.
    rewrite pp_ECollate, E. exists p. eexists. split; [reflexivity|]. split; [exact B|]. intros _. apply M. exact Hn.
  - (* ELit *) rewrite pp_ELit. unfold pp_lit, lit_toks. cbn [neg_lit].
    destruct (is_int t) eqn:I; [destruct v as [|c v']; [|destruct (byte_eqb c x_minus) eqn:E]|]; cbn [map app];
      eexists; eexists; (split; [reflexivity|]); cbn [SqlLexRoundtripDefs.fcl]; split; try reflexivity; try (intros _; apply msafe_lit_cls);
      try (apply msafe_bsafe, msafe_lit_cls). intros C. cbn [andb] in C. discriminate C.
  - eexists; eexists; split; [reflexivity|split; [reflexivity|intros _; reflexivity]].
  - destruct b; eexists; eexists; (split; [reflexivity|split; [reflexivity|intros _; reflexivity]]).
  - eexists; eexists; split; [reflexivity|split; [reflexivity|intros _; reflexivity]].
  - (* ECol *) rewrite pp_ECol. unfold pp_col. destruct q as [|a q]; cbn [pp_qual app]; eexists; eexists; (split; [reflexivity|]);
      (split; [apply msafe_bsafe, msafe_id|intros _; apply msafe_id]).
  - eexists; eexists; split; [rewrite pp_EParen; reflexivity|split; [reflexivity|intros _; reflexivity]].
  - eexists; eexists; split; [rewrite pp_ETuple; reflexivity|split; [reflexivity|intros _; reflexivity]].
  - eexists; eexists; split; [rewrite pp_ESubq; reflexivity|split; [reflexivity|intros _; reflexivity]].
  - (* EFunc *) rewrite pp_EFunc. destruct (id_empty q); cbn [app]; eexists; eexists; (split; [reflexivity|]).
    + split; [reflexivity|intros _; reflexivity].
    + split; [apply msafe_bsafe, msafe_id|intros _; apply msafe_id].
  - eexists; eexists; split; [rewrite pp_ECase; reflexivity|split; [reflexivity|intros _; reflexivity]].
  - eexists; eexists; split; [rewrite pp_EConvert; reflexivity|split; [reflexivity|intros _; reflexivity]].
  - eexists; eexists; split; [rewrite pp_EConvertUsing; reflexivity|split; [reflexivity|intros _; reflexivity]].
  - eexists; eexists; split; [rewrite pp_EInterval; reflexivity|split; [reflexivity|intros _; reflexivity]].
  - eexists; eexists; split; [rewrite pp_EValuesFunc; reflexivity|split; [reflexivity|intros _; reflexivity]].
Qed.
End S3.
Section S4.
Local Opaque SqlLexRoundtripDefs.stop_ok.
Variable pg : bool.
Notation sepd := (sepd pg true).
Notation stop_ok := (stop_ok pg true).
Notation fcls := (fcls pg).
Notation fcl := (fcl pg).
Notation skind := (skind pg).
Notation wf := (wf pg).

Definition wf' (e : expr) : bool := wf e || match e with ETuple xs => wf_exprs pg xs | _ => false end.
Lemma wf_wf' e : wf e = true -> wf' e = true.
Proof. unfold wf'. intros ->. reflexivity. Qed.

Lemma ust_orders first os : ust pg (pp_orders first os) = true.
Proof. destruct os; [reflexivity|]. rewrite pp_orders_OCons. destruct first; reflexivity. Qed.
Lemma ust_lim l : ust pg (pp_lim l) = true.
Proof. destruct l; reflexivity. Qed.
Lemma ust_jcond c : ust pg (pp_jcond c) = true.
Proof. destruct c; reflexivity. Qed.

Lemma stop_dot_word : stop_ok (SP PDot) KWord = true.
Proof. clear. destruct pg; vm_compute; reflexivity. Qed.

Definition Pe e := wf' e = true -> forall kk, univ kk = true -> sepd (pp e) kk = true.
Definition Pxs xs := wf_exprs pg xs = true -> forall kk, univ kk = true -> sepd (pp_exprs xs) kk = true.
Definition Poe o := match o with NoE => True | SomeE x => Pe x end.
Definition Pws ws := wf_whens pg ws = true -> forall kk, sepd (pp_whens ws) kk = true.
Definition Pse s := wf_selexpr pg s = true -> forall kk, univ kk = true -> sepd (pp_selexpr s) kk = true.
Definition Pses xs := wf_selexprs pg xs = true -> forall kk, univ kk = true -> sepd (pp_selexprs xs) kk = true.
Definition Psel s := wf_sel pg s = true -> forall kk, univ kk = true -> sepd (pp_sel s) kk = true.
Definition Pt t := wf_texpr pg t = true -> forall kk, univ kk = true -> sepd (pp_texpr t) kk = true.
Definition Pts ts := wf_texprs pg ts = true -> forall kk, univ kk = true -> sepd (pp_texprs ts) kk = true.
Definition Pjc c := wf_jcond pg c = true -> forall kk, univ kk = true -> sepd (pp_jcond c) kk = true.
Definition Pos os := wf_orders pg os = true -> forall first kk, univ kk = true -> sepd (pp_orders first os) kk = true.
Definition Plm l := wf_lim pg l = true -> forall kk, univ kk = true -> sepd (pp_lim l) kk = true.

Ltac ustsolve := first [reflexivity | apply ust_alias | apply ust_lock | apply ust_orders | apply ust_lim | apply ust_jcond].
Ltac uni := first [ assumption | reflexivity | (apply univ_ust; [ustsolve | uni]) ].
Ltac ssplit := repeat first [rewrite sepd_app | rewrite sepd_cons | rewrite sepd_nil];
  repeat first [rewrite fcls_app | rewrite fcls_cons | rewrite fcls_nil].
Ltac conj := repeat match goal with |- _ && _ = true => apply andb_true_intro; split end.
Ltac wfs := first [assumption | apply wf_wf'; assumption].
Ltac wsplit W := repeat (apply andb_true_iff in W; destruct W as [W ?]).
Ltac atom :=
  match goal with
  | |- true = true => reflexivity
  | H : _ -> forall kk, univ kk = true -> SqlLexRoundtripDefs.sepd _ _ ?L kk = true |- SqlLexRoundtripDefs.sepd _ _ ?L _ = true => apply H; [wfs | uni]
  | H : _ -> forall first kk, univ kk = true -> SqlLexRoundtripDefs.sepd _ _ (pp_orders first ?o) kk = true |- SqlLexRoundtripDefs.sepd _ _ (pp_orders _ ?o) _ = true => apply H; [wfs | uni]
  | |- sepd (words _) _ = true => apply sepd_words; uni
  | |- sepd (pp_cmp _) _ = true => apply sepd_cmp; uni
  | |- sepd (pp_is _) _ = true => apply sepd_is; uni
  | |- sepd (pp_between _) _ = true => apply sepd_between; uni
  | |- sepd (pp_jk _) _ = true => apply sepd_jk; uni
  | |- sepd (pp_ut _) _ = true => apply sepd_ut; uni
  | |- sepd (pp_dir _) _ = true => apply sepd_dir; uni
  | |- sepd (pp_lock _) _ = true => apply sepd_lock; uni
  | |- sepd (pp_lit _ _ _) _ = true => apply sepd_lit; uni
  | |- sepd (pp_col _ _) _ = true => apply sepd_col; uni
  | |- sepd (pp_tname _ _) _ = true => apply sepd_tname; uni
  | |- sepd (pp_alias _) _ = true => apply sepd_alias; uni
  | |- sepd (pp_columns _) _ = true => apply sepd_columns; uni
  | |- sepd (pp_ctype _) _ = true => apply sepd_ctype; uni
  | |- SqlLexRoundtripDefs.stop_ok _ _ _ _ = true => first [apply stop_free; reflexivity | apply stop_univ; uni]
  end.
Ltac fin := unfold sp, comma; cbn [app]; ssplit; conj; try atom.
Ltac wf1 W := unfold wf' in W; cbv iota in W; rewrite orb_false_r in W.

Theorem sepd_all :
  (forall e, Pe e) /\ (forall xs, Pxs xs) /\ (forall o, Poe o) /\ (forall ws, Pws ws) /\ (forall s, Pse s)
  /\ (forall xs, Pses xs) /\ (forall s, Psel s) /\ (forall t, Pt t) /\ (forall ts, Pts ts) /\ (forall c, Pjc c)
  /\ (forall os, Pos os) /\ (forall l, Plm l).
Proof.
  apply ast_mutind; unfold Pe, Pxs, Pws, Pse, Pses, Psel, Pt, Pts, Pjc, Pos, Plm; intros.
  - (* EAnd *) rename H1 into W. wf1 W. rewrite wf_EAnd in W. wsplit W. rewrite pp_EAnd. fin.
  - rename H1 into W. wf1 W. rewrite wf_EOr in W. wsplit W. rewrite pp_EOr. fin.
  - rename H0 into W. wf1 W. rewrite wf_ENot in W. wsplit W. rewrite pp_ENot. fin.
  - (* ECmp *) rename H1 into W. wf1 W. rewrite wf_ECmp in W. apply andb_true_iff in W as [W Wr0]. wsplit W. rewrite pp_ECmp.
    assert (Wr : wf' r = true).
    { destruct (is_in op); [|apply andb_true_iff in Wr0 as [Wr0 _]; apply wf_wf'; assumption].
      destruct r; try discriminate Wr0.
      - unfold wf'. apply andb_true_iff in Wr0 as [_ Wr0]. rewrite Wr0. apply orb_true_r.
      - apply wf_wf'. rewrite wf_ESubq. exact Wr0. }
    fin.
  - rename H2 into W. wf1 W. rewrite wf_ECmpEsc in W. wsplit W. rewrite pp_ECmpEsc. fin.
  - rename H2 into W. wf1 W. rewrite wf_ERange in W. wsplit W. rewrite pp_ERange. fin.
  - rename H0 into W. wf1 W. rewrite wf_EIs in W. wsplit W. rewrite pp_EIs. fin.
  - rename H0 into W. wf1 W. rewrite wf_EExists in W. wsplit W. rewrite pp_EExists. fin.
  - rename H1 into W. wf1 W. rewrite wf_EBin in W. wsplit W. rewrite pp_EBin. unfold pp_bin. fin.
  - (* EUn *) rename H0 into W. wf1 W. rewrite wf_EUn in W. apply andb_true_iff in W as [W Wop].
    apply andb_true_iff in W as [W Wv]. apply andb_true_iff in W as [W Wl].
    rewrite pp_EUn. destruct (is_un x) eqn:U.
    + destruct op; cbn [pp_un un_tok]; fin.
    + assert (Lc : L_COLLATE <=? level x = true).
      { clear -U Wl. destruct x; try discriminate U; try (match goal with o : binop |- _ => destruct o end);
          vm_compute in Wl; try discriminate Wl; reflexivity. }
      destruct (first_operand pg x Lc W) as (p & r & E & B & M).
      assert (F : forall k0, fcls (pp x) k0 = fcl p) by (intros; rewrite E; reflexivity).
      destruct op; cbn [pp_un un_tok app]; fin; rewrite ?F.
      * apply stop_minus, M. apply negb_true_iff in Wop. clear -Wop. destruct x; try reflexivity. cbn [is_intlit] in Wop. cbn [neg_lit]. rewrite Wop. destruct v; reflexivity.
      * apply stop_bang. exact B.
  - rename H0 into W. wf1 W. rewrite wf_ECollate in W. wsplit W. rewrite pp_ECollate. fin.
  - rewrite pp_ELit. atom.
  - reflexivity || (cbn [pp]; fin).
  - destruct b; cbn [pp]; fin.
  - cbn [pp]; fin.
  - rewrite pp_ECol. atom.
  - rename H0 into W. wf1 W. rewrite wf_EParen in W. rewrite pp_EParen. fin.
  - (* ETuple *) rename H0 into W. unfold wf' in W. rewrite wf_ETuple in W.
    assert (Wx : wf_exprs pg xs = true).
    { apply orb_true_iff in W as [W|W]; [|exact W]. destruct xs as [|? [|? ?]]; try discriminate W; exact W. }
    rewrite pp_ETuple. fin.
  - rename H0 into W. wf1 W. rewrite wf_ESubq in W. wsplit W. rewrite pp_ESubq. fin.
  - (* EFunc *) rename H0 into W. wf1 W. rewrite wf_EFunc in W. wsplit W. rewrite pp_EFunc.
    destruct (id_empty q), d; fin.
    all: try (change (SqlLexRoundtripDefs.fcl pg (PT (TP PDot))) with (KP PDot); apply stop_dot).
    all: try (cbn [SqlLexRoundtripDefs.skind SqlLexRoundtripDefs.fcl]; apply stop_dot_word).
  - (* ECase *) rename H2 into W. wf1 W. rewrite wf_ECase in W. wsplit W. rewrite pp_ECase.
    destruct x as [|y]; destruct el as [|z]; cbn [Poe wf_oexpr] in *; unfold Pe in *; fin; try (apply H0; assumption).
  - rename H0 into W. wf1 W. rewrite wf_EConvert in W. wsplit W. rewrite pp_EConvert. fin.
  - rename H0 into W. wf1 W. rewrite wf_EConvertUsing in W. wsplit W. rewrite pp_EConvertUsing. fin.
  - rename H0 into W. wf1 W. rewrite wf_EInterval in W. wsplit W. rewrite pp_EInterval. destruct unit; fin.
  - rewrite pp_EValuesFunc. fin.
  - (* XNil *) reflexivity.
  - rename H1 into W. rewrite wf_exprs_XCons in W. wsplit W. destruct xs as [|y ys]; [rewrite pp_exprs_XCons; atom | rewrite pp_exprs_XCons2; fin].
  - exact I.
  - exact H.
  - reflexivity.
  - rename H2 into W. rewrite wf_whens_WCons in W. wsplit W. rewrite pp_whens_WCons. fin. apply H1; assumption.
  - rewrite pp_selexpr_SStar. ssplit. conj; try atom. apply sepd_qual_star.
  - rename H0 into W. rewrite wf_selexpr_SAliased in W. wsplit W. rewrite pp_selexpr_SAliased. fin.
  - reflexivity.
  - rename H1 into W. rewrite wf_selexprs_SCons in W. wsplit W. destruct xs as [|y ys]; [rewrite pp_selexprs_SCons; atom | rewrite pp_selexprs_SCons2; fin].
  - (* Select *) rename H6 into W. rewrite wf_sel_Select in W. wsplit W. rewrite pp_sel_Select.
    destruct d; destruct wh as [|w]; destruct gb as [|g gs]; destruct hv as [|h]; cbn [Poe wf_oexpr] in *; unfold Pe in *; fin.
  - rename H3 into W. rewrite wf_sel_Union in W. wsplit W. rewrite pp_sel_Union. fin.
  - rename H0 into W. rewrite wf_sel_ParenSel in W. wsplit W. rewrite pp_sel_ParenSel. fin.
  - rewrite pp_texpr_TTable. fin.
  - rename H0 into W. rewrite wf_texpr_TSubq in W. wsplit W. rewrite pp_texpr_TSubq. fin.
  - rename H0 into W. rewrite wf_texpr_TParen in W. wsplit W. rewrite pp_texpr_TParen. fin.
  - rename H2 into W. rewrite wf_texpr_TJoin in W. wsplit W. rewrite pp_texpr_TJoin. fin.
  - reflexivity.
  - rename H1 into W. rewrite wf_texprs_TCons in W. wsplit W. destruct ts as [|y ys]; [rewrite pp_texprs_TCons; atom | rewrite pp_texprs_TCons2; fin].
  - reflexivity.
  - rename H0 into W. rewrite wf_jcond_JOn in W. rewrite pp_jcond_JOn. fin.
  - rewrite pp_jcond_JUsing. fin.
  - reflexivity.
  - (* OCons *) rename H1 into W. rewrite wf_orders_OCons in W. wsplit W. rewrite pp_orders_OCons.
    match goal with |- context [pp x ++ ?D ++ pp_orders false os] =>
      assert (HD : D = [] \/ D = PS :: pp_dir d) by (clear; destruct x; auto; destruct (bytes_eqb (lower n) x_rand); auto);
      destruct HD as [HD|HD]; rewrite HD end; destruct first; fin.
  - reflexivity.
  - rename H0 into W. rewrite wf_lim_LOnly in W. rewrite pp_lim_LOnly. fin.
  - rename H1 into W. rewrite wf_lim_LOffset in W. wsplit W. rewrite pp_lim_LOffset. fin.
  - rename H1 into W. rewrite wf_lim_LComma in W. wsplit W. rewrite pp_lim_LComma. fin.
  - cbn [pp_lim]. fin.
  - rename H0 into W. rewrite wf_lim_LAllOffset in W. wsplit W. rewrite pp_lim_LAllOffset. fin.
Qed.
End S4.
Section S5.
Variable pg : bool.
Notation sepd := (sepd pg true).
Notation stop_ok := (stop_ok pg true).
Notation fcls := (fcls pg).
Notation fcl := (fcl pg).
Notation skind := (skind pg).
Notation wf := (wf pg).

Lemma sepd_e e kk : wf e = true -> univ kk = true -> sepd (pp e) kk = true.
Proof. intros W. apply (proj1 (sepd_all pg) e). apply wf_wf'. exact W. Qed.
Lemma sepd_xs xs kk : wf_exprs pg xs = true -> univ kk = true -> sepd (pp_exprs xs) kk = true.
Proof. intros W. apply (proj1 (proj2 (sepd_all pg)) xs W). Qed.
Lemma sepd_ses xs kk : wf_selexprs pg xs = true -> univ kk = true -> sepd (pp_selexprs xs) kk = true.
Proof. intros W. apply (proj1 (proj2 (proj2 (proj2 (proj2 (proj2 (sepd_all pg)))))) xs W). Qed.
Lemma sepd_sel s kk : wf_sel pg s = true -> univ kk = true -> sepd (pp_sel s) kk = true.
Proof. intros W. apply (proj1 (proj2 (proj2 (proj2 (proj2 (proj2 (proj2 (sepd_all pg))))))) s W). Qed.
Lemma sepd_ts ts kk : wf_texprs pg ts = true -> univ kk = true -> sepd (pp_texprs ts) kk = true.
Proof. intros W. apply (proj1 (proj2 (proj2 (proj2 (proj2 (proj2 (proj2 (proj2 (proj2 (sepd_all pg))))))))) ts W). Qed.
Lemma sepd_os os first kk : wf_orders pg os = true -> univ kk = true -> sepd (pp_orders first os) kk = true.
Proof. intros W. apply (proj1 (proj2 (proj2 (proj2 (proj2 (proj2 (proj2 (proj2 (proj2 (proj2 (proj2 (sepd_all pg))))))))))) os W). Qed.
Lemma sepd_lm l kk : wf_lim pg l = true -> univ kk = true -> sepd (pp_lim l) kk = true.
Proof. intros W. apply (proj2 (proj2 (proj2 (proj2 (proj2 (proj2 (proj2 (proj2 (proj2 (proj2 (proj2 (sepd_all pg))))))))))) l W). Qed.

Local Opaque SqlLexRoundtripDefs.stop_ok.
Lemma ust_where o : ust pg (pp_where o) = true. Proof. destruct o; reflexivity. Qed.
Lemma ust_ret r : ust pg (pp_ret r) = true. Proof. destruct r; reflexivity. Qed.
Lemma ust_dup u : ust pg (pp_dup u) = true. Proof. destruct u; reflexivity. Qed.
Ltac ustsolve := first [reflexivity | apply ust_alias | apply ust_lock | apply ust_orders | apply ust_lim | apply ust_jcond
                        | apply ust_where | apply ust_ret | apply ust_dup].
Ltac uni := first [ assumption | reflexivity | (apply univ_ust; [ustsolve | uni]) ].
Ltac ssplit := repeat first [rewrite sepd_app | rewrite sepd_cons | rewrite sepd_nil];
  repeat first [rewrite fcls_app | rewrite fcls_cons | rewrite fcls_nil].
Ltac conj := repeat match goal with |- _ && _ = true => apply andb_true_intro; split end.
Ltac wsplit W := repeat (apply andb_true_iff in W; destruct W as [W ?]).
Ltac atom :=
  match goal with
  | |- true = true => reflexivity
  | |- sepd (pp _) _ = true => apply sepd_e; [assumption | uni]
  | |- sepd (pp_exprs _) _ = true => apply sepd_xs; [assumption | uni]
  | |- sepd (pp_selexprs _) _ = true => apply sepd_ses; [assumption | uni]
  | |- sepd (pp_sel _) _ = true => apply sepd_sel; [assumption | uni]
  | |- sepd (pp_texprs _) _ = true => apply sepd_ts; [assumption | uni]
  | |- sepd (pp_orders _ _) _ = true => apply sepd_os; [assumption | uni]
  | |- sepd (pp_lim _) _ = true => apply sepd_lm; [assumption | uni]
  | H : forall kk, univ kk = true -> SqlLexRoundtripDefs.sepd _ _ ?L kk = true |- SqlLexRoundtripDefs.sepd _ _ ?L _ = true => apply H; uni
  | |- sepd (words _) _ = true => apply sepd_words; uni
  | |- sepd (pp_col _ _) _ = true => apply sepd_col; uni
  | |- sepd (pp_tname _ _) _ = true => apply sepd_tname; uni
  | |- sepd (pp_columns _) _ = true => apply sepd_columns; uni
  | |- SqlLexRoundtripDefs.stop_ok _ _ _ _ = true => first [apply stop_free; reflexivity | apply stop_univ; uni]
  end.
Ltac fin := unfold sp, comma; cbn [app]; ssplit; conj; try atom.


Lemma sepd_updates us : wf_updates pg us = true -> forall kk, univ kk = true -> sepd (pp_updates us) kk = true.
Proof.
  induction us as [|q n x us IH]; [reflexivity|]. intros W kk Hk. cbn [wf_updates] in W. wsplit W.
  destruct us as [|q' n' x' us'].
  - cbn [pp_updates]. fin.
  - change (pp_updates (UCons q n x (UCons q' n' x' us'))) with
      (pp_col q n ++ PS :: PT (TP PEq) :: PS :: pp x ++ comma ++ pp_updates (UCons q' n' x' us')).
    specialize (IH H). fin.
Qed.
Lemma sepd_rows rs : wf_rows pg rs = true -> forall kk, univ kk = true -> sepd (pp_rows rs) kk = true.
Proof.
  induction rs as [|r rs IH]; [reflexivity|]. intros W kk Hk. cbn [wf_rows] in W. wsplit W.
  destruct rs as [|r' rs'].
  - cbn [pp_rows]. fin.
  - change (pp_rows (RCons r (RCons r' rs'))) with
      (PT (TP PLParen) :: pp_exprs r ++ PT (TP PRParen) :: comma ++ pp_rows (RCons r' rs')).
    specialize (IH H). fin.
Qed.
Lemma sepd_where o kk : wf_oexpr pg o = true -> univ kk = true -> sepd (pp_where o) kk = true.
Proof. intros W Hk. destruct o; [reflexivity|]. cbn [wf_oexpr] in W. unfold pp_where. fin. Qed.
Lemma sepd_ret r kk : wf_selexprs pg r = true -> univ kk = true -> sepd (pp_ret r) kk = true.
Proof. intros W Hk. unfold pp_ret. destruct r; [reflexivity|]. fin. Qed.
Lemma sepd_dup u kk : wf_updates pg u = true -> univ kk = true -> sepd (pp_dup u) kk = true.
Proof. intros W Hk. unfold pp_dup. destruct u; [reflexivity|]. pose proof (sepd_updates _ W) as HU. fin. Qed.
Lemma sepd_ins_head repl ign tq tn kk : univ kk = true -> sepd (pp_ins_head repl ign tq tn) kk = true.
Proof. intros Hk. unfold pp_ins_head. destruct ign; fin. Qed.

(** (2)+(4): the separator discipline of every well-formed statement *)
Theorem sepd_stmt t : wf_stmt pg t = true -> sepd (pp_stmt t) KEnd = true.
Proof.
  destruct t as [q|repl ign tq tn cols r dup ret|repl ign tq tn|ts set from wh ob lm ret|ts wh ob lm ret|targets ts wh ret];
    cbn [pp_stmt wf_stmt]; intros W.
  - wsplit W. atom.
  - wsplit W. pose proof (sepd_ins_head repl ign tq tn) as HH. pose proof (sepd_updates _ H0) as HU.
    destruct r as [rs|q]; cbn [pp_irows]; wsplit H1; [pose proof (sepd_rows _ H1) as HR|]; destruct cols; fin;
      try (apply sepd_dup; [assumption|uni]); try (apply sepd_ret; [assumption|uni]).
  - pose proof (sepd_ins_head repl ign tq tn) as HH. fin.
  - wsplit W. pose proof (sepd_updates _ H7) as HU. destruct from; fin;
      try (apply sepd_where; [assumption|uni]); try (apply sepd_ret; [assumption|uni]).
  - wsplit W. fin; try (apply sepd_where; [assumption|uni]); try (apply sepd_ret; [assumption|uni]).
  - wsplit W. fin; try (apply sepd_where; [assumption|uni]); try (apply sepd_ret; [assumption|uni]).
Qed.
End S5.

(** from the lax table to the strict one: the only pair let through is (unquoted "@@x", '.') *)
Section S6.
Variable pg : bool.
Lemma kdot_piece q : is_kdot (fcl pg q) = true -> q = PT (TP PDot).
Proof.
  destruct q as [|t|i|v]; cbn [fcl]; try discriminate.
  - destruct t as [t v|n|n|c|p|w|s]; try discriminate.
    + unfold lit_cls. repeat match goal with |- context [if ?b then _ else _] => destruct b end; discriminate.
    + unfold qcls. destruct (must_escape pg n), pg; discriminate.
    + destruct p; try discriminate. reflexivity.
  - destruct i as [[| |] v]; try discriminate. unfold qcls. destruct (must_escape pg v), pg; discriminate.
Qed.
Lemma sepd_strict ps k :
  is_kdot k = false -> sepd pg true ps k = true -> sysq pg ps = false -> sepd pg false ps k = true.
Proof.
  intros Hk. induction ps as [|p r IH]; [reflexivity|]. cbn [sepd sysq]. intros H Q.
  apply andb_true_iff in H as [H1 H2]. apply orb_false_iff in Q as [Q1 Q2]. rewrite IH by assumption. rewrite andb_true_r.
  unfold stop_ok in *. cbn [andb orb] in *. apply orb_true_iff in H1 as [H1|H1]; [|exact H1]. exfalso.
  apply andb_true_iff in H1 as [Hs Hd]. rewrite Hs in Q1. cbn [andb] in Q1.
  destruct r as [|q r']; cbn [fcls] in Hd; [congruence|]. apply kdot_piece in Hd. subst q. discriminate Q1.
Qed.
End S6.

(** the local condition = (literal / cast spellings, bind-variable numbering) && (identifier / raw-name spellings) *)
Section S7.
Variable pg : bool.
Definition idok (p : piece) : bool := match p with PT (TLit _ _) | PT (TCast _) => true | _ => pok pg 0 p end.
Lemma loc_split ps : forall nv, loc pg nv ps = lits_ok nv ps && forallb idok ps.
Proof.
  induction ps as [|p r IH]; intros nv; [reflexivity|]. cbn [loc lits_ok forallb]. rewrite IH.
  assert (E : pok pg nv p = pok_lit nv p && idok p).
  { destruct p as [|t|i|v]; try reflexivity. destruct t; cbn [pok pok_lit idok]; rewrite ?andb_true_r; reflexivity. }
  rewrite E. destruct (pok_lit nv p), (idok p), (lits_ok (nvn nv p) r), (forallb idok r); reflexivity.
Qed.
End S7.
