(** C13_statements, round trip, part 1: the statements proved by mutual induction and the first tokens of
    printed nodes. *)
From Acra Require Import Lib.Bytes Gen.Prec Gen.SqlWords Model.SqlStmt Model.SqlStmtParse
  Proofs.SqlStmtUnfold Proofs.SqlStmtFacts Proofs.SqlStmtHeads.
From Coq Require Import Arith Lia.

Ltac fuel f := destruct f as [|f]; [unfold K in *; lia|].
Ltac ltb_false := symmetry; apply Nat.ltb_ge.
Ltac leb_true := symmetry; apply Nat.leb_le.
Ltac split_andb := repeat match goal with H : _ && _ = true |- _ => apply andb_prop in H; destruct H end.
Ltac leb_hyps := repeat match goal with H : (_ <=? _) = true |- _ => apply Nat.leb_le in H end.
Ltac negb_hyps := repeat match goal with H : negb _ = true |- _ => apply Bool.negb_true_iff in H end.

Section RT.
Variable pg : bool.

Definition gstop (rest : list tok) : bool := match rest with [] => true | t :: _ => negb (glue t) end.
Lemma stops_gstop b rest : stopsb b rest = true -> gstop rest = true.
Proof. destruct rest as [|t rest]; [reflexivity|]. cbn [stopsb gstop]. intros H. apply andb_prop in H as [H _]. exact H. Qed.

(** atom followed by its COLLATE suffixes *)
Definition pac (f : nat) (ts : list tok) : PE :=
  match patom pg f ts with Some (x, ts1) => pcollate pg f x ts1 | None => None end.

Definition Cst (e : expr) : Prop :=
  wf pg e = true -> forall min rest R a,
    min <= level e -> stopsb (rbound e) rest = true ->
    (forall f, a <= f -> ploop pg f min e rest = R) ->
    forall f, a + need e <= f -> pexpr pg f min (print pg e ++ rest) = R.
Definition Ust (e : expr) : Prop :=
  wf pg e = true -> L_UNARY <= level e -> forall rest, stopsb L_COLLATE rest = true ->
  forall f, need e <= f + 4 -> punary pg f (print pg e ++ rest) = Some (e, rest).
Definition Ast (e : expr) : Prop :=
  wf pg e = true -> L_COLLATE <= level e -> neg_lit e = false -> forall rest R a,
    gstop rest = true ->
    (forall f, a <= f -> pcollate pg f e rest = R) ->
    forall f, a + need e <= f + 6 -> pac f (print pg e ++ rest) = R.

Definition Pxs (xs : exprs) : Prop :=
  wf_exprs pg xs = true -> xs <> XNil -> forall rest, hard rest = true -> expect_p PComma rest = None ->
  forall f, need_exprs xs <= f -> pexprs pg f (print_exprs pg xs ++ rest) = Some (xs, rest).
Definition Poe (o : oexpr) : Prop := match o with NoE => True | SomeE x => Cst x end.
Definition Pws (ws : whens) : Prop :=
  wf_whens pg ws = true -> forall rest, hard rest = true -> expect_w W_when rest = None ->
  forall f, S (need_whens ws) <= f -> pwhens pg f (print_whens pg ws ++ rest) = Some (ws, rest).
Definition Pse (s : selexpr) : Prop :=
  wf_selexpr pg s = true -> forall rest, hard rest = true -> expect_w W_as rest = None ->
  forall f, need_selexpr s <= f -> pselexpr pg f (print_selexpr pg s ++ rest) = Some (s, rest).
Definition Pses (xs : selexprs) : Prop :=
  wf_selexprs pg xs = true -> xs <> SNil -> forall rest, hard rest = true -> expect_p PComma rest = None ->
  expect_w W_as rest = None ->
  forall f, need_selexprs xs <= f -> pselexprs pg f (print_selexprs pg xs ++ rest) = Some (xs, rest).

(** what may follow a select statement (a following ON is the ON DUPLICATE KEY of an INSERT) *)
Definition selstop (s : sel) (rest : list tok) : bool :=
  match rest with
  | [] => true
  | TP PRParen :: _ | TW W_union :: _ | TW W_returning :: _ => true
  | TW W_on :: _ => negb (ends_open s)
  | _ => false
  end.
(** what may follow a base select: additionally the ORDER BY / LIMIT / lock of its statement *)
Definition base_open (s : sel) : bool :=
  match s with
  | Select _ _ from NoE XNil NoE _ _ _ => match last_texpr from with Some t => open_on t | None => false end
  | _ => false
  end.
Definition bstop (s : sel) (rest : list tok) : bool :=
  match rest with
  | [] => true
  | TP PRParen :: _ | TW W_union :: _ | TW W_returning :: _ | TW W_order :: _ | TW W_limit :: _ | TW W_for :: _
  | TW W_lock :: _ => true
  | TW W_on :: _ => negb (base_open s)
  | _ => false
  end.
Definition Ssel (s : sel) : Prop :=
  wf_sel pg s = true -> forall rest R a, selstop s rest = true ->
  (forall f, a <= f -> punion pg f s rest = R) ->
  forall f, a + need_sel s <= f -> psel pg f (print_sel pg s ++ rest) = R.
Definition Bsel (s : sel) : Prop :=
  wf_sel pg s = true -> is_select s = true -> no_tails s = true -> forall rest, bstop s rest = true ->
  forall f, need_sel s <= f -> pbase pg f (print_sel pg s ++ rest) = Some (s, rest).
(** a parenthesised select carries the statement of the select inside *)
Definition Rsel (s : sel) : Prop := match s with ParenSel s' => Ssel s' | _ => True end.
Definition Psel (s : sel) : Prop := Ssel s /\ Bsel s /\ Rsel s.

(** what may follow a table expression: no alias, no '.', and no ON / USING a join without condition would take *)
Definition tstop (t : texpr) (rest : list tok) : bool :=
  hard rest && match expect_w W_as rest with Some _ => false | None => true end
  && (negb (open_on t) || match expect_w W_on rest with Some _ => false | None => true end)
  && (negb (open_using t) || match expect_w W_using rest with Some _ => false | None => true end).
Definition Tst (t : texpr) : Prop :=
  wf_texpr pg t = true -> forall rest R a, tstop t rest = true ->
  (forall f, a <= f -> pjoins pg f t rest = R) ->
  forall f, a + need_texpr t <= f -> ptref pg f (print_texpr pg t ++ rest) = R.
Definition Fst (t : texpr) : Prop :=
  wf_texpr pg t = true -> is_factor t = true -> forall rest, tstop t rest = true ->
  forall f, need_texpr t <= f + 4 -> ptfactor pg f (print_texpr pg t ++ rest) = Some (t, rest).
Definition Pt (t : texpr) : Prop := Tst t /\ Fst t.
Definition last_open_on (ts : texprs) : bool := match last_texpr ts with Some t => open_on t | None => false end.
Definition last_open_using (ts : texprs) : bool := match last_texpr ts with Some t => open_using t | None => false end.
Definition tsstop (ts : texprs) (rest : list tok) : bool :=
  hard rest && match expect_w W_as rest with Some _ => false | None => true end
  && match expect_p PComma rest with Some _ => false | None => true end
  && match join_head rest with Some _ => false | None => true end
  && (negb (last_open_on ts) || match expect_w W_on rest with Some _ => false | None => true end)
  && (negb (last_open_using ts) || match expect_w W_using rest with Some _ => false | None => true end).
Definition Pts (ts : texprs) : Prop :=
  wf_texprs pg ts = true -> ts <> TNil -> forall rest, tsstop ts rest = true ->
  forall f, need_texprs ts <= f -> ptrefs pg f (print_texprs pg ts ++ rest) = Some (ts, rest).
Definition Pjc (c : jcond) : Prop := match c with JOn x => Cst x | _ => True end.
(** the operand of IN carries the statement of its list / sub-select *)
Definition Ist (e : expr) : Prop :=
  match e with ETuple xs => Pxs xs | ESubq q => Ssel q | _ => True end.
Definition Pe (e : expr) : Prop := Cst e /\ Ust e /\ Ast e /\ Ist e.

(** ORDER BY list without its prefix *)
Definition dir_opt (x : expr) (d : odir) : list tok :=
  match x with
  | ENull => []
  | EFunc _ n _ _ => if bytes_eqb (lower n) x_rand then [] else dir_toks d
  | _ => dir_toks d
  end.
Definition ord_body (os : orders) : list tok :=
  match os with ONil => [] | OCons x d os' => print pg x ++ dir_opt x d ++ print_orders pg false os' end.
Definition ostop (rest : list tok) : bool :=
  hard rest && match expect_p PComma rest with Some _ => false | None => true end
  && match rest with TW W_asc :: _ | TW W_desc :: _ | TW W_nulls :: _ => false | _ => true end.
Definition Pos (os : orders) : Prop :=
  wf_orders pg os = true -> os <> ONil -> forall rest, ostop rest = true ->
  forall f, need_orders os <= f -> porders pg f (ord_body os ++ rest) = Some (os, rest).
Definition lstop (rest : list tok) : bool :=
  hard rest && match expect_p PComma rest with Some _ => false | None => true end
  && match rest with TW W_limit :: _ | TW W_offset :: _ => false | _ => true end.
Definition Plm (l : lim) : Prop :=
  wf_lim pg l = true -> forall rest, lstop rest = true ->
  forall f, need_lim l < f -> plim pg (pexpr pg f 0) (print_lim pg l ++ rest) = Some (l, rest).

(* ---------- first tokens ---------- *)
Lemma lit_toks_head t v : exists t0 r, lit_toks t v = t0 :: r /\ estart t0 = true /\ t0 <> TW W_not.
Proof.
  unfold lit_toks. destruct (is_int t); [destruct v as [|c v]; [|destruct (byte_eqb c x_minus)]|];
    eexists; eexists; (split; [reflexivity|split; [reflexivity|discriminate]]).
Qed.

Lemma fname_tok_start n cls : fname_class n = Some cls -> estart (raw_tok n) = true /\ raw_tok n <> TW W_not.
Proof.
  intros H. unfold raw_tok. destruct (is_keyword n) eqn:Ek; [|split; [reflexivity|discriminate]].
  destruct (fname_class_kw_in n cls H Ek) as [Hin Hl]. rewrite Hl.
  pose proof (proj1 (forallb_forall _ _) (fkw_all pg) n Hin) as Hok. unfold fkw_ok in Hok. rewrite H, Ek in Hok.
  cbn [negb orb] in Hok. apply andb_prop in Hok as [Hok _]. apply andb_prop in Hok as [Hok Hn].
  apply andb_prop in Hok as [Hs _]. split; [exact Hs|]. intros E. rewrite E in Hn. discriminate Hn.
Qed.

Lemma func_wf_class q n d args : wf pg (EFunc q n d args) = true -> exists cls, fname_class n = Some cls.
Proof.
  cbn [wf]. intros H. apply andb_prop in H as [H _]. apply andb_prop in H as [_ H].
  destruct (fname_class n) as [cls|]; [exists cls; reflexivity|discriminate H].
Qed.

Lemma col_toks_head q n : wf_col pg q n = true ->
  exists t0 r, col_toks pg q n = t0 :: r /\ estart t0 = true /\ t0 <> TW W_not.
Proof.
  unfold wf_col, col_toks. intros H. apply andb_prop in H as [H Hn]. apply andb_prop in H as [_ Hq].
  destruct q as [|a q].
  - exists (id_tok pg n), []. split; [reflexivity|]. split; [apply estart_id_tok; exact Hn|].
    destruct (wf_id_tok_shape pg n Hn) as [[v [-> _]]|[v [-> _]]]; discriminate.
  - cbn [forallb] in Hq. apply andb_prop in Hq as [Ha _]. cbn [qual_toks app].
    eexists; eexists. split; [reflexivity|]. split; [apply estart_id_tok; exact Ha|].
    destruct (wf_id_tok_shape pg a Ha) as [[v [-> _]]|[v [-> _]]]; discriminate.
Qed.

Ltac lspine IH :=
  cbn [wf] in *; split_andb;
  let t0 := fresh "t0" in let r := fresh "r" in let Hs := fresh "Hs" in
  destruct (IH ltac:(assumption)) as [t0 [r [-> Hs]]]; eexists; eexists; split; [reflexivity|exact Hs].

(** every printed well-formed expression starts with a token that can start an expression *)
Lemma print_head e : wf pg e = true -> exists t0 r, print pg e = t0 :: r /\ estart t0 = true.
Proof.
  induction e; intros Hwf; cbn [print];
    try (eexists; eexists; split; [reflexivity|reflexivity]).
  - lspine IHe1.
  - lspine IHe1.
  - lspine IHe1.
  - lspine IHe1.
  - lspine IHe1.
  - lspine IHe.
  - lspine IHe1.
  - destruct op; eexists; eexists; split; reflexivity.
  - lspine IHe.
  - destruct (lit_toks_head t v) as [t0 [r [-> [Hs _]]]]. eexists; eexists; split; [reflexivity|exact Hs].
  - destruct b; eexists; eexists; split; reflexivity.
  - cbn [wf] in Hwf. destruct (col_toks_head q n Hwf) as [t0 [r [-> [Hs _]]]]. eexists; eexists; split; [reflexivity|exact Hs].
  - destruct (func_wf_class _ _ _ _ Hwf) as [cls Hc]. destruct (fname_tok_start n cls Hc) as [Hs _].
    cbn [wf] in Hwf. apply andb_prop in Hwf as [Hwf _]. apply andb_prop in Hwf as [Hwf _]. apply andb_prop in Hwf as [Hq _].
    destruct (id_empty q) eqn:Eq.
    + eexists; eexists; split; [reflexivity|exact Hs].
    + cbn [app]. eexists; eexists; split; [reflexivity|].
      apply Bool.orb_true_iff in Hq as [Hq|Hq]; [destruct q as [[| |] [|? ?]]; discriminate|apply estart_id_tok; exact Hq].
Qed.
End RT.
