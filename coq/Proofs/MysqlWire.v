From Acra Require Import Lib.Bytes Lib.Outcome Model.MysqlWire.
From Coq Require Import ZifyN ZifyNat ZifyBool.
Local Open Scope N_scope.

(** * Indexing helpers *)

Lemma idx_ok data i : (i < length data)%nat -> exists b, idx data i = Ok b /\ b < 256.
Proof.
  intros Hi. unfold idx. destruct (nth_error data i) as [b|] eqn:E.
  - exists (b2n b). split; [reflexivity| apply b2n_lt].
  - apply nth_error_None in E. lia.
Qed.

Lemma le_at_ok data w : forall i, (i + w <= length data)%nat ->
  exists v, le_at data i w = Ok v /\ v < 256 ^ N.of_nat w.
Proof.
  induction w as [|w IH]; intros i Hi.
  - exists 0. split; [reflexivity| cbn; lia].
  - cbn [le_at]. destruct (idx_ok data i) as [b [Hb Hb']]; [lia|].
    destruct (IH (S i)) as [r [Hr Hr']]; [lia|].
    rewrite Hb, Hr. cbn [bind]. exists (b + 256 * r). split; [reflexivity|].
    rewrite Nat2N.inj_succ, N.pow_succ_r'. lia.
Qed.

Lemma le_at_app (bs : bytes) : forall (pre rest : bytes),
  le_at (pre ++ bs ++ rest) (length pre) (length bs) = Ok (le_dec bs).
Proof.
  induction bs as [|b bs IH]; intros pre rest.
  - reflexivity.
  - cbn [length le_at le_dec].
    assert (Hi : idx (pre ++ (b :: bs) ++ rest) (length pre) = Ok (b2n b)).
    { unfold idx. rewrite nth_error_app2 by lia. rewrite Nat.sub_diag. reflexivity. }
    rewrite Hi. cbn [bind].
    replace (pre ++ (b :: bs) ++ rest) with ((pre ++ [b]) ++ bs ++ rest)
      by (rewrite <- app_assoc; reflexivity).
    replace (S (length pre)) with (length (pre ++ [b])) by (rewrite app_length; cbn; lia).
    rewrite IH. reflexivity.
Qed.

Lemma int_of_u64_small x : x < 2^63 -> int_of_u64 x = Z.of_N x.
Proof.
  intros H. unfold int_of_u64. change (2^63) with 9223372036854775808 in H.
  destruct (x <? 9223372036854775808) eqn:E; [reflexivity|].
  apply N.ltb_ge in E. lia.
Qed.

(** * Encoder / decoder round trips *)

Theorem mysql_put_lenenc_int_length n : n < 2^64 ->
  length (put_lenenc_int n) =
  if n <=? 250 then 1%nat else if n <=? 0xffff then 3%nat else if n <=? 0xffffff then 4%nat else 9%nat.
Proof.
  intros _. unfold put_lenenc_int.
  destruct (n <=? 250); [reflexivity|].
  destruct (n <=? 0xffff); [reflexivity|].
  destruct (n <=? 0xffffff); reflexivity.
Qed.

Lemma lenenc_int_tag_ok (t : byte) (w : nat) (bs rest : bytes) :
  length bs = w ->
  (b2n t = 0xfc /\ w = 2%nat) \/ (b2n t = 0xfd /\ w = 3%nat) \/ (b2n t = 0xfe /\ w = 8%nat) ->
  lenenc_int (t :: bs ++ rest) = Ok (le_dec bs, false, S w).
Proof.
  intros Hl Hc.
  pose proof (le_at_app bs [t] rest) as Hle. cbn [length app] in Hle.
  unfold lenenc_int. cbn [length Nat.eqb]. unfold idx. cbn [nth_error bind].
  rewrite app_length.
  destruct Hc as [[Ht Hw]|[[Ht Hw]|[Ht Hw]]]; rewrite Ht; rewrite Hw in Hl |- *;
    rewrite Hl in Hle |- *; rewrite Hle; reflexivity.
Qed.

Theorem mysql_lenenc_roundtrip n rest : n < 2^64 ->
  lenenc_int (put_lenenc_int n ++ rest) = Ok (n, false, length (put_lenenc_int n)).
Proof.
  intros Hn. rewrite mysql_put_lenenc_int_length by exact Hn. unfold put_lenenc_int.
  change (2^64) with 18446744073709551616 in Hn.
  destruct (n <=? 250) eqn:E1.
  - apply N.leb_le in E1. cbn [app]. unfold lenenc_int. cbn [length Nat.eqb]. unfold idx.
    cbn [nth_error bind]. rewrite b2n_n2b. rewrite N.mod_small by lia.
    destruct (n =? 251) eqn:T1; [apply N.eqb_eq in T1; lia|].
    destruct (n =? 252) eqn:T2; [apply N.eqb_eq in T2; lia|].
    destruct (n =? 253) eqn:T3; [apply N.eqb_eq in T3; lia|].
    destruct (n =? 254) eqn:T4; [apply N.eqb_eq in T4; lia|].
    reflexivity.
  - apply N.leb_gt in E1. destruct (n <=? 65535) eqn:E2.
    + apply N.leb_le in E2. cbn [app].
      rewrite (lenenc_int_tag_ok xfc 2 (le_enc 2 n) rest);
        [| apply le_enc_length | left; split; reflexivity].
      rewrite le_dec_enc_small by (change (256 ^ N.of_nat 2) with 65536; lia). reflexivity.
    + apply N.leb_gt in E2. destruct (n <=? 16777215) eqn:E3.
      * apply N.leb_le in E3. cbn [app].
        rewrite (lenenc_int_tag_ok xfd 3 (le_enc 3 n) rest);
          [| apply le_enc_length | right; left; split; reflexivity].
        rewrite le_dec_enc_small by (change (256 ^ N.of_nat 3) with 16777216; lia). reflexivity.
      * apply N.leb_gt in E3. cbn [app].
        rewrite (lenenc_int_tag_ok xfe 8 (le_enc 8 n) rest);
          [| apply le_enc_length | right; right; split; reflexivity].
        rewrite le_dec_enc_small by (change (256 ^ N.of_nat 8) with 18446744073709551616; lia).
        reflexivity.
Qed.

Theorem mysql_lenenc_null_roundtrip rest : lenenc_string (put_lenenc_string None ++ rest) = Ok (None, 1%nat).
Proof. reflexivity. Qed.

Lemma put_lenenc_int_length_bounds n : (1 <= length (put_lenenc_int n) <= 9)%nat.
Proof.
  unfold put_lenenc_int.
  destruct (n <=? 250); [cbn; lia|].
  destruct (n <=? 0xffff); [cbn; lia|].
  destruct (n <=? 0xffffff); cbn; lia.
Qed.

Theorem mysql_lenenc_string_roundtrip (d rest : bytes) : N.of_nat (length d) < 2^63 ->
  lenenc_string (put_lenenc_string (Some d) ++ rest) = Ok (Some d, length (put_lenenc_string (Some d))).
Proof.
  intros Hd. cbn [put_lenenc_string]. rewrite <- app_assoc.
  assert (HL : N.of_nat (length d) < 2^64).
  { change (2^63) with 9223372036854775808 in Hd. change (2^64) with 18446744073709551616. lia. }
  unfold lenenc_string.
  rewrite (mysql_lenenc_roundtrip (N.of_nat (length d)) (d ++ rest) HL). cbn [bind].
  pose proof (put_lenenc_int_length_bounds (N.of_nat (length d))) as HP.
  set (P := put_lenenc_int (N.of_nat (length d))) in *.
  rewrite !app_length.
  destruct (N.of_nat (length P + (length d + length rest) - length P) <? N.of_nat (length d)) eqn:E;
    [apply N.ltb_lt in E; lia|]. clear E.
  rewrite int_of_u64_small by exact Hd.
  replace (Z.of_nat (length P) + Z.of_N (N.of_nat (length d)) - Z.of_N (N.of_nat (length d)))%Z
    with (Z.of_nat (length P)) by lia.
  unfold slice_z. rewrite !app_length.
  match goal with |- context [if ?c then _ else _] => destruct c eqn:Ec end; [|lia].
  cbn [bind].
  replace (Z.to_nat (Z.of_nat (length P))) with (length P) by lia.
  replace (Z.to_nat (Z.of_nat (length P) + Z.of_N (N.of_nat (length d)) - Z.of_nat (length P)))
    with (length d) by lia.
  unfold sub. rewrite skipn_app_len, firstn_app_len.
  f_equal. f_equal. lia.
Qed.

Definition small_field (v : option bytes) : Prop :=
  match v with Some d => N.of_nat (length d) < 2^63 | None => True end.

Lemma lenenc_string_roundtrip_gen v rest : small_field v ->
  lenenc_string (put_lenenc_string v ++ rest) = Ok (v, length (put_lenenc_string v)).
Proof.
  destruct v as [d|]; intros H.
  - apply mysql_lenenc_string_roundtrip. exact H.
  - apply mysql_lenenc_null_roundtrip.
Qed.

Theorem mysql_text_row_roundtrip (vs : list (option bytes)) (rest : bytes) : Forall small_field vs ->
  text_row (length vs) (put_text_row vs ++ rest) = Ok (vs, rest).
Proof.
  intros HF. induction HF as [|v vs Hv HF IH].
  - reflexivity.
  - cbn [length text_row]. unfold put_text_row in *. cbn [map concat]. rewrite <- app_assoc.
    rewrite lenenc_string_roundtrip_gen by exact Hv. cbn [bind].
    rewrite skipn_app_len. rewrite IH. reflexivity.
Qed.

(* rewriting any subset of the non-NULL fields of a text row by values of any length keeps the
   row well formed: NULL markers and field count preserved, every field decodes to exactly the
   new value, untouched fields unchanged *)
Definition rewrite_fields (tr : nat -> bytes -> bytes) (vs : list (option bytes)) : list (option bytes) :=
  map (fun '(i, v) => option_map (tr i) v) (combine (seq 0 (length vs)) vs).

Lemma rewrite_fields_length tr vs : length (rewrite_fields tr vs) = length vs.
Proof.
  unfold rewrite_fields. rewrite map_length, combine_length, seq_length. apply Nat.min_id.
Qed.

Lemma rewrite_fields_null_aux (tr : nat -> bytes -> bytes) (vs : list (option bytes)) : forall s i,
  nth_error vs i = Some None <->
  nth_error (map (fun '(i, v) => option_map (tr i) v) (combine (seq s (length vs)) vs)) i = Some None.
Proof.
  induction vs as [|v vs IH]; intros s i.
  - cbn [length seq combine map]. destruct i; cbn [nth_error]; split; intro H; discriminate H.
  - cbn [length seq combine map]. destruct i as [|i]; cbn [nth_error].
    + destruct v as [d|]; cbn [option_map]; split; intro H; try discriminate H; reflexivity.
    + apply IH.
Qed.

Theorem mysql_text_row_rewrite_wf tr vs rest : Forall small_field (rewrite_fields tr vs) ->
  text_row (length vs) (put_text_row (rewrite_fields tr vs) ++ rest) = Ok (rewrite_fields tr vs, rest)
  /\ length (rewrite_fields tr vs) = length vs
  /\ (forall i, nth_error vs i = Some None <-> nth_error (rewrite_fields tr vs) i = Some None).
Proof.
  intros HF. split; [|split].
  - rewrite <- (rewrite_fields_length tr vs) at 1. apply mysql_text_row_roundtrip. exact HF.
  - apply rewrite_fields_length.
  - intros i. apply rewrite_fields_null_aux.
Qed.

(** * Totality and bounds of the decoders *)

Lemma lenenc_int_spec data :
  match lenenc_int data with
  | Ok (num, isnull, n) => (1 <= n <= length data)%nat /\ num < 2^64
  | Err _ => True
  | Panic => False
  end.
Proof.
  change (2^64) with 18446744073709551616.
  unfold lenenc_int. destruct data as [|t data'] eqn:Ed; [exact I|].
  rewrite <- Ed. assert (Hlen : (1 <= length data)%nat) by (subst data; cbn [length]; lia).
  replace (length data =? 0)%nat with false by (symmetry; apply Nat.eqb_neq; lia).
  assert (Hi : idx data 0 = Ok (b2n t)) by (subst data; reflexivity).
  rewrite Hi. cbn [bind]. pose proof (b2n_lt t) as Ht.
  destruct (b2n t =? 251); [split; lia|].
  destruct (b2n t =? 252).
  { destruct (length data <? 3)%nat eqn:El; [exact I|]. apply Nat.ltb_ge in El.
    destruct (le_at_ok data 2 1) as [v [Hv Hv']]; [lia|]. rewrite Hv. cbn [bind].
    change (256 ^ N.of_nat 2) with 65536 in Hv'. split; lia. }
  destruct (b2n t =? 253).
  { destruct (length data <? 4)%nat eqn:El; [exact I|]. apply Nat.ltb_ge in El.
    destruct (le_at_ok data 3 1) as [v [Hv Hv']]; [lia|]. rewrite Hv. cbn [bind].
    change (256 ^ N.of_nat 3) with 16777216 in Hv'. split; lia. }
  destruct (b2n t =? 254).
  { destruct (length data <? 9)%nat eqn:El; [exact I|]. apply Nat.ltb_ge in El.
    destruct (le_at_ok data 8 1) as [v [Hv Hv']]; [lia|]. rewrite Hv. cbn [bind].
    change (256 ^ N.of_nat 8) with 18446744073709551616 in Hv'. split; lia. }
  split; lia.
Qed.

Theorem wire_lenenc_int_total data : lenenc_int data <> Panic.
Proof.
  pose proof (lenenc_int_spec data) as H. intros E. rewrite E in H. exact H.
Qed.

Theorem wire_lenenc_int_bounded data num isnull n : lenenc_int data = Ok (num, isnull, n) ->
  (1 <= n <= length data)%nat /\ num < 2^64.
Proof.
  intros E. pose proof (lenenc_int_spec data) as H. rewrite E in H. exact H.
Qed.

(* Go slices cannot be longer than 2^63-1 elements: the premise is a fact about the runtime *)
Lemma lenenc_string_spec data : N.of_nat (length data) < 2^63 ->
  match lenenc_string data with
  | Ok (v, n) => (1 <= n <= length data)%nat
  | Err _ => True
  | Panic => False
  end.
Proof.
  intros Hlen. unfold lenenc_string.
  pose proof (lenenc_int_spec data) as Hs.
  destruct (lenenc_int data) as [[[num isnull] n]|e|]; cbn [bind]; [|exact I|exact Hs].
  destruct Hs as [Hn Hnum].
  destruct isnull; [exact Hn|].
  destruct (N.of_nat (length data - n) <? num) eqn:E; [exact I|]. apply N.ltb_ge in E.
  assert (Hsmall : num < 2^63) by lia.
  rewrite int_of_u64_small by exact Hsmall.
  unfold slice_z.
  match goal with |- context [if ?c then _ else _] => destruct c eqn:Ec end; [|lia].
  cbn [bind]. lia.
Qed.

Theorem wire_lenenc_string_total data : N.of_nat (length data) < 2^63 -> lenenc_string data <> Panic.
Proof.
  intros Hlen. pose proof (lenenc_string_spec data Hlen) as H. intros E. rewrite E in H. exact H.
Qed.

Theorem wire_lenenc_string_bounded data v n : N.of_nat (length data) < 2^63 ->
  lenenc_string data = Ok (v, n) -> (1 <= n <= length data)%nat.
Proof.
  intros Hlen E. pose proof (lenenc_string_spec data Hlen) as H. rewrite E in H. exact H.
Qed.

Theorem wire_skip_lenenc_string_total data : skip_lenenc_string data <> Panic.
Proof.
  unfold skip_lenenc_string. pose proof (wire_lenenc_int_total data) as Hs.
  destruct (lenenc_int data) as [[[num isnull] n]|e|]; cbn [bind]; [|discriminate|exfalso; apply Hs; reflexivity].
  destruct (num <? 1); [discriminate|].
  destruct (N.of_nat (length data - n) <? num); discriminate.
Qed.

Theorem wire_text_row_total k data : N.of_nat (length data) < 2^63 -> text_row k data <> Panic.
Proof.
  revert data. induction k as [|k IH]; intros data Hlen.
  - cbn [text_row]. discriminate.
  - cbn [text_row]. pose proof (wire_lenenc_string_total data Hlen) as Hs.
    destruct (lenenc_string data) as [[v n]|e|] eqn:Els; cbn [bind];
      [|discriminate|exfalso; apply Hs; reflexivity].
    assert (Hlen' : N.of_nat (length (skipn n data)) < 2^63) by (rewrite skipn_length; lia).
    pose proof (IH (skipn n data) Hlen') as Hr.
    destruct (text_row k (skipn n data)) as [[vs rest]|e|]; cbn [bind];
      [discriminate|discriminate|exfalso; apply Hr; reflexivity].
Qed.

(* the code as found panicked: the two inputs reproduced on the real code *)
Theorem lenenc_string_old_refuted :
  lenenc_string_old (hb 0x1feffffffffffffffff) = Panic /\ lenenc_string_old (hb 0x1fe0000000000000080) = Panic.
Proof. split; vm_compute; reflexivity. Qed.

Example mysql_lenenc_roundtrip_boundaries : (* non-vacuity: the boundary values *)
  map (fun n => lenenc_int (put_lenenc_int n)) [250; 251; 65535; 65536; 16777215; 16777216; 2^64-1]
  = map (fun n => Ok (n, false, length (put_lenenc_int n))) [250; 251; 65535; 65536; 16777215; 16777216; 2^64-1].
Proof. vm_compute; reflexivity. Qed.
