(** The envelope scanner of EnvelopeDetector.OnColumn: progress, fuel independence,
    accumulator law, identity on undecryptable data, reveal in place, totality. *)
From Acra Require Import Lib.Bytes Lib.Outcome Lib.Sha256 Crypto.Interface Gen.Consts Model.Envelope
  Proofs.Envelope Proofs.EnvelopeHandlers.
From Coq Require Import ZifyN ZifyNat ZifyBool.

(** * facts about [index_of] *)
Lemma index_of_first (p s : bytes) i :
  i <= length s -> starts_with p (skipn i s) = true ->
  (forall j, j < i -> starts_with p (skipn j s) = false) ->
  index_of p s = Some i.
Proof.
  revert i; induction s as [|y s IH]; intros i Hi Hat Hbefore.
  - assert (i = 0) as -> by (cbn in Hi; lia). cbn [index_of]. cbn [skipn] in Hat. rewrite Hat. reflexivity.
  - destruct i as [|i].
    + cbn [index_of]. cbn [skipn] in Hat. rewrite Hat. reflexivity.
    + cbn [index_of]. pose proof (Hbefore 0 ltac:(lia)) as H0. cbn [skipn] in H0. rewrite H0.
      rewrite (IH i); [reflexivity| cbn in Hi; lia| exact Hat|].
      intros j Hj. apply (Hbefore (S j)). lia.
Qed.

Lemma starts_with_nonempty (p s : bytes) : p <> [] -> starts_with p s = true -> s <> [].
Proof. destruct p; [contradiction|]. destruct s; [discriminate| discriminate]. Qed.

Lemma sc_tag_nonempty : sc_tag <> [].
Proof. discriminate. Qed.

(** * the candidate extractor never panics and always makes progress *)
Lemma ab_extract_bounds data n b :
  ab_extract data = Ok (n, b) -> AB_MIN_SIZE <= n <= length data /\ b = firstn n data.
Proof.
  unfold ab_extract. destruct (Nat.ltb_spec (length data) AB_MIN_SIZE) as [|Hl]; [discriminate|].
  destruct (bytes_eqb _ _ && _ && _ && _) eqn:E; [|discriminate].
  intros [= <- <-]. apply andb_true_iff in E as [E _]. apply andb_true_iff in E as [E _].
  apply andb_true_iff in E as [_ E]. apply andb_true_iff in E as [E1 E2].
  apply N.leb_le in E1, E2. unfold_consts. split; [lia| reflexivity].
Qed.

Lemma ab_extract_total data : ab_extract data <> Panic.
Proof.
  unfold ab_extract. destruct (Nat.ltb _ _); [discriminate|]. destruct (_ && _ && _ && _); discriminate.
Qed.

Lemma sc_serialize_total e id : sc_serialize e id <> Panic.
Proof. unfold sc_serialize. destruct (is_nil e); discriminate. Qed.

Lemma sc_extract_total data : sc_extract data <> Panic.
Proof.
  unfold sc_extract. destruct (sc_validate data).
  - destruct (_ || _); discriminate.
  - destruct (match_old data) as [[id n]|]; [|discriminate].
    unfold bind. destruct (sc_serialize data id) eqn:E; try discriminate. exfalso. eapply sc_serialize_total, E.
Qed.

Lemma as_validate_length data : as_validate data = true ->
  as_min <= length data /\ as_data_length data = Z.of_nat (length data - as_min).
Proof.
  unfold as_validate. destruct (Nat.ltb_spec (length data) as_min); [discriminate|].
  destruct (negb _); [discriminate|]. intros H0. apply Z.eqb_eq in H0. split; assumption.
Qed.

Lemma sc_extract_bounds data n c :
  sc_extract data = Ok (n, c) -> 1 <= n <= length data.
Proof.
  unfold sc_extract. destruct (sc_validate data).
  - destruct (_ || _) eqn:E; [discriminate|]. intros [= <- <-].
    apply orb_false_iff in E as [E1 E2]. apply N.leb_gt in E1. apply N.ltb_ge in E2. unfold_consts. lia.
  - unfold match_old. destruct (as_validate data) eqn:Ev.
    + apply as_validate_length in Ev as [Hm Hd]. unfold bind.
      destruct (sc_serialize data ENVELOPE_ID_ACRASTRUCT); try discriminate. intros [= <- <-].
      rewrite Hd. unfold_consts. lia.
    + destruct (ab_extract data) as [[m b]| |] eqn:Ea; try discriminate.
      apply ab_extract_bounds in Ea as [Hb _]. unfold bind.
      destruct (sc_serialize data ENVELOPE_ID_ACRABLOCK); try discriminate. intros [= <- <-].
      unfold_consts. lia.
Qed.

Section Scan.
Variable cbs : list (bytes -> res bytes).

(** * fuel independence: [S (length input)] is always enough *)
Lemma scan_fuel f1 : forall f2 rest out ch,
  length rest < f1 -> length rest < f2 -> scan f1 cbs rest out ch = scan f2 cbs rest out ch.
Proof.
  induction f1 as [|f1 IH]; intros f2 rest out ch H1 H2; [lia|].
  destruct f2 as [|f2]; [lia|]. cbn [scan].
  destruct (index_of sc_tag rest) as [i|] eqn:Ei; [|reflexivity].
  pose proof (index_of_lt _ _ _ Ei) as Hi.
  destruct (index_of_some _ _ _ Ei) as [Hat _].
  pose proof (starts_with_nonempty _ _ sc_tag_nonempty Hat) as Hne.
  assert (length (skipn i rest) = length rest - i) as Hl by apply skipn_length.
  assert (0 < length (skipn i rest)) as Hpos by (destruct (skipn i rest); [contradiction| cbn; lia]).
  assert (forall k, 1 <= k -> length (skipn k (skipn i rest)) < length rest) as Hdec
    by (intros k Hk; rewrite skipn_length; lia).
  destruct (sc_extract (skipn i rest)) as [[n c]| |] eqn:Ee; [| apply IH; specialize (Hdec 1 ltac:(lia)); lia | reflexivity].
  destruct (run_callbacks cbs c) as [[p|]| |]; try reflexivity.
  - apply sc_extract_bounds in Ee. apply IH; specialize (Hdec n ltac:(lia)); lia.
  - apply IH; specialize (Hdec 1 ltac:(lia)); lia.
Qed.

(** * accumulator law *)
Definition lift_out (out : bytes) (ch : bool) (r : res (bytes * bool)) : res (bytes * bool) :=
  match r with Ok (o, c) => Ok (out ++ o, ch || c) | Err e => Err e | Panic => Panic end.

Lemma scan_acc f : forall rest out ch,
  scan f cbs rest out ch = lift_out out ch (scan f cbs rest [] false).
Proof.
  induction f as [|f IH]; intros rest out ch; cbn [scan]; [reflexivity|].
  destruct (index_of sc_tag rest) as [i|]; [|cbn; rewrite orb_false_r; reflexivity].
  destruct (sc_extract (skipn i rest)) as [[n c]| |]; [| | reflexivity].
  - destruct (run_callbacks cbs c) as [[p|]| |]; try reflexivity.
    + rewrite (IH _ ((out ++ firstn i rest) ++ p) true), (IH _ (([] ++ firstn i rest) ++ p) true).
      destruct (scan f cbs (skipn n (skipn i rest)) [] false) as [[o c']| |]; cbn [lift_out]; try reflexivity.
      rewrite <- !app_assoc, orb_true_r. reflexivity.
    + rewrite (IH _ ((out ++ firstn i rest) ++ firstn 1 (skipn i rest)) ch),
              (IH _ (([] ++ firstn i rest) ++ firstn 1 (skipn i rest)) false).
      destruct (scan f cbs (skipn 1 (skipn i rest)) [] false) as [[o c']| |]; cbn [lift_out]; try reflexivity.
      rewrite <- !app_assoc. reflexivity.
  - rewrite (IH _ ((out ++ firstn i rest) ++ firstn 1 (skipn i rest)) ch),
            (IH _ (([] ++ firstn i rest) ++ firstn 1 (skipn i rest)) false).
    destruct (scan f cbs (skipn 1 (skipn i rest)) [] false) as [[o c']| |]; cbn [lift_out]; try reflexivity.
    rewrite <- !app_assoc. reflexivity.
Qed.

(** * data in which no callback opens anything comes out unchanged *)
Lemma firstn_skipn_1 {A} (l : list A) i : firstn i l ++ firstn 1 (skipn i l) ++ skipn 1 (skipn i l) = l.
Proof. rewrite (firstn_skipn 1 (skipn i l)). apply firstn_skipn. Qed.

Lemma scan_identity f : forall rest out ch,
  (forall c, run_callbacks cbs c = Ok None) -> length rest < f ->
  scan f cbs rest out ch = Ok (out ++ rest, ch).
Proof.
  induction f as [|f IH]; intros rest out ch Hcb Hf; [lia|]. cbn [scan].
  destruct (index_of sc_tag rest) as [i|] eqn:Ei; [|reflexivity].
  pose proof (index_of_lt _ _ _ Ei) as Hi.
  destruct (index_of_some _ _ _ Ei) as [Hat _].
  pose proof (starts_with_nonempty _ _ sc_tag_nonempty Hat) as Hne.
  assert (length (skipn 1 (skipn i rest)) < f) as Hlt.
  { rewrite !skipn_length. destruct (skipn i rest) eqn:E; [contradiction|].
    assert (length (skipn i rest) = length rest - i) by apply skipn_length. rewrite E in H. cbn in H. lia. }
  assert (Hstep : scan f cbs (skipn 1 (skipn i rest)) ((out ++ firstn i rest) ++ firstn 1 (skipn i rest)) ch
                  = Ok (out ++ rest, ch)).
  { rewrite IH by assumption. rewrite <- !app_assoc, firstn_skipn_1. reflexivity. }
  destruct (sc_extract (skipn i rest)) as [[n c]| |] eqn:Ee.
  - rewrite Hcb. exact Hstep.
  - exact Hstep.
  - exfalso. eapply sc_extract_total, Ee.
Qed.

(** * totality *)
Lemma run_callbacks_total c :
  (forall cb x, In cb cbs -> cb x <> Panic) -> run_callbacks cbs c <> Panic.
Proof.
  induction cbs as [|cb l IH]; intros H; cbn [run_callbacks]; [discriminate|].
  pose proof (H cb c (or_introl eq_refl)) as Hc.
  destruct (cb c) as [p|e|]; [| |contradiction].
  - destruct (bytes_eqb p c); [apply IH; intros; apply H; right; assumption| discriminate].
  - destruct (N.eqb e E_DECRYPTION); [apply IH; intros; apply H; right; assumption| discriminate].
Qed.

Lemma scan_total f : forall rest out ch,
  (forall cb x, In cb cbs -> cb x <> Panic) -> scan f cbs rest out ch <> Panic.
Proof.
  induction f as [|f IH]; intros rest out ch H; cbn [scan]; [discriminate|].
  destruct (index_of sc_tag rest) as [i|]; [|discriminate].
  destruct (sc_extract (skipn i rest)) as [[n c]| |] eqn:Ee.
  - pose proof (run_callbacks_total c H) as Hr.
    destruct (run_callbacks cbs c) as [[p|]|e|]; try (apply IH; assumption); [discriminate| contradiction].
  - apply IH; assumption.
  - exfalso. eapply sc_extract_total, Ee.
Qed.

End Scan.

(** * on_column: summary lemmas *)
Theorem on_column_total cbs inb :
  (forall cb x, In cb cbs -> cb x <> Panic) -> on_column cbs inb <> Panic.
Proof.
  intros H. unfold on_column. destruct (_ || _); [discriminate| apply scan_total, H].
Qed.

Theorem on_column_never_out_of_fuel cbs inb :
  forall f, length inb < f ->
  on_column cbs inb = (if Nat.ltb (length inb) SC_MIN_SIZE || is_nil cbs then Ok (inb, false)
                       else scan f cbs inb [] false).
Proof.
  intros f Hf. unfold on_column. destruct (_ || _); [reflexivity|]. apply scan_fuel; lia.
Qed.

(** a value none of whose candidate envelopes can be opened is handed out unchanged *)
Theorem on_column_passthrough cbs inb :
  (forall c, run_callbacks cbs c = Ok None) -> on_column cbs inb = Ok (inb, false).
Proof.
  intros H. unfold on_column. destruct (_ || _); [reflexivity|].
  rewrite scan_identity by (assumption || lia). reflexivity.
Qed.

(** * reveal in place *)
Section Reveal.
Variable cbs : list (bytes -> res bytes).

(** [quiet p t]: no tag occurrence starts inside the prefix [p] of the column [p ++ t] *)
Definition quiet (p t : bytes) : Prop :=
  forall j, j < length p -> starts_with sc_tag (skipn j (p ++ t)) = false.

(** arbitrary tag-free binary data is quiet in front of anything *)
Lemma quiet_if_no_tag_symbol p t :
  Forall (fun b => b <> SC_TAG_SYMBOL) p -> quiet p t.
Proof.
  intros Hall j Hj. unfold quiet.
  rewrite skipn_app. replace (j - length p) with 0 by lia. cbn [skipn].
  assert (exists b r, skipn j p = b :: r /\ b <> SC_TAG_SYMBOL) as (b & r & E & Hb).
  { clear -Hall Hj. revert j Hj. induction Hall as [|b p Hb Hall IH]; intros j Hj; [cbn in Hj; lia|].
    destruct j as [|j]; [exists b, p; split; [reflexivity| exact Hb]|].
    cbn [skipn]. apply IH. cbn in Hj. lia. }
  rewrite E. cbn [app]. unfold sc_tag, SC_TAG_SIZE. cbn [repeat_bytes starts_with].
  destruct (byte_eqb SC_TAG_SYMBOL b) eqn:Eb; [|reflexivity].
  apply byte_eqb_eq in Eb. congruence.
Qed.

Theorem column_reveal p enc id s x :
  enc <> [] -> known_envelope id = true -> (N.of_nat (length enc) < 4294967296)%N ->
  quiet p (sc_layout enc id ++ s) ->
  run_callbacks cbs (sc_layout enc id ++ s) = Ok (Some x) ->
  on_column cbs (p ++ sc_layout enc id ++ s)
  = lift_out (p ++ x) true (scan (S (length s)) cbs s [] false).
Proof.
  intros Hne Hk Hl Hq Hcb.
  set (v := sc_layout enc id) in *.
  assert (length v = SC_MIN_SIZE + length enc) as Hv by apply sc_layout_length.
  assert (exists e0 enc', enc = e0 :: enc') as (e0 & enc' & Eenc) by (destruct enc; [contradiction| eauto]).
  remember (scan (S (length s)) cbs s [] false) as R eqn:ER.
  unfold on_column.
  assert (is_nil cbs = false) as -> by (destruct cbs; [discriminate| reflexivity]).
  assert (Nat.ltb (length (p ++ v ++ s)) SC_MIN_SIZE = false) as ->.
  { apply Nat.ltb_ge. rewrite !app_length, Hv. lia. }
  cbn [orb scan].
  assert (starts_with sc_tag (v ++ s) = true) as Hst.
  { unfold v, sc_layout. rewrite <- !app_assoc. apply starts_with_app. }
  rewrite (index_of_first sc_tag (p ++ v ++ s) (length p)).
  2:{ rewrite app_length. lia. }
  2:{ rewrite skipn_app_len. exact Hst. }
  2:{ exact Hq. }
  rewrite skipn_app_len, firstn_app_len.
  destruct (container_roundtrip enc id s Hne Hk Hl) as [_ Hex]. fold v in Hex. rewrite Hex, Hcb.
  rewrite skipn_app_len. cbn [app].
  rewrite scan_acc. subst R. f_equal.
  unfold SC_MIN_SIZE in Hv. apply scan_fuel; rewrite ?app_length; lia.
Qed.

End Reveal.

(** instantiation with the real callback list [DecryptHandler(RegistryHandler)]: an envelope produced by
    the protect path is replaced in place by the plaintext, whatever follows it *)
Section RevealRegistry.
Variable C : crypto.

Lemma registry_cb_reveals ks inner id s x :
  inner <> [] -> known_envelope id = true -> (N.of_nat (length inner) < 4294967296)%N ->
  handler_match id inner = true -> handler_decrypt C id ks inner = Ok x ->
  x <> sc_layout inner id ++ s ->
  run_callbacks [decrypt_handler (registry_process C ks)] (sc_layout inner id ++ s) = Ok (Some x).
Proof.
  intros Hne Hk Hl Hm Hd Hx. cbn [run_callbacks]. unfold decrypt_handler, registry_process.
  rewrite envelope_kind_layout by assumption.
  unfold decrypt_with_handler.
  destruct (container_roundtrip inner id s Hne Hk Hl) as [Hds _]. rewrite Hds. cbn [bind].
  rewrite Hm. cbn [negb]. rewrite Hd.
  destruct (bytes_eqb x (sc_layout inner id ++ s)) eqn:E; [apply bytes_eqb_eq in E; contradiction| reflexivity].
Qed.

End RevealRegistry.

(** * protect, embed anywhere in a column, reveal: the envelope is replaced in place by the plaintext *)
Section ColumnRoundtrip.
Variable C : crypto.
Hypothesis HC : Correct C.

Definition column_cbs (ks : keyset) : list (bytes -> res bytes) :=
  [decrypt_handler (registry_process C ks)].

Lemma column_reveal_inner ks id inner x p s :
  inner <> [] -> known_envelope id = true -> (N.of_nat (length inner) < 4294967296)%N ->
  handler_match id inner = true -> handler_decrypt C id ks inner = Ok x -> length x < length inner ->
  quiet p (sc_layout inner id ++ s) ->
  on_column (column_cbs ks) (p ++ sc_layout inner id ++ s)
  = lift_out (p ++ x) true (scan (S (length s)) (column_cbs ks) s [] false).
Proof.
  intros Hne Hk Hl Hm Hd Hlen Hq.
  apply column_reveal; try assumption.
  apply registry_cb_reveals; try assumption.
  intros E. apply (f_equal (@length byte)) in E. rewrite app_length, sc_layout_length in E. lia.
Qed.

Theorem column_roundtrip_as ks ks' tape x sb before after p s :
  looks_protected ENVELOPE_ID_ACRASTRUCT x = false ->
  x <> [] -> (N.of_nat (length x) < MAXMSG)%N -> good_as_tape tape -> length sb = SEED_LEN ->
  ks_pub ks = Some (pub_of C sb) ->
  ks_privs ks' = before ++ priv_of C sb :: after ->
  (forall v, Forall (fun k => exists e, as_decrypt C v k [] = Err e) before) ->
  exists v, encrypt_with_handler C ENVELOPE_ID_ACRASTRUCT ks tape x = Ok v /\
    (quiet p (v ++ s) ->
     on_column (column_cbs ks') (p ++ v ++ s)
     = lift_out (p ++ x) true (scan (S (length s)) (column_cbs ks') s [] false)).
Proof.
  intros Hnp Hx Hlen Htape Hsb Hpub Hprivs Hbefore.
  destruct (handler_roundtrip_as C HC ks ks' tape x sb before after Hnp Hx Hlen Htape Hsb Hpub Hprivs Hbefore)
    as (v & Henc & _ & _ & _ & inner & -> & Hne & Hsm & Hm & Hd & Hl).
  exists (sc_layout inner ENVELOPE_ID_ACRASTRUCT). split; [exact Henc|]. intros Hq.
  apply column_reveal_inner; try assumption. reflexivity.
Qed.

Theorem column_roundtrip_ab ks ks' tape x key rest before after p s :
  looks_protected ENVELOPE_ID_ACRABLOCK x = false ->
  x <> [] -> (N.of_nat (length x) < MAXMSG)%N -> good_ab_tape tape -> key <> [] ->
  ks_syms ks = key :: rest ->
  ks_syms ks' = before ++ key :: after ->
  (forall ek, Forall (fun k => bytes_eqb (ab_key_id k []) (ab_key_id key []) = false
                               \/ cell_decrypt C k [] ek = None) before) ->
  exists v, encrypt_with_handler C ENVELOPE_ID_ACRABLOCK ks tape x = Ok v /\
    (quiet p (v ++ s) ->
     on_column (column_cbs ks') (p ++ v ++ s)
     = lift_out (p ++ x) true (scan (S (length s)) (column_cbs ks') s [] false)).
Proof.
  intros Hnp Hx Hlen Htape Hkey Hsyms Hsyms' Hbefore.
  destruct (handler_roundtrip_ab C HC ks ks' tape x key rest before after Hnp Hx Hlen Htape Hkey Hsyms Hsyms' Hbefore)
    as (v & Henc & _ & _ & _ & inner & -> & Hne & Hsm & Hm & Hd & Hl).
  exists (sc_layout inner ENVELOPE_ID_ACRABLOCK). split; [exact Henc|]. intros Hq.
  apply column_reveal_inner; try assumption. reflexivity.
Qed.

End ColumnRoundtrip.
