(** Proofs about Model/SearchExt.v: condition trees and the hmac.Processor column state machine.
    HMAC-SHA-256 is never assumed injective: exactness is a reduction to an explicit collision. *)
From Coq Require Import ZifyN ZifyNat ZifyBool.
From Acra Require Import Lib.Bytes Lib.Outcome Lib.Sha256 Crypto.Interface Gen.Consts Model.Envelope
  Model.Search Model.SearchExt Proofs.Search.

(** * list helpers *)
Lemma existsb_eqb_In i l : existsb (Nat.eqb i) l = true <-> In i l.
Proof.
  rewrite existsb_exists. split.
  - intros [x [Hin He]]. apply Nat.eqb_eq in He. subst x. exact Hin.
  - intro H. exists i. split; [exact H | apply Nat.eqb_refl].
Qed.

Lemma existsb_eqb_notIn i l : existsb (Nat.eqb i) l = false <-> ~ In i l.
Proof.
  rewrite <- existsb_eqb_In. destruct (existsb (Nat.eqb i) l); split; intro H; try reflexivity; try discriminate H.
  - exfalso. apply H. reflexivity.
  - intro H'. discriminate H'.
Qed.

Lemma set_nth_length v : forall (l : list bytes) i, length (set_nth i v l) = length l.
Proof.
  induction l as [|x l IH]; intro i; [destruct i; reflexivity|].
  destruct i as [|i]; cbn [set_nth length]; [reflexivity | rewrite IH; reflexivity].
Qed.

Lemma nth_set_nth_eq v : forall (l : list bytes) i, i < length l -> nth i (set_nth i v l) [] = v.
Proof.
  induction l as [|x l IH]; intros i H; cbn [length] in H; [lia|].
  destruct i as [|i]; cbn [set_nth nth]; [reflexivity | apply IH; lia].
Qed.

Lemma nth_set_nth_neq v : forall (l : list bytes) i j, i <> j -> nth j (set_nth i v l) [] = nth j l [].
Proof.
  induction l as [|x l IH]; intros i j H; [destruct i; reflexivity|].
  destruct i as [|i], j as [|j]; cbn [set_nth nth]; try reflexivity; [contradiction | apply IH; lia].
Qed.

Section WithCrypto.
Variable C : crypto.

(** the plaintext a searched value stands for; total version of [meaning] *)
Definition mean_of (ks : keyset) (v : bytes) : bytes :=
  match meaning C ks v with Ok p => p | _ => v end.

(** * HashQuery.OnBind: what the bound values look like afterwards *)
Definition bind_done (ks : keyset) (key : bytes) (vals cur : list bytes) (i : nat) : Prop :=
  exists p, meaning C ks (nth i vals []) = Ok p /\ nth i cur [] = blind_index key p.

Lemma replace_values_spec ks key (vals : list bytes) :
  ks_hmac ks = Some key ->
  forall idxs done cur out,
  (forall i, In i done -> bind_done ks key vals cur i) ->
  (forall i, ~ In i done -> nth i cur [] = nth i vals []) ->
  length cur = length vals ->
  (forall i, In i idxs -> i < length vals) ->
  replace_values C ks idxs done cur = Ok out ->
  (forall i, In i idxs \/ In i done -> bind_done ks key vals out i) /\
  (forall i, ~ In i idxs -> ~ In i done -> nth i out [] = nth i vals []).
Proof.
  intro Hk. induction idxs as [|i idxs IH]; intros done cur out Hd Hn Hl Hr H.
  - cbn [replace_values] in H. injection H as H. subst out. split.
    + intros i [[]|Hi]. apply Hd, Hi.
    + intros i _ Hi. apply Hn, Hi.
  - cbn [replace_values] in H.
    destruct (existsb (Nat.eqb i) done) eqn:Ee.
    + apply existsb_eqb_In in Ee.
      destruct (IH done cur out Hd Hn Hl (fun j Hj => Hr j (or_intror Hj)) H) as [A B]. split.
      * intros j [[Hj|Hj]|Hj]; [subst j; apply A; right; exact Ee | apply A; left; exact Hj | apply A; right; exact Hj].
      * intros j Hj1 Hj2. apply B; [intro Hj; apply Hj1; right; exact Hj | exact Hj2].
    + apply existsb_eqb_notIn in Ee.
      destruct (calculate_hmac C ks (nth i cur [])) as [h| |] eqn:Ec; cbn [bind] in H; try discriminate H.
      assert (Hi : i < length vals) by (apply Hr; left; reflexivity).
      rewrite (Hn i Ee) in Ec.
      apply calculate_hmac_spec in Ec. destruct Ec as [k' [p [Hk' [Hm Hh]]]].
      rewrite Hk in Hk'. injection Hk' as Hk'. subst k' h.
      assert (Hd' : forall j, In j (i :: done) -> bind_done ks key vals (set_nth i (blind_index key p) cur) j).
      { intros j [Hj|Hj].
        - subst j. exists p. split; [exact Hm|]. apply nth_set_nth_eq. rewrite Hl. exact Hi.
        - destruct (Hd j Hj) as [q [Hq1 Hq2]]. exists q. split; [exact Hq1|].
          rewrite nth_set_nth_neq; [exact Hq2|]. intro E. subst j. contradiction. }
      assert (Hn' : forall j, ~ In j (i :: done) -> nth j (set_nth i (blind_index key p) cur) [] = nth j vals []).
      { intros j Hj. rewrite nth_set_nth_neq; [apply Hn; intro Hj'; apply Hj; right; exact Hj'|].
        intro E. apply Hj. left. exact E. }
      assert (Hl' : length (set_nth i (blind_index key p) cur) = length vals) by (rewrite set_nth_length; exact Hl).
      destruct (IH (i :: done) _ out Hd' Hn' Hl' (fun j Hj => Hr j (or_intror Hj)) H) as [A B]. split.
      * intros j [[Hj|Hj]|Hj]; [subst j; apply A; right; left; reflexivity | apply A; left; exact Hj | apply A; right; right; exact Hj].
      * intros j Hj1 Hj2. apply B; [intro Hj; apply Hj1; right; exact Hj |].
        intros [E|Hj]; [apply Hj1; left; exact E | contradiction].
Qed.

(** MySQL: no position is listed twice, so processing every listed position is the same computation *)
Lemma replace_values_nd_dedup ks : forall idxs done vals,
  NoDup idxs -> (forall i, In i idxs -> ~ In i done) ->
  replace_values_nd C ks idxs vals = replace_values C ks idxs done vals.
Proof.
  induction idxs as [|i idxs IH]; intros done vals Hnd Hdis; [reflexivity|].
  cbn [replace_values_nd replace_values].
  assert (Ee : existsb (Nat.eqb i) done = false) by (apply existsb_eqb_notIn, Hdis; left; reflexivity).
  rewrite Ee. destruct (calculate_hmac C ks (nth i vals [])) as [h| |]; cbn [bind]; try reflexivity.
  inversion Hnd as [|? ? Hni Hnd']; subst.
  apply IH; [exact Hnd'|]. intros j Hj [E|Hd]; [subst j; contradiction | exact (Hdis j (or_intror Hj) Hd)].
Qed.

Lemma existsb_leb_false (n : nat) idxs :
  existsb (fun i => Nat.leb n i) idxs = false -> forall i, In i idxs -> i < n.
Proof.
  intros H i Hi. destruct (Nat.leb n i) eqn:E; [|apply Nat.leb_gt in E; exact E].
  exfalso. assert (existsb (fun i => Nat.leb n i) idxs = true) by (apply existsb_exists; exists i; auto).
  congruence.
Qed.

Lemma on_bindx_spec d ks key schema c (binds nb : list bytes) :
  ks_hmac ks = Some key ->
  (d = MY -> NoDup (bind_idxs d schema c)) ->
  on_bindx C d ks schema c binds = Ok nb ->
  (forall i, In i (bind_idxs d schema c) -> bind_done ks key binds nb i) /\
  (forall i, ~ In i (bind_idxs d schema c) -> nth i nb [] = nth i binds []).
Proof.
  intros Hk Hnd H. unfold on_bindx in H. cbv zeta in H.
  destruct (existsb (fun i => Nat.leb (length binds) i) (bind_idxs d schema c)) eqn:Ee; [discriminate H|].
  assert (Hr := existsb_leb_false _ _ Ee).
  assert (H' : replace_values C ks (bind_idxs d schema c) [] binds = Ok nb).
  { destruct d; [exact H|]. rewrite <- H. symmetry. apply replace_values_nd_dedup; [apply Hnd; reflexivity|].
    intros i _ []. }
  destruct (replace_values_spec ks key binds Hk _ [] binds nb (fun i (F : In i []) => match F with end)
              (fun i _ => eq_refl) eq_refl Hr H') as [A B].
  split; [intros i Hi; apply A; left; exact Hi | intros i Hi; apply B; [exact Hi | intros []]].
Qed.

(** * one comparison *)
Definition row_rel (key : bytes) (schema : list bool) (srow prow : list bytes) : Prop :=
  forall col, if searchable schema col
              then exists cont, cell srow col = blind_index key (cell prow col) ++ cont
              else cell srow col = cell prow col.

(** an explicit collision between a stored plaintext and a searched value of the condition *)
Definition cmp_collision (d : dialect) (ks : keyset) (key : bytes) (schema : list bool) (binds : list bytes)
  (prow : list bytes) (cm : cmp) : Prop :=
  hashed d schema cm = true /\
  hmac_collision key (cell prow (c_col cm)) (mean_of ks (operand_value binds (c_val cm))).

Definition tree_collision d ks key schema binds (plains : list (list bytes)) (c : wcond) : Prop :=
  exists prow cm, In prow plains /\ In cm (cmps c) /\ cmp_collision d ks key schema binds prow cm.

Lemma mean_of_ok ks v p : meaning C ks v = Ok p -> mean_of ks v = p.
Proof. unfold mean_of. intro H. rewrite H. reflexivity. Qed.

Lemma index_eval key pcell cont neg p :
  (xorb neg (bytes_eqb (substr 1 HASHN (blind_index key pcell ++ cont)) (blind_index key p))
   = xorb neg (bytes_eqb pcell p))
  \/ hmac_collision key pcell p.
Proof.
  destruct (search_exact key pcell cont p) as [[H1 H2]|Hc]; [left | right; exact Hc].
  unfold index_matches in H1, H2. f_equal.
  destruct (bytes_eqb pcell p) eqn:Ep.
  - apply bytes_eqb_eq in Ep. apply H2, Ep.
  - destruct (bytes_eqb (substr 1 HASHN (blind_index key pcell ++ cont)) (blind_index key p)) eqn:Em; [|reflexivity].
    apply bytes_eqb_neq in Ep. exfalso. apply Ep, H1. reflexivity.
Qed.

Lemma cmp_equiv d ks key schema binds nb srow prow cm xc :
  ks_hmac ks = Some key ->
  implb (searchable schema (c_col cm)) (hashed d schema cm) = true ->
  (forall i, In i (bind_idx_cmp d schema cm) -> bind_done ks key binds nb i) ->
  (forall i, In i (plain_param_cmp d schema cm) -> nth i nb [] = nth i binds []) ->
  row_rel key schema srow prow ->
  rewrite_cmp C d ks schema cm = Ok xc ->
  eval_x nb srow xc = eval_cmp_plain (mean_of ks) schema binds prow cm
  \/ cmp_collision d ks key schema binds prow cm.
Proof.
  intros Hk Hws Hin Hout Hrow Hrw.
  unfold rewrite_cmp in Hrw. specialize (Hrow (c_col cm)).
  unfold eval_cmp_plain. cbv zeta.
  destruct (searchable schema (c_col cm)) eqn:Es.
  - (* searchable column: the comparison is selected and its value replaced *)
    cbn [implb] in Hws. destruct Hrow as [cont Hcell].
    assert (Hsel : selected d schema cm = true).
    { unfold hashed in Hws. apply andb_prop in Hws. apply Hws. }
    rewrite Hsel in Hrw.
    destruct (c_val cm) as [v|i] eqn:Ev.
    + destruct (calculate_hmac C ks v) as [idx| |] eqn:Ec; cbn [bind] in Hrw; try discriminate Hrw.
      destruct (bytes_eqb idx v); [discriminate Hrw|]. injection Hrw as Hrw. subst xc.
      apply calculate_hmac_spec in Ec. destruct Ec as [k' [p [Hk' [Hm Hi]]]].
      rewrite Hk in Hk'. injection Hk' as Hk'. subst k' idx.
      cbn [eval_x operand_value]. rewrite Hcell, (mean_of_ok _ _ _ Hm).
      destruct (index_eval key (cell prow (c_col cm)) cont (c_neg cm) p) as [He|Hc]; [left; exact He|].
      right. split; [exact Hws|]. rewrite Ev. cbn [operand_value]. rewrite (mean_of_ok _ _ _ Hm). exact Hc.
    + injection Hrw as Hrw. subst xc.
      assert (Hrc : c_rcast cm = false).
      { unfold hashed in Hws. rewrite Hsel, Ev in Hws. cbn [is_param andb] in Hws.
        destruct (c_rcast cm); [discriminate Hws | reflexivity]. }
      destruct (Hin i) as [p [Hm Hnb]].
      { unfold bind_idx_cmp. rewrite Ev, Hsel, Hrc. left. reflexivity. }
      cbn [eval_x operand_value]. rewrite Hcell, Hnb, (mean_of_ok _ _ _ Hm).
      destruct (index_eval key (cell prow (c_col cm)) cont (c_neg cm) p) as [He|Hc]; [left; exact He|].
      right. split; [exact Hws|]. rewrite Ev. cbn [operand_value]. rewrite (mean_of_ok _ _ _ Hm). exact Hc.
  - (* not searchable: left as written; its placeholder (if any) keeps its value *)
    left. assert (Hsel : selected d schema cm = false) by (unfold selected; rewrite Es; reflexivity).
    rewrite Hsel in Hrw. injection Hrw as Hrw. subst xc.
    cbn [eval_x]. unfold eval_cmp_raw. rewrite Hrow. f_equal. f_equal.
    destruct (c_val cm) as [v|i] eqn:Ev; cbn [operand_value]; [reflexivity|].
    apply Hout. unfold plain_param_cmp, hashed. rewrite Ev, Hsel. left. reflexivity.
Qed.

(** * the tree, one row: induction over the condition *)
Lemma collision_app_l d ks key schema binds prow a b :
  (exists cm, In cm (cmps a) /\ cmp_collision d ks key schema binds prow cm) ->
  exists cm, In cm (cmps a ++ cmps b) /\ cmp_collision d ks key schema binds prow cm.
Proof. intros [cm [H1 H2]]. exists cm. split; [apply in_or_app; left; exact H1 | exact H2]. Qed.

Lemma collision_app_r d ks key schema binds prow a b :
  (exists cm, In cm (cmps b) /\ cmp_collision d ks key schema binds prow cm) ->
  exists cm, In cm (cmps a ++ cmps b) /\ cmp_collision d ks key schema binds prow cm.
Proof. intros [cm [H1 H2]]. exists cm. split; [apply in_or_app; right; exact H1 | exact H2]. Qed.

Lemma tree_equiv_row d ks key schema binds nb srow prow :
  ks_hmac ks = Some key ->
  row_rel key schema srow prow ->
  forall c xc,
  well_shaped d schema c = true ->
  (forall i, In i (bind_idxs d schema c) -> bind_done ks key binds nb i) ->
  (forall i, In i (plain_params d schema c) -> nth i nb [] = nth i binds []) ->
  rewrite_w C d ks schema c = Ok xc ->
  eval_x nb srow xc = eval_w (mean_of ks) schema binds prow c
  \/ exists cm, In cm (cmps c) /\ cmp_collision d ks key schema binds prow cm.
Proof.
  intros Hk Hrow. unfold well_shaped, plain_params.
  induction c as [cm|a IHa b IHb|a IHa b IHb|a IHa|a IHa]; intros xc Hws Hin Hout Hrw; cbn [rewrite_w] in Hrw.
  - cbn [cmps forallb] in Hws. rewrite andb_true_r in Hws.
    cbn [cmps flat_map] in Hout. rewrite app_nil_r in Hout.
    destruct (cmp_equiv d ks key schema binds nb srow prow cm xc Hk Hws Hin Hout Hrow Hrw) as [He|Hc];
      [left; exact He | right; exists cm; split; [left; reflexivity | exact Hc]].
  - cbn [cmps] in Hws, Hout. rewrite forallb_app in Hws. apply andb_prop in Hws. destruct Hws as [Wa Wb].
    cbn [bind_idxs] in Hin. rewrite flat_map_app in Hout.
    destruct (rewrite_w C d ks schema a) as [xa| |] eqn:Ea; cbn [bind] in Hrw; try discriminate Hrw.
    destruct (rewrite_w C d ks schema b) as [xb| |] eqn:Eb; cbn [bind] in Hrw; try discriminate Hrw.
    injection Hrw as Hrw. subst xc. cbn [eval_x eval_w cmps].
    destruct (IHa xa Wa (fun i Hi => Hin i (in_or_app _ _ _ (or_introl Hi)))
                (fun i Hi => Hout i (in_or_app _ _ _ (or_introl Hi))) eq_refl) as [Ha|Ha];
      [|right; apply collision_app_l, Ha].
    destruct (IHb xb Wb (fun i Hi => Hin i (in_or_app _ _ _ (or_intror Hi)))
                (fun i Hi => Hout i (in_or_app _ _ _ (or_intror Hi))) eq_refl) as [Hb|Hb];
      [|right; apply collision_app_r, Hb].
    left. rewrite Ha, Hb. reflexivity.
  - cbn [cmps] in Hws, Hout. rewrite forallb_app in Hws. apply andb_prop in Hws. destruct Hws as [Wa Wb].
    cbn [bind_idxs] in Hin. rewrite flat_map_app in Hout.
    destruct (rewrite_w C d ks schema a) as [xa| |] eqn:Ea; cbn [bind] in Hrw; try discriminate Hrw.
    destruct (rewrite_w C d ks schema b) as [xb| |] eqn:Eb; cbn [bind] in Hrw; try discriminate Hrw.
    injection Hrw as Hrw. subst xc. cbn [eval_x eval_w cmps].
    destruct (IHa xa Wa (fun i Hi => Hin i (in_or_app _ _ _ (or_introl Hi)))
                (fun i Hi => Hout i (in_or_app _ _ _ (or_introl Hi))) eq_refl) as [Ha|Ha];
      [|right; apply collision_app_l, Ha].
    destruct (IHb xb Wb (fun i Hi => Hin i (in_or_app _ _ _ (or_intror Hi)))
                (fun i Hi => Hout i (in_or_app _ _ _ (or_intror Hi))) eq_refl) as [Hb|Hb];
      [|right; apply collision_app_r, Hb].
    left. rewrite Ha, Hb. reflexivity.
  - cbn [cmps] in Hws, Hout. cbn [bind_idxs] in Hin.
    destruct (rewrite_w C d ks schema a) as [xa| |] eqn:Ea; cbn [bind] in Hrw; try discriminate Hrw.
    injection Hrw as Hrw. subst xc. cbn [eval_x eval_w cmps].
    destruct (IHa xa Hws Hin Hout eq_refl) as [Ha|Ha]; [left; rewrite Ha; reflexivity | right; exact Ha].
  - cbn [cmps] in Hws, Hout. cbn [bind_idxs] in Hin.
    destruct (rewrite_w C d ks schema a) as [xa| |] eqn:Ea; cbn [bind] in Hrw; try discriminate Hrw.
    injection Hrw as Hrw. subst xc. cbn [eval_x eval_w cmps].
    destruct (IHa xa Hws Hin Hout eq_refl) as [Ha|Ha]; [left; exact Ha | right; exact Ha].
Qed.

Lemma params_separated_spec d schema c :
  params_separated d schema c = true ->
  forall i, In i (plain_params d schema c) -> ~ In i (bind_idxs d schema c).
Proof.
  unfold params_separated. intros H i Hi. rewrite forallb_forall in H. specialize (H i Hi).
  apply negb_true_iff in H. apply existsb_eqb_notIn, H.
Qed.

(** * rewritten_condition_equivalent: every table of stored rows *)
Theorem rewritten_condition_equivalent d ks key schema c binds rows plains flags :
  ks_hmac ks = Some key ->
  well_shaped d schema c = true ->
  params_separated d schema c = true ->
  (d = MY -> NoDup (bind_idxs d schema c)) ->
  Forall2 (row_rel key schema) rows plains ->
  run_queryx C d ks schema rows c binds = Ok flags ->
  flags = map (fun prow => eval_w (mean_of ks) schema binds prow c) plains
  \/ tree_collision d ks key schema binds plains c.
Proof.
  intros Hk Hws Hsep Hnd HF H. unfold run_queryx in H.
  destruct (rewrite_w C d ks schema c) as [xc| |] eqn:Er; cbn [bind] in H; try discriminate H.
  destruct (on_bindx C d ks schema c binds) as [nb| |] eqn:Eb; cbn [bind] in H; try discriminate H.
  injection H as H. subst flags.
  destruct (on_bindx_spec d ks key schema c binds nb Hk Hnd Eb) as [Hin Hout0].
  assert (Hout : forall i, In i (plain_params d schema c) -> nth i nb [] = nth i binds []).
  { intros i Hi. apply Hout0. apply (params_separated_spec d schema c Hsep i Hi). }
  induction HF as [|srow prow rows plains Hrow HF IH]; [left; reflexivity|].
  destruct IH as [IH|[pr [cm [H1 [H2 H3]]]]];
    [|right; exists pr, cm; split; [right; exact H1 | split; [exact H2 | exact H3]]].
  destruct (tree_equiv_row d ks key schema binds nb srow prow Hk Hrow c xc Hws Hin Hout Er) as [He|[cm [H1 H2]]].
  - left. cbn [map]. rewrite He, IH. reflexivity.
  - right. exists prow, cm. split; [left; reflexivity | split; [exact H1 | exact H2]].
Qed.

(** what the reference means for a row: under [row_rel], a searchable comparison of the reference is the
    comparison of the plaintext with the plaintext the searched value stands for *)
Lemma eval_cmp_plain_searchable ks schema binds prow cm :
  searchable schema (c_col cm) = true ->
  eval_cmp_plain (mean_of ks) schema binds prow cm
  = xorb (c_neg cm) (bytes_eqb (cell prow (c_col cm)) (mean_of ks (operand_value binds (c_val cm)))).
Proof. intro H. unfold eval_cmp_plain. cbv zeta. rewrite H. reflexivity. Qed.

End WithCrypto.

(** * hmac.Processor *)
Section Processor.
Variable matcher : bytes -> bool.
Variable inner : bytes -> res (bytes * bool).

(** the first stage drops whatever state it finds: a column never depends on the columns before it *)
Lemma hp_strip_state_irrelevant st data : hp_strip matcher st data = hp_strip matcher None data.
Proof. reflexivity. Qed.

Lemma hp_column_state_irrelevant ks st data :
  snd (hp_column matcher inner ks st data) = snd (hp_column matcher inner ks None data).
Proof. reflexivity. Qed.

Lemma hp_columns_independent ks : forall cols st,
  hp_columns matcher inner ks st cols = map (fun c => snd (hp_column matcher inner ks None c)) cols.
Proof.
  induction cols as [|c cols IH]; intro st; [reflexivity|].
  cbn [hp_columns map].
  destruct (hp_column matcher inner ks st c) as [st' o] eqn:E.
  rewrite IH. f_equal. change o with (snd (st', o)). rewrite <- E. apply hp_column_state_irrelevant.
Qed.

(** after a column whose subscribers all returned, nothing is kept *)
Lemma hp_column_clean ks st data st' out :
  hp_column matcher inner ks st data = (st', Ok out) -> st' = None.
Proof.
  unfold hp_column. destruct (hp_strip matcher st data) as [st1 d1].
  destruct (inner d1) as [[d2 ch]| |]; [|intro H; discriminate H | intro H; discriminate H].
  unfold hp_verify. destruct st1 as [[h raw]|].
  - destruct (hash_is_equal h d2 ks); intro H; injection H as H _; symmetry; exact H.
  - intro H. injection H as H _. symmetry. exact H.
Qed.

(** the full characterisation of what is delivered for ANY column bytes *)
Theorem hp_column_spec ks key st data st' out flag :
  ks_hmac ks = Some key ->
  hp_column matcher inner ks st data = (st', Ok (out, flag)) ->
  (* no index recognised (no known function id / too short / nothing that looks like an envelope behind it):
     the column goes through the decrypting subscribers as it is *)
  ((extract_hash data = None \/ exists h rest, extract_hash data = Some (h, rest) /\ matcher rest = false)
   /\ inner data = Ok (out, flag))
  \/
  (* index recognised and stripped; the subscribers produced [dec] from the rest *)
  (exists h rest dec ch, extract_hash data = Some (h, rest) /\ matcher rest = true /\ inner rest = Ok (dec, ch) /\
     ((h = blind_index key dec /\ out = dec /\ flag = ch)
      \/ (h <> blind_index key dec /\ out = data /\ flag = false))).
Proof.
  intros Hk H. unfold hp_column, hp_strip in H.
  destruct (extract_hash data) as [[h rest]|] eqn:Ee.
  - destruct (extract_hash_shape _ _ _ Ee) as [_ [Hl Hs]].
    destruct (matcher rest) eqn:Em.
    + right. destruct (inner rest) as [[dec ch]| |] eqn:Ei; try discriminate H.
      exists h, rest, dec, ch. split; [reflexivity|]. split; [exact Em|]. split; [exact Ei|].
      unfold hp_verify in H.
      destruct (hash_is_equal h dec ks) eqn:Eh.
      * left. injection H as _ H1 H2. subst out flag.
        split; [apply (hash_equal_is_index h dec ks key Hl Hs Hk), Eh|]. split; [reflexivity|].
        rewrite andb_true_r. reflexivity.
      * right. injection H as _ H1 H2. subst out flag. split.
        -- intro E. apply (hash_equal_is_index h dec ks key Hl Hs Hk) in E. congruence.
        -- split; [reflexivity | apply andb_false_r].
    + left. destruct (inner data) as [[d2 ch]| |] eqn:Ei; try discriminate H.
      cbn [hp_verify] in H. injection H as _ H1 H2. subst out flag. rewrite andb_true_r.
      split; [right; exists h, rest; auto | reflexivity].
  - left. destruct (inner data) as [[d2 ch]| |] eqn:Ei; try discriminate H.
    cbn [hp_verify] in H. injection H as _ H1 H2. subst out flag. rewrite andb_true_r.
    split; [left; reflexivity | reflexivity].
Qed.

(** delivered_plaintext_only_if_index_matches *)
Theorem hp_plaintext_only_if_index_matches ks key st data st' h rest dec ch out flag :
  ks_hmac ks = Some key ->
  extract_hash data = Some (h, rest) -> matcher rest = true -> inner rest = Ok (dec, ch) ->
  hp_column matcher inner ks st data = (st', Ok (out, flag)) ->
  (out = dec /\ flag = ch /\ h = blind_index key dec) \/ (out = data /\ flag = false /\ h <> blind_index key dec).
Proof.
  intros Hk He Hm Hi H.
  destruct (hp_column_spec ks key st data st' out flag Hk H) as [[[Hn|[h' [r' [He' Hm']]]] _]|[h' [r' [d' [c' [He' [_ [Hi' Hr]]]]]]]].
  - congruence.
  - rewrite He in He'. injection He' as E1 E2. subst h' r'. congruence.
  - rewrite He in He'. injection He' as E1 E2. subst h' r'. rewrite Hi in Hi'. injection Hi' as E1 E2. subst d' c'.
    destruct Hr as [[A [B D]]|[A [B D]]]; [left | right]; auto.
Qed.

(** mismatching_index_delivered_as_stored, in the "if" direction (the column pipeline always answers) *)
Theorem hp_mismatch_delivered_as_stored ks key st data h rest dec ch :
  ks_hmac ks = Some key ->
  extract_hash data = Some (h, rest) -> matcher rest = true -> inner rest = Ok (dec, ch) ->
  h <> blind_index key dec ->
  hp_column matcher inner ks st data = (None, Ok (data, false)).
Proof.
  intros Hk He Hm Hi Hne. unfold hp_column, hp_strip. rewrite He, Hm, Hi. unfold hp_verify.
  destruct (extract_hash_shape _ _ _ He) as [_ [Hl Hs]].
  destruct (hash_is_equal h dec ks) eqn:Eh.
  - exfalso. apply Hne, (hash_equal_is_index h dec ks key Hl Hs Hk), Eh.
  - rewrite andb_false_r. reflexivity.
Qed.

Theorem hp_match_delivers_plaintext ks key st (cont dec : bytes) ch :
  ks_hmac ks = Some key ->
  matcher cont = true -> inner cont = Ok (dec, ch) ->
  hp_column matcher inner ks st (blind_index key dec ++ cont) = (None, Ok (dec, ch)).
Proof.
  intros Hk Hm Hi.
  assert (He : extract_hash (blind_index key dec ++ cont) = Some (blind_index key dec, cont)).
  { unfold extract_hash. unfold blind_index at 1, generate_hmac at 1. cbn [app].
    rewrite byte_eqb_refl. cbn [negb].
    change (HMAC_FUNC_SHA256 :: hmac_sha256 key dec ++ cont) with (blind_index key dec ++ cont).
    destruct (Nat.ltb (length (blind_index key dec ++ cont)) HMAC_HASH_SIZE) eqn:El.
    - apply Nat.ltb_lt in El. rewrite app_length, blind_index_length in El. lia.
    - rewrite firstn_app_len', skipn_app_len' by (symmetry; apply blind_index_length). reflexivity. }
  unfold hp_column, hp_strip. rewrite He, Hm, Hi. unfold hp_verify.
  destruct (extract_hash_shape _ _ _ He) as [_ [Hl Hs]].
  assert (Eh : hash_is_equal (blind_index key dec) dec ks = true)
    by (apply (hash_equal_is_index _ dec ks key Hl Hs Hk); reflexivity).
  rewrite Eh. rewrite andb_true_r. reflexivity.
Qed.

End Processor.
