(** Handler / registry level composition: protect-then-reveal through the entry points. *)
From Acra Require Import Lib.Bytes Lib.Outcome Lib.Sha256 Crypto.Interface Gen.Consts Model.Envelope Proofs.Envelope.
From Coq Require Import ZifyN ZifyNat ZifyBool.

Section Handlers.
Variable C : crypto.
Hypothesis HC : Correct C.

(** what the code computes to decide "already protected" *)
Definition looks_protected (id : byte) (x : bytes) : bool := handler_match id x || registry_match x.

Theorem passthrough id ks tape x :
  looks_protected id x = true -> encrypt_with_handler C id ks tape x = Ok x.
Proof. unfold looks_protected, encrypt_with_handler. intros ->. reflexivity. Qed.

Lemma known_as : known_envelope ENVELOPE_ID_ACRASTRUCT = true. Proof. reflexivity. Qed.
Lemma known_ab : known_envelope ENVELOPE_ID_ACRABLOCK = true. Proof. reflexivity. Qed.

Lemma app_nil_r' {A} (l : list A) : l = l ++ []. Proof. symmetry. apply app_nil_r. Qed.

(** a serialized container is recognised as protected by every entry point *)
Lemma container_looks_protected id' id inner :
  inner <> [] -> known_envelope id = true -> (N.of_nat (length inner) < 4294967296)%N ->
  handler_match id inner = true ->
  looks_protected id' (sc_layout inner id) = true.
Proof.
  intros Hne Hk Hl Hm. unfold looks_protected, registry_match.
  destruct (container_roundtrip inner id [] Hne Hk Hl) as [Hd _]. rewrite app_nil_r in Hd.
  rewrite Hd, Hm. apply orb_true_r.
Qed.

Lemma envelope_kind_layout inner id suffix :
  inner <> [] -> known_envelope id = true -> envelope_kind (sc_layout inner id ++ suffix) = EnvNew id.
Proof. intros Hne Hk. unfold envelope_kind. rewrite sc_validate_layout by assumption. reflexivity. Qed.

(** ** asymmetric envelope *)
Theorem handler_roundtrip_as ks ks' tape x sb before after :
  looks_protected ENVELOPE_ID_ACRASTRUCT x = false ->
  x <> [] -> (N.of_nat (length x) < MAXMSG)%N -> good_as_tape tape -> length sb = SEED_LEN ->
  ks_pub ks = Some (pub_of C sb) ->
  ks_privs ks' = before ++ priv_of C sb :: after ->
  (forall v, Forall (fun p => exists e, as_decrypt C v p [] = Err e) before) ->
  exists v, encrypt_with_handler C ENVELOPE_ID_ACRASTRUCT ks tape x = Ok v /\
            decrypt_with_handler C ENVELOPE_ID_ACRASTRUCT ks' v = Ok x /\
            registry_process C ks' v = Ok x /\
            (forall id' ks2 tape2, encrypt_with_handler C id' ks2 tape2 v = Ok v) /\
            exists inner, v = sc_layout inner ENVELOPE_ID_ACRASTRUCT /\ inner <> [] /\
              (N.of_nat (length inner) < 4294967296)%N /\ handler_match ENVELOPE_ID_ACRASTRUCT inner = true /\
              handler_decrypt C ENVELOPE_ID_ACRASTRUCT ks' inner = Ok x /\ length x < length inner.
Proof.
  intros Hnp Hx Hlen Htape Hsb Hpub Hprivs Hbefore.
  destruct (as_roundtrip C HC tape x sb [] Htape Hsb Hx Hlen) as (inner & Hc & Hval & Hil & Hdec).
  assert (inner <> []) as Hine by (intros ->; cbn [length] in Hil; unfold_consts; lia).
  assert (N.of_nat (length inner) < 4294967296)%N as Hismall
      by (rewrite Hil; unfold_consts; lia).
  exists (sc_layout inner ENVELOPE_ID_ACRASTRUCT).
  unfold looks_protected in Hnp. apply orb_false_iff in Hnp as [Hnm Hnr].
  assert (Henc : encrypt_with_handler C ENVELOPE_ID_ACRASTRUCT ks tape x = Ok (sc_layout inner ENVELOPE_ID_ACRASTRUCT)).
  { unfold encrypt_with_handler. rewrite Hnm, Hnr. cbn [orb].
    unfold handler_encrypt. rewrite byte_eqb_refl.
    unfold handler_match in Hnm. rewrite byte_eqb_refl in Hnm. rewrite Hnm, Hpub, Hc. cbn [bind].
    apply sc_serialize_ok, Hine. }
  destruct (container_roundtrip inner ENVELOPE_ID_ACRASTRUCT [] Hine known_as Hismall) as [Hd _].
  rewrite app_nil_r in Hd.
  assert (Hdw : decrypt_with_handler C ENVELOPE_ID_ACRASTRUCT ks' (sc_layout inner ENVELOPE_ID_ACRASTRUCT) = Ok x).
  { unfold decrypt_with_handler. rewrite Hd. cbn [bind].
    unfold handler_match, handler_decrypt. rewrite byte_eqb_refl, Hval. cbn [negb].
    rewrite Hprivs. rewrite is_nil_false by (destruct before; discriminate).
    apply as_rotated_roundtrip; [exact Hdec| apply Hbefore]. }
  split; [exact Henc|]. split; [exact Hdw|]. split; [|split].
  - unfold registry_process.
    rewrite (app_nil_r' (sc_layout inner ENVELOPE_ID_ACRASTRUCT)) at 1.
    rewrite envelope_kind_layout by (assumption || reflexivity). exact Hdw.
  - intros id' ks2 tape2. apply passthrough.
    apply container_looks_protected; try assumption; try reflexivity.
  - exists inner. split; [reflexivity|]. split; [exact Hine|]. split; [exact Hismall|].
    split; [unfold handler_match; rewrite byte_eqb_refl; exact Hval|]. split; [|rewrite Hil; unfold_consts; lia].
    unfold decrypt_with_handler in Hdw. rewrite Hd in Hdw. cbn [bind] in Hdw.
    unfold handler_match in Hdw. rewrite byte_eqb_refl, Hval in Hdw. exact Hdw.
Qed.

(** ** symmetric envelope *)
Theorem handler_roundtrip_ab ks ks' tape x key rest before after :
  looks_protected ENVELOPE_ID_ACRABLOCK x = false ->
  x <> [] -> (N.of_nat (length x) < MAXMSG)%N -> good_ab_tape tape -> key <> [] ->
  ks_syms ks = key :: rest ->
  ks_syms ks' = before ++ key :: after ->
  (forall ek, Forall (fun k => bytes_eqb (ab_key_id k []) (ab_key_id key []) = false
                               \/ cell_decrypt C k [] ek = None) before) ->
  exists v, encrypt_with_handler C ENVELOPE_ID_ACRABLOCK ks tape x = Ok v /\
            decrypt_with_handler C ENVELOPE_ID_ACRABLOCK ks' v = Ok x /\
            registry_process C ks' v = Ok x /\
            (forall id' ks2 tape2, encrypt_with_handler C id' ks2 tape2 v = Ok v) /\
            exists inner, v = sc_layout inner ENVELOPE_ID_ACRABLOCK /\ inner <> [] /\
              (N.of_nat (length inner) < 4294967296)%N /\ handler_match ENVELOPE_ID_ACRABLOCK inner = true /\
              handler_decrypt C ENVELOPE_ID_ACRABLOCK ks' inner = Ok x /\ length x < length inner.
Proof.
  intros Hnp Hx Hlen Htape Hkey Hsyms Hsyms' Hbefore.
  destruct (ab_roundtrip C HC tape x key [] Htape Hkey Hx Hlen) as (ek & ed & Hc & Hekl & Hedl & Hdec).
  set (inner := ab_layout key [] ek ed) in *.
  assert (length inner = AB_MIN_SIZE + length ek + length ed) as Hil by apply ab_layout_length.
  assert (inner <> []) as Hine by (intros E0; rewrite E0 in Hil; cbn [length] in Hil; unfold_consts; lia).
  assert (N.of_nat (length inner) < 4294967296)%N as Hismall
      by (rewrite Hil, Hekl, Hedl; unfold_consts; lia).
  assert (Hext : ab_extract inner = Ok (length inner, inner)).
  { rewrite (app_nil_r' inner) at 1. apply ab_extract_layout.
    rewrite Hekl, Hedl. unfold_consts. lia. }
  assert (Hab_ne : byte_eqb ENVELOPE_ID_ACRABLOCK ENVELOPE_ID_ACRASTRUCT = false) by reflexivity.
  exists (sc_layout inner ENVELOPE_ID_ACRABLOCK).
  unfold looks_protected in Hnp. apply orb_false_iff in Hnp as [Hnm Hnr].
  assert (Henc : encrypt_with_handler C ENVELOPE_ID_ACRABLOCK ks tape x = Ok (sc_layout inner ENVELOPE_ID_ACRABLOCK)).
  { unfold encrypt_with_handler. rewrite Hnm, Hnr. cbn [orb].
    unfold handler_encrypt. rewrite Hab_ne.
    unfold handler_match in Hnm. rewrite Hab_ne in Hnm. rewrite Hnm, Hsyms, Hc. cbn [bind].
    apply sc_serialize_ok, Hine. }
  destruct (container_roundtrip inner ENVELOPE_ID_ACRABLOCK [] Hine known_ab Hismall) as [Hd _].
  rewrite app_nil_r in Hd.
  assert (Hm : handler_match ENVELOPE_ID_ACRABLOCK inner = true).
  { unfold handler_match. rewrite Hab_ne, Hext. reflexivity. }
  assert (Hdw : decrypt_with_handler C ENVELOPE_ID_ACRABLOCK ks' (sc_layout inner ENVELOPE_ID_ACRABLOCK) = Ok x).
  { unfold decrypt_with_handler. rewrite Hd. cbn [bind]. rewrite Hm. cbn [negb].
    unfold handler_decrypt. rewrite Hab_ne, Hext, Hsyms'.
    rewrite is_nil_false by (destruct before; discriminate).
    replace (ab_decrypt C inner (before ++ key :: after) []) with (@Ok bytes x)
      by (symmetry; apply Hdec, Hbefore).
    reflexivity. }
  split; [exact Henc|]. split; [exact Hdw|]. split; [|split].
  - unfold registry_process.
    rewrite (app_nil_r' (sc_layout inner ENVELOPE_ID_ACRABLOCK)) at 1.
    rewrite envelope_kind_layout by (assumption || reflexivity). exact Hdw.
  - intros id' ks2 tape2. apply passthrough.
    apply container_looks_protected; try assumption; reflexivity.
  - exists inner. split; [reflexivity|]. split; [exact Hine|]. split; [exact Hismall|].
    split; [exact Hm|]. split; [|rewrite Hil, Hedl; unfold_consts; lia].
    unfold decrypt_with_handler in Hdw. rewrite Hd in Hdw. cbn [bind] in Hdw.
    rewrite Hm in Hdw. exact Hdw.
Qed.

(** empty plaintext cannot be protected (Secure Cell rejects an empty message) *)
Theorem empty_plaintext_rejected id ks tape :
  exists e, encrypt_with_handler C id ks tape [] = Err e.
Proof.
  unfold encrypt_with_handler, handler_match, registry_match.
  assert (as_validate [] = false) as Ha by reflexivity.
  assert (ab_extract [] = Err E_GENERIC) as Hb by reflexivity.
  assert (sc_deserialize [] = Err E_GENERIC) as Hc by reflexivity.
  rewrite Ha, Hb, Hc. cbn [is_ok]. destruct (byte_eqb id ENVELOPE_ID_ACRASTRUCT) eqn:E; cbn [orb bind].
  - unfold handler_encrypt. rewrite E, Ha. destruct (ks_pub ks); [|eexists; reflexivity].
    unfold as_create. destruct tape as [|s [|d t]]; try (eexists; reflexivity).
    destruct (keypair C s). destruct t as [|wn t]; [eexists; reflexivity|].
    destruct (msg_wrap C b0 b wn d); eexists; reflexivity.
  - unfold handler_encrypt. rewrite E, Hb. cbn [is_ok]. destruct (ks_syms ks); [eexists; reflexivity|].
    unfold ab_create. destruct tape; eexists; reflexivity.
Qed.

End Handlers.
