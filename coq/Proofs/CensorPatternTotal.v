(** Totality of the pattern matcher on well-shaped trees: no nil dereference ([Panic]) for any pair of trees
    of the shape the parser produces ([wf]: mandatory operands are present).  Same kind-by-kind structure as
    Proofs/CensorPatternSound.v. *)
From Coq Require Import List Bool NArith Arith Lia.
From Acra Require Import Lib.Bytes Lib.Outcome Model.CensorPattern Proofs.CensorTree Proofs.CensorPatternSound.
Import ListNotations.

Lemma fld_total pl q p r :
  fld pl q p r = Panic ->
  r <> Panic ->
  (pl = PPanic -> negb (is_nil p) = true /\ negb (is_nil q) = true) ->
  False.
Proof.
  intros H Hr Hn. destruct pl; cbn in H.
  - destruct (is_nil p && is_nil q); [discriminate|]. destruct (is_nil p || is_nil q); [discriminate | auto].
  - destruct (is_nil p || is_nil q); [discriminate | auto].
  - destruct (Hn eq_refl) as [Np Nq]. apply negb_true_iff in Np, Nq. rewrite Np, Nq in H. cbn in H. auto.
  - destruct (is_nil p); [discriminate | auto].
  - auto.
Qed.

Section Total.
  Variable wp : tree -> res bool.
  Hypothesis Hwp : forall w, wf w = true -> wp w <> Panic.

  Definition TotalAt (p : tree) : Prop :=
    forall q, wf p = true -> wf q = true -> meq wp q p <> Panic.

  Lemma pairwise_total lp :
    forall pcs qcs,
    Forall TotalAt pcs -> forallb wf pcs = true -> forallb wf qcs = true ->
    (lp = PPanic -> forallb (fun c => negb (is_nil c)) pcs = true /\ forallb (fun c => negb (is_nil c)) qcs = true) ->
    pairwise (meq wp) lp pcs qcs <> Panic.
  Proof.
    induction pcs as [|p1 ps IHps]; intros [|q1 qs] IH Hp Hq Hn H; cbn [pairwise] in H; try discriminate.
    cbn [forallb] in Hp, Hq. bsplit. explode.
    destruct (fld lp q1 p1 (meq wp q1 p1)) as [[|]| |] eqn:E; try discriminate H.
    - refine (IHps qs _ _ _ _ H); auto.
      intros El. destruct (Hn El) as [A B]. cbn [forallb] in A, B. bsplit. auto.
    - apply (fld_total _ _ _ _ E); auto.
      intros El. destruct (Hn El) as [A B]. cbn [forallb] in A, B. bsplit. auto.
  Qed.

  Lemma tuple_rest_total p1 : TotalAt p1 -> wf p1 = true ->
    forall qs, forallb wf qs = true ->
    tuple_rest (fun q => fld PGuard q p1 (meq wp q p1)) qs <> Panic.
  Proof.
    intros IH Hp. induction qs as [|q1 qs IHqs]; intros Hq H; cbn [tuple_rest] in H; [discriminate|].
    cbn [forallb] in Hq. bsplit.
    destruct (fld PGuard q1 p1 (meq wp q1 p1)) as [[|]| |] eqn:E; try discriminate H.
    - eapply IHqs; eauto.
    - apply (fld_total _ _ _ _ E); auto. discriminate.
  Qed.

  Lemma tuple_total : forall pcs qcs,
    Forall TotalAt pcs -> forallb wf pcs = true -> forallb wf qcs = true ->
    tuple (meq wp) pcs qcs <> Panic.
  Proof.
    induction pcs as [|p1 ps IHps]; intros [|q1 qs] IH Hp Hq H; cbn [tuple] in H; try discriminate.
    cbn [forallb] in Hp, Hq. bsplit. explode.
    destruct (fld PGuard q1 p1 (meq wp q1 p1)) as [[|]| |] eqn:E; try discriminate H.
    - destruct ps as [|p2 ps].
      + destruct qs as [|q2 qs]; [discriminate H|].
        destruct (is_k K_SQLVal p1 && is_list_ph p1); [|discriminate H].
        apply (tuple_rest_total p1) in H; auto.
      + refine (IHps qs _ _ _ H); auto.
    - apply (fld_total _ _ _ _ E); auto. discriminate.
  Qed.

  Ltac split_P H := repeat match type of H with
    | context [fld ?pl ?d ?c ?r] => let E := fresh "E" in destruct (fld pl d c r) as [[|]| |] eqn:E; try discriminate H
    | context [tree_eqb ?d ?c] => let E := fresh "E" in destruct (tree_eqb d c) eqn:E; try discriminate H
    | context [lab_eqb ?d ?c] => let E := fresh "E" in destruct (lab_eqb d c) eqn:E; try discriminate H
    end.

  Ltac kill_panic :=
    match goal with
    | E : fld ?pl ?d ?c _ = Panic, IH : TotalAt ?c |- _ =>
        apply (fld_total _ _ _ _ E); [apply IH; assumption | try discriminate; intros _; split; assumption]
    | H : wp ?c = Panic |- _ => apply (Hwp c); assumption
    end.

  Ltac stageT H :=
    cbn [run_spec kid nth subs tkids fst snd] in H; split_P H;
    cbn [forallb nth] in *; bsplit; kill_panic.

  Ltac plain_T q Hp Hq H := stageA q H; stageB Hp Hq; stageT H.

  Ltac ok_T H := repeat match type of H with (if ?c then _ else _) = _ => destruct c end; discriminate H.

  Ltac list_T q Hp Hq H IH :=
    match type of H with (if negb ?c then _ else _) = _ =>
      let Hkq := fresh "Hkq" in destruct c eqn:Hkq; cbn [negb] in H; [|discriminate H];
      try (match type of H with (if is_star_list ?l then _ else _) = _ => destruct (is_star_list l); [discriminate H|] end);
      match type of H with (if negb ?c2 then _ else _) = _ =>
        destruct c2; cbn [negb] in H; [|discriminate H] end;
      apply pairwise_total in H;
      [ contradiction
      | exact IH
      | exact (wf_kids _ _ _ Hp)
      | destruct q; exact (wf_kids _ _ _ Hq)
      | first [ discriminate | intros _;
        apply orb_true_iff in Hkq; destruct Hkq as [Hkq|Hkq];
        [ destruct q as [?qk ?ql ?qcs]; apply kind_eqb_eq in Hkq; cbn [tkind] in Hkq; subst;
          cbn in Hp, Hq; bsplit; split; assumption
        | first [ cbn in Hkq; discriminate Hkq
                | apply andb_true_iff in Hkq; destruct Hkq as [_ Hkq]; apply wf_nil in Hkq; [|assumption]; subst q;
                  cbn in Hp; bsplit; split; [assumption | reflexivity] ] ] ] ]
    end.

  Ltac dispatch_T k q pcs Hp Hq H IH :=
    lazymatch k with
    | K_string => ok_T H | K_ColIdent => ok_T H | K_Comments => ok_T H
    | K_Set => ok_T H | K_DBDDL => ok_T H | K_DDL => ok_T H | K_Show => ok_T H | K_Use => ok_T H
    | K_Begin => ok_T H | K_Commit => ok_T H | K_Rollback => ok_T H | K_OtherRead => ok_T H | K_OtherAdmin => ok_T H
    | K_bool => ok_T H | K_int => ok_T H | K_bytes => ok_T H | K_BoolVal => ok_T H | K_ListArg => ok_T H
    | K_NullVal => ok_T H | K_SQLVal => ok_T H
    | K_ColName => match type of H with (if negb ?c then _ else _) = _ => destruct c; cbn [negb] in H; [plain_T q Hp Hq H | discriminate H] end
    | K_AliasedExpr => match type of H with (if negb ?c then _ else _) = _ => destruct c; cbn [negb] in H; [plain_T q Hp Hq H | discriminate H] end
    | K_Subquery => plain_T q Hp Hq H
    | K_Union => stageA q H; match type of H with (if ?c then _ else _) = _ => destruct c; [discriminate H|] end; stageB Hp Hq; stageT H
    | K_Select => stageA q H; match type of H with (if ?c then _ else _) = _ => destruct c; [discriminate H|] end; stageB Hp Hq; stageT H
    | K_Insert => stageA q H; match type of H with (if ?c then _ else _) = _ => destruct c; [discriminate H|] end; stageB Hp Hq; stageT H
    | K_Update => stageA q H; match type of H with (if ?c then _ else _) = _ => destruct c; [discriminate H|] end; stageB Hp Hq; stageT H
    | K_Delete => stageA q H; match type of H with (if ?c then _ else _) = _ => destruct c; [discriminate H|] end; stageB Hp Hq; stageT H
    | K_ValTuple =>
        match type of H with (if negb ?c then _ else _) = _ => destruct c; cbn [negb] in H; [|discriminate H] end;
        apply tuple_total in H; [exact H | exact IH | exact (wf_kids _ _ _ Hp) | destruct q; exact (wf_kids _ _ _ Hq)]
    | K_SelectExprs => list_T q Hp Hq H IH | K_Returning => list_T q Hp Hq H IH
    | K_TableExprs => list_T q Hp Hq H IH | K_GroupBy => list_T q Hp Hq H IH | K_Values => list_T q Hp Hq H IH
    | K_OrderBy => list_T q Hp Hq H IH | K_OnDup => list_T q Hp Hq H IH | K_UpdateExprs => list_T q Hp Hq H IH
    | K_list => list_T q Hp Hq H IH | K_Columns => list_T q Hp Hq H IH | K_Partitions => list_T q Hp Hq H IH
    | _ => first [ solve [destruct (negb _) in H; discriminate H] | plain_T q Hp Hq H ]
    end.

  Lemma meq_total_all : forall p, TotalAt p.
  Proof.
    induction p as [pk pl pcs IH] using tree_ind'.
    intros q Hp Hq H. rewrite meq_unfold in H. unfold body in H. cbn [tkind tkids] in H.
    destruct pk; cbn [struct_spec stmt_ph list_pol slice_kind] in H.
    all: match goal with Hp : wf (T ?k _ _) = true |- _ => dispatch_T k q pcs Hp Hq H IH end.
  Qed.
End Total.

Lemma wf_pat_where_expr : wf (kid 1 PAT_WHERE) = true.
Proof. vm_compute. reflexivity. Qed.

(** isWherePattern never dereferences nil *)
Lemma where_pat_total w : wf w = true -> where_pat w <> Panic.
Proof.
  intros Hw H. unfold where_pat in H.
  destruct (is_nil w); [discriminate|]. destruct (negb _); [discriminate|].
  apply fld_total in H; auto; [|discriminate].
  assert (Hk : forall w0 : tree, wf w0 = true -> (fun _ : tree => @Ok bool false) w0 <> Panic) by (intros; discriminate).
  apply (meq_total_all (fun _ => Ok false) Hk (kid 1 PAT_WHERE) (kid 1 w)).
  - apply wf_pat_where_expr.
  - destruct w as [k l cs]. unfold kid. cbn [tkids]. apply forallb_nth. exact (wf_kids _ _ _ Hw).
Qed.

(** checkSinglePatternMatch never panics on trees of the shape the parser produces *)
Lemma match_impl_total p s : wf p = true -> wf s = true -> match_impl p s <> Panic.
Proof.
  intros Hp Hs. unfold match_impl. destruct (top_kind (tkind p)); [|discriminate].
  apply (meq_total_all where_pat where_pat_total); assumption.
Qed.

Lemma check_patterns_total ps s :
  forallb wf ps = true -> wf s = true -> check_patterns ps s <> Panic.
Proof.
  intros Hps Hs. induction ps as [|p ps IHps]; cbn [check_patterns]; [discriminate|].
  cbn [forallb] in Hps. apply andb_true_iff in Hps. destruct Hps as [Hp Hps].
  pose proof (match_impl_total p s Hp Hs) as Hm.
  destruct (match_impl p s) as [[|]| |]; try discriminate; auto.
Qed.

