(** Proofs about the checked parser models of Model/ParsersExt.v (property C14, work package x14log). *)
From Acra Require Import Lib.Bytes Lib.Outcome Lib.GoSlice Gen.AuditLogConsts Gen.KsConsts Gen.ParsersConsts
  Model.AuditLog Model.Path Model.Backup Model.ParsersExt.
From Coq Require Import ZifyN ZifyNat ZifyBool.
Local Open Scope Z_scope.

(** * generic facts *)
Lemma byte_eqb_sym x y : byte_eqb x y = byte_eqb y x.
Proof.
  destruct (byte_eqb x y) eqn:E1, (byte_eqb y x) eqn:E2; try reflexivity.
  - apply byte_eqb_eq in E1. subst. rewrite byte_eqb_refl in E2. discriminate.
  - apply byte_eqb_eq in E2. subst. rewrite byte_eqb_refl in E1. discriminate.
Qed.

Lemma starts_with_firstn (p s : bytes) : starts_with p s = bytes_eqb (firstn (length p) s) p.
Proof.
  revert s; induction p as [|x p IH]; intros s; cbn [starts_with length firstn]; [reflexivity|].
  destruct s as [|y s]; cbn [firstn bytes_eqb]; [reflexivity|].
  rewrite IH, byte_eqb_sym. reflexivity.
Qed.

Lemma starts_with_length (p s : bytes) : starts_with p s = true -> (length p <= length s)%nat.
Proof. intros H. apply starts_with_spec in H as [r ->]. rewrite app_length. lia. Qed.

Lemma len_length (s : bytes) : len s = Z.of_nat (length s).
Proof. reflexivity. Qed.

Lemma skipn_cons_S {A} (k : nat) (s : list A) b r : skipn k s = b :: r -> skipn (S k) s = r.
Proof.
  revert s; induction k as [|k IH]; intros s H.
  - cbn in H. subst s. reflexivity.
  - destruct s as [|x s]; [discriminate|]. cbn [skipn] in H. apply IH in H. exact H.
Qed.

Lemma skipn_cons_lt {A} (k : nat) (s : list A) b r : skipn k s = b :: r -> (k < length s)%nat.
Proof. intros H. apply (f_equal (@length A)) in H. rewrite skipn_length in H. cbn in H. lia. Qed.

Lemma skipn_cons_nth {A} (k : nat) (s : list A) b r d : skipn k s = b :: r -> nth k s d = b.
Proof.
  revert s; induction k as [|k IH]; intros s H.
  - cbn in H. subst s. reflexivity.
  - destruct s as [|x s]; [discriminate|]. cbn [skipn] in H. cbn [nth]. apply IH. exact H.
Qed.

(** [c_eq_at] inside the string is the prefix test on the suffix *)
Lemma c_eq_at_ok (tok s : bytes) (k : nat) : (k + length tok <= length s)%nat ->
  c_eq_at tok s (Z.of_nat k) = Ok (starts_with tok (skipn k s)).
Proof.
  intros H. unfold c_eq_at. rewrite gslice_ok by (unfold len; lia). cbn [bind].
  rewrite starts_with_firstn. unfold sub. repeat f_equal; unfold len; lia.
Qed.

(** * strings.HasSuffix / TrimSuffix *)
Lemma c_has_suffix_ok (suf s : bytes) : c_has_suffix suf s = Ok (has_suffix suf s).
Proof.
  unfold c_has_suffix, has_suffix.
  destruct (Z.leb_spec (len suf) (len s)) as [L|L]; unfold len in L.
  - destruct (Nat.leb_spec (length suf) (length s)) as [L'|L']; [|lia].
    replace (len s - len suf) with (Z.of_nat (length s - length suf)) by (unfold len; lia).
    rewrite c_eq_at_ok by lia. f_equal. rewrite starts_with_firstn.
    rewrite firstn_all2 by (rewrite skipn_length; lia). reflexivity.
  - destruct (Nat.leb_spec (length suf) (length s)) as [L'|L']; [lia|]. reflexivity.
Qed.

Lemma has_suffix_length (suf s : bytes) : has_suffix suf s = true -> (length suf <= length s)%nat.
Proof. unfold has_suffix. destruct (Nat.leb_spec (length suf) (length s)); [lia| discriminate]. Qed.

Lemma c_trim_suffix_ok (suf s : bytes) :
  c_trim_suffix suf s = Ok (if has_suffix suf s then trim_suffix suf s else s).
Proof.
  unfold c_trim_suffix. rewrite c_has_suffix_ok. cbn [bind].
  destruct (has_suffix suf s) eqn:E; [|reflexivity].
  apply has_suffix_length in E. rewrite gslice_to_ok by (unfold len; lia).
  unfold trim_suffix. repeat f_equal. unfold len. lia.
Qed.

(** * strings.LastIndex *)
Definition zo (o : option nat) : Z := match o with Some i => Z.of_nat i | None => -1 end.

Lemma last_index_from_short (tok s : bytes) : (length s < length tok)%nat ->
  forall i acc, last_index_from tok s i acc = acc.
Proof.
  induction s as [|b s IH]; intros H i acc; cbn [last_index_from].
  - destruct (starts_with tok []) eqn:E; [apply starts_with_length in E; cbn in *; lia| reflexivity].
  - destruct (starts_with tok (b :: s)) eqn:E; [apply starts_with_length in E; cbn in *; lia|].
    apply IH. cbn in H. lia.
Qed.

Lemma c_last_index_loop_ok (tok s : bytes) : forall (fuel k : nat) (acc : option nat),
  (k <= length s)%nat -> (length s - k + 2 <= fuel)%nat ->
  c_last_index_loop fuel tok s (Z.of_nat k) (zo acc) = Ok (zo (last_index_from tok (skipn k s) k acc)).
Proof.
  induction fuel as [|f IH]; intros k acc Hk Hf; [lia|].
  cbn [c_last_index_loop].
  destruct (Z.ltb_spec (len s - len tok) (Z.of_nat k)) as [L|L]; unfold len in L.
  - rewrite last_index_from_short by (rewrite skipn_length; lia). reflexivity.
  - rewrite c_eq_at_ok by lia. cbn [bind].
    destruct (skipn k s) as [|b r] eqn:Es.
    + (* k = length s, tok = [] *)
      assert (Hk' : k = length s).
      { apply (f_equal (@length byte)) in Es. rewrite skipn_length in Es. cbn in Es. lia. }
      assert (Ht : tok = []) by (destruct tok; [reflexivity| cbn in L; lia]).
      subst tok. cbn [starts_with last_index_from].
      destruct f as [|f']; [lia|]. cbn [c_last_index_loop].
      destruct (Z.ltb_spec (len s - len []) (Z.of_nat k + 1)) as [L2|L2]; [reflexivity| unfold len in L2; cbn in L2; lia].
    + cbn [last_index_from].
      assert (Hlt : (k < length s)%nat) by (eapply skipn_cons_lt; exact Es).
      assert (Er : skipn (S k) s = r) by (eapply skipn_cons_S; exact Es).
      replace (Z.of_nat k + 1) with (Z.of_nat (S k)) by lia.
      replace (if starts_with tok (b :: r) then Z.of_nat k else zo acc)
        with (zo (if starts_with tok (b :: r) then Some k else acc)) by (destruct (starts_with tok (b :: r)); reflexivity).
      rewrite IH by lia. rewrite Er. reflexivity.
Qed.

Lemma c_last_index_ok (tok s : bytes) : c_last_index tok s = Ok (zo (last_index tok s)).
Proof.
  unfold c_last_index, last_index. change 0 with (Z.of_nat 0). change (-1) with (zo None).
  rewrite c_last_index_loop_ok by lia. reflexivity.
Qed.

Lemma last_index_from_bound (tok s : bytes) : forall i acc r,
  last_index_from tok s i acc = Some r -> acc = Some r \/ (i <= r /\ r + length tok <= i + length s)%nat.
Proof.
  induction s as [|b s IH]; intros i acc r; cbn [last_index_from].
  - destruct (starts_with tok []) eqn:E.
    + intros [= <-]. right. apply starts_with_length in E. cbn in *. lia.
    + intros ->. left. reflexivity.
  - destruct (starts_with tok (b :: s)) eqn:E; intros H; apply IH in H as [H|H].
    + injection H as <-. right. apply starts_with_length in E. cbn in *. lia.
    + right. cbn [length]. lia.
    + left. exact H.
    + right. cbn [length]. lia.
Qed.

Lemma last_index_bound (tok s : bytes) r : last_index tok s = Some r -> (r + length tok <= length s)%nat.
Proof. unfold last_index. intros H. apply last_index_from_bound in H as [H|H]; [discriminate| lia]. Qed.

(** * encoding/hex.DecodeString *)
Definition omap_app (out : bytes) (o : option bytes) : option bytes :=
  match o with Some t => Some (out ++ t) | None => None end.

Lemma c_hex_loop_ok (src : bytes) : forall (fuel k : nat) (out : bytes),
  (2 * k <= length src)%nat -> (length src - 2 * k + 1 <= fuel)%nat ->
  c_hex_loop fuel src (Z.of_nat (2 * k) + 1) out = Ok (omap_app out (hex_decode (skipn (2 * k) src))).
Proof.
  induction fuel as [|f IH]; intros k out Hk Hf; [lia|].
  cbn [c_hex_loop].
  destruct (skipn (2 * k) src) as [|a r1] eqn:E1.
  - assert (Hl : length src = (2 * k)%nat).
    { apply (f_equal (@length byte)) in E1. rewrite skipn_length in E1. cbn in E1. lia. }
    destruct (Z.ltb_spec (Z.of_nat (2 * k) + 1) (len src)) as [L|L]; [unfold len in L; lia|].
    replace (len src mod 2) with 0 by (unfold len; rewrite Hl; rewrite Nat2Z.inj_mul; rewrite Z.mul_comm, Z_mod_mult; reflexivity).
    cbn [Z.eqb hex_decode omap_app]. rewrite app_nil_r. reflexivity.
  - pose proof (skipn_cons_lt _ _ _ _ E1) as Hlt1.
    pose proof (skipn_cons_S _ _ _ _ E1) as E2.
    destruct r1 as [|b r] eqn:Er1.
    + (* odd length *)
      assert (Hl : length src = S (2 * k)).
      { apply (f_equal (@length byte)) in E2. rewrite skipn_length in E2. cbn in E2. lia. }
      destruct (Z.ltb_spec (Z.of_nat (2 * k) + 1) (len src)) as [L|L]; [unfold len in L; lia|].
      replace (len src mod 2) with 1.
      2:{ unfold len. rewrite Hl. rewrite Nat2Z.inj_succ, Nat2Z.inj_mul. unfold Z.succ.
          rewrite Z.mul_comm, Z.add_comm, Z_mod_plus_full. reflexivity. }
      cbn [Z.eqb]. replace (Z.of_nat (2 * k) + 1 - 1) with (Z.of_nat (2 * k)) by lia.
      rewrite gindex_nat by lia. cbn [bind hex_decode omap_app]. reflexivity.
    + pose proof (skipn_cons_lt _ _ _ _ E2) as Hlt2.
      pose proof (skipn_cons_S _ _ _ _ E2) as E3.
      destruct (Z.ltb_spec (Z.of_nat (2 * k) + 1) (len src)) as [L|L]; [|unfold len in L; lia].
      replace (Z.of_nat (2 * k) + 1 - 1) with (Z.of_nat (2 * k)) by lia.
      rewrite gindex_nat by lia. cbn [bind].
      replace (Z.of_nat (2 * k) + 1) with (Z.of_nat (S (2 * k))) by lia.
      rewrite gindex_nat by lia. cbn [bind].
      rewrite (skipn_cons_nth _ _ _ _ x00 E1), (skipn_cons_nth _ _ _ _ x00 E2).
      cbn [hex_decode].
      destruct (unhex_digit a) as [x|]; [|reflexivity].
      destruct (unhex_digit b) as [y|]; [|reflexivity].
      replace (Z.of_nat (S (2 * k)) + 2) with (Z.of_nat (2 * S k) + 1) by lia.
      rewrite IH by lia.
      replace (2 * S k)%nat with (S (S (2 * k))) by lia. rewrite E3.
      destruct (hex_decode r) as [t|]; cbn [omap_app]; [|reflexivity].
      rewrite <- app_assoc. reflexivity.
Qed.

Lemma c_hex_decode_ok (src : bytes) : c_hex_decode src = Ok (hex_decode src).
Proof.
  unfold c_hex_decode. change 1 with (Z.of_nat (2 * 0) + 1) at 1.
  rewrite c_hex_loop_ok by lia. change (skipn (2 * 0) src) with src. destruct (hex_decode src); reflexivity.
Qed.

Lemma hex_decode_length_aux (n : nat) : forall (s t : bytes), (length s <= n)%nat ->
  hex_decode s = Some t -> length s = (2 * length t)%nat.
Proof.
  induction n as [|n IH]; intros s t Hn.
  - destruct s; [|cbn in Hn; lia]. cbn [hex_decode]. intros [= <-]. reflexivity.
  - destruct s as [|a [|b r]]; cbn [hex_decode].
    + intros [= <-]. reflexivity.
    + discriminate.
    + destruct (unhex_digit a); [|discriminate]. destruct (unhex_digit b); [|discriminate].
      destruct (hex_decode r) as [t'|] eqn:Er; [|discriminate]. intros [= <-].
      cbn [length] in *. rewrite (IH r t'); [lia| lia| exact Er].
Qed.
Lemma hex_decode_length (s t : bytes) : hex_decode s = Some t -> length s = (2 * length t)%nat.
Proof. apply (hex_decode_length_aux (length s)). lia. Qed.

(** * splitIntegritySuffix and the text parsers *)
Lemma c_split_integrity_ok (line : bytes) : c_split_integrity line = Ok (split_last line).
Proof.
  unfold c_split_integrity, split_last. rewrite c_last_index_ok. cbn [bind].
  destruct (last_index AL_SPLIT_TOKEN line) as [i|] eqn:E; cbn [zo].
  - apply last_index_bound in E.
    destruct (Z.ltb_spec (Z.of_nat i) 0) as [L|L]; [lia|].
    rewrite gslice_to_ok by (unfold len; lia). cbn [bind].
    rewrite gslice_from_ok by (unfold len; lia). cbn [bind].
    rewrite Nat2Z.id. repeat f_equal. unfold len. lia.
  - reflexivity.
Qed.

Theorem c_parse_text_ok (cef : bool) (line : bytes) : c_parse_text cef line = Ok (parse_text cef line).
Proof.
  unfold c_parse_text, parse_text. rewrite c_split_integrity_ok. cbn [bind].
  destruct (split_last line) as [[body rest0]|]; cbn [parse_after_split]; [|reflexivity].
  rewrite c_has_suffix_ok. cbn [bind].
  set (rest1 := if cef then trim_space rest0 else rest0).
  destruct (has_suffix AL_NEW_CHAIN_SUFFIX rest1) eqn:Hs.
  - rewrite c_trim_suffix_ok, Hs. cbn [bind]. rewrite c_hex_decode_ok. cbn [bind].
    destruct (hex_decode _); reflexivity.
  - cbn [bind]. rewrite c_hex_decode_ok. cbn [bind]. destruct (hex_decode _); reflexivity.
Qed.

Theorem c_line_pres_ok (cef : bool) (l : bytes) : c_line_pres cef l = Ok (line_pres (parse_text cef) l).
Proof. destruct l; [reflexivity|]. cbn [c_line_pres line_pres]. apply c_parse_text_ok. Qed.

(** output bound of the text parsers: the signed part and the hex text of the check are disjoint pieces of the line *)
Lemma strip_one_prefix_length tbl s s' : strip_one_prefix tbl s = Some s' -> (length s' <= length s)%nat.
Proof.
  induction tbl as [|w t IH]; cbn [strip_one_prefix]; [discriminate|].
  destruct (starts_with w s); [|exact IH]. intros [= <-]. rewrite skipn_length. lia.
Qed.

Lemma trim_left_fuel_length tbl fuel s : (length (trim_left_fuel tbl fuel s) <= length s)%nat.
Proof.
  revert s; induction fuel as [|f IH]; intros s; cbn [trim_left_fuel]; [lia|].
  destruct (strip_one_prefix tbl s) as [s'|] eqn:E; [|lia].
  apply strip_one_prefix_length in E. specialize (IH s'). lia.
Qed.

Lemma trim_space_length s : (length (trim_space s) <= length s)%nat.
Proof.
  unfold trim_space, trim_right, trim_left. rewrite rev_length.
  pose proof (trim_left_fuel_length (map (@rev byte) AL_SPACES) (length (trim_left_fuel AL_SPACES (length s) s))
    (rev (trim_left_fuel AL_SPACES (length s) s))) as H1.
  rewrite rev_length in H1. pose proof (trim_left_fuel_length AL_SPACES (length s) s). lia.
Qed.

Theorem parse_text_bounded (cef : bool) (line : bytes) (p : parsed) :
  parse_text cef line = POk p ->
  (length (p_raw p) + length AL_SPLIT_TOKEN + 2 * length (p_integ p) <= length line)%nat.
Proof.
  unfold parse_text, split_last.
  destruct (last_index AL_SPLIT_TOKEN line) as [i|] eqn:E; cbn [parse_after_split]; [|discriminate].
  apply last_index_bound in E.
  set (rest0 := skipn (i + length AL_SPLIT_TOKEN) line).
  set (rest1 := if cef then trim_space rest0 else rest0).
  assert (H1 : (length rest1 <= length rest0)%nat).
  { subst rest1. destruct cef; [apply trim_space_length| lia]. }
  assert (H0 : (length rest0 = length line - (i + length AL_SPLIT_TOKEN))%nat) by (subst rest0; apply skipn_length).
  set (rest2 := if has_suffix AL_NEW_CHAIN_SUFFIX rest1 then trim_suffix AL_NEW_CHAIN_SUFFIX rest1 else rest1).
  assert (H2 : (length rest2 <= length rest1)%nat).
  { subst rest2. destruct (has_suffix _ rest1); [unfold trim_suffix; rewrite firstn_length; lia| lia]. }
  destruct (hex_decode rest2) as [integ|] eqn:Eh; [|discriminate].
  intros [= <-]. cbn [p_raw p_integ]. apply hex_decode_length in Eh.
  rewrite firstn_length. lia.
Qed.

(** * lists of components *)
Lemma llen_nonneg {A} (l : list A) : 0 <= llen l.
Proof. unfold llen. lia. Qed.

Lemma lindex_ok (i : Z) (l : list bytes) : 0 <= i < llen l -> exists x, lindex i l = Ok x /\ In x l.
Proof.
  intros H. unfold lindex. destruct (Z.leb_spec 0 i); [|lia]. destruct (Z.ltb_spec i (llen l)); [|lia].
  cbn [andb]. eexists. split; [reflexivity|]. apply nth_In. unfold llen in *. lia.
Qed.

Lemma lslice_to_ok (b : Z) (l : list bytes) : 0 <= b <= llen l -> lslice_to b l = Ok (firstn (Z.to_nat b) l).
Proof.
  intros H. unfold lslice_to. destruct (Z.leb_spec 0 b); [|lia]. destruct (Z.leb_spec b (llen l)); [|lia]. reflexivity.
Qed.

Lemma split_byte_nonempty c p : 1 <= llen (split_byte c p).
Proof.
  unfold llen. destruct p as [|x r]; cbn [split_byte]; [cbn; lia|].
  destruct (byte_eqb x c); [cbn [length]; lia|]. destruct (split_byte c r); cbn [length]; lia.
Qed.

Lemma join_split c p : join_byte c (split_byte c p) = p.
Proof.
  induction p as [|x r IH]; [reflexivity|]. cbn [split_byte].
  destruct (byte_eqb x c) eqn:E.
  - apply byte_eqb_eq in E. subst x.
    destruct (split_byte c r) as [|h t] eqn:Es.
    + pose proof (split_byte_nonempty c r) as H. rewrite Es in H. cbn in H. lia.
    + cbn [join_byte app]. cbn [join_byte] in IH. rewrite IH. reflexivity.
  - destruct (split_byte c r) as [|h t] eqn:Es.
    + pose proof (split_byte_nonempty c r) as H. rewrite Es in H. cbn in H. lia.
    + cbn [join_byte] in *. destruct t; rewrite <- IH; reflexivity.
Qed.

Lemma join_cons_length (c : byte) (x : bytes) (r : list bytes) : (length x + length (join_byte c r) <= length (join_byte c (x :: r)))%nat.
Proof. destruct r; cbn [join_byte]; [cbn; lia|]. rewrite app_length. cbn [length]. lia. Qed.

Lemma join_firstn_le (c : byte) (cs : list bytes) : forall k, (length (join_byte c (firstn k cs)) <= length (join_byte c cs))%nat.
Proof.
  induction cs as [|x r IH]; intros k; [rewrite firstn_nil; lia|].
  destruct k as [|k]; [cbn [firstn join_byte length]; lia|].
  cbn [firstn]. specialize (IH k).
  destruct (firstn k r) as [|y t] eqn:Ef.
  - pose proof (join_cons_length c x r). change (join_byte c [x]) with x. eapply Nat.le_trans; [|exact H]. apply Nat.le_add_r.
  - destruct r as [|y' r']; [destruct k; discriminate|].
    change (join_byte c (x :: y :: t)) with (x ++ c :: join_byte c (y :: t)).
    change (join_byte c (x :: y' :: r')) with (x ++ c :: join_byte c (y' :: r')).
    rewrite !app_length. cbn [length]. lia.
Qed.

Lemma join_in_le (c : byte) (cs : list bytes) (x : bytes) : In x cs -> (length x <= length (join_byte c cs))%nat.
Proof.
  induction cs as [|y r IH]; [intros []|]. intros [->|H].
  - pose proof (join_cons_length c x r). lia.
  - pose proof (join_cons_length c y r). specialize (IH H). lia.
Qed.

Lemma split_in_le (c : byte) (p x : bytes) : In x (split_byte c p) -> (length x <= length p)%nat.
Proof. intros H. apply (join_in_le c) in H. rewrite join_split in H. exact H. Qed.

Lemma split_prefix_le c p k : (length (join_byte c (firstn k (split_byte c p))) <= length p)%nat.
Proof. pose proof (join_firstn_le c (split_byte c p) k) as H. rewrite join_split in H. exact H. Qed.

(** * DescribeKeyFile *)
Ltac idx_step :=
  match goal with
  | |- context [lindex ?i ?l] =>
      let x := fresh "x" in let Hx := fresh "Hx" in let Hin := fresh "Hin" in
      destruct (lindex_ok i l) as [x [Hx Hin]]; [lia| rewrite Hx; cbn [bind]]
  | |- context [lslice_to ?b ?l] => rewrite (lslice_to_ok b l) by lia; cbn [bind]
  end.

(** one statement for totality and the output bound of describeV1 *)
Definition desc_bounded (n : nat) (r : res desc) : Prop :=
  match r with
  | Ok (kid, cid, _) => (length kid <= n)%nat /\ (length cid <= n)%nat
  | Err _ => True
  | Panic => False
  end.

Lemma c_describe_v1_spec (name : bytes) : desc_bounded (length name) (c_describe_v1 name).
Proof.
  unfold c_describe_v1.
  repeat (match goal with |- context [if bytes_eqb name ?c then _ else _] => destruct (bytes_eqb name c) end;
          [cbn [desc_bounded length]; lia|]).
  set (comps := split_byte (sepb (lit1 0)) name).
  pose proof (split_byte_nonempty (sepb (lit1 0)) name) as Hne. fold comps in Hne.
  assert (Hin : forall x, In x comps -> (length x <= length name)%nat) by (intros x; apply split_in_le).
  assert (Hpre : forall k s, (length (join_byte s (firstn k comps)) <= length name)%nat).
  { intros k s. subst comps. destruct (byte_eqb s (sepb (lit1 0))) eqn:E.
    - apply byte_eqb_eq in E. subst s. apply split_prefix_le.
    - (* a different join separator has the same length *)
      clear -name. set (c := sepb (lit1 0)).
      assert (G : forall cs, length (join_byte s cs) = length (join_byte c cs)).
      { induction cs as [|x r IH]; [reflexivity|]. destruct r; [reflexivity|].
        change (join_byte s (x :: b :: r)) with (x ++ s :: join_byte s (b :: r)).
        change (join_byte c (x :: b :: r)) with (x ++ c :: join_byte c (b :: r)).
        rewrite !app_length. cbn [length]. rewrite IH. reflexivity. }
      rewrite G. apply split_prefix_le. }
  destruct (Z.eqb_spec (llen comps) 1) as [E1|E1].
  - rewrite c_trim_suffix_ok. cbn [bind]. idx_step. cbn [desc_bounded]. split; [|apply Hin; assumption].
    destruct (has_suffix (lit1 1) name); [unfold trim_suffix; rewrite firstn_length; lia| lia].
  - destruct (Z.ltb_spec (llen comps) 2) as [E2|E2]; [exact I|].
    do 2 idx_step.
    repeat match goal with
           | |- desc_bounded _ (if ?c then _ else _) => destruct c
           | |- desc_bounded _ (bind (lslice_to _ _) _) => idx_step
           | |- desc_bounded _ (bind (lindex _ _) _) => idx_step
           | |- desc_bounded _ (Ok _) => cbn [desc_bounded length]; split; try lia; try apply Hpre; try (apply Hin; assumption)
           | |- desc_bounded _ (Err _) => exact I
           end.
Qed.

Theorem c_describe_v1_total (name : bytes) : c_describe_v1 name <> Panic.
Proof. pose proof (c_describe_v1_spec name) as H. intros E. rewrite E in H. exact H. Qed.

(** path.Split never fails: the two halves are a split of the path *)
Lemma c_path_split_ok (p : bytes) : exists a b : bytes, c_path_split p = Ok (a, b) /\ p = a ++ b.
Proof.
  unfold c_path_split. rewrite c_last_index_ok. cbn [bind].
  assert (H : 0 <= zo (last_index [SEP] p) + 1 <= len p).
  { destruct (last_index [SEP] p) as [i|] eqn:E; cbn [zo]; [apply last_index_bound in E; cbn [length] in E; unfold len; lia| unfold len; lia]. }
  rewrite gslice_to_ok by lia. cbn [bind]. rewrite gslice_from_ok by lia. cbn [bind].
  eexists. eexists. split; [reflexivity|]. symmetry. apply firstn_skipn.
Qed.

Lemma drop_seps_length (s : bytes) : (length (drop_seps s) <= length s)%nat.
Proof. induction s as [|c r IH]; cbn [drop_seps]; [lia|]. destruct (byte_eqb c SEP); cbn [length] in *; lia. Qed.

Lemma trim_seps_length (s : bytes) : (length (trim_seps s) <= length s)%nat.
Proof.
  unfold trim_seps. rewrite rev_length.
  pose proof (drop_seps_length (rev (drop_seps s))) as H. rewrite rev_length in H.
  pose proof (drop_seps_length s). lia.
Qed.

Definition desc2_bounded (name : bytes) (r : res (option desc)) : Prop :=
  match r with
  | Ok (Some (kid, cid, _)) =>
      (length kid <= Nat.max (length name) (length (clean name)))%nat /\ (length cid <= length (clean name))%nat
  | Ok None => True
  | Err _ => True
  | Panic => False
  end.

Lemma c_describe_v2_spec (name : bytes) : desc2_bounded name (c_describe_v2 name).
Proof.
  unfold c_describe_v2. rewrite c_has_suffix_ok. cbn [bind].
  destruct (has_suffix (lit2 0) name); cbn [negb]; [|exact I].
  destruct (c_path_split_ok (clean name)) as (dr & file & E & Hsplit). rewrite E. cbn [bind].
  assert (Hd : (length dr <= length (clean name))%nat) by (rewrite Hsplit, app_length; lia).
  assert (Hf : (length file <= length (clean name))%nat) by (rewrite Hsplit, app_length; lia).
  rewrite c_trim_suffix_ok. cbn [bind].
  set (stem := if has_suffix (lit2 4) file then trim_suffix (lit2 4) file else file).
  destruct (negb (bytes_eqb dr (lit2 1)) && contains (lit2 2) dr).
  - set (splits := split_byte SEP (trim_seps dr)).
    pose proof (split_byte_nonempty SEP (trim_seps dr)) as Hne. fold splits in Hne.
    destruct (Z.eqb_spec (llen splits) 1); [exact I|].
    destruct (lindex_ok (llen splits - 1) splits) as (cid & Hc & Hin); [lia|]. rewrite Hc. cbn [bind].
    apply split_in_le in Hin. pose proof (trim_seps_length dr).
    repeat match goal with |- desc2_bounded _ (if ?c then _ else _) => destruct c end;
      cbn [desc2_bounded]; try exact I; split; lia.
  - repeat match goal with |- desc2_bounded _ (if ?c then _ else _) => destruct c end;
      cbn [desc2_bounded]; try exact I; split; cbn [length]; lia.
Qed.

Theorem c_describe_key_file_total (name : bytes) : c_describe_key_file name <> Panic.
Proof.
  unfold c_describe_key_file. pose proof (c_describe_v2_spec name) as H2.
  destruct (c_describe_v2 name) as [[d|]|e|]; cbn [bind desc2_bounded] in *; try discriminate; [|contradiction].
  apply c_describe_v1_total.
Qed.

Theorem c_describe_key_file_bounded (name kid cid pur : bytes) :
  c_describe_key_file name = Ok (kid, cid, pur) ->
  (length kid <= Nat.max (length name) (length (clean name)))%nat /\
  (length cid <= Nat.max (length name) (length (clean name)))%nat.
Proof.
  unfold c_describe_key_file. pose proof (c_describe_v2_spec name) as H2.
  destruct (c_describe_v2 name) as [[[[k c] p]|]|e|]; cbn [bind desc2_bounded] in *; try discriminate.
  - intros [= <- <- <-]. lia.
  - intros E. pose proof (c_describe_v1_spec name) as H1. rewrite E in H1. cbn [desc_bounded] in H1. lia.
Qed.

(** * getContextFromFilename *)
Definition kctx_bounded (n : nat) (r : res kctx) : Prop :=
  match r with
  | Ok (_, cid, ctx) => (length cid + length ctx <= n)%nat
  | Err _ => False
  | Panic => False
  end.

Lemma c_ctx_suffixes_spec (tbl : list (bytes * bytes)) (fname : bytes) :
  kctx_bounded (length fname) (c_ctx_suffixes tbl fname).
Proof.
  induction tbl as [|[suf purpose] t IH]; cbn [c_ctx_suffixes]; [cbn [kctx_bounded length]; lia|].
  rewrite c_has_suffix_ok. cbn [bind]. destruct (has_suffix suf fname) eqn:E; [|exact IH].
  apply has_suffix_length in E. rewrite gslice_to_ok by (unfold len; lia). cbn [bind kctx_bounded length].
  rewrite firstn_length. lia.
Qed.

Lemma c_ctx_from_base_name_spec (fname : bytes) : kctx_bounded (length fname) (c_ctx_from_base_name fname).
Proof.
  unfold c_ctx_from_base_name. rewrite c_has_suffix_ok. cbn [bind].
  destruct (has_suffix SUFFIX_OLD fname) eqn:E.
  - apply has_suffix_length in E. rewrite gslice_to_ok by (unfold len; lia). cbn [bind].
    pose proof (c_ctx_suffixes_spec CTX_TABLE (firstn (Z.to_nat (len fname - len SUFFIX_OLD)) fname)) as H.
    destruct (c_ctx_suffixes _ _) as [[[p c] x]|e|]; cbn [kctx_bounded] in *; try contradiction.
    rewrite firstn_length in H. lia.
  - cbn [bind]. apply c_ctx_suffixes_spec.
Qed.

Theorem c_ctx_from_filename_total (hist : bool) (fname : bytes) :
  exists purpose cid ctx, c_ctx_from_filename hist fname = Ok (purpose, cid, ctx).
Proof.
  unfold c_ctx_from_filename. set (f := if hist then dir fname else fname).
  destruct (bytes_eqb f PAR_V1_PoisonKeyFilename); [do 3 eexists; reflexivity|].
  destruct (bytes_eqb f PAR_V1_poisonKeyFilenameSym) eqn:E.
  - apply bytes_eqb_eq in E. rewrite E. vm_compute. do 3 eexists; reflexivity.
  - pose proof (c_ctx_from_base_name_spec (base f)) as H.
    destruct (c_ctx_from_base_name (base f)) as [[[p c] x]|e|]; cbn [kctx_bounded] in H; try contradiction.
    do 3 eexists; reflexivity.
Qed.

(** the checked code agrees with the functional classification of Model/Backup.v (C18) on every name *)
Lemma bytes_eqb_rev (a b : bytes) : bytes_eqb (rev a) (rev b) = bytes_eqb a b.
Proof.
  destruct (bytes_eqb a b) eqn:E.
  - apply bytes_eqb_eq in E. subst. apply bytes_eqb_refl.
  - apply bytes_eqb_neq. apply bytes_eqb_neq in E. intros H. apply E.
    rewrite <- (rev_involutive a), <- (rev_involutive b), H. reflexivity.
Qed.

Lemma ends_with_has_suffix (s suf : bytes) : ends_with s suf = has_suffix suf s.
Proof.
  unfold ends_with, has_suffix. rewrite starts_with_firstn, rev_length.
  destruct (Nat.leb_spec (length suf) (length s)) as [L|L].
  - rewrite firstn_rev, bytes_eqb_rev. reflexivity.
  - apply bytes_eqb_neq. intros H. apply (f_equal (@length byte)) in H.
    rewrite firstn_length, !rev_length in H. lia.
Qed.

Lemma c_ctx_suffixes_is_model (n : bytes) :
  exists p cid ctx, c_ctx_suffixes CTX_TABLE n = Ok (p, cid, ctx) /\
    cid ++ ctx =
      (if ends_with n SUFFIX_HMAC then strip_suffix n SUFFIX_HMAC
       else if ends_with n SUFFIX_SERVER then strip_suffix n SUFFIX_SERVER
       else if ends_with n SUFFIX_TRANSLATOR then strip_suffix n SUFFIX_TRANSLATOR
       else if ends_with n SUFFIX_STORAGE then strip_suffix n SUFFIX_STORAGE
       else if ends_with n (SUFFIX_STORAGE ++ SUFFIX_SYM) then strip_suffix n (SUFFIX_STORAGE ++ SUFFIX_SYM)
       else n).
Proof.
  unfold CTX_TABLE. cbn [c_ctx_suffixes]. rewrite !ends_with_has_suffix.
  repeat (rewrite c_has_suffix_ok; cbn [bind];
          match goal with |- context [if has_suffix ?s n then _ else _] => destruct (has_suffix s n) eqn:? end;
          [match goal with H : has_suffix _ n = true |- _ => apply has_suffix_length in H end;
           rewrite gslice_to_ok by (unfold len; lia); cbn [bind]; do 3 eexists; split; [reflexivity|];
           rewrite app_nil_r; unfold strip_suffix; f_equal; unfold len; lia|]).
  do 3 eexists. split; reflexivity.
Qed.

Theorem c_ctx_from_base_name_is_model (n : bytes) :
  exists p cid ctx, c_ctx_from_base_name n = Ok (p, cid, ctx) /\ cid ++ ctx = ctx_from_name n.
Proof.
  unfold c_ctx_from_base_name, ctx_from_name. cbv zeta. rewrite c_has_suffix_ok. cbn [bind].
  rewrite (ends_with_has_suffix n SUFFIX_OLD).
  destruct (has_suffix SUFFIX_OLD n) eqn:E.
  - apply has_suffix_length in E. rewrite gslice_to_ok by (unfold len; lia). cbn [bind].
    replace (firstn (Z.to_nat (len n - len SUFFIX_OLD)) n) with (strip_suffix n SUFFIX_OLD)
      by (unfold strip_suffix; f_equal; unfold len; lia).
    apply c_ctx_suffixes_is_model.
  - cbn [bind]. apply c_ctx_suffixes_is_model.
Qed.

(** * DescribeKeyRing *)
Theorem c_describe_key_ring_spec (path : bytes) : desc_bounded (length path) (c_describe_key_ring path).
Proof.
  unfold c_describe_key_ring.
  repeat (match goal with |- context [if bytes_eqb path ?c then _ else _] => destruct (bytes_eqb path c) end;
          [cbn [desc_bounded length]; lia|]).
  set (comps := split_byte SEP path).
  assert (Hin : forall x, In x comps -> (length x <= length path)%nat) by (intros x; apply split_in_le).
  destruct (Z.eqb_spec (llen comps) 3) as [E|E]; [|exact I].
  unfold PAR_V2_clientPrefixIndex, PAR_V2_purposeIndex, PAR_V2_clientIDIndex.
  do 3 idx_step.
  repeat match goal with |- desc_bounded _ (if ?c then _ else _) => destruct c end;
    cbn [desc_bounded]; try exact I; split; try lia; apply Hin; assumption.
Qed.

(** * smaller slicers *)
Theorem c_sni_or_hostname_spec (sni hostname : bytes) :
  exists r, c_sni_or_hostname sni hostname = Ok r /\ (length r <= Nat.max (length sni) (length hostname))%nat.
Proof.
  unfold c_sni_or_hostname. destruct sni as [|c s]; [|eexists; split; [reflexivity| lia]].
  rewrite c_last_index_ok. cbn [bind].
  destruct (last_index [COLON] hostname) as [i|] eqn:E; cbn [zo].
  - apply last_index_bound in E. cbn [length] in E.
    destruct (Z.eqb_spec (Z.of_nat i) (-1)); [lia|].
    rewrite gslice_to_ok by (unfold len; lia). eexists; split; [reflexivity|]. rewrite firstn_length. lia.
  - rewrite Z.eqb_refl. rewrite gslice_to_ok by (unfold len; lia). eexists; split; [reflexivity|]. rewrite firstn_length. unfold len. lia.
Qed.

Theorem c_trim_to_n_spec (q : bytes) (n : Z) : 0 <= n ->
  exists r, c_trim_to_n q n = Ok r /\ (length r <= length q)%nat /\ (len r <= Z.max n 0 \/ r = q).
Proof.
  intros Hn. unfold c_trim_to_n. destruct (Z.leb_spec (len q) n) as [L|L].
  - eexists; split; [reflexivity|]. split; [lia| right; reflexivity].
  - rewrite gslice_to_ok by lia. eexists; split; [reflexivity|]. rewrite firstn_length. unfold len. rewrite firstn_length.
    unfold len in L. lia.
Qed.

Theorem c_trim_to_n_negative_refuted : exists q n, c_trim_to_n q n = Panic.
Proof. exists [x41], (-1). reflexivity. Qed.

Theorem tls_convert_length (H : bytes -> bytes) (id : bytes) : length (tls_convert H id) = (2 * length (H id))%nat.
Proof.
  unfold tls_convert, hex_encode. induction (H id) as [|b r IH]; [reflexivity|].
  cbn [flat_map]. rewrite app_length, IH. cbn [hex_byte length]. lia.
Qed.

(** binaryType.UnmarshalJSON: total (and the output fits into the input) for every base64 decoder that honours
    the contract of encoding/base64: Decode writes at most DecodedLen(len(src)) bytes *)
Theorem c_binary_unmarshal_spec (dec : bytes -> bytes) (raw : bytes) :
  (forall src, len (dec src) <= b64_decoded_len (len src)) -> go_len raw ->
  match c_binary_unmarshal dec raw with
  | Ok (Some out) => (length out <= length raw)%nat
  | Ok None => True
  | Err _ => False
  | Panic => False
  end.
Proof.
  intros Hdec Hgo. unfold c_binary_unmarshal. unfold go_len, MAXALLOC in Hgo.
  destruct (Z.ltb_spec (len raw) 2) as [L|L]; [exact I|].
  rewrite gindex_ok by lia. cbn [bind]. rewrite gindex_ok by lia. cbn [bind].
  destruct (negb _ || negb _); [exact I|].
  destruct (Z.eqb_spec (len raw) 2); [cbn [length]; lia|].
  assert (Hsz : 0 <= b64_decoded_len (len raw - 1) <= len raw).
  { unfold b64_decoded_len. pose proof (Z.div_pos (len raw - 1) 4 ltac:(lia) ltac:(lia)).
    pose proof (Z.mul_div_le (len raw - 1) 4 ltac:(lia)). lia. }
  rewrite gmake_ok by (unfold MAXALLOC; lia). cbn [bind].
  rewrite gslice_ok by lia. cbn [bind].
  set (src := sub (Z.to_nat 1) (Z.to_nat (len raw - 1 - 1)) raw).
  assert (Hsrc : len src = len raw - 2).
  { subst src. unfold len. rewrite sub_length; unfold len in *; lia. }
  specialize (Hdec src). rewrite Hsrc in Hdec.
  assert (Hmono : b64_decoded_len (len raw - 2) <= b64_decoded_len (len raw - 1)).
  { unfold b64_decoded_len. pose proof (Z.div_le_mono (len raw - 2) (len raw - 1) 4 ltac:(lia) ltac:(lia)). lia. }
  destruct (Z.leb_spec (len (dec src)) (Z.of_nat (Z.to_nat (b64_decoded_len (len raw - 1))))) as [L2|L2]; [|lia].
  rewrite gslice_to_ok; [cbn [bind]|apply len_nonneg|].
  - rewrite firstn_length. unfold len in *. lia.
  - unfold len at 2. rewrite gcopy_length, repeat_length. lia.
Qed.

(** * log file scanner *)
Theorem scan_file_bounded (file : bytes) (ls : list bytes) :
  scan_file file = Ok ls -> ls = split_lines file /\ Forall (fun l => len l + 2 <= PAR_MAX_LOG_LINE) ls.
Proof.
  unfold scan_file. destruct (forallb _ (split_lines file)) eqn:E; [|discriminate].
  intros [= <-]. split; [reflexivity|]. apply Forall_forall. intros l Hl.
  rewrite forallb_forall in E. specialize (E l Hl). lia.
Qed.

Theorem scan_file_never_panics (file : bytes) : scan_file file <> Panic.
Proof. unfold scan_file. destruct (forallb _ _); discriminate. Qed.
