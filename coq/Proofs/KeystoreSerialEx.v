(** C17 serializability: non-vacuity of the theorems of Proofs/KeystoreSerial(Inst).v on concrete
    runs (writers racing on the creation of a ring, overlapping readers), and machine-checked
    witnesses of what serializability of LOCKED SECTIONS does not give (the key store operations
    generate-key / destroy-current are several sections and are not atomic). *)
From Acra Require Import Lib.Bytes Lib.Outcome Gen.KswConsts Model.KeystoreWrite Model.KeystoreSerial
  Proofs.KeystoreWrite Proofs.KeystoreLock Proofs.KeystoreSerial Proofs.KeystoreSerialInst Proofs.KeystoreConc.
Local Open Scope Z_scope.

(** * Writers and readers: generate-key, OpenKeyRingRW + AddKey, two readers; ring 2 exists already *)
Definition sx_hs : list xhandle' :=
  [xfresh [XHop (HGen 1 7)];
   xfresh [XHop (HOpen 1); XHop (HRing (WAdd 17))];
   xfresh [XOpenRO 1; XListKeys; XOpenRO 1];
   xfresh [XOpenRO 1]].
Definition sx_g0 : xstate' := mk_x [(FRing 2, CRing true c17_ring)] LFree sx_hs.
Fixpoint sx_rr (n : nat) : list nat :=
  match n with O => [] | S m => [0; 2; 3; 1; 2; 3; 2; 0]%nat ++ sx_rr m end.
Definition sx_sched : list nat := sx_rr 14 ++ repeat 1%nat 10.

Lemma sx_init : forall h, In h sx_hs -> xh_cur h = None.
Proof. intros h [<-|[<-|[<-|[<-|[]]]]]; reflexivity. Qed.

Definition sx_final : xstate' := Eval vm_compute in xrun xop_prog sx_g0 sx_sched.
Definition sx_order : list (nat * bool) := Eval vm_compute in xcommits xop_prog sx_g0 sx_sched.

(** the run ends with nobody holding a lock and every program finished; 11 sections were committed,
    exclusive and shared ones; the generate-key of handle 0 (three sections) is interleaved with the
    readers (which open the ring handle 0 has just created; ListKeys sees both rings with their
    current keys) *)
Example sx_run_facts :
  xrun xop_prog sx_g0 sx_sched = sx_final /\ x_lock sx_final = LFree /\
  (forall i, xstep xop_prog sx_final i = None) /\
  sx_order = [(0, true); (2, false); (3, false); (2, false); (0, true); (0, true); (2, false); (2, false);
              (2, false); (1, true); (1, true)]%nat /\
  map (fun h => rev (xh_out (xsettled xop_prog h))) (x_hs sx_final) =
    [[XZ (Ok 0)]; [XZ (Ok 0); XZ (Ok 2)];
     [XZ (Ok 0); XKeys (Ok [(1%N, 1); (2%N, 1)]); XZ (Ok 0)]; [XZ (Ok 0)]] /\
  lookup (FRing 1) (x_st sx_final) =
    Some (CRing true (mk_ring [mk_kent 1 KSW_PREACTIVE 7; mk_kent 2 KSW_PREACTIVE 17] 1)).
Proof.
  split; [vm_compute; reflexivity|]. split; [vm_compute; reflexivity|].
  split.
  - intro i. do 4 (destruct i as [|i]; [vm_compute; reflexivity|]). unfold xstep.
    replace (nth_error (x_hs sx_final) (S (S (S (S i))))) with (@None xhandle'); [reflexivity|].
    symmetry. apply nth_error_None. vm_compute. lia.
  - split; [vm_compute; reflexivity|]. split; vm_compute; reflexivity.
Qed.

(** the theorem on this run, and - independently, by computation - the serial execution itself *)
Example sx_serializable :
  xserial xop_prog sx_g0 (map fst sx_order) sx_final.
Proof.
  pose proof (xserializable_quiescent _ _ _ xop_prog xop_prog_safe [(FRing 2, CRing true c17_ring)] sx_hs sx_sched sx_init) as H.
  cbv zeta in H. change (mk_x [(FRing 2, CRing true c17_ring)] LFree sx_hs) with sx_g0 in H.
  replace (xcommits xop_prog sx_g0 sx_sched) with sx_order in H by (vm_compute; reflexivity).
  replace (xrun xop_prog sx_g0 sx_sched) with sx_final in H by (vm_compute; reflexivity).
  apply H. vm_compute. reflexivity.
Qed.

Example sx_serial_computed :
  xserial_run _ _ _ xop_prog 16 sx_g0 (map fst sx_order) = Some sx_final.
Proof. vm_compute. reflexivity. Qed.

(** the serial execution is NOT the concurrent one step by step: it is the schedule of contiguous
    blocks (a different schedule), with the same final state *)
Example sx_blocks :
  exists ns, length ns = length sx_order /\ xrun xop_prog sx_g0 (xblocks (combine (map fst sx_order) ns)) = sx_final /\
             xblocks (combine (map fst sx_order) ns) <> sx_sched.
Proof.
  exists [5; 3; 3; 3; 5; 5; 3; 3; 3; 3; 5]%nat. split; [reflexivity|]. split; [vm_compute; reflexivity|].
  vm_compute. discriminate.
Qed.

(** in the middle of the run two readers are inside their shared sections at once, later a writer is
    inside its exclusive section: [xrel] relates these states to the serial state of the sections
    committed so far *)
Example sx_midrun :
  x_lock (xrun xop_prog sx_g0 (firstn 20 sx_sched)) = LShared [3; 2]%nat /\
  x_lock (xrun xop_prog sx_g0 (firstn 26 sx_sched)) = LShared [2; 3]%nat /\
  x_lock (xrun xop_prog sx_g0 (firstn 35 sx_sched)) = LExcl 0 /\
  (forall n, exists a,
     xserial xop_prog sx_g0 (map fst (xcommits xop_prog sx_g0 (firstn n sx_sched))) a /\
     xrel xop_prog (xrun xop_prog sx_g0 (firstn n sx_sched)) a).
Proof.
  split; [vm_compute; reflexivity|]. split; [vm_compute; reflexivity|]. split; [vm_compute; reflexivity|].
  intro n. exact (xserializable _ _ _ xop_prog xop_prog_safe _ sx_hs (firstn n sx_sched) sx_init).
Qed.

(** exclusive sections commit in the order in which they took the lock *)
Example sx_lock_order :
  excl_only (xacquires xop_prog sx_g0 sx_sched) = [0; 0; 0; 1; 1]%nat /\
  excl_only sx_order = [0; 0; 0; 1; 1]%nat /\
  excl_only (xacquires xop_prog sx_g0 (firstn 35 sx_sched)) =
    excl_only (xcommits xop_prog sx_g0 (firstn 35 sx_sched)) ++ [0%nat].
Proof. vm_compute. repeat split. Qed.

(** * Two writers with the SAME (in-sync) snapshot both add a key (machine of Model/KeystoreWrite.v):
    both computed seqnum 3 outside the lock; the serial execution of the two sections gives the
    same: the second one fails its optimistic check (errTxKeyExists) - no update is lost, none is
    applied twice, but the stale writer gets an error instead of seqnum 4 *)
Definition sa_hs : list handle := [c17_writer (mk_hring 1 c17_ring []) (WAdd 7); c17_writer (mk_hring 1 c17_ring []) (WAdd 9)].
Definition sa_g0 : gstate := mk_g c17_st LFree sa_hs.
Definition sa_sched : list nat := [1; 0; 1; 0; 1; 0; 1; 1; 0; 0; 0; 0; 0]%nat.

Lemma sa_init : forall h, In h sa_hs -> hd_cur h = None.
Proof. intros h [<-|[<-|[]]]; reflexivity. Qed.

Example sa_serializable :
  let g := grun sa_g0 sa_sched in
  gcommits sa_g0 sa_sched = [(1, true); (0, true)]%nat /\
  gserial sa_g0 [1; 0]%nat g /\
  map (fun x => hd_out (settled x)) (g_hs g) = [[Err E_TX_EXISTS]; [Ok 3]] /\
  stored_ring (g_st g) 1 = Some (mk_ring [mk_kent 1 2 5; mk_kent 2 1 6; mk_kent 3 KSW_PREACTIVE 9] 1).
Proof.
  cbv zeta. split; [vm_compute; reflexivity|]. split.
  - pose proof (gserializable_quiescent c17_st sa_hs sa_sched sa_init) as H. cbv zeta in H.
    change (mk_g c17_st LFree sa_hs) with sa_g0 in H.
    replace (gcommits sa_g0 sa_sched) with [(1, true); (0, true)]%nat in H by (vm_compute; reflexivity).
    apply H. vm_compute. reflexivity.
  - split; vm_compute; reflexivity.
Qed.

(** * What is NOT guaranteed: the key store operation generate-key (OpenKeyRingRW, AddKey,
    SetCurrent) is three locked sections. Two concurrent calls on a ring that does not exist:
    handle 1 opens the ring and adds its key between the AddKey and the SetCurrent of handle 0; its
    own SetCurrent then fails the optimistic check (its snapshot says "no current key", the stored
    ring has one): the call FAILS but its key STAYS in the ring. Executed one after the other, in
    either order, both calls succeed and the later key is current: no serial order of the two
    OPERATIONS gives the concurrent outcome (the serial order of the six SECTIONS does). *)
Definition ga_g0 : gstate := mk_g [] LFree [fresh [HGen 1 7]; fresh [HGen 1 17]].
Definition ga_sched : list nat := repeat 0%nat 10 ++ repeat 1%nat 8 ++ repeat 0%nat 5 ++ repeat 1%nat 5.
Definition ga_opserial (first second : nat) : list nat := repeat first 40 ++ repeat second 40.

Theorem generate_atomic_refuted :
  exists sched,
    let g := grun ga_g0 sched in
    g_lock g = LFree /\ (forall i, gstep g i = None) /\
    (* the concurrent outcome: the second call failed, its key is in the ring, not current *)
    map (fun x => hd_out (settled x)) (g_hs g) = [[Ok 0]; [Err E_TX_CONCURRENT]] /\
    stored_ring (g_st g) 1 = Some (mk_ring [mk_kent 1 KSW_PREACTIVE 7; mk_kent 2 KSW_PREACTIVE 17] 1) /\
    (* both orders of the whole operations: everything finished, both succeed *)
    (forall a b, (a, b) = (0, 1)%nat \/ (a, b) = (1, 0)%nat ->
       let s := grun ga_g0 (ga_opserial a b) in
       (forall i, gstep s i = None) /\
       map (fun x => hd_out (settled x)) (g_hs s) = [[Ok 0]; [Ok 0]] /\ g_st s <> g_st g) /\
    (* and yet the run is the serial execution of its six sections *)
    gserial ga_g0 [0; 0; 1; 1; 0; 1]%nat g.
Proof.
  exists ga_sched. cbv zeta.
  split; [vm_compute; reflexivity|].
  split; [apply (succs_terminal 2); vm_compute; reflexivity|].
  split; [vm_compute; reflexivity|]. split; [vm_compute; reflexivity|].
  split.
  - intros a b [E|E]; inversion E; subst a b.
    + split; [apply (succs_terminal 2); vm_compute; reflexivity|]. split; [vm_compute; reflexivity|].
      vm_compute. discriminate.
    + split; [apply (succs_terminal 2); vm_compute; reflexivity|]. split; [vm_compute; reflexivity|].
      vm_compute. discriminate.
  - assert (Hinit : forall h, In h [fresh [HGen 1 7]; fresh [HGen 1 17]] -> hd_cur h = None).
    { intros h [<-|[<-|[]]]; reflexivity. }
    pose proof (gserializable_quiescent [] _ ga_sched Hinit) as H. cbv zeta in H.
    change (mk_g [] LFree [fresh [HGen 1 7]; fresh [HGen 1 17]]) with ga_g0 in H.
    replace (gcommits ga_g0 ga_sched) with [(0, true); (0, true); (1, true); (1, true); (0, true); (1, true)]%nat in H
      by (vm_compute; reflexivity).
    apply H. vm_compute. reflexivity.
Qed.
