(** The write path of the statement analysis against the specification: the literals handed to the encryptor
    and the placeholders registered by OnQuery, the parameters encrypted by OnBind, are exactly the value
    positions the specification assigns to configured columns (for the literal types the implementation
    handles; the gap to the specification is characterised separately). *)
From Coq Require Import String.
From Coq Require Import List Bool NArith ZArith Arith Lia.
From Acra Require Import Lib.Bytes Lib.Outcome Model.RunColumnResolve Proofs.CensorTree Proofs.ColumnResolveBase.
Import ListNotations.
Local Open Scope nat_scope.

(** * list plumbing *)

Lemma mapi_from_ext {A B} (f g : nat -> A -> B) l : forall i,
  (forall j x, In x l -> f j x = g j x) -> mapi_from i f l = mapi_from i g l.
Proof.
  induction l as [|x l IH]; intros i H; cbn [mapi_from]; [reflexivity|].
  rewrite (H i x (or_introl eq_refl)), (IH (S i)); [reflexivity|]. intros j y Hy. apply H. right; exact Hy.
Qed.

Lemma map_mapi_from {A B C} (g : B -> C) (f : nat -> A -> B) l : forall i,
  map g (mapi_from i f l) = mapi_from i (fun j x => g (f j x)) l.
Proof. induction l as [|x l IH]; intro i; cbn [mapi_from map]; [reflexivity|]. rewrite IH. reflexivity. Qed.

Lemma in_mapi_from {A B} (f : nat -> A -> B) l : forall i y,
  In y (mapi_from i f l) -> exists j x, In x l /\ y = f j x.
Proof.
  induction l as [|x l IH]; intros i y H; cbn [mapi_from] in H; [destruct H|].
  destruct H as [<-|H].
  - exists i, x. split; [left; reflexivity|reflexivity].
  - destruct (IH _ _ H) as [j [x' [Hx Hy]]]. exists j, x'. split; [right; exact Hx|exact Hy].
Qed.

Lemma in_mapi {A B} (f : nat -> A -> B) l y : In y (mapi f l) -> exists j x, In x l /\ y = f j x.
Proof. apply in_mapi_from. Qed.

Lemma flat_map_concat_map {A B} (f : A -> list B) l : flat_map f l = concat (map f l).
Proof. induction l; cbn; [reflexivity|]. rewrite IHl. reflexivity. Qed.

Lemma concat_concat_map {A} (l : list (list (list A))) : concat (concat l) = concat (map (@concat A) l).
Proof. induction l as [|x l IH]; cbn; [reflexivity|]. rewrite concat_app, IH. reflexivity. Qed.

Lemma lits_of_app a b : lits_of (a ++ b) = lits_of a ++ lits_of b.
Proof. unfold lits_of. apply flat_map_app. Qed.

Lemma lits_of_concat l : lits_of (concat l) = concat (map lits_of l).
Proof. induction l as [|x l IH]; cbn [concat map]; [reflexivity|]. rewrite lits_of_app, IH. reflexivity. Qed.

(** the placeholder events in order *)
Definition phs_of (evs : list sel) : list (Z * N) :=
  flat_map (fun e => match e with SBind i s => [(i, s)] | SLit _ _ => [] end) evs.

Lemma phs_of_app a b : phs_of (a ++ b) = phs_of a ++ phs_of b.
Proof. unfold phs_of. apply flat_map_app. Qed.

Lemma phs_of_concat l : phs_of (concat l) = concat (map phs_of l).
Proof. induction l as [|x l IH]; cbn [concat map]; [reflexivity|]. rewrite phs_of_app, IH. reflexivity. Qed.

(** * literal types *)

Definition enc_type (ty : N) : bool := uev_type ty && coder_type ty.

Lemma coder_type_not_ph ty : coder_type ty = true -> ph_prefix ty = None.
Proof.
  unfold coder_type. rewrite !orb_true_iff, !N.eqb_eq.
  intros [[[[H|H]|H]|H]|H]; subst ty; reflexivity.
Qed.

Lemma enc_type_literal ty : enc_type ty = true -> literal_type ty = true.
Proof.
  unfold enc_type, coder_type. rewrite andb_true_iff, !orb_true_iff, !N.eqb_eq.
  intros [_ [[[[H|H]|H]|H]|H]]; subst ty; reflexivity.
Qed.

Lemma literal_type_gap ty :
  literal_type ty = true -> enc_type ty = false -> ty = VT_FloatVal \/ ty = VT_PgEscapeString.
Proof.
  unfold literal_type. rewrite !orb_true_iff, !N.eqb_eq.
  intros [[[[[[H|H]|H]|H]|H]|H]|H] E; subst ty; try (vm_compute in E; discriminate); auto.
Qed.

Section W.
Variable d : dialect.
Variable cfg : rcfg.

Lemma enc_literal_direct e :
  uev e tt = match direct_value_gen enc_type e with Some (p, VLit) => Some p | _ => None end.
Proof.
  rewrite uev_unwrap. unfold direct_value_gen, enc_literal.
  destruct (unwrap e tt) as [p v]. cbn [fst snd].
  destruct (isk K_SQLVal v); cbn [andb]; [|reflexivity].
  fold (enc_type (sv_type v)). destruct (enc_type (sv_type v)) eqn:E; cbn [andb].
  - unfold ph_index. apply andb_true_iff in E. destruct E as [_ Ec]. rewrite (coder_type_not_ph _ Ec).
    destruct (empty (sv_val v)); reflexivity.
  - destruct (ph_index v); reflexivity.
Qed.

(** the events of encryptExpression at one value position *)
Lemma lits_enc_expr pp e s col tc :
  setting_id cfg tc = col_setting s col ->
  lits_of (enc_expr pp e s col) = lit_of cfg enc_type (pp, e, tc).
Proof.
  intro Hs. unfold enc_expr, lit_of. rewrite Hs. destruct (col_setting s col) as [sid|]; [|reflexivity].
  rewrite lits_of_app, enc_literal_direct.
  assert (H1 : lits_of (if isk K_SQLVal (snd (unwrap e tt))
                        then match ph_index (snd (unwrap e tt)) with Some i => [SBind i sid] | None => [] end else []) = []).
  { destruct (isk _ _); [|reflexivity]. destruct (ph_index _); reflexivity. }
  rewrite H1. cbn [app].
  destruct (direct_value_gen enc_type e) as [[rp [|i]]|]; reflexivity.
Qed.

Lemma phs_enc_expr pp e s col tc :
  setting_id cfg tc = col_setting s col ->
  phs_of (enc_expr pp e s col) = ph_of cfg (pp, e, tc).
Proof.
  intro Hs. unfold enc_expr, ph_of. rewrite Hs. destruct (col_setting s col) as [sid|]; [|reflexivity].
  rewrite phs_of_app.
  assert (H2 : phs_of (match uev e tt with Some p => [SLit (pp ++ p) sid] | None => [] end) = []).
  { destruct (uev e tt); reflexivity. }
  rewrite H2, app_nil_r. unfold direct_value, direct_value_gen.
  destruct (unwrap e tt) as [p v]. cbn [snd].
  destruct (isk K_SQLVal v); [|reflexivity].
  destruct (ph_index v); [reflexivity|]. destruct (literal_type _ && _); reflexivity.
Qed.

(** * settings *)

Lemma setting_id_schema tbl c s : get_schema cfg tbl = Some s -> setting_id cfg (Some (tbl, c)) = col_setting s c.
Proof. intro H. unfold setting_id, setting_of. rewrite H. destruct (col_setting s c); reflexivity. Qed.

Lemma setting_id_no_schema tbl c : get_schema cfg tbl = None -> setting_id cfg (Some (tbl, c)) = None.
Proof. intro H. unfold setting_id, setting_of. rewrite H. reflexivity. Qed.

Lemma not_knows_no_setting s c : knows_col s c = false -> col_setting s c = None.
Proof. unfold knows_col. destruct (col_setting s c); [discriminate|reflexivity]. Qed.

Lemma vfc_tab_empty t : empty (vfc_tab d t) = ti_empty t.
Proof.
  unfold vfc_tab, ti_empty, ti_lowered.
  assert (L : forall v, empty (lower v) = empty v) by (intros [|? ?]; reflexivity).
  destruct d as [[|]|].
  - reflexivity.
  - destruct (empty (ti_v t)) eqn:E; [reflexivity|].
    destruct (empty (tlab (fld "lowered" t))) eqn:E2; [rewrite L; exact E|exact E2].
  - destruct (ti_quoted t); [reflexivity|].
    destruct (empty (ti_v t)) eqn:E; [reflexivity|].
    destruct (empty (tlab (fld "lowered" t))) eqn:E2; [rewrite L; exact E|exact E2].
Qed.

(** * tables of a statement: GetTablesWithAliases against the scope of the specification *)

Lemma base_entries_app a b : base_entries (a ++ b) = base_entries a ++ base_entries b.
Proof. unfold base_entries. apply flat_map_app. Qed.

Lemma alias_map_app a b : alias_map d (a ++ b) = alias_map d a ++ alias_map d b.
Proof. unfold alias_map. apply map_app. Qed.

Lemma tables_of_at cs i :
  nth i (map tables_of cs) (fun _ => Ok []) tt = tables_of (nth i cs tnil) tt.
Proof. change (fun _ : unit => @Ok (list (tree * tree)) []) with (tables_of tnil). rewrite nth_map_default. reflexivity. Qed.

Lemma scope_of_at cs i :
  nth i (map (scope_of d) cs) (fun _ => []) tt = scope_of d (nth i cs tnil) tt.
Proof. change (fun _ : unit => @nil entry) with (scope_of d tnil). rewrite nth_map_default. reflexivity. Qed.

Lemma tables_scope_nil : forall tabs,
  tables_of tnil tt = Ok tabs -> base_entries (scope_of d tnil tt) = alias_map d tabs.
Proof. intros tabs H. cbn in H. inversion H. reflexivity. Qed.

Lemma tables_scope : forall t tabs,
  tables_of t tt = Ok tabs -> base_entries (scope_of d t tt) = alias_map d tabs.
Proof.
  induction t as [k l cs IH] using tree_ind'. intros tabs.
  destruct k; try (cbn [tables_of scope_of]; intro H; inversion H; reflexivity).
  - (* AliasedTableExpr *)
    cbn [tables_of scope_of].
    destruct (is_nil (nth (fnum K_AliasedTableExpr "Expr") cs tnil)); [discriminate|].
    destruct (isk K_TableName (nth (fnum K_AliasedTableExpr "Expr") cs tnil)).
    + intro H; inversion H; subst. reflexivity.
    + intro H; inversion H; subst.
      destruct (isk K_Subquery _); reflexivity.
  - (* JoinTableExpr *)
    cbn [tables_of scope_of]. rewrite !tables_of_at, !scope_of_at.
    pose proof (Forall_nth_tnil _ cs (fnum K_JoinTableExpr "LeftExpr") tables_scope_nil IH) as HL.
    pose proof (Forall_nth_tnil _ cs (fnum K_JoinTableExpr "RightExpr") tables_scope_nil IH) as HR.
    cbv beta in HL, HR.
    destruct (tables_of (nth (fnum K_JoinTableExpr "LeftExpr") cs tnil) tt) as [lt| |]; cbn [bind]; try discriminate.
    destruct (tables_of (nth (fnum K_JoinTableExpr "RightExpr") cs tnil) tt) as [rt| |]; cbn [bind]; try discriminate.
    intro H; inversion H; subst.
    rewrite base_entries_app, alias_map_app, (HL lt eq_refl), (HR rt eq_refl). reflexivity.
  - (* ParenTableExpr *)
    cbn [tables_of scope_of]. rewrite tables_of_at, scope_of_at.
    apply (Forall_nth_tnil _ cs (fnum K_ParenTableExpr "Exprs") tables_scope_nil IH).
  - (* TableExprs *)
    cbn [tables_of scope_of]. revert tabs.
    induction IH as [|c cs Hc _ IHcs]; intros tabs; cbn [map fold_right flat_map].
    + intro H; inversion H; reflexivity.
    + cbv beta in Hc. destruct (tables_of c tt) as [lt| |]; cbn [bind]; try discriminate.
      destruct (fold_right _ _ (map tables_of cs)) as [rt| |] eqn:Er; cbn [bind]; try discriminate.
      intro H; inversion H; subst.
      rewrite base_entries_app, alias_map_app, (Hc lt eq_refl), (IHcs rt eq_refl). reflexivity.
Qed.

Lemma tables_scope_list : forall ts tabs,
  tables_of_list ts = Ok tabs -> base_entries (scope_of_list d ts) = alias_map d tabs.
Proof.
  induction ts as [|t ts IH]; intros tabs; cbn [tables_of_list scope_of_list flat_map].
  - intro H; inversion H; reflexivity.
  - destruct (tables_of t tt) as [lt| |] eqn:Et; cbn [bind]; try discriminate.
    destruct (tables_of_list ts) as [rt| |]; cbn [bind]; try discriminate.
    intro H; inversion H; subst.
    rewrite base_entries_app, alias_map_app, (tables_scope t lt Et). unfold scope_of_list in IH. rewrite (IH rt eq_refl). reflexivity.
Qed.

(** * the target of an assignment *)

Definition knowsb (col : bytes) (b : bytes * bytes) : bool := knows cfg (snd b) col.

Lemma first_knowing_filter upd col :
  first_knowing d cfg upd col =
  match filter (knowsb col) (alias_map d upd) with b :: _ => get_schema cfg (snd b) | [] => None end.
Proof.
  induction upd as [|ta upd IH]; [reflexivity|].
  unfold alias_map. cbn [first_knowing map filter]. fold (alias_map d upd).
  unfold knowsb at 1. cbn [snd]. unfold knows, tab_schema.
  destruct (get_schema cfg (vfc_tab d (tn_name (fst ta)))) as [s|] eqn:E.
  - destruct (knows_col s col); [cbn [snd]; rewrite E; reflexivity | exact IH].
  - exact IH.
Qed.

Lemma upd_target_spec name upd fr usc sc r :
  upd_target d cfg name upd (upd ++ fr) = Ok r ->
  upd <> [] ->
  base_entries usc = alias_map d upd ->
  base_entries sc = alias_map d (upd ++ fr) ->
  NoDup (map fst (alias_map d (upd ++ fr))) ->
  length (filter (knowsb (ref_col d name)) (alias_map d upd)) <= 1 ->
  snd r = ref_col d name /\
  match fst r with Some s => col_setting s (snd r) | None => None end = setting_id cfg (target d cfg usc sc name).
Proof.
  intros H Hne Hu Hs Hnd Hamb. unfold upd_target in H.
  destruct (is_nil name); [discriminate|].
  unfold target. fold (ref_col d name). unfold ref_qual. rewrite vfc_tab_empty. fold (tn_empty (fld "Qualifier" name)).
  destruct (tn_empty (fld "Qualifier" name)) eqn:Eq; cbn [negb] in H.
  - (* no qualifier *)
    rewrite Hu. fold (knowsb (ref_col d name)).
    rewrite first_knowing_filter in H. fold (ref_col d name) in H.
    destruct (filter (knowsb (ref_col d name)) (alias_map d upd)) as [|b [|b2 rest]] eqn:Ef.
    + (* nobody knows the column: the first table, whose config has no setting for it *)
      destruct upd as [|ta upd']; [contradiction|]. cbn [app] in H. inversion H; subst r. cbn [fst snd]. split; [reflexivity|].
      unfold tab_schema. destruct (get_schema cfg (vfc_tab d (tn_name (fst ta)))) as [s|] eqn:E; [|reflexivity].
      apply not_knows_no_setting.
      assert (Hin : In (if ti_empty (snd ta) then vfc_tab d (tn_name (fst ta)) else vfc_tab d (snd ta), vfc_tab d (tn_name (fst ta))) (alias_map d (ta :: upd')))
        by (left; reflexivity).
      destruct (knows_col s (ref_col d name)) eqn:Ek; [|reflexivity]. exfalso.
      assert (Hf : In (if ti_empty (snd ta) then vfc_tab d (tn_name (fst ta)) else vfc_tab d (snd ta), vfc_tab d (tn_name (fst ta)))
                      (filter (knowsb (ref_col d name)) (alias_map d (ta :: upd')))).
      { apply filter_In. split; [exact Hin|]. unfold knowsb, knows. cbn [snd]. rewrite E. exact Ek. }
      rewrite Ef in Hf. exact Hf.
    + (* exactly one table knows it *)
      assert (Hb : In b (filter (knowsb (ref_col d name)) (alias_map d upd))) by (rewrite Ef; left; reflexivity).
      apply filter_In in Hb. destruct Hb as [_ Hk]. unfold knowsb, knows in Hk.
      destruct (get_schema cfg (snd b)) as [s|] eqn:E; [|discriminate].
      inversion H; subst r. cbn [fst snd]. split; [reflexivity|].
      symmetry. apply setting_id_schema. exact E.
    + cbn [length] in Hamb. lia.
  - (* qualified *)
    inversion H; subst r. cbn [fst snd]. split; [reflexivity|].
    rewrite Hs. rewrite (lookup_last_find _ _ Hnd).
    destruct (find (fun e => bytes_eqb (fst e) (vfc_tab d (tn_name (fld "Qualifier" name)))) (alias_map d (upd ++ fr))) as [e|]; cbn [option_map].
    + destruct (get_schema cfg (snd e)) as [s|] eqn:E.
      * symmetry. apply setting_id_schema. exact E.
      * symmetry. apply setting_id_no_schema. exact E.
    + reflexivity.
Qed.

(** * assignments: SET / ON DUPLICATE KEY UPDATE *)

Definition apos (pp : list nat) (usc sc : scope) (k : nat) (e : tree) : vpos :=
  (pp ++ [k; fnum K_UpdateExpr "Expr"], fld "Expr" e, target d cfg usc sc (fld "Name" e)).

Lemma lit_of_no_setting lt p e tc : setting_id cfg tc = None -> lit_of cfg lt (p, e, tc) = [].
Proof. intro H. unfold lit_of. rewrite H. reflexivity. Qed.

Lemma ph_of_no_setting p e tc : setting_id cfg tc = None -> ph_of cfg (p, e, tc) = [].
Proof. intro H. unfold ph_of. rewrite H. reflexivity. Qed.

Lemma upd_exprs_spec pp upd fr usc sc : forall es k evs,
  upd_exprs d cfg pp k es upd (upd ++ fr) = Ok evs ->
  upd <> [] ->
  base_entries usc = alias_map d upd ->
  base_entries sc = alias_map d (upd ++ fr) ->
  NoDup (map fst (alias_map d (upd ++ fr))) ->
  (forall e, In e es -> length (filter (knowsb (ref_col d (fld "Name" e))) (alias_map d upd)) <= 1) ->
  lits_of evs = flat_map (lit_of cfg enc_type) (mapi_from k (apos pp usc sc) es) /\
  phs_of evs = flat_map (ph_of cfg) (mapi_from k (apos pp usc sc) es).
Proof.
  induction es as [|e es IH]; intros k evs H Hne Hu Hs Hnd Hamb.
  - cbn in H. inversion H. split; reflexivity.
  - cbn [upd_exprs] in H. destruct (is_nil e); [discriminate|].
    destruct (upd_target d cfg (fld "Name" e) upd (upd ++ fr)) as [tg| |] eqn:Et; cbn [bind] in H; try discriminate.
    destruct (upd_exprs d cfg pp (S k) es upd (upd ++ fr)) as [rest| |] eqn:Er; cbn [bind] in H; try discriminate.
    inversion H; subst evs. clear H.
    destruct (upd_target_spec _ _ _ usc sc _ Et Hne Hu Hs Hnd (Hamb e (or_introl eq_refl))) as [Hc Hset].
    destruct (IH (S k) rest Er Hne Hu Hs Hnd (fun e' He' => Hamb e' (or_intror He'))) as [IHl IHp].
    cbn [mapi_from flat_map]. rewrite lits_of_app, phs_of_app, IHl, IHp.
    unfold apos.
    destruct (fst tg) as [s|].
    + rewrite (lits_enc_expr _ _ _ _ (target d cfg usc sc (fld "Name" e)) (eq_sym Hset)).
      rewrite (phs_enc_expr _ _ _ _ (target d cfg usc sc (fld "Name" e)) (eq_sym Hset)). split; reflexivity.
    + rewrite (lit_of_no_setting _ _ _ _ (eq_sym Hset)), (ph_of_no_setting _ _ _ (eq_sym Hset)). split; reflexivity.
Qed.

(** * INSERT *)

Lemma insert_cols_spec t s :
  get_schema cfg (vfc_tab d (tn_name (fld "Table" t))) = Some s ->
  insert_cols d t s =
  (if nonempty (tkids (fld "Columns" t)) then map (vfc_col d) (tkids (fld "Columns" t))
   else match base_cols cfg (vfc_tab d (tn_name (fld "Table" t))) with Some l => l | None => [] end).
Proof.
  intro H. unfold insert_cols, base_cols. rewrite H.
  destruct (nonempty (tkids (fld "Columns" t))); [reflexivity|].
  destruct (rt_cols s); reflexivity.
Qed.

(** one VALUES position *)
Lemma value_pos_spec s tbl cols fr i j v :
  get_schema cfg tbl = Some s ->
  lits_of (match nth_error cols j with Some c => enc_expr [fr; i; j] v s c | None => [] end)
  = lit_of cfg enc_type ([fr; i; j], v, option_map (fun c => (tbl, c)) (nth_error cols j)) /\
  phs_of (match nth_error cols j with Some c => enc_expr [fr; i; j] v s c | None => [] end)
  = ph_of cfg ([fr; i; j], v, option_map (fun c => (tbl, c)) (nth_error cols j)).
Proof.
  intro H. destruct (nth_error cols j) as [c|]; cbn [option_map].
  - split; [apply lits_enc_expr | apply phs_enc_expr]; apply setting_id_schema; exact H.
  - split; reflexivity.
Qed.

Lemma values_spec s tbl cols fr rows :
  get_schema cfg tbl = Some s -> forall i0,
  let impl := concat (mapi_from i0 (fun i tup => concat (mapi (fun j v =>
                match nth_error cols j with Some c => enc_expr [fr; i; j] v s c | None => [] end) (tkids tup))) rows) in
  let spec := concat (mapi_from i0 (fun i tup => mapi (fun j v => ([fr; i; j], v, option_map (fun c => (tbl, c)) (nth_error cols j))) (tkids tup)) rows) in
  lits_of impl = flat_map (lit_of cfg enc_type) spec /\ phs_of impl = flat_map (ph_of cfg) spec.
Proof.
  intros H.
  induction rows as [|tup rows IH]; intro i0; cbn [mapi_from concat]; [split; reflexivity|].
  destruct (IH (S i0)) as [IHl IHp]. cbv zeta in IHl, IHp.
  rewrite lits_of_app, phs_of_app, !flat_map_app, IHl, IHp.
  assert (Hrow : forall vs j0,
    lits_of (concat (mapi_from j0 (fun j v => match nth_error cols j with Some c => enc_expr [fr; i0; j] v s c | None => [] end) vs))
    = flat_map (lit_of cfg enc_type) (mapi_from j0 (fun j v => ([fr; i0; j], v, option_map (fun c => (tbl, c)) (nth_error cols j))) vs) /\
    phs_of (concat (mapi_from j0 (fun j v => match nth_error cols j with Some c => enc_expr [fr; i0; j] v s c | None => [] end) vs))
    = flat_map (ph_of cfg) (mapi_from j0 (fun j v => ([fr; i0; j], v, option_map (fun c => (tbl, c)) (nth_error cols j))) vs)).
  { induction vs as [|v vs IHv]; intro j0; cbn [mapi_from concat flat_map]; [split; reflexivity|].
    destruct (IHv (S j0)) as [A B]. destruct (value_pos_spec s tbl cols fr i0 j0 v H) as [C D].
    rewrite lits_of_app, phs_of_app, A, B, C, D. split; reflexivity. }
  unfold mapi. destruct (Hrow (tkids tup) 0) as [A B]. rewrite A, B. split; reflexivity.
Qed.

Lemma all_unset_nil lt (l : list vpos) :
  Forall (fun vp => setting_id cfg (snd vp) = None) l ->
  flat_map (lit_of cfg lt) l = [] /\ flat_map (ph_of cfg) l = [].
Proof.
  induction 1 as [|[[p e] tc] l Hx _ [IHl IHp]]; [split; reflexivity|].
  cbn [flat_map snd] in *. rewrite IHl, IHp, (lit_of_no_setting _ _ _ _ Hx), (ph_of_no_setting _ _ _ Hx). split; reflexivity.
Qed.

Lemma alias_map_single table :
  alias_map d [(table, tnil)] = [(vfc_tab d (tn_name table), vfc_tab d (tn_name table))].
Proof. reflexivity. Qed.

Theorem impl_insert_spec t evs :
  impl_insert d cfg t = Ok evs ->
  lits_of evs = flat_map (lit_of cfg enc_type) (insert_positions d cfg false t) /\
  phs_of evs = flat_map (ph_of cfg) (insert_positions d cfg false t).
Proof.
  unfold impl_insert, insert_positions, tab_schema.
  set (table := fld "Table" t). set (tbl := vfc_tab d (tn_name table)).
  set (od := tkids (fld "OnDup" t)). set (rows := fld "Rows" t). set (fr := fnum K_Insert "Rows").
  cbn [andb].
  assert (Hod : (if nonempty od then upd_exprs d cfg [fnum K_Insert "OnDup"] 0 od [(table, tnil)] [(table, tnil)] else Ok [])
                = upd_exprs d cfg [fnum K_Insert "OnDup"] 0 od [(table, tnil)] ([(table, tnil)] ++ [])) by (destruct od; reflexivity).
  destruct (get_schema cfg tbl) as [s|] eqn:Es.
  - rewrite Hod. intro H.
    destruct (upd_exprs d cfg [fnum K_Insert "OnDup"] 0 od [(table, tnil)] ([(table, tnil)] ++ [])) as [dup| |] eqn:Ed;
      cbn [bind] in H; try discriminate.
    inversion H; subst evs. clear H.
    assert (Hdup : lits_of dup = flat_map (lit_of cfg enc_type) (assign_positions d cfg [fnum K_Insert "OnDup"] od [(tbl, SBase tbl)] [(tbl, SBase tbl)]) /\
                   phs_of dup = flat_map (ph_of cfg) (assign_positions d cfg [fnum K_Insert "OnDup"] od [(tbl, SBase tbl)] [(tbl, SBase tbl)])).
    { apply (upd_exprs_spec _ _ _ [(tbl, SBase tbl)] [(tbl, SBase tbl)] _ _ _ Ed).
      - discriminate.
      - reflexivity.
      - reflexivity.
      - cbn [app]. rewrite alias_map_single. cbn [map fst]. constructor; [intros []|constructor].
      - intros e _. rewrite alias_map_single. cbn [filter]. destruct (knowsb _ _); cbn [length]; lia. }
    destruct Hdup as [Dl Dp].
    rewrite lits_of_app, phs_of_app, !flat_map_app, Dl, Dp.
    pose proof (insert_cols_spec t s Es) as Hcols. fold table in Hcols. fold tbl in Hcols.
    rewrite <- Hcols. clear Hcols. set (cols := insert_cols d t s).
    destruct (isk K_Values rows).
    + destruct (values_spec s tbl cols fr (tkids rows) Es 0) as [Vl Vp]. cbv zeta in Vl, Vp. fold (@mapi tree) in Vl, Vp.
      destruct cols as [|c0 cols'] eqn:Ec; cbn [nonempty].
      * (* no column known: no position has a column *)
        match goal with |- _ = flat_map (lit_of cfg enc_type) ?L ++ _ /\ _ =>
          assert (Hnone : Forall (fun vp : vpos => setting_id cfg (snd vp) = None) L) end.
        { apply Forall_forall. intros vp Hin. apply in_concat in Hin. destruct Hin as [row [Hrow Hvp]].
          apply in_mapi in Hrow. destruct Hrow as [i [tup [_ ->]]].
          apply in_mapi in Hvp. destruct Hvp as [j [v [_ ->]]]. cbn [snd]. destruct j; reflexivity. }
        destruct (all_unset_nil enc_type _ Hnone) as [Nl Np]. unfold vpos in *. rewrite Nl, Np. split; reflexivity.
      * unfold mapi in *. cbn [andb]. rewrite Vl, Vp. split; reflexivity.
    + destruct (nonempty cols); split; reflexivity.
  - (* no schema: nothing is selected, and no position has a configured column *)
    intro H. inversion H; subst evs. clear H Hod.
    match goal with |- _ = flat_map (lit_of cfg enc_type) ?L /\ _ =>
      assert (Hnone : Forall (fun vp : vpos => setting_id cfg (snd vp) = None) L) end.
    { apply Forall_forall. intros vp Hin. apply in_app_or in Hin. destruct Hin as [Hin|Hin].
      - destruct (isk K_Values rows); [|destruct Hin].
        apply in_concat in Hin. destruct Hin as [row [Hrow Hvp]].
        apply in_mapi in Hrow. destruct Hrow as [i [tup [_ ->]]].
        apply in_mapi in Hvp. destruct Hvp as [j [v [_ ->]]]. cbn [snd].
        destruct (nth_error _ j); cbn [option_map]; [apply setting_id_no_schema; exact Es|reflexivity].
      - unfold assign_positions in Hin. apply in_mapi in Hin. destruct Hin as [k [e [_ ->]]]. cbn [snd].
        unfold target. cbn [base_entries flat_map snd fst app filter find].
        destruct (empty (ref_qual d (fld "Name" e))).
        + destruct (knows cfg tbl (ref_col d (fld "Name" e))); [apply setting_id_no_schema; exact Es|reflexivity].
        + destruct (bytes_eqb tbl (ref_qual d (fld "Name" e))); [apply setting_id_no_schema; exact Es|reflexivity]. }
    destruct (all_unset_nil enc_type _ Hnone) as [Nl Np]. unfold vpos in *. rewrite Nl, Np. split; reflexivity.
Qed.

(** * UPDATE *)

(** what a statement the database accepts satisfies: some plain table is updated, the tables of the statement are
    visible under distinct names, an unqualified SET target is a column of one updated table only *)
Definition update_regular (t : tree) : Prop :=
  let upd := scope_of_list d (tkids (fld "TableExprs" t)) in
  let sc := scope_of_list d (tkids (fld "TableExprs" t) ++ tkids (fld "From" t)) in
  base_entries upd <> [] /\
  NoDup (map fst (base_entries sc)) /\
  forall e, In e (tkids (fld "Exprs" t)) ->
    length (filter (fun b => knows cfg (snd b) (ref_col d (fld "Name" e))) (base_entries upd)) <= 1.

Lemma scope_of_list_app a b : scope_of_list d (a ++ b) = scope_of_list d a ++ scope_of_list d b.
Proof. unfold scope_of_list. apply flat_map_app. Qed.

Lemma no_tables_no_schema tabs :
  has_tables d cfg tabs = false -> forall b, In b (alias_map d tabs) -> get_schema cfg (snd b) = None.
Proof.
  induction tabs as [|ta tabs IH]; intros H b Hb; [destruct Hb|].
  cbn [has_tables existsb] in H. apply orb_false_iff in H. destruct H as [H1 H2].
  destruct Hb as [<-|Hb]; [|exact (IH H2 b Hb)].
  cbn [snd]. unfold tab_schema in H1. destruct (get_schema cfg (vfc_tab d (tn_name (fst ta)))); [discriminate|reflexivity].
Qed.

Theorem impl_update_spec t evs :
  impl_update d cfg t = Ok evs -> update_regular t ->
  lits_of evs = flat_map (lit_of cfg enc_type) (update_positions d cfg t) /\
  phs_of evs = flat_map (ph_of cfg) (update_positions d cfg t).
Proof.
  unfold impl_update, update_regular, update_positions.
  set (te := tkids (fld "TableExprs" t)). set (from := tkids (fld "From" t)). set (es := tkids (fld "Exprs" t)).
  intros H [Hne [Hnd Hamb]].
  destruct (nonempty te) eqn:Ete; cbn [negb] in H.
  2:{ exfalso. apply Hne. destruct te; [reflexivity|discriminate]. }
  destruct (tables_of_list te) as [upd| |] eqn:Eu; cbn [bind] in H; try discriminate.
  pose proof (tables_scope_list te upd Eu) as Hu.
  destruct (tables_of_list from) as [fr| |] eqn:Ef; cbn [bind] in H; try discriminate.
  pose proof (tables_scope_list from fr Ef) as Hf.
  assert (Hs : base_entries (scope_of_list d (te ++ from)) = alias_map d (upd ++ fr)).
  { rewrite scope_of_list_app, base_entries_app, alias_map_app, Hu, Hf. reflexivity. }
  assert (Hupd : upd <> []). { intro E. subst upd. apply Hne. rewrite Hu. reflexivity. }
  rewrite Hs in Hnd. rewrite Hu in Hamb.
  destruct (has_tables d cfg (upd ++ fr)) eqn:Eh; cbn [negb] in H.
  - destruct (nonempty upd) eqn:En; cbn [negb] in H; [|destruct upd; [contradiction|discriminate]].
    unfold assign_positions, mapi.
    exact (upd_exprs_spec _ _ _ (scope_of_list d te) (scope_of_list d (te ++ from)) _ _ _ H Hupd Hu Hs Hnd Hamb).
  - inversion H; subst evs.
    match goal with |- _ = flat_map (lit_of cfg enc_type) ?L /\ _ =>
      assert (Hnone : Forall (fun vp : vpos => setting_id cfg (snd vp) = None) L) end.
    { apply Forall_forall. intros vp Hin. unfold assign_positions in Hin. apply in_mapi in Hin.
      destruct Hin as [k [e [_ ->]]]. cbn [snd]. unfold target. rewrite Hs, Hu.
      destruct (empty (ref_qual d (fld "Name" e))).
      - destruct (filter _ (alias_map d upd)) as [|b [|b2 rest]] eqn:Efl; try reflexivity.
        assert (Hb : In b (filter (fun e0 => knows cfg (snd e0) (ref_col d (fld "Name" e))) (alias_map d upd))) by (rewrite Efl; left; reflexivity).
        apply filter_In in Hb. destruct Hb as [Hb _].
        apply setting_id_no_schema. apply (no_tables_no_schema _ Eh). rewrite alias_map_app. apply in_or_app. left; exact Hb.
      - destruct (find _ (alias_map d (upd ++ fr))) as [b|] eqn:Efd; [|reflexivity].
        apply find_some in Efd. destruct Efd as [Hb _].
        apply setting_id_no_schema. exact (no_tables_no_schema _ Eh b Hb). }
    destruct (all_unset_nil enc_type _ Hnone) as [Nl Np]. unfold vpos in *. rewrite Nl, Np. split; reflexivity.
Qed.

(** * the whole write path, text protocol *)

Definition write_regular (t : tree) : Prop := tkind t = K_Update -> update_regular t.

Theorem impl_write_spec t evs :
  impl_write d cfg t = Ok evs -> write_regular t ->
  lits_of evs = spec_lits_gen d cfg enc_type false t /\ phs_of evs = spec_phs_gen d cfg false t.
Proof.
  unfold impl_write, write_regular, spec_lits_gen, spec_phs_gen, positions. intros H Hreg.
  destruct (tkind t) eqn:Ek; try (inversion H; split; reflexivity).
  - (* Delete *)
    unfold impl_delete_w in H. destruct (negb _); [inversion H; split; reflexivity|].
    destruct (tables_of_list _); cbn [bind] in H; try discriminate. inversion H; split; reflexivity.
  - exact (impl_insert_spec t evs H).
  - exact (impl_update_spec t evs H (Hreg eq_refl)).
Qed.

(** * from the literal types the implementation handles to the specification *)

Definition no_insert_select (t : tree) : Prop := tkind t = K_Insert -> isk K_Select (fld "Rows" t) = false.

(** a FLOAT literal (or, PostgreSQL dialect, an E'..' string) at a value position *)
Definition gap_literal (e : tree) : bool :=
  let v := snd (unwrap e tt) in
  isk K_SQLVal v && (N.eqb (sv_type v) VT_FloatVal || N.eqb (sv_type v) VT_PgEscapeString).

Definition no_gap_literals (t : tree) : Prop :=
  forall vp : vpos, In vp (positions d cfg true t) -> gap_literal (snd (fst vp)) = false.

Lemma lit_of_enc_sub vp x : In x (lit_of cfg enc_type vp) -> In x (lit_of cfg literal_type vp).
Proof.
  destruct vp as [[p e] tc]. unfold lit_of, direct_value_gen.
  destruct (setting_id cfg tc); [|intros []].
  destruct (unwrap e tt) as [rp v]. destruct (isk K_SQLVal v); [|intros []].
  destruct (ph_index v); [intros []|].
  destruct (enc_type (sv_type v)) eqn:E; cbn [andb]; [|intros []].
  rewrite (enc_type_literal _ E). cbn [andb]. exact (fun H => H).
Qed.

Lemma lit_of_no_gap vp : gap_literal (snd (fst vp)) = false -> lit_of cfg enc_type vp = lit_of cfg literal_type vp.
Proof.
  destruct vp as [[p e] tc]. cbn [fst snd]. unfold gap_literal, lit_of, direct_value_gen.
  destruct (setting_id cfg tc); [|reflexivity].
  destruct (unwrap e tt) as [rp v]. cbn [snd]. destruct (isk K_SQLVal v); cbn [andb]; [|reflexivity].
  intro Hg. destruct (ph_index v); [reflexivity|].
  destruct (literal_type (sv_type v)) eqn:El.
  - destruct (enc_type (sv_type v)) eqn:Ee; [reflexivity|].
    destruct (literal_type_gap _ El Ee) as [E|E]; rewrite E in Hg; vm_compute in Hg; discriminate.
  - destruct (enc_type (sv_type v)) eqn:Ee; [|reflexivity].
    rewrite (enc_type_literal _ Ee) in El. discriminate.
Qed.

Lemma positions_incl t : incl (positions d cfg false t) (positions d cfg true t).
Proof.
  unfold positions. destruct (tkind t); try (intros x Hx; exact Hx).
  unfold insert_positions. cbn [andb]. intros x Hx. apply in_app_or in Hx. apply in_or_app.
  destruct Hx as [Hx|Hx]; [left|right; exact Hx].
  destruct (isk K_Values (fld "Rows" t)); [exact Hx|destruct Hx].
Qed.

Lemma positions_eq t : no_insert_select t -> positions d cfg false t = positions d cfg true t.
Proof.
  unfold no_insert_select, positions. intro H. destruct (tkind t) eqn:Ek; try reflexivity.
  unfold insert_positions. rewrite (H eq_refl). reflexivity.
Qed.

Lemma spec_lits_gen_incl t : incl (spec_lits_gen d cfg enc_type false t) (spec_lits d cfg t).
Proof.
  unfold spec_lits, spec_lits_gen. intros x Hx. apply in_flat_map in Hx. destruct Hx as [vp [Hvp Hx]].
  apply in_flat_map. exists vp. split; [apply positions_incl; exact Hvp|apply lit_of_enc_sub; exact Hx].
Qed.

Lemma spec_lits_gen_eq t :
  no_insert_select t -> no_gap_literals t -> spec_lits_gen d cfg enc_type false t = spec_lits d cfg t.
Proof.
  intros Hs Hg. unfold spec_lits, spec_lits_gen. rewrite (positions_eq t Hs).
  unfold no_gap_literals in Hg. induction (positions d cfg true t) as [|vp l IH]; [reflexivity|].
  cbn [flat_map]. rewrite (lit_of_no_gap vp (Hg vp (or_introl eq_refl))), IH; [reflexivity|].
  intros vp' H'. apply Hg. right; exact H'.
Qed.

Lemma spec_phs_gen_incl t : incl (spec_phs_gen d cfg false t) (spec_phs d cfg t).
Proof.
  unfold spec_phs, spec_phs_gen. intros x Hx. apply in_flat_map in Hx. destruct Hx as [vp [Hvp Hx]].
  apply in_flat_map. exists vp. split; [apply positions_incl; exact Hvp|exact Hx].
Qed.

Lemma spec_phs_gen_eq t : no_insert_select t -> spec_phs_gen d cfg false t = spec_phs d cfg t.
Proof. intro Hs. unfold spec_phs, spec_phs_gen. rewrite (positions_eq t Hs). reflexivity. Qed.

Lemma in_lits_of p s evs : In (p, s) (lits_of evs) <-> In (SLit p s) evs.
Proof.
  unfold lits_of. rewrite in_flat_map. split.
  - intros [[p' s'|i s'] [Hin Hx]]; cbn in Hx; [|destruct Hx].
    destruct Hx as [Hx|[]]. inversion Hx; subst. exact Hin.
  - intro H. exists (SLit p s). split; [exact H|left; reflexivity].
Qed.

Lemma in_phs_of i s evs : In (i, s) (phs_of evs) <-> In (SBind i s) evs.
Proof.
  unfold phs_of. rewrite in_flat_map. split.
  - intros [[p' s'|i' s'] [Hin Hx]]; cbn in Hx; [destruct Hx|].
    destruct Hx as [Hx|[]]. inversion Hx; subst. exact Hin.
  - intro H. exists (SBind i s). split; [exact H|left; reflexivity].
Qed.

(** SOUNDNESS: nothing but the value positions of configured columns is touched *)
Theorem write_nothing_else t evs :
  impl_write d cfg t = Ok evs -> write_regular t ->
  (forall p s, In (SLit p s) evs -> In (p, s) (spec_lits d cfg t)) /\
  (forall i s, In (SBind i s) evs -> In (i, s) (spec_phs d cfg t)).
Proof.
  intros H Hr. destruct (impl_write_spec t evs H Hr) as [Hl Hp]. split.
  - intros p s Hin. apply spec_lits_gen_incl. rewrite <- Hl. apply in_lits_of. exact Hin.
  - intros i s Hin. apply spec_phs_gen_incl. rewrite <- Hp. apply in_phs_of. exact Hin.
Qed.

(** COMPLETENESS (fail closed): every value position of a configured column is selected *)
Theorem write_fail_closed t evs :
  impl_write d cfg t = Ok evs -> write_regular t -> no_insert_select t ->
  (no_gap_literals t -> forall p s, In (p, s) (spec_lits d cfg t) -> In (SLit p s) evs) /\
  (forall i s, In (i, s) (spec_phs d cfg t) -> In (SBind i s) evs).
Proof.
  intros H Hr Hs. destruct (impl_write_spec t evs H Hr) as [Hl Hp]. split.
  - intros Hg p s Hin. apply in_lits_of. rewrite Hl, (spec_lits_gen_eq t Hs Hg). exact Hin.
  - intros i s Hin. apply in_phs_of. rewrite Hp, (spec_phs_gen_eq t Hs). exact Hin.
Qed.

End W.
