(** C13_statements: facts about the yacc table, stop conditions of the parser loops, fuel measure,
    mutual induction principle. *)
From Acra Require Import Lib.Bytes Gen.Prec Gen.SqlWords Model.SqlStmt Model.SqlStmtParse Proofs.SqlStmtUnfold.
From Coq Require Import Arith Lia.

(* ---------- the facts about the yacc table the proof needs (checked on the generated table) ---------- *)
Lemma prec_sane_true : prec_sane = true. Proof. vm_compute. reflexivity. Qed.

Lemma prec_facts :
  L_OR < L_AND /\ S L_AND <= L_NOT /\ L_NOT < L_BETWEEN /\ L_BETWEEN <= L_CMP /\ L_CMP < L_UNARY /\
  L_UNARY < L_COLLATE /\ L_COLLATE < L_ATOM /\ 0 < L_OR /\ S (S (S L_CMP)) < L_UNARY /\ S L_UNARY < L_COLLATE.
Proof. vm_compute. repeat split; lia. Qed.

Lemma binprec_bounds o : L_VAL <= binprec o /\ binprec o < L_UNARY.
Proof. destruct o; vm_compute; split; lia. Qed.

Ltac precs :=
  pose proof prec_facts;
  repeat match goal with
         | o : binop |- _ =>
             lazymatch goal with
             | _ : L_VAL <= binprec o /\ _ |- _ => fail
             | _ => pose proof (binprec_bounds o)
             end
         end;
  unfold L_VAL, L_ESC in *; lia.

(* ---------- mutual induction ---------- *)
Scheme expr_mind := Induction for expr Sort Prop
  with exprs_mind := Induction for exprs Sort Prop
  with oexpr_mind := Induction for oexpr Sort Prop
  with whens_mind := Induction for whens Sort Prop
  with selexpr_mind := Induction for selexpr Sort Prop
  with selexprs_mind := Induction for selexprs Sort Prop
  with sel_mind := Induction for sel Sort Prop
  with texpr_mind := Induction for texpr Sort Prop
  with texprs_mind := Induction for texprs Sort Prop
  with jcond_mind := Induction for jcond Sort Prop
  with orders_mind := Induction for orders Sort Prop
  with lim_mind := Induction for lim Sort Prop.
Combined Scheme ast_mutind from expr_mind, exprs_mind, oexpr_mind, whens_mind, selexpr_mind, selexprs_mind,
  sel_mind, texpr_mind, texprs_mind, jcond_mind, orders_mind, lim_mind.

(* ---------- fuel measure: an upper bound of the recursion depth the parser needs for a tree ---------- *)
Definition K := 20.
Fixpoint need (e : expr) : nat :=
  match e with
  | EAnd l r | EOr l r | ECmp _ l r | EBin _ l r => K + need l + need r
  | ENot x | EIs _ x | EUn _ x | EParen x | ECollate x _ | EConvert x _ | EConvertUsing x _ | EInterval x _ => K + need x
  | ECmpEsc _ l r c | ERange _ l r c => K + need l + need r + need c
  | EExists q | ESubq q => K + need_sel q
  | ETuple xs => K + need_exprs xs
  | EFunc _ _ _ args => K + need_selexprs args
  | ECase x ws el => K + need_oexpr x + need_whens ws + need_oexpr el
  | _ => K
  end
with need_exprs (xs : exprs) : nat :=
  match xs with XNil => 0 | XCons x xs' => K + need x + need_exprs xs' end
with need_oexpr (o : oexpr) : nat :=
  match o with NoE => 0 | SomeE x => need x end
with need_whens (ws : whens) : nat :=
  match ws with WNil => 0 | WCons c v ws' => K + need c + need v + need_whens ws' end
with need_selexpr (s : selexpr) : nat :=
  match s with SStar _ => K | SAliased x _ => K + need x end
with need_selexprs (xs : selexprs) : nat :=
  match xs with SNil => 0 | SCons x xs' => K + need_selexpr x + need_selexprs xs' end
with need_sel (s : sel) : nat :=
  match s with
  | Select _ xs from wh gb hv ob lm _ =>
      K + K + need_selexprs xs + need_texprs from + need_oexpr wh + need_exprs gb + need_oexpr hv
      + need_orders ob + need_lim lm
  | Union _ l r ob lm _ => K + K + need_sel l + need_sel r + need_orders ob + need_lim lm
  | ParenSel s' => K + need_sel s'
  end
with need_texpr (t : texpr) : nat :=
  match t with
  | TTable _ _ _ => K
  | TSubq s _ => K + need_sel s
  | TParen ts => K + need_texprs ts
  | TJoin l _ r c => K + need_texpr l + need_texpr r + need_jcond c
  end
with need_texprs (ts : texprs) : nat :=
  match ts with TNil => 0 | TCons t ts' => K + need_texpr t + need_texprs ts' end
with need_jcond (c : jcond) : nat :=
  match c with JOn x => need x | _ => 0 end
with need_orders (os : orders) : nat :=
  match os with ONil => 0 | OCons x _ os' => K + need x + need_orders os' end
with need_lim (l : lim) : nat :=
  match l with
  | LNone | LAll => 0
  | LOnly x | LAllOffset x => need x
  | LOffset x y | LComma x y => need x + need y
  end.

Lemma need_pos e : K <= need e.
Proof. destruct e; cbn [need]; unfold K; lia. Qed.

(* ---------- stop conditions ---------- *)
(** the token can neither continue an identifier / literal (.  (  ::cast) ... *)
Definition glue (t : tok) : bool :=
  match t with TP PDot | TP PLParen | TCast _ => true | _ => false end.
(** ... nor, with precedence >= b, the expression before it *)
Definition stopsb (b : nat) (rest : list tok) : bool :=
  match rest with
  | [] => true
  | t :: _ => negb (glue t) && match tokprec rest with Some p => p <? b | None => true end
  end.
(** cannot continue any expression *)
Definition hard (rest : list tok) : bool := stopsb 0 rest.

Lemma stops_mono b b' rest : b <= b' -> stopsb b rest = true -> stopsb b' rest = true.
Proof.
  intros Hle H. unfold stopsb in *. destruct rest as [|t rest]; [reflexivity|].
  apply andb_prop in H as [H1 H2]. rewrite H1. cbn [andb].
  destruct (tokprec (t :: rest)); [|reflexivity]. apply Nat.ltb_lt in H2. apply Nat.ltb_lt. lia.
Qed.
Lemma hard_stops b rest : hard rest = true -> stopsb b rest = true.
Proof. apply stops_mono. lia. Qed.
Lemma hard_nil : hard [] = true. Proof. reflexivity. Qed.

Lemma hard_tokprec rest : hard rest = true -> tokprec rest = None.
Proof.
  unfold hard, stopsb. destruct rest as [|t rest]; [reflexivity|]. intros H. apply andb_prop in H as [_ H].
  destruct (tokprec (t :: rest)); [discriminate H|reflexivity].
Qed.

Lemma ploop_stop pg f min lhs rest : stopsb min rest = true -> ploop pg (S f) min lhs rest = Some (lhs, rest).
Proof.
  intros H. rewrite ploop_S. unfold stopsb in H. destruct rest as [|t rest]; [reflexivity|].
  apply andb_prop in H as [_ H]. destruct (tokprec (t :: rest)) as [p|]; [|reflexivity].
  rewrite H. reflexivity.
Qed.

(** heads of the clause level: tokens after which no expression, alias, join, list continues *)
Definition clause_word (w : word) : bool :=
  match w with
  | W_union | W_returning | W_on | W_using | W_where | W_group | W_having | W_order | W_limit | W_for | W_lock
  | W_set | W_from => true
  | _ => false
  end.
Definition cstop (rest : list tok) : bool :=
  match rest with
  | [] => true
  | TP PRParen :: _ => true
  | TW w :: _ => clause_word w
  | _ => false
  end.
Lemma cstop_hard rest : cstop rest = true -> hard rest = true.
Proof.
  destruct rest as [|[| | | |p|w|] rest]; try discriminate; try reflexivity.
  - destruct p; try discriminate; reflexivity.
  - destruct w; try discriminate; reflexivity.
Qed.

(** expect_w / expect_p on a known head *)
Lemma expect_w_hit w r : expect_w w (TW w :: r) = Some r.
Proof. destruct w; reflexivity. Qed.
Lemma expect_p_hit p r : expect_p p (TP p :: r) = Some r.
Proof. destruct p; reflexivity. Qed.
Lemma head_w_hit w r : head_w w (TW w :: r) = true.
Proof. unfold head_w. rewrite expect_w_hit. reflexivity. Qed.

Lemma word_eqb_true a b : word_eqb a b = true -> a = b.
Proof. destruct a, b; try reflexivity; intros H; vm_compute in H; discriminate H. Qed.
Lemma expect_w_some w ts r : expect_w w ts = Some r -> ts = TW w :: r.
Proof.
  destruct ts as [|[| | | | |w'|] ts]; try discriminate. cbn [expect_w].
  destruct (word_eqb w w') eqn:E; [|discriminate]. apply word_eqb_true in E. subst. intros H. inversion H. reflexivity.
Qed.
Lemma expect_w_miss w ts : (forall r, ts <> TW w :: r) -> expect_w w ts = None.
Proof.
  intros H. destruct (expect_w w ts) as [r|] eqn:E; [|reflexivity].
  apply expect_w_some in E. destruct (H r E).
Qed.
Lemma punct_eqb_true a b : punct_eqb a b = true -> a = b.
Proof. destruct a, b; try reflexivity; intros H; vm_compute in H; discriminate H. Qed.
Lemma expect_p_some p ts r : expect_p p ts = Some r -> ts = TP p :: r.
Proof.
  destruct ts as [|[| | | |p'| |] ts]; try discriminate. cbn [expect_p].
  destruct (punct_eqb p p') eqn:E; [|discriminate]. apply punct_eqb_true in E. subst. intros H. inversion H. reflexivity.
Qed.
Lemma expect_p_miss p ts : (forall r, ts <> TP p :: r) -> expect_p p ts = None.
Proof.
  intros H. destruct (expect_p p ts) as [r|] eqn:E; [|reflexivity].
  apply expect_p_some in E. destruct (H r E).
Qed.

(** heads *)
Definition hd_is (t : tok) (ts : list tok) : Prop := exists r, ts = t :: r.
Lemma hard_not_w w rest : hard rest = true -> tokprec [TW w] <> None -> forall r, rest <> TW w :: r.
Proof.
  intros H Hp r ->. apply hard_tokprec in H. destruct w; try (apply Hp; reflexivity); try discriminate H.
  cbn in H. destruct r as [|[| | | | |[]|] ?]; discriminate H.
Qed.

Lemma cstop_no_comma rest : cstop rest = true -> expect_p PComma rest = None.
Proof. destruct rest as [|[| | | |p|w|] rest]; try discriminate; try reflexivity. destruct p; try discriminate; reflexivity. Qed.
Lemma cstop_no_w w rest : clause_word w = false -> cstop rest = true -> expect_w w rest = None.
Proof.
  intros Hw H. apply expect_w_miss. intros r ->. cbn [cstop] in H. rewrite Hw in H. discriminate H.
Qed.
