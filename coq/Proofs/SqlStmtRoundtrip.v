(** C13_statements: THE round trip — every well-formed statement tree is parsed back from its printed tokens. *)
From Acra Require Import Lib.Bytes Gen.Prec Gen.SqlWords Model.SqlStmt Model.SqlStmtParse
  Proofs.SqlStmtUnfold Proofs.SqlStmtFacts Proofs.SqlStmtEqns Proofs.SqlStmtHeads Proofs.SqlStmtRT1 Proofs.SqlStmtRT2 Proofs.SqlStmtRT3
  Proofs.SqlStmtRT4 Proofs.SqlStmtRT5 Proofs.SqlStmtRT6 Proofs.SqlStmtRT7 Proofs.SqlStmtRT8 Proofs.SqlStmtRT9 Proofs.SqlStmtRT10
  Proofs.SqlStmtRT11 Proofs.SqlStmtFuel Proofs.SqlStmtRT12.
From Coq Require Import Arith Lia.

Section RT.
Variable pg : bool.
Notation len := (@length tok).

Ltac KL := unfold K in *; lia.
Ltac napp := repeat (progress (rewrite <- ?app_assoc; cbn [app])).
Ltac lens := repeat (rewrite app_length || cbn [length]).

Lemma if_true (b : bool) (A : Type) (x y : A) : b = true -> (if b then x else y) = x.
Proof. intros ->. reflexivity. Qed.

(** a select statement up to a stop *)
Lemma psel_ok q rest f :
  wf_sel pg q = true -> is_paren q = false -> selstop q rest = true -> expect_w W_union rest = None ->
  need_sel q + 2 <= f -> psel pg f (print_sel pg q ++ rest) = Some (q, rest).
Proof.
  intros Hwf Hp Hst Hu Hf.
  apply (proj1 (all_Psel pg q) Hwf rest (Some (q, rest)) 1 Hst); [|lia].
  intros f0 Hf0. destruct f0; [lia|]. rewrite punion_S, Hu, Hp. reflexivity.
Qed.

Lemma tails_ok' ob lm rest f :
  wf_orders pg ob = true -> wf_lim pg lm = true -> tlstop rest = true -> need_orders ob + need_lim lm + 2 <= f ->
  ptails pg f (print_orders pg true ob ++ print_lim pg lm ++ rest) = Some (ob, lm, LkNone, rest).
Proof.
  intros Ho Hl Hst Hf.
  exact (tails_ok pg ob lm LkNone rest f (all_Pos pg ob) (all_Plm pg lm) Ho Hl Hst ltac:(lia)).
Qed.

Lemma tlstop_facts rest : tlstop rest = true ->
  hard rest = true /\ expect_w W_where rest = None /\ expect_w W_using rest = None /\ expect_w W_from rest = None
  /\ expect_p PComma rest = None /\ expect_w W_set rest = None.
Proof.
  destruct rest as [|t r]; [intros _; repeat split; reflexivity|].
  destruct t as [| | | |p|w|]; try discriminate; [destruct p|destruct w]; try discriminate; intros _; repeat split; reflexivity.
Qed.

(** what follows the table list of UPDATE / DELETE *)
Definition ustop (rest : list tok) : bool :=
  match rest with
  | [] => true
  | TW W_where :: _ | TW W_order :: _ | TW W_limit :: _ | TW W_returning :: _ | TW W_set :: _ | TW W_from :: _ => true
  | _ => false
  end.
Lemma ustop_tsstop ts rest : ustop rest = true -> tsstop ts rest = true.
Proof.
  destruct rest as [|t r]; [intros _; apply tsstop_nil|].
  destruct t as [| | | | |w|]; try discriminate. destruct w; try discriminate; intros _; apply tsstop_w; reflexivity.
Qed.

Lemma where_rest wh rest : ustop rest = true -> (forall r, rest <> TW W_set :: r) -> (forall r, rest <> TW W_from :: r) ->
  ustop (print_oexpr pg [TW W_where] wh ++ rest) = true.
Proof. intros H _ _. destruct wh; [rewrite print_oexpr_NoE; exact H|rewrite print_oexpr_SomeE; reflexivity]. Qed.

Lemma tails_rest_ustop ob lm ret : ustop (print_orders pg true ob ++ print_lim pg lm ++ print_ret pg ret) = true.
Proof.
  destruct ob; [rewrite print_orders_ONil|rewrite print_orders_true_cons; reflexivity]. cbn [app].
  destruct lm; try (rewrite ?print_lim_LOnly, ?print_lim_LOffset, ?print_lim_LComma, ?print_lim_LAll, ?print_lim_LAllOffset; reflexivity).
  rewrite print_lim_LNone. cbn [app]. unfold print_ret. destruct ret; reflexivity.
Qed.
Lemma tails_rest_hard ob lm ret :
  hard (print_orders pg true ob ++ print_lim pg lm ++ print_ret pg ret) = true
  /\ expect_w W_where (print_orders pg true ob ++ print_lim pg lm ++ print_ret pg ret) = None
  /\ expect_w W_using (print_orders pg true ob ++ print_lim pg lm ++ print_ret pg ret) = None
  /\ expect_w W_from (print_orders pg true ob ++ print_lim pg lm ++ print_ret pg ret) = None
  /\ expect_p PComma (print_orders pg true ob ++ print_lim pg lm ++ print_ret pg ret) = None.
Proof.
  destruct ob; [rewrite print_orders_ONil|rewrite print_orders_true_cons; repeat split; reflexivity]. cbn [app].
  destruct lm; try (rewrite ?print_lim_LOnly, ?print_lim_LOffset, ?print_lim_LComma, ?print_lim_LAll, ?print_lim_LAllOffset; repeat split; reflexivity).
  rewrite print_lim_LNone. cbn [app]. unfold print_ret. destruct ret; repeat split; reflexivity.
Qed.

Theorem print_parse_roundtrip t : wf_stmt pg t = true -> parse pg (print_stmt pg t) = Some t.
Proof.
  intros Hwf. unfold parse. rewrite prec_sane_true. unfold parse_fuel.
  destruct t as [q|repl ign tq tn cols r dup ret|repl ign tq tn|ts set from wh ob lm ret|ts wh ob lm ret|targets ts wh ret].
  - (* SELECT *)
    cbn [wf_stmt] in Hwf. split_andb. negb_hyps. cbn [print_stmt]. unfold pstmt.
    replace (stmt_head (print_sel pg q)) with SHSelect by (destruct (sel_first pg q) as [r0 [E|E]]; rewrite E; reflexivity).
    pose proof (len_sel pg q) as Hl.
    rewrite <- (app_nil_r (print_sel pg q)) at 2.
    rewrite psel_ok; try assumption; try reflexivity. lia.
  - (* INSERT *)
    cbn [wf_stmt] in Hwf. split_andb. cbn [print_stmt]. unfold ins_head.
    set (TOTAL := (TW (if repl then W_replace else W_insert) :: (if ign then [TW W_ignore] else []) ++ TW W_into :: tname_toks pg tq tn) ++
                  match cols with [] => [] | _ :: _ => columns_toks pg cols end ++ print_irows pg r ++ print_dup pg dup ++ print_ret pg ret).
    assert (HF : forall X, len X <= len TOTAL -> 80 * len X + 80 <= 80 * len TOTAL + 80) by (intros; lia).
    set (F := 80 * len TOTAL + 80) in *.
    assert (Hret : need_selexprs ret + 2 <= F).
    { assert (Hl : len (print_selexprs pg ret) <= len TOTAL) by (unfold TOTAL, print_ret; destruct ret; rewrite ?print_selexprs_SNil; lens; lia).
      pose proof (HF _ Hl). pose proof (len_ses pg ret). lia. }
    assert (Hdup : need_updates dup + 2 <= F).
    { assert (Hl : len (print_updates pg dup) <= len TOTAL) by (unfold TOTAL, print_dup; destruct dup; [cbn [print_updates length]; lia|lens; lia]).
      pose proof (HF _ Hl). pose proof (len_updates pg dup). lia. }
    unfold TOTAL. clear HF. unfold pstmt.
    replace (stmt_head ((TW (if repl then W_replace else W_insert) :: (if ign then [TW W_ignore] else []) ++ TW W_into :: tname_toks pg tq tn) ++
                  match cols with [] => [] | _ :: _ => columns_toks pg cols end ++ print_irows pg r ++ print_dup pg dup ++ print_ret pg ret))
      with (if repl then SHReplace (((if ign then [TW W_ignore] else []) ++ TW W_into :: tname_toks pg tq tn) ++
                  match cols with [] => [] | _ :: _ => columns_toks pg cols end ++ print_irows pg r ++ print_dup pg dup ++ print_ret pg ret)
            else SHInsert (((if ign then [TW W_ignore] else []) ++ TW W_into :: tname_toks pg tq tn) ++
                  match cols with [] => [] | _ :: _ => columns_toks pg cols end ++ print_irows pg r ++ print_dup pg dup ++ print_ret pg ret))
      by (destruct repl; reflexivity).
    assert (Hins : pinsert pg F repl (((if ign then [TW W_ignore] else []) ++ TW W_into :: tname_toks pg tq tn) ++
                  match cols with [] => [] | _ :: _ => columns_toks pg cols end ++ print_irows pg r ++ print_dup pg dup ++ print_ret pg ret)
                  = Some (SInsert repl ign tq tn cols r dup ret)); [|destruct repl; exact Hins].
    unfold pinsert. napp.
    replace (match expect_w W_ignore ((if ign then [TW W_ignore] else []) ++ TW W_into :: tname_toks pg tq tn ++
               match cols with [] => [] | _ :: _ => columns_toks pg cols end ++ print_irows pg r ++ print_dup pg dup ++ print_ret pg ret) with
             | Some r0 => (true, r0) | None => (false, (if ign then [TW W_ignore] else []) ++ TW W_into :: tname_toks pg tq tn ++
               match cols with [] => [] | _ :: _ => columns_toks pg cols end ++ print_irows pg r ++ print_dup pg dup ++ print_ret pg ret) end)
      with (ign, TW W_into :: tname_toks pg tq tn ++
               match cols with [] => [] | _ :: _ => columns_toks pg cols end ++ print_irows pg r ++ print_dup pg dup ++ print_ret pg ret)
      by (destruct ign; reflexivity).
    rewrite expect_w_hit.
    assert (Hrows_head : exists r0, print_irows pg r ++ print_dup pg dup ++ print_ret pg ret = TW W_values :: r0
                                    \/ print_irows pg r ++ print_dup pg dup ++ print_ret pg ret = TW W_select :: r0).
    { destruct r as [rs|q]; cbn [print_irows].
      - eexists. left. reflexivity.
      - split_andb. negb_hyps. destruct (sel_head pg q ltac:(assumption)) as [r0 ->]. eexists. right. reflexivity. }
    rewrite ptname_ok'; [|assumption|].
    2:{ destruct cols; [|reflexivity]. cbn [app]. destruct Hrows_head as [r0 [E|E]]; rewrite E; reflexivity. }
    replace (default_values (match cols with [] => [] | _ :: _ => columns_toks pg cols end ++ print_irows pg r ++ print_dup pg dup ++ print_ret pg ret))
      with false by (destruct cols; [cbn [app]; destruct Hrows_head as [r0 [E|E]]; rewrite E; reflexivity|reflexivity]).
    (* columns *)
    assert (Hcols : match expect_p PLParen (match cols with [] => [] | _ :: _ => columns_toks pg cols end ++ print_irows pg r ++ print_dup pg dup ++ print_ret pg ret) with
                    | Some ts4 => pidents tok_alias ts4
                    | None => Some ([], match cols with [] => [] | _ :: _ => columns_toks pg cols end ++ print_irows pg r ++ print_dup pg dup ++ print_ret pg ret)
                    end = Some (cols, print_irows pg r ++ print_dup pg dup ++ print_ret pg ret)).
    { destruct cols as [|c cols'].
      - cbn [app]. destruct Hrows_head as [r0 [E|E]]; rewrite E; reflexivity.
      - unfold columns_toks. napp. rewrite (expect_p_hit PLParen). apply pidents_alias; [assumption|discriminate]. }
    rewrite Hcols.
    (* rows *)
    assert (Hdh : hard (print_dup pg dup ++ print_ret pg ret) = true /\ expect_p PComma (print_dup pg dup ++ print_ret pg ret) = None
                  /\ expect_w W_union (print_dup pg dup ++ print_ret pg ret) = None).
    { unfold print_dup, print_ret. destruct dup; [destruct ret|]; repeat split; reflexivity. }
    destruct Hdh as [Hd1 [Hd2 Hd3]].
    assert (Hrows : match expect_w W_values (print_irows pg r ++ print_dup pg dup ++ print_ret pg ret) with
                    | Some ts6 => match prows pg F ts6 with Some (rs, r0) => Some (IValues rs, r0) | None => None end
                    | None => if head_w W_select (print_irows pg r ++ print_dup pg dup ++ print_ret pg ret)
                              then match psel pg F (print_irows pg r ++ print_dup pg dup ++ print_ret pg ret) with Some (q, r0) => Some (ISelect q, r0) | None => None end
                              else None
                    end = Some (r, print_dup pg dup ++ print_ret pg ret)).
    { destruct r as [rs|q]; cbn [print_irows]; split_andb.
      - cbn [app]. rewrite expect_w_hit.
        rewrite prows_ok; try assumption; [reflexivity|destruct rs; [discriminate|discriminate]|].
        assert (Hl : len (print_rows pg rs) <= len TOTAL) by (unfold TOTAL; cbn [print_irows]; lens; lia).
        pose proof (len_rows pg rs). unfold F. lia.
      - negb_hyps. destruct (sel_head pg q ltac:(assumption)) as [r0 E]. rewrite E. cbn [app expect_w word_eqb word_tag N.eqb Pos.eqb].
        rewrite head_w_hit. change (TW W_select :: r0 ++ print_dup pg dup ++ print_ret pg ret) with ((TW W_select :: r0) ++ print_dup pg dup ++ print_ret pg ret).
        rewrite <- E. rewrite psel_ok; try assumption; [reflexivity|apply starts_paren_not_paren; assumption| |].
        + unfold print_dup, print_ret. destruct dup; [destruct ret; reflexivity|]. cbn [app selstop]. assumption.
        + assert (Hl : len (print_sel pg q) <= len TOTAL) by (unfold TOTAL; cbn [print_irows]; lens; lia).
          pose proof (len_sel pg q). unfold F. lia. }
    rewrite Hrows.
    (* ON DUPLICATE KEY UPDATE *)
    assert (Hd : match dup_head (print_dup pg dup ++ print_ret pg ret) with
                 | Some ts8 => pupdates pg F ts8
                 | None => Some (UNil, print_dup pg dup ++ print_ret pg ret)
                 end = Some (dup, print_ret pg ret)).
    { unfold print_dup. destruct dup as [|dq dn dx dus].
      - cbn [app]. unfold print_ret. destruct ret; reflexivity.
      - cbn [app dup_head]. apply pupdates_ok; try assumption; try discriminate.
        + unfold print_ret. destruct ret; reflexivity.
        + unfold print_ret. destruct ret; reflexivity. }
    rewrite Hd. rewrite pret_ok by assumption. reflexivity.
  - (* INSERT ... DEFAULT VALUES *)
    cbn [wf_stmt] in Hwf. cbn [print_stmt]. unfold ins_head, pstmt. napp.
    assert (Hins : forall f, pinsert pg f repl ((if ign then [TW W_ignore] else []) ++ TW W_into :: tname_toks pg tq tn ++ [TW W_default; TW W_values])
                  = Some (SInsertDefault repl ign tq tn)).
    { intros f. unfold pinsert.
      replace (match expect_w W_ignore ((if ign then [TW W_ignore] else []) ++ TW W_into :: tname_toks pg tq tn ++ [TW W_default; TW W_values]) with
               | Some r0 => (true, r0) | None => (false, (if ign then [TW W_ignore] else []) ++ TW W_into :: tname_toks pg tq tn ++ [TW W_default; TW W_values]) end)
        with (ign, TW W_into :: tname_toks pg tq tn ++ [TW W_default; TW W_values]) by (destruct ign; reflexivity).
      rewrite expect_w_hit. rewrite ptname_ok' by first [assumption | reflexivity]. reflexivity. }
    destruct repl; cbn [stmt_head]; apply Hins.
  - (* UPDATE *)
    cbn [wf_stmt] in Hwf. split_andb.
    set (FROM := match from with TNil => [] | TCons _ _ => TW W_from :: print_texprs pg from end).
    set (TAILS := print_orders pg true ob ++ print_lim pg lm ++ print_ret pg ret).
    set (TOTAL := TW W_update :: print_texprs pg ts ++ TW W_set :: print_updates pg set ++ FROM ++ print_oexpr pg [TW W_where] wh ++ TAILS).
    assert (Et : print_stmt pg (SUpdate ts set from wh ob lm ret) = TOTAL)
      by (unfold TOTAL, TAILS, FROM; cbn [print_stmt]; napp; reflexivity).
    rewrite Et. set (F := 80 * len TOTAL + 80).
    assert (HF : forall X, len X <= len TOTAL -> 80 * len X + 80 <= F) by (intros; unfold F; lia).
    assert (F1 : need_texprs ts + 2 <= F).
    { assert (Hl : len (print_texprs pg ts) <= len TOTAL) by (unfold TOTAL; lens; lia). pose proof (HF _ Hl). pose proof (len_ts pg ts). lia. }
    assert (F2 : need_updates set + 2 <= F).
    { assert (Hl : len (print_updates pg set) <= len TOTAL) by (unfold TOTAL; lens; lia). pose proof (HF _ Hl). pose proof (len_updates pg set). lia. }
    assert (F3 : need_texprs from + 2 <= F).
    { assert (Hl : len (print_texprs pg from) <= len TOTAL) by (unfold TOTAL, FROM; destruct from; [rewrite print_texprs_TNil; cbn [length]; lia|lens; lia]).
      pose proof (HF _ Hl). pose proof (len_ts pg from). lia. }
    assert (F4 : need_oexpr wh + 2 <= F).
    { assert (Hl : len (print_oexpr pg [TW W_where] wh) <= len TOTAL) by (unfold TOTAL; lens; lia). pose proof (HF _ Hl). pose proof (len_oe pg wh [TW W_where]). lia. }
    assert (F5 : need_orders ob + need_lim lm + 2 <= F).
    { assert (Hl : len (print_orders pg true ob) + len (print_lim pg lm) <= len TOTAL) by (unfold TOTAL, TAILS; lens; lia).
      pose proof (len_os pg ob true). pose proof (len_lm pg lm). unfold F. lia. }
    assert (F6 : need_selexprs ret + 2 <= F).
    { assert (Hl : len (print_selexprs pg ret) <= len TOTAL) by (unfold TOTAL, TAILS, print_ret; destruct ret; rewrite ?print_selexprs_SNil; lens; lia).
      pose proof (HF _ Hl). pose proof (len_ses pg ret). lia. }
    clearbody F. unfold TOTAL. unfold pstmt. cbn [stmt_head]. unfold pupdate.
    destruct (tails_rest_hard ob lm ret) as [T1 [T2 [T3 [T4 T5]]]]. fold TAILS in T1, T2, T3, T4, T5.
    assert (Hwhere : hard (print_oexpr pg [TW W_where] wh ++ TAILS) = true /\ expect_w W_from (print_oexpr pg [TW W_where] wh ++ TAILS) = None
                     /\ expect_p PComma (print_oexpr pg [TW W_where] wh ++ TAILS) = None
                     /\ ustop (print_oexpr pg [TW W_where] wh ++ TAILS) = true).
    { destruct wh; [rewrite print_oexpr_NoE; cbn [app]; repeat split; try assumption; apply tails_rest_ustop
                   |rewrite print_oexpr_SomeE; repeat split; reflexivity]. }
    destruct Hwhere as [W1 [W2 [W3 W4]]].
    assert (Hts0 : tsstop ts (TW W_set :: print_updates pg set ++ FROM ++ print_oexpr pg [TW W_where] wh ++ TAILS) = true)
      by (apply tsstop_w; reflexivity).
    rewrite (all_Pts pg ts ltac:(assumption) ltac:(destruct ts; [discriminate|discriminate]) _ Hts0) by lia.
    rewrite expect_w_hit.
    assert (Hfr : hard (FROM ++ print_oexpr pg [TW W_where] wh ++ TAILS) = true /\ expect_p PComma (FROM ++ print_oexpr pg [TW W_where] wh ++ TAILS) = None).
    { unfold FROM. destruct from; [cbn [app]; split; assumption|split; reflexivity]. }
    destruct Hfr as [Hfr1 Hfr2].
    rewrite pupdates_ok; try assumption; [|destruct set; [discriminate|discriminate]].
    assert (Hfrom : match expect_w W_from (FROM ++ print_oexpr pg [TW W_where] wh ++ TAILS) with
                    | Some ts3 => if pg then ptrefs pg F ts3 else None
                    | None => Some (TNil, FROM ++ print_oexpr pg [TW W_where] wh ++ TAILS)
                    end = Some (from, print_oexpr pg [TW W_where] wh ++ TAILS)).
    { unfold FROM. destruct from as [|t0 ts0].
      - cbn [app]. rewrite W2. reflexivity.
      - napp. rewrite expect_w_hit.
        match goal with H : pg || false = true |- _ => rewrite Bool.orb_false_r in H; rewrite (if_true pg _ _ _ H) end.
        apply all_Pts; [assumption|discriminate|apply ustop_tsstop; exact W4|lia]. }
    rewrite Hfrom. rewrite pwhere_ok by assumption.
    unfold TAILS. rewrite tails_ok' by first [assumption | apply ret_head]. fold TAILS.
    rewrite pret_ok by assumption.
    match goal with H : pg || match ret with SNil => true | SCons _ _ => false end = true |- _ => rewrite H end. reflexivity.
  - (* DELETE *)
    cbn [wf_stmt] in Hwf. split_andb.
    set (TAILS := print_orders pg true ob ++ print_lim pg lm ++ print_ret pg ret).
    set (TOTAL := TW W_delete :: TW W_from :: print_texprs pg ts ++ print_oexpr pg [TW W_where] wh ++ TAILS).
    assert (Et : print_stmt pg (SDelete ts wh ob lm ret) = TOTAL)
      by (unfold TOTAL, TAILS; cbn [print_stmt]; napp; reflexivity).
    rewrite Et. set (F := 80 * len TOTAL + 80).
    assert (HF : forall X, len X <= len TOTAL -> 80 * len X + 80 <= F) by (intros; unfold F; lia).
    assert (F1 : need_texprs ts + 2 <= F).
    { assert (Hl : len (print_texprs pg ts) <= len TOTAL) by (unfold TOTAL; lens; lia). pose proof (HF _ Hl). pose proof (len_ts pg ts). lia. }
    assert (F4 : need_oexpr wh + 2 <= F).
    { assert (Hl : len (print_oexpr pg [TW W_where] wh) <= len TOTAL) by (unfold TOTAL; lens; lia). pose proof (HF _ Hl). pose proof (len_oe pg wh [TW W_where]). lia. }
    assert (F5 : need_orders ob + need_lim lm + 2 <= F).
    { assert (Hl : len (print_orders pg true ob) + len (print_lim pg lm) <= len TOTAL) by (unfold TOTAL, TAILS; lens; lia).
      pose proof (len_os pg ob true). pose proof (len_lm pg lm). unfold F. lia. }
    assert (F6 : need_selexprs ret + 2 <= F).
    { assert (Hl : len (print_selexprs pg ret) <= len TOTAL) by (unfold TOTAL, TAILS, print_ret; destruct ret; rewrite ?print_selexprs_SNil; lens; lia).
      pose proof (HF _ Hl). pose proof (len_ses pg ret). lia. }
    clearbody F. unfold TOTAL. unfold pstmt. cbn [stmt_head]. unfold pdelete. rewrite expect_w_hit.
    destruct (tails_rest_hard ob lm ret) as [T1 [T2 [T3 [T4 T5]]]]. fold TAILS in T1, T2, T3, T4, T5.
    assert (Hwhere : expect_w W_using (print_oexpr pg [TW W_where] wh ++ TAILS) = None /\ ustop (print_oexpr pg [TW W_where] wh ++ TAILS) = true).
    { destruct wh; [rewrite print_oexpr_NoE; cbn [app]; split; [assumption|apply tails_rest_ustop]|rewrite print_oexpr_SomeE; split; reflexivity]. }
    destruct Hwhere as [W1 W4].
    rewrite (all_Pts pg ts ltac:(assumption) ltac:(destruct ts; [discriminate|discriminate]) _ (ustop_tsstop ts _ W4)) by lia.
    rewrite W1.
    replace (all_ttable ts && single ts) with true by (symmetry; apply andb_true_intro; split; assumption).
    rewrite pwhere_ok by assumption.
    unfold TAILS. rewrite tails_ok' by first [assumption | apply ret_head]. rewrite pret_ok by assumption. reflexivity.
  - (* DELETE ... USING *)
    cbn [wf_stmt] in Hwf. split_andb.
    set (TOTAL := TW W_delete :: TW W_from :: print_texprs pg targets ++ TW W_using :: print_texprs pg ts ++ print_oexpr pg [TW W_where] wh ++ print_ret pg ret).
    assert (Et : print_stmt pg (SDeleteMulti targets ts wh ret) = TOTAL)
      by (unfold TOTAL; cbn [print_stmt]; napp; reflexivity).
    rewrite Et. set (F := 80 * len TOTAL + 80).
    assert (HF : forall X, len X <= len TOTAL -> 80 * len X + 80 <= F) by (intros; unfold F; lia).
    assert (F0 : need_texprs targets + 2 <= F).
    { assert (Hl : len (print_texprs pg targets) <= len TOTAL) by (unfold TOTAL; lens; lia). pose proof (HF _ Hl). pose proof (len_ts pg targets). lia. }
    assert (F1 : need_texprs ts + 2 <= F).
    { assert (Hl : len (print_texprs pg ts) <= len TOTAL) by (unfold TOTAL; lens; lia). pose proof (HF _ Hl). pose proof (len_ts pg ts). lia. }
    assert (F4 : need_oexpr wh + 2 <= F).
    { assert (Hl : len (print_oexpr pg [TW W_where] wh) <= len TOTAL) by (unfold TOTAL; lens; lia). pose proof (HF _ Hl). pose proof (len_oe pg wh [TW W_where]). lia. }
    assert (F6 : need_selexprs ret + 2 <= F).
    { assert (Hl : len (print_selexprs pg ret) <= len TOTAL) by (unfold TOTAL, print_ret; destruct ret; rewrite ?print_selexprs_SNil; lens; lia).
      pose proof (HF _ Hl). pose proof (len_ses pg ret). lia. }
    clearbody F. unfold TOTAL. unfold pstmt. cbn [stmt_head]. unfold pdelete. rewrite expect_w_hit.
    assert (Hts1 : tsstop targets (TW W_using :: print_texprs pg ts ++ print_oexpr pg [TW W_where] wh ++ print_ret pg ret) = true).
    { destruct (all_ttable_last targets ltac:(assumption)) as [L1 L2]. unfold tsstop. rewrite L1, L2. reflexivity. }
    rewrite (all_Pts pg targets ltac:(assumption) ltac:(destruct targets; [discriminate|discriminate]) _ Hts1) by lia.
    rewrite expect_w_hit.
    replace (all_ttable targets) with true by (symmetry; assumption).
    assert (Hwr : hard (print_ret pg ret) = true /\ expect_w W_where (print_ret pg ret) = None /\ ustop (print_ret pg ret) = true)
      by (unfold print_ret; destruct ret; repeat split; reflexivity).
    destruct Hwr as [R1 [R2 R3]].
    assert (W4 : ustop (print_oexpr pg [TW W_where] wh ++ print_ret pg ret) = true)
      by (destruct wh; [rewrite print_oexpr_NoE; exact R3|rewrite print_oexpr_SomeE; reflexivity]).
    rewrite (all_Pts pg ts ltac:(assumption) ltac:(destruct ts; [discriminate|discriminate]) _ (ustop_tsstop ts _ W4)) by lia.
    rewrite pwhere_ok by assumption. rewrite pret_ok by assumption. reflexivity.
Qed.

End RT.

Section RTExpr.
Variable pg : bool.
(** an expression alone (the form of the C13 expression theorems, for the extended expression fragment) *)
Theorem print_parse_expr_roundtrip e : wf pg e = true -> parse_expr pg (print pg e) = Some e.
Proof.
  intros Hwf. unfold parse_expr. rewrite prec_sane_true. unfold parse_fuel.
  pose proof (len_e pg e) as Hl.
  rewrite <- (app_nil_r (print pg e)) at 2.
  rewrite (pexpr_of_C pg e [] _ (all_Cst pg e) Hwf eq_refl); [reflexivity|lia].
Qed.
End RTExpr.
