(** Composition for C09: the rows the REWRITTEN statement selects over the stored database are the rows the ORIGINAL
    statement selects over the plaintext database (or an explicit HMAC collision).
    Column resolution (Proofs/SearchResolve.v [col_setting_exact], [sel_cmp_exact]) + the condition-tree induction
    (adapted from Proofs/SearchExt.v [tree_equiv_row], reusing [index_eval]-style reasoning of Proofs/Search.v) +
    the joined-row layout of the FROM list. *)
From Coq Require Import List Bool NArith Arith Lia.
From Acra Require Import Lib.Bytes Lib.Outcome Lib.Sha256 Crypto.Interface Gen.Consts Model.Envelope Model.Search Proofs.Search
  Proofs.SearchExt Model.SearchResolveSpec Proofs.SearchResolve Model.SearchCompose.
Import ListNotations.

(** * lists *)
Lemma Forall2_filter {A B} (R : A -> B -> Prop) (f : A -> bool) (g : B -> bool) l1 l2 :
  (forall a b, R a b -> f a = g b) -> Forall2 R l1 l2 -> Forall2 R (filter f l1) (filter g l2).
Proof.
  intros Hfg H. induction H as [|a b l1 l2 Hab H IH]; [constructor|]. cbn [filter]. rewrite (Hfg a b Hab).
  destruct (g b); [constructor; assumption|exact IH].
Qed.

Lemma Forall2_app' {A B} (R : A -> B -> Prop) l1 l2 m1 m2 :
  Forall2 R l1 l2 -> Forall2 R m1 m2 -> Forall2 R (l1 ++ m1) (l2 ++ m2).
Proof. intros H1 H2. induction H1; cbn; [exact H2|constructor; assumption]. Qed.

Lemma filter_map_comm {A B} (f : A -> B) (p : B -> bool) l : filter p (map f l) = map f (filter (fun x => p (f x)) l).
Proof. induction l as [|x l IH]; [reflexivity|]. cbn. destruct (p (f x)); cbn; rewrite IH; reflexivity. Qed.

Lemma map_eq_or {A B} (R : A -> B -> Prop) (P : B -> Prop) (F : A -> bool) (G : B -> bool) l1 l2 :
  Forall2 R l1 l2 ->
  (forall a b, R a b -> In b l2 -> F a = G b \/ P b) ->
  map F l1 = map G l2 \/ exists b, In b l2 /\ P b.
Proof.
  intro H. induction H as [|a b l1 l2 Hab H IH]; intro Hp; [left; reflexivity|].
  destruct (Hp a b Hab (or_introl eq_refl)) as [E|Hc]; [|right; exists b; split; [left; reflexivity|exact Hc]].
  destruct IH as [E2|[b' [Hin Hc]]].
  - intros a' b' Hr Hin. apply Hp; [exact Hr|right; exact Hin].
  - left. cbn [map]. rewrite E, E2. reflexivity.
  - right. exists b'. split; [right; exact Hin|exact Hc].
Qed.

Lemma in_cross a b x : In x (cross a b) -> exists u v, x = u ++ v /\ In u a /\ In v b.
Proof.
  unfold cross. intro H. apply in_flat_map in H. destruct H as [u [Hu H]]. apply in_map_iff in H.
  destruct H as [v [E Hv]]. exists u, v. auto.
Qed.

Lemma Forall2_cross (R : env -> env -> Prop) a1 a2 b1 b2 :
  (forall u1 u2 v1 v2, R u1 u2 -> R v1 v2 -> R (u1 ++ v1) (u2 ++ v2)) ->
  Forall2 R a1 a2 -> Forall2 R b1 b2 -> Forall2 R (cross a1 b1) (cross a2 b2).
Proof.
  intros Happ Ha Hb. unfold cross. induction Ha as [|u1 u2 a1 a2 Hu Ha IH]; [constructor|].
  cbn [flat_map]. apply Forall2_app'; [|exact IH].
  clear -Happ Hu Hb. induction Hb as [|v1 v2 b1 b2 Hv Hb IH]; cbn [map]; constructor; [apply Happ; assumption|exact IH].
Qed.

(** * the stored image of a plaintext database *)
Section Rel.
Variable cfg : CR.rcfg.
Variable srch : list N.
Variable key : bytes.

(** a searchable cell is stored as index(plaintext) ++ envelope, a cell of a column without setting as it is; the
    stored form of an encrypted column that is not searchable is not constrained *)
Definition crow_rel (tb : bytes) (sr pr : row) : Prop :=
  forall c, match setting cfg tb c with
            | Some sid => if is_srch srch sid then exists cont : bytes, rcell sr c = blind_index key (rcell pr c) ++ cont else True
            | None => rcell sr c = rcell pr c
            end.

Definition ent_rel (s p : ent) : Prop := e_vis s = e_vis p /\ e_tb s = e_tb p /\ crow_rel (e_tb p) (e_row s) (e_row p).
Definition env_rel (s p : env) : Prop := Forall2 ent_rel s p.
Definition db_rel (sdb pdb : db) : Prop := forall n, Forall2 (crow_rel n) (tbl sdb n) (tbl pdb n).

Lemma env_rel_app u1 u2 v1 v2 : env_rel u1 u2 -> env_rel v1 v2 -> env_rel (u1 ++ v1) (u2 ++ v2).
Proof. apply Forall2_app'. Qed.

Lemma rows_t_rel sdb pdb t : db_rel sdb pdb -> Forall2 env_rel (rows_t sdb t) (rows_t pdb t).
Proof.
  intro Hdb. induction t as [n a|l IHl r IHr on|s a]; cbn [rows_t].
  - specialize (Hdb n). induction Hdb as [|sr pr ls lp Hr H IH]; cbn [map]; constructor; [|exact IH].
    constructor; [|constructor]. split; [reflexivity|]. split; [reflexivity|exact Hr].
  - apply Forall2_cross; [exact env_rel_app|exact IHl|exact IHr].
  - constructor.
Qed.

Lemma rows_f_rel sdb pdb f : db_rel sdb pdb -> Forall2 env_rel (rows_f sdb f) (rows_f pdb f).
Proof.
  intro Hdb. induction f as [|t tl IH]; cbn [rows_f].
  - constructor; constructor.
  - apply Forall2_cross; [exact env_rel_app|apply rows_t_rel; exact Hdb|exact IH].
Qed.

(** the joined rows of a FROM list have the layout of its scope *)
Definition to_scope (e : ent) : bytes * source := (e_vis e, SBase (e_tb e)).

Lemma rows_t_scope b t x : base_t t = true -> In x (rows_t b t) -> map to_scope x = scope_t t.
Proof.
  revert x. induction t as [n a|l IHl r IHr on|s a]; intros x Hb Hin; cbn [rows_t base_t scope_t] in *.
  - apply in_map_iff in Hin. destruct Hin as [rw [<- _]]. reflexivity.
  - apply andb_true_iff in Hb. destruct Hb as [Hl Hr]. apply in_cross in Hin. destruct Hin as [u [v [-> [Hu Hv]]]].
    rewrite map_app, (IHl u Hl Hu), (IHr v Hr Hv). reflexivity.
  - discriminate.
Qed.

Lemma rows_f_scope b f x : base_f f = true -> In x (rows_f b f) -> map to_scope x = scope_f f.
Proof.
  revert x. induction f as [|t tl IH]; intros x Hb Hin; cbn [rows_f base_f scope_f] in *.
  - destruct Hin as [<-|[]]. reflexivity.
  - apply andb_true_iff in Hb. destruct Hb as [Ht Htl]. apply in_cross in Hin. destruct Hin as [u [v [-> [Hu Hv]]]].
    rewrite map_app, (rows_t_scope b t u Ht Hu), (IH v Htl Hv). reflexivity.
Qed.

(** the semantic look-up IS the reference resolution with the row kept *)
Lemma resolve_env (e : env) q c :
  resolve cfg 1 (map to_scope e) q c = match ents_match cfg e q c with [x] => Some (e_tb x, c) | _ => None end.
Proof.
  cbn [resolve]. unfold ents_match. destruct (empty q).
  - rewrite filter_map_comm. cbn [to_scope snd].
    destruct (filter (fun x => base_has cfg (e_tb x) c) e) as [|x [|y tl]]; reflexivity.
  - rewrite filter_map_comm. cbn [to_scope fst].
    destruct (filter (fun x => bytes_eqb (e_vis x) q) e) as [|x [|y tl]]; reflexivity.
Qed.

Lemma ents_match_rel se pe q c : env_rel se pe -> env_rel (ents_match cfg se q c) (ents_match cfg pe q c).
Proof.
  intro H. unfold ents_match. destruct (empty q); apply Forall2_filter; try exact H.
  - intros a b (Hv & Ht & _). rewrite Ht. reflexivity.
  - intros a b (Hv & Ht & _). rewrite Hv. reflexivity.
Qed.

(** a reference the specification resolves to a searchable column: the stored cell is index(plaintext) ++ .. *)
Lemma cell_searchable from se pe q c sid :
  env_rel se pe -> map to_scope pe = scope_f from ->
  setting_of cfg (resolve cfg 1 (scope_f from) q c) = Some sid -> is_srch srch sid = true ->
  exists cont : bytes, cell_of cfg se q c = blind_index key (cell_of cfg pe q c) ++ cont.
Proof.
  intros Hrel Hsc Hset Hsr. rewrite <- Hsc, resolve_env in Hset. unfold cell_of.
  pose proof (ents_match_rel se pe q c Hrel) as Hm.
  destruct (ents_match cfg pe q c) as [|x [|y tl]]; try discriminate Hset.
  inversion Hm as [|sx px ls lp Hx Hnil]; subst. inversion Hnil; subst.
  destruct Hx as (_ & _ & Hrow). specialize (Hrow c). unfold setting in Hrow. rewrite Hset, Hsr in Hrow. exact Hrow.
Qed.

(** a reference that denotes no protected column has the same value on both sides *)
Lemma cell_clear from se pe q c :
  env_rel se pe -> map to_scope pe = scope_f from -> clear_ref cfg from q c = true ->
  cell_of cfg se q c = cell_of cfg pe q c.
Proof.
  intros Hrel Hsc Hcl. unfold clear_ref in Hcl. rewrite <- Hsc, resolve_env in Hcl. unfold cell_of.
  pose proof (ents_match_rel se pe q c Hrel) as Hm.
  destruct (ents_match cfg pe q c) as [|x [|y tl]].
  - inversion Hm; subst. reflexivity.
  - inversion Hm as [|sx px ls lp Hx Hnil]; subst. inversion Hnil; subst.
    destruct Hx as (_ & _ & Hrow). specialize (Hrow c). unfold setting in Hrow.
    destruct (setting_of cfg (Some (e_tb x, c))); [discriminate Hcl|exact Hrow].
  - inversion Hm as [|sx px ls lp Hx Hm2]; subst. inversion Hm2; subst. reflexivity.
Qed.

Lemma bi_eqb a b : bytes_eqb (blind_index key a) (blind_index key b) = bytes_eqb a b \/ hmac_collision key a b.
Proof.
  destruct (bytes_eqb a b) eqn:E.
  - apply bytes_eqb_eq in E. subst. left. apply bytes_eqb_refl.
  - destruct (bytes_eqb (blind_index key a) (blind_index key b)) eqn:E2; [|left; reflexivity].
    right. split; [apply bytes_eqb_neq; exact E|]. apply blind_index_eq. apply bytes_eqb_eq. exact E2.
Qed.

End Rel.

Lemma lit_of_cast d y : value_shape d (ECast y) = true -> lit_of d (ECast y) <> None ->
  exists v, y = EVal (VLit v) /\ lit_of d (ECast y) = Some v.
Proof.
  intros Hvs Hl. destruct d; [|discriminate Hvs]. destruct y as [| [v|i] | | | |]; try (exfalso; apply Hl; reflexivity).
  exists v. split; reflexivity.
Qed.

(** * one statement *)
Section Stmt.
Variable d : dial.
Variable cfg : CR.rcfg.
Variable srch : list N.
Variable key : bytes.
Variable mean : bytes -> bytes.
Variable h : bytes -> option bytes.
Variable like oop : bytes -> bytes -> bool.
Variable oth : N -> bytes.
Variable from : flist.
Variable binds nb : list bytes.          (* the bound values the application sent / the database receives *)

Local Notation rvp := (rv_plain cfg srch d mean from).
Local Notation evs := (ev_e cfg oth nb).
Local Notation evp := (ev_e cfg oth binds).
Local Notation ops := (op_sem like oop).

(** calculateHmac answers the index of the plaintext the value stands for *)
Definition h_spec : Prop := forall v x, h v = Some x -> x = blind_index key (mean v).

(** the class of comparisons the theorem covers.
    A comparison the code SELECTS: bare column on the left within the premises of C09_resolution_rewritten_iff_spec;
    on the right another column (then with an equality operator), a literal (PostgreSQL: possibly below a cast) or a
    bare placeholder whose bound value OnBind replaced.
    A comparison the code does NOT select: its column references denote no protected column and its placeholders
    are passed on as they are. *)
Definition cmp_ok (x : cop * expr * expr) : Prop :=
  let '(op, l, r) := x in
  match sel_cmp d cfg srch from op l r with
  | Some _ =>
      exists q c, l = ECol q c /\ ref_ok d from q /\ operand_ok d from r /\
      match r with
      | ECol _ _ => value_op d op = true
      | EVal (VPar i) => nth i nb [] = blind_index key (mean (nth i binds []))
      | _ => lit_of d r <> None
      end
  | None =>
      clear_e cfg from l = true /\ clear_e cfg from r = true /\
      forall i, In i (params_e l ++ params_e r) -> nth i nb [] = nth i binds []
  end.

(** an explicit collision between the plaintext of the searched column in a joined row and the searched plaintext /
    the plaintext of the other column, for a comparison the code selects *)
Definition cmp_collision (pe : env) (x : cop * expr * expr) : Prop :=
  let '(op, l, r) := x in
  sel_cmp d cfg srch from op l r <> None /\
  hmac_collision key (evp pe l) (rvp op l r (evp pe r)).

Lemma op_index op a b : value_op d op = true ->
  ops (norm_op d op) (blind_index key a) (blind_index key b) = ops op a b \/ hmac_collision key a b.
Proof.
  intro Hv. destruct (bi_eqb key a b) as [E|Hc]; [left|right; exact Hc].
  destruct d, op; try discriminate Hv; cbn [norm_op op_sem]; rewrite E; reflexivity.
Qed.

Hypothesis Hscope : scope_ok from.
Hypothesis Hlisted : pg_listed d cfg.
Hypothesis Hh : h_spec.


Lemma clear_eval se pe x : env_rel cfg srch key se pe -> map to_scope pe = scope_f from ->
  clear_e cfg from x = true -> (forall i, In i (params_e x) -> nth i nb [] = nth i binds []) ->
  evs se x = evp pe x.
Proof.
  intros Hrel Hsc. induction x as [q c|v|y IH|y IH|y IH|n]; intros Hcl Hpar; cbn [ev_e clear_e params_e] in *.
  - apply (cell_clear cfg srch key from); assumption.
  - destruct v as [v|i]; [reflexivity|]. apply Hpar. left. reflexivity.
  - apply IH; assumption.
  - rewrite IH by assumption. reflexivity.
  - apply IH; assumption.
  - reflexivity.
Qed.

Lemma spec_none_clear op l r : clear_e cfg from l = true -> spec_cmp cfg srch d 1 [scope_f from] op l r = None.
Proof.
  intro Hcl. unfold spec_cmp, srch_setting. destruct l as [q c| | | | |]; try reflexivity.
  cbn [clear_e] in Hcl. unfold clear_ref in Hcl. cbn [resolve_in].
  assert (Hres : forall x : option (bytes * bytes), match x with Some y => Some y | None => None end = x) by (intros [y|]; reflexivity).
  rewrite Hres. destruct (setting_of cfg (resolve cfg 1 (scope_f from) q c)); [discriminate Hcl|reflexivity].
Qed.

(** ** one comparison *)
Lemma cmp_equiv se pe op l r :
  env_rel cfg srch key se pe -> map to_scope pe = scope_f from ->
  cmp_ok (op, l, r) -> cmp_fails d cfg srch h from op l r = false ->
  ev_c cfg like oop oth nb rv_id se (let '(op', l', r') := rw_cmp d cfg srch h from op l r in CCmp op' l' r')
  = ev_c cfg like oop oth binds rvp pe (CCmp op l r)
  \/ cmp_collision pe (op, l, r).
Proof.
  intros Hrel Hsc Hok Hnf. unfold cmp_ok in Hok. unfold cmp_collision.
  destruct (sel_cmp d cfg srch from op l r) as [sid|] eqn:Esel.
  - (* selected *)
    destruct Hok as (q & c & -> & Hq & Hr & Hshape).
    pose proof (sel_cmp_exact d cfg srch from op q c r Hscope Hq Hr Hlisted) as Hspec. rewrite Esel in Hspec.
    pose proof Esel as Esel0.
    unfold sel_cmp in Esel. cbn [left_col] in Esel.
    destruct (col_setting_of d cfg from q c) as [s1|] eqn:Ecs; [|discriminate Esel].
    destruct (is_srch srch s1) eqn:Es1; cbn [negb] in Esel; [|discriminate Esel].
    rewrite (col_setting_exact d cfg from q c Hscope Hq Hlisted) in Ecs.
    destruct (cell_searchable cfg srch key from se pe q c s1 Hrel Hsc Ecs Es1) as [cont Hcell].
    assert (Hl : substr 1 HASHN (evs se (ECol q c)) = blind_index key (evp pe (ECol q c))).
    { cbn [ev_e]. rewrite Hcell. apply substr_stored. }
    unfold rw_cmp. rewrite Esel0.
    destruct r as [rq rc|[v|i]|y|y|y|n].
    + (* column = column *)
      destruct (col_setting_of d cfg from rq rc) as [s2|] eqn:Ecs2; [|discriminate Esel].
      destruct (is_srch srch s2) eqn:Es2; [|discriminate Esel].
      cbn [operand_ok] in Hr. rewrite (col_setting_exact d cfg from rq rc Hscope Hr Hlisted) in Ecs2.
      destruct (cell_searchable cfg srch key from se pe rq rc s2 Hrel Hsc Ecs2 Es2) as [cont2 Hcell2].
      cbn [ev_c rv_id rv_plain]. change (evs se (ESubstr (ECol q c))) with (substr 1 HASHN (evs se (ECol q c))).
      change (evs se (ESubstr (ECol rq rc))) with (substr 1 HASHN (evs se (ECol rq rc))). rewrite Hl.
      replace (substr 1 HASHN (evs se (ECol rq rc))) with (blind_index key (evp pe (ECol rq rc)))
        by (cbn [ev_e]; rewrite Hcell2; symmetry; apply substr_stored).
      destruct (op_index op (evp pe (ECol q c)) (evp pe (ECol rq rc)) Hshape) as [E|Hc]; [left; exact E|].
      right. split; [congruence|exact Hc].
    + (* literal *)
      destruct (value_shape d (EVal (VLit v)) && value_op d op) eqn:Evs; [|discriminate Esel].
      apply andb_true_iff in Evs. destruct Evs as [_ Hvo].
      unfold cmp_fails in Hnf. rewrite Esel0 in Hnf.
      assert (Hlit : lit_of d (EVal (VLit v)) = Some v) by (destruct d; reflexivity).
      rewrite Hlit in *. destruct (h v) as [x|] eqn:Ehv; [|discriminate Hnf].
      rewrite (Hh v x Ehv).
      cbn [ev_c rv_id rv_plain put_lit]. rewrite <- Hspec.
      assert (Hlv : evs se (match d with RMY => EConv (ESubstr (ECol q c)) | RPG => ESubstr (ECol q c) end)
                    = blind_index key (evp pe (ECol q c))) by (destruct d; exact Hl).
      rewrite Hlv. change (evs se (EVal (VLit (blind_index key (mean v))))) with (blind_index key (mean v)).
      change (evp pe (EVal (VLit v))) with v.
      destruct (op_index op (evp pe (ECol q c)) (mean v) Hvo) as [E|Hc]; [left; exact E|].
      right. split; [congruence|exact Hc].
    + (* placeholder *)
      destruct (value_shape d (EVal (VPar i)) && value_op d op) eqn:Evs; [|discriminate Esel].
      apply andb_true_iff in Evs. destruct Evs as [_ Hvo].
      assert (Hlit : lit_of d (EVal (VPar i)) = None) by (destruct d; reflexivity). rewrite Hlit.
      cbn [ev_c rv_id rv_plain]. rewrite <- Hspec.
      change (evs se (ESubstr (ECol q c))) with (substr 1 HASHN (evs se (ECol q c))). rewrite Hl.
      change (evs se (EVal (VPar i))) with (nth i nb []). change (evp pe (EVal (VPar i))) with (nth i binds []).
      rewrite Hshape.
      destruct (op_index op (evp pe (ECol q c)) (mean (nth i binds [])) Hvo) as [E|Hc]; [left; exact E|].
      right. split; [congruence|exact Hc].
    + (* PostgreSQL: cast literal *)
      destruct (value_shape d (ECast y) && value_op d op) eqn:Evs; [|discriminate Esel].
      apply andb_true_iff in Evs. destruct Evs as [Hvs Hvo].
      destruct (lit_of_cast d y Hvs Hshape) as [v [-> Hlit]].
      unfold cmp_fails in Hnf. rewrite Esel0 in Hnf. rewrite Hlit in *.
      destruct (h v) as [x|] eqn:Ehv; [|discriminate Hnf].
      rewrite (Hh v x Ehv).
      cbn [ev_c rv_id rv_plain put_lit]. rewrite <- Hspec.
      assert (Hlv : evs se (match d with RMY => EConv (ESubstr (ECol q c)) | RPG => ESubstr (ECol q c) end)
                    = blind_index key (evp pe (ECol q c))) by (destruct d; exact Hl).
      rewrite Hlv.
      change (evs se (ECast (EVal (VLit (blind_index key (mean v)))))) with (blind_index key (mean v)).
      change (evp pe (ECast (EVal (VLit v)))) with v.
      destruct (op_index op (evp pe (ECol q c)) (mean v) Hvo) as [E|Hc]; [left; exact E|].
      right. split; [congruence|exact Hc].
    + destruct d; discriminate Esel.
    + destruct d; discriminate Esel.
    + destruct d; discriminate Esel.
  - (* not selected: left as written *)
    destruct Hok as (Hcl & Hcr & Hpar). left.
    unfold rw_cmp. rewrite Esel. cbn [ev_c rv_id].
    rewrite (clear_eval se pe l Hrel Hsc Hcl) by (intros i Hi; apply Hpar, in_or_app; left; exact Hi).
    rewrite (clear_eval se pe r Hrel Hsc Hcr) by (intros i Hi; apply Hpar, in_or_app; right; exact Hi).
    unfold rv_plain. rewrite (spec_none_clear op l r Hcl). destruct r; reflexivity.
Qed.

Local Notation RC := (rw_c d cfg srch h from).
Local Notation ecs := (ev_c cfg like oop oth nb rv_id).
Local Notation ecp := (ev_c cfg like oop oth binds rvp).

Definition coll_in (pe : env) (l : list (cop * expr * expr)) : Prop := exists x, In x l /\ cmp_collision pe x.

Lemma coll_app_l pe a b : coll_in pe a -> coll_in pe (a ++ b).
Proof. intros [x [H1 H2]]. exists x. split; [apply in_or_app; left; exact H1|exact H2]. Qed.
Lemma coll_app_r pe a b : coll_in pe b -> coll_in pe (a ++ b).
Proof. intros [x [H1 H2]]. exists x. split; [apply in_or_app; right; exact H1|exact H2]. Qed.

Definition all_ok (l : list (cop * expr * expr)) : Prop :=
  forall x, In x l -> cmp_ok x /\ (let '(op, l, r) := x in cmp_fails d cfg srch h from op l r = false).

Lemma all_ok_app a b : all_ok (a ++ b) -> all_ok a /\ all_ok b.
Proof. intro H. split; intros x Hx; apply H, in_or_app; [left|right]; exact Hx. Qed.

(** ** the condition tree (the induction of tree_equiv_row on the statement type) *)
Lemma cond_equiv se pe : env_rel cfg srch key se pe -> map to_scope pe = scope_f from ->
  forall c, flat_c c = true -> all_ok (cmps_c d c) ->
  ecs se (RC c) = ecp pe c \/ coll_in pe (cmps_c d c).
Proof.
  intros Hrel Hsc. induction c as [|op l r|a IHa b IHb|a IHa b IHb|a IHa|a IHa|s|e s|op e s]; intros Hfl Hall;
    cbn [flat_c] in Hfl; try discriminate Hfl.
  - left. reflexivity.
  - destruct (Hall (op, l, r) (or_introl eq_refl)) as [Hok Hnf].
    change (RC (CCmp op l r)) with (let '(op', l', r') := rw_cmp d cfg srch h from op l r in CCmp op' l' r').
    destruct (cmp_equiv se pe op l r Hrel Hsc Hok Hnf) as [E|Hc]; [left; exact E|].
    right. exists (op, l, r). split; [left; reflexivity|exact Hc].
  - apply andb_true_iff in Hfl. destruct Hfl as [Hfa Hfb].
    change (cmps_c d (CAnd a b)) with (cmps_c d a ++ cmps_c d b) in *. destruct (all_ok_app _ _ Hall) as [Ha Hb].
    destruct (IHa Hfa Ha) as [Ea|Hc]; [|right; apply coll_app_l; exact Hc].
    destruct (IHb Hfb Hb) as [Eb|Hc]; [|right; apply coll_app_r; exact Hc].
    left. change (ecs se (RC a) && ecs se (RC b) = ecp pe a && ecp pe b). rewrite Ea, Eb. reflexivity.
  - apply andb_true_iff in Hfl. destruct Hfl as [Hfa Hfb].
    change (cmps_c d (COr a b)) with (cmps_c d a ++ cmps_c d b) in *. destruct (all_ok_app _ _ Hall) as [Ha Hb].
    destruct (IHa Hfa Ha) as [Ea|Hc]; [|right; apply coll_app_l; exact Hc].
    destruct (IHb Hfb Hb) as [Eb|Hc]; [|right; apply coll_app_r; exact Hc].
    left. change (ecs se (RC a) || ecs se (RC b) = ecp pe a || ecp pe b). rewrite Ea, Eb. reflexivity.
  - change (cmps_c d (CNot a)) with (cmps_c d a) in *.
    destruct (IHa Hfl Hall) as [Ea|Hc]; [|right; exact Hc].
    left. change (negb (ecs se (RC a)) = negb (ecp pe a)). rewrite Ea. reflexivity.
  - change (cmps_c d (CParen a)) with (cmps_c d a) in *.
    destruct (IHa Hfl Hall) as [Ea|Hc]; [|right; exact Hc].
    left. change (ecs se (RC a) = ecp pe a). exact Ea.
Qed.

(** ** the FROM list: every ON condition of every JOIN tree, and the joined rows of the rewritten list *)
Lemma on_t_equiv se pe : env_rel cfg srch key se pe -> map to_scope pe = scope_f from ->
  forall t, flat_t t = true -> all_ok (cmps_t d t) ->
  on_t cfg like oop oth nb rv_id se (rw_t d cfg srch h from t) = on_t cfg like oop oth binds rvp pe t
  \/ coll_in pe (cmps_t d t).
Proof.
  intros Hrel Hsc. induction t as [n a|l IHl r IHr on|s a]; intros Hfl Hall; cbn [flat_t] in Hfl; try discriminate Hfl.
  - left. reflexivity.
  - apply andb_true_iff in Hfl. destruct Hfl as [Hfl Hfo]. apply andb_true_iff in Hfl. destruct Hfl as [Hf1 Hf2].
    change (cmps_t d (TJoin l r on)) with (cmps_t d l ++ cmps_t d r ++ cmps_c d on) in *.
    destruct (all_ok_app _ _ Hall) as [Ha Hbc]. destruct (all_ok_app _ _ Hbc) as [Hb Hc].
    destruct (IHl Hf1 Ha) as [E1|Hx]; [|right; apply coll_app_l; exact Hx].
    destruct (IHr Hf2 Hb) as [E2|Hx]; [|right; apply coll_app_r, coll_app_l; exact Hx].
    destruct (cond_equiv se pe Hrel Hsc on Hfo Hc) as [E3|Hx]; [|right; apply coll_app_r, coll_app_r; exact Hx].
    left.
    change (on_t cfg like oop oth nb rv_id se (rw_t d cfg srch h from l) && on_t cfg like oop oth nb rv_id se (rw_t d cfg srch h from r)
            && ecs se (RC on)
            = on_t cfg like oop oth binds rvp pe l && on_t cfg like oop oth binds rvp pe r && ecp pe on).
    rewrite E1, E2, E3. reflexivity.
Qed.

Lemma on_f_equiv se pe : env_rel cfg srch key se pe -> map to_scope pe = scope_f from ->
  forall f, flat_f f = true -> all_ok (cmps_f d f) ->
  on_f cfg like oop oth nb rv_id se (rw_f d cfg srch h from f) = on_f cfg like oop oth binds rvp pe f
  \/ coll_in pe (cmps_f d f).
Proof.
  intros Hrel Hsc. induction f as [|t tl IH]; intros Hfl Hall; cbn [flat_f] in Hfl.
  - left. reflexivity.
  - apply andb_true_iff in Hfl. destruct Hfl as [Hft Hftl].
    change (cmps_f d (FCons t tl)) with (cmps_t d t ++ cmps_f d tl) in *. destruct (all_ok_app _ _ Hall) as [Ha Hb].
    destruct (on_t_equiv se pe Hrel Hsc t Hft Ha) as [E1|Hx]; [|right; apply coll_app_l; exact Hx].
    destruct (IH Hftl Hb) as [E2|Hx]; [|right; apply coll_app_r; exact Hx].
    left.
    change (on_t cfg like oop oth nb rv_id se (rw_t d cfg srch h from t) && on_f cfg like oop oth nb rv_id se (rw_f d cfg srch h from tl)
            = on_t cfg like oop oth binds rvp pe t && on_f cfg like oop oth binds rvp pe tl).
    rewrite E1, E2. reflexivity.
Qed.

Lemma rows_rw_t b t : rows_t b (rw_t d cfg srch h from t) = rows_t b t.
Proof.
  induction t as [n a|l IHl r IHr on|s a]; [reflexivity| |reflexivity].
  change (cross (rows_t b (rw_t d cfg srch h from l)) (rows_t b (rw_t d cfg srch h from r)) = cross (rows_t b l) (rows_t b r)).
  rewrite IHl, IHr. reflexivity.
Qed.

Lemma rows_rw_f b f : rows_f b (rw_f d cfg srch h from f) = rows_f b f.
Proof.
  induction f as [|t tl IH]; [reflexivity|].
  change (cross (rows_t b (rw_t d cfg srch h from t)) (rows_f b (rw_f d cfg srch h from tl)) = cross (rows_t b t) (rows_f b tl)).
  rewrite rows_rw_t, IH. reflexivity.
Qed.

End Stmt.

(** * the statement *)
Section Top.
Variable d : dial.
Variable cfg : CR.rcfg.
Variable srch : list N.
Variable key : bytes.
Variable mean : bytes -> bytes.
Variable h : bytes -> option bytes.
Variable like oop : bytes -> bytes -> bool.
Variable oth : N -> bytes.

(** the premises on a statement: those of C09_resolution_rewritten_iff_spec for every selected comparison (inside
    [cmp_ok]), the top-level scope of base tables, no sub-select *)
Definition stmt_ok (binds nb : list bytes) (s : sel) : Prop :=
  scope_ok (sel_from s) /\ flat_s s = true /\
  Forall (cmp_ok d cfg srch key mean (sel_from s) binds nb) (cmps_s d s).

Definition stmt_collision (binds : list bytes) (pdb : db) (s : sel) : Prop :=
  exists pe x, In pe (rows_f pdb (sel_from s)) /\ In x (cmps_s d s) /\
               cmp_collision d cfg srch key mean oth (sel_from s) binds pe x.

Theorem composition s s' binds nb sdb pdb :
  pg_listed d cfg -> h_spec key mean h ->
  stmt_ok binds nb s ->
  on_query d cfg srch h s = Ok s' ->
  db_rel cfg srch key sdb pdb ->
  (select_flags cfg like oop oth nb rv_id sdb s'
   = select_flags cfg like oop oth binds (rv_plain cfg srch d mean (sel_from s)) pdb s
   /\ Forall2 (env_rel cfg srch key)
        (select_rows cfg like oop oth nb rv_id sdb s')
        (select_rows cfg like oop oth binds (rv_plain cfg srch d mean (sel_from s)) pdb s))
  \/ stmt_collision binds pdb s.
Proof.
  intros Hl Hh (Hsc & Hfl & Hok) Hq Hdb.
  unfold on_query in Hq.
  destruct (existsb _ (cmps_s d s)) eqn:Ex; [discriminate Hq|]. injection Hq as <-.
  destruct s as [items from w]. cbn [sel_from] in *.
  assert (Hall : all_ok d cfg srch key mean h from binds nb (cmps_s d (Sel items from w))).
  { intros x Hx. split; [exact (proj1 (Forall_forall _ _) Hok x Hx)|].
    destruct x as [[op l] r].
    destruct (cmp_fails d cfg srch h from op l r) eqn:Ef; [|reflexivity].
    exfalso. assert (Ht : existsb (fun x => let '(op, l, r) := x in cmp_fails d cfg srch h from op l r) (cmps_s d (Sel items from w)) = true).
    { apply existsb_exists. exists (op, l, r). split; [exact Hx|exact Ef]. }
    rewrite Ht in Ex. discriminate Ex. }
  change (cmps_s d (Sel items from w)) with (cmps_f d from ++ cmps_c d w) in *.
  destruct (all_ok_app _ _ _ _ _ _ _ _ _ _ _ Hall) as [Hallf Hallw].
  unfold flat_s in Hfl. cbn [sel_from sel_where] in Hfl. apply andb_true_iff in Hfl. destruct Hfl as [Hff Hfw].
  change (rw_s d cfg srch h from (Sel items from w)) with (Sel items (rw_f d cfg srch h from from) (rw_c d cfg srch h from w)).
  unfold select_flags, select_rows. cbn [sel_from sel_where].
  rewrite rows_rw_f.
  pose proof (rows_f_rel cfg srch key sdb pdb from Hdb) as Hrows.
  assert (Hpt : forall se pe, env_rel cfg srch key se pe -> In pe (rows_f pdb from) ->
            sat cfg like oop oth nb rv_id se (Sel items (rw_f d cfg srch h from from) (rw_c d cfg srch h from w))
            = sat cfg like oop oth binds (rv_plain cfg srch d mean from) pe (Sel items from w)
            \/ coll_in d cfg srch key mean oth from binds pe (cmps_f d from ++ cmps_c d w)).
  { intros se pe Hrel Hin. pose proof (rows_f_scope pdb from pe (proj1 Hsc) Hin) as Hscope.
    unfold sat. cbn [sel_from sel_where].
    destruct (on_f_equiv d cfg srch key mean h like oop oth from binds nb Hsc Hl Hh se pe Hrel Hscope from Hff Hallf) as [E1|Hc];
      [|right; apply coll_app_l; exact Hc].
    destruct (cond_equiv d cfg srch key mean h like oop oth from binds nb Hsc Hl Hh se pe Hrel Hscope w Hfw Hallw) as [E2|Hc];
      [|right; apply coll_app_r; exact Hc].
    left. rewrite E1, E2. reflexivity. }
  destruct (map_eq_or (env_rel cfg srch key) (fun pe => coll_in d cfg srch key mean oth from binds pe (cmps_f d from ++ cmps_c d w))
              _ _ _ _ Hrows Hpt) as [E|[pe [Hin [x [Hx Hc]]]]].
  - left. split; [exact E|].
    clear -E Hrows. revert E. induction Hrows as [|se pe ls lp Hr H IH]; intro E; [constructor|].
    cbn [map] in E. injection E as E1 E2. cbn [filter]. rewrite E1.
    destruct (sat cfg like oop oth binds (rv_plain cfg srch d mean from) pe (Sel items from w)); [constructor; [exact Hr|]|]; apply IH; exact E2.
  - right. exists pe, x. auto.
Qed.

End Top.

(** * calculateHmac of the real model (Model/Search.v) is an instance of [h] *)
Definition h_of (C : crypto) (ks : keyset) (v : bytes) : option bytes :=
  match calculate_hmac C ks v with Ok x => Some x | _ => None end.

Lemma h_of_spec C ks key : ks_hmac ks = Some key -> h_spec key (mean_of C ks) (h_of C ks).
Proof.
  intros Hk v x H. unfold h_of in H. destruct (calculate_hmac C ks v) as [y| |] eqn:E; try discriminate H.
  injection H as <-. apply calculate_hmac_spec in E. destruct E as (key' & p & Hk' & Hm & ->).
  rewrite Hk in Hk'. injection Hk' as <-. rewrite (mean_of_ok C ks v p Hm). reflexivity.
Qed.

(** * HashQuery.OnBind lists the placeholder of every selected comparison  column op $i  *)
Lemma bind_all_in d cfg srch top l : forall idx x a i,
  bind_all d cfg srch top l = Ok idx -> In x l -> bind_of d cfg srch top x = Ok a -> In i a -> In i idx.
Proof.
  induction l as [|y l IH]; intros idx x a i H Hin Hb Hi; [destruct Hin|].
  cbn [bind_all] in H.
  destruct (bind_of d cfg srch top y) as [a0| |] eqn:E1; cbn [bind] in H; try discriminate H.
  destruct (bind_all d cfg srch top l) as [b0| |] eqn:E2; cbn [bind] in H; try discriminate H.
  injection H as <-. apply in_or_app. destruct Hin as [->|Hin].
  - left. rewrite Hb in E1. injection E1 as <-. exact Hi.
  - right. apply (IH b0 x a i eq_refl Hin Hb Hi).
Qed.

Lemma on_bind_lists d cfg srch s n idx op l i :
  on_bind d cfg srch s n = Ok idx -> In (op, l, EVal (VPar i)) (cmps_s d s) ->
  sel_cmp d cfg srch (sel_from s) op l (EVal (VPar i)) <> None -> In i idx /\ i < n.
Proof.
  unfold on_bind. intros H Hin Hsel.
  destruct (bind_all d cfg srch (sel_from s) (cmps_s d s)) as [ix| |] eqn:E; cbn [bind] in H; try discriminate H.
  destruct (existsb (fun i0 => Nat.leb n i0) ix) eqn:Ex; [discriminate H|]. injection H as <-.
  assert (Hi : In i ix).
  { apply (bind_all_in d cfg srch (sel_from s) (cmps_s d s) ix (op, l, EVal (VPar i)) [i] i E Hin); [|left; reflexivity].
    unfold bind_of. destruct (sel_cmp d cfg srch (sel_from s) op l (EVal (VPar i))); [reflexivity|contradiction]. }
  split; [exact Hi|].
  destruct (Nat.leb n i) eqn:El; [|apply Nat.leb_gt; exact El].
  exfalso. assert (Ht : existsb (fun i0 => Nat.leb n i0) ix = true) by (apply existsb_exists; exists i; auto).
  rewrite Ht in Ex. discriminate Ex.
Qed.

(** * a decidable sufficient condition for [db_rel] (used by the examples): same tables, same rows, same columns;
    a searchable cell starts with the index of the plaintext cell, a cell without setting is equal; every row has a
    cell for every searchable column of its table *)
Lemma lookup_last_in {A} k (l : list (bytes * A)) v : CR.lookup_last k l = Some v -> In (k, v) l.
Proof.
  induction l as [|[k' v'] l IH]; cbn [CR.lookup_last]; intro H; [discriminate H|].
  destruct (CR.lookup_last k l) as [x|].
  - injection H as ->. right. apply IH. reflexivity.
  - destruct (bytes_eqb k k') eqn:E; [|discriminate H]. injection H as ->. apply bytes_eqb_eq in E. subst. left. reflexivity.
Qed.

Lemma setting_some_in cfg tb c sid : setting cfg tb c = Some sid ->
  exists s, CR.get_schema cfg tb = Some s /\ In (c, sid) (CR.rt_enc s).
Proof.
  unfold setting, setting_of. destruct (CR.get_schema cfg tb) as [s|]; [|discriminate].
  intro H. exists s. split; [reflexivity|]. apply lookup_last_in. exact H.
Qed.

Fixpoint all2 {A B} (f : A -> B -> bool) (l1 : list A) (l2 : list B) : bool :=
  match l1, l2 with
  | [], [] => true
  | a :: l1', b :: l2' => f a b && all2 f l1' l2'
  | _, _ => false
  end.

Lemma all2_Forall2 {A B} (f : A -> B -> bool) (R : A -> B -> Prop) l1 l2 :
  (forall a b, f a b = true -> R a b) -> all2 f l1 l2 = true -> Forall2 R l1 l2.
Proof.
  intro Hf. revert l2. induction l1 as [|a l1 IH]; intros [|b l2] H; cbn [all2] in H; try discriminate H; [constructor|].
  apply andb_true_iff in H. destruct H as [H1 H2]. constructor; [apply Hf; exact H1|apply IH; exact H2].
Qed.

Section Img.
Variable cfg : CR.rcfg.
Variable srch : list N.
Variable key : bytes.

Definition pair_ok (tb : bytes) (s p : bytes * bytes) : bool :=
  bytes_eqb (fst s) (fst p) &&
  match setting cfg tb (fst p) with
  | Some sid => if is_srch srch sid then bytes_eqb (firstn HMAC_HASH_SIZE (snd s)) (blind_index key (snd p)) else true
  | None => bytes_eqb (snd s) (snd p)
  end.

Definition has_srch_cols (tb : bytes) (p : row) : bool :=
  match CR.get_schema cfg tb with
  | None => true
  | Some s => forallb (fun cs => implb (is_srch srch (snd cs)) (existsb (fun kv => bytes_eqb (fst kv) (fst cs)) p)) (CR.rt_enc s)
  end.

Definition row_img_ok (tb : bytes) (s p : row) : bool := all2 (pair_ok tb) s p && has_srch_cols tb p.
Definition db_img_ok (sdb pdb : db) : bool :=
  all2 (fun st pt => bytes_eqb (fst st) (fst pt) && all2 (row_img_ok (fst pt)) (snd st) (snd pt)) sdb pdb.

Lemma pairs_cell tb : forall (s p : row), all2 (pair_ok tb) s p = true -> forall c,
  (rcell s c = [] /\ rcell p c = [] /\ existsb (fun kv => bytes_eqb (fst kv) c) p = false) \/
  match setting cfg tb c with
  | Some sid => if is_srch srch sid then firstn HMAC_HASH_SIZE (rcell s c) = blind_index key (rcell p c) else True
  | None => rcell s c = rcell p c
  end.
Proof.
  induction s as [|a s IH]; intros [|b p] H c; cbn [all2] in H; try discriminate H.
  - left. repeat split; reflexivity.
  - apply andb_true_iff in H. destruct H as [Hab H]. unfold pair_ok in Hab. apply andb_true_iff in Hab.
    destruct Hab as [Hk Hv]. apply bytes_eqb_eq in Hk.
    unfold rcell. cbn [find existsb]. rewrite Hk. destruct (bytes_eqb (fst b) c) eqn:E.
    + right. apply bytes_eqb_eq in E. rewrite E in Hv. destruct (setting cfg tb c) as [sid|].
      * destruct (is_srch srch sid); [apply bytes_eqb_eq; exact Hv|exact I].
      * apply bytes_eqb_eq. exact Hv.
    + cbn [orb]. exact (IH p H c).
Qed.

Lemma row_img_rel tb s p : row_img_ok tb s p = true -> crow_rel cfg srch key tb s p.
Proof.
  unfold row_img_ok. intro H. apply andb_true_iff in H. destruct H as [Hp Hc]. intro c.
  destruct (pairs_cell tb s p Hp c) as [(Es & Ep & Hno)|Hyes].
  - rewrite Es, Ep. destruct (setting cfg tb c) as [sid|] eqn:Eset; [|reflexivity].
    destruct (is_srch srch sid) eqn:Esr; [|exact I]. exfalso.
    destruct (setting_some_in cfg tb c sid Eset) as [sc [Hsc Hin]]. unfold has_srch_cols in Hc. rewrite Hsc in Hc.
    pose proof (proj1 (forallb_forall _ _) Hc (c, sid) Hin) as Hx. cbn [fst snd] in Hx. rewrite Esr, Hno in Hx. discriminate Hx.
  - destruct (setting cfg tb c) as [sid|]; [|exact Hyes]. destruct (is_srch srch sid); [|exact I].
    exists (skipn HMAC_HASH_SIZE (rcell s c)). rewrite <- Hyes. symmetry. apply firstn_skipn.
Qed.

Lemma db_img_rel sdb pdb : db_img_ok sdb pdb = true -> db_rel cfg srch key sdb pdb.
Proof.
  unfold db_img_ok. revert pdb. induction sdb as [|st sdb IH]; intros [|pt pdb] H n; cbn [all2] in H; try discriminate H.
  - constructor.
  - apply andb_true_iff in H. destruct H as [Hh Ht]. apply andb_true_iff in Hh. destruct Hh as [Hn Hrows].
    apply bytes_eqb_eq in Hn. unfold tbl. cbn [find]. rewrite Hn. destruct (bytes_eqb (fst pt) n) eqn:E.
    + apply bytes_eqb_eq in E. subst n. apply (all2_Forall2 _ _ _ _ (row_img_rel (fst pt)) Hrows).
    + exact (IH pdb Ht n).
Qed.
End Img.
