(** Injectivity of the canonical byte string of the JSON audit log (C20, JSON path).

    [conv_b m] = for the members in sorted order: D name D json.Marshal(value) D  (D = the delimiter token).
    - [render_pf]: json.Marshal of decoded values is a PREFIX CODE up to the next character: from
      render v1 ++ r1 = render v2 ++ r2, with r1, r2 not continuing a number, follow v1 = v2 and r1 = r2
      (types included: the first byte tells null / boolean / number / string / array / object apart; strings
      are closed by an unescaped quote — [quote_pf], from the generated escape table; numbers are read back
      by the decoder — the hypothesis [WFV]).
    - [name_cut]: a name that does not contain D ends at the first D, because D has no border.
    - [conv_b_injective]: hence maps whose NAMES do not contain D (the side condition of known finding
      json-delimiter-ambiguity — needed: C20_json_delimiter_ambiguity_refuted) have different canonical bytes.
    - [conv_raw_not_injective]: with top-level strings authenticated as raw bytes (seeded change m60) the same
      statement is false: "1" and 1, "false" and false, "null" and null, a string and the object it spells, and
      a string holding D D name D against two members. *)
From Acra Require Import Lib.Bytes Lib.Outcome Lib.Sha256 Gen.AuditLogConsts Gen.AuditLogCanon Model.AuditLog
  Model.AuditLogJsonNum Model.AuditLogJson Model.AuditLogJsonCanon
  Proofs.AuditLogCrypto Proofs.AuditLogParse Proofs.AuditLog Proofs.AuditLogJsonMap Proofs.AuditLogJson.
#[local] Arguments render_float : simpl never.
#[local] Arguments parse_float : simpl never.
#[local] Arguments scan_number : simpl never.
#[local] Arguments asc : simpl never.

(** * lists *)
Lemma app_same_length {A} (a b x y : list A) : length a = length b -> a ++ x = b ++ y -> a = b /\ x = y.
Proof.
  revert b; induction a as [|c a IH]; intros [|d b] HL H; cbn in HL; try discriminate.
  - split; [reflexivity| exact H].
  - cbn in H. injection H as -> H. destruct (IH b (eq_add_S _ _ HL) H) as [-> ->]. split; reflexivity.
Qed.

Lemma comparable_of_app (a b x y : bytes) : a ++ x = b ++ y -> comparable a b = true.
Proof.
  intros H. apply app_eq_app in H as [l [[-> _]|[-> _]]]; unfold comparable; apply orb_true_iff.
  - right. apply starts_with_app.
  - left. apply starts_with_app.
Qed.

(** * the token ends the name *)
Lemma has_tok_false tok s : has_tok tok s = false ->
  forall j, j <= length s -> starts_with tok (skipn j s) = false.
Proof.
  unfold has_tok. destruct (index_of tok s) eqn:E; [discriminate|]. intros _. exact (index_of_none tok s E).
Qed.

Lemma border_free_spec tok l t u : border_free tok = true ->
  tok = l ++ t -> tok = t ++ u -> l <> [] -> t <> [] -> False.
Proof.
  intros HB H1 H2 Hl Ht. unfold border_free in HB. rewrite forallb_forall in HB.
  assert (length t >= 1) as L1 by (destruct t; [congruence| cbn; lia]).
  assert (length l >= 1) as L2 by (destruct l; [congruence| cbn; lia]).
  assert (length tok = length l + length t) as L3 by (rewrite H1 at 1; apply app_length).
  specialize (HB (length t)). rewrite in_seq in HB. specialize (HB ltac:(lia)).
  apply negb_true_iff, bytes_eqb_neq in HB. apply HB.
  replace (length tok - length t) with (length l) by lia.
  rewrite H2 at 1. rewrite firstn_app_len. rewrite H1. rewrite skipn_app_len. reflexivity.
Qed.

(** a non-empty piece in front of the token that still lets the token start where it started: the piece
    contains the token, or the token has a border *)
Lemma tok_shift tok l x1 x2 : border_free tok = true -> l <> [] ->
  tok ++ x1 = l ++ tok ++ x2 -> starts_with tok l = true.
Proof.
  intros HB Hl H. apply app_eq_app in H as [t [[H1 H2]|[H1 H2]]].
  - (* tok = l ++ t *)
    destruct t as [|c t'].
    + rewrite app_nil_r in H1. subst l. rewrite <- (app_nil_r tok) at 2. apply starts_with_app.
    + exfalso. symmetry in H2. apply app_eq_app in H2 as [u [[H3 H4]|[H3 H4]]].
      * (* c :: t' = tok ++ u: longer than tok *)
        apply (f_equal (@length byte)) in H1, H3. rewrite app_length in H1, H3. cbn in H1, H3.
        destruct l; [congruence|]. cbn in H1. lia.
      * (* tok = (c :: t') ++ u *)
        eapply (border_free_spec tok l (c :: t') u HB H1 H3 Hl). discriminate.
  - (* l = tok ++ t *)
    subst l. apply starts_with_app.
Qed.

Lemma name_cut tok k1 k2 x1 x2 : border_free tok = true ->
  has_tok tok k1 = false -> has_tok tok k2 = false ->
  k1 ++ tok ++ x1 = k2 ++ tok ++ x2 -> k1 = k2 /\ x1 = x2.
Proof.
  intros HB N1 N2 H.
  assert (forall k l y1 y2, has_tok tok (k ++ l) = false -> tok ++ y1 = l ++ tok ++ y2 -> l = []) as Key.
  { intros k l y1 y2 HN HE. destruct l as [|c l']; [reflexivity|]. exfalso.
    pose proof (tok_shift tok (c :: l') y1 y2 HB ltac:(discriminate) HE) as HS.
    pose proof (has_tok_false tok (k ++ c :: l') HN (length k)) as HF.
    rewrite skipn_app_len in HF. rewrite HF in HS; [discriminate|]. rewrite app_length. lia. }
  apply app_eq_app in H as [l [[H1 H2]|[H1 H2]]].
  - subst k1. pose proof (Key k2 l x2 x1 N1 H2) as E. subst l. rewrite app_nil_r. cbn [app] in H2.
    apply app_inv_head in H2. split; [reflexivity| symmetry; exact H2].
  - subst k2. pose proof (Key k1 l x1 x2 N2 H2) as E. subst l. rewrite app_nil_r. cbn [app] in H2.
    apply app_inv_head in H2. split; [reflexivity| exact H2].
Qed.

(** * numbers: a literal [scan_number] accepts consists of number characters and starts with a digit or '-' *)
Local Open Scope Z_scope.
Lemma take_digits_spec s : forall acc cnt a c r, take_digits s acc cnt = (a, c, r) ->
  exists d, s = d ++ r /\ forallb is_digit d = true /\ c = cnt + Z.of_nat (length d).
Proof.
  induction s as [|b s IH]; intros acc cnt a c r H; cbn [take_digits] in H.
  - injection H as <- <- <-. exists []. repeat split. cbn. lia.
  - destruct (is_digit b) eqn:E.
    + destruct (IH _ _ _ _ _ H) as (d & -> & Hd & ->). exists (b :: d). cbn [forallb app length]. rewrite E, Hd.
      repeat split. lia.
    + injection H as <- <- <-. exists []. repeat split. cbn. lia.
Qed.

Lemma byte_case_2d {A} (b : byte) (x y : A) :
  match b with x2d => x | _ => y end = if byte_eqb b x2d then x else y.
Proof. destruct b; reflexivity. Qed.
Lemma byte_case_2e {A} (b : byte) (x y : A) :
  match b with x2e => x | _ => y end = if byte_eqb b x2e then x else y.
Proof. destruct b; reflexivity. Qed.
Lemma byte_case_2d2b {A} (b : byte) (x y z : A) :
  match b with x2d => x | x2b => y | _ => z end = if byte_eqb b x2d then x else if byte_eqb b x2b then y else z.
Proof. destruct b; reflexivity. Qed.

Lemma digit_numchar b : is_digit b = true -> numchar b = true.
Proof. intros H. unfold numchar. rewrite H. reflexivity. Qed.
Lemma digits_numchars d : forallb is_digit d = true -> forallb numchar d = true.
Proof.
  induction d as [|b d IH]; cbn [forallb]; [reflexivity|]. intros H. apply andb_true_iff in H as [H1 H2].
  rewrite (digit_numchar b H1), (IH H2). reflexivity.
Qed.

(** the part of [scan_number] behind the sign *)
Definition scan_unsigned (neg : bool) (s0 : bytes) : option (bool * Z * Z) :=
  let '(ip, ic, s1) := take_digits s0 0 0 in
  if ic =? 0 then None else
  let '(m, fc, s2) :=
    match s1 with
    | x2e :: r => let '(m, c, r') := take_digits r ip 0 in (m, c, r')
    | _ => (ip, -1, s1)
    end in
  if fc =? 0 then None else
  let fl := Z.max fc 0 in
  match s2 with
  | [] => Some (neg, m, - fl)
  | e :: r =>
      if byte_eqb e x65 || byte_eqb e x45 then
        let '(eneg, r1) := match r with x2d :: t => (true, t) | x2b :: t => (false, t) | _ => (false, r) end in
        let '(ev, ec, r2) := take_digits r1 0 0 in
        if ec =? 0 then None else
        match r2 with
        | [] => Some (neg, m, (if eneg then - ev else ev) - fl)
        | _ => None
        end
      else None
  end.

Lemma scan_number_split lit : scan_number lit =
  match lit with
  | [] => None
  | b :: r => if byte_eqb b x2d then scan_unsigned true r else scan_unsigned false lit
  end.
Proof.
  unfold scan_number. destruct lit as [|b r]; [reflexivity|]. rewrite byte_case_2d.
  destruct (byte_eqb b x2d); reflexivity.
Qed.

Lemma scan_unsigned_chars neg s0 x : scan_unsigned neg s0 = Some x ->
  forallb numchar s0 = true /\ exists c t, s0 = c :: t /\ is_digit c = true.
Proof.
  unfold scan_unsigned. destruct (take_digits s0 0 0) as [[ip ic] s1] eqn:T0.
  destruct (take_digits_spec _ _ _ _ _ _ T0) as (d0 & -> & Hd0 & ->).
  destruct (0 + Z.of_nat (length d0) =? 0) eqn:E0; [discriminate|].
  assert (exists c t, d0 = c :: t /\ is_digit c = true) as (c0 & t0 & -> & Hc0).
  { destruct d0 as [|c t]; [cbn in E0; discriminate|]. exists c, t. cbn [forallb] in Hd0.
    apply andb_true_iff in Hd0 as [H _]. split; [reflexivity| exact H]. }
  intros H. split; [| exists c0, (t0 ++ s1); split; [reflexivity| exact Hc0]].
  rewrite forallb_app, (digits_numchars _ Hd0). cbn [andb].
  (* fraction *)
  assert (exists m fc s2 f, s1 = f ++ s2 /\ forallb numchar f = true /\
            (if fc =? 0 then None else
             match s2 with
             | [] => Some (neg, m, - Z.max fc 0)
             | e :: r =>
                 if byte_eqb e x65 || byte_eqb e x45 then
                   let '(eneg, r1) := match r with x2d :: t => (true, t) | x2b :: t => (false, t) | _ => (false, r) end in
                   let '(ev, ec, r2) := take_digits r1 0 0 in
                   if ec =? 0 then None else
                   match r2 with
                   | [] => Some (neg, m, (if eneg then - ev else ev) - Z.max fc 0)
                   | _ => None
                   end
                 else None
             end) = Some x) as (m & fc & s2 & f & -> & Hf & H2).
  { destruct s1 as [|b1 r1].
    - exists ip, (-1), [], []. repeat split. exact H.
    - rewrite byte_case_2e in H. destruct (byte_eqb b1 x2e) eqn:E1.
      + apply byte_eqb_eq in E1. subst b1.
        destruct (take_digits r1 ip 0) as [[m c] r'] eqn:T1.
        destruct (take_digits_spec _ _ _ _ _ _ T1) as (d1 & -> & Hd1 & ->).
        exists m, (0 + Z.of_nat (length d1)), r', (x2e :: d1). split; [reflexivity|]. split; [|exact H].
        cbn [forallb]. rewrite (digits_numchars _ Hd1). reflexivity.
      + exists ip, (-1), (b1 :: r1), []. repeat split. exact H. }
  clear H. rewrite forallb_app, Hf. cbn [andb].
  destruct (fc =? 0); [discriminate|].
  destruct s2 as [|e r]; [reflexivity|].
  destruct (byte_eqb e x65 || byte_eqb e x45) eqn:Ee; [|discriminate].
  assert (numchar e = true) as He.
  { unfold numchar. apply orb_true_iff in Ee as [-> | ->]; rewrite ?orb_true_r; reflexivity. }
  cbn [forallb]. rewrite He. cbn [andb].
  assert (exists (eneg : bool) r1 sg, r = sg ++ r1 /\ forallb numchar sg = true /\
            (let '(ev, ec, r2) := take_digits r1 0 0 in
             if ec =? 0 then None else
             match r2 with
             | [] => Some (neg, m, (if eneg then - ev else ev) - Z.max fc 0)
             | _ => None
             end) = Some x) as (eneg & r1 & sg & -> & Hsg & H3).
  { destruct r as [|b2 r2].
    - exists false, [], []. repeat split. exact H2.
    - rewrite byte_case_2d2b in H2. destruct (byte_eqb b2 x2d) eqn:E2; [|destruct (byte_eqb b2 x2b) eqn:E3].
      + apply byte_eqb_eq in E2. subst b2. exists true, r2, [x2d]. repeat split. exact H2.
      + apply byte_eqb_eq in E3. subst b2. exists false, r2, [x2b]. repeat split. exact H2.
      + exists false, (b2 :: r2), []. repeat split. exact H2. }
  clear H2. rewrite forallb_app, Hsg. cbn [andb].
  destruct (take_digits r1 0 0) as [[ev ec] r2] eqn:T2.
  destruct (take_digits_spec _ _ _ _ _ _ T2) as (d2 & -> & Hd2 & ->).
  destruct (0 + Z.of_nat (length d2) =? 0); [discriminate|].
  destruct r2; [|discriminate]. rewrite app_nil_r. apply digits_numchars. exact Hd2.
Qed.

Lemma shaped_spec lit : shaped lit = true ->
  forallb numchar lit = true /\ exists c t, lit = c :: t /\ (is_digit c || byte_eqb c x2d) = true.
Proof.
  unfold shaped. rewrite scan_number_split. destruct lit as [|b r]; [discriminate|].
  destruct (byte_eqb b x2d) eqn:E.
  - destruct (scan_unsigned true r) as [x|] eqn:S; [|discriminate]. intros _.
    destruct (scan_unsigned_chars _ _ _ S) as [H _]. split.
    + cbn [forallb]. rewrite H. unfold numchar. rewrite E. rewrite ?orb_true_r. reflexivity.
    + exists b, r. split; [reflexivity|]. rewrite E. apply orb_true_r.
  - destruct (scan_unsigned false (b :: r)) as [x|] eqn:S; [|discriminate]. intros _.
    destruct (scan_unsigned_chars _ _ _ S) as [H (c & t & Hc & Hd)]. split; [exact H|].
    exists c, t. split; [exact Hc|]. rewrite Hd. reflexivity.
Qed.
Local Close Scope Z_scope.

(** what the float64 decoder reads back is such a literal *)
Lemma wfv_num_shaped n : decode_num false (render_num n) = Some n -> shaped (render_num n) = true.
Proof.
  unfold decode_num, shaped, parse_float. destruct (scan_number (render_num n)); [reflexivity| discriminate].
Qed.

(** a run of characters of one class is cut off by the first character outside the class *)
Lemma span_eq (p : byte -> bool) : forall l1 l2 r1 r2,
  forallb p l1 = true -> forallb p l2 = true ->
  match r1 with [] => true | c :: _ => negb (p c) end = true ->
  match r2 with [] => true | c :: _ => negb (p c) end = true ->
  l1 ++ r1 = l2 ++ r2 -> l1 = l2 /\ r1 = r2.
Proof.
  induction l1 as [|a l1 IH]; intros [|b l2] r1 r2 H1 H2 S1 S2 H; cbn [app forallb] in *.
  - split; [reflexivity| exact H].
  - subst r1. apply andb_true_iff in H2 as [Hb _]. rewrite Hb in S1. discriminate.
  - subst r2. apply andb_true_iff in H1 as [Ha _]. rewrite Ha in S2. discriminate.
  - injection H as -> H. apply andb_true_iff in H1 as [_ H1]. apply andb_true_iff in H2 as [_ H2].
    destruct (IH l2 r1 r2 H1 H2 S1 S2 H) as [-> ->]. split; reflexivity.
Qed.

(** * strings: json.Marshal's quoting is a prefix code closed by the unescaped quote *)
Lemma table_ok : ascii_table_ok = true.
Proof. vm_compute. reflexivity. Qed.

Lemma ascii_idx b : is_ascii b = true -> N.to_nat (b2n b) < 128.
Proof. unfold is_ascii. intros H. apply N.ltb_lt in H. lia. Qed.

Lemma asc_distinct b1 b2 : is_ascii b1 = true -> is_ascii b2 = true ->
  comparable (asc b1) (asc b2) = true -> b1 = b2.
Proof.
  intros A1 A2 H. pose proof table_ok as T. unfold ascii_table_ok in T.
  apply andb_true_iff in T as [T _]. apply andb_true_iff in T as [_ T].
  rewrite forallb_forall in T. specialize (T (N.to_nat (b2n b1))). rewrite in_seq in T.
  specialize (T ltac:(pose proof (ascii_idx b1 A1); lia)).
  rewrite forallb_forall in T. specialize (T (N.to_nat (b2n b2))). rewrite in_seq in T.
  specialize (T ltac:(pose proof (ascii_idx b2 A2); lia)).
  fold (asc b1) in T. fold (asc b2) in T. rewrite H in T. cbn [negb] in T. rewrite orb_false_r in T.
  apply Nat.eqb_eq in T. apply b2n_inj. lia.
Qed.

Lemma asc_head b : is_ascii b = true ->
  exists c t, asc b = c :: t /\ is_ascii c = true /\ c <> x22 /\
              comparable (asc b) ESC_2028 = false /\ comparable (asc b) ESC_2029 = false.
Proof.
  intros A. pose proof table_ok as T. unfold ascii_table_ok in T.
  apply andb_true_iff in T as [T T3]. apply andb_true_iff in T as [T0 _]. apply Nat.eqb_eq in T0.
  rewrite forallb_forall in T3. specialize (T3 (asc b)).
  assert (In (asc b) AL_JSON_ASCII) as HI.
  { unfold asc. apply nth_In. rewrite T0. apply ascii_idx. exact A. }
  specialize (T3 HI). destruct (asc b) as [|c t]; [discriminate|].
  apply andb_true_iff in T3 as [T3 T5]. apply andb_true_iff in T3 as [T3 T4].
  apply andb_true_iff in T3 as [Tc Tq]. exists c, t. split; [reflexivity|]. split; [exact Tc|].
  split; [|split; apply negb_true_iff; assumption].
  intros ->. discriminate.
Qed.

Lemma quote_go_mute s : quote_go 0 true s = quote_go 0 false s.
Proof. destruct s; reflexivity. Qed.

Lemma quote_skip : forall n mute r, n <= length r ->
  quote_go n mute r = (if mute then [] else firstn n r) ++ quote_go 0 false (skipn n r).
Proof.
  induction n as [|n IH]; intros mute r L.
  - cbn [firstn skipn]. destruct mute; cbn [app]; [apply quote_go_mute| reflexivity].
  - destruct r as [|b r]; [cbn in L; lia|]. cbn [quote_go firstn skipn]. rewrite IH by (cbn in L; lia).
    destruct mute; reflexivity.
Qed.

Lemma sanitize_skip : forall n r, n <= length r ->
  sanitize_go n r = firstn n r ++ sanitize_go 0 (skipn n r).
Proof.
  induction n as [|n IH]; intros r L.
  - reflexivity.
  - destruct r as [|b r]; [cbn in L; lia|]. cbn [sanitize_go firstn skipn app]. rewrite IH by (cbn in L; lia). reflexivity.
Qed.

Definition tail_of (b : byte) : nat := if in_rng 194 223 b then 1 else if in_rng 224 239 b then 2 else 3.

Lemma in_rng_not_ascii lo hi b : in_rng lo hi b = true -> (128 <= lo)%N -> is_ascii b = false.
Proof.
  unfold in_rng, is_ascii. intros H L. apply andb_true_iff in H as [H _]. apply N.leb_le in H.
  apply N.ltb_ge. lia.
Qed.

Lemma utf8_tail_spec b r n : utf8_tail (b :: r) = Some n ->
  n <= length r /\ n = tail_of b /\ is_ascii b = false.
Proof.
  unfold utf8_tail, tail_of. destruct (in_rng 194 223 b) eqn:E1.
  - destruct r as [|b1 r]; [discriminate|]. destruct (cont b1); [|discriminate]. intros [= <-].
    split; [cbn; lia|]. split; [reflexivity|]. eapply in_rng_not_ascii; [exact E1| lia].
  - destruct (in_rng 224 239 b) eqn:E2.
    + destruct r as [|b1 [|b2 r]]; try discriminate.
      match goal with |- (if ?c then _ else _) = _ -> _ => destruct c end; [|discriminate]. intros [= <-].
      split; [cbn; lia|]. split; [reflexivity|]. eapply in_rng_not_ascii; [exact E2| lia].
    + destruct (in_rng 240 244 b) eqn:E3; [|discriminate].
      destruct r as [|b1 [|b2 [|b3 r]]]; try discriminate.
      match goal with |- (if ?c then _ else _) = _ -> _ => destruct c end; [|discriminate]. intros [= <-].
      split; [cbn; lia|]. split; [reflexivity|]. eapply in_rng_not_ascii; [exact E3| lia].
Qed.

(** a valid UTF-8 string is its first character (one ASCII byte, or a lead byte and its continuation bytes)
    and a valid rest *)
Lemma clean_cons b r : sanitize (b :: r) = b :: r ->
  (is_ascii b = true /\ sanitize r = r) \/
  (is_ascii b = false /\ exists n, utf8_tail (b :: r) = Some n /\ n <= length r /\ sanitize (skipn n r) = skipn n r).
Proof.
  unfold sanitize. cbn [sanitize_go]. destruct (is_ascii b) eqn:A.
  - intros H. injection H as H. left. split; [reflexivity| exact H].
  - destruct (utf8_tail (b :: r)) as [n|] eqn:U.
    + intros H. injection H as H. right. split; [reflexivity|]. exists n.
      destruct (utf8_tail_spec b r n U) as [L _]. split; [reflexivity|]. split; [exact L|].
      rewrite (sanitize_skip n r L) in H. rewrite <- (firstn_skipn n r) in H at 3.
      apply app_inv_head in H. exact H.
    + intros H. exfalso. cbn [UTF8_REPLACEMENT app] in H. injection H as Hb Hr. subst b.
      destruct r as [|b1 [|b2 r2]]; try discriminate. injection Hr as <- <- _. cbn in U. discriminate.
Qed.

Lemma quote_cons_ascii b r : is_ascii b = true -> quote_go 0 false (b :: r) = asc b ++ quote_go 0 false r.
Proof. intros A. cbn [quote_go]. rewrite A. reflexivity. Qed.

(** what is written for a multi-byte character *)
Definition mcode (s : bytes) (n : nat) : bytes :=
  if starts_with LINE_SEP s then ESC_2028 else if starts_with PARA_SEP s then ESC_2029 else firstn (S n) s.

Lemma quote_cons_multi b r n : is_ascii b = false -> utf8_tail (b :: r) = Some n -> n <= length r ->
  quote_go 0 false (b :: r) = mcode (b :: r) n ++ quote_go 0 false (skipn n r).
Proof.
  intros A U L. cbn [quote_go]. rewrite A, U. unfold mcode.
  destruct (starts_with LINE_SEP (b :: r)).
  - rewrite (quote_skip n true r L). unfold ESC_2028. rewrite <- !app_assoc. reflexivity.
  - destruct (starts_with PARA_SEP (b :: r)).
    + rewrite (quote_skip n true r L). unfold ESC_2029. rewrite <- !app_assoc. reflexivity.
    + rewrite (quote_skip n false r L). reflexivity.
Qed.

Lemma mcode_head b r n : is_ascii b = false -> exists h t, mcode (b :: r) n = h :: t /\ h <> x22 /\
  (h = x5c \/ h = b).
Proof.
  intros A. unfold mcode. destruct (starts_with LINE_SEP (b :: r)); [|destruct (starts_with PARA_SEP (b :: r))].
  - eexists _, _. split; [reflexivity|]. split; [discriminate| left; reflexivity].
  - eexists _, _. split; [reflexivity|]. split; [discriminate| left; reflexivity].
  - exists b, (firstn n r). split; [reflexivity|]. split; [|right; reflexivity]. intros ->. discriminate.
Qed.

Lemma quote_head b t : sanitize (b :: t) = b :: t ->
  exists h tl, quote_go 0 false (b :: t) = h :: tl /\ h <> x22.
Proof.
  intros C. destruct (clean_cons b t C) as [[A _]|[A (n & U & L & _)]].
  - rewrite (quote_cons_ascii b t A). destruct (asc_head b A) as (c & tl & -> & _ & Hq & _).
    exists c, (tl ++ quote_go 0 false t). split; [reflexivity| exact Hq].
  - rewrite (quote_cons_multi b t n A U L). destruct (mcode_head b t n A) as (h & tl & -> & Hq & _).
    exists h, (tl ++ quote_go 0 false (skipn n t)). split; [reflexivity| exact Hq].
Qed.

Lemma comparable_sym a b : comparable a b = comparable b a.
Proof. unfold comparable. apply orb_comm. Qed.

(** an ASCII character and a multi-byte character are written differently *)
Lemma ascii_vs_multi b1 b2 r2 n2 y1 y2 : is_ascii b1 = true -> is_ascii b2 = false ->
  asc b1 ++ y1 = mcode (b2 :: r2) n2 ++ y2 -> False.
Proof.
  intros A1 A2 H. destruct (asc_head b1 A1) as (c & t & Ec & Ac & _ & N8 & N9).
  unfold mcode in H. destruct (starts_with LINE_SEP (b2 :: r2)); [|destruct (starts_with PARA_SEP (b2 :: r2))].
  - apply comparable_of_app in H. rewrite H in N8. discriminate.
  - apply comparable_of_app in H. rewrite H in N9. discriminate.
  - rewrite Ec in H. cbn [firstn app] in H. injection H as -> _. rewrite Ac in A2. discriminate.
Qed.

(** two multi-byte characters written alike are the same character *)
Lemma multi_vs_multi b1 r1 n1 b2 r2 n2 y1 y2 :
  utf8_tail (b1 :: r1) = Some n1 -> utf8_tail (b2 :: r2) = Some n2 ->
  mcode (b1 :: r1) n1 ++ y1 = mcode (b2 :: r2) n2 ++ y2 ->
  b1 = b2 /\ n1 = n2 /\ firstn n1 r1 = firstn n2 r2 /\ y1 = y2.
Proof.
  intros U1 U2 H.
  destruct (utf8_tail_spec _ _ _ U1) as (L1 & T1 & A1). destruct (utf8_tail_spec _ _ _ U2) as (L2 & T2 & A2).
  assert (forall b r, starts_with LINE_SEP (b :: r) = true -> b = xe2 /\ firstn 2 r = [x80; xa8]) as HL.
  { intros b r E. apply starts_with_spec in E as [x E]. cbn in E. injection E as -> ->. split; reflexivity. }
  assert (forall b r, starts_with PARA_SEP (b :: r) = true -> b = xe2 /\ firstn 2 r = [x80; xa9]) as HP.
  { intros b r E. apply starts_with_spec in E as [x E]. cbn in E. injection E as -> ->. split; reflexivity. }
  unfold mcode in H.
  destruct (starts_with LINE_SEP (b1 :: r1)) eqn:E1; [|destruct (starts_with PARA_SEP (b1 :: r1)) eqn:E1'];
  (destruct (starts_with LINE_SEP (b2 :: r2)) eqn:E2; [|destruct (starts_with PARA_SEP (b2 :: r2)) eqn:E2']).
  - destruct (HL _ _ E1) as [-> F1]. destruct (HL _ _ E2) as [-> F2]. apply app_inv_head in H.
    subst n1 n2. cbn [tail_of in_rng b2n] in *. split; [reflexivity|]. split; [reflexivity|]. split; [|exact H].
    change (tail_of xe2) with 2. rewrite F1, F2. reflexivity.
  - exfalso. cbn in H. discriminate.
  - exfalso. cbn [ESC_2028 ESC_202 app firstn] in H. injection H as <- _. discriminate.
  - exfalso. cbn in H. discriminate.
  - destruct (HP _ _ E1') as [-> F1]. destruct (HP _ _ E2') as [-> F2]. apply app_inv_head in H.
    subst n1 n2. split; [reflexivity|]. split; [reflexivity|]. split; [|exact H].
    change (tail_of xe2) with 2. rewrite F1, F2. reflexivity.
  - exfalso. cbn [ESC_2029 ESC_202 app firstn] in H. injection H as <- _. discriminate.
  - exfalso. cbn [ESC_2028 ESC_202 app firstn] in H. injection H as -> _. discriminate.
  - exfalso. cbn [ESC_2029 ESC_202 app firstn] in H. injection H as -> _. discriminate.
  - cbn [firstn app] in H. injection H as -> H. assert (n1 = n2) as -> by congruence.
    split; [reflexivity|]. split; [reflexivity|].
    apply app_same_length in H; [exact H|]. rewrite !firstn_length. lia.
Qed.

Lemma quote_body_pf : forall n s1, length s1 < n -> forall s2 r1 r2,
  sanitize s1 = s1 -> sanitize s2 = s2 ->
  quote_go 0 false s1 ++ x22 :: r1 = quote_go 0 false s2 ++ x22 :: r2 -> s1 = s2 /\ r1 = r2.
Proof.
  induction n as [|n IH]; intros s1 L s2 r1 r2 C1 C2 H; [lia|].
  destruct s1 as [|b1 t1], s2 as [|b2 t2].
  - cbn in H. injection H as ->. split; reflexivity.
  - exfalso. destruct (quote_head b2 t2 C2) as (h & tl & E & Hq). rewrite E in H. cbn in H. injection H as <- _.
    apply Hq. reflexivity.
  - exfalso. destruct (quote_head b1 t1 C1) as (h & tl & E & Hq). rewrite E in H. cbn in H. injection H as -> _.
    apply Hq. reflexivity.
  - cbn [length] in L.
    destruct (clean_cons b1 t1 C1) as [[A1 K1]|[A1 (n1 & U1 & L1 & K1)]];
    destruct (clean_cons b2 t2 C2) as [[A2 K2]|[A2 (n2 & U2 & L2 & K2)]].
    + rewrite (quote_cons_ascii b1 t1 A1), (quote_cons_ascii b2 t2 A2), <- !app_assoc in H.
      pose proof (asc_distinct b1 b2 A1 A2 (comparable_of_app _ _ _ _ H)) as ->.
      apply app_inv_head in H. destruct (IH t1 ltac:(lia) t2 r1 r2 K1 K2 H) as [-> ->]. split; reflexivity.
    + exfalso. rewrite (quote_cons_ascii b1 t1 A1), (quote_cons_multi b2 t2 n2 A2 U2 L2), <- !app_assoc in H.
      exact (ascii_vs_multi _ _ _ _ _ _ A1 A2 H).
    + exfalso. rewrite (quote_cons_multi b1 t1 n1 A1 U1 L1), (quote_cons_ascii b2 t2 A2), <- !app_assoc in H.
      symmetry in H. exact (ascii_vs_multi _ _ _ _ _ _ A2 A1 H).
    + rewrite (quote_cons_multi b1 t1 n1 A1 U1 L1), (quote_cons_multi b2 t2 n2 A2 U2 L2), <- !app_assoc in H.
      destruct (multi_vs_multi _ _ _ _ _ _ _ _ U1 U2 H) as (-> & -> & F & H').
      assert (length (skipn n2 t1) < n) as L' by (rewrite skipn_length; lia).
      destruct (IH (skipn n2 t1) L' (skipn n2 t2) r1 r2 K1 K2 H') as [S ->]. split; [|reflexivity].
      rewrite <- (firstn_skipn n2 t1), <- (firstn_skipn n2 t2), F, S. reflexivity.
Qed.

Lemma quote_pf s1 s2 r1 r2 : sanitize s1 = s1 -> sanitize s2 = s2 ->
  quote s1 ++ r1 = quote s2 ++ r2 -> s1 = s2 /\ r1 = r2.
Proof.
  intros C1 C2 H. unfold quote in H. cbn [app] in H. injection H as H. rewrite <- !app_assoc in H. cbn [app] in H.
  exact (quote_body_pf (S (length s1)) s1 ltac:(lia) s2 r1 r2 C1 C2 H).
Qed.

(** * comma-separated sequences closed by a bracket *)
Section Seq.
  Context {A : Type} (it : A -> bytes) (cl : byte) (ok : A -> Prop).
  Fixpoint seq_tail (l : list A) : bytes :=
    match l with [] => [cl] | x :: r => x2c :: it x ++ seq_tail r end.
  Definition seq_body (l : list A) : bytes :=
    match l with [] => [cl] | x :: r => it x ++ seq_tail r end.

  Lemma join_seq l r : join_comma (map it l) ++ cl :: r = seq_body l ++ r.
  Proof.
    destruct l as [|x l]; [reflexivity|]. cbn [seq_body]. revert x.
    induction l as [|y l IH]; intros x.
    - cbn [map join_comma seq_tail]. rewrite <- app_assoc. reflexivity.
    - change (map it (x :: y :: l)) with (it x :: map it (y :: l)).
      change (join_comma (it x :: map it (y :: l))) with (it x ++ x2c :: join_comma (map it (y :: l))).
      rewrite <- app_assoc. cbn [app]. rewrite IH. cbn [seq_tail]. rewrite <- !app_assoc. cbn [app]. rewrite <- ?app_assoc. reflexivity.
  Qed.

  Definition item_pf (a : A) : Prop := forall b r1 r2, ok b -> stops r1 = true -> stops r2 = true ->
    it a ++ r1 = it b ++ r2 -> a = b /\ r1 = r2.
  Hypothesis Hcl : numchar cl = false.
  Hypothesis Hcl2 : cl <> x2c.
  Hypothesis Hhead : forall b, ok b -> exists c t, it b = c :: t /\ c <> cl.

  Lemma seq_tail_stops l r : stops (seq_tail l ++ r) = true.
  Proof. destruct l; cbn [seq_tail app stops]; [rewrite Hcl|]; reflexivity. Qed.

  Lemma seq_tail_pf : forall l1, Forall item_pf l1 -> forall l2 r1 r2, Forall ok l2 ->
    seq_tail l1 ++ r1 = seq_tail l2 ++ r2 -> l1 = l2 /\ r1 = r2.
  Proof.
    induction 1 as [|x l1 Hx _ IH]; intros [|y l2] r1 r2 HO H; cbn [seq_tail app] in H.
    - injection H as ->. split; reflexivity.
    - exfalso. injection H as H _. exact (Hcl2 H).
    - exfalso. injection H as H _. exact (Hcl2 (eq_sym H)).
    - injection H as H. rewrite <- !app_assoc in H. inversion HO as [|? ? Hy HO']; subst.
      destruct (Hx y _ _ Hy (seq_tail_stops l1 r1) (seq_tail_stops l2 r2) H) as [-> H'].
      destruct (IH l2 r1 r2 HO' H') as [-> ->]. split; reflexivity.
  Qed.

  Lemma seq_body_pf l1 l2 r1 r2 : Forall item_pf l1 -> Forall ok l1 -> Forall ok l2 ->
    seq_body l1 ++ r1 = seq_body l2 ++ r2 -> l1 = l2 /\ r1 = r2.
  Proof.
    intros HP HO1 HO2 H. destruct l1 as [|x l1], l2 as [|y l2]; cbn [seq_body app] in H.
    - injection H as ->. split; reflexivity.
    - exfalso. inversion HO2 as [|? ? Hy _]; subst. destruct (Hhead y Hy) as (c & t & E & Hc).
      rewrite E in H. cbn [app] in H. injection H as H _. exact (Hc (eq_sym H)).
    - exfalso. inversion HO1 as [|? ? Hy _]; subst. destruct (Hhead x Hy) as (c & t & E & Hc).
      rewrite E in H. cbn [app] in H. injection H as H _. exact (Hc H).
    - rewrite <- !app_assoc in H. inversion HP as [|? ? Hx HP']; subst. inversion HO2 as [|? ? Hy HO2']; subst.
      destruct (Hx y _ _ Hy (seq_tail_stops l1 r1) (seq_tail_stops l2 r2) H) as [-> H'].
      destruct (seq_tail_pf l1 HP' l2 r1 r2 HO2' H') as [-> ->]. split; reflexivity.
  Qed.
End Seq.

(** * json.Marshal of a decoded value: the first byte tells the type *)
Definition kind_of (v : jv) : nat :=
  match v with JNull => 0 | JBool _ => 1 | JNum _ => 2 | JStr _ => 3 | JArr _ => 4 | JObj _ => 5 end.
Definition kind_of_head (c : byte) : nat :=
  if byte_eqb c x6e then 0 else if byte_eqb c x74 || byte_eqb c x66 then 1
  else if is_digit c || byte_eqb c x2d then 2 else if byte_eqb c x22 then 3
  else if byte_eqb c x5b then 4 else if byte_eqb c x7b then 5 else 6.

Lemma render_head v : nsh v = true -> exists c t, render v = c :: t /\ kind_of_head c = kind_of v.
Proof.
  destruct v as [| b | n | s | l | m]; intros HN.
  - eexists _, _. split; reflexivity.
  - destruct b; eexists _, _; split; reflexivity.
  - cbn [nsh] in HN. destruct (shaped_spec _ HN) as (_ & c & t & E & Hd). cbn [render]. rewrite E.
    exists c, t. split; [reflexivity|]. cbn [kind_of].
    destruct c; first [reflexivity | (vm_compute in Hd; discriminate)].
  - eexists _, _. split; reflexivity.
  - eexists _, _. split; reflexivity.
  - eexists _, _. split; reflexivity.
Qed.

Lemma same_kind v1 v2 r1 r2 : nsh v1 = true -> nsh v2 = true ->
  render v1 ++ r1 = render v2 ++ r2 -> kind_of v1 = kind_of v2.
Proof.
  intros N1 N2 H. destruct (render_head v1 N1) as (c1 & t1 & E1 & K1). destruct (render_head v2 N2) as (c2 & t2 & E2 & K2).
  rewrite E1, E2 in H. cbn [app] in H. injection H as -> _. congruence.
Qed.

Definition tv (un : bool) (v : jv) : Prop := WFV un v /\ nsh v = true.
Definition mem_it (kv : bytes * jv) : bytes := let (k, x) := kv in quote k ++ x3a :: render x.
Definition mem_ok (un : bool) (kv : bytes * jv) : Prop := sanitize (fst kv) = fst kv /\ tv un (snd kv).

Lemma render_arr l : render (JArr l) = x5b :: join_comma (map render l) ++ [x5d].
Proof. reflexivity. Qed.
Lemma render_obj m : render (JObj m) = x7b :: join_comma (map mem_it m) ++ [x7d].
Proof. reflexivity. Qed.

(** json.Marshal of decoded values is a prefix code (up to the character that follows a number) *)
Lemma render_pf un : forall v1, tv un v1 -> forall v2 r1 r2, tv un v2 ->
  stops r1 = true -> stops r2 = true -> render v1 ++ r1 = render v2 ++ r2 -> v1 = v2 /\ r1 = r2.
Proof.
  induction v1 as [| b | n | s | l IH | m IH] using jv_ind'; intros [W1 N1] v2 r1 r2 [W2 N2] S1 S2 H;
    pose proof (same_kind _ _ _ _ N1 N2 H) as K; destruct v2 as [| b2 | n2 | s2 | l2 | m2]; try discriminate K; clear K.
  - apply app_inv_head in H. split; [reflexivity| exact H].
  - destruct b, b2; try (cbn in H; discriminate H); apply app_inv_head in H; (split; [reflexivity| exact H]).
  - cbn [render nsh] in *. destruct (shaped_spec _ N1) as [C1 _]. destruct (shaped_spec _ N2) as [C2 _].
    destruct (span_eq numchar _ _ _ _ C1 C2 S1 S2 H) as [E ->]. split; [|reflexivity].
    inversion W1 as [| |? D1| | |]; inversion W2 as [| |? D2| | |]; subst. rewrite E in D1. congruence.
  - cbn [render] in H. inversion W1 as [| | |? D1| |]; inversion W2 as [| | |? D2| |]; subst.
    destruct (quote_pf _ _ _ _ D1 D2 H) as [-> ->]. split; reflexivity.
  - rewrite !render_arr in H. cbn [app] in H. injection H as H. rewrite <- !app_assoc in H. cbn [app] in H.
    rewrite !join_seq in H.
    inversion W1 as [| | | |? F1|]; inversion W2 as [| | | |? F2|]; subst. cbn [nsh] in N1, N2.
    rewrite forallb_forall in N1, N2. rewrite Forall_forall in IH, F1, F2.
    destruct (seq_body_pf render x5d (tv un) eq_refl ltac:(discriminate)) with (l1 := l) (l2 := l2) (r1 := r1) (r2 := r2) as [-> ->].
    + intros b [_ Nb]. destruct (render_head b Nb) as (c & t' & E' & Kc). exists c, t'. split; [exact E'|].
      intros ->. destruct b; discriminate Kc.
    + apply Forall_forall. intros x Hx b q1 q2 Hb Q1 Q2 HE.
      exact (IH x Hx (conj (F1 x Hx) (N1 x Hx)) b q1 q2 Hb Q1 Q2 HE).
    + apply Forall_forall. intros x Hx. exact (conj (F1 x Hx) (N1 x Hx)).
    + apply Forall_forall. intros x Hx. exact (conj (F2 x Hx) (N2 x Hx)).
    + exact H.
    + split; reflexivity.
  - rewrite !render_obj in H. cbn [app] in H. injection H as H. rewrite <- !app_assoc in H. cbn [app] in H.
    rewrite !join_seq in H.
    inversion W1 as [| | | | |? _ F1]; inversion W2 as [| | | | |? _ F2]; subst. cbn [nsh] in N1, N2.
    rewrite forallb_forall in N1, N2. rewrite Forall_forall in IH, F1, F2.
    destruct (seq_body_pf mem_it x7d (mem_ok un) eq_refl ltac:(discriminate)) with (l1 := m) (l2 := m2) (r1 := r1) (r2 := r2) as [-> ->].
    + intros [k x] _. eexists _, _. split; [reflexivity| discriminate].
    + apply Forall_forall. intros [k x] Hx [k' x'] q1 q2 [Hk' Hb] Q1 Q2 HE. cbn [fst snd] in *.
      unfold mem_it in HE. rewrite <- !app_assoc in HE. destruct (F1 (k, x) Hx) as [Hk Hw]. cbn [fst snd] in Hk, Hw.
      destruct (quote_pf _ _ _ _ Hk Hk' HE) as [-> HE']. cbn [app] in HE'. injection HE' as HE'.
      destruct (IH (k', x) Hx (conj Hw (N1 (k', x) Hx)) x' q1 q2 Hb Q1 Q2 HE') as [E1 E2]. cbn [snd] in E1. subst. split; reflexivity.
    + apply Forall_forall. intros [k x] Hx. destruct (F1 (k, x) Hx) as [Hk Hw]. split; [exact Hk|].
      split; [exact Hw| exact (N1 (k, x) Hx)].
    + apply Forall_forall. intros [k x] Hx. destruct (F2 (k, x) Hx) as [Hk Hw]. split; [exact Hk|].
      split; [exact Hw| exact (N2 (k, x) Hx)].
    + exact H.
    + split; reflexivity.
Qed.

(** * the canonical byte string *)
Lemma delim_border_free : border_free AL_JSON_DELIM = true.
Proof. vm_compute. reflexivity. Qed.
Lemma delim_stops r : stops (AL_JSON_DELIM ++ r) = true.
Proof. reflexivity. Qed.
Lemma delim_nonempty r : AL_JSON_DELIM ++ r <> [].
Proof. discriminate. Qed.

Definition tvm (un : bool) (m : list (bytes * jv)) : Prop := Forall (fun kv : bytes * jv => tv un (snd kv)) m.

Theorem conv_b_injective un : forall m1 m2, tvm un m1 -> tvm un m2 ->
  names_free m1 = true -> names_free m2 = true -> conv_b m1 = conv_b m2 -> m1 = m2.
Proof.
  induction m1 as [|[k1 v1] m1 IH]; intros [|[k2 v2] m2] T1 T2 F1 F2 H.
  - reflexivity.
  - exfalso. unfold conv_b in H. cbn [flat_map fst snd] in H. rewrite <- !app_assoc in H.
    symmetry in H. exact (delim_nonempty _ H).
  - exfalso. unfold conv_b in H. cbn [flat_map fst snd] in H. rewrite <- !app_assoc in H.
    exact (delim_nonempty _ H).
  - unfold conv_b in H. cbn [flat_map fst snd] in H. rewrite <- !app_assoc in H. apply app_inv_head in H.
    cbn [names_free forallb fst] in F1, F2.
    apply andb_true_iff in F1 as [N1 F1]. apply andb_true_iff in F2 as [N2 F2]. apply negb_true_iff in N1, N2.
    inversion T1 as [|? ? V1 T1']; inversion T2 as [|? ? V2 T2']; subst. cbn [snd] in V1, V2.
    destruct (name_cut AL_JSON_DELIM k1 k2 _ _ delim_border_free N1 N2 H) as [-> H1].
    destruct (render_pf un v1 V1 v2 _ _ V2 (delim_stops _) (delim_stops _) H1) as [-> H2].
    apply app_inv_head in H2. rewrite (IH m2 T1' T2' F1 F2 H2). reflexivity.
Qed.

(** what the float64 decoder delivers prints as number literals *)
Lemma wfv_false_nsh : forall v, WFV false v -> nsh v = true.
Proof.
  induction v as [| b | n | s | l IH | m IH] using jv_ind'; intros W; cbn [nsh]; try reflexivity.
  - inversion W as [| |? D| | |]; subst. apply wfv_num_shaped. exact D.
  - inversion W as [| | | |? F|]; subst. apply forallb_forall. intros x Hx.
    rewrite Forall_forall in IH, F. exact (IH x Hx (F x Hx)).
  - inversion W as [| | | | |? _ F]; subst. apply forallb_forall. intros kv Hx.
    rewrite Forall_forall in IH, F. exact (IH kv Hx (proj2 (F kv Hx))).
Qed.

Lemma wfm_tvm un m : WFM un m -> nsh_m m = true -> tvm un m.
Proof.
  intros [_ F] N. unfold nsh_m in N. rewrite forallb_forall in N. apply Forall_forall. intros kv Hx.
  rewrite Forall_forall in F. split; [exact (proj2 (F kv Hx))| exact (N kv Hx)].
Qed.

Lemma wfm_false_tvm m : WFM false m -> tvm false m.
Proof.
  intros [S F]. apply Forall_forall. intros kv Hx. rewrite Forall_forall in F.
  split; [exact (proj2 (F kv Hx))| exact (wfv_false_nsh _ (proj2 (F kv Hx)))].
Qed.

(** decoded top-level maps (either decoder; with json.Number the literals are number-shaped — true of every
    literal the tokenizer delivers) whose NAMES do not contain the delimiter token: equal canonical bytes,
    equal maps — names, values and the TYPES of the values *)
Theorem json_canonical_injective un w1 w2 m1 m2 :
  w_ok un w1 = true -> w_ok un w2 = true -> decode_top un w1 = Some m1 -> decode_top un w2 = Some m2 ->
  nsh_m m1 = true -> nsh_m m2 = true -> names_free m1 = true -> names_free m2 = true ->
  conv_b m1 = conv_b m2 -> m1 = m2.
Proof.
  intros O1 O2 D1 D2 N1 N2 F1 F2 H.
  apply (conv_b_injective un); try assumption.
  - apply wfm_tvm; [exact (decode_top_wf un w1 m1 O1 D1)| exact N1].
  - apply wfm_tvm; [exact (decode_top_wf un w2 m2 O2 D2)| exact N2].
Qed.

Theorem json_canonical_injective_float64 w1 w2 m1 m2 :
  w_ok false w1 = true -> w_ok false w2 = true -> decode_top false w1 = Some m1 -> decode_top false w2 = Some m2 ->
  names_free m1 = true -> names_free m2 = true -> conv_b m1 = conv_b m2 -> m1 = m2.
Proof.
  intros O1 O2 D1 D2 F1 F2 H.
  apply (conv_b_injective false); try assumption.
  - apply wfm_false_tvm. exact (decode_top_wf false w1 m1 O1 D1).
  - apply wfm_false_tvm. exact (decode_top_wf false w2 m2 O2 D2).
Qed.

(** the probed layout of the running code is the modelled one (breaks when getBytes stops marshalling strings) *)
Lemma json_canon_layout : canon_layout_ok = true.
Proof. reflexivity. Qed.
Lemma json_canon_layout_spec :
  AL_JSON_CANON_PRE = AL_JSON_DELIM /\ AL_JSON_CANON_MID = AL_JSON_DELIM /\ AL_JSON_CANON_POST = AL_JSON_DELIM /\
  AL_JSON_CANON_STRING_QUOTED = true.
Proof.
  pose proof json_canon_layout as H. unfold canon_layout_ok in H.
  apply andb_true_iff in H as [H H4]. apply andb_true_iff in H as [H H3]. apply andb_true_iff in H as [H1 H2].
  apply bytes_eqb_eq in H1, H2, H3. repeat split; assumption.
Qed.

(** * what this buys the chain: an edited line in the place of an honest entry x is reported at x's successor,
    or it decodes to x's own field map (so nothing was changed), or a member name of it spells the token (the
    recorded finding), or SHA-256 collides *)
Theorem json_edited_entry_detected_or_same_map K st i (xw w' : wv) (mx : list (bytes * jv)) (px py : parsed)
        (R : list pres) c yb :
  v_calc st = c -> length (ck c) = 32 ->
  w_ok false xw = true -> decode_top false xw = Some mx -> names_free mx = true ->
  w_ok false w' = true -> wline_pres false (WLine w') = POk px -> p_new px = false ->
  p_new py = false -> p_raw py = yb -> p_integ py = fst (fst (calc_step (snd (calc_step c (conv_b mx))) yb)) ->
  detected_by (verify_pres K st i (wline_pres false (WLine w') :: POk py :: R)) (S i)
  \/ (exists m', decode_top false w' = Some m' /\
        (adel AL_INTEGRITY_KEY m' = mx \/ names_free (adel AL_INTEGRITY_KEY m') = false))
  \/ sha_collision.
Proof.
  intros Hc HL OX DX FX OW HP HNx HN HR HI.
  destruct (json_edited_entry_detected false K st i w' px py R c (conv_b mx) yb Hc HL HP HNx HN HR HI) as [D|[(m' & D1 & D2)|C]].
  - left. exact D.
  - right. left. exists m'. split; [exact D1|].
    destruct (names_free (adel AL_INTEGRITY_KEY m')) eqn:F; [left| right; reflexivity].
    apply (conv_b_injective false); try assumption.
    + destruct (decode_top_wf false w' m' OW D1) as [S FA]. apply wfm_false_tvm. split.
      * apply ssorted_adel. exact S.
      * apply Forall_adel. exact FA.
    + apply wfm_false_tvm. exact (decode_top_wf false xw mx OX DX).
  - right. right. exact C.
Qed.

(** the path over [conv_b] is the modelled path *)
Lemma json_post_with_conv_b un c w : json_post_with conv_b un c w = json_post_b un c w.
Proof. reflexivity. Qed.
Lemma write_json_with_conv_b un : forall evs c, write_json_with conv_b un c evs = write_json_b un c evs.
Proof.
  induction evs as [|[w|k] evs IH]; intros c; cbn [write_json_with write_json_b]; [reflexivity| |apply IH].
  rewrite json_post_with_conv_b. destruct (json_post_b un c w); rewrite ?IH; reflexivity.
Qed.
Lemma verify_json_with_conv_b un K ls : verify_json_with conv_b un K ls = verify_json_b un K ls.
Proof.
  reflexivity.
Qed.
