(** Basic facts about the statement-analysis model: the "map over the children, pick by index" recursion
    unfolds to the function on the child; configuration lookups; unwrapValue / UpdateExpressionValue. *)
From Coq Require Import String.
From Coq Require Import List Bool NArith ZArith Arith Lia.
From Acra Require Import Lib.Bytes Lib.Outcome Model.ColumnResolveSpec Proofs.CensorTree.
Import ListNotations.
Local Open Scope nat_scope.

(** * picking a child *)

Lemma nth_map_default {A B} (f : A -> B) (l : list A) (d : A) (i : nat) :
  nth i (map f l) (f d) = f (nth i l d).
Proof. apply map_nth. Qed.

Lemma isk_eq k t : isk k t = true <-> tkind t = k.
Proof. unfold isk. apply kind_eqb_eq. Qed.

Lemma isk_T k k' l cs : isk k (T k' l cs) = kind_eqb k' k.
Proof. reflexivity. Qed.

Lemma is_nil_isk t : is_nil t = isk K_nil t.
Proof. reflexivity. Qed.

Lemma empty_true (b : list byte) : empty b = true <-> b = [].
Proof. destruct b; cbn; split; congruence. Qed.

Lemma nonempty_false {A} (l : list A) : nonempty l = false <-> l = [].
Proof. destruct l; cbn; split; congruence. Qed.

(** * lookups *)

Lemma bytes_eqb_sym_local a b : bytes_eqb a b = bytes_eqb b a.
Proof.
  destruct (bytes_eqb a b) eqn:E.
  - apply bytes_eqb_eq in E. subst. symmetry. apply bytes_eqb_refl.
  - symmetry. apply bytes_eqb_neq. apply bytes_eqb_neq in E. congruence.
Qed.

Lemma lookup_last_app {A} k (l1 l2 : list (bytes * A)) :
  lookup_last k (l1 ++ l2) = match lookup_last k l2 with Some x => Some x | None => lookup_last k l1 end.
Proof.
  induction l1 as [|[k' v] l1 IH]; cbn [app lookup_last].
  - destruct (lookup_last k l2); reflexivity.
  - rewrite IH. destruct (lookup_last k l2); [reflexivity|]. reflexivity.
Qed.

Lemma lookup_last_in {A} k (l : list (bytes * A)) v : lookup_last k l = Some v -> In (k, v) l.
Proof.
  induction l as [|[k' v'] l IH]; cbn [lookup_last]; [discriminate|].
  destruct (lookup_last k l) eqn:E.
  - intro H; inversion H; subst. right. apply IH. reflexivity.
  - destruct (bytes_eqb k k') eqn:Ek; [|discriminate].
    intro H; inversion H; subst. apply bytes_eqb_eq in Ek. subst. left; reflexivity.
Qed.

(** with distinct keys the last entry is the first entry *)
Lemma lookup_last_find {A} k (l : list (bytes * A)) :
  NoDup (map fst l) ->
  lookup_last k l = option_map snd (find (fun e => bytes_eqb (fst e) k) l).
Proof.
  induction l as [|[k' v'] l IH]; cbn [lookup_last find map fst]; [reflexivity|].
  intro Hnd. inversion Hnd as [|? ? Hni Hnd']; subst.
  rewrite (IH Hnd'). rewrite (bytes_eqb_sym_local k' k).
  destruct (bytes_eqb k k') eqn:Ek.
  - apply bytes_eqb_eq in Ek. subst k'.
    destruct (find (fun e => bytes_eqb (fst e) k) l) as [[k2 v2]|] eqn:Ef; cbn [option_map snd]; [|reflexivity].
    exfalso. apply find_some in Ef. destruct Ef as [Hin Hk]. cbn [fst] in Hk. apply bytes_eqb_eq in Hk. subst.
    apply Hni. apply in_map_iff. exists (k, v2). split; [reflexivity|exact Hin].
  - destruct (find (fun e => bytes_eqb (fst e) k) l); reflexivity.
Qed.

(** * unwrapValue / UpdateExpressionValue *)

Lemma Forall_nth_tnil (P : tree -> Prop) cs i : P tnil -> Forall P cs -> P (nth i cs tnil).
Proof.
  intros H0 H. destruct (nth_in_or_default i cs tnil) as [Hin|Heq]; [|rewrite Heq; exact H0].
  rewrite Forall_forall in H. apply H, Hin.
Qed.

Lemma unwrap_paren l cs :
  unwrap (T K_ParenExpr l cs) tt =
  (fnum K_ParenExpr "Expr" :: fst (unwrap (nth (fnum K_ParenExpr "Expr") cs tnil) tt),
   snd (unwrap (nth (fnum K_ParenExpr "Expr") cs tnil) tt)).
Proof.
  cbn [unwrap]. change (fun _ : unit => (@nil nat, tnil)) with (unwrap tnil). rewrite nth_map_default.
  destruct (unwrap _ tt); reflexivity.
Qed.

Lemma uev_paren l cs :
  uev (T K_ParenExpr l cs) tt = option_map (cons (fnum K_ParenExpr "Expr")) (uev (nth (fnum K_ParenExpr "Expr") cs tnil) tt).
Proof.
  cbn [uev]. change (fun _ : unit => @None (list nat)) with (uev tnil). rewrite nth_map_default. reflexivity.
Qed.

(** UpdateExpressionValue replaces exactly the literal unwrapValue finds *)
Lemma uev_unwrap : forall e,
  uev e tt = if enc_literal (snd (unwrap e tt)) then Some (fst (unwrap e tt)) else None.
Proof.
  induction e as [k l cs IH] using tree_ind'.
  destruct k; try reflexivity.
  - (* ParenExpr *)
    rewrite uev_paren, unwrap_paren. cbn [fst snd].
    rewrite (Forall_nth_tnil _ cs (fnum K_ParenExpr "Expr") eq_refl IH).
    destruct (enc_literal _); reflexivity.
  - (* UnaryExpr *)
    cbn [uev unwrap].
    set (c := isk K_SQLVal (nth (fnum K_UnaryExpr "Expr") cs tnil) && is_binary_op (nth (fnum K_UnaryExpr "Operator") cs tnil)).
    destruct c; cbn [fst snd].
    + destruct (enc_literal _); reflexivity.
    + reflexivity.
Qed.

(** a child that is there *)
Lemma nth_map_present {B} (f : tree -> B) (cs : list tree) (i : nat) (dflt : B) :
  is_nil (nth i cs tnil) = false -> nth i (map f cs) dflt = f (nth i cs tnil).
Proof.
  intro H. destruct (Nat.lt_ge_cases i (length cs)) as [Hlt|Hge].
  - rewrite (nth_indep (map f cs) dflt (f tnil)); [apply map_nth|rewrite map_length; exact Hlt].
  - rewrite (nth_overflow cs tnil Hge) in H. discriminate.
Qed.
