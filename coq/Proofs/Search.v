(** Proofs about the searchable-encryption model (Model/Search.v).
    HMAC-SHA-256 is never assumed injective: exactness is a reduction to an explicit collision. *)
From Coq Require Import ZifyN ZifyNat ZifyBool.
From Acra Require Import Lib.Bytes Lib.Outcome Lib.Sha256 Crypto.Interface Gen.Consts Model.Envelope Model.Search.

(** * Output length of SHA-256 / HMAC-SHA-256 (structure only, nothing about the values) *)
Lemma round_len st kw : length st = 8 -> length (round st kw) = 8.
Proof.
  intro H. do 9 (destruct st as [|? st]; try discriminate H). reflexivity.
Qed.

Lemma fold_round_len kws : forall st, length st = 8 -> length (fold_left round kws st) = 8.
Proof.
  induction kws as [|k kws IH]; intros st H; cbn [fold_left]; [exact H|].
  apply IH, round_len, H.
Qed.

Lemma compress_len h b : length h = 8 -> length (compress h b) = 8.
Proof.
  intro H. unfold compress. cbv zeta.
  rewrite map_length, combine_length, fold_round_len by exact H. lia.
Qed.

Lemma blocks_len n : forall h bs, length h = 8 -> length (blocks h bs n) = 8.
Proof.
  induction n as [|n IH]; intros h bs H; cbn [blocks]; [exact H|].
  apply IH, compress_len, H.
Qed.

Lemma flat_map_be4_len (l : list N) : length (flat_map (be_enc 4) l) = 4 * length l.
Proof.
  induction l as [|x l IH]; [reflexivity|].
  cbn [flat_map]. rewrite app_length, be_enc_length, IH. cbn [length]. lia.
Qed.

Lemma sha256_length m : length (sha256 m) = 32.
Proof.
  unfold sha256. cbv zeta. rewrite flat_map_be4_len, blocks_len; reflexivity.
Qed.

Lemma hmac_length k m : length (hmac_sha256 k m) = 32.
Proof. unfold hmac_sha256. cbv zeta. apply sha256_length. Qed.

Lemma hash_size_33 : HMAC_HASH_SIZE = 33.
Proof. reflexivity. Qed.

Lemma blind_index_length k v : length (blind_index k v) = HMAC_HASH_SIZE.
Proof. unfold blind_index, generate_hmac. cbn [length]. rewrite hmac_length. reflexivity. Qed.

(** an explicit collision of HMAC-SHA-256 under [key]: two distinct messages with the same MAC *)
Definition hmac_collision (key m1 m2 : bytes) : Prop :=
  m1 <> m2 /\ hmac_sha256 key m1 = hmac_sha256 key m2.

Lemma blind_index_eq key a b : blind_index key a = blind_index key b <-> hmac_sha256 key a = hmac_sha256 key b.
Proof.
  unfold blind_index, generate_hmac. split; intro H; [injection H as H; exact H | rewrite H; reflexivity].
Qed.

(** * The storage's substring of a stored value is the index *)
Lemma substr_stored key p (cont : bytes) : substr 1 HASHN (blind_index key p ++ cont) = blind_index key p.
Proof.
  unfold substr, HASHN. rewrite Nat2N.id. cbn [N.sub N.to_nat skipn Pos.sub].
  replace (N.to_nat (1 - 1)) with 0 by reflexivity. cbn [skipn].
  apply firstn_app_len'. symmetry. apply blind_index_length.
Qed.

Lemma index_matches_stored key p cont idx :
  index_matches (blind_index key p ++ cont) idx = bytes_eqb (blind_index key p) idx.
Proof. unfold index_matches. rewrite substr_stored. reflexivity. Qed.

(** * search_exact, one row.  [<-] needs nothing; [->] is the reduction. *)
Lemma search_complete key p cont : index_matches (blind_index key p ++ cont) (blind_index key p) = true.
Proof. rewrite index_matches_stored. apply bytes_eqb_refl. Qed.

Lemma search_exact key p cont v :
  (index_matches (blind_index key p ++ cont) (blind_index key v) = true <-> p = v)
  \/ hmac_collision key p v.
Proof.
  rewrite index_matches_stored.
  destruct (bytes_eqb p v) eqn:Epv.
  - apply bytes_eqb_eq in Epv. subst v. left. split; intro; [reflexivity | apply bytes_eqb_refl].
  - apply bytes_eqb_neq in Epv.
    destruct (bytes_eqb (blind_index key p) (blind_index key v)) eqn:Ei.
    + right. split; [exact Epv|]. apply bytes_eqb_eq in Ei. apply blind_index_eq, Ei.
    + left. split; intro H; [discriminate H | contradiction].
Qed.

Lemma search_exact_neq key p cont v :
  (negb (index_matches (blind_index key p ++ cont) (blind_index key v)) = true <-> p <> v)
  \/ hmac_collision key p v.
Proof.
  destruct (search_exact key p cont v) as [[H1 H2]|Hc]; [left | right; exact Hc].
  destruct (index_matches (blind_index key p ++ cont) (blind_index key v)); cbn [negb]; split; intro H.
  - discriminate H.
  - exfalso. apply H, H1. reflexivity.
  - intro E. apply H2 in E. discriminate E.
  - reflexivity.
Qed.

(** * search_exact for a table: any list of stored rows (plaintext, container), any searched value *)
Definition stored_of (key : bytes) (r : bytes * bytes) : bytes := blind_index key (fst r) ++ snd r.

Definition collision_in (key : bytes) (plains : list bytes) (v : bytes) : Prop :=
  exists p, In p plains /\ hmac_collision key p v.

Lemma collision_in_cons key a l v : collision_in key l v -> collision_in key (a :: l) v.
Proof. intros [p [Hin Hc]]. exists p. split; [right; exact Hin | exact Hc]. Qed.

Lemma table_search_exact key (rows : list (bytes * bytes)) v :
  select_eq (blind_index key v) (map (stored_of key) rows)
    = map (stored_of key) (filter (fun r => bytes_eqb (fst r) v) rows)
  \/ collision_in key (map fst rows) v.
Proof.
  induction rows as [|[p cont] rows IH]; [left; reflexivity|].
  destruct IH as [IH|IH]; [| right; apply collision_in_cons, IH].
  destruct (search_exact key p cont v) as [[H1 H2]|Hc].
  - left. unfold select_eq in *. cbn [map filter fst snd]. unfold stored_of at 1. cbn [fst snd].
    destruct (bytes_eqb p v) eqn:Epv.
    + apply bytes_eqb_eq in Epv. rewrite (H2 Epv). cbn [map]. rewrite IH. reflexivity.
    + destruct (index_matches (blind_index key p ++ cont) (blind_index key v)) eqn:Em.
      * apply bytes_eqb_neq in Epv. exfalso. apply Epv, H1. reflexivity.
      * exact IH.
  - right. exists p. split; [left; reflexivity | exact Hc].
Qed.

Lemma table_search_exact_neq key (rows : list (bytes * bytes)) v :
  select_neq (blind_index key v) (map (stored_of key) rows)
    = map (stored_of key) (filter (fun r => negb (bytes_eqb (fst r) v)) rows)
  \/ collision_in key (map fst rows) v.
Proof.
  induction rows as [|[p cont] rows IH]; [left; reflexivity|].
  destruct IH as [IH|IH]; [| right; apply collision_in_cons, IH].
  destruct (search_exact key p cont v) as [[H1 H2]|Hc].
  - left. unfold select_neq in *. cbn [map filter fst snd]. unfold stored_of at 1. cbn [fst snd].
    destruct (bytes_eqb p v) eqn:Epv.
    + apply bytes_eqb_eq in Epv. rewrite (H2 Epv). cbn [negb]. exact IH.
    + destruct (index_matches (blind_index key p ++ cont) (blind_index key v)) eqn:Em.
      * apply bytes_eqb_neq in Epv. exfalso. apply Epv, H1. reflexivity.
      * cbn [negb map]. rewrite IH. reflexivity.
  - right. exists p. split; [left; reflexivity | exact Hc].
Qed.

Section WithCrypto.
Variable C : crypto.

(** what a written / searched value stands for: an envelope of the owner stands for its content *)
Definition meaning (ks : keyset) (data : bytes) : res bytes :=
  if registry_match data then registry_process C ks data else Ok data.

(** * Insert path *)
Lemma stored_index id ks tape data s :
  searchable_encrypt C id ks tape data = Ok s ->
  exists key p cont, ks_hmac ks = Some key /\ meaning ks data = Ok p /\ s = blind_index key p ++ cont.
Proof.
  unfold searchable_encrypt, meaning. intro H.
  destruct (ks_hmac ks) as [key|]; [|discriminate H].
  destruct (registry_match data).
  - destruct (registry_process C ks data) as [dec| |]; try discriminate H.
    injection H as H. exists key, dec, data. auto.
  - destruct (encrypt_with_handler C id ks tape data) as [enc| |]; try discriminate H.
    injection H as H. exists key, data, enc. auto.
Qed.

Lemma calculate_hmac_spec ks v idx :
  calculate_hmac C ks v = Ok idx <->
  exists key p, ks_hmac ks = Some key /\ meaning ks v = Ok p /\ idx = blind_index key p.
Proof.
  unfold calculate_hmac, meaning. split.
  - intro H. destruct (registry_match v); cbn [negb] in H.
    + destruct (registry_process C ks v) as [dec| |]; try discriminate H.
      destruct (ks_hmac ks) as [key|]; [|discriminate H]. injection H as H. exists key, dec. auto.
    + destruct (ks_hmac ks) as [key|]; [|discriminate H]. injection H as H. exists key, v. auto.
  - intros [key [p [Hk [Hm Hi]]]]. subst idx. rewrite Hk.
    destruct (registry_match v); cbn [negb].
    + rewrite Hm. reflexivity.
    + injection Hm as Hm. subst p. reflexivity.
Qed.

(** index_deterministic: same owner key, same plaintext => same first 33 bytes, whatever the
    envelope type, the randomness, or whether the application sent plaintext or an envelope *)
Lemma index_deterministic id1 id2 ks tape1 tape2 d1 d2 s1 s2 p :
  searchable_encrypt C id1 ks tape1 d1 = Ok s1 ->
  searchable_encrypt C id2 ks tape2 d2 = Ok s2 ->
  meaning ks d1 = Ok p -> meaning ks d2 = Ok p ->
  firstn HMAC_HASH_SIZE s1 = firstn HMAC_HASH_SIZE s2.
Proof.
  intros H1 H2 M1 M2.
  apply stored_index in H1. destruct H1 as [k1 [p1 [c1 [K1 [P1 E1]]]]].
  apply stored_index in H2. destruct H2 as [k2 [p2 [c2 [K2 [P2 E2]]]]].
  rewrite M1 in P1. rewrite M2 in P2. injection P1 as P1. injection P2 as P2. subst p1 p2.
  rewrite K1 in K2. injection K2 as K2. subst k2 s1 s2.
  rewrite !firstn_app_len' by (symmetry; apply blind_index_length). reflexivity.
Qed.

(** index_uses_owner_key: the index written at INSERT and the index put into the WHERE clause are both
    HMAC(the HMAC key the keyset of the acting client resolves to, plaintext); they coincide whenever the
    key and the plaintext coincide (even across different keysets / sessions sharing that key) *)
Lemma index_uses_owner_key id ks ks' tape data s v idx p :
  searchable_encrypt C id ks tape data = Ok s ->
  calculate_hmac C ks' v = Ok idx ->
  ks_hmac ks = ks_hmac ks' ->
  meaning ks data = Ok p -> meaning ks' v = Ok p ->
  exists key, ks_hmac ks = Some key /\ idx = blind_index key p /\ index_matches s idx = true.
Proof.
  intros H1 H2 HK M1 M2.
  apply stored_index in H1. destruct H1 as [k1 [p1 [c1 [K1 [P1 E1]]]]].
  apply calculate_hmac_spec in H2. destruct H2 as [k2 [p2 [K2 [P2 E2]]]].
  rewrite M1 in P1. rewrite M2 in P2. injection P1 as P1. injection P2 as P2. subst p1 p2.
  rewrite HK, K2 in K1. injection K1 as K1. subst k2.
  exists k1. rewrite HK, K2. subst s idx. repeat split. apply search_complete.
Qed.

(** * literal and placeholder give the same condition value *)
Lemma rewrite_literal ks schema neg col v rc :
  searchable schema col = true ->
  rewrite_cond C ks schema (SCmp neg col (OLit v)) = Ok rc ->
  exists idx, calculate_hmac C ks v = Ok idx /\ rc = RSub neg col 1 HASHN (OLit idx).
Proof.
  intros Hs H. cbn [rewrite_cond] in H. rewrite Hs in H.
  destruct (calculate_hmac C ks v) as [idx| |]; cbn [bind] in H; try discriminate H.
  destruct (bytes_eqb idx v); [discriminate H|]. injection H as H. exists idx. auto.
Qed.

Lemma placeholder_bind ks schema neg col v nb :
  searchable schema col = true ->
  on_bind C ks schema (SCmp neg col (OParam 0)) [v] = Ok nb ->
  exists idx, calculate_hmac C ks v = Ok idx /\ nb = [idx].
Proof.
  intros Hs H. unfold on_bind in H. cbn [bind_indexes] in H. rewrite Hs in H.
  cbn [existsb length Nat.leb orb replace_values Nat.eqb nth] in H.
  destruct (calculate_hmac C ks v) as [idx| |]; cbn [bind] in H; try discriminate H.
  cbn [replace_values set_nth] in H. injection H as H. exists idx. auto.
Qed.

Lemma literal_and_placeholder_agree ks schema neg col v rc rc' nb :
  searchable schema col = true ->
  rewrite_cond C ks schema (SCmp neg col (OLit v)) = Ok rc ->
  rewrite_cond C ks schema (SCmp neg col (OParam 0)) = Ok rc' ->
  on_bind C ks schema (SCmp neg col (OParam 0)) [v] = Ok nb ->
  (exists idx, rc = RSub neg col 1 HASHN (OLit idx) /\ rc' = RSub neg col 1 HASHN (OParam 0) /\ nb = [idx])
  /\ forall row, eval_rcond [] row rc = eval_rcond nb row rc'.
Proof.
  intros Hs H1 H2 H3.
  apply rewrite_literal in H1; [|exact Hs]. destruct H1 as [idx [Hc Hrc]].
  apply placeholder_bind in H3; [|exact Hs]. destruct H3 as [idx' [Hc' Hnb]].
  rewrite Hc in Hc'. injection Hc' as Hc'. subst idx'.
  cbn [rewrite_cond] in H2. rewrite Hs in H2. injection H2 as H2. subst rc rc' nb.
  split; [exists idx; auto|]. intro row. reflexivity.
Qed.

(** * the whole round for one protected comparison: rows written through the insert path, condition
    rewritten by OnQuery (literal) or OnQuery+OnBind (placeholder), evaluated by the storage *)
Definition row_holds (key : bytes) (col : nat) (row : list bytes) (p : bytes) : Prop :=
  exists cont, cell row col = blind_index key p ++ cont.

Lemma flags_exact key col neg pv : forall (rows : list (list bytes)) (plains : list bytes),
  Forall2 (row_holds key col) rows plains ->
  map (fun row => xorb neg (bytes_eqb (substr 1 HASHN (cell row col)) (blind_index key pv))) rows
    = map (fun p => xorb neg (bytes_eqb p pv)) plains
  \/ collision_in key plains pv.
Proof.
  intros rows plains HF. induction HF as [|row p rows plains [cont Hrow] HF IH]; [left; reflexivity|].
  destruct IH as [IH|IH]; [|right; apply collision_in_cons, IH].
  destruct (search_exact key p cont pv) as [[H1 H2]|Hc].
  - left. cbn [map]. rewrite IH. f_equal. f_equal. rewrite Hrow.
    unfold index_matches in H1, H2.
    destruct (bytes_eqb p pv) eqn:Epv.
    + apply bytes_eqb_eq in Epv. apply H2, Epv.
    + destruct (bytes_eqb (substr 1 HASHN (blind_index key p ++ cont)) (blind_index key pv)) eqn:Em; [|reflexivity].
      apply bytes_eqb_neq in Epv. exfalso. apply Epv, H1. reflexivity.
  - right. exists p. split; [left; reflexivity | exact Hc].
Qed.

Theorem query_exact_literal ks key schema col neg v pv rows plains flags :
  searchable schema col = true -> ks_hmac ks = Some key -> meaning ks v = Ok pv ->
  Forall2 (row_holds key col) rows plains ->
  run_query C ks schema rows (SCmp neg col (OLit v)) [] = Ok flags ->
  flags = map (fun p => xorb neg (bytes_eqb p pv)) plains \/ collision_in key plains pv.
Proof.
  intros Hs Hk Hm HF H. unfold run_query in H.
  destruct (rewrite_cond C ks schema (SCmp neg col (OLit v))) as [rc| |] eqn:Er; cbn [bind] in H; try discriminate H.
  apply rewrite_literal in Er; [|exact Hs]. destruct Er as [idx [Hc Hrc]].
  apply calculate_hmac_spec in Hc. destruct Hc as [k' [p' [Hk' [Hm' Hi]]]].
  rewrite Hk in Hk'. injection Hk' as Hk'. rewrite Hm in Hm'. injection Hm' as Hm'. subst k' p' idx rc.
  unfold on_bind in H. cbn [bind_indexes] in H.
  cbn [existsb replace_values bind] in H. injection H as H. subst flags.
  cbn [eval_rcond operand_value]. apply (flags_exact key col neg pv rows plains HF).
Qed.

Theorem query_exact_placeholder ks key schema col neg v pv rows plains flags :
  searchable schema col = true -> ks_hmac ks = Some key -> meaning ks v = Ok pv ->
  Forall2 (row_holds key col) rows plains ->
  run_query C ks schema rows (SCmp neg col (OParam 0)) [v] = Ok flags ->
  flags = map (fun p => xorb neg (bytes_eqb p pv)) plains \/ collision_in key plains pv.
Proof.
  intros Hs Hk Hm HF H. unfold run_query in H.
  cbn [rewrite_cond] in H. rewrite Hs in H. cbn [bind] in H.
  destruct (on_bind C ks schema (SCmp neg col (OParam 0)) [v]) as [nb| |] eqn:Eb; cbn [bind] in H; try discriminate H.
  apply placeholder_bind in Eb; [|exact Hs]. destruct Eb as [idx [Hc Hnb]].
  apply calculate_hmac_spec in Hc. destruct Hc as [k' [p' [Hk' [Hm' Hi]]]].
  rewrite Hk in Hk'. injection Hk' as Hk'. rewrite Hm in Hm'. injection Hm' as Hm'. subst k' p' idx nb.
  injection H as H. subst flags.
  cbn [eval_rcond operand_value nth]. apply (flags_exact key col neg pv rows plains HF).
Qed.

(** * mismatching_index_not_delivered *)
Lemma extract_hash_shape d hp cd :
  extract_hash d = Some (hp, cd) ->
  d = hp ++ cd /\ length hp = HMAC_HASH_SIZE /\ hp = HMAC_FUNC_SHA256 :: skipn 1 hp.
Proof.
  unfold extract_hash. remember HMAC_HASH_SIZE as n eqn:En.
  destruct d as [|f d'] eqn:Ed; [discriminate|]. rewrite <- Ed.
  destruct (byte_eqb f HMAC_FUNC_SHA256) eqn:Ef; cbn [negb]; [|discriminate].
  destruct (Nat.ltb (length d) n) eqn:El; [discriminate|].
  intro H. injection H as H1 H2. apply Nat.ltb_ge in El.
  subst hp cd. repeat split.
  - symmetry. apply firstn_skipn.
  - rewrite firstn_length. lia.
  - rewrite Ed. apply byte_eqb_eq in Ef. subst f n. rewrite hash_size_33. reflexivity.
Qed.

Lemma hash_equal_is_index hp dec ks key :
  length hp = HMAC_HASH_SIZE -> hp = HMAC_FUNC_SHA256 :: skipn 1 hp -> ks_hmac ks = Some key ->
  (hash_is_equal hp dec ks = true <-> hp = blind_index key dec).
Proof.
  intros Hl Hs Hk. unfold hash_is_equal. rewrite Hk. rewrite bytes_eqb_eq.
  unfold blind_index, generate_hmac. split; intro H.
  - rewrite Hs, H. reflexivity.
  - rewrite H. reflexivity.
Qed.

(** column hash processor (hmac.NewHashProcessor over any data processor) *)
Theorem hash_processor_delivers_only_matching proc ks key data hp cd dec :
  ks_hmac ks = Some key ->
  extract_hash data = Some (hp, cd) ->
  hash_processor proc ks data = Ok dec ->
  proc cd = Ok dec /\ hp = blind_index key dec.
Proof.
  intros Hk He H. unfold hash_processor in H. rewrite He in H.
  destruct (extract_hash_shape _ _ _ He) as [_ [Hl Hs]].
  destruct (proc cd) as [d| |] eqn:Ep; try discriminate H.
  destruct (hash_is_equal hp d ks) eqn:Eh; [|discriminate H].
  injection H as H. subst d. split; [reflexivity|].
  apply (hash_equal_is_index hp dec ks key Hl Hs Hk), Eh.
Qed.

Theorem mismatching_index_not_delivered_processor proc ks key data hp cd dec :
  ks_hmac ks = Some key ->
  extract_hash data = Some (hp, cd) ->
  proc cd = Ok dec -> hp <> blind_index key dec ->
  exists e, hash_processor proc ks data = Err e.
Proof.
  intros Hk He Hp Hne. unfold hash_processor. rewrite He, Hp.
  destruct (extract_hash_shape _ _ _ He) as [_ [Hl Hs]].
  destruct (hash_is_equal hp dec ks) eqn:Eh.
  - exfalso. apply Hne. apply (hash_equal_is_index hp dec ks key Hl Hs Hk), Eh.
  - eexists. reflexivity.
Qed.

(** translator: DecryptSearchable / DecryptSymSearchable *)
Definition tr_input (data : bytes) (hash : option bytes) : bytes :=
  match hash with Some h => h ++ data | None => data end.

Theorem translator_delivers_only_matching id ks key data hash dec :
  ks_hmac ks = Some key ->
  tr_decrypt_searchable C id ks data hash = Ok dec ->
  exists hp cd, extract_hash (tr_input data hash) = Some (hp, cd)
    /\ decrypt_with_handler C id ks cd = Ok dec /\ hp = blind_index key dec.
Proof.
  intros Hk H. unfold tr_decrypt_searchable in H. cbv zeta in H.
  change (match hash with Some h => h ++ data | None => data end) with (tr_input data hash) in H.
  destruct (extract_hash (tr_input data hash)) as [[hp cd]|] eqn:He; [|discriminate H].
  destruct (extract_hash_shape _ _ _ He) as [_ [Hl Hs]].
  destruct (decrypt_with_handler C id ks cd) as [d| |] eqn:Ed; try discriminate H.
  destruct (hash_is_equal hp d ks) eqn:Eh; [|discriminate H].
  injection H as H. subst d. exists hp, cd. split; [reflexivity|]. split; [exact Ed|].
  apply (hash_equal_is_index hp dec ks key Hl Hs Hk), Eh.
Qed.

Theorem mismatching_index_not_delivered_translator id ks key data hash hp cd dec :
  ks_hmac ks = Some key ->
  extract_hash (tr_input data hash) = Some (hp, cd) ->
  decrypt_with_handler C id ks cd = Ok dec -> hp <> blind_index key dec ->
  exists e, tr_decrypt_searchable C id ks data hash = Err e.
Proof.
  intros Hk He Hd Hne. unfold tr_decrypt_searchable. cbv zeta.
  change (match hash with Some h => h ++ data | None => data end) with (tr_input data hash). rewrite He, Hd.
  destruct (extract_hash_shape _ _ _ He) as [_ [Hl Hs]].
  destruct (hash_is_equal hp dec ks) eqn:Eh.
  - exfalso. apply Hne. apply (hash_equal_is_index hp dec ks key Hl Hs Hk), Eh.
  - eexists. reflexivity.
Qed.

End WithCrypto.
