(** C02, envelope part: what a successful reveal under a keyset proves (soundness: exactly which bytes were
    opened with which key of the REVEALING keyset), and the cross-client corollaries stated as reductions:
    a value protected for A is revealed under B's keyset only if B's keyset contains a key that opens A's
    key block (a shared key, or an explicit AEAD forgery witness).  Nothing is assumed about the AEAD beyond
    [Correct C] (no unforgeability / key commitment: these would be unsatisfiable for a fixed overhead). *)
From Acra Require Import Lib.Bytes Lib.Outcome Lib.Sha256 Crypto.Interface Gen.Consts Model.Envelope
  Proofs.Envelope Proofs.EnvelopeHandlers Proofs.Scanner.
From Coq Require Import ZifyN ZifyNat ZifyBool.

(** * byte positions named by the wire formats *)
Definition as_pub_of (data : bytes) : bytes := sub AS_TAG_LEN AS_PUBKEY_LEN data.
Definition as_wrapped_of (data : bytes) : bytes := sub (AS_PUBKEY_LEN + AS_TAG_LEN) AS_SMSG_LEN data.
Definition as_payload_of (data : bytes) : bytes := skipn as_min data.

Definition ab_ksz (b : bytes) : nat := N.to_nat (le_dec (sub AB_DEK_LEN_POS AB_DEK_LEN_SIZE b)).
Definition ab_kid_of (b : bytes) : bytes := sub AB_KEY_ID_POS AB_KEY_ID_SIZE b.
Definition ab_ek_of (b : bytes) : bytes := sub AB_ENC_KEY_POS (ab_ksz b) b.
Definition ab_ed_of (b : bytes) : bytes := skipn (AB_MIN_SIZE + ab_ksz b) b.

Lemma skipn_skipn {A} (x y : nat) (l : list A) : skipn x (skipn y l) = skipn (x + y) l.
Proof.
  revert l. induction y as [|y IH]; intros l; [rewrite Nat.add_0_r; reflexivity|].
  rewrite Nat.add_succ_r. destruct l as [|a l]; [rewrite !skipn_nil; reflexivity|]. cbn [skipn]. apply IH.
Qed.

Section Sound.
Variable C : crypto.

(** ** AcraStruct: [priv] unwrapped the key block at its declared position, the unwrapped key opened the payload *)
Definition as_opened (data priv ctx y : bytes) : Prop :=
  as_validate data = true /\
  exists symkey, msg_unwrap C priv (as_pub_of data) (as_wrapped_of data) = Some symkey /\
                 cell_decrypt C symkey ctx (as_payload_of data) = Some y.

Theorem reveal_sound_as data priv ctx y :
  as_decrypt C data priv ctx = Ok y <-> as_opened data priv ctx y.
Proof.
  unfold as_decrypt, as_opened, as_pub_of, as_wrapped_of, as_payload_of, sub.
  rewrite !skipn_skipn.
  replace (as_key_block + AS_DATALEN_SIZE + AS_TAG_LEN) with as_min by reflexivity.
  destruct (as_validate data); cbn [negb].
  - destruct (msg_unwrap C priv _ _) as [sk|].
    + destruct (cell_decrypt C sk ctx (skipn as_min data)) as [m|] eqn:E; cbn [of_option].
      * split.
        -- intros [= ->]. split; [reflexivity|]. exists sk. split; [reflexivity| exact E].
        -- intros (_ & sk' & [= <-] & H). rewrite E in H. injection H as ->. reflexivity.
      * split; [discriminate|]. intros (_ & sk' & [= <-] & H). rewrite E in H. discriminate.
    + split; [discriminate|]. intros (_ & sk' & H & _). discriminate.
  - split; [discriminate|]. intros [H _]. discriminate.
Qed.

Lemma as_decrypt_total data priv ctx : as_decrypt C data priv ctx <> Panic.
Proof.
  unfold as_decrypt. destruct (as_validate data); cbn [negb]; [|discriminate].
  destruct (msg_unwrap C priv _ _); [|discriminate].
  destruct (cell_decrypt C _ ctx _); discriminate.
Qed.

(** rotated keys, ANY number of them: a success is a success of one key of the list *)
Theorem as_rotated_sound data privs ctx y :
  as_decrypt_rotated C data privs ctx = Ok y ->
  exists priv, In priv privs /\ as_opened data priv ctx y.
Proof.
  induction privs as [|p rest IH]; cbn [as_decrypt_rotated]; [discriminate|].
  destruct (as_decrypt C data p ctx) as [x|e|] eqn:E.
  - intros [= ->]. exists p. split; [left; reflexivity| apply reveal_sound_as, E].
  - destruct rest as [|q rest']; [discriminate|]. intros H.
    destruct (IH H) as (pr & Hin & Ho). exists pr. split; [right; exact Hin| exact Ho].
  - discriminate.
Qed.

Lemma as_rotated_total data privs ctx : as_decrypt_rotated C data privs ctx <> Panic.
Proof.
  induction privs as [|p rest IH]; cbn [as_decrypt_rotated]; [discriminate|].
  pose proof (as_decrypt_total data p ctx) as Ht.
  destruct (as_decrypt C data p ctx); [discriminate| |contradiction].
  destruct rest; [discriminate| exact IH].
Qed.

(** ** AcraBlock: a key of the list with the declared key id opened the key block at its declared position,
       the data key opened the payload *)
Definition ab_opened (b : bytes) (keys : list bytes) (ctx y : bytes) : Prop :=
  exists k dk, In k keys /\ ab_key_id k ctx = ab_kid_of b /\
               cell_decrypt C k ctx (ab_ek_of b) = Some dk /\
               cell_decrypt C dk ctx (ab_ed_of b) = Some y.

Lemma ab_find_key_sound keys ctx kid ek dk :
  ab_find_key C keys ctx kid ek = Some dk ->
  exists k, In k keys /\ ab_key_id k ctx = kid /\ cell_decrypt C k ctx ek = Some dk.
Proof.
  induction keys as [|k rest IH]; cbn [ab_find_key]; [discriminate|].
  destruct (bytes_eqb (ab_key_id k ctx) kid) eqn:Eid.
  - destruct (cell_decrypt C k ctx ek) as [d|] eqn:Ed.
    + intros [= ->]. exists k. split; [left; reflexivity|]. split; [apply bytes_eqb_eq, Eid| exact Ed].
    + intros H. destruct (IH H) as (k' & Hin & Hr). exists k'. split; [right; exact Hin| exact Hr].
  - intros H. destruct (IH H) as (k' & Hin & Hr). exists k'. split; [right; exact Hin| exact Hr].
Qed.

Theorem reveal_sound_ab b keys ctx y :
  ab_decrypt C b keys ctx = Ok y -> ab_opened b keys ctx y.
Proof.
  unfold ab_decrypt, ab_opened, ab_ek_of, ab_ed_of, ab_kid_of.
  fold (ab_ksz b).
  destruct (Nat.ltb (length b) AB_MIN_SIZE); [discriminate|].
  destruct (Nat.ltb (length b) (AB_MIN_SIZE + ab_ksz b)); [discriminate|].
  destruct (negb _); [discriminate|].
  destruct (ab_find_key C keys ctx _ _) as [dk|] eqn:Ef; [|discriminate].
  destruct (ab_find_key_sound _ _ _ _ _ Ef) as (k & Hin & Hid & Hk).
  destruct (cell_decrypt C dk ctx _) as [m|] eqn:Ed; cbn [of_option]; [|discriminate].
  intros [= ->]. exists k, dk. repeat split; assumption.
Qed.

Lemma ab_decrypt_total b keys ctx : ab_decrypt C b keys ctx <> Panic.
Proof.
  unfold ab_decrypt.
  destruct (Nat.ltb _ _); [discriminate|]. destruct (Nat.ltb _ _); [discriminate|].
  destruct (negb _); [discriminate|]. destruct (ab_find_key _ _ _ _ _); [|discriminate].
  destruct (cell_decrypt _ _ _ _); discriminate.
Qed.

(** ** handlers, registry, translator *)
Definition handler_opened (id : byte) (ks : keyset) (inner y : bytes) : Prop :=
  if byte_eqb id ENVELOPE_ID_ACRASTRUCT
  then exists priv, In priv (ks_privs ks) /\ as_opened inner priv [] y
  else exists n block, ab_extract inner = Ok (n, block) /\ ab_opened block (ks_syms ks) [] y.

Lemma handler_decrypt_sound id ks inner y :
  handler_decrypt C id ks inner = Ok y -> handler_opened id ks inner y.
Proof.
  unfold handler_decrypt, handler_opened. destruct (byte_eqb id ENVELOPE_ID_ACRASTRUCT).
  - destruct (negb _); [discriminate|]. destruct (is_nil _); [discriminate|].
    apply as_rotated_sound.
  - destruct (ab_extract inner) as [[n block]|e|]; [|discriminate|discriminate].
    destruct (is_nil _); [discriminate|].
    destruct (ab_decrypt C block (ks_syms ks) []) as [x|e|] eqn:E; [|discriminate|discriminate].
    intros [= ->]. exists n, block. split; [reflexivity| apply reveal_sound_ab, E].
Qed.

Lemma handler_decrypt_total id ks inner : handler_decrypt C id ks inner <> Panic.
Proof.
  unfold handler_decrypt. destruct (byte_eqb id ENVELOPE_ID_ACRASTRUCT).
  - destruct (negb _); [discriminate|]. destruct (is_nil _); [discriminate|]. apply as_rotated_total.
  - pose proof (ab_extract_total inner) as Ht.
    destruct (ab_extract inner) as [[n block]|e|]; [|discriminate|contradiction].
    destruct (is_nil _); [discriminate|].
    pose proof (ab_decrypt_total block (ks_syms ks) []) as Hd.
    destruct (ab_decrypt C block (ks_syms ks) []); [discriminate|discriminate|contradiction].
Qed.

(** [revealed id ks stored y]: the stored form parses to an envelope body accepted by handler [id], and keys
    of [ks] (and only of [ks]) opened that body to [y] *)
Definition revealed (id : byte) (ks : keyset) (stored y : bytes) : Prop :=
  exists inner id0, sc_deserialize stored = Ok (inner, id0) /\ handler_match id inner = true /\
                    handler_opened id ks inner y.

Theorem decrypt_with_handler_sound id ks stored y :
  decrypt_with_handler C id ks stored = Ok y -> revealed id ks stored y.
Proof.
  unfold decrypt_with_handler, revealed.
  destruct (sc_deserialize stored) as [[inner id0]|e|]; cbn [bind]; [|discriminate|discriminate].
  destruct (handler_match id inner) eqn:Hm; cbn [negb]; [|discriminate].
  intros H. exists inner, id0. split; [reflexivity|]. split; [exact Hm| apply handler_decrypt_sound, H].
Qed.

Lemma sc_deserialize_total data : sc_deserialize data <> Panic.
Proof.
  unfold sc_deserialize. destruct (envelope_kind data); try discriminate.
  destruct (sc_internal_length data); discriminate.
Qed.

Lemma decrypt_with_handler_total id ks stored : decrypt_with_handler C id ks stored <> Panic.
Proof.
  unfold decrypt_with_handler. pose proof (sc_deserialize_total stored) as Ht.
  destruct (sc_deserialize stored) as [[inner id0]|e|]; cbn [bind]; [|discriminate|contradiction].
  destruct (negb _); [discriminate| apply handler_decrypt_total].
Qed.

Theorem registry_process_sound ks stored y :
  registry_process C ks stored = Ok y ->
  exists id, (envelope_kind stored = EnvNew id \/ envelope_kind stored = EnvOld id) /\ revealed id ks stored y.
Proof.
  unfold registry_process. destruct (envelope_kind stored) as [id|id|] eqn:Ek; [| |discriminate];
    intros H; exists id; (split; [auto| apply decrypt_with_handler_sound, H]).
Qed.

Lemma registry_process_total ks stored : registry_process C ks stored <> Panic.
Proof.
  unfold registry_process. destruct (envelope_kind stored); try discriminate; apply decrypt_with_handler_total.
Qed.

(** searchable decryption: additionally the hash part verified under the HMAC key of the SAME keyset *)
Theorem tr_decrypt_searchable_sound id ks data hash y :
  tr_decrypt_searchable C id ks data hash = Ok y ->
  exists hpart cdata,
    extract_hash (match hash with Some h => h ++ data | None => data end) = Some (hpart, cdata) /\
    revealed id ks cdata y /\ hash_is_equal hpart y ks = true.
Proof.
  unfold tr_decrypt_searchable.
  destruct (extract_hash _) as [[hpart cdata]|]; [|discriminate].
  destruct (decrypt_with_handler C id ks cdata) as [dec|e|] eqn:E; [|discriminate|discriminate].
  destruct (hash_is_equal hpart dec ks) eqn:Eh; [|discriminate].
  intros [= ->]. exists hpart, cdata. split; [reflexivity|].
  split; [apply decrypt_with_handler_sound, E| exact Eh].
Qed.

(** ** transparent column processing: every byte that changes is accounted for by an opening under [ks] *)
Lemma scan_identity_local (cbs : list (bytes -> res bytes)) f : forall rest out ch,
  (forall i n c, sc_extract (skipn i rest) = Ok (n, c) -> run_callbacks cbs c = Ok None) ->
  length rest < f ->
  scan f cbs rest out ch = Ok (out ++ rest, ch).
Proof.
  induction f as [|f IH]; intros rest out ch Hcb Hf; [lia|]. cbn [scan].
  destruct (index_of sc_tag rest) as [i|] eqn:Ei; [|reflexivity].
  pose proof (index_of_lt _ _ _ Ei) as Hi.
  destruct (index_of_some _ _ _ Ei) as [Hat _].
  pose proof (starts_with_nonempty _ _ sc_tag_nonempty Hat) as Hne.
  assert (length (skipn 1 (skipn i rest)) < f) as Hlt.
  { rewrite !skipn_length. destruct (skipn i rest) eqn:E; [contradiction|].
    assert (length (skipn i rest) = length rest - i) as H by apply skipn_length. rewrite E in H. cbn in H. lia. }
  assert (Hstep : scan f cbs (skipn 1 (skipn i rest)) ((out ++ firstn i rest) ++ firstn 1 (skipn i rest)) ch
                  = Ok (out ++ rest, ch)).
  { rewrite IH; [| |exact Hlt].
    - rewrite <- !app_assoc, firstn_skipn_1. reflexivity.
    - intros j n c. rewrite !skipn_skipn. apply Hcb. }
  destruct (sc_extract (skipn i rest)) as [[n c]| |] eqn:Ee.
  - rewrite (Hcb i n c Ee). exact Hstep.
  - exact Hstep.
  - exfalso. eapply sc_extract_total, Ee.
Qed.

Lemma registry_cb_quiet ks c :
  (forall y, registry_process C ks c = Ok y -> y = c) ->
  run_callbacks (column_cbs C ks) c = Ok None.
Proof.
  intros H. unfold column_cbs. cbn [run_callbacks]. unfold decrypt_handler.
  pose proof (registry_process_total ks c) as Ht.
  destruct (registry_process C ks c) as [y|e|] eqn:E; [| |contradiction].
  - rewrite (H y eq_refl), bytes_eqb_refl. reflexivity.
  - rewrite bytes_eqb_refl. reflexivity.
Qed.

(** if no candidate envelope of the column opens under [ks], the column is handed back unchanged;
    with [registry_process_sound] every opening that does happen is justified by keys of [ks] *)
Theorem column_unchanged_unless_opened ks col :
  (forall i n c y, sc_extract (skipn i col) = Ok (n, c) -> registry_process C ks c = Ok y -> y = c) ->
  on_column (column_cbs C ks) col = Ok (col, false).
Proof.
  intros H. unfold on_column. destruct (_ || _); [reflexivity|].
  rewrite scan_identity_local; [reflexivity| |lia].
  intros i n c He. apply registry_cb_quiet. intros y Hy. eapply H; eassumption.
Qed.

(** ** blind index: a hash made under A's key verifies under B's keyset only for the same (key, data)
       or an explicit HMAC-SHA256 collision *)
Theorem blind_index_other_client hkA x y ksB :
  hash_is_equal (generate_hmac hkA x) y ksB = true ->
  exists hkB, ks_hmac ksB = Some hkB /\
    ((hkB = hkA /\ y = x) \/
     ((hkB, y) <> (hkA, x) /\ hmac_sha256 hkB y = hmac_sha256 hkA x)).
Proof.
  unfold hash_is_equal, generate_hmac. destruct (ks_hmac ksB) as [hkB|]; [|discriminate].
  cbn [skipn]. intros H. apply bytes_eqb_eq in H. exists hkB. split; [reflexivity|].
  destruct (bytes_eqb hkB hkA) eqn:Ek; [apply bytes_eqb_eq in Ek | apply bytes_eqb_neq in Ek].
  - destruct (bytes_eqb y x) eqn:Ey; [apply bytes_eqb_eq in Ey | apply bytes_eqb_neq in Ey].
    + left. split; assumption.
    + right. split; [intros [= _ E]; contradiction| symmetry; exact H].
  - right. split; [intros [= E _]; contradiction| symmetry; exact H].
Qed.

End Sound.

Lemma err_if_never_ok {A} (r : res A) : r <> Panic -> (forall y, r = Ok y -> False) -> exists e, r = Err e.
Proof. destruct r as [y|e|]; intros Hp Hn; [exfalso; eapply Hn; reflexivity| eauto| contradiction]. Qed.

Lemma tr_decrypt_searchable_total C id ks data hash : tr_decrypt_searchable C id ks data hash <> Panic.
Proof.
  unfold tr_decrypt_searchable. destruct (extract_hash _) as [[hp cd]|]; [|discriminate].
  pose proof (decrypt_with_handler_total C id ks cd) as Ht.
  destruct (decrypt_with_handler C id ks cd); [|discriminate|contradiction].
  destruct (hash_is_equal _ _ _); discriminate.
Qed.

(** * Cross-client corollaries *)
Section Cross.
Variable C : crypto.
Hypothesis HC : Correct C.

(** ** field positions of a well-formed AcraBlock *)
Lemma ab_layout_fields key ctx ek ed :
  (N.of_nat (length ek) < 65536)%N ->
  let L := ab_layout key ctx ek ed in
  ab_ksz L = length ek /\ ab_kid_of L = ab_key_id key ctx /\ ab_ek_of L = ek /\ ab_ed_of L = ed.
Proof.
  intros Hsmall L.
  destruct (ab_layout_split key ctx ek ed) as (hd4 & l8 & kid2 & l2 & E & Hhd & H4 & H8 & Hk2 & H2 & El8 & Ekid & El2).
  fold L in E.
  assert (Hksz : ab_ksz L = length ek).
  { unfold ab_ksz.
    assert (sub AB_DEK_LEN_POS AB_DEK_LEN_SIZE L = l2) as ->.
    { rewrite E. replace (hd4 ++ l8 ++ [AB_KEK_TYPE_SECURE_CELL] ++ kid2 ++ [AB_DATA_TYPE_SECURE_CELL] ++ l2 ++ ek ++ ed)
        with ((hd4 ++ l8 ++ [AB_KEK_TYPE_SECURE_CELL] ++ kid2 ++ [AB_DATA_TYPE_SECURE_CELL]) ++ l2 ++ ek ++ ed)
        by (rewrite <- !app_assoc; reflexivity).
      apply sub_app_mid; [rewrite !app_length, H4, H8, Hk2| rewrite H2]; reflexivity. }
    rewrite El2, le_dec_enc_small by exact Hsmall. apply Nat2N.id. }
  split; [exact Hksz|]. unfold ab_ek_of, ab_ed_of, ab_kid_of. rewrite Hksz.
  split; [|split].
  - rewrite E. replace (hd4 ++ l8 ++ [AB_KEK_TYPE_SECURE_CELL] ++ kid2 ++ [AB_DATA_TYPE_SECURE_CELL] ++ l2 ++ ek ++ ed)
      with ((hd4 ++ l8 ++ [AB_KEK_TYPE_SECURE_CELL]) ++ kid2 ++ ([AB_DATA_TYPE_SECURE_CELL] ++ l2 ++ ek ++ ed))
      by (rewrite <- !app_assoc; reflexivity).
    rewrite <- Ekid. apply sub_app_mid; [rewrite !app_length, H4, H8| rewrite Hk2]; reflexivity.
  - rewrite E. replace (hd4 ++ l8 ++ [AB_KEK_TYPE_SECURE_CELL] ++ kid2 ++ [AB_DATA_TYPE_SECURE_CELL] ++ l2 ++ ek ++ ed)
      with ((hd4 ++ l8 ++ [AB_KEK_TYPE_SECURE_CELL] ++ kid2 ++ [AB_DATA_TYPE_SECURE_CELL] ++ l2) ++ ek ++ ed)
      by (rewrite <- !app_assoc; reflexivity).
    apply sub_app_mid; [rewrite !app_length, H4, H8, Hk2, H2|]; reflexivity.
  - rewrite E. replace (hd4 ++ l8 ++ [AB_KEK_TYPE_SECURE_CELL] ++ kid2 ++ [AB_DATA_TYPE_SECURE_CELL] ++ l2 ++ ek ++ ed)
      with ((hd4 ++ l8 ++ [AB_KEK_TYPE_SECURE_CELL] ++ kid2 ++ [AB_DATA_TYPE_SECURE_CELL] ++ l2 ++ ek) ++ ed)
      by (rewrite <- !app_assoc; reflexivity).
    apply skipn_app_len'. rewrite !app_length, H4, H8, Hk2, H2. cbn. lia.
Qed.

(** what CreateAcraBlock writes, byte for byte: the key block is [seal_enc key ctx n2 dek] *)
Lemma ab_create_layout dek n1 n2 rest data key ctx :
  key <> [] -> data <> [] -> dek <> [] ->
  ab_create C (dek :: n1 :: n2 :: rest) data key ctx
  = Ok (ab_layout key ctx (seal_enc C key ctx n2 dek) (seal_enc C dek ctx n1 data)).
Proof.
  intros Hk Hd Hdk. unfold ab_create, cell_encrypt.
  rewrite (is_nil_false _ Hd), (is_nil_false _ Hdk), (is_nil_false _ Hk). cbn [orb]. reflexivity.
Qed.

(** [opens_ab_key_block keysB keyA ctx nonce dek]: some key of B's list opens the key block that was sealed
    under A's key.  By decidability of byte equality this is "A's key is among B's keys" or an explicit
    forgery: a successful [seal_dec] under a key the ciphertext was not produced with. *)
Definition opens_ab_key_block (keysB : list bytes) (keyA ctx nonce dek : bytes) : Prop :=
  exists k m, In k keysB /\ seal_dec C k ctx (seal_enc C keyA ctx nonce dek) = Some m.

Definition seal_forgery (keyA ctx nonce dek k : bytes) : Prop :=
  k <> keyA /\ exists m, seal_dec C k ctx (seal_enc C keyA ctx nonce dek) = Some m.

Lemma opens_ab_shared_or_forgery keysB keyA ctx nonce dek :
  opens_ab_key_block keysB keyA ctx nonce dek ->
  In keyA keysB \/ exists k, In k keysB /\ seal_forgery keyA ctx nonce dek k.
Proof.
  intros (k & m & Hin & Hd).
  destruct (bytes_eqb k keyA) eqn:E; [apply bytes_eqb_eq in E; subst; left; exact Hin|].
  apply bytes_eqb_neq in E. right. exists k. split; [exact Hin|]. split; [exact E| exists m; exact Hd].
Qed.

Lemma cell_decrypt_seal k c x m : cell_decrypt C k c x = Some m -> seal_dec C k c x = Some m.
Proof. unfold cell_decrypt. destruct (_ || _); [discriminate| auto]. Qed.

(** library level, any context, any two key lists *)
Theorem ab_cross_client tape data keyA ctx keysB :
  good_ab_tape tape -> keyA <> [] -> data <> [] ->
  exists v dek nonce, ab_create C tape data keyA ctx = Ok v /\
    forall y, ab_decrypt C v keysB ctx = Ok y -> opens_ab_key_block keysB keyA ctx nonce dek.
Proof.
  intros (dek & n1 & n2 & rest & -> & Hd & Hn1 & Hn2) Hk Hdata.
  assert (dek <> []) as Hdk by (destruct dek; [discriminate| congruence]).
  eexists. exists dek, n2. split; [apply ab_create_layout; assumption|].
  intros y Hy. apply reveal_sound_ab in Hy. destruct Hy as (k & dk & Hin & _ & Hek & _).
  pose proof (seal_len C HC keyA ctx n2 dek Hn2) as Hl.
  destruct (ab_layout_fields keyA ctx (seal_enc C keyA ctx n2 dek) (seal_enc C dek ctx n1 data)) as (_ & _ & Hf & _).
  { rewrite Hl, Hd. vm_compute. reflexivity. }
  rewrite Hf in Hek. exists k, dk. split; [exact Hin| apply cell_decrypt_seal, Hek].
Qed.

(** ** field positions of a well-formed AcraStruct *)
Lemma as_layout_fields (epub w lenb ed : bytes) :
  length epub = AS_PUBKEY_LEN -> length w = AS_SMSG_LEN ->
  let v := as_tag ++ epub ++ w ++ lenb ++ ed in
  as_pub_of v = epub /\ as_wrapped_of v = w.
Proof.
  intros Hp Hw v. unfold as_pub_of, as_wrapped_of, v. split.
  - apply sub_app_mid; [rewrite as_tag_length; reflexivity| symmetry; exact Hp].
  - replace (as_tag ++ epub ++ w ++ lenb ++ ed) with ((as_tag ++ epub) ++ w ++ lenb ++ ed)
      by (rewrite <- !app_assoc; reflexivity).
    apply sub_app_mid; [rewrite app_length, as_tag_length, Hp; reflexivity| symmetry; exact Hw].
Qed.

(** what CreateAcrastruct writes: ephemeral public key, then the data key wrapped for A's public key *)
Lemma as_create_layout seed dkey wn sn rest data sb ctx :
  length seed = SEED_LEN -> length dkey = AS_SYMKEY_SIZE -> length wn = NONCE_LEN ->
  length sb = SEED_LEN -> data <> [] ->
  exists w, wrap C (priv_of C seed) (pub_of C sb) wn dkey = Some w /\ length w = AS_SMSG_LEN /\
            length (pub_of C seed) = AS_PUBKEY_LEN /\
    as_create C (seed :: dkey :: wn :: sn :: rest) data (pub_of C sb) ctx
    = Ok (as_tag ++ pub_of C seed ++ w ++
          le_enc AS_DATALEN_SIZE (N.of_nat (length (seal_enc C dkey ctx sn data))) ++ seal_enc C dkey ctx sn data).
Proof.
  intros Hs Hd Hwn Hsb Hdata.
  destruct (key_len C HC seed Hs) as [Hpl Hql].
  destruct (key_len C HC sb Hsb) as [Hpl' Hql'].
  assert (dkey <> []) as Hdk by (destruct dkey; [discriminate| congruence]).
  destruct (wrap_rt C HC seed sb wn dkey Hs Hsb Hwn Hdk) as (w & Hw & Hwl & _).
  { rewrite Hd. vm_compute. reflexivity. }
  exists w. split; [exact Hw|]. split; [rewrite Hwl, Hd; reflexivity|]. split; [exact Hql|].
  unfold as_create.
  destruct (keypair C seed) as [epriv epub] eqn:Ekp.
  assert (epriv = priv_of C seed) as -> by (unfold priv_of; rewrite Ekp; reflexivity).
  assert (epub = pub_of C seed) as -> by (unfold pub_of; rewrite Ekp; reflexivity).
  unfold msg_wrap. rewrite (is_nil_len _ 44 Hpl), (is_nil_len _ 44 Hql'), (is_nil_false _ Hdk).
  cbn [orb]. rewrite Hw, (is_nil_false _ Hdata).
  unfold cell_encrypt. rewrite (is_nil_false _ Hdk), (is_nil_false _ Hdata). cbn [orb]. reflexivity.
Qed.

(** [opens_as_key_block privsB epub w]: some private key of B's list unwraps A's key block [w] (which was
    wrapped for A's public key by the ephemeral key pair whose public half is [epub]). *)
Definition opens_as_key_block (privsB : list bytes) (epub w : bytes) : Prop :=
  exists priv m, In priv privsB /\ unwrap C priv epub w = Some m.

Definition unwrap_forgery (privA epub w priv : bytes) : Prop :=
  priv <> privA /\ exists m, unwrap C priv epub w = Some m.

Lemma opens_as_shared_or_forgery privsB privA epub w :
  opens_as_key_block privsB epub w ->
  In privA privsB \/ exists priv, In priv privsB /\ unwrap_forgery privA epub w priv.
Proof.
  intros (k & m & Hin & Hd).
  destruct (bytes_eqb k privA) eqn:E; [apply bytes_eqb_eq in E; subst; left; exact Hin|].
  apply bytes_eqb_neq in E. right. exists k. split; [exact Hin|]. split; [exact E| exists m; exact Hd].
Qed.

Lemma msg_unwrap_unwrap p q x m : msg_unwrap C p q x = Some m -> unwrap C p q x = Some m.
Proof. unfold msg_unwrap. destruct (_ || _); [discriminate| auto]. Qed.

Theorem as_cross_client tape data sbA ctx privsB :
  good_as_tape tape -> length sbA = SEED_LEN -> data <> [] ->
  exists v eseed nonce dkey w,
    as_create C tape data (pub_of C sbA) ctx = Ok v /\
    wrap C (priv_of C eseed) (pub_of C sbA) nonce dkey = Some w /\
    forall y, as_decrypt_rotated C v privsB ctx = Ok y -> opens_as_key_block privsB (pub_of C eseed) w.
Proof.
  intros (seed & dkey & wn & sn & rest & -> & Hs & Hd & Hwn & Hsn) Hsb Hdata.
  destruct (as_create_layout seed dkey wn sn rest data sbA ctx Hs Hd Hwn Hsb Hdata) as (w & Hw & Hwl & Hpl & Hc).
  eexists. exists seed, wn, dkey, w. split; [exact Hc|]. split; [exact Hw|].
  intros y Hy. apply as_rotated_sound in Hy. destruct Hy as (priv & Hin & _ & sk & Hu & _).
  destruct (as_layout_fields (pub_of C seed) w
              (le_enc AS_DATALEN_SIZE (N.of_nat (length (seal_enc C dkey ctx sn data)))) (seal_enc C dkey ctx sn data) Hpl Hwl)
    as [Hf1 Hf2].
  rewrite Hf1, Hf2 in Hu. exists priv, sk. split; [exact Hin| apply msg_unwrap_unwrap, Hu].
Qed.

(** ** entry points: RegistryHandler.EncryptWithHandler / EncryptWithClientID / translator Encrypt[Sym] for A;
       DecryptWithHandler / translator Decrypt[Sym], Process, searchable decryption, column processing under B.
       Key histories are arbitrary: [ks_syms]/[ks_privs] of both sides are arbitrary lists. *)

Lemma revealed_layout id ksB inner s y :
  inner <> [] -> known_envelope id = true -> (N.of_nat (length inner) < 4294967296)%N ->
  revealed C id ksB (sc_layout inner id ++ s) y -> handler_opened C id ksB inner y.
Proof.
  intros Hne Hk Hl (inner' & id0 & Hd & _ & Ho).
  destruct (container_roundtrip inner id s Hne Hk Hl) as [Hd' _]. rewrite Hd' in Hd.
  injection Hd as <- <-. exact Ho.
Qed.

Lemma extract_hash_parts d hp cd :
  extract_hash d = Some (hp, cd) -> hp = firstn HMAC_HASH_SIZE d /\ cd = skipn HMAC_HASH_SIZE d.
Proof.
  unfold extract_hash. destruct d as [|f r]; [discriminate|].
  set (d := f :: r).
  destruct (negb _); [discriminate|]. destruct (Nat.ltb _ _); [discriminate|].
  intros [= <- <-]. split; reflexivity.
Qed.

Lemma extract_hash_app hash v hpart cdata :
  extract_hash (hash ++ v) = Some (hpart, cdata) -> length hash = HMAC_HASH_SIZE -> cdata = v.
Proof.
  intros H Hl. apply extract_hash_parts in H. destruct H as [_ ->].
  apply skipn_app_len'. symmetry. exact Hl.
Qed.

(** all entry points reduce to: handler [id] opened the body of A's container under B's keys *)
Lemma reveals_under_opened ksB id inner y :
  inner <> [] -> known_envelope id = true -> (N.of_nat (length inner) < 4294967296)%N ->
  (decrypt_with_handler C id ksB (sc_layout inner id) = Ok y \/
   registry_process C ksB (sc_layout inner id) = Ok y \/
   (exists hash, length hash = HMAC_HASH_SIZE /\ tr_decrypt_searchable C id ksB (sc_layout inner id) (Some hash) = Ok y) \/
   (exists hash, length hash = HMAC_HASH_SIZE /\ tr_decrypt_searchable C id ksB (hash ++ sc_layout inner id) None = Ok y) \/
   (exists s, registry_process C ksB (sc_layout inner id ++ s) = Ok y)) ->
  handler_opened C id ksB inner y.
Proof.
  intros Hne Hk Hl H.
  assert (Hreg : forall s, registry_process C ksB (sc_layout inner id ++ s) = Ok y -> handler_opened C id ksB inner y).
  { intros s Hr. unfold registry_process in Hr. rewrite envelope_kind_layout in Hr by assumption.
    apply decrypt_with_handler_sound in Hr. eapply revealed_layout; eassumption. }
  destruct H as [H|[H|[(hash & Hh & H)|[(hash & Hh & H)|(s & H)]]]].
  - apply decrypt_with_handler_sound in H. rewrite (app_nil_r' (sc_layout inner id)) in H.
    eapply revealed_layout; eassumption.
  - apply (Hreg []). rewrite app_nil_r. exact H.
  - apply tr_decrypt_searchable_sound in H. destruct H as (hp & cd & He & Hr & _).
    apply extract_hash_app in He; [|exact Hh]. subst cd.
    rewrite (app_nil_r' (sc_layout inner id)) in Hr. eapply revealed_layout; eassumption.
  - apply tr_decrypt_searchable_sound in H. destruct H as (hp & cd & He & Hr & _).
    apply extract_hash_app in He; [|exact Hh]. subst cd.
    rewrite (app_nil_r' (sc_layout inner id)) in Hr. eapply revealed_layout; eassumption.
  - eapply Hreg, H.
Qed.

(** *** symmetric envelope *)
Theorem no_cross_client_reveal_ab ksA ksB tape x keyA rest :
  looks_protected ENVELOPE_ID_ACRABLOCK x = false ->
  x <> [] -> (N.of_nat (length x) < MAXMSG)%N -> good_ab_tape tape -> keyA <> [] ->
  ks_syms ksA = keyA :: rest ->
  exists v dek nonce,
    encrypt_with_handler C ENVELOPE_ID_ACRABLOCK ksA tape x = Ok v /\
    (* every successful reveal of [v] under B exhibits a key of B's keyset that opens A's key block *)
    (forall y,
       (decrypt_with_handler C ENVELOPE_ID_ACRABLOCK ksB v = Ok y \/
        registry_process C ksB v = Ok y \/
        (exists hash, length hash = HMAC_HASH_SIZE /\ tr_decrypt_searchable C ENVELOPE_ID_ACRABLOCK ksB v (Some hash) = Ok y) \/
        (exists hash, length hash = HMAC_HASH_SIZE /\ tr_decrypt_searchable C ENVELOPE_ID_ACRABLOCK ksB (hash ++ v) None = Ok y) \/
        (exists s, registry_process C ksB (v ++ s) = Ok y)) ->
       opens_ab_key_block (ks_syms ksB) keyA [] nonce dek) /\
    (* hence, without such a key, every entry point answers with an error ... *)
    (~ opens_ab_key_block (ks_syms ksB) keyA [] nonce dek ->
       (exists e, decrypt_with_handler C ENVELOPE_ID_ACRABLOCK ksB v = Err e) /\
       (exists e, registry_process C ksB v = Err e) /\
       (forall hash, length hash = HMAC_HASH_SIZE ->
          exists e, tr_decrypt_searchable C ENVELOPE_ID_ACRABLOCK ksB v (Some hash) = Err e) /\
       (* ... and a column holding [v] anywhere is handed back unchanged unless some OTHER candidate opens *)
       (forall p s,
          (forall i n c y, i <> length p -> sc_extract (skipn i (p ++ v ++ s)) = Ok (n, c) ->
                           registry_process C ksB c = Ok y -> y = c) ->
          on_column (column_cbs C ksB) (p ++ v ++ s) = Ok (p ++ v ++ s, false))).
Proof.
  intros Hnp Hx Hlen (dek & n1 & n2 & trest & -> & Hd & Hn1 & Hn2) Hkey Hsyms.
  assert (dek <> []) as Hdk by (destruct dek; [discriminate| congruence]).
  set (ek := seal_enc C keyA [] n2 dek). set (ed := seal_enc C dek [] n1 x).
  set (inner := ab_layout keyA [] ek ed).
  pose proof (seal_len C HC keyA [] n2 dek Hn2) as Hekl. fold ek in Hekl.
  pose proof (seal_len C HC dek [] n1 x Hn1) as Hedl. fold ed in Hedl.
  assert (length inner = AB_MIN_SIZE + length ek + length ed) as Hil by apply ab_layout_length.
  assert (inner <> []) as Hine by (intros E0; rewrite E0 in Hil; cbn [length] in Hil; unfold_consts; lia).
  assert (N.of_nat (length inner) < 4294967296)%N as Hismall
      by (rewrite Hil, Hekl, Hedl, Hd; unfold_consts; lia).
  assert (Hab_ne : byte_eqb ENVELOPE_ID_ACRABLOCK ENVELOPE_ID_ACRASTRUCT = false) by reflexivity.
  assert (Hext : ab_extract inner = Ok (length inner, inner)).
  { rewrite (app_nil_r' inner) at 1. apply ab_extract_layout.
    rewrite Hekl, Hedl, Hd. unfold_consts. lia. }
  set (v := sc_layout inner ENVELOPE_ID_ACRABLOCK).
  assert (Henc : encrypt_with_handler C ENVELOPE_ID_ACRABLOCK ksA (dek :: n1 :: n2 :: trest) x = Ok v).
  { unfold looks_protected in Hnp. apply orb_false_iff in Hnp as [Hnm Hnr].
    unfold encrypt_with_handler. rewrite Hnm, Hnr. cbn [orb].
    unfold handler_encrypt. rewrite Hab_ne.
    unfold handler_match in Hnm. rewrite Hab_ne in Hnm. rewrite Hnm, Hsyms.
    rewrite ab_create_layout by assumption. cbn [bind]. apply sc_serialize_ok, Hine. }
  assert (Hopen : forall y, handler_opened C ENVELOPE_ID_ACRABLOCK ksB inner y ->
                            opens_ab_key_block (ks_syms ksB) keyA [] n2 dek).
  { intros y Ho. unfold handler_opened in Ho. rewrite Hab_ne, Hext in Ho.
    destruct Ho as (n & block & [= _ <-] & k & dk & Hin & _ & Hek & _).
    destruct (ab_layout_fields keyA [] ek ed) as (_ & _ & Hf & _).
    { rewrite Hekl, Hd. vm_compute. reflexivity. }
    fold inner in Hf. rewrite Hf in Hek. exists k, dk. split; [exact Hin| apply cell_decrypt_seal, Hek]. }
  assert (Hall : forall y,
       (decrypt_with_handler C ENVELOPE_ID_ACRABLOCK ksB v = Ok y \/
        registry_process C ksB v = Ok y \/
        (exists hash, length hash = HMAC_HASH_SIZE /\ tr_decrypt_searchable C ENVELOPE_ID_ACRABLOCK ksB v (Some hash) = Ok y) \/
        (exists hash, length hash = HMAC_HASH_SIZE /\ tr_decrypt_searchable C ENVELOPE_ID_ACRABLOCK ksB (hash ++ v) None = Ok y) \/
        (exists s, registry_process C ksB (v ++ s) = Ok y)) ->
       opens_ab_key_block (ks_syms ksB) keyA [] n2 dek).
  { intros y H. apply (Hopen y). apply reveals_under_opened; [exact Hine| reflexivity| exact Hismall| exact H]. }
  exists v, dek, n2. split; [exact Henc|]. split; [exact Hall|].
  intros Hno. split; [|split; [|split]].
  - apply err_if_never_ok; [apply decrypt_with_handler_total|].
    intros y E. apply Hno, (Hall y). left. exact E.
  - apply err_if_never_ok; [apply registry_process_total|].
    intros y E. apply Hno, (Hall y). right. left. exact E.
  - intros hash Hh. apply err_if_never_ok; [apply tr_decrypt_searchable_total|].
    intros y E. apply Hno, (Hall y). right. right. left. exists hash. split; assumption.
  - intros p s Hother. apply column_unchanged_unless_opened.
    intros i n c y He Hy.
    destruct (Nat.eq_dec i (length p)) as [->|Hi]; [|eapply Hother; eassumption].
    exfalso. rewrite skipn_app_len in He.
    destruct (container_roundtrip inner ENVELOPE_ID_ACRABLOCK s Hine known_ab Hismall) as [_ Hex].
    fold v in Hex. rewrite Hex in He.
    assert (c = v ++ s) as -> by (exact (f_equal (fun r : res (nat * bytes) => match r with Ok (_, c0) => c0 | _ => c end) (eq_sym He))).
    apply Hno, (Hall y). right. right. right. right. exists s. exact Hy.
Qed.

(** *** asymmetric envelope *)
Theorem no_cross_client_reveal_as ksA ksB tape x sbA :
  looks_protected ENVELOPE_ID_ACRASTRUCT x = false ->
  x <> [] -> (N.of_nat (length x) < MAXMSG)%N -> good_as_tape tape -> length sbA = SEED_LEN ->
  ks_pub ksA = Some (pub_of C sbA) ->
  exists v eseed nonce dkey w,
    encrypt_with_handler C ENVELOPE_ID_ACRASTRUCT ksA tape x = Ok v /\
    wrap C (priv_of C eseed) (pub_of C sbA) nonce dkey = Some w /\
    (forall y,
       (decrypt_with_handler C ENVELOPE_ID_ACRASTRUCT ksB v = Ok y \/
        registry_process C ksB v = Ok y \/
        (exists hash, length hash = HMAC_HASH_SIZE /\ tr_decrypt_searchable C ENVELOPE_ID_ACRASTRUCT ksB v (Some hash) = Ok y) \/
        (exists hash, length hash = HMAC_HASH_SIZE /\ tr_decrypt_searchable C ENVELOPE_ID_ACRASTRUCT ksB (hash ++ v) None = Ok y) \/
        (exists s, registry_process C ksB (v ++ s) = Ok y)) ->
       opens_as_key_block (ks_privs ksB) (pub_of C eseed) w) /\
    (~ opens_as_key_block (ks_privs ksB) (pub_of C eseed) w ->
       (exists e, decrypt_with_handler C ENVELOPE_ID_ACRASTRUCT ksB v = Err e) /\
       (exists e, registry_process C ksB v = Err e) /\
       (forall hash, length hash = HMAC_HASH_SIZE ->
          exists e, tr_decrypt_searchable C ENVELOPE_ID_ACRASTRUCT ksB v (Some hash) = Err e) /\
       (forall p s,
          (forall i n c y, i <> length p -> sc_extract (skipn i (p ++ v ++ s)) = Ok (n, c) ->
                           registry_process C ksB c = Ok y -> y = c) ->
          on_column (column_cbs C ksB) (p ++ v ++ s) = Ok (p ++ v ++ s, false))).
Proof.
  intros Hnp Hx Hlen (seed & dkey & wn & sn & trest & -> & Hs & Hd & Hwn & Hsn) Hsb Hpub.
  destruct (as_create_layout seed dkey wn sn trest x sbA [] Hs Hd Hwn Hsb Hx) as (w & Hw & Hwl & Hpl & Hc).
  set (ed := seal_enc C dkey [] sn x) in *.
  set (lenb := le_enc AS_DATALEN_SIZE (N.of_nat (length ed))) in *.
  set (inner := as_tag ++ pub_of C seed ++ w ++ lenb ++ ed) in *.
  pose proof (seal_len C HC dkey [] sn x Hsn) as Hedl. fold ed in Hedl.
  assert (length lenb = 8) as Hlb by apply le_enc_length.
  assert (length inner = as_min + length ed) as Hil.
  { unfold inner. rewrite !app_length, as_tag_length, Hpl, Hwl, Hlb. unfold as_min, as_key_block. cbn. lia. }
  assert (inner <> []) as Hine by (intros E0; rewrite E0 in Hil; cbn [length] in Hil; unfold_consts; lia).
  assert (N.of_nat (length inner) < 4294967296)%N as Hismall by (rewrite Hil, Hedl; unfold_consts; lia).
  set (v := sc_layout inner ENVELOPE_ID_ACRASTRUCT).
  assert (Henc : encrypt_with_handler C ENVELOPE_ID_ACRASTRUCT ksA (seed :: dkey :: wn :: sn :: trest) x = Ok v).
  { unfold looks_protected in Hnp. apply orb_false_iff in Hnp as [Hnm Hnr].
    unfold encrypt_with_handler. rewrite Hnm, Hnr. cbn [orb].
    unfold handler_encrypt. rewrite byte_eqb_refl.
    unfold handler_match in Hnm. rewrite byte_eqb_refl in Hnm. rewrite Hnm, Hpub.
    replace (as_create C (seed :: dkey :: wn :: sn :: trest) x (pub_of C sbA) []) with (@Ok bytes inner)
      by (symmetry; exact Hc).
    cbn [bind].
    apply sc_serialize_ok, Hine. }
  assert (Hopen : forall y, handler_opened C ENVELOPE_ID_ACRASTRUCT ksB inner y ->
                            opens_as_key_block (ks_privs ksB) (pub_of C seed) w).
  { intros y Ho. unfold handler_opened in Ho. rewrite byte_eqb_refl in Ho.
    destruct Ho as (priv & Hin & _ & sk & Hu & _).
    destruct (as_layout_fields (pub_of C seed) w lenb ed Hpl Hwl) as [Hf1 Hf2].
    fold inner in Hf1, Hf2. rewrite Hf1, Hf2 in Hu.
    exists priv, sk. split; [exact Hin| apply msg_unwrap_unwrap, Hu]. }
  assert (Hall : forall y,
       (decrypt_with_handler C ENVELOPE_ID_ACRASTRUCT ksB v = Ok y \/
        registry_process C ksB v = Ok y \/
        (exists hash, length hash = HMAC_HASH_SIZE /\ tr_decrypt_searchable C ENVELOPE_ID_ACRASTRUCT ksB v (Some hash) = Ok y) \/
        (exists hash, length hash = HMAC_HASH_SIZE /\ tr_decrypt_searchable C ENVELOPE_ID_ACRASTRUCT ksB (hash ++ v) None = Ok y) \/
        (exists s, registry_process C ksB (v ++ s) = Ok y)) ->
       opens_as_key_block (ks_privs ksB) (pub_of C seed) w).
  { intros y H. apply (Hopen y). apply reveals_under_opened; [exact Hine| reflexivity| exact Hismall| exact H]. }
  exists v, seed, wn, dkey, w. split; [exact Henc|]. split; [exact Hw|]. split; [exact Hall|].
  intros Hno. split; [|split; [|split]].
  - apply err_if_never_ok; [apply decrypt_with_handler_total|].
    intros y E. apply Hno, (Hall y). left. exact E.
  - apply err_if_never_ok; [apply registry_process_total|].
    intros y E. apply Hno, (Hall y). right. left. exact E.
  - intros hash Hh. apply err_if_never_ok; [apply tr_decrypt_searchable_total|].
    intros y E. apply Hno, (Hall y). right. right. left. exists hash. split; assumption.
  - intros p s Hother. apply column_unchanged_unless_opened.
    intros i n c y He Hy.
    destruct (Nat.eq_dec i (length p)) as [->|Hi]; [|eapply Hother; eassumption].
    exfalso. rewrite skipn_app_len in He.
    destruct (container_roundtrip inner ENVELOPE_ID_ACRASTRUCT s Hine known_as Hismall) as [_ Hex].
    fold v in Hex. rewrite Hex in He.
    assert (c = v ++ s) as -> by (exact (f_equal (fun r : res (nat * bytes) => match r with Ok (_, c0) => c0 | _ => c end) (eq_sym He))).
    apply Hno, (Hall y). right. right. right. right. exists s. exact Hy.
Qed.

End Cross.
