(** Proofs about Model/Stages.v: the global settings mask contains the mask of every column of every table, whatever
    the order of the tables; hence the chain / subscriber list proxyFactory.New builds from it holds every stage a
    configured column needs.  Composition with Model/FullChain.v (property C01, Properties/C01_chain.v). *)
From Coq Require Import List NArith Bool Permutation Lia.
From Acra Require Import Lib.Bytes Lib.Outcome Crypto.Interface Gen.StagesConsts Gen.Consts Gen.MaskConsts
  Model.Envelope Model.Masking Model.MaskingWrite Model.Search Model.FullChain Model.Stages Proofs.FullChain.
Import ListNotations.
Local Open Scope N_scope.

(** * masks as bit sets *)
Definition mask_sub (a b : N) : Prop := N.land b a = a.

Lemma has_sub m f : has m f = true <-> mask_sub f m.
Proof. unfold has, mask_sub. apply N.eqb_eq. Qed.

Lemma sub_refl a : mask_sub a a.
Proof. unfold mask_sub. apply N.land_diag. Qed.

Lemma sub_trans a b c : mask_sub a b -> mask_sub b c -> mask_sub a c.
Proof.
  unfold mask_sub. intros Hab Hbc. apply N.bits_inj. intro n.
  assert (Ha := f_equal (fun x => N.testbit x n) Hab). assert (Hb := f_equal (fun x => N.testbit x n) Hbc).
  cbn beta in Ha, Hb. rewrite N.land_spec in *.
  destruct (N.testbit a n), (N.testbit b n), (N.testbit c n); cbn in *; congruence.
Qed.

Lemma sub_lor_l a b : mask_sub a (N.lor a b).
Proof.
  unfold mask_sub. apply N.bits_inj. intro n. rewrite N.land_spec, N.lor_spec.
  destruct (N.testbit a n), (N.testbit b n); reflexivity.
Qed.

Lemma sub_lor_r a b : mask_sub b (N.lor a b).
Proof. rewrite N.lor_comm. apply sub_lor_l. Qed.

Lemma sub_lor_both a b c : mask_sub a c -> mask_sub b c -> mask_sub (N.lor a b) c.
Proof.
  unfold mask_sub. intros Ha Hb. apply N.bits_inj. intro n.
  assert (Ha' := f_equal (fun x => N.testbit x n) Ha). assert (Hb' := f_equal (fun x => N.testbit x n) Hb).
  cbn beta in Ha', Hb'. rewrite N.land_spec in *. rewrite N.lor_spec.
  destruct (N.testbit a n), (N.testbit b n), (N.testbit c n); cbn in *; congruence.
Qed.

Lemma sub_zero a : mask_sub 0 a.
Proof. unfold mask_sub. apply N.land_0_r. Qed.

(** * the accumulator of MapTableSchemaStoreFromConfig = OR over the tables of the OR over their columns *)
Lemma fold_cols m t : fold_left (fun m c => N.lor m (col_mask c)) t m = N.lor m (table_mask t).
Proof.
  revert m. induction t as [|c t IH]; intro m; cbn [fold_left table_mask lor_all map fold_right].
  - symmetry. apply N.lor_0_r.
  - rewrite IH. unfold table_mask, lor_all. rewrite N.lor_assoc. reflexivity.
Qed.

Lemma global_mask_from_spec m cfg : global_mask_from m cfg = N.lor m (lor_all (map table_mask cfg)).
Proof.
  unfold global_mask_from. revert m. induction cfg as [|t cfg IH]; intro m; cbn [fold_left map lor_all fold_right].
  - symmetry. apply N.lor_0_r.
  - rewrite fold_cols. rewrite IH. unfold lor_all. rewrite N.lor_assoc. reflexivity.
Qed.

Theorem global_mask_spec cfg : global_mask cfg = lor_all (map table_mask cfg).
Proof. unfold global_mask. rewrite global_mask_from_spec. apply N.lor_0_l. Qed.

Lemma lor_all_in x l : In x l -> mask_sub x (lor_all l).
Proof.
  induction l as [|y l IH]; intro H; [contradiction|]. destruct H as [H|H]; cbn [lor_all fold_right].
  - subst. apply sub_lor_l.
  - eapply sub_trans. apply IH. exact H. apply sub_lor_r.
Qed.

Lemma lor_all_app a b : lor_all (a ++ b) = N.lor (lor_all a) (lor_all b).
Proof.
  induction a as [|x a IH]; cbn [app lor_all fold_right].
  - symmetry. apply N.lor_0_l.
  - unfold lor_all in IH. rewrite IH. apply N.lor_assoc.
Qed.

Lemma lor_all_perm a b : Permutation a b -> lor_all a = lor_all b.
Proof.
  induction 1 as [|x a b _ IH|x y a|a b c _ IH1 _ IH2]; cbn [lor_all fold_right].
  - reflexivity.
  - unfold lor_all in IH. rewrite IH. reflexivity.
  - rewrite !N.lor_assoc. f_equal. apply N.lor_comm.
  - congruence.
Qed.

(* every column of every table is in the global mask *)
Theorem col_mask_in_global cfg t c : In t cfg -> In c t -> mask_sub (col_mask c) (global_mask cfg).
Proof.
  intros Ht Hc. rewrite global_mask_spec.
  eapply sub_trans; [ | apply lor_all_in, in_map, Ht ].
  unfold table_mask. apply lor_all_in, in_map, Hc.
Qed.

Theorem global_mask_perm cfg cfg' : Permutation cfg cfg' -> global_mask cfg = global_mask cfg'.
Proof. intro H. rewrite !global_mask_spec. apply lor_all_perm, Permutation_map, H. Qed.

(* adding a table anywhere only adds bits *)
Theorem global_mask_monotone cfg1 cfg2 t : mask_sub (global_mask (cfg1 ++ cfg2)) (global_mask (cfg1 ++ t :: cfg2)).
Proof.
  rewrite !global_mask_spec, !map_app. cbn [map]. rewrite !lor_all_app. cbn [lor_all fold_right].
  apply sub_lor_both.
  - apply sub_lor_l.
  - eapply sub_trans; [ | apply sub_lor_r ]. apply sub_lor_r.
Qed.

(* the columns inside a table may be listed in any order too *)
Theorem table_mask_perm t t' : Permutation t t' -> table_mask t = table_mask t'.
Proof. intro H. unfold table_mask. apply lor_all_perm, Permutation_map, H. Qed.

(** * the flags a setting's mask carries *)
Lemma col_token_flag c : sc_token c = true -> mask_sub SM_TOKENIZATION (col_mask c).
Proof. destruct c as [[] [] [] [] [] []]; cbn [sc_token]; intro H; try discriminate H; vm_compute; reflexivity. Qed.
Lemma col_search_flag c : sc_search c = true -> mask_sub SM_SEARCH (col_mask c).
Proof. destruct c as [[] [] [] [] [] []]; cbn [sc_search]; intro H; try discriminate H; vm_compute; reflexivity. Qed.
Lemma col_mask_flag c : sc_mask c = true -> mask_sub SM_MASKING (col_mask c).
Proof. destruct c as [[] [] [] [] [] []]; cbn [sc_mask]; intro H; try discriminate H; vm_compute; reflexivity. Qed.
(* and only those settings carry them *)
Lemma col_only_encryption c : only_encryption c = negb (sc_token c || sc_search c || sc_mask c).
Proof. destruct c as [[] [] [] [] [] []]; vm_compute; reflexivity. Qed.

Lemma has_global cfg t c f : In t cfg -> In c t -> mask_sub f (col_mask c) -> has (global_mask cfg) f = true.
Proof. intros Ht Hc Hf. apply has_sub. eapply sub_trans. exact Hf. eapply col_mask_in_global; eassumption. Qed.

(** * the chain built from the global mask holds every stage a column of the config needs *)
Lemma in_build_chain m s :
  In s (build_chain m) <->
  match s with
  | StTokenize => has m SM_TOKENIZATION = true
  | StSearch => has m SM_SEARCH = true
  | StMask => has m SM_MASKING = true
  | StEncrypt | StReencrypt => True
  end.
Proof.
  unfold build_chain.
  destruct (has m SM_TOKENIZATION), (has m SM_SEARCH), (has m SM_MASKING), s; cbn; intuition congruence.
Qed.

Theorem chain_complete cfg t c s :
  In t cfg -> In c t -> In s (needs c) -> In s (build_chain (global_mask cfg)).
Proof.
  intros Ht Hc Hs. apply in_build_chain. unfold needs in Hs.
  destruct s; try exact I.
  - eapply has_global; try eassumption. apply col_token_flag.
    destruct (sc_token c); [reflexivity|]. destruct (sc_search c), (sc_mask c), (only_encryption c); cbn in Hs; intuition discriminate.
  - eapply has_global; try eassumption. apply col_search_flag.
    destruct (sc_search c); [reflexivity|]. destruct (sc_token c), (sc_mask c), (only_encryption c); cbn in Hs; intuition discriminate.
  - eapply has_global; try eassumption. apply col_mask_flag.
    destruct (sc_mask c); [reflexivity|]. destruct (sc_token c), (sc_search c), (only_encryption c); cbn in Hs; intuition discriminate.
Qed.

Lemma needs_accepts c s : In s (needs c) -> stage_accepts s c = true.
Proof.
  unfold needs. destruct (sc_token c) eqn:Ht, (sc_search c) eqn:Hs, (sc_mask c) eqn:Hm, (only_encryption c) eqn:Ho;
    cbn; intros H; repeat (destruct H as [H|H]; [subst s; cbn; assumption|]); try contradiction.
Qed.

Lemma needs_nonempty c : needs c <> [].
Proof.
  unfold needs. rewrite col_only_encryption.
  destruct (sc_token c), (sc_search c), (sc_mask c); cbn; discriminate.
Qed.

(* a fresh value written to ANY configured column is accepted by a member of the chain built for the whole config *)
Theorem forwarded_changed_complete cfg t c :
  In t cfg -> In c t -> forwarded_changed (build_chain (global_mask cfg)) c = true.
Proof.
  intros Ht Hc. unfold forwarded_changed. apply existsb_exists.
  destruct (needs c) as [|s l] eqn:Hn; [ exfalso; eapply needs_nonempty; exact Hn | ].
  exists s. split.
  - eapply chain_complete; try eassumption. rewrite Hn. left. reflexivity.
  - apply needs_accepts. rewrite Hn. left. reflexivity.
Qed.

Theorem chain_perm cfg cfg' : Permutation cfg cfg' -> build_chain (global_mask cfg) = build_chain (global_mask cfg').
Proof. intro H. rewrite (global_mask_perm _ _ H). reflexivity. Qed.

Theorem subs_perm mysql cfg cfg' :
  Permutation cfg cfg' -> build_subs mysql (global_mask cfg) = build_subs mysql (global_mask cfg').
Proof. intro H. rewrite (global_mask_perm _ _ H). reflexivity. Qed.

Lemma has_mono m m' f : mask_sub m m' -> has m f = true -> has m' f = true.
Proof. intros Hs Hf. apply has_sub. eapply sub_trans. apply has_sub. exact Hf. exact Hs. Qed.

(* a table added anywhere never removes a stage *)
Theorem chain_monotone cfg1 cfg2 t s :
  In s (build_chain (global_mask (cfg1 ++ cfg2))) -> In s (build_chain (global_mask (cfg1 ++ t :: cfg2))).
Proof.
  intro H. apply in_build_chain. apply in_build_chain in H.
  destruct s; try exact I; eapply has_mono; try exact H; apply global_mask_monotone.
Qed.

(** * the read side *)
Lemma in_build_subs mysql m s :
  match s with
  | SubToken => has m SM_TOKENIZATION = true
  | SubHmac | SubVerify => has m SM_SEARCH = true
  | SubDetector => True
  | _ => False
  end -> In s (build_subs mysql m).
Proof.
  unfold build_subs.
  destruct mysql, (only_default m), (has m SM_TOKENIZATION), (has m SM_SEARCH), s; cbn; intuition congruence.
Qed.

Theorem subs_complete mysql cfg t c s :
  In t cfg -> In c t -> In s (needs_subs c) -> In s (build_subs mysql (global_mask cfg)).
Proof.
  intros Ht Hc Hs. apply in_build_subs. unfold needs_subs in Hs.
  destruct (sc_token c) eqn:Etok, (sc_search c) eqn:Esea; cbn in Hs;
    repeat (destruct Hs as [Hs|Hs]; [subst s|]); try contradiction; try exact I;
    eapply has_global; try eassumption; (apply col_token_flag || apply col_search_flag); assumption.
Qed.

(* MySQL: the settings-only QueryDataEncryptor leads the subscribers as soon as any column is not plain encryption *)
Theorem mysql_query_subscriber_first cfg t c :
  In t cfg -> In c t -> only_encryption c = false ->
  exists rest, build_subs true (global_mask cfg) = SubQuery :: rest.
Proof.
  intros Ht Hc Ho. unfold build_subs.
  assert (Hd : only_default (global_mask cfg) = false).
  { rewrite col_only_encryption in Ho. apply negb_false_iff in Ho.
    unfold only_default. apply N.eqb_neq. intro Hz.
    assert (Hbit : forall f, mask_sub f (N.lor SM_SEARCH (N.lor SM_MASKING (N.lor SM_TOKENIZATION (N.lor SM_DEFAULT_DATA_VALUE SM_DATA_TYPE)))) ->
                   has (global_mask cfg) f = true -> f = 0).
    { intros f Hf Hh. apply has_sub in Hh. unfold mask_sub in *.
      rewrite <- Hh. rewrite <- Hf at 1. rewrite N.land_assoc. rewrite Hz. apply N.land_0_l. }
    destruct (sc_token c) eqn:Etok.
    { assert (H := Hbit SM_TOKENIZATION ltac:(vm_compute; reflexivity) (has_global _ _ _ _ Ht Hc (col_token_flag _ Etok))). discriminate H. }
    destruct (sc_search c) eqn:Esea.
    { assert (H := Hbit SM_SEARCH ltac:(vm_compute; reflexivity) (has_global _ _ _ _ Ht Hc (col_search_flag _ Esea))). discriminate H. }
    destruct (sc_mask c) eqn:Emsk; [ | discriminate Ho ].
    assert (H := Hbit SM_MASKING ltac:(vm_compute; reflexivity) (has_global _ _ _ _ Ht Hc (col_mask_flag _ Emsk))). discriminate H. }
  rewrite Hd. eexists. reflexivity.
Qed.

(** * composition with the full chain of property C01 (Model/FullChain.v takes the installed stages as a parameter) *)
Definition schema_of_mask (m : N) : fc_schema :=
  {| fc_tok := has m SM_TOKENIZATION; fc_search := has m SM_SEARCH; fc_mask := has m SM_MASKING |}.

(* the column setting [c] of the config is the setting [st] the chain reads *)
Definition abstracts (c : st_col) (st : fc_setting) : Prop :=
  sc_token c = false /\ sc_env_ab c = fs_env_ab st /\ sc_reenc c = fs_reenc st /\ sc_search c = fs_searchable st
  /\ sc_mask c = negb (is_nil (ms_pattern (fs_mask st))).

Section Compose.
Variable C : crypto.

Theorem searchable_forwarded_protected cfg t c st ks tape data :
  In t cfg -> In c t -> abstracts c st ->
  fs_searchable st = true -> is_nil (ms_pattern (fs_mask st)) = true ->
  fc_write C (schema_of_mask (global_mask cfg)) st ks tape data = searchable_encrypt C (fs_id st) ks tape data.
Proof.
  intros Ht Hc (_ & _ & _ & Hs & _) Hst Hm. apply fc_write_searchable; try assumption.
  cbn [schema_of_mask fc_search]. eapply has_global; try eassumption. apply col_search_flag. congruence.
Qed.

Theorem masked_forwarded_protected cfg t c st ks tape data :
  In t cfg -> In c t -> abstracts c st ->
  fs_searchable st = false -> is_nil (ms_pattern (fs_mask st)) = false ->
  fc_write C (schema_of_mask (global_mask cfg)) st ks tape data = mask_encryptor C (fs_id st) ks tape (fs_mask st) data
  /\ fc_write C (schema_of_mask (global_mask cfg)) st ks tape data
     = write_chain C (fs_id st) ks tape (fs_mask st) (fs_reenc st) data.
Proof.
  intros Ht Hc (_ & _ & _ & _ & Hmk) Hst Hm. apply fc_write_masked; try assumption.
  cbn [schema_of_mask fc_mask]. eapply has_global; try eassumption. apply col_mask_flag. rewrite Hmk, Hm. reflexivity.
Qed.
End Compose.

(** * the mask of the last table alone is NOT enough (what the theorems above exclude) *)
Definition w_plain : st_col := mk_sc true true false false false false.
Definition w_search : st_col := mk_sc true true false false true false.
Definition w_token : st_col := mk_sc true true true false false false.
Definition w_masked : st_col := mk_sc false true false false false true.
Definition w_cfg : config := [[w_token; w_masked; w_search]; [w_plain]].

Lemma last_table_mask_incomplete :
  exists cfg t c s, In t cfg /\ In c t /\ In s (needs c) /\ ~ In s (build_chain (last_table_mask cfg))
                    /\ forwarded_changed (build_chain (last_table_mask cfg)) c = false.
Proof.
  exists w_cfg, [w_token; w_masked; w_search], w_search, StSearch.
  repeat split; try (cbn; tauto).
  vm_compute. intuition discriminate.
Qed.
