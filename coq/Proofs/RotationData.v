(** C06 (extension x06list) — rotation / destruction and DATA.

    Part B: the specification machine — a key version stays offered until an operation destroys
            exactly it ([kills]); once gone it never comes back; a destruction removes that version
            and no other.
    Part C: keystore v2 composed with the envelope model (Model/KeyDataExt.v [d_step] over
            [v2_sys]) — for every history, a value protected at any point is revealed at any later
            point iff the version it was protected under is still offered by the specification
            state; both directions are reductions with an explicit forgery witness
            (Proofs/RevealReduction.v).  Blind index: searched with the CURRENT HMAC key only.
    Part L: the listings of keystore v2 equal the specification's listing. *)
From Coq Require Import List NArith ZArith Bool Lia.
From Acra Require Import Lib.Bytes Lib.Outcome Lib.Sha256 Crypto.Interface Gen.Consts Gen.KeyStates
  Model.KeySpec Model.KeystoreV1 Model.KeystoreV2 Model.Envelope Model.KeyDataExt
  Proofs.Envelope Proofs.EnvelopeHandlers Proofs.RevealReduction Proofs.KeySpec Proofs.KeystoreV2.
Import ListNotations.
Local Open Scope N_scope.
Arguments d_ks {K} _.
Arguments d_vals {K} _.

(** * Part B: the specification machine *)

(** the key version an operation destroys in state [st] *)
Definition kills (st : sstate) (o : kop) (s : slot) (k : ord) : Prop :=
  match o with
  | DestroyCur s' => s' = s /\ s_cur (st s) = Some k
  | DestroyRot s' i => s' = s /\ (2 <= i)%Z /\ listed (st s) i = Some k
  | _ => False
  end.

Definition offered (st : sstate) (s : slot) : list ord := s_all false (st s).

Lemma in_remove_nth_ne {A} (l : list A) p a k :
  nth_error l p = Some a -> a <> k -> In k l -> In k (remove_nth p l).
Proof.
  revert p. induction l as [|b r IH]; intros p Hn Hne Hin; [destruct Hin|].
  destruct p as [|p].
  - cbn in Hn. inversion Hn. subst b. change (remove_nth 0 (a :: r)) with r.
    destruct Hin as [E|Hin]; [congruence | exact Hin].
  - cbn [nth_error] in Hn. change (remove_nth (S p) (b :: r)) with (b :: remove_nth p r).
    destruct Hin as [E|Hin]; [left; exact E | right; apply (IH p Hn Hne Hin)].
Qed.

Lemma in_remove_nth_incl {A} (l : list A) p x : In x (remove_nth p l) -> In x l.
Proof.
  revert p. induction l as [|b r IH]; intros p H.
  - destruct p; exact H.
  - destruct p as [|p].
    + change (remove_nth 0 (b :: r)) with r in H. right. exact H.
    + change (remove_nth (S p) (b :: r)) with (b :: remove_nth p r) in H.
      destruct H as [E|H]; [left; exact E | right; exact (IH p H)].
Qed.

Lemma rot_pos_listed e i p :
  rot_pos (length (s_rot e)) i = Some p ->
  (2 <= i)%Z /\ exists a, nth_error (s_rot e) p = Some a /\ listed e i = Some a.
Proof.
  intro Hp. destruct (rot_pos_some _ _ _ Hp) as (Hlt & Hi & Epos).
  split; [lia|].
  destruct (nth_error (s_rot e) p) as [a|] eqn:En.
  - exists a. split; [reflexivity|]. unfold listed.
    assert (Hq : (Z.to_nat (i - 2) < length (s_rot e))%nat) by lia.
    assert (Hr : (Z.to_nat (i - 2) < length (rev (s_rot e)))%nat) by (rewrite rev_length; exact Hq).
    rewrite (nth_error_nth' _ a Hr). f_equal.
    rewrite (rev_nth _ a Hq).
    replace (length (s_rot e) - S (Z.to_nat (i - 2)))%nat with p by lia.
    apply nth_error_nth. exact En.
  - apply nth_error_None in En. lia.
Qed.

Lemma in_all_cases (e : sslot) k : In k (s_all false e) <-> s_cur e = Some k \/ In k (s_rot e).
Proof.
  unfold s_all. destruct (s_cur e) as [c|]; cbn [In]; split.
  - intros [E|H]; [left; congruence | right; exact H].
  - intros [E|H]; [left; congruence | right; exact H].
  - intro H. right. exact H.
  - intros [E|H]; [discriminate | exact H].
Qed.

(** one step: a version that is not the destroyed one stays offered *)
Lemma step_keeps_unkilled hide st o s k :
  In k (offered st s) -> ~ kills st o s k -> In k (offered (fst (spec_step hide st o)) s).
Proof.
  unfold offered. intros Hin Hnk.
  destruct o as [s' o' t1 t2|s'|s'|s'|s'|s' i| |]; cbn [spec_step fst]; try exact Hin.
  - (* Gen *)
    destruct (slot_eqb s s') eqn:E.
    + apply slot_eqb_eq in E. subst s'. rewrite supd_same. unfold s_all at 1. cbn [s_cur s_rot].
      right. apply in_all_cases in Hin. destruct (s_cur (st s)) as [c|].
      * destruct Hin as [E|H]; [left; congruence | right; exact H].
      * destruct Hin as [E|H]; [discriminate | exact H].
    + apply slot_eqb_neq in E. rewrite supd_other by exact E. exact Hin.
  - (* DestroyCur *)
    destruct (slot_eqb s s') eqn:E.
    + apply slot_eqb_eq in E. subst s'. rewrite supd_same. unfold s_all at 1. cbn [s_cur s_rot].
      apply in_all_cases in Hin. destruct Hin as [Hc|Hr]; [|exact Hr].
      exfalso. apply Hnk. cbn [kills]. split; [reflexivity | exact Hc].
    + apply slot_eqb_neq in E. rewrite supd_other by exact E. exact Hin.
  - (* DestroyRot *)
    destruct (rot_pos (length (s_rot (st s'))) i) as [p|] eqn:Ep; [|exact Hin].
    destruct (slot_eqb s s') eqn:E.
    + apply slot_eqb_eq in E. subst s'. rewrite supd_same.
      destruct (rot_pos_listed _ _ _ Ep) as (Hi & a & Hn & Hl).
      apply in_all_cases. cbn [s_cur s_rot]. apply in_all_cases in Hin.
      destruct Hin as [Hc|Hr]; [left; exact Hc | right].
      apply (in_remove_nth_ne _ _ a k Hn); [|exact Hr].
      intro Eak. subst a. apply Hnk. cbn [kills]. split; [reflexivity|]. split; [exact Hi | exact Hl].
    + apply slot_eqb_neq in E. rewrite supd_other by exact E. exact Hin.
Qed.

(** a version is destroyed somewhere along a history *)
Fixpoint killed_in (st : sstate) (ops : list kop) (s : slot) (k : ord) : Prop :=
  match ops with
  | [] => False
  | o :: r => kills st o s k \/ killed_in (fst (spec_step false st o)) r s k
  end.

(** ROTATION KEEPS OLD KEYS, all histories: whatever happens (any number of rotations of any kind,
    destructions of OTHER versions or other slots, reads, re-openings), a version offered now is
    still offered at the end unless an operation of the history destroyed exactly it *)
Theorem offered_unless_killed : forall ops st s k,
  In k (offered st s) -> ~ killed_in st ops s k -> In k (offered (spec_state_after false st ops) s).
Proof.
  induction ops as [|o r IH]; intros st s k Hin Hnk; cbn [spec_state_after]; [exact Hin|].
  cbn [killed_in] in Hnk. apply IH.
  - apply step_keeps_unkilled; [exact Hin | intro H; apply Hnk; left; exact H].
  - intro H. apply Hnk. right. exact H.
Qed.

(** what is offered after a step was offered before, or is the version just generated *)
Lemma step_offered_incl hide st o s x :
  In x (offered (fst (spec_step hide st o)) s) ->
  In x (offered st s) \/ exists t1 t2, o = Gen s x t1 t2.
Proof.
  unfold offered. intro Hin.
  destruct o as [s' o' t1 t2|s'|s'|s'|s'|s' i| |]; cbn [spec_step fst] in Hin; try (left; exact Hin).
  - destruct (slot_eqb s s') eqn:E.
    + apply slot_eqb_eq in E. subst s'. rewrite supd_same in Hin. unfold s_all at 1 in Hin.
      cbn [s_cur s_rot] in Hin. destruct Hin as [E|H].
      * right. subst o'. exists t1, t2. reflexivity.
      * left. apply in_all_cases. destruct (s_cur (st s)) as [c|].
        -- destruct H as [E|H]; [left; congruence | right; exact H].
        -- right. exact H.
    + apply slot_eqb_neq in E. rewrite supd_other in Hin by exact E. left. exact Hin.
  - destruct (slot_eqb s s') eqn:E.
    + apply slot_eqb_eq in E. subst s'. rewrite supd_same in Hin. unfold s_all at 1 in Hin.
      cbn [s_cur s_rot] in Hin. left. apply in_all_cases. right. exact Hin.
    + apply slot_eqb_neq in E. rewrite supd_other in Hin by exact E. left. exact Hin.
  - destruct (rot_pos (length (s_rot (st s'))) i) as [p|] eqn:Ep; [|left; exact Hin].
    destruct (slot_eqb s s') eqn:E.
    + apply slot_eqb_eq in E. subst s'. rewrite supd_same in Hin. left.
      apply in_all_cases in Hin. cbn [s_cur s_rot] in Hin. apply in_all_cases.
      destruct Hin as [Hc|Hr]; [left; exact Hc | right].
      exact (in_remove_nth_incl _ _ _ Hr).
    + apply slot_eqb_neq in E. rewrite supd_other in Hin by exact E. left. exact Hin.
Qed.

(** a version that is gone never comes back (unless the same label is generated again) *)
Theorem gone_stays_gone : forall ops st s k,
  ~ In k (offered st s) -> ~ In k (gen_labels ops) -> ~ In k (offered (spec_state_after false st ops) s).
Proof.
  induction ops as [|o r IH]; intros st s k Hn Hg; cbn [spec_state_after]; [exact Hn|].
  apply IH.
  - intro H. apply step_offered_incl in H. destruct H as [H|(t1 & t2 & E)]; [exact (Hn H)|].
    subst o. apply Hg. cbn [gen_labels]. left. reflexivity.
  - intro H. apply Hg. destruct o; cbn [gen_labels]; try exact H. right. exact H.
Qed.

(** DESTRUCTION REMOVES EXACTLY THE CHOSEN KEY (one step): the destroyed version is no longer offered,
    every other version of the slot still is, every other slot is untouched *)
Theorem kill_removes_exactly hide st o s k :
  kills st o s k -> NoDup (offered st s) ->
  let st' := fst (spec_step hide st o) in
  ~ In k (offered st' s)
  /\ (forall k', k' <> k -> In k' (offered st s) -> In k' (offered st' s))
  /\ (forall s', s' <> s -> st' s' = st s').
Proof.
  unfold offered. intros Hk Hnd.
  destruct o as [s' o' t1 t2|s'|s'|s'|s'|s' i| |]; cbn [kills] in Hk; try contradiction.
  - destruct Hk as [-> Hc]. cbn zeta.
    destruct (spec_destroy_current_exact hide st s) as (H1 & H2 & H3).
    unfold s_all in Hnd. rewrite Hc in Hnd. inversion Hnd as [|? ? Hnotin Hnd']; subst.
    split; [|split].
    + intro H. apply in_all_cases in H. rewrite H1, H2 in H. destruct H as [E|H]; [discriminate | exact (Hnotin H)].
    + intros k' Hne H. apply in_all_cases in H. apply in_all_cases. rewrite H1, H2.
      destruct H as [E|H]; [congruence | right; exact H].
    + exact H3.
  - destruct Hk as (-> & Hi & Hl). cbn zeta.
    assert (Hndr : NoDup (s_rot (st s))).
    { unfold s_all in Hnd. destruct (s_cur (st s)); [inversion Hnd; assumption | exact Hnd]. }
    destruct (spec_destroy_rotated_exact hide st s i k Hi Hndr Hl) as (H1 & H2 & H3).
    assert (Hkr : In k (s_rot (st s))).
    { destruct (listed_pos _ _ _ Hi Hl) as [_ Hn]. eapply nth_error_In. exact Hn. }
    split; [|split].
    + intro H. apply in_all_cases in H. rewrite H2 in H. destruct H as [Hc|H].
      * unfold s_all in Hnd. rewrite Hc in Hnd. inversion Hnd as [|? ? Hnotin _]; subst. exact (Hnotin Hkr).
      * apply H1 in H. destruct H as [_ Hne]. apply Hne. reflexivity.
    + intros k' Hne H. apply in_all_cases in H. apply in_all_cases. rewrite H2.
      destruct H as [Hc|H]; [left; exact Hc | right; apply H1; split; assumption].
    + exact H3.
Qed.

(** * Part C: keystore v2 composed with the envelope model *)

Lemma keys_obs_inj l1 l2 : keys_obs l1 = keys_obs l2 -> l1 = l2.
Proof. destruct l1, l2; cbn [keys_obs]; intro H; try discriminate; [reflexivity | inversion H; reflexivity]. Qed.

Lemma labels_of_canon_all s r l : canon (All s) r = keys_obs l -> labels_of r = l.
Proof.
  destruct r as [l'|e|]; cbn [canon labels_of]; intro H.
  - apply keys_obs_inj. exact H.
  - destruct l; [reflexivity | discriminate].
  - destruct l; discriminate.
Qed.
Lemma labels_of_canon_cur s r l : canon (Cur s) r = keys_obs l -> labels_of r = l.
Proof.
  destruct r as [l'|e|]; cbn [canon labels_of]; intro H.
  - apply keys_obs_inj. exact H.
  - destruct l; [reflexivity | discriminate].
  - destruct l; discriminate.
Qed.

Definition cur_list (e : sslot) : list ord := match s_cur e with Some c => [c] | None => [] end.

Lemma v2_all_labels st sp s : R st sp ->
  labels_of (snd (v2_step st (All s))) = s_all false (sp s) /\ R (fst (v2_step st (All s))) sp.
Proof.
  intro HR. destruct (v2_step_sim st sp (All s) HR) as [Hc HR'].
  cbn [spec_step fst snd] in Hc, HR'. split; [|exact HR'].
  apply (labels_of_canon_all s). exact Hc.
Qed.

Lemma v2_cur_labels st sp s : R st sp ->
  labels_of (snd (v2_step st (Cur s))) = cur_list (sp s) /\ R (fst (v2_step st (Cur s))) sp.
Proof.
  intro HR. destruct (v2_step_sim st sp (Cur s) HR) as [Hc HR'].
  cbn [spec_step fst snd] in Hc, HR'. split; [|exact HR'].
  apply (labels_of_canon_cur s). rewrite Hc. unfold cur_list. destruct (s_cur (sp s)); reflexivity.
Qed.

(** the public key of a storage pair slot is the one of the slot's current version *)
Lemma v2_pub_is_cur st sp s : R st sp -> read_creates (fst s) = false ->
  match v2_cur_pub st s with Ok k => [k] | _ => [] end = cur_list (sp s).
Proof.
  intros HR Hrc. destruct (v2_cur_labels st sp s HR) as [Hl _]. rewrite <- Hl.
  cbn [v2_step]. rewrite Hrc. cbn [snd]. unfold v2_cur_pub.
  destruct (st s) as [r|]; [|reflexivity].
  destruct (r_cur r =? V2_NOKEY)%Z; [reflexivity|].
  destruct (key_data r (r_cur r)); reflexivity.
Qed.

Section V2Data.
Variable C : crypto.
Hypothesis HC : Correct C.
Variable km : ord -> bytes * bytes.

Notation dstep := (d_step C km v2_sys).
Notation dafter := (d_state_after C km v2_sys).
Definition d0 : dstate v2_sys := d_init v2_sys v2_init.

Lemma spec_after_app hide : forall a st b,
  spec_state_after hide st (a ++ b) = spec_state_after hide (spec_state_after hide st a) b.
Proof. induction a as [|o a IH]; intros st b; cbn [app spec_state_after]; [reflexivity | apply IH]. Qed.

Lemma dafter_app : forall a st b, dafter st (a ++ b) = dafter (dafter st a) b.
Proof. induction a as [|o a IH]; intros st b; cbn [app d_state_after]; [reflexivity | apply IH]. Qed.

Lemma kops_of_app a b : kops_of (a ++ b) = kops_of a ++ kops_of b.
Proof.
  induction a as [|o a IH]; [reflexivity|]. cbn [app].
  destruct o as [o|s|s|s|s t d|s n|s n d]; cbn [kops_of]; try (rewrite IH; reflexivity).
  - destruct (fst s); rewrite IH; reflexivity.
  - destruct (fst s); rewrite IH; reflexivity.
Qed.

(** one step of the composed machine: the keystore component follows the specification along
    [kops_of], the produced values are only appended *)
Lemma dstep_sim (st : dstate v2_sys) sp o :
  R (d_ks st) sp ->
  R (d_ks (fst (dstep st o))) (spec_state_after false sp (kops_of [o]))
  /\ exists l, d_vals (fst (dstep st o)) = d_vals st ++ l.
Proof.
  intro HR. destruct o as [o|s|s|s|s t d|s n|s n d]; cbn [d_step kops_of].
  - destruct (v2_step_sim (d_ks st) sp o HR) as [_ HR'].
    cbn [K_step v2_sys]. destruct (v2_step (d_ks st) o) as [k1 r]. cbn [fst snd d_ks d_vals] in *.
    cbn [spec_state_after]. split; [exact HR' | exists []; symmetry; apply app_nil_r].
  - cbn [fst spec_state_after]. split; [exact HR | exists []; symmetry; apply app_nil_r].
  - cbn [fst spec_state_after]. split; [exact HR | exists []; symmetry; apply app_nil_r].
  - cbn [K_pub v2_sys fst d_ks d_vals spec_state_after]. split; [exact HR | exists []; symmetry; apply app_nil_r].
  - unfold protect_with. cbn [K_pub K_step v2_sys].
    destruct (fst s) eqn:Ek; cbn [fst d_ks d_vals spec_state_after].
    + split; [exact HR|]. match goal with |- context [match ?r with Ok v => _ | _ => _ end] => destruct r end;
        [eexists; reflexivity | exists []; symmetry; apply app_nil_r | exists []; symmetry; apply app_nil_r].
    + destruct (v2_cur_labels (d_ks st) sp s HR) as [_ HR'].
      destruct (v2_step (d_ks st) (Cur s)) as [k1 r]. cbn [fst snd d_ks d_vals] in *.
      split; [exact HR'|]. match goal with |- context [match ?r with Ok v => _ | _ => _ end] => destruct r end;
        [eexists; reflexivity | exists []; symmetry; apply app_nil_r | exists []; symmetry; apply app_nil_r].
    + destruct (v2_cur_labels (d_ks st) sp s HR) as [_ HR'].
      destruct (v2_step (d_ks st) (Cur s)) as [k1 r]. cbn [fst snd d_ks d_vals] in *.
      split; [exact HR'|]. match goal with |- context [match ?r with Ok v => _ | _ => _ end] => destruct r end;
        [eexists; reflexivity | exists []; symmetry; apply app_nil_r | exists []; symmetry; apply app_nil_r].
    + split; [exact HR | exists []; symmetry; apply app_nil_r].
    + split; [exact HR | exists []; symmetry; apply app_nil_r].
    + split; [exact HR | exists []; symmetry; apply app_nil_r].
  - unfold reveal_with. cbn [K_step v2_sys].
    destruct (fst s) eqn:Ek; cbn [fst d_ks d_vals spec_state_after];
      try (split; [exact HR | exists []; symmetry; apply app_nil_r]).
    + destruct (v2_all_labels (d_ks st) sp s HR) as [_ HR'].
      destruct (v2_step (d_ks st) (All s)) as [k1 r]. cbn [fst snd d_ks d_vals] in *.
      split; [exact HR' | exists []; symmetry; apply app_nil_r].
    + destruct (v2_all_labels (d_ks st) sp s HR) as [_ HR'].
      destruct (v2_step (d_ks st) (All s)) as [k1 r]. cbn [fst snd d_ks d_vals] in *.
      split; [exact HR' | exists []; symmetry; apply app_nil_r].
  - unfold search_with. cbn [K_step v2_sys].
    destruct (v2_cur_labels (d_ks st) sp s HR) as [_ HR'].
    destruct (v2_step (d_ks st) (Cur s)) as [k1 r]. cbn [fst snd d_ks d_vals spec_state_after] in *.
    split; [exact HR' | exists []; symmetry; apply app_nil_r].
Qed.

Lemma dafter_sim : forall ops (st : dstate v2_sys) sp,
  R (d_ks st) sp ->
  R (d_ks (dafter st ops)) (spec_state_after false sp (kops_of ops))
  /\ exists l, d_vals (dafter st ops) = d_vals st ++ l.
Proof.
  induction ops as [|o ops IH]; intros st sp HR.
  - cbn [d_state_after kops_of spec_state_after]. split; [exact HR | exists []; symmetry; apply app_nil_r].
  - cbn [d_state_after]. destruct (dstep_sim st sp o HR) as [HR1 [l1 Hl1]].
    destruct (IH _ _ HR1) as [HR2 [l2 Hl2]].
    change (o :: ops) with ([o] ++ ops). rewrite kops_of_app, spec_after_app.
    split; [exact HR2|]. exists (l1 ++ l2). rewrite Hl2, Hl1, app_assoc. reflexivity.
Qed.

Lemma R0 : R (d_ks d0) s_init.
Proof. exact R_init. Qed.

(** ** AcraStruct under storage key pairs *)
Theorem v2_data_pair (pre post : list dop) (s : slot) (tape : list bytes) (x sd : bytes) (k : ord) :
  fst s = KStoragePair ->
  looks_protected ENVELOPE_ID_ACRASTRUCT x = false -> x <> [] -> (N.of_nat (length x) < MAXMSG)%N ->
  good_as_tape tape -> length sd = SEED_LEN -> km k = keypair C sd ->
  s_cur (spec_state_after false s_init (kops_of pre) s) = Some k ->
  let st1 := dafter d0 pre in
  let ops := pre ++ DProtect s tape x :: post in
  let L := offered (spec_state_after false s_init (kops_of ops)) s in
  exists v inner,
    snd (dstep st1 (DProtect s tape x)) = DB (Ok v) /\ v = sc_layout inner ENVELOPE_ID_ACRASTRUCT /\
    let out := snd (dstep (dafter d0 ops) (DReveal s (length (d_vals st1)))) in
    (In k L -> out = DB (Ok x)
               \/ exists k' y, In k' L /\ as_decrypt C inner (sec km k') [] = Ok y /\ y <> x)
    /\ (~ In k L -> (exists e, out = DB (Err e))
                    \/ exists k' y, In k' L /\ k' <> k /\ as_decrypt C inner (sec km k') [] = Ok y).
Proof.
  intros Hkind Hnp Hx Hlen Htape Hsd Hkm Hcur st1 ops L.
  destruct (dafter_sim pre d0 s_init R0) as [HR1 _]. fold st1 in HR1.
  set (sp1 := spec_state_after false s_init (kops_of pre)) in *.
  assert (Hpub : v2_cur_pub (d_ks st1) s = Ok k).
  { pose proof (v2_pub_is_cur (d_ks st1) sp1 s HR1) as H. rewrite Hkind in H. specialize (H eq_refl).
    unfold cur_list in H. rewrite Hcur in H. destruct (v2_cur_pub (d_ks st1) s); inversion H. reflexivity. }
  destruct (as_protect_reveal C HC (ks_only_pub (Some (pub_of C sd))) tape x sd Hnp Hx Hlen Htape Hsd eq_refl)
    as (v & inner & Henc & Hv & Hdec & Hall).
  assert (Hstep : dstep st1 (DProtect s tape x)
                  = ({| d_ks := d_ks st1; d_vals := d_vals st1 ++ [v] |}, DB (Ok v))).
  { cbn [d_step]. unfold protect_with. rewrite Hkind. cbn [K_pub v2_sys]. rewrite Hpub.
    unfold pubk. rewrite Hkm. change (snd (keypair C sd)) with (pub_of C sd). rewrite Henc. reflexivity. }
  exists v, inner. split; [rewrite Hstep; reflexivity|]. split; [exact Hv|].
  (* the state at reveal time *)
  set (st1' := {| d_ks := d_ks st1; d_vals := d_vals st1 ++ [v] |} : dstate v2_sys).
  assert (Est2 : dafter d0 ops = dafter st1' post).
  { unfold ops. rewrite dafter_app. fold st1. cbn [d_state_after]. rewrite Hstep. reflexivity. }
  assert (HR1' : R (d_ks st1') (spec_state_after false s_init (kops_of (pre ++ [DProtect s tape x])))).
  { rewrite kops_of_app, spec_after_app. cbn [kops_of]. rewrite Hkind. cbn [spec_state_after]. exact HR1. }
  destruct (dafter_sim post st1' _ HR1') as [HR2 [l2 Hl2]].
  rewrite <- spec_after_app, <- kops_of_app, <- app_assoc in HR2. cbn [app] in HR2. fold ops in HR2.
  set (st2 := dafter st1' post) in *.
  assert (Hnth : nth (length (d_vals st1)) (d_vals st2) [] = v).
  { rewrite Hl2. cbn [d_vals st1']. rewrite <- app_assoc. rewrite app_nth2 by lia.
    rewrite Nat.sub_diag. reflexivity. }
  cbn zeta. rewrite Est2. cbn [d_step]. rewrite Hnth. unfold reveal_with. rewrite Hkind. cbn [K_step v2_sys].
  destruct (v2_all_labels (d_ks st2) _ s HR2) as [HL _].
  destruct (v2_step (d_ks st2) (All s)) as [k2 r]. cbn [snd] in HL |- *.
  change (labels_of r = L) in HL. rewrite HL.
  destruct (Hall (map (sec km) L)) as [Hin Hout].
  change (ks_only_privs (map (sec km) L)) with (rk_privs (map (sec km) L)).
  assert (Esec : sec km k = priv_of C sd) by (unfold sec; rewrite Hkm; reflexivity).
  split.
  - intro HkL. destruct Hin as [H|(p & y & Hp & Hy & Hne)].
    + rewrite <- Esec. apply in_map. exact HkL.
    + left. rewrite H. reflexivity.
    + right. apply in_map_iff in Hp. destruct Hp as (k' & <- & Hk'). exists k', y. repeat split; assumption.
  - intro HnkL. destruct Hout as [[e He]|(p & y & Hp & Hy & _)].
    + left. exists e. rewrite He. reflexivity.
    + right. apply in_map_iff in Hp. destruct Hp as (k' & <- & Hk'). exists k', y.
      split; [exact Hk'|]. split; [intro E; subst k'; exact (HnkL Hk') | exact Hy].
Qed.

(** ** AcraBlock under symmetric storage keys *)
Theorem v2_data_sym (pre post : list dop) (s : slot) (tape : list bytes) (x : bytes) (k : ord) :
  fst s = KStorageSym ->
  looks_protected ENVELOPE_ID_ACRABLOCK x = false -> x <> [] -> (N.of_nat (length x) < MAXMSG)%N ->
  good_ab_tape tape -> sec km k <> [] ->
  s_cur (spec_state_after false s_init (kops_of pre) s) = Some k ->
  let st1 := dafter d0 pre in
  let ops := pre ++ DProtect s tape x :: post in
  let L := offered (spec_state_after false s_init (kops_of ops)) s in
  exists v ek ed,
    snd (dstep st1 (DProtect s tape x)) = DB (Ok v)
    /\ v = sc_layout (ab_layout (sec km k) [] ek ed) ENVELOPE_ID_ACRABLOCK /\
    let out := snd (dstep (dafter d0 ops) (DReveal s (length (d_vals st1)))) in
    (In k L -> out = DB (Ok x)
               \/ exists k' dk, In k' L /\ sec km k' <> sec km k
                   /\ bytes_eqb (ab_key_id (sec km k') []) (ab_key_id (sec km k) []) = true
                   /\ cell_decrypt C (sec km k') [] ek = Some dk)
    /\ (~ In k L -> (exists e, out = DB (Err e))
                    \/ exists k' dk, In k' L /\ k' <> k
                   /\ bytes_eqb (ab_key_id (sec km k') []) (ab_key_id (sec km k) []) = true
                   /\ cell_decrypt C (sec km k') [] ek = Some dk).
Proof.
  intros Hkind Hnp Hx Hlen Htape Hkey Hcur st1 ops L.
  destruct (dafter_sim pre d0 s_init R0) as [HR1 _]. fold st1 in HR1.
  set (sp1 := spec_state_after false s_init (kops_of pre)) in *.
  destruct (v2_cur_labels (d_ks st1) sp1 s HR1) as [Hcl HRc].
  unfold cur_list in Hcl. rewrite Hcur in Hcl.
  destruct (ab_protect_reveal C HC (ks_only_syms [sec km k]) tape x (sec km k) [] Hnp Hx Hlen Htape Hkey eq_refl)
    as (v & ek & ed & Henc & Hv & Hall).
  destruct (v2_step (d_ks st1) (Cur s)) as [kc rc] eqn:Estep. cbn [fst snd] in Hcl, HRc.
  assert (Hstep : dstep st1 (DProtect s tape x)
                  = ((Build_dstate v2_sys kc (d_vals st1 ++ [v])), DB (Ok v))).
  { cbn [d_step]. unfold protect_with. rewrite Hkind. cbn [K_step v2_sys]. rewrite Estep, Hcl.
    cbn [map]. rewrite Henc. reflexivity. }
  exists v, ek, ed. split; [rewrite Hstep; reflexivity|]. split; [exact Hv|].
  set (st1' := (Build_dstate v2_sys kc (d_vals st1 ++ [v])) : dstate v2_sys).
  assert (Est2 : dafter d0 ops = dafter st1' post).
  { unfold ops. rewrite dafter_app. fold st1. cbn [d_state_after]. rewrite Hstep. reflexivity. }
  assert (HR1' : R (d_ks st1') (spec_state_after false s_init (kops_of (pre ++ [DProtect s tape x])))).
  { rewrite kops_of_app, spec_after_app. cbn [kops_of]. rewrite Hkind. cbn [spec_state_after spec_step fst]. exact HRc. }
  destruct (dafter_sim post st1' _ HR1') as [HR2 [l2 Hl2]].
  rewrite <- spec_after_app, <- kops_of_app, <- app_assoc in HR2. cbn [app] in HR2. fold ops in HR2.
  set (st2 := dafter st1' post) in *.
  assert (Hnth : nth (length (d_vals st1)) (d_vals st2) [] = v).
  { rewrite Hl2. cbn [d_vals st1']. rewrite <- app_assoc. rewrite app_nth2 by lia.
    rewrite Nat.sub_diag. reflexivity. }
  cbn zeta. rewrite Est2. cbn [d_step]. rewrite Hnth. unfold reveal_with. rewrite Hkind. cbn [K_step v2_sys].
  destruct (v2_all_labels (d_ks st2) _ s HR2) as [HL _].
  destruct (v2_step (d_ks st2) (All s)) as [k2 r]. cbn [snd] in HL |- *.
  change (labels_of r = L) in HL. rewrite HL.
  destruct (Hall (map (sec km) L)) as [Hin Hout].
  change (ks_only_syms (map (sec km) L)) with (rk_syms (map (sec km) L)).
  split.
  - intro HkL. destruct Hin as [H|(p & dk & Hp & Hne & Hid & Hdk)].
    + apply in_map. exact HkL.
    + left. rewrite H. reflexivity.
    + right. apply in_map_iff in Hp. destruct Hp as (k' & <- & Hk'). exists k', dk. repeat split; assumption.
  - intro HnkL. destruct Hout as [[e He]|(p & dk & Hp & Hid & Hdk)].
    + left. exists e. rewrite He. reflexivity.
    + right. apply in_map_iff in Hp. destruct Hp as (k' & <- & Hk'). exists k', dk.
      split; [exact Hk'|]. split; [intro E; subst k'; exact (HnkL Hk')|]. split; assumption.
Qed.

(** ** blind index under HMAC keys: written with the key current THEN, searched with the key
    current NOW (HashData.IsEqual reads GetHMACSecretKey; there is no "all HMAC keys" getter):
    an index written before a rotation of the HMAC key is found afterwards only if the two keys
    produce the same HMAC for the searched data *)
Theorem v2_data_hmac (pre post : list dop) (s : slot) (tape : list bytes) (x x' : bytes) (k : ord) :
  fst s = KHmac ->
  s_cur (spec_state_after false s_init (kops_of pre) s) = Some k ->
  let st1 := dafter d0 pre in
  let ops := pre ++ DProtect s tape x :: post in
  let now := s_cur (spec_state_after false s_init (kops_of ops) s) in
  snd (dstep st1 (DProtect s tape x)) = DB (Ok (generate_hmac (sec km k) x)) /\
  let out := snd (dstep (dafter d0 ops) (DSearch s (length (d_vals st1)) x')) in
  match now with
  | None => out = DB (Ok [x00])
  | Some k' => (hmac_sha256 (sec km k') x' = hmac_sha256 (sec km k) x -> out = DB (Ok [x01]))
               /\ (hmac_sha256 (sec km k') x' <> hmac_sha256 (sec km k) x -> out = DB (Ok [x00]))
  end.
Proof.
  intros Hkind Hcur st1 ops now.
  destruct (dafter_sim pre d0 s_init R0) as [HR1 _]. fold st1 in HR1.
  set (sp1 := spec_state_after false s_init (kops_of pre)) in *.
  destruct (v2_cur_labels (d_ks st1) sp1 s HR1) as [Hcl HRc].
  unfold cur_list in Hcl. rewrite Hcur in Hcl.
  destruct (v2_step (d_ks st1) (Cur s)) as [kc rc] eqn:Estep. cbn [fst snd] in Hcl, HRc.
  set (v := generate_hmac (sec km k) x).
  assert (Hstep : dstep st1 (DProtect s tape x)
                  = ((Build_dstate v2_sys kc (d_vals st1 ++ [v])), DB (Ok v))).
  { cbn [d_step]. unfold protect_with. rewrite Hkind. cbn [K_step v2_sys]. rewrite Estep, Hcl. reflexivity. }
  split; [rewrite Hstep; reflexivity|].
  set (st1' := (Build_dstate v2_sys kc (d_vals st1 ++ [v])) : dstate v2_sys).
  assert (Est2 : dafter d0 ops = dafter st1' post).
  { unfold ops. rewrite dafter_app. fold st1. cbn [d_state_after]. rewrite Hstep. reflexivity. }
  assert (HR1' : R (d_ks st1') (spec_state_after false s_init (kops_of (pre ++ [DProtect s tape x])))).
  { rewrite kops_of_app, spec_after_app. cbn [kops_of]. rewrite Hkind. cbn [spec_state_after spec_step fst]. exact HRc. }
  destruct (dafter_sim post st1' _ HR1') as [HR2 [l2 Hl2]].
  rewrite <- spec_after_app, <- kops_of_app, <- app_assoc in HR2. cbn [app] in HR2. fold ops in HR2.
  set (st2 := dafter st1' post) in *.
  assert (Hnth : nth (length (d_vals st1)) (d_vals st2) [] = v).
  { rewrite Hl2. cbn [d_vals st1']. rewrite <- app_assoc. rewrite app_nth2 by lia.
    rewrite Nat.sub_diag. reflexivity. }
  cbn zeta. rewrite Est2. cbn [d_step]. rewrite Hnth. unfold search_with. cbn [K_step v2_sys].
  destruct (v2_cur_labels (d_ks st2) _ s HR2) as [HL _].
  destruct (v2_step (d_ks st2) (Cur s)) as [k2 r]. cbn [snd] in HL |- *.
  change (labels_of r = match now with Some c => [c] | None => [] end) in HL. rewrite HL.
  destruct now as [k'|].
  - destruct (hmac_search_uses_given_key (sec km k) (sec km k') x x') as (h & Hex & Hiff).
    fold v in Hex. rewrite Hex.
    change (ks_only_hmac (Some (sec km k'))) with (rk_hmac (Some (sec km k'))).
    split; intro H.
    + apply Hiff in H. rewrite H. reflexivity.
    + destruct (hash_is_equal h x' (rk_hmac (Some (sec km k')))) eqn:E; [|reflexivity].
      exfalso. apply H. apply Hiff. reflexivity.
  - destruct (hmac_search_uses_given_key (sec km k) [] x x') as (h & Hex & _).
    fold v in Hex. rewrite Hex.
    change (ks_only_hmac None) with (rk_hmac None). rewrite hmac_search_no_key. reflexivity.
Qed.

End V2Data.

(** * Part L: listings of keystore v2 = listing of the specification *)
Lemma map_const_length {A B} (l1 : list A) (l2 : list B) :
  length l1 = length l2 -> map (fun _ => 0) l1 = map (fun _ => 0) l2.
Proof.
  revert l2. induction l1 as [|a l1 IH]; intros [|b l2] H; try discriminate; [reflexivity|].
  cbn [map]. f_equal. apply IH. cbn in H. lia.
Qed.

Theorem v2_list_rot_is_spec st sp s : R st sp -> v2_list_rot st s = Ok (spec_list_rot (sp s)).
Proof.
  intro HR. destruct (v2_step_sim st sp (ListRot s) HR) as [Hc _].
  cbn [v2_step spec_step snd] in Hc. unfold v2_list_rot, spec_list_rot.
  destruct (st s) as [r|] eqn:Es.
  - destruct (rotated_active_of r) as [l|e|]; cbn [canon] in Hc; try discriminate.
    inversion Hc as [Hi]. f_equal. f_equal. apply map_const_length.
    rewrite <- (indices_from_length 2 (length l)), Hi. apply indices_from_length.
  - cbn [canon] in Hc. inversion Hc as [Hi].
    destruct (s_rot (sp s)); [reflexivity | discriminate].
Qed.

(** PARTIAL: says what a successful ListKeys shows; that it succeeds on every reachable ring (the
    Current seqnum of a non-empty ring names one of its keys) is not proved here *)
Theorem v2_list_cur_is_spec_partial st sp s l : R st sp -> read_creates (fst s) = false ->
  v2_list_cur st s = Ok l -> l = spec_list_cur (sp s).
Proof.
  intros HR Hrc Hl. pose proof (v2_pub_is_cur st sp s HR Hrc) as H.
  unfold v2_cur_pub, cur_list in H. unfold v2_list_cur in Hl. unfold spec_list_cur.
  destruct (st s) as [r|].
  - destruct (r_cur r =? V2_NOKEY)%Z.
    + inversion Hl. destruct (s_cur (sp s)); [discriminate | reflexivity].
    + unfold key_data in H. destruct (key_with_seqnum (r_keys r) (r_cur r)) as [kk|] eqn:Ek; [|discriminate].
      destruct (destroyed kk); inversion Hl.
      * destruct (s_cur (sp s)); [discriminate | reflexivity].
      * destruct (s_cur (sp s)); [reflexivity | discriminate].
  - inversion Hl. destruct (s_cur (sp s)); [discriminate | reflexivity].
Qed.
