(** Audit-log chain: an honest log verifies (induction over the writer's history with the ratchet
    state as invariant); tampering is detected no later than at the next entry of the chain, or an
    explicit SHA-256 collision (or fixed point) is exhibited. *)
From Acra Require Import Lib.Bytes Lib.Outcome Lib.Sha256 Gen.AuditLogConsts Model.AuditLog
  Proofs.AuditLogCrypto Proofs.AuditLogParse.
#[local] Arguments sha256 : simpl never.
#[local] Arguments hmac_sha256 : simpl never.

(** * running the verifier over a list of parsed lines *)
Fixpoint vrun (K : bytes) (st : vstate) (ps : list pres) : option vstate :=   (* None: failed inside [ps] *)
  match ps with
  | [] => Some st
  | PSkip :: r => vrun K st r
  | PErr :: _ => None
  | POk p :: r => match verify_step K st p with inl st' => vrun K st' r | inr _ => None end
  end.

Definition detected_by (v : verdict) (n : nat) : Prop := exists j code, v = VFail j code /\ j <= n.

Lemma verify_pres_app K : forall a st i b,
  verify_pres K st i (a ++ b) =
  match vrun K st a with Some st' => verify_pres K st' (i + length a) b | None => verify_pres K st i (a ++ b) end.
Proof.
  induction a as [|p a IH]; intros st i b; cbn [app vrun length].
  - rewrite Nat.add_0_r. reflexivity.
  - destruct p as [| |p]; cbn [verify_pres].
    + rewrite IH. replace (S i + length a) with (i + S (length a)) by lia.
      destruct (vrun K st a); reflexivity.
    + reflexivity.
    + destruct (verify_step K st p) as [st'|c]; [|reflexivity].
      rewrite IH. replace (S i + length a) with (i + S (length a)) by lia.
      destruct (vrun K st' a); reflexivity.
Qed.

Lemma vrun_none_detected K : forall a st i b, vrun K st a = None ->
  exists j code, verify_pres K st i (a ++ b) = VFail j code /\ j < i + length a.
Proof.
  induction a as [|p a IH]; intros st i b H; cbn [vrun] in H; [discriminate|].
  cbn [app length]. destruct p as [| |p]; cbn [verify_pres].
  - destruct (IH st (S i) b H) as (j & c & E & L). exists j, c. split; [exact E| lia].
  - exists i, C_PARSE. split; [reflexivity| lia].
  - destruct (verify_step K st p) as [st'|c].
    + destruct (IH st' (S i) b H) as (j & c & E & L). exists j, c. split; [exact E| lia].
    + exists i, c. split; [reflexivity| lia].
Qed.

Lemma vrun_accept K : forall a st i st', vrun K st a = Some st' -> verify_pres K st i a = VAccept.
Proof.
  intros a st i st' H. rewrite <- (app_nil_r a), verify_pres_app, H. reflexivity.
Qed.

Lemma vrun_app K : forall a st b, vrun K st (a ++ b) = match vrun K st a with Some st' => vrun K st' b | None => None end.
Proof.
  induction a as [|p a IH]; intros st b; cbn [app vrun]; [reflexivity|].
  destruct p as [| |p]; [apply IH| reflexivity|]. destruct (verify_step K st p); [apply IH| reflexivity].
Qed.

(** * the honest writer *)
Definition body_of (cef : bool) (f : bytes) : res bytes := trunc (if cef then TRUNC_CEF else TRUNC_TEXT) f.
Definition unnl (chunk : bytes) : bytes := removelast chunk.

(** side conditions on a history (decidable): every formatted entry is long enough for the hook's
    Truncate, resets use the verifier's key and happen after an end-marked entry (what
    AuditLogHandler guarantees) *)
Fixpoint wf_evs (cef : bool) (K : bytes) (last : option bool) (evs : list wev) : bool :=
  match evs with
  | [] => true
  | WFmt f :: r =>
      match body_of cef f with
      | Ok body => wf_evs cef K (Some (end_marked body)) r
      | _ => false
      end
  | WReset k :: r =>
      bytes_eqb k K && negb (match last with Some false => true | _ => false end) && wf_evs cef K last r
  end.

Fixpoint wstate (cef : bool) (c : calc) (evs : list wev) : calc :=
  match evs with
  | [] => c
  | WFmt f :: r => match post_format cef c f with Ok x => wstate cef (snd x) r | _ => c end
  | WReset k :: r => wstate cef (calc_new k) r
  end.
Fixpoint wlast (cef : bool) (last : option bool) (evs : list wev) : option bool :=
  match evs with
  | [] => last
  | WFmt f :: r => match body_of cef f with Ok body => wlast cef (Some (end_marked body)) r | _ => last end
  | WReset _ :: r => wlast cef last r
  end.

(** verifier calc [cv] / last-entry flag versus the writer's calc [c] *)
Definition synced (K : bytes) (c cv : calc) (last : option bool) : Prop :=
  length (ck c) = 32 /\
  (first_check c = false -> cv = c) /\
  (first_check c = true -> c = calc_new K /\ last <> Some false).

Lemma not_some_false (last : option bool) : last <> Some false ->
  match last with Some false => true | _ => false end = false.
Proof. destruct last as [[|]|]; congruence. Qed.

Lemma honest_step (cef : bool) K c cv last body :
  synced K c cv last ->
  let x := append_integrity c body in
  line_pres (parse_text cef) (fst x) = POk (mk_parsed body (fst (fst (calc_step c body))) (first_check c) (end_marked body)) /\
  verify_step K (mk_vstate cv last) (mk_parsed body (fst (fst (calc_step c body))) (first_check c) (end_marked body))
  = inl (mk_vstate (snd x) (Some (end_marked body))) /\
  synced K (snd x) (snd x) (Some (end_marked body)).
Proof.
  intros (HL & Hs & Hn). unfold append_integrity, calc_step. cbn [fst snd].
  split; [|split].
  - unfold line_pres. pose proof (honest_line_nonempty body (sha256 (calc_mac c body)) (first_check c)) as Hne.
    destruct (body ++ suffix_of (sha256 (calc_mac c body)) (first_check c)) eqn:E; [congruence|]. rewrite <- E.
    apply parse_honest. intros E0. pose proof (sha256_length (calc_mac c body)) as L. rewrite E0 in L. discriminate L.
  - unfold verify_step. cbn [p_new p_raw p_integ p_end v_last v_calc].
    destruct (first_check c) eqn:F.
    + destruct (Hn eq_refl) as [Hc Hl]. rewrite (not_some_false _ Hl). cbn [andb].
      rewrite <- Hc. unfold calc_step. cbv beta iota zeta. rewrite bytes_eqb_refl. reflexivity.
    + cbn [andb]. rewrite (Hs eq_refl). unfold calc_step. cbv beta iota zeta. rewrite bytes_eqb_refl. reflexivity.
  - unfold synced. cbn [ck cprev first_check]. split; [apply sha256_length|]. split; [reflexivity| discriminate].
Qed.

Lemma honest_run (cef : bool) K : forall evs c cv last chunks,
  write_text cef c evs = Ok chunks -> wf_evs cef K last evs = true -> synced K c cv last ->
  exists st', vrun K (mk_vstate cv last) (map (line_pres (parse_text cef)) (map unnl chunks)) = Some st' /\
              v_last st' = wlast cef last evs /\
              synced K (wstate cef c evs) (v_calc st') (v_last st').
Proof.
  induction evs as [|e evs IH]; intros c cv last chunks HW HF HS.
  - cbn in HW. inversion HW; subst. cbn. eexists. split; [reflexivity|]. split; [reflexivity| exact HS].
  - destruct e as [f|k]; cbn [write_text wf_evs wstate wlast] in *.
    + unfold post_format in *. fold (body_of cef f) in *.
      destruct (body_of cef f) as [body| |]; cbn [bind] in *; try discriminate.
      destruct (append_integrity c body) as [line c'] eqn:EA. cbn [bind fst snd] in *.
      destruct (write_text cef c' evs) as [rest| |] eqn:ER; cbn [bind] in HW; try discriminate.
      inversion HW; subst chunks. cbn [map]. unfold unnl at 1. rewrite removelast_last.
      destruct (honest_step cef K c cv last body HS) as (HP & HV & HS'). rewrite EA in *. cbn [fst snd] in *.
      cbn [vrun]. rewrite HP, HV.
      destruct (IH c' c' (Some (end_marked body)) rest ER HF HS') as (st' & R1 & R2 & R3).
      exists st'. split; [exact R1|]. split; assumption.
    + apply andb_true_iff in HF as [HF1 HF3]. apply andb_true_iff in HF1 as [HF1 HF2].
      apply bytes_eqb_eq in HF1. subst k. apply negb_true_iff in HF2.
      apply (IH (calc_new K) cv last chunks HW HF3).
      unfold synced. cbn [calc_new ck cprev first_check]. split; [apply sha256_length|].
      split; [discriminate|]. intros _. split; [reflexivity|]. intros E. rewrite E in HF2. discriminate.
Qed.

Lemma synced_init K : synced K (calc_new K) (calc_new K) None.
Proof. unfold synced. cbn. split; [apply sha256_length|]. split; [discriminate|]. intros _. split; [reflexivity| discriminate]. Qed.

(** ** honest_log_verifies: every history, every body *)
Theorem honest_log_verifies (cef : bool) (K : bytes) (evs : list wev) (chunks : list bytes) :
  write_text cef (calc_new K) evs = Ok chunks -> wf_evs cef K None evs = true ->
  verify_lines cef K (map unnl chunks) = VAccept.
Proof.
  intros HW HF. destruct (honest_run cef K evs _ _ None chunks HW HF (synced_init K)) as (st' & R & _).
  unfold verify_lines, verify_lines_with. eapply vrun_accept. exact R.
Qed.

(** the side condition only fails for formatted entries shorter than the truncation *)
Lemma wf_evs_write_ok (cef : bool) K : forall evs last c, wf_evs cef K last evs = true -> exists chunks, write_text cef c evs = Ok chunks.
Proof.
  induction evs as [|e evs IH]; intros last c H; [eexists; reflexivity|].
  destruct e as [f|k]; cbn [wf_evs write_text] in *.
  - unfold post_format. fold (body_of cef f). destruct (body_of cef f) as [body| |]; try discriminate.
    cbn [bind]. destruct (append_integrity c body) as [line c']. cbn [bind snd fst].
    destruct (IH _ c' H) as [rest ->]. eexists; reflexivity.
  - apply andb_true_iff in H as [_ H]. apply (IH last _ H).
Qed.

(** * tampering *)

(** explicit fixed point of SHA-256 (needed only where the attacker leaves the number of protected
    entries before the successor different from one: the ratchet then differs by key only) *)
Definition sha_fixed_point : Prop := exists k : bytes, sha256 k = k.

Definition keylen (st : vstate) : Prop := length (ck (v_calc st)) = 32.

Lemma verify_step_keylen K st p st' : verify_step K st p = inl st' -> keylen st'.
Proof.
  unfold verify_step, keylen. destruct (p_new p && _); [discriminate|].
  unfold calc_step. destruct (bytes_eqb _ _); [|discriminate]. intros [= <-]. cbn. apply sha256_length.
Qed.

Lemma vrun_keylen K : forall ps st st', keylen st -> vrun K st ps = Some st' -> keylen st'.
Proof.
  induction ps as [|p ps IH]; intros st st' HK H; cbn [vrun] in H; [inversion H; subst; exact HK|].
  destruct p as [| |p]; [eapply IH; eassumption| discriminate|].
  destruct (verify_step K st p) as [st1|] eqn:E; [|discriminate].
  eapply IH; [eapply verify_step_keylen; exact E| exact H].
Qed.

(** the honest successor [y] (body [yb], written in state [c1] which has a previous check) is only
    accepted by a verifier that is in EXACTLY the writer's state [c1] — or SHA-256 collides *)
Lemma successor_pins_state K st st' (py : parsed) (c1 : calc) (mac yb : bytes) :
  keylen st -> length (ck c1) = 32 -> cprev c1 = Some mac -> length mac = 32 ->
  p_new py = false -> p_raw py = yb -> p_integ py = fst (fst (calc_step c1 yb)) ->
  verify_step K st py = inl st' ->
  v_calc st = c1 \/ sha_collision.
Proof.
  intros HK L1 HP LM HN HR HI HV. unfold verify_step in HV. rewrite HN in HV. cbn [andb] in HV.
  unfold calc_step in HV, HI. cbn [fst] in HI.
  destruct (bytes_eqb (p_integ py) _) eqn:E; [|discriminate]. apply bytes_eqb_eq in E.
  rewrite HI, HR in E. unfold calc_mac in E.
  apply agg_inj_or_collision in E as [[Ek Em]|C]; [|right; exact C| exact L1| exact HK].
  left. apply app_inv_head in Em. destruct (v_calc st) as [k p], c1 as [k1 p1]. cbn in *. subst k1 p1.
  unfold prev_bytes in Em. cbn in Em. destruct p as [m|].
  - subst m. reflexivity.
  - destruct mac; [discriminate LM| discriminate Em].
Qed.

(** ** general form: whatever replaces an entry [x] (lines [M]: none, an edited line, copies, other
    lines …), the honest successor [y] of [x] in its chain is reached in the writer's state, or
    verification has failed no later than at [y], or SHA-256 collides *)
Theorem tamper_detected_by_next_gen K st i (M : list pres) (py : parsed) (R : list pres)
        (c : calc) (xb yb : bytes) :
  keylen st -> length (ck c) = 32 ->
  let c1 := snd (calc_step c xb) in
  p_new py = false -> p_raw py = yb -> p_integ py = fst (fst (calc_step c1 yb)) ->
  detected_by (verify_pres K st i (M ++ POk py :: R)) (i + length M)
  \/ (exists st', vrun K st M = Some st' /\ v_calc st' = c1)
  \/ sha_collision.
Proof.
  intros HK HL c1 HN HR HI. rewrite verify_pres_app.
  destruct (vrun K st M) as [st'|] eqn:EM.
  - cbn [verify_pres]. destruct (verify_step K st' py) as [st2|code] eqn:EV.
    + right. eapply (successor_pins_state K st' st2 py c1 (calc_mac c xb) yb) in EV;
        try eassumption; try reflexivity.
      * destruct EV as [E|C]; [left; exists st'; split; [reflexivity| exact E]| right; exact C].
      * eapply vrun_keylen; eassumption.
      * subst c1. unfold calc_step. cbn. apply sha256_length.
      * apply hmac_length.
    + left. exists (i + length M), code. split; [reflexivity| lia].
  - left. destruct (vrun_none_detected K M st i (POk py :: R) EM) as (j & code & E & L).
    exists j, code. split; [exact E| lia].
Qed.

(** ** the named manipulations (verifier in the writer's state [c] before [x], as after any honest
    prefix in which [x] is not the first entry of its chain: [honest_run]) *)

(** deletion of [x] / exchange of [x] with its successor: [y] comes first *)
Corollary deleted_entry_detected K st i py R c xb yb :
  v_calc st = c -> length (ck c) = 32 ->
  p_new py = false -> p_raw py = yb -> p_integ py = fst (fst (calc_step (snd (calc_step c xb)) yb)) ->
  detected_by (verify_pres K st i (POk py :: R)) i \/ sha_collision \/ sha_fixed_point.
Proof.
  intros Hc HL HN HR HI.
  destruct (tamper_detected_by_next_gen K st i [] py R c xb yb) as [D|[(st' & E1 & E2)|C]]; try assumption.
  - unfold keylen. rewrite Hc. exact HL.
  - left. cbn [app length] in D. rewrite Nat.add_0_r in D. exact D.
  - right. right. cbn in E1. inversion E1; subst st'. rewrite Hc in E2. unfold calc_step in E2. cbn in E2.
    apply (f_equal ck) in E2. cbn [ck] in E2. exists (ck c). symmetry. exact E2.
  - right. left. exact C.
Qed.

(** an edited entry [x'] (ANY body, ANY integrity value, even a forged one) in the place of [x] *)
Corollary edited_entry_detected K st i (px : parsed) py R c xb yb :
  v_calc st = c -> length (ck c) = 32 -> p_new px = false ->
  p_new py = false -> p_raw py = yb -> p_integ py = fst (fst (calc_step (snd (calc_step c xb)) yb)) ->
  detected_by (verify_pres K st i (POk px :: POk py :: R)) (S i) \/ p_raw px = xb \/ sha_collision.
Proof.
  intros Hc HL HNx HN HR HI.
  destruct (tamper_detected_by_next_gen K st i [POk px] py R c xb yb) as [D|[(st' & E1 & E2)|C]]; try assumption.
  - unfold keylen. rewrite Hc. exact HL.
  - left. cbn [app length] in D. replace (i + 1) with (S i) in D by lia. exact D.
  - cbn [vrun] in E1. unfold verify_step in E1. rewrite HNx in E1. cbn [andb] in E1. rewrite Hc in E1.
    unfold calc_step in E1, E2. destruct (bytes_eqb _ _); [|discriminate]. inversion E1; subst st'.
    cbn in E2. inversion E2 as [E3]. unfold calc_mac in E3.
    apply hmac_inj_or_collision in E3 as [[_ E4]|C]; try exact HL.
    + right. left. apply app_inv_tail in E4. exact E4.
    + right. right. exact C.
  - right. right. exact C.
Qed.

(** a second copy of [x] after [x] *)
Corollary duplicated_entry_detected K st i (px : parsed) py R c xb yb :
  v_calc st = c -> length (ck c) = 32 -> p_new px = false ->
  p_new py = false -> p_raw py = yb -> p_integ py = fst (fst (calc_step (snd (calc_step c xb)) yb)) ->
  detected_by (verify_pres K st i (POk px :: POk px :: POk py :: R)) (S (S i)) \/ sha_collision \/ sha_fixed_point.
Proof.
  intros Hc HL HNx HN HR HI.
  destruct (tamper_detected_by_next_gen K st i [POk px; POk px] py R c xb yb) as [D|[(st' & E1 & E2)|C]]; try assumption.
  - unfold keylen. rewrite Hc. exact HL.
  - left. cbn [app length] in D. replace (i + 2) with (S (S i)) in D by lia. exact D.
  - right. right. cbn [vrun] in E1.
    destruct (verify_step K st px) as [s1|] eqn:V1; [|discriminate].
    destruct (verify_step K s1 px) as [s2|] eqn:V2; [|discriminate]. inversion E1; subst s2.
    unfold verify_step in V1, V2. rewrite HNx in V1, V2. cbn [andb] in V1, V2. unfold calc_step in V1, V2, E2.
    destruct (bytes_eqb _ _) in V1; [|discriminate]. inversion V1; subst s1. cbn [v_calc] in V2.
    destruct (bytes_eqb _ _) in V2; [|discriminate]. inversion V2; subst st'. cbn in E2.
    rewrite Hc in E2. inversion E2 as [[E3 E4]]. exists (sha256 (ck c)). exact E3.
  - right. left. exact C.
Qed.

(** an edit that keeps the integrity value is caught at the edited entry itself *)
Theorem edit_keeping_check_detected_at_once K st st' (px : parsed) c xb :
  v_calc st = c -> length (ck c) = 32 -> p_new px = false ->
  p_integ px = fst (fst (calc_step c xb)) ->
  verify_step K st px = inl st' -> p_raw px = xb \/ sha_collision.
Proof.
  intros Hc HL HN HI HV. unfold verify_step in HV. rewrite HN in HV. cbn [andb] in HV. rewrite Hc in HV.
  unfold calc_step in HV, HI. cbn [fst] in HI. destruct (bytes_eqb _ _) eqn:E; [|discriminate].
  apply bytes_eqb_eq in E. rewrite HI in E. unfold calc_mac in E.
  apply agg_inj_or_collision in E as [[_ Em]|C]; try exact HL; [|right; exact C].
  left. apply app_inv_tail in Em. symmetry. exact Em.
Qed.

(** another key: the first entry of the log (a chain start written under [K]) is rejected *)
Theorem wrong_key_detected_at_first_entry K K' (body : bytes) (e : bool) st' :
  verify_step K' (vinit K') (mk_parsed body (fst (fst (calc_step (calc_new K) body))) true e) = inl st' ->
  K' = K \/ sha_collision.
Proof.
  unfold verify_step, vinit. cbn [p_new p_raw p_integ v_last v_calc andb]. unfold calc_step, calc_mac, calc_new.
  cbn [fst ck cprev prev_bytes]. destruct (bytes_eqb _ _) eqn:E; [|discriminate]. intros _.
  apply bytes_eqb_eq in E. apply agg_inj_or_collision in E as [[Ek _]|C]; try apply sha256_length; [|right; exact C].
  symmetry in Ek. apply sha_inj_or_collision in Ek. exact Ek.
Qed.

(** ** log level: honest prefix, then the attacker's lines [M] in the place of [x], then the honest [y] *)
Theorem tamper_detected_by_next (cef : bool) (K : bytes) (evsP : list wev) (chunksP : list bytes)
        (xb yb : bytes) (M R : list bytes) :
  write_text cef (calc_new K) evsP = Ok chunksP -> wf_evs cef K None evsP = true ->
  let c := wstate cef (calc_new K) evsP in
  let x := append_integrity c xb in
  let y := append_integrity (snd x) yb in
  first_check c = false ->
  detected_by (verify_lines cef K (map unnl chunksP ++ M ++ fst y :: R)) (length chunksP + length M)
  \/ (exists st', vrun K (mk_vstate c (wlast cef None evsP)) (map (line_pres (parse_text cef)) M) = Some st'
                  /\ v_calc st' = snd x)
  \/ sha_collision.
Proof.
  intros HW HF c x y HFC.
  destruct (honest_run cef K evsP _ _ None chunksP HW HF (synced_init K)) as (st0 & R1 & R2 & (HL & Hs & _)).
  fold c in HL, Hs. specialize (Hs HFC).
  unfold verify_lines, verify_lines_with, vinit. rewrite !map_app, verify_pres_app, R1. cbn [Nat.add map].
  rewrite !map_length.
  assert (synced K (snd x) (snd x) (Some (end_marked xb))) as HSx.
  { unfold x, append_integrity, calc_step. cbn [snd]. unfold synced. cbn. split; [apply sha256_length|]. split; [reflexivity| discriminate]. }
  destruct (honest_step cef K (snd x) (snd x) (Some (end_marked xb)) yb HSx) as (HP & _ & _).
  fold y in HP. rewrite HP.
  assert (st0 = mk_vstate c (wlast cef None evsP)) as E0.
  { destruct st0 as [c0 l0]. cbn in *. subst. reflexivity. }
  rewrite E0.
  destruct (tamper_detected_by_next_gen K (mk_vstate c (wlast cef None evsP)) (length chunksP)
              (map (line_pres (parse_text cef)) M)
              (mk_parsed yb (fst (fst (calc_step (snd x) yb))) (first_check (snd x)) (end_marked yb))
              (map (line_pres (parse_text cef)) R) c xb yb) as [D|[S|C]]; try reflexivity; try assumption.
  - rewrite map_length in D. left. exact D.
  - right. left. exact S.
  - right. right. exact C.
Qed.
