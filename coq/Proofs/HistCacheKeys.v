(** C06 (s76) — generated obligation on the cache keys of the "current + rotated file names" lists of
    keystore v1.  Gen/HistCacheKeys.v is printed on every run by RUNNING the key store of /repo with a
    recording cache and key directories written in non-clean spellings (`acra-vh c06cachekeys`): one
    row per (function <- caller, kind of access) with the bit "the path part of the key was in
    filepath.Clean form".  The lookups, the stores and the purges (after a rotation, after the
    destruction of a rotated key) address the same cache entry for every directory spelling only if
    they all normalise the path alike. *)
From Coq Require Import List String NArith Bool.
From Acra Require Import Gen.HistCacheKeys.
Import ListNotations.

Definition hck_is (o p : hck_op) : bool :=
  match o, p with HckGet, HckGet | HckStore, HckStore | HckPurge, HckPurge => true | _, _ => false end.

(** every recorded access used the same normalisation as the first one *)
Definition hck_same_normalisation (l : list (string * hck_op * bool)) : bool :=
  match l with
  | [] => true
  | (_, _, b) :: t => forallb (fun x => Bool.eqb (snd x) b) t
  end.

(** the probe saw a lookup, a store and a purge (otherwise the agreement says nothing) *)
Definition hck_covers (l : list (string * hck_op * bool)) : bool :=
  existsb (fun x => hck_is (snd (fst x)) HckGet) l
  && existsb (fun x => hck_is (snd (fst x)) HckStore) l
  && existsb (fun x => hck_is (snd (fst x)) HckPurge) l.

Definition hck_agree (l : list (string * hck_op * bool)) (split : N) (pre probe : string) : bool :=
  hck_same_normalisation l && hck_covers l && N.eqb split 0 && String.eqb pre probe.

Lemma hist_cache_keys_agree :
  hck_agree hist_cache_sites hist_cache_split_files HIST_CACHE_PREFIX HIST_CACHE_PROBE_PREFIX = true
  /\ (0 < hist_cache_probed_files)%N.
Proof. split; vm_compute; reflexivity. Qed.

(** what the finite check means: any two recorded accesses carry the same normalisation bit, so a purge
    and a lookup that concern one key file build one cache key *)
Lemma hck_same_normalisation_spec : forall l,
  hck_same_normalisation l = true ->
  forall x y, In x l -> In y l -> snd x = snd y.
Proof.
  intros l Hl x y Hx Hy. destruct l as [|[[s o] b] t]; [destruct Hx|].
  cbn [hck_same_normalisation] in Hl. rewrite forallb_forall in Hl.
  assert (Hb : forall z, In z ((s, o, b) :: t) -> snd z = b).
  { intros z [Hz|Hz]; [subst z; reflexivity|]. apply Hl in Hz. apply eqb_prop in Hz. exact Hz. }
  rewrite (Hb x Hx), (Hb y Hy). reflexivity.
Qed.
