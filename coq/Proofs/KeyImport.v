(** C07, import path of keystore v1 (Model/KeyImport.v): getContextFromFilename inverts the file-name
    builders of Gen/KeyNames.v (Model/KeyNames.v [name_v1]) on every valid client id — including ids that
    contain key-kind suffixes — never panics, and therefore everything KeyBackuper.Import writes is
    sealed with the owner id of the file name as context. *)
From Acra Require Import Lib.Bytes Lib.Outcome Crypto.Interface Crypto.Stub Gen.KsConsts Gen.KeyImportConsts Gen.KeyNames.
From Acra Require Import Model.KeyNames.
From Acra Require Proofs.KeyNames.
From Acra Require Import Model.Path Model.KeyAtRest Model.Backup Model.KeyImport Proofs.Path Proofs.KeyAtRest Proofs.Backup.
From Coq Require Import ZifyN ZifyNat ZifyBool.

(** ---------- strings.HasSuffix + slice ---------- *)
Lemma ends_with_length (s suf : bytes) : ends_with s suf = true -> length suf <= length s.
Proof.
  unfold ends_with. intros H. apply starts_with_spec in H as [r Hr].
  apply (f_equal (@length byte)) in Hr. rewrite app_length, !rev_length in Hr. lia.
Qed.

(** the slice after a successful HasSuffix never goes out of range *)
Lemma cut_suffix_after_has_suffix (s suf : bytes) :
  ends_with s suf = true -> cut_suffix s suf = Ok (strip_suffix s suf).
Proof.
  intros H. apply ends_with_length in H. unfold cut_suffix, strip_suffix.
  destruct (Nat.leb (length suf) (length s)) eqn:E; [reflexivity|]. apply Nat.leb_gt in E. lia.
Qed.

Lemma cut_suffix_own (a s : bytes) : cut_suffix (a ++ s) s = Ok a.
Proof. rewrite cut_suffix_after_has_suffix by apply ends_with_own. rewrite strip_own. reflexivity. Qed.

(** ---------- getContextFromFilename never panics ---------- *)
Lemma ctx_of_base_name_total (n : bytes) : exists pc, ctx_of_base_name n = Ok pc.
Proof.
  unfold ctx_of_base_name.
  assert (Hold : exists n', (if ends_with n SUFFIX_OLD then cut_suffix n SUFFIX_OLD else Ok n) = Ok n').
  { destruct (ends_with n SUFFIX_OLD) eqn:E; [rewrite (cut_suffix_after_has_suffix _ _ E)|]; eexists; reflexivity. }
  destruct Hold as [n' ->]. cbn [bind].
  destruct (ends_with n' SUFFIX_HMAC) eqn:E1; [rewrite (cut_suffix_after_has_suffix _ _ E1); eexists; reflexivity|].
  destruct (ends_with n' SUFFIX_SERVER) eqn:E2; [rewrite (cut_suffix_after_has_suffix _ _ E2); eexists; reflexivity|].
  destruct (ends_with n' SUFFIX_TRANSLATOR) eqn:E3; [rewrite (cut_suffix_after_has_suffix _ _ E3); eexists; reflexivity|].
  destruct (ends_with n' SUFFIX_STORAGE) eqn:E4; [rewrite (cut_suffix_after_has_suffix _ _ E4); eexists; reflexivity|].
  destruct (ends_with n' (SUFFIX_STORAGE ++ SUFFIX_SYM)) eqn:E5; [rewrite (cut_suffix_after_has_suffix _ _ E5); eexists; reflexivity|].
  eexists; reflexivity.
Qed.

Lemma poison_sym_cut : exists c, cut_suffix POISON_SYM_KEY_FILENAME SUFFIX_SYM = Ok c.
Proof. eexists. vm_compute. reflexivity. Qed.

Theorem get_context_total (h : bool) (n : bytes) : exists pc, get_context_from_filename h n = Ok pc.
Proof.
  unfold get_context_from_filename.
  set (f := if h then dir n else n).
  destruct (bytes_eqb f POISON_KEY_FILENAME); [eexists; reflexivity|].
  destruct (bytes_eqb f POISON_SYM_KEY_FILENAME) eqn:E.
  - apply bytes_eqb_eq in E. rewrite E. destruct poison_sym_cut as [c ->]. eexists; reflexivity.
  - apply ctx_of_base_name_total.
Qed.

(** ---------- filepath.Base of a name without separator ---------- *)
Definition sepfree_b (n : bytes) : bool := negb (existsb (fun x => byte_eqb x SEP) n).

Lemma sepfree_b_cons c n : sepfree_b (c :: n) = true -> byte_eqb c SEP = false /\ sepfree_b n = true.
Proof.
  unfold sepfree_b. cbn [existsb]. destruct (byte_eqb c SEP); cbn; [discriminate|]. intros H. split; [reflexivity| exact H].
Qed.

Lemma sepfree_b_app a b : sepfree_b (a ++ b) = sepfree_b a && sepfree_b b.
Proof. unfold sepfree_b. rewrite existsb_app, negb_orb. reflexivity. Qed.

Lemma sepfree_b_rev n : sepfree_b (rev n) = sepfree_b n.
Proof.
  induction n as [|c n IH]; [reflexivity|]. cbn [rev]. rewrite sepfree_b_app, IH.
  unfold sepfree_b. cbn [existsb]. rewrite orb_false_r.
  destruct (byte_eqb c SEP); cbn; [apply andb_false_r| apply andb_true_r].
Qed.

Lemma take_to_sep_sepfree r : sepfree_b r = true -> take_to_sep r = r.
Proof.
  induction r as [|c r IH]; [reflexivity|]. intros H. apply sepfree_b_cons in H as [Hc Hr].
  cbn [take_to_sep]. rewrite Hc, (IH Hr). reflexivity.
Qed.

Lemma drop_seps_sepfree r : sepfree_b r = true -> drop_seps r = r.
Proof. destruct r as [|c r]; [reflexivity|]. intros H. apply sepfree_b_cons in H as [Hc _]. cbn [drop_seps]. rewrite Hc. reflexivity. Qed.

Lemma base_sepfree (n : bytes) : n <> [] -> sepfree_b n = true -> base n = n.
Proof.
  intros Hne Hs. unfold base. destruct n as [|c n]; [contradiction|]. cbn [nilb].
  assert (Hr : sepfree_b (rev (c :: n)) = true) by (rewrite sepfree_b_rev; exact Hs).
  rewrite (drop_seps_sepfree _ Hr).
  destruct (rev (c :: n)) as [|x r] eqn:E.
  - apply (f_equal (@length byte)) in E. rewrite rev_length in E. discriminate.
  - cbn [nilb]. rewrite (take_to_sep_sepfree _ Hr). rewrite <- E. apply rev_involutive.
Qed.

(** the two poison-record names contain a separator: no separator-free name equals them *)
Lemma sepfree_not (n p : bytes) : sepfree_b p = false -> sepfree_b n = true -> bytes_eqb n p = false.
Proof. intros Hp Hn. apply bytes_eqb_neq. intros ->. congruence. Qed.
Lemma poison_has_sep : sepfree_b POISON_KEY_FILENAME = false. Proof. vm_compute. reflexivity. Qed.
Lemma poison_sym_has_sep : sepfree_b POISON_SYM_KEY_FILENAME = false. Proof. vm_compute. reflexivity. Qed.

(** on a current-key name in the key directory itself getContextFromFilename is the suffix chain *)
Lemma get_context_simple (n : bytes) :
  n <> [] -> sepfree_b n = true -> get_context_from_filename false n = ctx_of_base_name n.
Proof.
  intros Hne Hs. unfold get_context_from_filename.
  rewrite (sepfree_not _ _ poison_has_sep Hs), (sepfree_not _ _ poison_sym_has_sep Hs), (base_sepfree _ Hne Hs).
  reflexivity.
Qed.

(** ---------- the suffix chain inverts every builder (any id bytes) ---------- *)
(** the private key kinds whose file name is id ++ non-empty suffix *)
Definition chain_purpose (p : Model.KeyNames.v1_purpose) : option bytes :=
  match p with
  | StoragePriv => Some CTX_PURPOSE_STORAGE
  | StorageSym => Some CTX_PURPOSE_STORAGE_SYM
  | Hmac => Some CTX_PURPOSE_HMAC
  | ServerPriv => Some CTX_PURPOSE_SERVER
  | TransPriv => Some CTX_PURPOSE_TRANSLATOR
  | _ => None
  end.

Ltac other_suffix id S S' := rewrite (ends_with_other id S S') by (vm_compute; reflexivity).

Lemma chain_inverts_builder (p : Model.KeyNames.v1_purpose) (purpose id : bytes) :
  chain_purpose p = Some purpose -> ctx_of_base_name (id ++ v1_suf p) = Ok (purpose, id).
Proof.
  unfold ctx_of_base_name. destruct p; cbn [chain_purpose v1_suf]; try discriminate; intros [= <-].
  - (* _storage *)
    replace V1_StoragePriv_SUF with SUFFIX_STORAGE by (vm_compute; reflexivity).
    other_suffix id SUFFIX_STORAGE SUFFIX_OLD. cbn [bind].
    other_suffix id SUFFIX_STORAGE SUFFIX_HMAC. other_suffix id SUFFIX_STORAGE SUFFIX_SERVER.
    other_suffix id SUFFIX_STORAGE SUFFIX_TRANSLATOR.
    rewrite ends_with_own, cut_suffix_own. reflexivity.
  - (* _storage_sym *)
    replace V1_StorageSym_SUF with (SUFFIX_STORAGE ++ SUFFIX_SYM) by (vm_compute; reflexivity).
    other_suffix id (SUFFIX_STORAGE ++ SUFFIX_SYM) SUFFIX_OLD. cbn [bind].
    other_suffix id (SUFFIX_STORAGE ++ SUFFIX_SYM) SUFFIX_HMAC. other_suffix id (SUFFIX_STORAGE ++ SUFFIX_SYM) SUFFIX_SERVER.
    other_suffix id (SUFFIX_STORAGE ++ SUFFIX_SYM) SUFFIX_TRANSLATOR. other_suffix id (SUFFIX_STORAGE ++ SUFFIX_SYM) SUFFIX_STORAGE.
    rewrite ends_with_own, cut_suffix_own. reflexivity.
  - (* _hmac *)
    replace V1_Hmac_SUF with SUFFIX_HMAC by (vm_compute; reflexivity).
    other_suffix id SUFFIX_HMAC SUFFIX_OLD. cbn [bind].
    rewrite ends_with_own, cut_suffix_own. reflexivity.
  - (* _server *)
    replace V1_ServerPriv_SUF with SUFFIX_SERVER by (vm_compute; reflexivity).
    other_suffix id SUFFIX_SERVER SUFFIX_OLD. cbn [bind].
    other_suffix id SUFFIX_SERVER SUFFIX_HMAC.
    rewrite ends_with_own, cut_suffix_own. reflexivity.
  - (* _translator *)
    replace V1_TransPriv_SUF with SUFFIX_TRANSLATOR by (vm_compute; reflexivity).
    other_suffix id SUFFIX_TRANSLATOR SUFFIX_OLD. cbn [bind].
    other_suffix id SUFFIX_TRANSLATOR SUFFIX_HMAC. other_suffix id SUFFIX_TRANSLATOR SUFFIX_SERVER.
    rewrite ends_with_own, cut_suffix_own. reflexivity.
Qed.

Lemma chain_suffix_shape p purpose : chain_purpose p = Some purpose -> v1_suf p <> [] /\ sepfree_b (v1_suf p) = true.
Proof. destruct p; cbn [chain_purpose]; try discriminate; intros _; split; try (vm_compute; reflexivity); vm_compute; discriminate. Qed.

(** isPublic on the names of the builders *)
Definition public_purpose (p : Model.KeyNames.v1_purpose) : bool :=
  match p with StoragePub | ConnPub | ServerPub | TransPub => true | _ => false end.

Lemma chain_name_not_public p purpose id : chain_purpose p = Some purpose -> is_public_name (id ++ v1_suf p) = false.
Proof.
  unfold is_public_name. destruct p; cbn [chain_purpose v1_suf]; try discriminate; intros _.
  all: rewrite (ends_with_other id _ SUFFIX_PUB) by (vm_compute; reflexivity);
       rewrite (ends_with_other id _ (SUFFIX_PUB ++ SUFFIX_OLD)) by (vm_compute; reflexivity); reflexivity.
Qed.

Lemma public_name_public p id : public_purpose p = true -> is_public_name (id ++ v1_suf p) = true.
Proof.
  unfold is_public_name. destruct p; cbn [public_purpose v1_suf]; try discriminate; intros _.
  - replace V1_StoragePub_SUF with (SUFFIX_STORAGE ++ SUFFIX_PUB) by (vm_compute; reflexivity).
    rewrite app_assoc, ends_with_own. reflexivity.
  - replace V1_ConnPub_SUF with SUFFIX_PUB by (vm_compute; reflexivity). rewrite ends_with_own. reflexivity.
  - replace V1_ServerPub_SUF with (SUFFIX_SERVER ++ SUFFIX_PUB) by (vm_compute; reflexivity).
    rewrite app_assoc, ends_with_own. reflexivity.
  - replace V1_TransPub_SUF with (SUFFIX_TRANSLATOR ++ SUFFIX_PUB) by (vm_compute; reflexivity).
    rewrite app_assoc, ends_with_own. reflexivity.
Qed.

(** ---------- the inversion theorem ---------- *)
(** for a separator-free id (every valid id is one) and every private key kind with its own suffix *)
Theorem context_inverts_name_sepfree (p : Model.KeyNames.v1_purpose) (purpose id : bytes) :
  chain_purpose p = Some purpose -> sepfree_b id = true ->
  get_context_from_filename false (name_v1 p id) = Ok (purpose, id) /\
  is_private_file false (name_v1 p id) = true.
Proof.
  intros Hp Hid. rewrite Proofs.KeyNames.name_v1_app.
  destruct (chain_suffix_shape p purpose Hp) as [Hne Hs].
  assert (Hn : sepfree_b (id ++ v1_suf p) = true) by (rewrite sepfree_b_app, Hid, Hs; reflexivity).
  assert (Hnn : id ++ v1_suf p <> []) by (intros E; apply app_eq_nil in E as [_ E]; contradiction).
  split.
  - rewrite (get_context_simple _ Hnn Hn). apply chain_inverts_builder. exact Hp.
  - unfold is_private_file. rewrite (sepfree_not _ _ poison_has_sep Hn), (chain_name_not_public p purpose id Hp). reflexivity.
Qed.

Lemma byte_eqb_sym (a b : byte) : byte_eqb a b = byte_eqb b a.
Proof.
  destruct (byte_eqb a b) eqn:E1, (byte_eqb b a) eqn:E2; try reflexivity.
  - apply byte_eqb_eq in E1. subst b. rewrite byte_eqb_refl in E2. discriminate.
  - apply byte_eqb_eq in E2. subst b. rewrite byte_eqb_refl in E1. discriminate.
Qed.

(** regenerated id validation (Model/KeyNames.v [valid_id], from Gen/KeyNames.v) *)
Lemma valid_id_sepfree id : valid_id id = true -> sepfree_b id = true.
Proof.
  intros H. apply Proofs.KeyNames.valid_id_bytes in H.
  pose proof (Proofs.KeyNames.valid_no_byte Model.KeyNames.SLASH id Proofs.KeyNames.slash_invalid H) as E.
  unfold sepfree_b. replace (existsb (fun x => byte_eqb x SEP) id) with (existsb (byte_eqb Model.KeyNames.SLASH) id); [rewrite E; reflexivity|].
  clear. induction id as [|c id IH]; [reflexivity|]. cbn [existsb]. rewrite IH, (byte_eqb_sym Model.KeyNames.SLASH c). reflexivity.
Qed.

(** id validation of the key store state machine (Model/Path.v [validate_id], from Gen/KsConsts.v) *)
Lemma validate_id_sepfree id : validate_id id = true -> sepfree_b id = true.
Proof.
  unfold validate_id. intros H. apply andb_true_iff in H as [_ H]. unfold sepfree_b.
  destruct (existsb (fun x => byte_eqb x SEP) id) eqn:E; [|reflexivity].
  apply existsb_exists in E as (c & Hin & Hc). apply byte_eqb_eq in Hc. subst c.
  rewrite forallb_forall in H. specialize (H _ Hin). rewrite sep_not_id_char in H. discriminate.
Qed.

Theorem context_inverts_name (p : Model.KeyNames.v1_purpose) (purpose id : bytes) :
  chain_purpose p = Some purpose -> valid_id id = true ->
  get_context_from_filename false (name_v1 p id) = Ok (purpose, id) /\
  is_private_file false (name_v1 p id) = true.
Proof. intros Hp Hv. apply context_inverts_name_sepfree; [exact Hp| apply valid_id_sepfree; exact Hv]. Qed.

(** public key files are never private (so Import writes them as they are), for every valid id *)
Theorem public_name_not_private (p : Model.KeyNames.v1_purpose) (id : bytes) :
  public_purpose p = true -> sepfree_b id = true -> is_private_file false (name_v1 p id) = false.
Proof.
  intros Hp Hid. rewrite Proofs.KeyNames.name_v1_app. unfold is_private_file.
  assert (Hn : sepfree_b (id ++ v1_suf p) = true).
  { rewrite sepfree_b_app, Hid. destruct p; try discriminate; vm_compute; reflexivity. }
  rewrite (sepfree_not _ _ poison_has_sep Hn), (public_name_public p id Hp). reflexivity.
Qed.

(** the one private kind outside the theorem: the legacy AcraConnector private key file is the bare id
    (empty suffix), so the name of client "<x>_storage" IS the storage-key name of client "<x>"
    (known finding keyname-collision-legacy-connector of C02): the context of that NAME is "<x>" *)
Definition w_conn_id : bytes := Eval vm_compute in (hb 0x16e6f727468%N) ++ SUFFIX_STORAGE. (* "north_storage" *)
Theorem context_connector_refuted :
  exists id purpose c, valid_id id = true /\ v1_connector ConnPriv = true /\
    get_context_from_filename false (name_v1 ConnPriv id) = Ok (purpose, c) /\ c <> id.
Proof.
  exists w_conn_id. eexists. eexists. split; [vm_compute; reflexivity|]. split; [reflexivity|].
  split; [vm_compute; reflexivity| vm_compute; discriminate].
Qed.

(** ---------- what Import writes ---------- *)
(** a key of a bundle whose name was built by a name builder for a valid client id *)
Definition secret_purpose (p : Model.KeyNames.v1_purpose) : bool := match chain_purpose p with Some _ => true | None => false end.
Definition wf_ikey (k : ikey) : Prop :=
  ik_hist k = false /\
  exists p id, (secret_purpose p = true \/ public_purpose p = true) /\ validate_id id = true /\ ik_name k = name_v1 p id.

(** a seal under the master key whose associated data is the validated owner id of the file name it is
    written to (filepath.Join of the key directory and the name); clear bytes only under a public-key name *)
Definition import_event_ok (m d : bytes) (e : event) : Prop :=
  match snd e with
  | Sealed key ctx _ _ =>
      exists p id, secret_purpose p = true /\ validate_id id = true /\
                   fst e = SFile (join2 d (name_v1 p id)) /\ key = m /\ ctx = id
  | Plain _ =>
      exists p id, public_purpose p = true /\ validate_id id = true /\ fst e = SFile (join2 d (name_v1 p id))
  end.

Lemma secret_not_public p : secret_purpose p = true -> public_purpose p = false.
Proof. destruct p; cbn; try reflexivity; discriminate. Qed.

Lemma import_loop_events_ok (m d : bytes) (keys : list ikey) :
  Forall wf_ikey keys -> forall tape e, In e (fst (import_loop m d tape keys)) -> import_event_ok m d e.
Proof.
  induction keys as [|k r IH]; intros Hwf tape e; cbn [import_loop]; [intros []|].
  inversion Hwf as [|k' r' Hk Hr]; subst k' r'.
  destruct Hk as (Hh & p & id & Hp & Hv & Hname).
  pose proof (validate_id_sepfree id Hv) as Hs.
  rewrite Hh, Hname.
  destruct Hp as [Hp|Hp].
  - (* private key kind: sealed with the owner id *)
    unfold secret_purpose in Hp. destruct (chain_purpose p) as [purpose|] eqn:Hc; [|discriminate].
    destruct (context_inverts_name_sepfree p purpose id Hc Hs) as [Hctx Hpriv].
    rewrite Hpriv. unfold file_ctx. rewrite Hctx. cbn [bind snd].
    destruct tape as [|n tape']; [intros []|].
    destruct (key_encrypt m (ctx_kctx id) n (ik_content k)) as [t|] eqn:Ht; [|intros []].
    apply key_encrypt_some in Ht. subst t.
    destruct (import_loop m d tape' r) as [es rest] eqn:Hl. cbn [fst In].
    intros [<-|Hin].
    + cbn. exists p, id. unfold secret_purpose. rewrite Hc. repeat split; auto.
    + apply (IH Hr tape'). rewrite Hl. exact Hin.
  - (* public key: written as it is, under a public-key name *)
    rewrite (public_name_not_private p id Hp Hs).
    destruct (import_loop m d tape r) as [es rest] eqn:Hl. cbn [fst In].
    intros [<-|Hin].
    + cbn. exists p, id. repeat split; auto.
    + apply (IH Hr tape). rewrite Hl. exact Hin.
Qed.

(** ---------- histories with Import ---------- *)
Definition wf_iop (o : iop) : Prop := match o with IK _ => True | IImport keys => Forall wf_ikey keys end.

Definition ievent_ok (g : cfg) (e : event) : Prop := event_ok g e \/ import_event_ok (master g) (key_dir g) e.

Lemma istep_events_ok C g s tape o e : wf_iop o -> In e (o_events (istep C g s tape o)) -> ievent_ok g e.
Proof.
  destruct o as [o|keys]; cbn [istep wf_iop]; intros Hwf Hin.
  - left. eapply step_events_ok. exact Hin.
  - right. destruct (import_loop (master g) (key_dir g) tape keys) as [es [tape' r]] eqn:Hl. cbn [o_events] in Hin.
    apply (import_loop_events_ok (master g) (key_dir g) keys Hwf tape). rewrite Hl. exact Hin.
Qed.

(** INVARIANT over all histories of Generate* / Get* / CopyFile / Reset / Import (any crypto instance,
    any tape, any starting state): every byte string handed to Storage.WriteFile or cache.Add is a seal
    under the sink's key with the validated OWNER id of the name it is stored under as associated data,
    or clear bytes under a public-key name *)
Theorem stored_secrets_sealed_with_import C g s tape ops e :
  Forall wf_iop ops -> In e (itrace C g s tape ops) -> ievent_ok g e.
Proof.
  unfold itrace. revert s tape.
  induction ops as [|o ops IH]; intros s tape Hwf; cbn [irun_hist flat_map]; [intros []|].
  inversion Hwf as [|o' ops' Ho Hops]; subst o' ops'.
  intros Hin. apply in_app_or in Hin as [Hin|Hin].
  - eapply istep_events_ok; [exact Ho| exact Hin].
  - eapply IH; [exact Hops| exact Hin].
Qed.

(** ---------- owner binding of an imported file ---------- *)
(** a file written by Import, placed (copied / renamed) under the name of ([k2],[id2]) and loaded with a
    cold cache by the key store's own read path: it loads only if [id2] is the owner id the file was
    imported for — or an AEAD forgery is exhibited *)
Theorem imported_file_bound_to_owner C g s tape tape' keys snk key ctx n content k2 id2 v :
  Forall wf_ikey keys ->
  In (snk, Sealed key ctx n content) (fst (import_loop (master g) (key_dir g) tape' keys)) ->
  lookup (priv_path g k2 id2) (files s) = Some (encode C (Sealed key ctx n content)) ->
  lookup (v1_fname k2 id2) (cache s) = None ->
  o_res (load_secret C g s tape k2 id2) = Ok v ->
  (exists p, secret_purpose p = true /\ snk = SFile (join2 (key_dir g) (name_v1 p id2))) \/ forgery C.
Proof.
  intros Hwf Hin Hf Hc Hl.
  pose proof (import_loop_events_ok (master g) (key_dir g) keys Hwf tape' _ Hin) as Hok.
  cbn in Hok. destruct Hok as (p & id & Hp & Hv & Hsnk & -> & ->).
  destruct (load_after_swap_fails C g s tape k2 id2 id n content v Hf Hc Hl) as [E|F]; [|right; exact F].
  left. exists p. split; [exact Hp|]. cbn [kctx_bytes v1_kctx kc_client] in E. subst id. exact Hsnk.
Qed.

(** Import of one selected key: the event, literally *)
Theorem import_seals_for_owner (m d : bytes) (p : Model.KeyNames.v1_purpose) (purpose id content n : bytes) (tape : list bytes) (r : list ikey) :
  chain_purpose p = Some purpose -> validate_id id = true -> m <> [] -> content <> [] ->
  import_loop m d (n :: tape) (mk_ikey (name_v1 p id) content false :: r) =
  (let '(es, rest) := import_loop m d tape r in ((SFile (join2 d (name_v1 p id)), Sealed m id n content) :: es, rest)).
Proof.
  intros Hp Hv Hm Hc. cbn [import_loop mk_ikey ik_hist ik_name ik_content].
  destruct (context_inverts_name_sepfree p purpose id Hp (validate_id_sepfree id Hv)) as [Hctx Hpriv].
  rewrite Hpriv. unfold file_ctx. rewrite Hctx. cbn [bind snd].
  unfold key_encrypt. rewrite (is_nil_false _ Hm), (is_nil_false _ Hc). cbn [orb kctx_bytes ctx_kctx kc_client]. reflexivity.
Qed.

(** ---------- non-vacuity: ids that contain key-kind suffixes ---------- *)
Definition w_north : bytes := (hb 0x16e6f727468%N).                                   (* "north" *)
Definition w_long : bytes := Eval vm_compute in w_north ++ SUFFIX_STORAGE ++ (hb 0x15f657531%N).  (* "north_storage_eu1" *)
Example w_long_valid : valid_id w_long = true /\ validate_id w_long = true.
Proof. split; vm_compute; reflexivity. Qed.
Example w_long_context :
  get_context_from_filename false (name_v1 StoragePriv w_long) = Ok (CTX_PURPOSE_STORAGE, w_long).
Proof. vm_compute. reflexivity. Qed.
(** the context a parser that cuts at the FIRST occurrence of the suffix would give is another valid identity *)
Example w_short_is_other_identity : valid_id w_north = true /\ w_north <> w_long /\ starts_with w_north w_long = true.
Proof. split; [vm_compute; reflexivity|]. split; [vm_compute; discriminate| vm_compute; reflexivity]. Qed.

Definition w_imp_cfg : cfg := {| master := repeat_bytes x07 32; cache_key := repeat_bytes x09 32; key_dir := [x2f; x6b; x73] |}.
Definition w_imp_keys : list ikey :=
  [mk_ikey (name_v1 StoragePriv w_long) (repeat_bytes x41 45) false; mk_ikey (name_v1 StoragePub w_long) (repeat_bytes x42 45) false].
Definition w_imp_ops : list iop :=
  [IImport w_imp_keys; IK ResetCache; IK (GetPriv w_long); IK (CopyFile KStoragePriv w_long KStoragePriv w_north); IK ResetCache; IK (GetPriv w_north)].
Definition w_imp_tape : list bytes := [repeat_bytes x01 12; repeat_bytes x02 12; repeat_bytes x03 12].
Example w_imp_wf : Forall wf_iop w_imp_ops.
Proof.
  repeat constructor; cbn; try exact I.
  - exists StoragePriv, w_long. split; [left; reflexivity|]. split; [vm_compute; reflexivity| reflexivity].
  - exists StoragePub, w_long. split; [right; reflexivity|]. split; [vm_compute; reflexivity| reflexivity].
Qed.
(** the imported key of "north_storage_eu1" loads under its own identity; copied to "north_storage" it is
    refused under the identity "north" *)
Example w_imp_run :
  map o_res (irun_hist Stub w_imp_cfg st0 w_imp_tape w_imp_ops) =
  [Ok []; Ok []; Ok (repeat_bytes x41 45); Ok []; Ok []; Err E_DECRYPTION].
Proof. vm_compute. reflexivity. Qed.
Example w_imp_trace_nonempty : length (itrace Stub w_imp_cfg st0 w_imp_tape w_imp_ops) = 3.
Proof. vm_compute. reflexivity. Qed.
