(** Concrete witnesses (computed with the executable SHA-256): the defects of the audit log as
    [..._refuted] statements, and non-vacuity examples for the theorems of Proofs/AuditLog.v. *)
From Coq Require Import String.
From Acra Require Import Lib.Bytes Lib.Outcome Lib.Sha256 Gen.AuditLogConsts Model.AuditLog
  Proofs.AuditLogCrypto Proofs.AuditLogParse Proofs.AuditLog.

Definition s (x : string) : bytes := bytes_of_string x.
Definition nl : bytes := [x0a].
Definition wK : bytes := s "audit-key".

(** an honest plaintext history: a message quoting the token, a user field named integrity,
    the service lines of ResetChain, a key reset, a second chain *)
Definition ev_text : list wev :=
  [ WFmt (s "time=""t0"" level=info msg=""see \"" integrity=\"" here"" integrity=abc" ++ nl);
    WFmt (s "time=""t1"" level=info msg=second chain=new" ++ nl);
    WFmt (s "time=""t2"" level=info msg=""End of current audit log chain"" chain=end" ++ nl);
    WReset wK;
    WFmt (s "time=""t3"" level=warning msg=""after the reset""" ++ nl);
    WFmt (s "time=""t4"" level=info msg=last" ++ nl) ].

Definition ch_text : list bytes :=
  Eval vm_compute in match write_text false (calc_new wK) ev_text with Ok c => c | _ => [] end.

Example honest_text_example :
  write_text false (calc_new wK) ev_text = Ok ch_text /\ wf_evs false wK None ev_text = true /\
  length ch_text = 5 /\ verify_lines false wK (map unnl ch_text) = VAccept /\
  verify_file false wK (concat ch_text) = VAccept.
Proof. vm_compute. repeat split; reflexivity. Qed.

(** the same history through the parser as it was BEFORE the fix: the first entry is skipped as
    "line without integrity" and the second, honest entry is reported as corrupted *)
Theorem body_with_token_refuted :
  exists (K : bytes) (evs : list wev) (chunks : list bytes),
    write_text false (calc_new K) evs = Ok chunks /\ wf_evs false K None evs = true /\
    verify_lines_orig false K (map unnl chunks) = VFail 1 C_MISMATCH /\
    verify_lines false K (map unnl chunks) = VAccept.
Proof. exists wK, ev_text, ch_text. vm_compute. repeat split; reflexivity. Qed.

(** CEF, before the fix: a user field named integrity that is not the first extension key *)
Definition ev_cef : list wev :=
  [ WFmt (s "CEF:0|cossacklabs|acra|0.96.0|100|hello|1|a=1 integrity=true unixTime=1.000 " ++ nl);
    WFmt (s "CEF:0|cossacklabs|acra|0.96.0|100|next|1|unixTime=2.000 " ++ nl) ].
Definition ch_cef : list bytes :=
  Eval vm_compute in match write_text true (calc_new wK) ev_cef with Ok c => c | _ => [] end.
Theorem cef_field_named_integrity_refuted :
  write_text true (calc_new wK) ev_cef = Ok ch_cef /\ wf_evs true wK None ev_cef = true /\
  verify_lines_orig true wK (map unnl ch_cef) = VFail 1 C_MISMATCH /\
  verify_lines true wK (map unnl ch_cef) = VAccept.
Proof. vm_compute. repeat split; reflexivity. Qed.

(** known finding text-linebreak-in-field-name: logrus' TextFormatter writes field NAMES verbatim, a
    name with a line break splits the entry over two physical lines of the log file *)
Definition ev_lb : list wev :=
  [ WFmt (s "time=""t0"" level=info msg=first li" ++ nl ++ s "ne=1" ++ nl);
    WFmt (s "time=""t1"" level=info msg=second" ++ nl) ].
Definition ch_lb : list bytes :=
  Eval vm_compute in match write_text false (calc_new wK) ev_lb with Ok c => c | _ => [] end.
Theorem text_linebreak_in_field_name_refuted :
  exists (K : bytes) (evs : list wev) (chunks : list bytes),
    write_text false (calc_new K) evs = Ok chunks /\ wf_evs false K None evs = true /\
    verify_file false K (concat chunks) <> VAccept.
Proof. exists wK, ev_lb, ch_lb. split; [|split]; [vm_compute; reflexivity ..|]. vm_compute. discriminate. Qed.

(** known finding json-reserved-field: a user field named integrity is authenticated and then
    overwritten by the check; a field named chain (or the reserved message) on the first entry of a
    chain is overwritten by the "new" marker *)
Definition kv (a b : string) : string * string := (a, b).
Definition jm (fields : list (string * string)) : jmap :=
  fold_right (fun kv m => jset (s (fst kv)) (jstring (s (snd kv))) m) [] fields.
Definition ev_json_integrity : list jev :=
  [ JEntry (jm [kv "level" "info"; kv "msg" "hello"; kv "integrity" "user value"]) ].
Definition ev_json_chain : list jev :=
  [ JEntry (jm [kv "level" "info"; kv "msg" "hello"; kv "chain" "of custody"]) ].
Definition ev_json_ok : list jev :=
  [ JEntry (jm [kv "level" "info"; kv "msg" "hello"; kv "Integrity" "x"; kv "chain2" "new"]);
    JEntry (jm [kv "level" "info"; kv "msg" "End of current audit log chain"; kv "chain" "end"]);
    JReset wK;
    JEntry (jm [kv "level" "info"; kv "msg" "again"]) ].

Theorem json_reserved_field_refuted :
  verify_json wK (map JMap (write_json (calc_new wK) ev_json_integrity)) = VFail 0 C_MISMATCH /\
  verify_json wK (map JMap (write_json (calc_new wK) ev_json_chain)) = VFail 0 C_MISMATCH.
Proof. vm_compute. split; reflexivity. Qed.

Example honest_json_example :
  verify_json wK (map JMap (write_json (calc_new wK) ev_json_ok)) = VAccept.
Proof. vm_compute. reflexivity. Qed.

(** non-vacuity of the tamper theorems on the honest plaintext log above: every manipulation of its
    second entry is caught, with the error code and line the implementation reports *)
Definition l (i : nat) : bytes := unnl (nth i ch_text []).
Example tamper_examples :
  (* deletion of entry 1 (followed by entry 2 of its chain) *)
  verify_lines false wK [l 0; l 2; l 3; l 4] = VFail 1 C_MISMATCH /\
  (* exchange of entries 1 and 2 *)
  verify_lines false wK [l 0; l 2; l 1; l 3; l 4] = VFail 1 C_MISMATCH /\
  (* duplication of entry 1 *)
  verify_lines false wK [l 0; l 1; l 1; l 2; l 3; l 4] = VFail 2 C_MISMATCH /\
  (* edit of the body of entry 1, integrity value kept *)
  verify_lines false wK [l 0; s "time=""t1"" level=info msg=SECOND chain=new" ++ skipn 40 (l 1); l 2; l 3; l 4] = VFail 1 C_MISMATCH /\
  (* another key *)
  verify_lines false (s "audit-kez") (map unnl ch_text) = VFail 0 C_MISMATCH /\
  (* truncation in front of the second chain without the end marker *)
  verify_lines false wK [l 0; l 1; l 3; l 4] = VFail 2 C_MISSING_END /\
  (* removal of the tail is not detected (not claimed) *)
  verify_lines false wK [l 0; l 1] = VAccept.
Proof. vm_compute. repeat split; reflexivity. Qed.

(** the premises of [tamper_detected_by_next] are satisfiable: prefix = first entry of [ev_text] *)
Example tamper_premises_example :
  exists chunksP, write_text false (calc_new wK) (firstn 1 ev_text) = Ok chunksP /\
    wf_evs false wK None (firstn 1 ev_text) = true /\
    first_check (wstate false (calc_new wK) (firstn 1 ev_text)) = false.
Proof. eexists. vm_compute. repeat split; reflexivity. Qed.
