(** COMPOSITION with the abstract C04 model: for the statement shapes Model/Proxy.v covers, the column
    parameters it applies to the values of [abstract_of d t] are the settings the statement analysis selects for
    the same literals of t. *)
From Coq Require Import String.
From Coq Require Import List Bool NArith ZArith Arith Lia.
From Acra Require Import Lib.Bytes Lib.Outcome Model.Proxy Model.ColumnResolveAbstract Model.RunColumnResolve.
From Acra Require Import Proofs.CensorTree Proofs.ColumnResolveBase Proofs.ColumnResolveWrite.
Import ListNotations.
Local Open Scope nat_scope.

(** * lists *)

Lemma in_concat_mapi_from {A B} (F : nat -> A -> list B) l x : forall i0,
  In x (concat (mapi_from i0 F l)) <-> exists i a, nth_error l i = Some a /\ In x (F (i0 + i) a).
Proof.
  induction l as [|a l IH]; intro i0; cbn [mapi_from concat].
  - split; [intros []|intros [i [a [H _]]]; destruct i; discriminate].
  - rewrite in_app_iff, (IH (S i0)). split.
    + intros [H|[i [b [Hn Hb]]]].
      * exists 0, a. rewrite Nat.add_0_r. split; [reflexivity|exact H].
      * exists (S i), b. rewrite Nat.add_succ_r. split; [exact Hn|exact Hb].
    + intros [[|i] [b [Hn Hb]]].
      * cbn in Hn. inversion Hn; subst. rewrite Nat.add_0_r in Hb. left; exact Hb.
      * right. exists i, b. rewrite Nat.add_succ_r in Hb. split; [exact Hn|exact Hb].
Qed.

Lemma in_concat_mapi {A B} (F : nat -> A -> list B) l x :
  In x (concat (mapi F l)) <-> exists i a, nth_error l i = Some a /\ In x (F i a).
Proof. unfold mapi. rewrite in_concat_mapi_from. reflexivity. Qed.

Lemma opt_all_nth {A B} (f : A -> option B) l r i y :
  opt_all (map f l) = Some r -> nth_error r i = Some y -> exists x, nth_error l i = Some x /\ f x = Some y.
Proof.
  revert r i. induction l as [|x l IH]; intros r i H Hn; cbn [map opt_all] in H.
  - inversion H; subst. destruct i; discriminate.
  - destruct (f x) as [b|] eqn:Ef; [|discriminate].
    destruct (opt_all (map f l)) as [r'|] eqn:Er; [|discriminate]. cbn [option_map] in H. inversion H; subst.
    destruct i as [|i].
    + cbn in Hn. inversion Hn; subst. exists x. split; [reflexivity|exact Ef].
    + cbn in Hn. destruct (IH r' i eq_refl Hn) as [x' [Hx Hf]]. exists x'. split; [exact Hx|exact Hf].
Qed.

(** * configurations *)

Lemma lookup_last_not_in {A} k (l : list (bytes * A)) : ~ In k (map fst l) -> lookup_last k l = None.
Proof.
  induction l as [|[k' v] l IH]; intro H; cbn [lookup_last]; [reflexivity|].
  cbn [map fst In] in H. rewrite IH; [|tauto].
  destruct (bytes_eqb k k') eqn:E; [|reflexivity]. apply bytes_eqb_eq in E. subst. exfalso. apply H. left; reflexivity.
Qed.

Lemma assoc_proxy_cfg cc cfg tbl :
  NoDup (map rt_name cfg) ->
  assoc tbl (to_proxy_cfg cc cfg) =
  option_map (fun s => map (fun c => (c, col_cc cc s c)) (rt_cols s)) (get_schema cfg tbl).
Proof.
  unfold get_schema. induction cfg as [|s cfg IH]; intro Hnd; [reflexivity|].
  cbn [map to_proxy_cfg assoc lookup_last]. fold (to_proxy_cfg cc cfg).
  inversion Hnd as [|? ? Hni Hnd']; subst.
  destruct (bytes_eqb tbl (rt_name s)) eqn:E.
  - apply bytes_eqb_eq in E. subst tbl.
    rewrite lookup_last_not_in; [reflexivity|]. rewrite map_map. cbn [fst]. exact Hni.
  - rewrite (IH Hnd'). destruct (lookup_last tbl _); reflexivity.
Qed.

Lemma get_schema_in cfg tbl s : get_schema cfg tbl = Some s -> In s cfg.
Proof.
  unfold get_schema. intro H. apply lookup_last_in in H. apply in_map_iff in H.
  destruct H as [s' [E Hin]]. inversion E; subst. exact Hin.
Qed.

Lemma assoc_cols cc s c cols :
  assoc c (map (fun c => (c, col_cc cc s c)) cols) = if existsb (bytes_eqb c) cols then Some (col_cc cc s c) else None.
Proof.
  induction cols as [|c' cols IH]; [reflexivity|]. cbn [map assoc existsb].
  destruct (bytes_eqb c c') eqn:E; cbn [orb]; [apply bytes_eqb_eq in E; subst; reflexivity|exact IH].
Qed.

(** the abstract model's parameters of a column of a configured table *)
Lemma proxy_col_setting cc cfg tbl s c :
  cfg_regular cfg -> get_schema cfg tbl = Some s ->
  Proxy.col_setting (to_proxy_cfg cc cfg) tbl c = col_cc cc s c.
Proof.
  intros [Hnd Hreg] Hs. unfold Proxy.col_setting. rewrite (assoc_proxy_cfg cc cfg tbl Hnd), Hs. cbn [option_map].
  rewrite assoc_cols. destruct (existsb (bytes_eqb c) (rt_cols s)) eqn:E; [reflexivity|].
  unfold col_cc. destruct (col_setting s c) as [sid|] eqn:Ec; [|reflexivity]. exfalso.
  pose proof (Hreg s (get_schema_in _ _ _ Hs) c sid Ec) as Hin.
  assert (existsb (bytes_eqb c) (rt_cols s) = true) by (apply existsb_exists; exists c; split; [exact Hin|apply bytes_eqb_refl]).
  congruence.
Qed.

(** * a plain string literal at a value position *)

Lemma str_lit_events pp e s c v :
  str_lit e = Some v ->
  enc_expr pp e s c =
  match col_setting s c with
  | Some sid => if empty v then [] else [SLit (pp ++ []) sid]
  | None => []
  end.
Proof.
  unfold str_lit. destruct e as [k l cs].
  destruct (isk K_SQLVal (T k l cs)) eqn:Ek; cbn [andb]; [|intro H; discriminate].
  apply isk_eq in Ek. cbn [tkind] in Ek. subst k.
  destruct (N.eqb (sv_type (T K_SQLVal l cs)) VT_StrVal) eqn:Et; [|intro H; discriminate].
  intro H. inversion H; subst v. apply N.eqb_eq in Et.
  unfold enc_expr. destruct (col_setting s c) as [sid|]; [|reflexivity].
  cbn [unwrap uev snd]. unfold ph_index, enc_literal. rewrite Et. cbn [ph_prefix].
  change (isk K_SQLVal (T K_SQLVal l cs)) with true. cbn [andb app].
  change (ph_prefix VT_StrVal) with (@None bytes). change (uev_type VT_StrVal) with true. change (coder_type VT_StrVal) with true.
  cbn [andb]. destruct (empty (sv_val (T K_SQLVal l cs))); reflexivity.
Qed.

Section C.
Variable d : dialect.
Variable cfg : rcfg.
Variable cc : N -> colcfg.

(** the events of the VALUES rows of string literals *)
Lemma insert_events s cols fr rows rs :
  opt_all (map (fun tup => opt_all (map str_lit (tkids tup))) rows) = Some rs ->
  forall i row j v, nth_error rs i = Some row -> nth_error row j = Some v ->
  forall sid,
    In (SLit [fr; i; j] sid)
       (concat (mapi (fun i tup => concat (mapi (fun j v =>
          match nth_error cols j with Some c => enc_expr [fr; i; j] v s c | None => [] end) (tkids tup))) rows))
    <-> (v <> [] /\ match nth_error cols j with Some c => col_setting s c | None => None end = Some sid).
Proof.
  intros Ers i row j v Hrow Hv sid.
  destruct (opt_all_nth _ _ _ _ _ Ers Hrow) as [tup [Htup Hr]].
  destruct (opt_all_nth _ _ _ _ _ Hr Hv) as [e [He Hlit]].
  rewrite in_concat_mapi. split.
  - intros [i' [tup' [Ht' Hin]]]. rewrite in_concat_mapi in Hin. destruct Hin as [j' [e' [He' Hin]]].
    destruct (nth_error cols j') as [c|] eqn:Ec; [|destruct Hin].
    assert (Hpath : forall x, In x (enc_expr [fr; i'; j'] e' s c) ->
              match x with SLit p _ => exists rp, p = [fr; i'; j'] ++ rp | SBind _ _ => True end).
    { intros x Hx. unfold enc_expr in Hx. destruct (col_setting s c); [|destruct Hx].
      apply in_app_or in Hx. destruct Hx as [Hx|Hx].
      - destruct (isk K_SQLVal _); [|destruct Hx]. destruct (ph_index _); [|destruct Hx]. destruct Hx as [<-|[]]. exact I.
      - destruct (uev e' tt) as [rp|]; [|destruct Hx]. destruct Hx as [<-|[]]. exists rp. reflexivity. }
    destruct (Hpath _ Hin) as [rp Hp]. cbn [app] in Hp. inversion Hp; subst i' j'.
    rewrite Htup in Ht'. inversion Ht'; subst tup'. rewrite He in He'. inversion He'; subst e'.
    rewrite (str_lit_events _ _ s c v Hlit) in Hin. rewrite Ec.
    destruct (col_setting s c) as [sid'|] eqn:Esid; [|destruct Hin].
    destruct (empty v) eqn:Eemp; [destruct Hin|]. destruct Hin as [Hin|[]]. inversion Hin; subst sid'.
    split; [intro; subst v; discriminate|reflexivity].
  - intros [Hne Hsid]. exists i, tup. split; [exact Htup|]. rewrite in_concat_mapi. exists j, e. split; [exact He|].
    destruct (nth_error cols j) as [c|]; [|discriminate].
    rewrite (str_lit_events _ _ s c v Hlit), Hsid.
    destruct v; [contradiction|]. cbn [empty app]. left. reflexivity.
Qed.

(** INSERT: the parameters [ccs] the abstract model applies column by column are those of the settings the analysis
    selects for the literals of every row *)
Theorem composes_insert t tbl cols rows ret evs :
  cfg_regular cfg ->
  abstract_of d t = Some (Insert tbl cols rows ret) ->
  impl_write d cfg t = Ok evs ->
  match insert_columns (to_proxy_cfg cc cfg) tbl cols with
  | None => evs = []
  | Some ccs =>
      exists col_sid : nat -> option N,
        (forall j, nth j ccs CPlain = match col_sid j with Some sid => cc sid | None => CPlain end) /\
        (forall i row j v, nth_error rows i = Some row -> nth_error row j = Some v ->
           forall sid, In (SLit [fnum K_Insert "Rows"; i; j] sid) evs <-> (v <> [] /\ col_sid j = Some sid))
  end.
Proof.
  intros Hreg Ha Hw. pose proof Hreg as [Hnd Hlisted].
  unfold abstract_of in Ha. unfold impl_write in Hw.
  destruct (tkind t) eqn:Ek; try discriminate.
  2:{ exfalso. destruct (negb _); [discriminate|]. destruct (abs_table _ _); [|discriminate]. destruct (opt_all _); discriminate. }
  2:{ exfalso. destruct (_ || _); [discriminate|]. destruct (abs_table _ _); [|discriminate].
      destruct (opt_all (map (abs_set d) _)); [|discriminate]. destruct (opt_all _); discriminate. }
  destruct (nonempty (tkids (fld "OnDup" t))) eqn:Eod; cbn [orb] in Ha; [discriminate|].
  destruct (isk K_Values (fld "Rows" t)) eqn:Ev; cbn [negb] in Ha; [|discriminate].
  destruct (opt_all (map (fun tup => opt_all (map str_lit (tkids tup))) (tkids (fld "Rows" t)))) as [rs|] eqn:Ers; [|discriminate].
  destruct (opt_all (map (abs_item d) (tkids (fld "Returning" t)))) as [rt|]; [|discriminate].
  inversion Ha; subst tbl cols rows ret. clear Ha.
  unfold impl_insert, tab_schema in Hw. rewrite Eod, Ev in Hw. cbn [bind] in Hw.
  unfold insert_columns. rewrite (assoc_proxy_cfg cc cfg _ Hnd).
  destruct (get_schema cfg (vfc_tab d (tn_name (fld "Table" t)))) as [s|] eqn:Es; cbn [option_map].
  2:{ inversion Hw. reflexivity. }
  rewrite andb_true_r, app_nil_r in Hw.
  assert (Hevents : forall i row j v, nth_error rs i = Some row -> nth_error row j = Some v -> forall sid,
            In (SLit [fnum K_Insert "Rows"; i; j] sid) evs <->
            (v <> [] /\ match nth_error (insert_cols d t s) j with Some c => col_setting s c | None => None end = Some sid)).
  { intros i row j v Hrow Hv sid. destruct (nonempty (insert_cols d t s)) eqn:Enc.
    - inversion Hw; subst evs. apply (insert_events s _ _ _ rs Ers i row j v Hrow Hv sid).
    - inversion Hw; subst evs. apply nonempty_false in Enc. rewrite Enc.
      destruct j; cbn; (split; [intros []|intros [_ H]; discriminate]). }
  clear Hw.
  destruct (nonempty (tkids (fld "Columns" t))) eqn:Ecs.
  - exists (fun j => match nth_error (insert_cols d t s) j with Some c => col_setting s c | None => None end).
    split; [|exact Hevents]. clear Hevents.
    intro j. unfold insert_cols. rewrite Ecs.
    set (names := map (vfc_col d) (tkids (fld "Columns" t))).
    destruct (nth_error names j) as [c|] eqn:En.
    + rewrite (nth_indep _ CPlain (Proxy.col_setting (to_proxy_cfg cc cfg) (vfc_tab d (tn_name (fld "Table" t))) c)).
      2:{ rewrite map_length. apply nth_error_Some. congruence. }
      rewrite map_nth. rewrite (nth_error_nth _ _ _ En). apply (proxy_col_setting cc cfg _ s c Hreg Es).
    + apply nth_overflow. rewrite map_length. apply nth_error_None. exact En.
  - exists (fun j => match nth_error (insert_cols d t s) j with Some c => col_setting s c | None => None end).
    split; [|exact Hevents]. clear Hevents.
    intro j. unfold insert_cols. rewrite Ecs. rewrite map_map. cbn [snd].
    destruct (nth_error (rt_cols s) j) as [c|] eqn:En.
    + rewrite (nth_indep _ CPlain (col_cc cc s c)).
      2:{ rewrite map_length. apply nth_error_Some. congruence. }
      rewrite map_nth. rewrite (nth_error_nth _ _ _ En). reflexivity.
    + apply nth_overflow. rewrite map_length. apply nth_error_None. exact En.
Qed.

(** UPDATE of one table *)

Lemma upd_target_single tn a name s :
  tab_schema d cfg tn = Some s -> tn_empty (fld "Qualifier" name) = true ->
  upd_target d cfg name [(tn, a)] [(tn, a)] = Ok (Some s, vfc_col d (fld "Name" name)) \/
  upd_target d cfg name [(tn, a)] [(tn, a)] = Panic.
Proof.
  intros Hs Hq. unfold upd_target. destruct (is_nil name); [right; reflexivity|left].
  rewrite Hq. cbn [negb first_knowing fst]. rewrite Hs.
  destruct (knows_col s _); reflexivity.
Qed.

Lemma upd_exprs_single pp tn a s : tab_schema d cfg tn = Some s ->
  forall es k0 sets evs,
    opt_all (map (abs_set d) es) = Some sets ->
    upd_exprs d cfg pp k0 es [(tn, a)] [(tn, a)] = Ok evs ->
    forall k c v, nth_error sets k = Some (c, v) -> forall sid,
      In (SLit (pp ++ [k0 + k; fnum K_UpdateExpr "Expr"]) sid) evs <-> (v <> [] /\ col_setting s c = Some sid).
Proof.
  intros Hs. induction es as [|e es IH]; intros k0 sets evs Hsets Hw k c v Hk sid.
  - cbn in Hsets. inversion Hsets; subst. destruct k; discriminate.
  - cbn [map opt_all] in Hsets. destruct (abs_set d e) as [[c0 v0]|] eqn:Ea; [|discriminate].
    destruct (opt_all (map (abs_set d) es)) as [sets'|] eqn:Es'; [|discriminate]. cbn [option_map] in Hsets.
    inversion Hsets; subst sets. clear Hsets.
    cbn [upd_exprs] in Hw. destruct (is_nil e); [discriminate|].
    unfold abs_set in Ea. destruct (tn_empty (fld "Qualifier" (fld "Name" e))) eqn:Eq; [|discriminate].
    destruct (str_lit (fld "Expr" e)) as [v1|] eqn:El; [|discriminate]. cbn [option_map] in Ea. inversion Ea; subst c0 v0. clear Ea.
    destruct (upd_target_single tn a (fld "Name" e) s Hs Eq) as [Ht|Ht]; rewrite Ht in Hw; cbn [bind] in Hw; [|discriminate].
    cbn [fst snd] in Hw.
    destruct (upd_exprs d cfg pp (S k0) es [(tn, a)] [(tn, a)]) as [rest| |] eqn:Er; cbn [bind] in Hw; try discriminate.
    inversion Hw; subst evs. clear Hw.
    rewrite (str_lit_events _ _ s _ v1 El). rewrite in_app_iff.
    assert (Hrest : forall (k' : nat) sid', In (SLit (pp ++ [k0 + 0; fnum K_UpdateExpr "Expr"]) sid') rest -> False).
    { intros k' sid' Hin.
      (* every literal of the rest sits below an index above k0 *)
      assert (Hgen : forall es k1 evs1, upd_exprs d cfg pp k1 es [(tn, a)] [(tn, a)] = Ok evs1 ->
                forall p sd, In (SLit p sd) evs1 -> exists k2 rp, k1 <= k2 /\ p = pp ++ [k2; fnum K_UpdateExpr "Expr"] ++ rp).
      { clear. induction es as [|e es IHe]; intros k1 evs1 Hw p sd Hin.
        - cbn in Hw. inversion Hw; subst. destruct Hin.
        - cbn [upd_exprs] in Hw. destruct (is_nil e); [discriminate|].
          destruct (upd_target d cfg (fld "Name" e) _ _) as [tg| |]; cbn [bind] in Hw; try discriminate.
          destruct (upd_exprs d cfg pp (S k1) es _ _) as [rest| |] eqn:Er; cbn [bind] in Hw; try discriminate.
          inversion Hw; subst evs1. apply in_app_or in Hin. destruct Hin as [Hin|Hin].
          + destruct (fst tg) as [s1|]; [|destruct Hin]. unfold enc_expr in Hin.
            destruct (col_setting s1 (snd tg)); [|destruct Hin]. apply in_app_or in Hin. destruct Hin as [Hin|Hin].
            * destruct (isk K_SQLVal _); [|destruct Hin]. destruct (ph_index _); [|destruct Hin]. destruct Hin as [Hin|[]]. discriminate.
            * destruct (uev _ tt) as [rp|]; [|destruct Hin]. destruct Hin as [Hin|[]]. inversion Hin; subst.
              exists k1, rp. split; [lia|]. rewrite <- app_assoc. reflexivity.
          + destruct (IHe (S k1) rest Er p sd Hin) as [k2 [rp [Hle Hp]]]. exists k2, rp. split; [lia|exact Hp]. }
      destruct (Hgen es (S k0) rest Er _ _ Hin) as [k2 [rp [Hle Hp]]].
      apply app_inv_head in Hp. inversion Hp. lia. }
    destruct k as [|k].
    + cbn in Hk. inversion Hk; subst c v.
      split.
      * intros [Hin|Hin]; [|exfalso; exact (Hrest 0 sid Hin)].
        destruct (col_setting s _) as [sid'|]; [|destruct Hin]. destruct (empty v1) eqn:Ee; [destruct Hin|].
        destruct Hin as [Hin|[]]. rewrite app_nil_r in Hin. inversion Hin.
        split; [intro; subst v1; discriminate|reflexivity].
      * intros [Hne Hsid]. left. rewrite Hsid. destruct v1; [contradiction|]. cbn [empty]. left.
        rewrite app_nil_r, Nat.add_0_r. reflexivity.
    + cbn in Hk. rewrite Nat.add_succ_r, <- Nat.add_succ_l. rewrite <- (IH (S k0) sets' rest eq_refl Er k c v Hk sid).
      split; [|intro H; right; exact H].
      intros [Hin|Hin]; [|exact Hin]. exfalso.
      destruct (col_setting s _); [|destruct Hin]. destruct (empty v1); [destruct Hin|]. destruct Hin as [Hin|[]].
      rewrite app_nil_r in Hin. inversion Hin as [Hp]. apply app_inv_head in Hp. inversion Hp. lia.
Qed.

Theorem composes_update t tbl sets whr ret evs :
  cfg_regular cfg ->
  abstract_of d t = Some (Update tbl sets whr ret) ->
  impl_write d cfg t = Ok evs ->
  forall k c v, nth_error sets k = Some (c, v) ->
    Proxy.col_setting (to_proxy_cfg cc cfg) tbl c =
      match get_schema cfg tbl with Some s => col_cc cc s c | None => CPlain end /\
    forall sid, In (SLit [fnum K_Update "Exprs"; k; fnum K_UpdateExpr "Expr"] sid) evs <->
      (v <> [] /\ exists s, get_schema cfg tbl = Some s /\ col_setting s c = Some sid).
Proof.
  intros Hreg Ha Hw k c v Hk. pose proof Hreg as [Hnd _].
  unfold abstract_of in Ha. unfold impl_write in Hw.
  destruct (tkind t) eqn:Ek; try discriminate.
  1:{ exfalso. destruct (_ || _); [discriminate|]. destruct (opt_all _); [|discriminate]. destruct (opt_all _); discriminate. }
  1:{ exfalso. destruct (negb _); [discriminate|]. destruct (abs_table _ _); [|discriminate]. destruct (opt_all _); discriminate. }
  destruct (nonempty (tkids (fld "From" t))) eqn:Ef; cbn [orb] in Ha; [discriminate|].
  destruct (negb (is_nil (fld "Where" t))); [discriminate|].
  destruct (abs_table d (tkids (fld "TableExprs" t))) as [tb|] eqn:Et; [|discriminate].
  destruct (opt_all (map (abs_set d) (tkids (fld "Exprs" t)))) as [sets'|] eqn:Es; [|discriminate].
  destruct (opt_all (map (abs_item d) _)) as [ret'|]; [|discriminate].
  inversion Ha; subst tbl sets whr ret. clear Ha.
  split.
  - destruct (get_schema cfg tb) as [s|] eqn:Eg; [apply (proxy_col_setting cc cfg tb s c Hreg Eg)|].
    unfold Proxy.col_setting. rewrite (assoc_proxy_cfg cc cfg tb Hnd), Eg. reflexivity.
  - intro sid. unfold abs_table in Et.
    destruct (tkids (fld "TableExprs" t)) as [|a [|a2 rest]] eqn:Ete; try discriminate.
    destruct (isk K_AliasedTableExpr a && isk K_TableName (fld "Expr" a) && ti_empty (fld "As" a)) eqn:Ea; [|discriminate].
    inversion Et; subst tb. clear Et.
    apply andb_true_iff in Ea. destruct Ea as [Ea Eas]. apply andb_true_iff in Ea. destruct Ea as [Eka Ekt].
    unfold impl_update in Hw. rewrite Ete in Hw. cbn [nonempty negb] in Hw.
    apply nonempty_false in Ef. rewrite Ef in Hw.
    assert (Hta : tables_of_list [a] = Ok [(fld "Expr" a, fld "As" a)]).
    { cbn [tables_of_list]. destruct a as [ka la ca]. apply isk_eq in Eka. cbn [tkind] in Eka. subst ka.
      cbn [tables_of]. change (nth (fnum K_AliasedTableExpr "Expr") ca tnil) with (fld "Expr" (T K_AliasedTableExpr la ca)).
      change (nth (fnum K_AliasedTableExpr "As") ca tnil) with (fld "As" (T K_AliasedTableExpr la ca)).
      rewrite Ekt. destruct (is_nil _) eqn:En; [|reflexivity].
      rewrite is_nil_isk in En. apply isk_eq in En. apply isk_eq in Ekt. congruence. }
    rewrite Hta in Hw. cbn [bind tables_of_list app] in Hw.
    cbn [has_tables existsb fst orb] in Hw. unfold tab_schema at 1 in Hw.
    destruct (get_schema cfg (vfc_tab d (tn_name (fld "Expr" a)))) as [s|] eqn:Eg.
    + cbn [negb nonempty] in Hw.
      assert (Hs : tab_schema d cfg (fld "Expr" a) = Some s) by exact Eg.
      pose proof (upd_exprs_single [fnum K_Update "Exprs"] (fld "Expr" a) (fld "As" a) s Hs _ 0 sets' evs Es Hw k c v Hk sid) as H.
      cbn [app Nat.add] in H. rewrite H. split.
      * intros [Hne Hc]. split; [exact Hne|]. exists s. split; [reflexivity|exact Hc].
      * intros [Hne [s' [Hs' Hc]]]. inversion Hs'; subst s'. split; assumption.
    + cbn [negb] in Hw. inversion Hw; subst evs. split; [intros []|intros [_ [s' [Hs' _]]]; discriminate].
Qed.

End C.
