(** C13_lex, definitions: the DECIDABLE conditions under which the tokenizer model ([SqlStmtText.lex], the twin of
    sqlparser/token.go that the c13s/c13lex domains replay against the real Tokenizer) reads a rendered piece list
    back as exactly the tokens of the pieces.
      [pok]     LOCAL condition on one piece: its own text is a spelling the tokenizer reads back as its token
                (identifier quoting per dialect, literal shapes per ValType, casts, bind-variable numbering);
      [skind]   what a piece needs from the byte that FOLLOWS it (stop kind);
      [fcl]     the class of the FIRST byte of a piece;
      [stop_ok] the adjacency table: may a piece with stop kind s be followed by a piece of class k;
      [sepd]    the adjacency condition of a whole piece list (every neighbouring pair + the end);
      [adj_ok]  = [loc] (all pieces locally fine, bind variables numbered in print order) && [sepd].
    No proofs here. *)
From Acra Require Import Lib.Bytes Gen.Prec Gen.SqlWords Model.SqlStmt Model.SqlStmtText.
From Acra Require Model.SqlExpr.
From Coq Require Import Arith.

(* ---------- classes of first bytes ---------- *)
Inductive cls := KSp | KWord | KNum | KSq | KDq | KBq | KP (p : punct) | KColon | KQm | KDollar | KEnd.

Definition hd_opt (s : bytes) : option byte := match s with c :: _ => Some c | [] => None end.

Definition in_cls (k : cls) (o : option byte) : bool :=
  match k, o with
  | KEnd, None => true
  | KEnd, Some _ => false
  | _, None => false
  | KSp, Some c => byte_eqb c x20
  | KWord, Some c => is_letter c
  | KNum, Some c => is_digit c || byte_eqb c x2e
  | KSq, Some c => byte_eqb c x27
  | KDq, Some c => byte_eqb c x22
  | KBq, Some c => byte_eqb c x60
  | KP p, Some c => match punct_text p with d :: _ => byte_eqb c d | [] => false end
  | KColon, Some c => byte_eqb c x3a
  | KQm, Some c => byte_eqb c x3f
  | KDollar, Some c => byte_eqb c x24
  end.

(* ---------- stop kinds ---------- *)
Inductive sk := SNone | SWord (dbsys : bool) | SNum | SQs | SQd | SQb | SBind | SP (p : punct).

Definition bindch (d : byte) : bool := is_letter d || is_digit d || byte_eqb d x2e.

(** what the byte after a token must NOT be (None = end of text) *)
Definition stopb (pg : bool) (s : sk) (o : option byte) : bool :=
  match o with
  | None => true
  | Some c =>
      match s with
      | SNone => true
      | SWord db => negb (is_letter c) && negb (is_digit c) && negb (byte_eqb c x27) && negb (db && is_carat pg c)
      | SNum => negb (is_digit c) && negb (is_letter c) && negb (byte_eqb c x2e) && negb (is_sign c)
      | SQs => negb (byte_eqb c x27)
      | SQd => negb (byte_eqb c x22)
      | SQb => negb (byte_eqb c x60)
      | SBind => negb (bindch c)
      | SP PLt => negb (byte_eqb c x3d) && negb (byte_eqb c x3e) && negb (byte_eqb c x3c)
      | SP PLe => negb (byte_eqb c x3e)
      | SP PGt => negb (byte_eqb c x3d) && negb (byte_eqb c x3e)
      | SP PBang => negb (byte_eqb c x3d)
      | SP PMinus => negb (byte_eqb c x2d) && negb (byte_eqb c x3e)
      | SP PSlash => negb (byte_eqb c x2f) && negb (byte_eqb c x2a)
      | SP PBitAnd => negb (byte_eqb c x26)
      | SP PBitOr => negb (byte_eqb c x7c)
      | SP PDot => negb (is_digit c)
      | SP _ => true
      end
  end.

Definition all_opts : list (option byte) :=
  None :: map (fun n => Some (n2b (N.of_nat n))) (seq 0 256).

Definition is_sword_true (s : sk) : bool := match s with SWord true => true | _ => false end.
Definition is_kdot (k : cls) : bool := match k with KP PDot => true | _ => false end.

(** the adjacency table: every byte of class k is a byte a token of stop kind s may be followed by.
    [lax] = the pair (unquoted system variable "@@x", '.') is let through (see C13_lex_sysvar_qualifier_refuted) *)
Definition stop_ok (pg lax : bool) (s : sk) (k : cls) : bool :=
  (lax && is_sword_true s && is_kdot k) ||
  forallb (fun o => implb (in_cls k o) (stopb pg s o)) all_opts.

(* ---------- per piece ---------- *)
Definition is_qm (t : N) (v : bytes) : bool := N.eqb t VT_ValArg && bytes_eqb (lit_text t v) [x3f].

Definition lit_cls (t : N) (v : bytes) : cls :=
  if N.eqb t VT_StrVal then KSq
  else if N.eqb t VT_HexVal || N.eqb t VT_BitVal || N.eqb t VT_PgEscapeString then KWord
  else if N.eqb t VT_ValArg then (if is_qm t v then KQm else KColon)
  else if N.eqb t VT_PgPlaceholder then KDollar
  else KNum.
Definition lit_sk (t : N) (v : bytes) : sk :=
  if N.eqb t VT_StrVal || N.eqb t VT_PgEscapeString then SQs
  else if N.eqb t VT_HexVal || N.eqb t VT_BitVal then SNone
  else if N.eqb t VT_ValArg then (if is_qm t v then SNone else SBind)
  else SNum.

Section Dialect.
Variable pg : bool.

Definition qcls : cls := if pg then KDq else KBq.
Definition qsk : sk := if pg then SQd else SQb.
Definition fcl (p : piece) : cls :=
  match p with
  | PS => KSp
  | PT (TLit t v) => lit_cls t v
  | PT (TId n) => if must_escape pg n then qcls else KWord
  | PT (TDq _) => KDq
  | PT (TCast _) => KColon
  | PT (TP p) => KP p
  | PT (TW _) | PT (TKw _) => KWord
  | PI (Id QNone v) => if must_escape pg v then qcls else KWord
  | PI (Id QDq _) => KDq
  | PI (Id QSq _) => KSq
  | PR _ => KWord
  end.
Definition skind (p : piece) : sk :=
  match p with
  | PS => SNone
  | PT (TLit t v) => lit_sk t v
  | PT (TId n) => if must_escape pg n then qsk else SWord (is_dbsys n)
  | PT (TDq _) => SQd
  | PT (TCast _) => SBind
  | PT (TP p) => SP p
  | PT (TW _) | PT (TKw _) => SWord false
  | PI (Id QNone v) => if must_escape pg v then qsk else SWord (is_dbsys v)
  | PI (Id QDq _) => SQd
  | PI (Id QSq _) => SQs
  | PR v => SWord (is_dbsys v)
  end.

Definition fcls (r : list piece) (k : cls) : cls := match r with [] => k | q :: _ => fcl q end.
Fixpoint sepd (lax : bool) (ps : list piece) (k : cls) : bool :=
  match ps with
  | [] => true
  | p :: r => stop_ok pg lax (skind p) (fcls r k) && sepd lax r k
  end.

(* ---------- local conditions ---------- *)
(** a number spelling the tokenizer reads back as ONE number token of type t spelled the same *)
Definition num_ok (t : N) (v : bytes) : bool :=
  match v with
  | c :: v' =>
      if is_digit c then
        match lex_number false v with
        | Some (t', w, []) => N.eqb t' t && bytes_eqb w v
        | _ => false
        end
      else if byte_eqb c x2e && head_is is_digit v' then
        match lex_number true v' with
        | Some (t', w, []) => N.eqb t' t && bytes_eqb w v
        | _ => false
        end
      else false
  | [] => false
  end.
Definition cast_ok (c : bytes) : bool :=
  match c with
  | a :: b :: l :: w => byte_eqb a x3a && byte_eqb b x3a && is_letter l && forallb bindch w
  | _ => false
  end.
Definition lit_ok (nv : N) (t : N) (v : bytes) : bool :=
  if N.eqb t VT_StrVal || N.eqb t VT_PgEscapeString then true
  else if N.eqb t VT_IntVal || N.eqb t VT_FloatVal || N.eqb t VT_HexNum then num_ok t v
  else if N.eqb t VT_HexVal then forallb is_hexdigit v && Nat.even (length v)
  else if N.eqb t VT_BitVal then forallb is_bit v
  else if N.eqb t VT_ValArg then
    if is_qm t v then bytes_eqb v (x3a :: x76 :: dec_of_N (nv + 1))
    else match v with
         | a :: l :: w => byte_eqb a x3a && is_letter l && forallb bindch w && bytes_eqb (lit_text t v) v
         | _ => false
         end
  else if N.eqb t VT_PgPlaceholder then
    match v with a :: ds => byte_eqb a x24 && num_ok VT_IntVal ds | [] => false end
  else false.
Definition raw_ok (v : bytes) : bool :=
  id_chars v && (is_keyword v || negb (bytes_eqb (lower v) x_dual) || bytes_eqb v x_dual).
Definition pok (nv : N) (p : piece) : bool :=
  match p with
  | PS => true
  | PT (TLit t v) => lit_ok nv t v
  | PT (TCast c) => cast_ok c
  | PT (TP _) | PT (TW _) => true
  | PT (TId _) | PT (TDq _) | PT (TKw _) => false          (* never emitted by the Format methods as PT *)
  | PI (Id QNone v) => nonempty v
  | PI (Id QDq v) => nonempty v && no_byte x_dq v && (pg || no_byte x_bsl v)
  | PI (Id QSq v) => no_byte x_sq v && no_byte x_bsl v
  | PR v => raw_ok v
  end.
Definition nvn (nv : N) (p : piece) : N :=
  match p with PT (TLit t v) => if is_qm t v then (nv + 1)%N else nv | _ => nv end.
Fixpoint loc (nv : N) (ps : list piece) : bool :=
  match ps with [] => true | p :: r => pok nv p && loc (nvn nv p) r end.

(** the decidable adjacency condition of the theorem *)
Definition adj_ok (ps : list piece) : bool := loc 0 ps && sepd false ps KEnd.

(** only the literal / cast pieces (what wf does not constrain) *)
Definition pok_lit (nv : N) (p : piece) : bool :=
  match p with PT (TLit t v) => lit_ok nv t v | PT (TCast c) => cast_ok c | _ => true end.
Fixpoint lits_ok (nv : N) (ps : list piece) : bool :=
  match ps with [] => true | p :: r => pok_lit nv p && lits_ok (nvn nv p) r end.
(** an unquoted system variable used as a QUALIFIER: "@@a" '.' *)
Fixpoint sysq (ps : list piece) : bool :=
  match ps with
  | p :: r => (is_sword_true (skind p) && match r with PT (TP PDot) :: _ => true | _ => false end) || sysq r
  | [] => false
  end.
End Dialect.
