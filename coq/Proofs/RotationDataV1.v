(** C06 (extension x06v1) — keystore v1 composed with the envelope model, and ListKeys of keystore v2.

    Part I: the strengthened invariant of keystore v1: for a key PAIR slot the label in the current
            [.pub] file is the label in the current private file, and the history directories of
            the two files hold the same labels in the same order ([PubEq]).  One-step simulation
            [v1_step_R1] of the uncached keystore under [R1 = Inv /\ PubEq] for EVERY operation
            (generate / rotate, reads, destroy current, destroy rotated, reset, reopen); clock
            readings are threaded as in Proofs/KeystoreV1.v (strictly increasing).
    Part D: keystore v1 (no cache) composed with the envelope model: for every history, a value
            protected at any point is revealed at any later point iff the version it was protected
            under is still in [s_all true] of the specification state, i.e. still stored AND the
            slot has a current key (the recorded class v1-all-keys-fail-without-current is MODELLED:
            specification parameter hide = true); both directions are reductions with an explicit
            witness.  Blind index: searched with the CURRENT HMAC key only.
    Part L: listing rows of keystore v1 = rows of the specification (one row per key FILE: key pairs
            have a private and a public row), time stamps strictly increasing with the index.
    Part M: keystore v2 ListKeys SUCCEEDS on every related state and shows the specification's row. *)
From Coq Require Import List NArith ZArith Bool Lia.
From Acra Require Import Lib.Bytes Lib.Outcome Lib.Sha256 Crypto.Interface Gen.Consts Gen.KeyStates
  Model.KeySpec Model.KeystoreV1 Model.KeystoreV2 Model.Envelope Model.KeyDataExt
  Proofs.Envelope Proofs.EnvelopeHandlers Proofs.RevealReduction Proofs.KeySpec Proofs.KeystoreV1
  Proofs.KeystoreV1Cache Proofs.KeystoreV2 Proofs.RotationData.
Import ListNotations.
Local Open Scope N_scope.
Arguments d_ks {K} _.
Arguments d_vals {K} _.

(** * Part I: the strengthened invariant *)
Definition PubEq (fs : fsT) : Prop :=
  forall s : slot, is_pair (fst s) = true ->
    f_cur (fs (s, Pub)) = f_cur (fs (s, Priv))
    /\ map snd (f_old (fs (s, Pub))) = map snd (f_old (fs (s, Priv))).

Definition R1 (lo : N) (st : v1state) (sp : sstate) : Prop := Inv lo (v_fs st) sp /\ PubEq (v_fs st).

Lemma PubEq_frame fs fs' s eP eU :
  PubEq fs -> frame fs fs' s eP eU ->
  (is_pair (fst s) = true -> f_cur eU = f_cur eP /\ map snd (f_old eU) = map snd (f_old eP)) ->
  PubEq fs'.
Proof.
  intros HP [FP FU FO] He s' Hp. destruct (slot_eqb s' s) eqn:E.
  - apply slot_eqb_eq in E. subst s'. rewrite FP, FU. exact (He Hp).
  - apply slot_eqb_neq in E. rewrite !(FO s' _ E). exact (HP s' Hp).
Qed.

Lemma PubEq_init : PubEq fs_init.
Proof. intros s _. split; reflexivity. Qed.

Lemma R1_init : R1 0 v1_init s_init.
Proof. split; [exact inv_init | exact PubEq_init]. Qed.

Lemma mk_eta st : st = mk (v_fs st) (v_cache st).
Proof. destruct st; reflexivity. Qed.

Lemma read_key_nc' st f p :
  read_key NoCache st f p
  = (st, match file_content (v_fs st) f p with None => Err E_GENERIC | Some o => Ok o end).
Proof. destruct st as [fs c]. apply (read_key_nc fs c f p). Qed.

(** one step of the uncached keystore v1, every operation *)
Lemma v1_step_R1 lo st sp o rest :
  R1 lo st sp -> increasing_from lo (clock_readings [o] ++ rest) ->
  exists lo',
    R1 lo' (fst (v1_step NoCache st o)) (fst (spec_step true sp o))
    /\ increasing_from lo' rest
    /\ canon o (snd (v1_step NoCache st o)) = snd (spec_step true sp o).
Proof.
  intros [HI HP] Hinc. rewrite (mk_eta st). set (fs := v_fs st) in *. set (c := v_cache st).
  destruct o as [s o t1 t2|s|s|s|s|s i| |]; cbn [clock_readings app] in Hinc.
  - (* Gen *)
    cbn [increasing_from] in Hinc. destruct Hinc as [H1 [H2 Hrest]].
    destruct (gen_nc lo fs c sp s o t1 t2 HI H1 H2) as [fs' [Est Hfr]].
    pose proof (gen_inv _ _ _ _ _ _ _ _ HI H1 H2 Hfr) as HI'.
    exists t2. rewrite Est. cbn [fst snd]. split; [|split; [exact Hrest | reflexivity]].
    split; [exact HI'|]. cbn [v_fs mk].
    apply (PubEq_frame fs fs' s _ _ HP Hfr). intro Hp. rewrite Hp. cbn [f_cur f_old].
    split; [reflexivity|]. destruct (HP s Hp) as [Hc Ho]. unfold backup. rewrite Hc.
    destruct (f_cur (fs (s, Priv))); [|exact Ho]. rewrite !map_app, Ho. reflexivity.
  - (* Cur *)
    destruct (cur_nc lo fs c sp s HI) as [r [Est Hc]]. exists lo. rewrite Est. cbn [fst snd spec_step].
    split; [split; assumption|]. split; [exact Hinc | exact Hc].
  - (* All *)
    destruct (all_sim lo fs c sp s HI) as [r [Est Hc]]. exists lo. rewrite Est. cbn [fst snd spec_step].
    split; [split; assumption|]. split; [exact Hinc | exact Hc].
  - (* ListRot *)
    destruct (listrot_sim lo fs c sp s HI) as [r [Est Hc]]. exists lo. rewrite Est. cbn [fst snd spec_step].
    split; [split; assumption|]. split; [exact Hinc | exact Hc].
  - (* DestroyCur *)
    destruct (destroycur_nc fs c s) as [fs' [c' [Est Hfr]]].
    pose proof (destroycur_inv _ _ _ _ _ HI Hfr) as HI'.
    exists lo. rewrite Est. cbn [fst snd]. split; [|split; [exact Hinc | reflexivity]].
    split; [exact HI'|]. cbn [v_fs mk].
    apply (PubEq_frame fs fs' s _ _ HP Hfr). intro Hp. rewrite (is_pair_destroy_both _ Hp). cbn [f_cur f_old].
    split; [reflexivity | apply (HP s Hp)].
  - (* DestroyRot *)
    destruct (rot_bad (length (f_old (fs (s, Priv)))) i) eqn:Eb.
    + destruct (destroyrot_bad_nc lo fs c sp s i HI Eb) as [e Est]. exists lo. rewrite Est.
      assert (Esp : spec_step true sp (DestroyRot s i) = (sp, ODone)).
      { cbn [spec_step]. rewrite (abs_rot_length _ _ _ s HI), (rot_bad_pos _ _ Eb). reflexivity. }
      rewrite Esp. cbn [fst snd]. split; [split; assumption|]. split; [exact Hinc | reflexivity].
    + destruct (destroyrot_ok_nc lo fs c sp s i HI Eb) as [fs' [Est Hfr]].
      pose proof (destroyrot_inv _ _ _ _ _ _ HI Eb Hfr) as HI'.
      exists lo. rewrite Est. cbn [fst snd]. split; [|split; [exact Hinc | reflexivity]].
      split; [exact HI'|]. cbn [v_fs mk].
      apply (PubEq_frame fs fs' s _ _ HP Hfr). intro Hp. rewrite Hp. cbn [f_cur f_old].
      destruct (HP s Hp) as [Hc Ho]. split; [exact Hc|]. rewrite !map_remove_nth, Ho. reflexivity.
  - (* Reset *)
    exists lo. cbn [v1_step spec_step fst snd canon]. split; [split; assumption|]. split; [exact Hinc | reflexivity].
  - (* Reopen *)
    exists lo. cbn [v1_step spec_step fst snd canon]. split; [split; assumption|]. split; [exact Hinc | reflexivity].
Qed.

(** the invariant along every history of keystore operations *)
Lemma v1_after_R1 : forall ops lo st sp rest,
  R1 lo st sp -> increasing_from lo (clock_readings ops ++ rest) ->
  exists lo', R1 lo' (v1_state_after NoCache st ops) (spec_state_after true sp ops) /\ increasing_from lo' rest.
Proof.
  induction ops as [|o ops IH]; intros lo st sp rest HR Hinc.
  - exists lo. split; assumption.
  - cbn [v1_state_after spec_state_after].
    assert (Hinc' : increasing_from lo (clock_readings [o] ++ (clock_readings ops ++ rest))).
    { destruct o; exact Hinc. }
    destruct (v1_step_R1 lo st sp o _ HR Hinc') as (lo1 & HR1 & Hinc1 & _).
    exact (IH lo1 _ _ rest HR1 Hinc1).
Qed.

(** THE STRENGTHENED INVARIANT, all histories: after any history of keystore operations with
    increasing clock readings, the current public key of every pair slot is the public half of the
    current private key, and so is every rotated one *)
Theorem v1_pub_matches_priv : forall ops, increasing_from 0 (clock_readings ops) ->
  PubEq (v_fs (v1_state_after NoCache v1_init ops)).
Proof.
  intros ops Hinc. rewrite <- (app_nil_r (clock_readings ops)) in Hinc.
  destruct (v1_after_R1 ops 0 v1_init s_init [] R1_init Hinc) as (lo' & [_ HP] & _). exact HP.
Qed.

(** what the three key getters hand out in a related state *)
Lemma v1_all_labels lo st sp s rest : R1 lo st sp -> increasing_from lo rest ->
  labels_of (snd (v1_step NoCache st (All s))) = s_all true (sp s)
  /\ R1 lo (fst (v1_step NoCache st (All s))) sp.
Proof.
  intros [HI HP] Hinc. rewrite (mk_eta st).
  destruct (all_sim lo (v_fs st) (v_cache st) sp s HI) as [r [Est Hc]]. rewrite Est. cbn [fst snd].
  split; [|split; assumption]. apply (labels_of_canon_all s). exact Hc.
Qed.

Lemma v1_cur_labels lo st sp s : R1 lo st sp ->
  labels_of (snd (v1_step NoCache st (Cur s))) = cur_list (sp s)
  /\ R1 lo (fst (v1_step NoCache st (Cur s))) sp.
Proof.
  intros [HI HP]. rewrite (mk_eta st).
  destruct (cur_nc lo (v_fs st) (v_cache st) sp s HI) as [r [Est Hc]]. rewrite Est. cbn [fst snd].
  split; [|split; assumption]. apply (labels_of_canon_cur s). rewrite Hc. cbn [spec_step snd].
  unfold cur_list. destruct (s_cur (sp s)); reflexivity.
Qed.

(** the current public key of a pair slot is the one of the slot's current version: this is where
    [PubEq] is needed *)
Lemma v1_pub_is_cur lo st sp s : R1 lo st sp -> is_pair (fst s) = true ->
  v1_cur_pub NoCache st s = (st, match s_cur (sp s) with Some k => Ok k | None => Err E_GENERIC end).
Proof.
  intros [HI HP] Hp. unfold v1_cur_pub. rewrite read_key_nc'.
  cbn [file_content]. destruct (HP s Hp) as [Hc _]. rewrite Hc.
  rewrite (inv_abs _ _ _ HI s). unfold v1_abs. cbn [s_cur]. reflexivity.
Qed.

(** * Part D: keystore v1 composed with the envelope model *)
Lemma clock_readings_app a b : clock_readings (a ++ b) = clock_readings a ++ clock_readings b.
Proof.
  induction a as [|o a IH]; [reflexivity|]. cbn [app]. destruct o; cbn [clock_readings]; try exact IH.
  rewrite IH. reflexivity.
Qed.

Section V1Data.
Variable C : crypto.
Hypothesis HC : Correct C.
Variable km : ord -> bytes * bytes.

Notation K1 := (v1_sys NoCache).
Notation dstep := (d_step C km K1).
Notation dafter := (d_state_after C km K1).
Definition d1 : dstate K1 := d_init K1 v1_init.

Lemma spec_after_app1 hide : forall a st b,
  spec_state_after hide st (a ++ b) = spec_state_after hide (spec_state_after hide st a) b.
Proof. induction a as [|o a IH]; intros st b; cbn [app spec_state_after]; [reflexivity | apply IH]. Qed.

Lemma dafter_app1 : forall a st b, dafter st (a ++ b) = dafter (dafter st a) b.
Proof. induction a as [|o a IH]; intros st b; cbn [app d_state_after]; [reflexivity | apply IH]. Qed.

Lemma kops_of_app1 a b : kops_of (a ++ b) = kops_of a ++ kops_of b.
Proof.
  induction a as [|o a IH]; [reflexivity|]. cbn [app].
  destruct o as [o|s|s|s|s t d|s n|s n d]; cbn [kops_of]; try (rewrite IH; reflexivity).
  - destruct (fst s); rewrite IH; reflexivity.
  - destruct (fst s); rewrite IH; reflexivity.
Qed.

Ltac vals_same := exists []; symmetry; apply app_nil_r.
Ltac vals_res :=
  match goal with |- context [match ?r with Ok v => _ | _ => _ end] => destruct r end;
  [eexists; reflexivity | vals_same | vals_same].

(** one step of the composed machine *)
Lemma d1step_sim lo (st : dstate K1) sp o rest :
  R1 lo (d_ks st) sp -> increasing_from lo (clock_readings (kops_of [o]) ++ rest) ->
  exists lo',
    R1 lo' (d_ks (fst (dstep st o))) (spec_state_after true sp (kops_of [o]))
    /\ increasing_from lo' rest
    /\ exists l, d_vals (fst (dstep st o)) = d_vals st ++ l.
Proof.
  intros HR Hinc. destruct o as [o|s|s|s|s t d|s n|s n d]; cbn [d_step kops_of] in *.
  - destruct (v1_step_R1 lo (d_ks st) sp o rest HR Hinc) as (lo' & HR' & Hinc' & _).
    cbn [K_step v1_sys]. destruct (v1_step NoCache (d_ks st) o) as [k1 r]. cbn [fst snd d_ks d_vals] in *.
    cbn [spec_state_after]. exists lo'. split; [exact HR'|]. split; [exact Hinc' | vals_same].
  - exists lo. cbn [fst spec_state_after]. split; [exact HR|]. split; [exact Hinc | vals_same].
  - exists lo. cbn [fst spec_state_after]. split; [exact HR|]. split; [exact Hinc | vals_same].
  - exists lo. cbn [K_pub v1_sys]. unfold v1_cur_pub.
    rewrite read_key_nc'.
    cbn [fst d_ks d_vals spec_state_after]. split; [exact HR|]. split; [exact Hinc | vals_same].
  - unfold protect_with in *. cbn [K_pub K_step v1_sys].
    destruct (fst s) eqn:Ek; cbn [kops_of clock_readings app spec_state_after] in *.
    + exists lo. unfold v1_cur_pub. rewrite read_key_nc'.
      cbn [fst d_ks d_vals]. split; [exact HR|]. split; [exact Hinc | vals_res].
    + destruct (v1_cur_labels lo (d_ks st) sp s HR) as [_ HR'].
      destruct (v1_step NoCache (d_ks st) (Cur s)) as [k1 r]. cbn [fst snd d_ks d_vals spec_step] in *.
      exists lo. split; [exact HR'|]. split; [exact Hinc | vals_res].
    + destruct (v1_cur_labels lo (d_ks st) sp s HR) as [_ HR'].
      destruct (v1_step NoCache (d_ks st) (Cur s)) as [k1 r]. cbn [fst snd d_ks d_vals spec_step] in *.
      exists lo. split; [exact HR'|]. split; [exact Hinc | vals_res].
    + exists lo. cbn [fst d_ks d_vals]. split; [exact HR|]. split; [exact Hinc | vals_same].
    + exists lo. cbn [fst d_ks d_vals]. split; [exact HR|]. split; [exact Hinc | vals_same].
    + exists lo. cbn [fst d_ks d_vals]. split; [exact HR|]. split; [exact Hinc | vals_same].
  - unfold reveal_with in *. cbn [K_step v1_sys].
    destruct (fst s) eqn:Ek; cbn [kops_of clock_readings app spec_state_after fst d_ks d_vals] in *;
      try (exists lo; split; [exact HR|]; split; [exact Hinc | vals_same]).
    + destruct (v1_all_labels lo (d_ks st) sp s rest HR Hinc) as [_ HR'].
      destruct (v1_step NoCache (d_ks st) (All s)) as [k1 r]. cbn [fst snd d_ks d_vals spec_step] in *.
      exists lo. split; [exact HR'|]. split; [exact Hinc | vals_same].
    + destruct (v1_all_labels lo (d_ks st) sp s rest HR Hinc) as [_ HR'].
      destruct (v1_step NoCache (d_ks st) (All s)) as [k1 r]. cbn [fst snd d_ks d_vals spec_step] in *.
      exists lo. split; [exact HR'|]. split; [exact Hinc | vals_same].
  - unfold search_with in *. cbn [K_step v1_sys].
    destruct (v1_cur_labels lo (d_ks st) sp s HR) as [_ HR'].
    destruct (v1_step NoCache (d_ks st) (Cur s)) as [k1 r].
    cbn [fst snd d_ks d_vals spec_state_after spec_step clock_readings app] in *.
    exists lo. split; [exact HR'|]. split; [exact Hinc | vals_same].
Qed.

Lemma d1after_sim : forall ops lo (st : dstate K1) sp rest,
  R1 lo (d_ks st) sp -> increasing_from lo (clock_readings (kops_of ops) ++ rest) ->
  exists lo',
    R1 lo' (d_ks (dafter st ops)) (spec_state_after true sp (kops_of ops))
    /\ increasing_from lo' rest
    /\ exists l, d_vals (dafter st ops) = d_vals st ++ l.
Proof.
  induction ops as [|o ops IH]; intros lo st sp rest HR Hinc.
  - exists lo. cbn [d_state_after kops_of spec_state_after]. split; [exact HR|]. split; [exact Hinc | vals_same].
  - cbn [d_state_after]. change (o :: ops) with ([o] ++ ops) in Hinc |- *.
    rewrite kops_of_app1, clock_readings_app, <- app_assoc in Hinc.
    destruct (d1step_sim lo st sp o _ HR Hinc) as (lo1 & HR1 & Hinc1 & l1 & Hl1).
    destruct (IH lo1 _ _ rest HR1 Hinc1) as (lo2 & HR2 & Hinc2 & l2 & Hl2).
    rewrite kops_of_app1, spec_after_app1. exists lo2.
    split; [exact HR2|]. split; [exact Hinc2|]. exists (l1 ++ l2). rewrite Hl2, Hl1, app_assoc. reflexivity.
Qed.

Lemma R1_0 : R1 0 (d_ks d1) s_init.
Proof. exact R1_init. Qed.

Definition offered1 (st : sstate) (s : slot) : list ord := s_all true (st s).

(** the shape shared by the three data theorems: state after [pre], after the protect step that
    appended [v] (keystore component [kc]), and after [post] *)
Lemma v1_data_frame (pre post : list dop) (s : slot) (tape : list bytes) (x v : bytes) (kc : v1state) lo1 :
  let st1 := dafter d1 pre in
  let ops := pre ++ DProtect s tape x :: post in
  increasing_from lo1 (clock_readings (kops_of post)) ->
  R1 lo1 kc (spec_state_after true s_init (kops_of (pre ++ [DProtect s tape x]))) ->
  dstep st1 (DProtect s tape x) = (Build_dstate K1 kc (d_vals st1 ++ [v]), DB (Ok v)) ->
  exists lo2 st2,
    dafter d1 ops = st2
    /\ R1 lo2 (d_ks st2) (spec_state_after true s_init (kops_of ops))
    /\ nth (length (d_vals st1)) (d_vals st2) [] = v.
Proof.
  intros st1 ops Hinc HR1' Hstep.
  set (st1' := Build_dstate K1 kc (d_vals st1 ++ [v])).
  assert (Est2 : dafter d1 ops = dafter st1' post).
  { unfold ops. rewrite dafter_app1. fold st1. cbn [d_state_after]. rewrite Hstep. reflexivity. }
  rewrite <- (app_nil_r (clock_readings (kops_of post))) in Hinc.
  destruct (d1after_sim post lo1 st1' _ [] HR1' Hinc) as (lo2 & HR2 & _ & l2 & Hl2).
  rewrite <- spec_after_app1, <- kops_of_app1, <- app_assoc in HR2. cbn [app] in HR2. fold ops in HR2.
  exists lo2, (dafter st1' post). split; [exact Est2|]. split; [exact HR2|].
  rewrite Hl2. cbn [d_vals st1']. rewrite <- app_assoc. rewrite app_nth2 by lia.
  rewrite Nat.sub_diag. reflexivity.
Qed.

(** splitting the clock premise of a history [pre ++ P :: post] whose middle step reads no clock *)
Lemma split_clock (pre post : list dop) (p : dop) :
  clock_readings (kops_of [p]) = [] ->
  increasing_from 0 (clock_readings (kops_of (pre ++ p :: post))) ->
  increasing_from 0 (clock_readings (kops_of pre) ++ clock_readings (kops_of post)).
Proof.
  intros Hp H. change (p :: post) with ([p] ++ post) in H.
  rewrite !kops_of_app1, !clock_readings_app, Hp in H. exact H.
Qed.

(** ** AcraStruct under storage key pairs *)
Theorem v1_data_pair (pre post : list dop) (s : slot) (tape : list bytes) (x sd : bytes) (k : ord) :
  fst s = KStoragePair ->
  looks_protected ENVELOPE_ID_ACRASTRUCT x = false -> x <> [] -> (N.of_nat (length x) < MAXMSG)%N ->
  good_as_tape tape -> length sd = SEED_LEN -> km k = keypair C sd ->
  let ops := pre ++ DProtect s tape x :: post in
  increasing_from 0 (clock_readings (kops_of ops)) ->
  s_cur (spec_state_after true s_init (kops_of pre) s) = Some k ->
  let st1 := dafter d1 pre in
  let L := offered1 (spec_state_after true s_init (kops_of ops)) s in
  exists v inner,
    snd (dstep st1 (DProtect s tape x)) = DB (Ok v) /\ v = sc_layout inner ENVELOPE_ID_ACRASTRUCT /\
    let out := snd (dstep (dafter d1 ops) (DReveal s (length (d_vals st1)))) in
    (In k L -> out = DB (Ok x)
               \/ exists k' y, In k' L /\ as_decrypt C inner (sec km k') [] = Ok y /\ y <> x)
    /\ (~ In k L -> (exists e, out = DB (Err e))
                    \/ exists k' y, In k' L /\ k' <> k /\ as_decrypt C inner (sec km k') [] = Ok y).
Proof.
  intros Hkind Hnp Hx Hlen Htape Hsd Hkm ops Hclk Hcur st1 L.
  assert (Hnc : clock_readings (kops_of [DProtect s tape x]) = []) by (cbn [kops_of]; rewrite Hkind; reflexivity).
  pose proof (split_clock pre post _ Hnc Hclk) as Hclk'.
  destruct (d1after_sim pre 0 d1 s_init _ R1_0 Hclk') as (lo1 & HR1 & Hinc1 & _). fold st1 in HR1.
  set (sp1 := spec_state_after true s_init (kops_of pre)) in *.
  assert (Hpair : is_pair (fst s) = true) by (rewrite Hkind; reflexivity).
  pose proof (v1_pub_is_cur lo1 (d_ks st1) sp1 s HR1 Hpair) as Hpub. rewrite Hcur in Hpub.
  destruct (as_protect_reveal C HC (ks_only_pub (Some (pub_of C sd))) tape x sd Hnp Hx Hlen Htape Hsd eq_refl)
    as (v & inner & Henc & Hv & Hdec & Hall).
  assert (Hstep : dstep st1 (DProtect s tape x)
                  = (Build_dstate K1 (d_ks st1) (d_vals st1 ++ [v]), DB (Ok v))).
  { cbn [d_step]. unfold protect_with. rewrite Hkind. cbn [K_pub v1_sys]. rewrite Hpub.
    unfold pubk. rewrite Hkm. change (snd (keypair C sd)) with (pub_of C sd). rewrite Henc. reflexivity. }
  exists v, inner. split; [rewrite Hstep; reflexivity|]. split; [exact Hv|].
  assert (HR1' : R1 lo1 (d_ks st1) (spec_state_after true s_init (kops_of (pre ++ [DProtect s tape x])))).
  { rewrite kops_of_app1, spec_after_app1. cbn [kops_of]. rewrite Hkind. cbn [spec_state_after]. exact HR1. }
  destruct (v1_data_frame pre post s tape x v (d_ks st1) lo1 Hinc1 HR1' Hstep) as (lo2 & st2 & Est2 & HR2 & Hnth).
  fold ops in Est2, HR2. fold st1 in Hnth.
  cbn zeta. rewrite Est2. cbn [d_step]. rewrite Hnth. unfold reveal_with. rewrite Hkind. cbn [K_step v1_sys].
  destruct (v1_all_labels lo2 (d_ks st2) _ s [] HR2 I) as [HL _].
  destruct (v1_step NoCache (d_ks st2) (All s)) as [k2 r]. cbn [snd] in HL |- *.
  change (labels_of r = L) in HL. rewrite HL.
  destruct (Hall (map (sec km) L)) as [Hin Hout].
  change (ks_only_privs (map (sec km) L)) with (rk_privs (map (sec km) L)).
  assert (Esec : sec km k = priv_of C sd) by (unfold sec; rewrite Hkm; reflexivity).
  split.
  - intro HkL. destruct Hin as [H|(p & y & Hp & Hy & Hne)].
    + rewrite <- Esec. apply in_map. exact HkL.
    + left. rewrite H. reflexivity.
    + right. apply in_map_iff in Hp. destruct Hp as (k' & <- & Hk'). exists k', y. repeat split; assumption.
  - intro HnkL. destruct Hout as [[e He]|(p & y & Hp & Hy & _)].
    + left. exists e. rewrite He. reflexivity.
    + right. apply in_map_iff in Hp. destruct Hp as (k' & <- & Hk'). exists k', y.
      split; [exact Hk'|]. split; [intro E; subst k'; exact (HnkL Hk') | exact Hy].
Qed.

(** ** AcraBlock under symmetric storage keys *)
Theorem v1_data_sym (pre post : list dop) (s : slot) (tape : list bytes) (x : bytes) (k : ord) :
  fst s = KStorageSym ->
  looks_protected ENVELOPE_ID_ACRABLOCK x = false -> x <> [] -> (N.of_nat (length x) < MAXMSG)%N ->
  good_ab_tape tape -> sec km k <> [] ->
  let ops := pre ++ DProtect s tape x :: post in
  increasing_from 0 (clock_readings (kops_of ops)) ->
  s_cur (spec_state_after true s_init (kops_of pre) s) = Some k ->
  let st1 := dafter d1 pre in
  let L := offered1 (spec_state_after true s_init (kops_of ops)) s in
  exists v ek ed,
    snd (dstep st1 (DProtect s tape x)) = DB (Ok v)
    /\ v = sc_layout (ab_layout (sec km k) [] ek ed) ENVELOPE_ID_ACRABLOCK /\
    let out := snd (dstep (dafter d1 ops) (DReveal s (length (d_vals st1)))) in
    (In k L -> out = DB (Ok x)
               \/ exists k' dk, In k' L /\ sec km k' <> sec km k
                   /\ bytes_eqb (ab_key_id (sec km k') []) (ab_key_id (sec km k) []) = true
                   /\ cell_decrypt C (sec km k') [] ek = Some dk)
    /\ (~ In k L -> (exists e, out = DB (Err e))
                    \/ exists k' dk, In k' L /\ k' <> k
                   /\ bytes_eqb (ab_key_id (sec km k') []) (ab_key_id (sec km k) []) = true
                   /\ cell_decrypt C (sec km k') [] ek = Some dk).
Proof.
  intros Hkind Hnp Hx Hlen Htape Hkey ops Hclk Hcur st1 L.
  assert (Hnc : clock_readings (kops_of [DProtect s tape x]) = []) by (cbn [kops_of]; rewrite Hkind; reflexivity).
  pose proof (split_clock pre post _ Hnc Hclk) as Hclk'.
  destruct (d1after_sim pre 0 d1 s_init _ R1_0 Hclk') as (lo1 & HR1 & Hinc1 & _). fold st1 in HR1.
  set (sp1 := spec_state_after true s_init (kops_of pre)) in *.
  destruct (v1_cur_labels lo1 (d_ks st1) sp1 s HR1) as [Hcl HRc].
  unfold cur_list in Hcl. rewrite Hcur in Hcl.
  destruct (ab_protect_reveal C HC (ks_only_syms [sec km k]) tape x (sec km k) [] Hnp Hx Hlen Htape Hkey eq_refl)
    as (v & ek & ed & Henc & Hv & Hall).
  destruct (v1_step NoCache (d_ks st1) (Cur s)) as [kc rc] eqn:Estep. cbn [fst snd] in Hcl, HRc.
  assert (Hstep : dstep st1 (DProtect s tape x)
                  = (Build_dstate K1 kc (d_vals st1 ++ [v]), DB (Ok v))).
  { cbn [d_step]. unfold protect_with. rewrite Hkind. cbn [K_step v1_sys]. rewrite Estep, Hcl.
    cbn [map]. rewrite Henc. reflexivity. }
  exists v, ek, ed. split; [rewrite Hstep; reflexivity|]. split; [exact Hv|].
  assert (HR1' : R1 lo1 kc (spec_state_after true s_init (kops_of (pre ++ [DProtect s tape x])))).
  { rewrite kops_of_app1, spec_after_app1. cbn [kops_of]. rewrite Hkind. cbn [spec_state_after spec_step fst]. exact HRc. }
  destruct (v1_data_frame pre post s tape x v kc lo1 Hinc1 HR1' Hstep) as (lo2 & st2 & Est2 & HR2 & Hnth).
  fold ops in Est2, HR2. fold st1 in Hnth.
  cbn zeta. rewrite Est2. cbn [d_step]. rewrite Hnth. unfold reveal_with. rewrite Hkind. cbn [K_step v1_sys].
  destruct (v1_all_labels lo2 (d_ks st2) _ s [] HR2 I) as [HL _].
  destruct (v1_step NoCache (d_ks st2) (All s)) as [k2 r]. cbn [snd] in HL |- *.
  change (labels_of r = L) in HL. rewrite HL.
  destruct (Hall (map (sec km) L)) as [Hin Hout].
  change (ks_only_syms (map (sec km) L)) with (rk_syms (map (sec km) L)).
  split.
  - intro HkL. destruct Hin as [H|(p & dk & Hp & Hne & Hid & Hdk)].
    + apply in_map. exact HkL.
    + left. rewrite H. reflexivity.
    + right. apply in_map_iff in Hp. destruct Hp as (k' & <- & Hk'). exists k', dk. repeat split; assumption.
  - intro HnkL. destruct Hout as [[e He]|(p & dk & Hp & Hid & Hdk)].
    + left. exists e. rewrite He. reflexivity.
    + right. apply in_map_iff in Hp. destruct Hp as (k' & <- & Hk'). exists k', dk.
      split; [exact Hk'|]. split; [intro E; subst k'; exact (HnkL Hk')|]. split; assumption.
Qed.

(** ** blind index under HMAC keys *)
Theorem v1_data_hmac (pre post : list dop) (s : slot) (tape : list bytes) (x x' : bytes) (k : ord) :
  fst s = KHmac ->
  let ops := pre ++ DProtect s tape x :: post in
  increasing_from 0 (clock_readings (kops_of ops)) ->
  s_cur (spec_state_after true s_init (kops_of pre) s) = Some k ->
  let st1 := dafter d1 pre in
  let now := s_cur (spec_state_after true s_init (kops_of ops) s) in
  snd (dstep st1 (DProtect s tape x)) = DB (Ok (generate_hmac (sec km k) x)) /\
  let out := snd (dstep (dafter d1 ops) (DSearch s (length (d_vals st1)) x')) in
  match now with
  | None => out = DB (Ok [x00])
  | Some k' => (hmac_sha256 (sec km k') x' = hmac_sha256 (sec km k) x -> out = DB (Ok [x01]))
               /\ (hmac_sha256 (sec km k') x' <> hmac_sha256 (sec km k) x -> out = DB (Ok [x00]))
  end.
Proof.
  intros Hkind ops Hclk Hcur st1 now.
  assert (Hnc : clock_readings (kops_of [DProtect s tape x]) = []) by (cbn [kops_of]; rewrite Hkind; reflexivity).
  pose proof (split_clock pre post _ Hnc Hclk) as Hclk'.
  destruct (d1after_sim pre 0 d1 s_init _ R1_0 Hclk') as (lo1 & HR1 & Hinc1 & _). fold st1 in HR1.
  set (sp1 := spec_state_after true s_init (kops_of pre)) in *.
  destruct (v1_cur_labels lo1 (d_ks st1) sp1 s HR1) as [Hcl HRc].
  unfold cur_list in Hcl. rewrite Hcur in Hcl.
  destruct (v1_step NoCache (d_ks st1) (Cur s)) as [kc rc] eqn:Estep. cbn [fst snd] in Hcl, HRc.
  set (v := generate_hmac (sec km k) x).
  assert (Hstep : dstep st1 (DProtect s tape x)
                  = (Build_dstate K1 kc (d_vals st1 ++ [v]), DB (Ok v))).
  { cbn [d_step]. unfold protect_with. rewrite Hkind. cbn [K_step v1_sys]. rewrite Estep, Hcl. reflexivity. }
  split; [rewrite Hstep; reflexivity|].
  assert (HR1' : R1 lo1 kc (spec_state_after true s_init (kops_of (pre ++ [DProtect s tape x])))).
  { rewrite kops_of_app1, spec_after_app1. cbn [kops_of]. rewrite Hkind. cbn [spec_state_after spec_step fst]. exact HRc. }
  destruct (v1_data_frame pre post s tape x v kc lo1 Hinc1 HR1' Hstep) as (lo2 & st2 & Est2 & HR2 & Hnth).
  fold ops in Est2, HR2. fold st1 in Hnth.
  cbn zeta. rewrite Est2. cbn [d_step]. rewrite Hnth. unfold search_with. cbn [K_step v1_sys].
  destruct (v1_cur_labels lo2 (d_ks st2) _ s HR2) as [HL _].
  destruct (v1_step NoCache (d_ks st2) (Cur s)) as [k2 r]. cbn [snd] in HL |- *.
  change (labels_of r = match now with Some c => [c] | None => [] end) in HL. rewrite HL.
  destruct now as [k'|].
  - destruct (hmac_search_uses_given_key (sec km k) (sec km k') x x') as (h & Hex & Hiff).
    fold v in Hex. rewrite Hex.
    change (ks_only_hmac (Some (sec km k'))) with (rk_hmac (Some (sec km k'))).
    split; intro H.
    + apply Hiff in H. rewrite H. reflexivity.
    + destruct (hash_is_equal h x' (rk_hmac (Some (sec km k')))) eqn:E; [|reflexivity].
      exfalso. apply H. apply Hiff. reflexivity.
  - destruct (hmac_search_uses_given_key (sec km k) [] x x') as (h & Hex & _).
    fold v in Hex. rewrite Hex.
    change (ks_only_hmac None) with (rk_hmac None). rewrite hmac_search_no_key. reflexivity.
Qed.

End V1Data.

(** the side condition that excludes the recorded class v1-all-keys-fail-without-current: while the
    slot HAS a current key, keystore v1 offers what the property asks for (hide = false) *)
Lemma offered1_with_current (st : sstate) (s : slot) c :
  s_cur (st s) = Some c -> offered1 st s = offered st s.
Proof. intro H. unfold offered1, offered, s_all. rewrite H. reflexivity. Qed.

Lemma offered1_without_current (st : sstate) (s : slot) : s_cur (st s) = None -> offered1 st s = [].
Proof. intro H. unfold offered1, s_all. rewrite H. reflexivity. Qed.

(** the two specification machines (hide = true / false) go through the same states *)
Lemma spec_state_hide_irrelevant : forall ops st, spec_state_after true st ops = spec_state_after false st ops.
Proof.
  induction ops as [|o ops IH]; intro st; cbn [spec_state_after]; [reflexivity|].
  rewrite IH. destruct o; reflexivity.
Qed.

(** * Part L: listing rows of keystore v1 *)
(** the listing of the specification for keystore v1's layout: one row per key FILE *)
Definition zeros {A} (l : list A) : list N := map (fun _ => 0) l.
Definition spec1_list_cur (k : kind) (e : sslot) : list N :=
  match s_cur e with
  | Some _ => row Priv 1 ST_CURRENT 0 ++ (if is_pair k then row Pub 1 ST_CURRENT 0 else [])
  | None => []
  end.
Definition spec1_list_rot (k : kind) (e : sslot) : list N :=
  rot_rows Priv 2 (zeros (s_rot e)) ++ (if is_pair k then rot_rows Pub 2 (zeros (s_rot e)) else []).

(** rows with the creation time erased *)
Fixpoint untimed (l : list N) : list N :=
  match l with
  | p :: i :: st :: _ :: r => p :: i :: st :: 0 :: untimed r
  | _ => l
  end.
(** the creation times of the rows of one part, in listing order *)
Fixpoint times_of (p : part) (l : list N) : list N :=
  match l with
  | q :: _ :: _ :: t :: r => if q =? part_code p then t :: times_of p r else times_of p r
  | _ => []
  end.

Lemma untimed_rot_rows p : forall ts i l,
  untimed (rot_rows p i ts ++ l) = rot_rows p i (zeros ts) ++ untimed l.
Proof.
  induction ts as [|t r IH]; intros i l; [reflexivity|].
  cbn [rot_rows row app untimed zeros map]. rewrite IH. reflexivity.
Qed.

Lemma times_rot_rows_same p : forall ts i l, times_of p (rot_rows p i ts ++ l) = ts ++ times_of p l.
Proof.
  induction ts as [|t r IH]; intros i l; [reflexivity|].
  cbn [rot_rows row app times_of]. rewrite N.eqb_refl, IH. reflexivity.
Qed.

Lemma times_rot_rows_other p q : part_code q <> part_code p ->
  forall ts i l, times_of p (rot_rows q i ts ++ l) = times_of p l.
Proof.
  intros Hne. induction ts as [|t r IH]; intros i l; [reflexivity|].
  cbn [rot_rows row app times_of]. apply N.eqb_neq in Hne. rewrite Hne, IH. reflexivity.
Qed.

Lemma zeros_length {A B} (l1 : list A) (l2 : list B) : length l1 = length l2 -> zeros l1 = zeros l2.
Proof. apply map_const_length. Qed.

(** strictly ascending: index 2 is the oldest rotated key, then chronological *)
Fixpoint ascending (l : list N) : Prop :=
  match l with [] => True | x :: r => Forall (fun y => x < y) r /\ ascending r end.

Lemma asc_ascending : forall l, asc l -> ascending (map fst l).
Proof.
  induction l as [|e r IH]; intro Ha; [exact I|].
  cbn [asc] in Ha. destruct Ha as [Hf Ha]. cbn [map ascending]. split; [|apply IH; exact Ha].
  apply Forall_map. exact Hf.
Qed.

Theorem v1_list_cur_is_spec lo st sp s : R1 lo st sp -> v1_list_cur st s = spec1_list_cur (fst s) (sp s).
Proof.
  intros [HI HP]. unfold v1_list_cur, spec1_list_cur, v1_file_cur, v1_has_pub.
  rewrite (inv_abs _ _ _ HI s). unfold v1_abs. cbn [s_cur snd].
  destruct (is_pair (fst s)) eqn:Ep.
  - destruct (HP s Ep) as [Hc _]. rewrite Hc. destruct (f_cur (v_fs st (s, Priv))); reflexivity.
  - destruct (f_cur (v_fs st (s, Priv))); [|reflexivity]. reflexivity.
Qed.

Theorem v1_list_rot_is_spec lo st sp s : R1 lo st sp ->
  untimed (v1_list_rot st s) = spec1_list_rot (fst s) (sp s)
  /\ ascending (times_of Priv (v1_list_rot st s))
  /\ ascending (times_of Pub (v1_list_rot st s))
  /\ length (times_of Priv (v1_list_rot st s)) = length (s_rot (sp s)).
Proof.
  intros [HI HP]. unfold v1_list_rot, spec1_list_rot, v1_file_rot, v1_has_pub. cbn [snd].
  assert (Hlen : length (map fst (f_old (v_fs st (s, Priv)))) = length (s_rot (sp s))).
  { rewrite (abs_rot_length _ _ _ s HI), map_length. reflexivity. }
  assert (Ho : times_of Priv (if is_pair (fst s) then rot_rows Pub 2 (map fst (f_old (v_fs st (s, Pub)))) else []) = []).
  { destruct (is_pair (fst s)); [|reflexivity].
    rewrite <- (app_nil_r (rot_rows Pub 2 _)). rewrite times_rot_rows_other by (cbn; discriminate). reflexivity. }
  split; [|split; [|split]].
  - rewrite untimed_rot_rows. rewrite (zeros_length _ (s_rot (sp s)) Hlen). f_equal.
    destruct (is_pair (fst s)) eqn:Ep; [|reflexivity].
    rewrite <- (app_nil_r (rot_rows Pub 2 (map fst _))), untimed_rot_rows. cbn [untimed]. rewrite app_nil_r.
    f_equal. apply zeros_length. rewrite <- Hlen, !map_length.
    destruct (inv_pair _ _ _ HI s Ep) as [_ Hl]. exact Hl.
  - rewrite times_rot_rows_same, Ho, app_nil_r. apply asc_ascending. apply (inv_hist _ _ _ HI).
  - rewrite times_rot_rows_other by (cbn; discriminate).
    destruct (is_pair (fst s)); [|exact I].
    rewrite <- (app_nil_r (rot_rows Pub 2 _)), times_rot_rows_same. cbn [times_of]. rewrite app_nil_r.
    apply asc_ascending. apply (inv_hist _ _ _ HI).
  - rewrite times_rot_rows_same, Ho, app_nil_r. exact Hlen.
Qed.

(** * Part M: keystore v2 ListKeys succeeds on every related state *)
Theorem v2_list_cur_is_spec st sp s : R st sp -> v2_list_cur st s = Ok (spec_list_cur (sp s)).
Proof.
  intros HR. unfold v2_list_cur, spec_list_cur. rewrite (r_abs _ _ HR s). unfold v2_abs.
  destruct (st s) as [r|] eqn:Es; [|reflexivity].
  pose proof (r_ok _ _ HR s r Es) as Hok. unfold abs_ring.
  destruct (rev (r_keys r)) as [|kl older] eqn:Erev.
  - destruct (ring_empty r Hok Erev) as [_ Hc]. rewrite Hc, Z.eqb_refl. reflexivity.
  - destruct (ring_last r kl older Hok Erev) as (Hk & Hseq & Hc & _ & Hin).
    destruct Hok as [Hs _].
    assert (Hne : (r_cur r =? V2_NOKEY)%Z = false).
    { apply Z.eqb_neq. rewrite Hc. unfold V2_NOKEY. rewrite Hk, app_length. cbn [length]. lia. }
    rewrite Hne. rewrite Hc, <- Hseq. rewrite (lookup_in _ _ _ Hs Hin). cbn [s_cur].
    destruct (destroyed kl); reflexivity.
Qed.

(** * the relations hold along every history (so the listing theorems speak about every reachable state) *)
Lemma v2_R_after_from : forall ops st sp, R st sp ->
  R (v2_state_after_from st ops) (spec_state_after false sp ops).
Proof.
  induction ops as [|o ops IH]; intros st sp HR; [exact HR|].
  cbn [v2_state_after_from spec_state_after]. apply IH. apply (v2_step_sim st sp o HR).
Qed.

Theorem v2_list_cur_after ops s :
  v2_list_cur (v2_state_after ops) s = Ok (spec_list_cur (spec_state_after false s_init ops s)).
Proof. apply v2_list_cur_is_spec. apply v2_R_after_from. exact R_init. Qed.

(** keystore v1, EVERY cache mode: the listings read the file tree only, and the file tree does not
    depend on the cache (Proofs/KeystoreV1Cache.v) *)
Theorem v1_R1_after_any_cache m ops : increasing_from 0 (clock_readings ops) ->
  exists lo, R1 lo (v1_state_after m v1_init ops) (spec_state_after true s_init ops).
Proof.
  intro Hinc. rewrite <- (app_nil_r (clock_readings ops)) in Hinc.
  destruct (v1_after_R1 ops 0 v1_init s_init [] R1_init Hinc) as (lo' & HR & _).
  exists lo'. unfold R1 in *.
  rewrite Proofs.KeystoreV1Cache.v1_fs_cache_independent.
  rewrite <- (Proofs.KeystoreV1Cache.v1_fs_cache_independent NoCache). exact HR.
Qed.

Theorem v1_listings_after_any_cache m ops s : increasing_from 0 (clock_readings ops) ->
  let st := v1_state_after m v1_init ops in
  let e := spec_state_after true s_init ops s in
  v1_list_cur st s = spec1_list_cur (fst s) e
  /\ untimed (v1_list_rot st s) = spec1_list_rot (fst s) e.
Proof.
  intros Hinc st e. destruct (v1_R1_after_any_cache m ops Hinc) as [lo HR]. split.
  - exact (v1_list_cur_is_spec lo _ _ s HR).
  - exact (proj1 (v1_list_rot_is_spec lo _ _ s HR)).
Qed.
