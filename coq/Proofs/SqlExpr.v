(** C13: print -> parse round trip of the expression fragment (unbounded depth). *)
From Acra Require Import Lib.Bytes Gen.Prec Model.SqlExpr.
From Coq Require Import Arith Lia.

(* ---------- the facts about the yacc table the proof needs (checked on the generated table) ---------- *)
Lemma prec_sane_true : prec_sane = true. Proof. vm_compute. reflexivity. Qed.

Lemma prec_facts :
  L_OR < L_AND /\ S L_AND <= L_NOT /\ L_NOT < L_BETWEEN /\ L_BETWEEN <= L_CMP /\ L_CMP < L_UNARY /\ L_UNARY < L_ATOM /\ 0 < L_OR.
Proof. vm_compute. repeat split; lia. Qed.

Lemma binprec_bounds o : L_VAL <= binprec o /\ binprec o < L_UNARY.
Proof. destruct o; vm_compute; split; lia. Qed.

Ltac precs :=
  pose proof prec_facts;
  repeat match goal with
         | o : binop |- _ =>
             lazymatch goal with
             | _ : L_VAL <= binprec o /\ _ |- _ => fail
             | _ => pose proof (binprec_bounds o)
             end
         end;
  unfold L_TOP, L_VAL, L_ESC in *; lia.

(* ---------- induction principle for the nested AST ---------- *)
Section ExprInd.
  Variable P : expr -> Prop.
  Hypothesis HAnd : forall l r, P l -> P r -> P (EAnd l r).
  Hypothesis HOr : forall l r, P l -> P r -> P (EOr l r).
  Hypothesis HNot : forall x, P x -> P (ENot x).
  Hypothesis HCmp : forall o l r, P l -> P r -> P (ECmp o l r).
  Hypothesis HCmpEsc : forall o l r c, P l -> P r -> P c -> P (ECmpEsc o l r c).
  Hypothesis HRange : forall n l a b, P l -> P a -> P b -> P (ERange n l a b).
  Hypothesis HIs : forall s x, P x -> P (EIs s x).
  Hypothesis HBin : forall o l r, P l -> P r -> P (EBin o l r).
  Hypothesis HUn : forall o x, P x -> P (EUn o x).
  Hypothesis HLit : forall t v, P (ELit t v).
  Hypothesis HNull : P ENull.
  Hypothesis HBool : forall b, P (EBool b).
  Hypothesis HCol : forall q n, P (ECol q n).
  Hypothesis HParen : forall x, P x -> P (EParen x).
  Hypothesis HTuple : forall xs, Forall P xs -> P (ETuple xs).
  Hypothesis HFunc : forall n xs, Forall P xs -> P (EFunc n xs).

  Fixpoint expr_ind' (e : expr) : P e :=
    match e with
    | EAnd l r => HAnd l r (expr_ind' l) (expr_ind' r)
    | EOr l r => HOr l r (expr_ind' l) (expr_ind' r)
    | ENot x => HNot x (expr_ind' x)
    | ECmp o l r => HCmp o l r (expr_ind' l) (expr_ind' r)
    | ECmpEsc o l r c => HCmpEsc o l r c (expr_ind' l) (expr_ind' r) (expr_ind' c)
    | ERange n l a b => HRange n l a b (expr_ind' l) (expr_ind' a) (expr_ind' b)
    | EIs s x => HIs s x (expr_ind' x)
    | EBin o l r => HBin o l r (expr_ind' l) (expr_ind' r)
    | EUn o x => HUn o x (expr_ind' x)
    | ELit t v => HLit t v
    | ENull => HNull
    | EBool b => HBool b
    | ECol q n => HCol q n
    | EParen x => HParen x (expr_ind' x)
    | ETuple xs =>
        HTuple xs ((fix go (l : list expr) : Forall P l :=
                      match l with [] => Forall_nil P | x :: l' => Forall_cons x (expr_ind' x) (go l') end) xs)
    | EFunc n xs =>
        HFunc n xs ((fix go (l : list expr) : Forall P l :=
                       match l with [] => Forall_nil P | x :: l' => Forall_cons x (expr_ind' x) (go l') end) xs)
    end.
End ExprInd.

(* ---------- printer facts ---------- *)
Lemma print_tuple xs : print (ETuple xs) = TK KLParen :: print_list xs ++ [TK KRParen].
Proof.
  reflexivity.
Qed.
Lemma print_func n xs : print (EFunc n xs) = TId n :: TK KLParen :: print_list xs ++ [TK KRParen].
Proof.
  reflexivity.
Qed.

Definition good_head (ts : list tok) : Prop :=
  match ts with
  | [] => False
  | TK KRParen :: _ | TK KDot :: _ | TK KComma :: _ => False
  | _ => True
  end.
Lemma good_head_app a b : good_head a -> good_head (a ++ b).
Proof. destruct a as [|t a]; [intros []|]. cbn [app]. exact (fun h => h). Qed.

Lemma print_good_head e : good_head (print e).
Proof.
  induction e using expr_ind'; cbn [print]; try (apply good_head_app; assumption); try exact I.
  - destruct o; exact I.
  - unfold lit_toks. destruct (is_int t); [|exact I]. destruct v as [|c v]; [exact I|].
    destruct (byte_eqb c x_minus); exact I.
  - destruct b; exact I.
  - destruct q; exact I.
Qed.

(* ---------- computation lemmas for the parser (one unfolding step each) ---------- *)
Definition is_not_head (ts : list tok) : bool := match ts with TK KNot :: _ => true | _ => false end.

Lemma pexpr_not f min ts1 :
  pexpr (S f) min (TK KNot :: ts1) =
  if min <=? L_NOT then
    match pexpr f L_NOT ts1 with Some (x, ts2) => ploop f min (ENot x) ts2 | None => None end
  else None.
Proof. reflexivity. Qed.

Lemma pexpr_other f min ts :
  is_not_head ts = false ->
  pexpr (S f) min ts = match punary f ts with Some (lhs, ts1) => ploop f min lhs ts1 | None => None end.
Proof.
  intros H. destruct ts as [|[t v|n|k] ts]; try reflexivity.
  destruct k; try reflexivity. discriminate H.
Qed.

Definition stopsb (b : nat) (rest : list tok) : bool :=
  match rest with
  | [] => true
  | TK KDot :: _ | TK KLParen :: _ => false
  | _ => match tokprec rest with Some p => p <? b | None => true end
  end.

Lemma ploop_stop f min lhs rest : stopsb min rest = true -> ploop (S f) min lhs rest = Some (lhs, rest).
Proof.
  intros H. cbn [ploop]. destruct rest as [|t rest]; [reflexivity|].
  unfold stopsb in H.
  destruct (tokprec (t :: rest)) as [p|] eqn:E.
  - assert (p <? min = true) as ->; [|reflexivity].
    destruct t as [? ?|?|k]; try exact H. destruct k; try exact H; discriminate H.
  - reflexivity.
Qed.

Lemma tokprec_lt_top ts p : tokprec ts = Some p -> p < L_TOP.
Proof.
  destruct ts as [|[? ?|?|k] ts]; try discriminate. cbn [tokprec].
  destruct (binop_of k) as [o|] eqn:E.
  - intros H. inversion H. precs.
  - destruct k; try discriminate; intros H; inversion H; try precs.
    destruct ts as [|[? ?|?|[]] ?]; inversion H1; precs.
Qed.

Lemma stops_mono b b' rest : b <= b' -> stopsb b rest = true -> stopsb b' rest = true.
Proof.
  intros Hle H. unfold stopsb in *. destruct rest as [|t rest]; [reflexivity|].
  destruct t as [? ?|?|k].
  - destruct (tokprec _); [|reflexivity]. apply Nat.ltb_lt in H. apply Nat.ltb_lt. lia.
  - destruct (tokprec _); [|reflexivity]. apply Nat.ltb_lt in H. apply Nat.ltb_lt. lia.
  - destruct k; try discriminate H;
      (destruct (tokprec _); [|reflexivity]; apply Nat.ltb_lt in H; apply Nat.ltb_lt; lia).
Qed.

Lemma stops_rparen b ts : stopsb b (TK KRParen :: ts) = true. Proof. reflexivity. Qed.
Lemma stops_comma b ts : stopsb b (TK KComma :: ts) = true. Proof. reflexivity. Qed.
Lemma stops_nil b : stopsb b [] = true. Proof. reflexivity. Qed.

Lemma stops_bin b o ts : binprec o < b -> stopsb b (TK (bin_tok o) :: ts) = true.
Proof. intros H. destruct o; match goal with H : binprec ?o < b |- _ => change (binprec o <? b = true) end; apply Nat.ltb_lt; exact H. Qed.
Lemma stops_and b ts : L_AND < b -> stopsb b (TK KAnd :: ts) = true.
Proof. intros H. change (L_AND <? b = true). apply Nat.ltb_lt; exact H. Qed.
Lemma stops_or b ts : L_OR < b -> stopsb b (TK KOr :: ts) = true.
Proof. intros H. change (L_OR <? b = true). apply Nat.ltb_lt; exact H. Qed.
Lemma stops_escape b ts : L_ESC < b -> stopsb b (TK KEscape :: ts) = true.
Proof. intros H. change (L_ESC <? b = true). apply Nat.ltb_lt; exact H. Qed.
Lemma stops_is b s ts : L_CMP < b -> stopsb b (is_toks s ++ ts) = true.
Proof. intros H. destruct s; change (L_CMP <? b = true); apply Nat.ltb_lt; exact H. Qed.
Lemma stops_cmp b o ts : L_CMP < b -> stopsb b (cmp_toks o ++ ts) = true.
Proof. intros H. destruct o; change (L_CMP <? b = true); apply Nat.ltb_lt; exact H. Qed.
Definition between_toks (neg : bool) : list tok := if neg then [TK KNot; TK KBetween] else [TK KBetween].
Lemma stops_between b n ts : L_BETWEEN < b -> stopsb b (between_toks n ++ ts) = true.
Proof. intros H. destruct n; change (L_BETWEEN <? b = true); apply Nat.ltb_lt; exact H. Qed.

Lemma no_escape_head {A} rest (X : list tok -> A) (Y : A) :
  stopsb L_ESC rest = true ->
  match rest with TK KEscape :: ts2 => X ts2 | _ => Y end = Y.
Proof.
  intros H. destruct rest as [|[? ?|?|k] ?]; try reflexivity. destruct k; try reflexivity.
  change (L_ESC <? L_ESC = true) in H. apply Nat.ltb_lt in H. lia.
Qed.

Lemma ploop_bin f min lhs o ts1 :
  ploop (S f) min lhs (TK (bin_tok o) :: ts1) =
  if binprec o <? min then Some (lhs, TK (bin_tok o) :: ts1)
  else if is_v lhs then
         match pexpr f (S (binprec o)) ts1 with
         | Some (r, ts2) => ploop f min (EBin o lhs r) ts2
         | None => None
         end
       else None.
Proof. destruct o; reflexivity. Qed.

Lemma ploop_and f min lhs ts1 :
  ploop (S f) min lhs (TK KAnd :: ts1) =
  if L_AND <? min then Some (lhs, TK KAnd :: ts1)
  else match pexpr f (S L_AND) ts1 with
       | Some (r, ts2) => ploop f min (EAnd lhs r) ts2
       | None => None
       end.
Proof. reflexivity. Qed.

Lemma ploop_or f min lhs ts1 :
  ploop (S f) min lhs (TK KOr :: ts1) =
  if L_OR <? min then Some (lhs, TK KOr :: ts1)
  else match pexpr f (S L_OR) ts1 with
       | Some (r, ts2) => ploop f min (EOr lhs r) ts2
       | None => None
       end.
Proof. reflexivity. Qed.

Lemma ploop_is f min lhs s ts1 :
  ploop (S f) min lhs (is_toks s ++ ts1) =
  if L_CMP <? min then Some (lhs, is_toks s ++ ts1) else ploop f min (EIs s lhs) ts1.
Proof. destruct s; reflexivity. Qed.

Definition cmp_neg (o : cmpop) : bool := match o with CNotIn | CNotLike | CNotRegexp => true | _ => false end.
Definition cmp_kw (o : cmpop) : kw :=
  match o with
  | CEq => KEq | CLt => KLt | CGt => KGt | CLe => KLe | CGe => KGe | CNe => KNe | CNse => KNse
  | CIn | CNotIn => KIn | CLike | CNotLike => KLike | CRegexp | CNotRegexp => KRegexp
  end.

Lemma ploop_cmp f min lhs o ts1 :
  ploop (S f) min lhs (cmp_toks o ++ ts1) =
  if L_CMP <? min then Some (lhs, cmp_toks o ++ ts1)
  else if is_v lhs then pcond f min lhs (cmp_neg o) (cmp_kw o) ts1 else None.
Proof. destruct o; reflexivity. Qed.

Lemma ploop_between f min lhs n ts1 :
  ploop (S f) min lhs (between_toks n ++ ts1) =
  if L_BETWEEN <? min then Some (lhs, between_toks n ++ ts1)
  else if is_v lhs then pcond f min lhs n KBetween ts1 else None.
Proof. destruct n; reflexivity. Qed.

Lemma pcond_simple f min lhs o ts :
  is_in o = false -> is_like o = false ->
  pcond (S f) min lhs (cmp_neg o) (cmp_kw o) ts =
  match pexpr f L_VAL ts with
  | Some (r, ts1) => ploop f min (ECmp o lhs r) ts1
  | None => None
  end.
Proof. destruct o; intros H1 H2; try discriminate; reflexivity. Qed.

Lemma pcond_like f min lhs o ts :
  is_like o = true ->
  pcond (S f) min lhs (cmp_neg o) (cmp_kw o) ts =
  match pexpr f L_VAL ts with
  | Some (r, ts1) =>
      match ts1 with
      | TK KEscape :: ts2 =>
          match pexpr f L_VAL ts2 with
          | Some (esc, ts3) => ploop f min (ECmpEsc o lhs r esc) ts3
          | None => None
          end
      | _ => ploop f min (ECmp o lhs r) ts1
      end
  | None => None
  end.
Proof. destruct o; intros H; try discriminate; reflexivity. Qed.

Lemma pcond_in f min lhs o ts1 :
  is_in o = true ->
  pcond (S f) min lhs (cmp_neg o) (cmp_kw o) (TK KLParen :: ts1) =
  match pargs f ts1 with
  | Some (xs, ts2) => ploop f min (ECmp o lhs (ETuple xs)) ts2
  | None => None
  end.
Proof. destruct o; intros H; try discriminate; reflexivity. Qed.

Lemma pcond_between f min lhs n ts :
  pcond (S f) min lhs n KBetween ts =
  match pexpr f L_VAL ts with
  | Some (a, ts1) =>
      match ts1 with
      | TK KAnd :: ts2 =>
          match pexpr f L_VAL ts2 with
          | Some (b, ts3) => ploop f min (ERange n lhs a b) ts3
          | None => None
          end
      | _ => None
      end
  | None => None
  end.
Proof. reflexivity. Qed.

Lemma pargs_S f ts :
  pargs (S f) ts =
  match pexpr f 0 ts with
  | Some (x, ts1) =>
      match ts1 with
      | TK KComma :: ts2 =>
          match pargs f ts2 with Some (xs, ts3) => Some (x :: xs, ts3) | None => None end
      | TK KRParen :: ts2 => Some ([x], ts2)
      | _ => None
      end
  | None => None
  end.
Proof. reflexivity. Qed.

Definition un_result (o : unop) (x : expr) (ts : list tok) : PR :=
  match o with
  | UMinus => match fold_minus x with Some y => Some (y, ts) | None => None end
  | UPlus => Some (fold_plus x, ts)
  | _ => Some (EUn o x, ts)
  end.
Lemma punary_un f o ts :
  punary (S f) (TK (un_tok o) :: ts) =
  match punary f ts with Some (x, ts2) => un_result o x ts2 | None => None end.
Proof. destruct o; cbn [punary un_tok]; destruct (punary f ts) as [[x ts2]|]; reflexivity. Qed.

Lemma punary_lit f t v ts : punary (S f) (TLit t v :: ts) = Some (ELit t v, ts).
Proof. reflexivity. Qed.
Lemma punary_null f ts : punary (S f) (TK KNull :: ts) = Some (ENull, ts).
Proof. reflexivity. Qed.
Lemma punary_bool f (b : bool) ts : punary (S f) (TK (if b then KTrue else KFalse) :: ts) = Some (EBool b, ts).
Proof. destruct b; reflexivity. Qed.
Lemma punary_paren f ts :
  punary (S f) (TK KLParen :: ts) =
  match pargs f ts with
  | Some ([x], ts2) => Some (EParen x, ts2)
  | Some (xs, ts2) => Some (ETuple xs, ts2)
  | None => None
  end.
Proof. reflexivity. Qed.
Lemma punary_id f n ts1 :
  punary (S f) (TId n :: ts1) =
  match pcol [] n ts1 with
  | Some (q, n', ts2) =>
      match ts2 with
      | TK KLParen :: ts3 =>
          match q with
          | [] =>
              match ts3 with
              | TK KRParen :: ts4 => Some (EFunc n' [], ts4)
              | _ => match pargs f ts3 with
                     | Some (xs, ts4) => Some (EFunc n' xs, ts4)
                     | None => None
                     end
              end
          | _ => None
          end
      | _ => Some (ECol q n', ts2)
      end
  | None => None
  end.
Proof. reflexivity. Qed.

(* ---------- fuel accounting ---------- *)
Fixpoint cost (e : expr) : nat :=
  match e with
  | EAnd l r | EOr l r | ECmp _ l r | EBin _ l r => 6 + cost l + cost r
  | ENot x | EIs _ x | EUn _ x | EParen x => 6 + cost x
  | ECmpEsc _ l r c | ERange _ l r c => 6 + cost l + cost r + cost c
  | ETuple xs | EFunc _ xs =>
      6 + (fix cl (l : list expr) : nat := match l with [] => 0 | x :: l' => 3 + cost x + cl l' end) xs
  | _ => 6
  end.
Fixpoint costl (l : list expr) : nat := match l with [] => 0 | x :: l' => 3 + cost x + costl l' end.
Lemma cost_tuple xs : cost (ETuple xs) = 6 + costl xs. Proof. reflexivity. Qed.
Lemma cost_func n xs : cost (EFunc n xs) = 6 + costl xs. Proof. reflexivity. Qed.
Lemma cost_pos e : 6 <= cost e. Proof. destruct e; cbn [cost]; lia. Qed.

(* ---------- statements proved together by structural induction ---------- *)
Definition Cst (e : expr) : Prop :=
  wf e = true -> forall min rest R a,
    min <= level e -> stopsb (rbound e) rest = true ->
    (forall f, a <= f -> ploop f min e rest = R) ->
    forall f, a + cost e <= f -> pexpr f min (print e ++ rest) = R.

Definition Ust (e : expr) : Prop :=
  wf e = true -> L_UNARY <= level e -> forall rest, stopsb L_TOP rest = true ->
  forall f, cost e <= S f -> punary f (print e ++ rest) = Some (e, rest).

Definition Tst (e : expr) : Prop :=
  match e with
  | ETuple xs =>
      forallb wf xs = true -> xs <> [] -> forall rest f, costl xs <= f ->
      pargs f (print_list xs ++ TK KRParen :: rest) = Some (xs, rest)
  | _ => True
  end.

Lemma level_lt_rbound e : level e < rbound e.
Proof. destruct e; cbn [level rbound]; precs. Qed.

Lemma rbound_above_cmp x : L_BETWEEN <= level x -> L_CMP < rbound x.
Proof. destruct x; cbn [level rbound]; intros H; precs. Qed.

Lemma rbound_unary e : L_UNARY <= level e -> rbound e = L_TOP.
Proof. destruct e; cbn [level rbound]; intros H; try reflexivity; precs. Qed.

Lemma unary_head e rest : L_UNARY <= level e -> is_not_head (print e ++ rest) = false.
Proof.
  destruct e; cbn [level]; intros H; try (exfalso; precs); try reflexivity.
  - destruct op; reflexivity.
  - cbn [print]. unfold lit_toks. destruct (is_int t); [|reflexivity].
    destruct v as [|c v]; [reflexivity|]. destruct (byte_eqb c x_minus); reflexivity.
  - destruct b; reflexivity.
  - destruct q; reflexivity.
Qed.

Lemma C_of_U e : L_UNARY <= level e -> Ust e -> Cst e.
Proof.
  intros Hl HU Hwf min rest R a Hmin Hst Hk f Hf.
  rewrite (rbound_unary e Hl) in Hst. pose proof (cost_pos e) as Hc.
  destruct f as [|f]; [lia|].
  rewrite pexpr_other by (apply unary_head; exact Hl).
  rewrite (HU Hwf Hl rest Hst f) by lia.
  apply Hk. lia.
Qed.

Lemma tokprec_ne_not ts p : tokprec ts = Some p -> p <> L_NOT.
Proof.
  destruct ts as [|[? ?|?|k] ts]; try discriminate. cbn [tokprec].
  destruct (binop_of k) as [o|] eqn:E.
  - intros H. inversion H. precs.
  - destruct k; try discriminate; intros H; inversion H; try precs.
    destruct ts as [|[? ?|?|[]] ?]; inversion H1; precs.
Qed.

Lemma stops_not_level rest : stopsb (S L_NOT) rest = true -> stopsb L_NOT rest = true.
Proof.
  intros H. unfold stopsb in *. destruct rest as [|t rest]; [reflexivity|].
  destruct (tokprec (t :: rest)) as [p|] eqn:E; [|exact H].
  pose proof (tokprec_ne_not _ _ E).
  destruct t as [? ?|?|k]; [| |destruct k; try discriminate H];
    apply Nat.ltb_lt in H; apply Nat.ltb_lt; lia.
Qed.

Lemma args_ok xs :
  Forall Cst xs -> forallb wf xs = true -> xs <> [] -> forall rest f, costl xs <= f ->
  pargs f (print_list xs ++ TK KRParen :: rest) = Some (xs, rest).
Proof.
  induction xs as [|x xs IH]; intros HF Hwf Hne rest f Hf; [congruence|].
  inversion HF as [|? ? HCx HFxs]; subst. cbn [forallb] in Hwf. apply andb_prop in Hwf as [Hwx Hwxs].
  cbn [costl] in Hf. destruct f as [|f]; [lia|]. rewrite pargs_S.
  destruct xs as [|y l].
  - cbn [print_list].
    rewrite (HCx Hwx 0 (TK KRParen :: rest) (Some (x, TK KRParen :: rest)) 1); [reflexivity|lia|apply stops_rparen| |lia].
    intros f0 Hf0. destruct f0; [lia|]. apply ploop_stop. apply stops_rparen.
  - change (print_list (x :: y :: l)) with (print x ++ TK KComma :: print_list (y :: l)).
    rewrite <- app_assoc. cbn [app].
    rewrite (HCx Hwx 0 (TK KComma :: print_list (y :: l) ++ TK KRParen :: rest)
               (Some (x, TK KComma :: print_list (y :: l) ++ TK KRParen :: rest)) 1);
      [|lia|apply stops_comma| |cbn [costl] in *; lia].
    + rewrite (IH HFxs Hwxs ltac:(discriminate) rest f) by lia. reflexivity.
    + intros f0 Hf0. destruct f0; [lia|]. apply ploop_stop. apply stops_comma.
Qed.

Lemma fold_minus_non_int x : is_intlit x = false -> fold_minus x = Some (EUn UMinus x).
Proof. destruct x; try reflexivity. cbn [is_intlit]. intros H. unfold fold_minus. rewrite H. reflexivity. Qed.

(* column names *)
Definition col_first (q : list bytes) (n : bytes) : bytes := match q with [] => n | a :: _ => a end.
Fixpoint col_tail (q : list bytes) (n : bytes) : list tok :=
  match q with [] => [] | _ :: q' => TK KDot :: TId (col_first q' n) :: col_tail q' n end.
Lemma col_toks_eq q n : col_toks q n = TId (col_first q n) :: col_tail q n.
Proof. induction q as [|a q IH]; [reflexivity|]. cbn [col_toks col_first col_tail]. rewrite IH. reflexivity. Qed.

Definition is_dot_head (ts : list tok) : bool := match ts with TK KDot :: _ => true | _ => false end.
Lemma pcol_stop acc n ts : is_dot_head ts = false -> pcol acc n ts = Some (acc, n, ts).
Proof.
  intros H. destruct ts as [|[? ?|?|k] ts]; try reflexivity. destruct k; try reflexivity. discriminate H.
Qed.
Lemma pcol_spec q : forall acc n rest,
  length acc + length q <= 2 -> is_dot_head rest = false ->
  pcol acc (col_first q n) (col_tail q n ++ rest) = Some (acc ++ q, n, rest).
Proof.
  induction q as [|a q IH]; intros acc n rest Hlen Hd.
  - cbn [col_first col_tail app]. rewrite app_nil_r. apply pcol_stop. exact Hd.
  - cbn [col_first col_tail app pcol]. cbn [length] in Hlen.
    replace (length acc <? 2) with true by (symmetry; apply Nat.ltb_lt; lia).
    rewrite IH; [|rewrite app_length; cbn [length]; lia|exact Hd].
    rewrite <- app_assoc. reflexivity.
Qed.
Lemma stops_no_dot b rest : stopsb b rest = true -> is_dot_head rest = false.
Proof. destruct rest as [|[? ?|?|k] ?]; try reflexivity. destruct k; try reflexivity. discriminate. Qed.
Lemma stops_no_lparen {A} b rest (X : list tok -> A) (Y : A) :
  stopsb b rest = true -> match rest with TK KLParen :: ts3 => X ts3 | _ => Y end = Y.
Proof. destruct rest as [|[? ?|?|k] ?]; try reflexivity. destruct k; try reflexivity. discriminate. Qed.

Lemma good_head_not_rparen {A} ts (X : list tok -> A) (Y : A) :
  good_head ts -> match ts with TK KRParen :: ts4 => X ts4 | _ => Y end = Y.
Proof. destruct ts as [|[? ?|?|k] ?]; try reflexivity. destruct k; try reflexivity. intros []. Qed.

Lemma print_list_good_head x xs : good_head (print_list (x :: xs)).
Proof.
  destruct xs; cbn [print_list]; [apply print_good_head|apply good_head_app, print_good_head].
Qed.

Lemma Forall_Pst_C (P : expr -> Prop) xs : Forall (fun e => Cst e /\ P e) xs -> Forall Cst xs.
Proof. induction 1; constructor; tauto. Qed.
